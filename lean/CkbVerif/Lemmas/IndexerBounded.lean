import CkbVerif.Lemmas.IndexerOrder
import CkbVerif.Lemmas.IndexerChain

/-! In-range numbers (u64 block number, u32 indices): an invariant of every store built by `append`
of in-range blocks; on in-range keys of the script-indexed families `Key.bytes` is injective, so the
prefix scan is STRICTLY ascending (C18: order / cursor). -/
namespace CkbVerif.Indexer
open CkbVerif.Gen.Indexer

/-- block number fits u64, tx index and cell index fit u32 (script-indexed key families) -/
def Key.bounded : Key → Bool
  | .cellLock _ bn tx io | .cellType _ bn tx io | .txLock _ bn tx io _ | .txType _ bn tx io _ =>
    decide (bn < 256 ^ 8) && decide (tx < 256 ^ 4) && decide (io < 256 ^ 4)
  | _ => true

def KeysBounded (s : Store) : Prop := ∀ e ∈ s, e.1.bounded = true

/-- a block as the chain delivers it: u64 number, at most 2^32 transactions / inputs / outputs -/
def BlockBounded (b : Block) : Prop :=
  b.number < 256 ^ 8 ∧ b.txs.length ≤ 256 ^ 4 ∧
    ∀ tx ∈ b.txs, tx.inputs.length ≤ 256 ^ 4 ∧ tx.outputs.length ≤ 256 ^ 4

def blockBoundedB (b : Block) : Bool :=
  decide (b.number < 256 ^ 8) && decide (b.txs.length ≤ 256 ^ 4) &&
    b.txs.all fun tx => decide (tx.inputs.length ≤ 256 ^ 4) && decide (tx.outputs.length ≤ 256 ^ 4)

theorem blockBounded_of_B (b : Block) (h : blockBoundedB b = true) : BlockBounded b := by
  simp only [blockBoundedB, Bool.and_eq_true, decide_eq_true_eq, List.all_eq_true] at h
  exact ⟨h.1.1, h.1.2, h.2⟩

theorem keysBounded_commit (ops : List BOp) (s : Store) (h : KeysBounded s)
    (hops : ∀ k v, BOp.put k v ∈ ops → k.bounded = true) : KeysBounded (commit s ops) := by
  intro e he
  rcases mem_commit ops s e he with h1 | h1
  · exact h e h1
  · exact hops _ _ h1

theorem lt_len_of_getElem? {α : Type} (l : List α) (i : Nat) (a : α) (h : l[i]? = some a) : i < l.length :=
  (List.getElem?_eq_some_iff.mp h).1

theorem appendOps_bounded (s : Store) (b : Block) (hb : BlockBounded b) (k : Key) (v : Val)
    (h : BOp.put k v ∈ appendOps s b) : k.bounded = true := by
  obtain ⟨hn, hl, htx⟩ := hb
  rw [appendOps_eq, List.mem_append] at h
  rcases h with h | h
  · rw [mem_txsOps] at h
    obtain ⟨tx, i, hi, h⟩ := h
    have hil : i < 256 ^ 4 := Nat.lt_of_lt_of_le (lt_len_of_getElem? _ _ _ hi) hl
    obtain ⟨hin, hout⟩ := htx tx (List.mem_of_getElem? hi)
    rcases h with h | h | ⟨_, h⟩
    · rw [mem_inputsOps] at h
      obtain ⟨_, op, ii, c, hop, _, h⟩ := h
      have hii : ii < 256 ^ 4 := Nat.lt_of_lt_of_le (lt_len_of_getElem? _ _ _ hop) hin
      rw [mem_consumeOps] at h
      rcases h with h | h | ⟨t, _, h | h⟩ | h | h <;> cases h <;> simp [Key.bounded, hn, hil, hii]
    · rw [mem_outputsOps] at h
      obtain ⟨out, oi, hoo, h⟩ := h
      have hoi : oi < 256 ^ 4 := Nat.lt_of_lt_of_le (lt_len_of_getElem? _ _ _ hoo) hout
      rw [mem_createOps] at h
      rcases h with h | h | ⟨t, _, h | h⟩ | h <;> cases h <;> simp [Key.bounded, hn, hil, hoi]
    · cases h; rfl
  · simp only [List.mem_singleton] at h
    obtain ⟨f, l, hh⟩ := headerOp_eq s b
    rw [hh] at h
    cases h; rfl

theorem keysBounded_append (keep interval : Nat) (s : Store) (b : Block) (h : KeysBounded s)
    (hb : BlockBounded b) : KeysBounded (append keep interval s b) := by
  have hcore : KeysBounded (appendCore s b) :=
    keysBounded_commit _ _ h (fun k v hk => appendOps_bounded s b hb k v hk)
  unfold append
  dsimp only
  split
  · intro e he
    apply hcore e
    apply mem_commit_dels _ _ _ _ he
    intro o ho
    obtain ⟨k, hk, _⟩ := pruneOps_dels _ keep o ho
    exact ⟨k, hk⟩
  · exact hcore

theorem keysBounded_chain (keep interval : Nat) (blocks : List Block) (s : Store) (h : KeysBounded s)
    (hb : ∀ b ∈ blocks, BlockBounded b) : KeysBounded (blocks.foldl (append keep interval) s) := by
  induction blocks generalizing s with
  | nil => exact h
  | cons b r ih =>
    exact ih _ (keysBounded_append keep interval s b h (hb b (by simp))) (fun b' hb' => hb b' (by simp [hb']))

/-! ## `Key.bytes` is injective on in-range script-indexed keys -/

def Key.isScriptKey : Key → Bool
  | .cellLock .. | .cellType .. | .txLock .. | .txType .. => true
  | _ => false

theorem tail_inj (a1 a2 : List Nat) (bn1 bn2 tx1 tx2 io1 io2 : Nat) (t1 t2 : List Nat)
    (hl : t1.length = t2.length)
    (hb1 : bn1 < 256 ^ 8) (hb2 : bn2 < 256 ^ 8) (ht1 : tx1 < 256 ^ 4) (ht2 : tx2 < 256 ^ 4)
    (hi1 : io1 < 256 ^ 4) (hi2 : io2 < 256 ^ 4)
    (h : a1 ++ (be bn1 8 ++ (be tx1 4 ++ (be io1 4 ++ t1))) = a2 ++ (be bn2 8 ++ (be tx2 4 ++ (be io2 4 ++ t2)))) :
    a1 = a2 ∧ bn1 = bn2 ∧ tx1 = tx2 ∧ io1 = io2 ∧ t1 = t2 := by
  obtain ⟨h1, h2⟩ := List.append_inj' h (by simp [be_length, hl])
  obtain ⟨h3, h4⟩ := List.append_inj h2 (by simp [be_length])
  obtain ⟨h5, h6⟩ := List.append_inj h4 (by simp [be_length])
  obtain ⟨h7, h8⟩ := List.append_inj h6 (by simp [be_length])
  exact ⟨h1, be_inj 8 _ _ hb1 hb2 h3, be_inj 4 _ _ ht1 ht2 h5, be_inj 4 _ _ hi1 hi2 h7, h8⟩

theorem ioByte_inj (t t' : IoType) (h : [ioByte t] = [ioByte t']) : t = t' := by
  cases t <;> cases t' <;> simp [ioByte] at h <;> rfl

theorem bytes_inj (k1 k2 : Key) (hs : k1.isScriptKey = true) (hb1 : k1.bounded = true)
    (hb2 : k2.bounded = true) (h : k1.bytes = k2.bytes) : k1 = k2 := by
  cases k1 with
  | cellLock s1 bn1 tx1 io1 =>
    cases k2 with
    | cellLock s2 bn2 tx2 io2 =>
      simp only [Key.bounded, Bool.and_eq_true, decide_eq_true_eq] at hb1 hb2
      simp only [Key.bytes, scriptRaw, List.cons_append, List.nil_append, List.cons.injEq, true_and] at h
      obtain ⟨hc, h⟩ := h
      obtain ⟨ha, rfl, rfl, rfl, _⟩ := tail_inj s1.args s2.args bn1 bn2 tx1 tx2 io1 io2 [] [] rfl hb1.1.1 hb2.1.1
        hb1.1.2 hb2.1.2 hb1.2 hb2.2 (by simpa [List.append_assoc] using h)
      cases s1; cases s2; simp_all
    | _ => simp [Key.bytes, KP_OUT_POINT, KP_CONSUMED_OUT_POINT, KP_CELL_LOCK_SCRIPT, KP_CELL_TYPE_SCRIPT,
        KP_TX_LOCK_SCRIPT, KP_TX_TYPE_SCRIPT, KP_TX_HASH, KP_HEADER] at h
  | cellType s1 bn1 tx1 io1 =>
    cases k2 with
    | cellType s2 bn2 tx2 io2 =>
      simp only [Key.bounded, Bool.and_eq_true, decide_eq_true_eq] at hb1 hb2
      simp only [Key.bytes, scriptRaw, List.cons_append, List.nil_append, List.cons.injEq, true_and] at h
      obtain ⟨hc, h⟩ := h
      obtain ⟨ha, rfl, rfl, rfl, _⟩ := tail_inj s1.args s2.args bn1 bn2 tx1 tx2 io1 io2 [] [] rfl hb1.1.1 hb2.1.1
        hb1.1.2 hb2.1.2 hb1.2 hb2.2 (by simpa [List.append_assoc] using h)
      cases s1; cases s2; simp_all
    | _ => simp [Key.bytes, KP_OUT_POINT, KP_CONSUMED_OUT_POINT, KP_CELL_LOCK_SCRIPT, KP_CELL_TYPE_SCRIPT,
        KP_TX_LOCK_SCRIPT, KP_TX_TYPE_SCRIPT, KP_TX_HASH, KP_HEADER] at h
  | txLock s1 bn1 tx1 io1 t1 =>
    cases k2 with
    | txLock s2 bn2 tx2 io2 t2 =>
      simp only [Key.bounded, Bool.and_eq_true, decide_eq_true_eq] at hb1 hb2
      simp only [Key.bytes, scriptRaw, List.cons_append, List.nil_append, List.cons.injEq, true_and] at h
      obtain ⟨hc, h⟩ := h
      obtain ⟨ha, rfl, rfl, rfl, ht⟩ := tail_inj s1.args s2.args bn1 bn2 tx1 tx2 io1 io2 [ioByte t1] [ioByte t2] rfl
        hb1.1.1 hb2.1.1 hb1.1.2 hb2.1.2 hb1.2 hb2.2 (by simpa [List.append_assoc] using h)
      have := ioByte_inj _ _ ht
      cases s1; cases s2; simp_all
    | _ => simp [Key.bytes, KP_OUT_POINT, KP_CONSUMED_OUT_POINT, KP_CELL_LOCK_SCRIPT, KP_CELL_TYPE_SCRIPT,
        KP_TX_LOCK_SCRIPT, KP_TX_TYPE_SCRIPT, KP_TX_HASH, KP_HEADER] at h
  | txType s1 bn1 tx1 io1 t1 =>
    cases k2 with
    | txType s2 bn2 tx2 io2 t2 =>
      simp only [Key.bounded, Bool.and_eq_true, decide_eq_true_eq] at hb1 hb2
      simp only [Key.bytes, scriptRaw, List.cons_append, List.nil_append, List.cons.injEq, true_and] at h
      obtain ⟨hc, h⟩ := h
      obtain ⟨ha, rfl, rfl, rfl, ht⟩ := tail_inj s1.args s2.args bn1 bn2 tx1 tx2 io1 io2 [ioByte t1] [ioByte t2] rfl
        hb1.1.1 hb2.1.1 hb1.1.2 hb2.1.2 hb1.2 hb2.2 (by simpa [List.append_assoc] using h)
      have := ioByte_inj _ _ ht
      cases s1; cases s2; simp_all
    | _ => simp [Key.bytes, KP_OUT_POINT, KP_CONSUMED_OUT_POINT, KP_CELL_LOCK_SCRIPT, KP_CELL_TYPE_SCRIPT,
        KP_TX_LOCK_SCRIPT, KP_TX_TYPE_SCRIPT, KP_TX_HASH, KP_HEADER] at h
  | _ => simp [Key.isScriptKey] at hs

/-! ## the scan is strictly ascending -/

theorem nodupKeys_pairwise (s : Store) (h : NodupKeys s) : s.Pairwise fun x y => x.1 ≠ y.1 := by
  induction s with
  | nil => exact List.Pairwise.nil
  | cons e r ih =>
    obtain ⟨h1, h2⟩ := h
    rw [List.pairwise_cons]
    refine ⟨?_, ih h2⟩
    intro y hy heq
    have : get r e.1 ≠ none := by
      rw [heq]
      intro hn
      have : ∀ (l : Store), y ∈ l → get l y.1 ≠ none := by
        intro l hl
        induction l with
        | nil => cases hl
        | cons a t iht =>
          rw [get_cons]
          split
          · simp
          · rename_i hne
            rcases List.mem_cons.mp hl with rfl | hl
            · exact absurd rfl hne
            · exact iht hl
      exact this r hy hn
    exact this h1

/-- a key that starts with a script-family prefix byte is a script-indexed key -/
theorem isScriptKey_of_prefix (k : Key) (fam : Nat) (rest : List Nat)
    (hf : fam = KP_CELL_LOCK_SCRIPT ∨ fam = KP_CELL_TYPE_SCRIPT ∨ fam = KP_TX_LOCK_SCRIPT ∨ fam = KP_TX_TYPE_SCRIPT)
    (h : isPrefix (fam :: rest) k.bytes = true) : k.isScriptKey = true := by
  rcases hf with rfl | rfl | rfl | rfl <;>
    cases k <;> simp [Key.bytes, isPrefix, Key.isScriptKey, KP_CELL_LOCK_SCRIPT, KP_OUT_POINT,
      KP_CONSUMED_OUT_POINT, KP_CELL_TYPE_SCRIPT, KP_TX_LOCK_SCRIPT, KP_TX_TYPE_SCRIPT, KP_TX_HASH,
      KP_HEADER] at h ⊢

/-- **the prefix scan of a script-indexed family is STRICTLY ascending in key bytes** -/
theorem scan_strict (s : Store) (hnd : NodupKeys s) (hkb : KeysBounded s) (fam : Nat) (rest : List Nat)
    (hf : fam = KP_CELL_LOCK_SCRIPT ∨ fam = KP_CELL_TYPE_SCRIPT ∨ fam = KP_TX_LOCK_SCRIPT ∨ fam = KP_TX_TYPE_SCRIPT) :
    (scan s (fam :: rest)).Pairwise rowLt := by
  unfold scan
  apply sortRows_strict
  have hp := (nodupKeys_pairwise s hnd).sublist (List.filter_sublist (p := fun e => isPrefix (fam :: rest) e.1.bytes))
  apply List.Pairwise.imp_of_mem _ hp
  intro x y hx hy hne heq
  rw [List.mem_filter] at hx hy
  exact hne (bytes_inj x.1 y.1 (isScriptKey_of_prefix _ fam rest hf hx.2) (hkb x hx.1) (hkb y hy.1) heq)

end CkbVerif.Indexer
