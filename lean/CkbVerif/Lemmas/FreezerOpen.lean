import CkbVerif.Lemmas.Freezer

/-! Helper lemmas for C09, round 6: `open` as a decision table over arbitrary disks, and the
power-loss reading (data files — older ones included — cut to any prefix). -/
namespace CkbVerif.Freezer

theorem setFile_self (files : Nat → Bytes) (id : Nat) : setFile files id (files id) = files := by
  funext i; unfold setFile; split <;> simp_all

theorem fits_iff (files : Nat → Bytes) (e : Entry) : fits files e = true ↔ e.off ≤ (files e.fid).length := by
  simp [fits]

/-- the repair loop (as repaired), started on the newest entry's file, IS the table -/
theorem repair_eq_table (files : Nat → Bytes) : ∀ (rest : List Entry) (e : Entry),
    repair true (e :: rest) files e.fid (files e.fid).length = repairTable files (e :: rest)
  | [], e => by
    unfold repair repairTable lastFit
    by_cases h1 : e.off = (files e.fid).length
    · simp [h1, fits, setFile_self]
    · by_cases h2 : e.off < (files e.fid).length
      · have hf : fits files e = true := by simp [fits]; omega
        simp [h1, h2, hf, setLen_of_le (Nat.le_of_lt h2)]
      · have hf : fits files e = false := by simp [fits]; omega
        simp [h1, h2, hf, lastFit]
  | e' :: r, e => by
    have ih := repair_eq_table files r e'
    unfold repair
    by_cases h1 : e.off = (files e.fid).length
    · simp [h1, repairTable, lastFit, fits, setFile_self]
    · by_cases h2 : e.off < (files e.fid).length
      · have hf : fits files e = true := by simp [fits]; omega
        simp [h1, h2, repairTable, lastFit, hf, setLen_of_le (Nat.le_of_lt h2)]
      · have hf : fits files e = false := by simp [fits]; omega
        have ht : repairTable files (e :: e' :: r) = repairTable files (e' :: r) := by
          simp [repairTable, lastFit, hf]
        rw [ht, ← ih]
        simp only [h1, h2, if_false]
        by_cases h3 : e'.fid ≠ e.fid
        · simp [h3]
        · have h3' : e'.fid = e.fid := by simpa using h3
          simp [h3']

theorem lastFit_none_iff (files : Nat → Bytes) : ∀ (rev : List Entry),
    lastFit files rev = none ↔ ∀ e ∈ rev, fits files e = false
  | [] => by simp [lastFit]
  | e :: rest => by
    have ih := lastFit_none_iff files rest
    unfold lastFit
    by_cases hf : fits files e = true
    · simp [hf]
    · have hf' : fits files e = false := by simpa using hf
      simp [hf', ih]

/-- `lastFit` returns a suffix that starts with a fitting entry, and nothing it skipped fits -/
theorem lastFit_some (files : Nat → Bytes) : ∀ (rev r : List Entry), lastFit files rev = some r →
    ∃ pre e rest, rev = pre ++ r ∧ r = e :: rest ∧ fits files e = true ∧ ∀ q ∈ pre, fits files q = false
  | [], r, h => by simp [lastFit] at h
  | e :: rest, r, h => by
    unfold lastFit at h
    by_cases hf : fits files e = true
    · simp [hf] at h
      exact ⟨[], e, rest, by simp [h], h.symm, hf, by simp⟩
    · have hf' : fits files e = false := by simpa using hf
      simp [hf'] at h
      obtain ⟨pre, e2, rest2, h1, h2, h3, h4⟩ := lastFit_some files rest r h
      refine ⟨e :: pre, e2, rest2, by simp [h1], h2, h3, ?_⟩
      intro q hq
      rcases List.mem_cons.mp hq with rfl | hq
      · exact hf'
      · exact h4 q hq

theorem lastFit_ne_nil (files : Nat → Bytes) (rev : List Entry) : lastFit files rev ≠ some [] := by
  intro h
  obtain ⟨_, _, _, _, h2, _⟩ := lastFit_some files rev [] h
  cases h2

/-- `open` = the decision table, on every disk -/
theorem open_eq_table (d : Disk) : «open» d = openTable d := by
  unfold «open» openWith openIndex openTable
  cases hidx : d.idx with
  | nil =>
    by_cases ht : d.tail = 0
    · simp only [List.isEmpty_nil, ht, if_true, List.reverse_cons, List.reverse_nil, List.nil_append,
        ne_eq, not_true_eq_false, and_false, if_false]
      rw [repair_eq_table]
      simp only [repairTable]
      cases hl : lastFit d.files [⟨0, 0⟩] with
      | none => rfl
      | some r =>
        cases r with
        | nil => exact absurd hl (lastFit_ne_nil _ _)
        | cons e rest => simp
    · simp [ht]
  | cons a l =>
    simp only [List.isEmpty_cons, Bool.false_eq_true, if_false, false_and]
    cases hr : (a :: l).reverse with
    | nil => simp at hr
    | cons last rest =>
      simp only
      rw [repair_eq_table]
      simp only [repairTable]
      cases hl : lastFit d.files (last :: rest) with
      | none => rfl
      | some r =>
        cases r with
        | nil => exact absurd hl (lastFit_ne_nil _ _)
        | cons e rest' => simp

/-! ### reading from a cut file -/

/-- what is read from a prefix of a file is what would be read from the file -/
theorem readRange_of_take {b : Bytes} {m s e : Nat} {x : Bytes}
    (h : readRange (b.take m) s e = some x) : readRange b s e = some x := by
  rw [readRange_some_iff] at h ⊢
  obtain ⟨h1, h2, h3⟩ := h
  have hl : e ≤ b.length := by simp at h2; omega
  have hm : e ≤ m := by simp at h2; omega
  refine ⟨h1, hl, ?_⟩
  rw [h3, List.drop_take, List.take_take]
  congr 1
  omega

theorem readRange_take_ite {b : Bytes} {s e m : Nat} {x : Bytes} (h : readRange b s e = some x) :
    readRange (b.take m) s e = if e ≤ (b.take m).length then some x else none := by
  split
  · rename_i hle
    exact readRange_take h (by simp at hle; omega)
  · rename_i hle
    unfold readRange
    have : ¬ (s ≤ e ∧ e ≤ (List.take m b).length) := fun hh => hle hh.2
    simp only [this, if_false]

/-! ### power loss: every data file (older ones too) cut to a prefix -/

/-- `d` is a power-loss image of `d0`: the INDEX keeps its first `k ≥ 1` entries (and any partial
    entry after them), every data file — not only the head — keeps some prefix of its bytes -/
structure PowerCut (d0 d : Disk) : Prop where
  idx : ∃ k, 1 ≤ k ∧ d.idx = d0.idx.take k
  files : ∀ i, ∃ m, d.files i = (d0.files i).take m

theorem Good.idx_head {d : Disk} {items : List Bytes} (g : Good d items) :
    ∃ l, d.idx = ⟨0, 0⟩ :: l := by
  have h0 := RChain.first g.chain
  simp only [List.reverse_reverse] at h0
  cases hd : d.idx with
  | nil => rw [hd] at h0; simp at h0
  | cons a l => rw [hd] at h0; simp at h0; exact ⟨l, by rw [h0]⟩

theorem take_take_files {b : Bytes} (m k : Nat) : (b.take m).take k = b.take (min k m) := by
  rw [List.take_take]

/-- re-opening a power-loss image always succeeds and keeps a prefix of the INDEX; the data files
    stay prefixes of the original ones -/
theorem open_powercut {d0 d : Disk} {items : List Bytes} (g : Good d0 items) (pc : PowerCut d0 d) :
    ∃ h d2 n, «open» d = some (h, d2) ∧ h.number = n + 1 ∧ n ≤ items.length ∧
      d2.idx = d0.idx.take (n + 1) ∧ (∀ i, ∃ m, d2.files i = (d0.files i).take m) ∧
      (∀ e, d0.idx[n]? = some e → h.headId = e.fid ∧ h.headBytes = e.off ∧
        e.off ≤ (d.files e.fid).length ∧ (d2.files e.fid).length = e.off ∧
        ∀ i, i ≠ e.fid → d2.files i = d.files i) ∧
      (∀ j e, n < j → d.idx[j]? = some e → (d.files e.fid).length < e.off) := by
  obtain ⟨k, hk1, hk⟩ := pc.idx
  obtain ⟨l, hl⟩ := g.idx_head
  have hlen0 := g.idx_length
  have hne : d.idx.isEmpty = false := by
    rw [hk, hl]; cases k with
    | zero => omega
    | succ k => rfl
  -- the oldest entry fits, so the table finds one
  have hfirst : ⟨0, 0⟩ ∈ d.idx.reverse := by
    rw [hk, hl]; cases k with
    | zero => omega
    | succ k => simp
  rw [open_eq_table]
  unfold openTable
  simp only [hne, Bool.false_eq_true, false_and, if_false]
  cases hlf : lastFit d.files d.idx.reverse with
  | none =>
    have := (lastFit_none_iff d.files _).mp hlf _ hfirst
    simp [fits] at this
  | some r =>
    obtain ⟨pre, e, rest, hsplit, hr, hfit, hpre⟩ := lastFit_some d.files _ r hlf
    subst hr
    simp only
    have hidx : d.idx = (e :: rest).reverse ++ pre.reverse := by
      have := congrArg List.reverse hsplit
      simpa using this
    have hrl : (e :: rest).reverse.length = rest.length + 1 := by simp
    have hkl : d.idx.length = min k d0.idx.length := by rw [hk]; simp
    have hdl : d.idx.length = rest.length + 1 + pre.length := by rw [hidx]; simp; omega
    have htake : (e :: rest).reverse = d0.idx.take (rest.length + 1) := by
      have h1 : d.idx.take (rest.length + 1) = (e :: rest).reverse := by
        rw [hidx, List.take_append_of_le_length (by simp)]
        rw [List.take_of_length_le (by simp)]
      rw [← h1, hk, List.take_take]
      congr 1
      omega
    refine ⟨_, _, rest.length, rfl, rfl, by omega, htake, ?_, ?_, ?_⟩
    · intro i
      obtain ⟨m, hm⟩ := pc.files i
      by_cases hi : i = e.fid
      · subst hi
        simp only [setFile_same]
        rw [hm, List.take_take]
        exact ⟨_, rfl⟩
      · simp only [setFile_other _ _ _ _ hi]
        exact ⟨m, hm⟩
    · intro e' he'
      have he : d0.idx[rest.length]? = some e := by
        have : (d0.idx.take (rest.length + 1))[rest.length]? = some e := by
          rw [← htake]; simp
        rw [List.getElem?_take] at this
        simpa using this
      rw [he] at he'
      cases he'
      have hf := (fits_iff _ _).mp hfit
      refine ⟨rfl, rfl, hf, ?_, ?_⟩
      · simp only [setFile_same]; simp; omega
      · intro i hi; simp only [setFile_other _ _ _ _ hi]
    · intro j e' hj he'
      rw [hidx, List.getElem?_append_right (by simp; omega)] at he'
      have hmem : e' ∈ pre := by
        have := List.mem_of_getElem? he'
        simpa using this
      have := hpre e' hmem
      simp [fits] at this
      exact this

/-- what `retrieve` answers for a stored item after a power loss: its bytes if the file that
    holds it still reaches the item's end offset, an error otherwise — never other bytes -/
theorem retrieve_powercut {h : Handle} {d0 d2 : Disk} {items : List Bytes} (g : Good d0 items)
    (n : Nat) (hn : n ≤ items.length) (hidx : d2.idx = d0.idx.take (n + 1)) (hnum : h.number = n + 1)
    (hfiles : ∀ i, ∃ m, d2.files i = (d0.files i).take m)
    (i : Nat) (it : Bytes) (e : Entry) (hi1 : 1 ≤ i) (hin : i ≤ n) (hit : items[i - 1]? = some it)
    (he : d0.idx[i]? = some e) :
    retrieve h d2 i = if e.off ≤ (d2.files e.fid).length then .some it else .err := by
  have hlen := g.idx_length
  obtain ⟨p, hp⟩ : ∃ p, d0.idx[i - 1]? = some p := ⟨d0.idx[i - 1]'(by omega), List.getElem?_eq_getElem _⟩
  have hstep : Step d0.files p e it :=
    RChain.step_at g.chain (i - 1) p e it (by simpa using hp)
      (by rw [show i - 1 + 1 = i by omega]; simpa using he) (by simpa using hit)
  have he2 : d2.idx[i]? = some e := by rw [hidx, List.getElem?_take]; simp [he]; omega
  have hp2 : d2.idx[i - 1]? = some p := by rw [hidx, List.getElem?_take]; simp [hp]; omega
  have hnum' : ¬ h.number ≤ i := by omega
  have hlt : ¬ i < 1 := by omega
  obtain ⟨m, hm⟩ := hfiles e.fid
  unfold retrieve getBounds
  simp only [hlt, hnum', if_false, he2]
  by_cases h1 : i = 1
  · subst h1
    have h0 := RChain.first g.chain
    simp only [List.reverse_reverse] at h0
    simp only [Nat.sub_self] at hp
    rw [h0] at hp
    cases hp
    simp only [if_true]
    rcases hstep with hs | hs
    · have hfid : e.fid = 0 := hs.1
      have hr : readRange (d0.files e.fid) 0 e.off = some it := by rw [hfid]; exact hs.2.2
      rw [hm, readRange_take_ite hr]
      by_cases hc : e.off ≤ (List.take m (d0.files e.fid)).length <;> simp only [hc, ↓reduceIte]
    · rw [hm, readRange_take_ite hs.2.2]
      by_cases hc : e.off ≤ (List.take m (d0.files e.fid)).length <;> simp only [hc, ↓reduceIte]
  · simp only [h1, if_false, hp2]
    rcases hstep with hs | hs
    · have hne : ¬ (p.fid ≠ e.fid) := by rw [hs.1]; simp
      simp only [hne, if_false]
      have hr := hs.2.2
      rw [← hs.1] at hr
      rw [hm, readRange_take_ite hr]
      by_cases hc : e.off ≤ (List.take m (d0.files e.fid)).length <;> simp only [hc, ↓reduceIte]
    · have hne : p.fid ≠ e.fid := by rw [hs.1]; omega
      simp only [hne, if_true, ne_eq, not_false_eq_true]
      rw [hm, readRange_take_ite hs.2.2]
      by_cases hc : e.off ≤ (List.take m (d0.files e.fid)).length <;> simp only [hc, ↓reduceIte]

/-! ### the table read as statements -/

theorem open_none_iff (d : Disk) :
    «open» d = none ↔ (d.idx = [] ∧ d.tail ≠ 0) ∨
      (d.idx ≠ [] ∧ ∀ e ∈ d.idx, (d.files e.fid).length < e.off) := by
  rw [open_eq_table]
  unfold openTable
  cases hidx : d.idx with
  | nil =>
    by_cases ht : d.tail = 0
    · simp [ht, lastFit, fits]
    · simp [ht]
  | cons a l =>
    simp only [List.isEmpty_cons, Bool.false_eq_true, false_and, if_false]
    cases hlf : lastFit d.files (a :: l).reverse with
    | none =>
      have := (lastFit_none_iff d.files _).mp hlf
      simp only [true_iff]
      right
      refine ⟨by simp, fun e he => ?_⟩
      have := this e (List.mem_reverse.mpr he)
      simp [fits] at this
      exact this
    | some r =>
      obtain ⟨pre, e, rest, hsplit, hr, hfit, _⟩ := lastFit_some d.files _ r hlf
      subst hr
      simp only [reduceCtorEq, false_iff]
      intro hc
      rcases hc with hc | hc
      · simp at hc
      · have hmem : e ∈ a :: l := by
          have : e ∈ (a :: l).reverse := by rw [hsplit]; simp
          exact List.mem_reverse.mp this
        have := hc.2 e hmem
        have hf := (fits_iff _ _).mp hfit
        omega

theorem open_some_result {d : Disk} {h : Handle} {d' : Disk} (ho : «open» d = some (h, d'))
    (hne : d.idx ≠ []) :
    ∃ n e, h.number = n + 1 ∧ d.idx[n]? = some e ∧ d'.idx = d.idx.take (n + 1) ∧ d'.tail = 0 ∧
      h.headId = e.fid ∧ h.headBytes = e.off ∧ e.off ≤ (d.files e.fid).length ∧
      d'.files = setFile d.files e.fid ((d.files e.fid).take e.off) ∧
      ∀ j q, n < j → d.idx[j]? = some q → (d.files q.fid).length < q.off := by
  rw [open_eq_table] at ho
  unfold openTable at ho
  have hemp : d.idx.isEmpty = false := by
    cases hd : d.idx with
    | nil => exact absurd hd hne
    | cons a l => rfl
  simp only [hemp, Bool.false_eq_true, false_and, if_false] at ho
  cases hlf : lastFit d.files d.idx.reverse with
  | none => rw [hlf] at ho; cases ho
  | some r =>
    obtain ⟨pre, e, rest, hsplit, hr, hfit, hpre⟩ := lastFit_some d.files _ r hlf
    subst hr
    rw [hlf] at ho
    simp only [Option.some.injEq, Prod.mk.injEq] at ho
    obtain ⟨hh, hd'⟩ := ho
    subst hh hd'
    have hidx : d.idx = (e :: rest).reverse ++ pre.reverse := by
      have := congrArg List.reverse hsplit
      simpa using this
    have htake : d.idx.take (rest.length + 1) = (e :: rest).reverse := by
      rw [hidx, List.take_append_of_le_length (by simp)]
      rw [List.take_of_length_le (by simp)]
    refine ⟨rest.length, e, rfl, ?_, htake.symm, rfl, rfl, rfl, (fits_iff _ _).mp hfit, rfl, ?_⟩
    · rw [hidx, List.getElem?_append_left (by simp)]
      simp
    · intro j q hj hq
      rw [hidx, List.getElem?_append_right (by simp; omega)] at hq
      have hmem : q ∈ pre := by
        have := List.mem_of_getElem? hq
        simpa using this
      have := hpre q hmem
      simp [fits] at this
      exact this

theorem open_empty_index {d : Disk} (hi : d.idx = []) (ht : d.tail = 0) :
    ∃ h, «open» d = some (h, { idx := [⟨0, 0⟩], tail := 0, files := setFile d.files 0 [] }) ∧
      h.number = 1 ∧ h.headId = 0 ∧ h.headBytes = 0 := by
  rw [open_eq_table]
  unfold openTable
  simp [hi, ht, lastFit, fits]

end CkbVerif.Freezer
