import CkbVerif.Lemmas.MMRPos
import CkbVerif.Lemmas.MMRExpr
/-!
# Perfect trees inside the MMR: layout, nodes, `sibParent`

A mountain of height `H` laid out from offset `off` occupies the positions
`off … off + 2^(H+1) - 2` (post-order); its root is the last one.  `Sub off H` says that
`pos_height_in_tree` answers inside that range as it does inside the first mountain; it holds for
every mountain of an MMR (`Lemmas/MMRComplete.lean`) and is inherited by subtrees.  The facts proved
here are what the queue loops of `gen_proof` / `calculate_root` need about one node: where its
sibling and parent are and what they hold.
-/
namespace CkbVerif.MMR

variable {α : Type}

/-! ## fuel independence of `pos_height_in_tree` -/

theorem posHeightAux_fuel_succ : ∀ (f x : Nat), x < 2 ^ f → posHeightAux f x = posHeightAux (f + 1) x := by
  intro f
  induction f with
  | zero =>
    intro x hx
    have : x = 0 := by simpa using hx
    subst this
    simp [posHeightAux, allOnes, jumpLeft]
  | succ f ih =>
    intro x hx
    by_cases hz : x = 0
    · subst hz; simp [posHeightAux, allOnes, jumpLeft]
    · have hlt : x.log2 < f + 1 := (Nat.log2_lt hz).2 hx
      have hle : 2 ^ x.log2 ≤ x := Nat.log2_self_le hz
      have hup : x < 2 ^ (x.log2 + 1) := Nat.lt_log2_self
      have p1 := two_pow_succ x.log2
      have hm : 2 ^ x.log2 ≤ 2 ^ f := two_pow_mono (by omega)
      simp only [posHeightAux]
      by_cases ha : allOnes x = true
      · simp [ha]
      · simp only [ha, if_false, Bool.false_eq_true]
        apply ih
        have hne : x + 1 ≠ 2 ^ (x.log2 + 1) := by
          intro h; apply ha
          simp [allOnes, hz, h]
        simp only [jumpLeft]
        omega

theorem posHeightAux_fuel (f f' x : Nat) (hx : x < 2 ^ f) (hff : f ≤ f') :
    posHeightAux f x = posHeightAux f' x := by
  induction f' with
  | zero => have : f = 0 := by omega
            subst this; rfl
  | succ f' ih =>
    by_cases h : f = f' + 1
    · subst h; rfl
    · have hle : f ≤ f' := by omega
      rw [ih hle]
      exact posHeightAux_fuel_succ f' x (Nat.lt_of_lt_of_le hx (two_pow_mono hle))

theorem posHeightInTree_root (k : Nat) : posHeightInTree (2 ^ (k + 1) - 2) = k := by
  have p0 := Nat.two_pow_pos k
  have p1 := two_pow_succ k
  unfold posHeightInTree
  have : 2 ^ (k + 1) - 2 + 1 = 2 ^ (k + 1) - 1 := by omega
  rw [this]; exact posHeightAux_allOnes _ _

/-- jumping over a full left sibling subtree -/
theorem posHeightInTree_right (H q : Nat) (hq : q < 2 ^ (H + 1) - 1) :
    posHeightInTree (2 ^ (H + 1) - 1 + q) = posHeightInTree q := by
  have p0 := Nat.two_pow_pos H
  have p1 := two_pow_succ H
  have p2 := two_pow_succ (H + 1)
  unfold posHeightInTree
  have e : 2 ^ (H + 1) - 1 + q + 1 = (2 ^ (H + 1) + q - 1) + 1 := by omega
  rw [e, posHeightAux_jump (2 ^ (H + 1) + q - 1) H _ (by omega) (by omega)]
  have e2 : 2 ^ (H + 1) + q - 1 + 1 - (2 ^ (H + 1) - 1) = q + 1 := by omega
  rw [e2]
  symm
  apply posHeightAux_fuel
  · exact Nat.lt_two_pow_self
  · omega

/-- `pos_height_in_tree` inside the range of a mountain at `off` is as inside the first mountain -/
def Sub (off H : Nat) : Prop := ∀ q, q < 2 ^ (H + 1) - 1 → posHeightInTree (off + q) = posHeightInTree q

theorem Sub.left {off H : Nat} (h : Sub off (H + 1)) : Sub off H := by
  intro q hq
  have p1 := two_pow_succ (H + 1)
  exact h q (by omega)

theorem Sub.right {off H : Nat} (h : Sub off (H + 1)) : Sub (off + (2 ^ (H + 1) - 1)) H := by
  intro q hq
  have p0 := Nat.two_pow_pos H
  have p1 := two_pow_succ (H + 1)
  have := h (2 ^ (H + 1) - 1 + q) (by omega)
  rw [Nat.add_assoc, this, posHeightInTree_right H q hq]

theorem Sub_zero (H : Nat) : Sub 0 H := by
  intro q _; simp

/-! ## perfect trees -/

/-! Trees are `Expr α` (`Lemmas/MMRExpr.lean`): `atom` = leaf, `eval merge` = value. -/

/-- the store holds the perfect tree `t` of height `H` in post-order from `off` -/
def Lay (merge : α → α → α) (st : Store α) : Nat → Nat → Expr α → Prop
  | off, 0, .atom v => st off = some v
  | off, H + 1, .node l r =>
    Lay merge st off H l ∧ Lay merge st (off + (2 ^ (H + 1) - 1)) H r ∧
      st (off + 2 ^ (H + 1 + 1) - 2) = some (merge (l.eval merge) (r.eval merge))
  | _, _, _ => False

/-- root position of a tree of height `H` at `off` -/
def rp (off H : Nat) : Nat := off + 2 ^ (H + 1) - 2

/-- `(pos, h, v)` is a node of the tree `t` (height `H`, laid out from `off`) -/
inductive IsNode (merge : α → α → α) : Expr α → Nat → Nat → Nat → Nat → α → Prop where
  | root (t : Expr α) (H off : Nat) : IsNode merge t H off (rp off H) H (t.eval merge)
  | left {l r : Expr α} {H off pos h : Nat} {v : α} :
      IsNode merge l H off pos h v → IsNode merge (.node l r) (H + 1) off pos h v
  | right {l r : Expr α} {H off pos h : Nat} {v : α} :
      IsNode merge r H (off + (2 ^ (H + 1) - 1)) pos h v → IsNode merge (.node l r) (H + 1) off pos h v

theorem Lay_root {merge : α → α → α} {st : Store α} {off H : Nat} {t : Expr α} (h : Lay merge st off H t) :
    st (rp off H) = some (t.eval merge) := by
  cases t with
  | atom v =>
    cases H with
    | zero => simpa [rp, Lay, Expr.eval] using h
    | succ H => simp [Lay] at h
  | node l r =>
    cases H with
    | zero => simp [Lay] at h
    | succ H => exact h.2.2

section facts
variable {merge : α → α → α}

/-- range, height bound, and the root is the only node at its position / of its height -/
theorem IsNode.basic {t : Expr α} {H off pos h : Nat} {v : α} (hn : IsNode merge t H off pos h v) :
    off ≤ pos ∧ pos ≤ rp off H ∧ h ≤ H ∧ (pos = rp off H → h = H ∧ v = t.eval merge) ∧
      (h = H → pos = rp off H) := by
  induction hn with
  | root t H off =>
    have p0 := Nat.two_pow_pos H
    have p1 := two_pow_succ H
    refine ⟨by simp only [rp]; omega, Nat.le_refl _, Nat.le_refl _, fun _ => ⟨rfl, rfl⟩, fun _ => rfl⟩
  | @left l r H off pos h v _ ih =>
    obtain ⟨a, b, c, _, _⟩ := ih
    have p0 := Nat.two_pow_pos H
    have p1 := two_pow_succ H
    have p2 := two_pow_succ (H + 1)
    simp only [rp] at *
    refine ⟨a, by omega, by omega, fun e => by omega, fun e => by omega⟩
  | @right l r H off pos h v _ ih =>
    obtain ⟨a, b, c, _, _⟩ := ih
    have p0 := Nat.two_pow_pos H
    have p1 := two_pow_succ H
    have p2 := two_pow_succ (H + 1)
    simp only [rp] at *
    refine ⟨by omega, by omega, by omega, fun e => by omega, fun e => by omega⟩

theorem IsNode.stored {st : Store α} {t : Expr α} {H off pos h : Nat} {v : α}
    (hn : IsNode merge t H off pos h v) (hl : Lay merge st off H t) : st pos = some v := by
  induction hn with
  | root t H off => exact Lay_root hl
  | left _ ih => exact ih hl.1
  | right _ ih => exact ih hl.2.1

theorem IsNode.height {t : Expr α} {H off pos h : Nat} {v : α} (hn : IsNode merge t H off pos h v)
    (hs : Sub off H) : posHeightInTree pos = h := by
  induction hn with
  | root t H off =>
    have p0 := Nat.two_pow_pos H
    have p1 := two_pow_succ H
    have := hs (2 ^ (H + 1) - 2) (by omega)
    have e : rp off H = off + (2 ^ (H + 1) - 2) := by simp only [rp]; omega
    rw [e, this, posHeightInTree_root]
  | left _ ih => exact ih hs.left
  | right _ ih => exact ih hs.right

/-- every height-0 position in the range of the tree is one of its leaves -/
theorem leaf_isNode {st : Store α} : ∀ (t : Expr α) (H off pos : Nat), Lay merge st off H t → Sub off H →
    off ≤ pos → pos ≤ rp off H → posHeightInTree pos = 0 → ∃ v, IsNode merge t H off pos 0 v := by
  intro t
  induction t with
  | atom v =>
    intro H off pos hl hs h1 h2 h0
    cases H with
    | zero =>
      have : pos = rp off 0 := by simp only [rp] at *; omega
      rw [this]
      exact ⟨_, IsNode.root _ 0 off⟩
    | succ H => simp [Lay] at hl
  | node l r ihl ihr =>
    intro H off pos hl hs h1 h2 h0
    cases H with
    | zero => simp [Lay] at hl
    | succ H =>
      have p0 := Nat.two_pow_pos H
      have p1 := two_pow_succ H
      have p2 := two_pow_succ (H + 1)
      by_cases hroot : pos = rp off (H + 1)
      · exfalso
        have := (IsNode.root (merge := merge) (.node l r) (H + 1) off).height hs
        rw [← hroot, h0] at this
        omega
      · by_cases hlr : pos ≤ rp off H
        · obtain ⟨v, hv⟩ := ihl H off pos hl.1 hs.left h1 hlr h0
          exact ⟨v, hv.left⟩
        · obtain ⟨v, hv⟩ := ihr H (off + (2 ^ (H + 1) - 1)) pos hl.2.1 hs.right
            (by simp only [rp] at *; omega) (by simp only [rp] at *; omega) h0
          exact ⟨v, hv.right⟩

/-- **sibling and parent of a non-root node**, as `sibParent` computes them -/
theorem IsNode.sibPar {t : Expr α} {H off pos h : Nat} {v : α} (hn : IsNode merge t H off pos h v)
    (hs : Sub off H) (hne : pos ≠ rp off H) :
    ∃ sv, IsNode merge t H off (sibParent pos h).1 h sv ∧
      IsNode merge t H off (sibParent pos h).2.1 (h + 1)
        (if (sibParent pos h).2.2 then merge sv v else merge v sv) ∧
      ((sibParent pos h).2.2 = true → (sibParent pos h).1 < pos) ∧
      ((sibParent pos h).2.2 = false → pos < (sibParent pos h).1) ∧
      pos < (sibParent pos h).2.1 := by
  induction hn with
  | root t H off => exact absurd rfl hne
  | @left l r H off pos h v hn' ih =>
    have p0 := Nat.two_pow_pos H
    have p1 := two_pow_succ H
    have p2 := two_pow_succ (H + 1)
    by_cases hr : pos = rp off H
    · -- the root of the left subtree: a left child
      obtain ⟨-, -, -, hb, -⟩ := hn'.basic
      obtain ⟨hh, hv⟩ := hb hr
      subst hh; subst hv
      have hnext : posHeightInTree (pos + 1) = 0 := by
        have e : pos + 1 = off + (2 ^ (h + 1) - 1 + 0) := by rw [hr]; simp only [rp]; omega
        rw [e, hs (2 ^ (h + 1) - 1 + 0) (by omega), posHeightInTree_right h 0 (by omega)]
        rfl
      have hsp : sibParent pos h = (pos + siblingOffset h, pos + parentOffset h, false) := by
        simp [sibParent, hnext]
      rw [hsp]
      have e1 : pos + siblingOffset h = rp (off + (2 ^ (h + 1) - 1)) h := by
        rw [hr]; simp only [rp, siblingOffset, Gen.MMR.SIBLING_OFFSET_BASE]; omega
      have e2 : pos + parentOffset h = rp off (h + 1) := by
        rw [hr]; simp only [rp, parentOffset, Gen.MMR.PARENT_OFFSET_BASE]; omega
      refine ⟨r.eval merge, ?_, ?_, by simp, ?_, ?_⟩
      · rw [e1]; exact (IsNode.root r h _).right
      · rw [e2]; exact IsNode.root (.node l r) (h + 1) off
      · intro _; simp only [siblingOffset, Gen.MMR.SIBLING_OFFSET_BASE]; omega
      · simp only [parentOffset, Gen.MMR.PARENT_OFFSET_BASE]; omega
    · obtain ⟨sv, h1, h2, h3, h4, h5⟩ := ih hs.left hr
      exact ⟨sv, h1.left, h2.left, h3, h4, h5⟩
  | @right l r H off pos h v hn' ih =>
    have p0 := Nat.two_pow_pos H
    have p1 := two_pow_succ H
    have p2 := two_pow_succ (H + 1)
    by_cases hr : pos = rp (off + (2 ^ (H + 1) - 1)) H
    · obtain ⟨-, -, -, hb, -⟩ := hn'.basic
      obtain ⟨hh, hv⟩ := hb hr
      subst hh; subst hv
      have hnext : posHeightInTree (pos + 1) = h + 1 := by
        have e : pos + 1 = rp off (h + 1) := by rw [hr]; simp only [rp]; omega
        rw [e]; exact (IsNode.root (merge := merge) (.node l r) (h + 1) off).height hs
      have hsp : sibParent pos h = (pos - siblingOffset h, pos + 1, true) := by
        simp [sibParent, hnext]
      rw [hsp]
      have e1 : pos - siblingOffset h = rp off h := by
        rw [hr]; simp only [rp, siblingOffset, Gen.MMR.SIBLING_OFFSET_BASE]; omega
      have e2 : pos + 1 = rp off (h + 1) := by rw [hr]; simp only [rp]; omega
      refine ⟨l.eval merge, ?_, ?_, ?_, by simp, by show pos < pos + 1; omega⟩
      · rw [e1]; exact (IsNode.root l h _).left
      · rw [e2]; exact IsNode.root (.node l r) (h + 1) off
      · intro _; rw [hr]; simp only [rp, siblingOffset, Gen.MMR.SIBLING_OFFSET_BASE]; omega
    · obtain ⟨sv, h1, h2, h3, h4, h5⟩ := ih hs.right hr
      exact ⟨sv, h1.right, h2.right, h3, h4, h5⟩

theorem sibParent_leftRoot {off H : Nat} (hs : Sub off (H + 1)) :
    sibParent (rp off H) H = (rp (off + (2 ^ (H + 1) - 1)) H, rp off (H + 1), false) := by
  have p0 := Nat.two_pow_pos H
  have p1 := two_pow_succ H
  have p2 := two_pow_succ (H + 1)
  have hnext : posHeightInTree (rp off H + 1) = 0 := by
    have e : rp off H + 1 = off + (2 ^ (H + 1) - 1 + 0) := by simp only [rp]; omega
    rw [e, hs (2 ^ (H + 1) - 1 + 0) (by omega), posHeightInTree_right H 0 (by omega)]
    rfl
  have e1 : rp off H + siblingOffset H = rp (off + (2 ^ (H + 1) - 1)) H := by
    simp only [rp, siblingOffset, Gen.MMR.SIBLING_OFFSET_BASE]; omega
  have e2 : rp off H + parentOffset H = rp off (H + 1) := by
    simp only [rp, parentOffset, Gen.MMR.PARENT_OFFSET_BASE]; omega
  simp [sibParent, hnext, e1, e2]

theorem sibParent_rightRoot {off H : Nat} (hs : Sub off (H + 1)) :
    sibParent (rp (off + (2 ^ (H + 1) - 1)) H) H = (rp off H, rp off (H + 1), true) := by
  have p0 := Nat.two_pow_pos H
  have p1 := two_pow_succ H
  have p2 := two_pow_succ (H + 1)
  have e : rp (off + (2 ^ (H + 1) - 1)) H + 1 = rp off (H + 1) := by simp only [rp]; omega
  have hnext : posHeightInTree (rp (off + (2 ^ (H + 1) - 1)) H + 1) = H + 1 := by
    have q : rp off (H + 1) = off + (2 ^ (H + 1 + 1) - 2) := by simp only [rp]; omega
    rw [e, q, hs (2 ^ (H + 1 + 1) - 2) (by omega), posHeightInTree_root]
  have e1 : rp (off + (2 ^ (H + 1) - 1)) H - siblingOffset H = rp off H := by
    simp only [rp, siblingOffset, Gen.MMR.SIBLING_OFFSET_BASE]; omega
  rw [e] at hnext
  simp [sibParent, hnext, e1, e]

/-- **two nodes of one level**: the later one is the sibling of the earlier one, or its parent and
the earlier one's sibling both lie strictly before the later one's parent / the later one -/
theorem IsNode.order : ∀ (t : Expr α) (H off a a' h : Nat) (va va' : α),
    IsNode merge t H off a h va → IsNode merge t H off a' h va' → Sub off H → a < a' →
    a' = (sibParent a h).1 ∨
      ((sibParent a h).2.1 < (sibParent a' h).2.1 ∧ (sibParent a h).1 < a') := by
  intro t
  induction t with
  | atom v =>
    intro H off a a' h va va' ha ha' hs hlt
    cases ha; cases ha'; omega
  | node l r ihl ihr =>
    intro H off a a' h va va' ha ha' hs hlt
    cases ha with
    | root =>
      have := (ha'.basic).2.2.2.2 rfl
      omega
    | @left _ _ H _ _ _ _ d =>
      have p0 := Nat.two_pow_pos H
      have p1 := two_pow_succ H
      have p2 := two_pow_succ (H + 1)
      cases ha' with
      | root => have := d.basic.2.2.1; omega
      | left d' => exact ihl _ _ _ _ _ _ _ d d' hs.left hlt
      | right d' =>
        obtain ⟨b1, b2, b3, b4, b5⟩ := d.basic
        obtain ⟨c1, c2, c3, c4, c5⟩ := d'.basic
        by_cases hh : h = H
        · left
          subst hh
          rw [b5 rfl, c5 rfl, sibParent_leftRoot hs]
        · right
          have hna : a ≠ rp off H := fun e => hh (b4 e).1
          have hna' : a' ≠ rp (off + (2 ^ (H + 1) - 1)) H := fun e => hh (c4 e).1
          obtain ⟨sv, s1, s2, -, -, -⟩ := d.sibPar hs.left hna
          obtain ⟨sv', t1, t2, -, -, -⟩ := d'.sibPar hs.right hna'
          have := s1.basic.2.1
          have := s2.basic.2.1
          have := t2.basic.1
          simp only [rp] at *
          omega
    | @right _ _ H _ _ _ _ d =>
      have p0 := Nat.two_pow_pos H
      have p1 := two_pow_succ H
      have p2 := two_pow_succ (H + 1)
      cases ha' with
      | root => have := d.basic.2.2.1; omega
      | left d' =>
        have := d.basic.1
        have := d'.basic.2.1
        simp only [rp] at *
        omega
      | right d' => exact ihr _ _ _ _ _ _ _ d d' hs.right hlt

end facts

end CkbVerif.MMR
