/-
C11 helper lemmas, part 3: every operation of the pool model is built from four core operations
(`removeEntry`, `removeWithDesc`, `addEntry`, `setEntry`) plus the two edge strips of
`resolve_conflict`; a state predicate closed under those is closed under every operation
(`CoreClosed.step`), and `addEntry` itself is closed under a predicate that survives its parts
(`addEntry_of`).
-/
import CkbVerif.Model.Pool
namespace CkbVerif.C11
open CkbVerif.Pool

/-- the operations of the model that the invariant theorems quantify over -/
inductive Op where
  | add (t : Tx) (st : Status) (ts : Nat)
  | rm (id : Nat)
  | rmd (id : Nat)
  | set (id : Nat) (st : Status)
  | commit (t : Tx)
  | hdr (hs : List Nat)
  | limit
  | expire (order : List Nat)
  | detach (ids : List Nat)
  | submit (t : Tx) (st : Status) (ts : Nat)

def step (s : Pool) : Op → Pool
  | .add t st ts => (addEntry s t st ts).1
  | .rm id => (removeEntry s id).1
  | .rmd id => (removeWithDesc s id).1
  | .set id st => setEntry s id st
  | .commit t => (commitTx s t).1
  | .hdr hs => (resolveHeaders s hs).1
  | .limit => (limitSize s).1
  | .expire order => removeExpired s order
  | .detach ids => detachProposals s ids
  | .submit t st ts => (submit s t st ts).1

def run (s : Pool) (ops : List Op) : Pool := ops.foldl step s

/-- an empty pool with any configuration -/
def empty (c : Cfg) (chain : List Nat) : Pool := { cfg := c, chain := chain }

end CkbVerif.C11

namespace CkbVerif.Pool
open CkbVerif.C11

structure CoreClosed (P : Pool → Prop) : Prop where
  rm : ∀ s id, P s → P (removeEntry s id).1
  rmd : ∀ s id, P s → P (removeWithDesc s id).1
  add : ∀ s t st ts, P s → P (addEntry s t st ts).1
  set : ∀ s id st, P s → P (setEntry s id st)
  /-- `resolve_conflict`: `edges.remove_input(i)` followed by the removal of its owner -/
  stripIn : ∀ s i id, P s → inputUser s i = some id →
    P (removeWithDesc { s with inputs := s.inputs.filter (·.1 ≠ i) } id).1
  /-- `resolve_conflict`: `edges.remove_deps(i)` followed by the removal of every user -/
  stripDep : ∀ s i (acc : List Nat), P s →
    P ((depUsers s i).foldl (fun (acc : Pool × List Nat) id =>
      let r := removeWithDesc acc.1 id
      (r.1, acc.2 ++ idsOf r.2)) ({ s with deps := s.deps.filter (·.1 ≠ i) }, acc)).1

variable {P : Pool → Prop}

theorem foldRmd_of (hrmd : ∀ s id, P s → P (removeWithDesc s id).1) (ids : List Nat) (s : Pool) (acc : List Nat) (hs : P s) :
    P (ids.foldl (fun (acc : Pool × List Nat) id =>
      let r := removeWithDesc acc.1 id
      (r.1, acc.2 ++ idsOf r.2)) (s, acc)).1 := by
  induction ids generalizing s acc with
  | nil => exact hs
  | cons a l ih => simp only [List.foldl_cons]; exact ih _ _ (hrmd _ _ hs)

theorem CoreClosed.foldRmd (h : CoreClosed P) (ids : List Nat) (s : Pool) (acc : List Nat) (hs : P s) :
    P (ids.foldl (fun (acc : Pool × List Nat) id =>
      let r := removeWithDesc acc.1 id
      (r.1, acc.2 ++ idsOf r.2)) (s, acc)).1 := by
  induction ids generalizing s acc with
  | nil => exact hs
  | cons a l ih => simp only [List.foldl_cons]; exact ih _ _ (h.rmd _ _ hs)

theorem CoreClosed.limitLoop (h : CoreClosed P) (f : Nat) (s : Pool) (ev : List Nat) (hs : P s) :
    P (limitLoop f s ev).1 := by
  induction f generalizing s ev with
  | zero => exact hs
  | succ n ih =>
    unfold Pool.limitLoop
    split
    · split
      · exact ih _ _ (h.rmd _ _ hs)
      · exact hs
    · exact hs

theorem CoreClosed.foldAdd (h : CoreClosed P) (l : List Entry) (s : Pool) (hs : P s) :
    P (l.foldl (fun s x => (addEntry s x.tx .pending x.ts).1) s) := by
  induction l generalizing s with
  | nil => exact hs
  | cons a l ih => simp only [List.foldl_cons]; exact ih _ (h.add _ _ _ _ hs)

theorem CoreClosed.resolveConflict (h : CoreClosed P) (t : Tx) (s : Pool) (hs : P s) :
    P (resolveConflict s t).1 := by
  unfold Pool.resolveConflict
  suffices ∀ (l : List OutPt) (s0 : Pool) (acc0 : List Nat), P s0 →
      P (l.foldl (fun (acc : Pool × List Nat) i =>
        let s := acc.1
        let acc := match inputUser s i with
          | some id =>
            let r := removeWithDesc { s with inputs := s.inputs.filter (·.1 ≠ i) } id
            (r.1, acc.2 ++ idsOf r.2)
          | none => acc
        let users := depUsers acc.1 i
        let s := { acc.1 with deps := acc.1.deps.filter (·.1 ≠ i) }
        users.foldl (fun (acc : Pool × List Nat) id =>
          let r := removeWithDesc acc.1 id
          (r.1, acc.2 ++ idsOf r.2)) (s, acc.2)) (s0, acc0)).1 from this _ s [] hs
  intro l
  induction l with
  | nil => exact fun _ _ h0 => h0
  | cons i l ih =>
    intro s0 acc0 h0
    simp only [List.foldl_cons]
    have step1 : ∃ s1 a1, (match inputUser s0 i with
          | some id =>
            let r := removeWithDesc { s0 with inputs := s0.inputs.filter (·.1 ≠ i) } id
            (r.1, acc0 ++ idsOf r.2)
          | none => (s0, acc0)) = (s1, a1) ∧ P s1 := by
      cases hu : inputUser s0 i with
      | none => exact ⟨s0, acc0, rfl, h0⟩
      | some id => exact ⟨_, _, rfl, h.stripIn s0 i id h0 hu⟩
    obtain ⟨s1, a1, heq, h1⟩ := step1
    simp only at heq ⊢
    rw [heq]
    exact ih _ _ (h.stripDep s1 i a1 h1)

/-- a predicate closed under the core operations is closed under every operation -/
theorem CoreClosed.step (h : CoreClosed P) (s : Pool) (op : Op) (hs : P s) : P (step s op) := by
  cases op with
  | add t st ts => exact h.add _ _ _ _ hs
  | rm id => exact h.rm _ _ hs
  | rmd id => exact h.rmd _ _ hs
  | set id st => exact h.set _ _ _ hs
  | commit t => exact h.resolveConflict t _ (h.rm _ _ hs)
  | hdr hs' => exact h.foldRmd _ s [] hs
  | limit => exact h.limitLoop _ s [] hs
  | expire order =>
    show P (removeExpired s order)
    unfold removeExpired
    induction order generalizing s with
    | nil => exact hs
    | cons a l ih => simp only [List.foldl_cons]; exact ih _ (h.rmd _ _ hs)
  | detach ids =>
    show P (detachProposals s ids)
    unfold detachProposals
    induction ids generalizing s with
    | nil => exact hs
    | cons a l ih =>
      simp only [List.foldl_cons]
      apply ih
      split
      · exact hs
      · split
        · exact hs
        · exact h.foldAdd _ _ (h.rmd _ _ hs)
  | submit t st ts =>
    show P (submit s t st ts).1
    unfold submit
    simp only
    split
    · exact hs
    · rename_i conflicts _
      have h1 := h.foldRmd conflicts s [] hs
      generalize (conflicts.foldl (fun (acc : Pool × List Nat) c =>
        let r := removeWithDesc acc.1 c
        (r.1, acc.2 ++ idsOf r.2)) (s, [])) = r at h1
      obtain ⟨s1, replaced⟩ := r
      simp only
      have h2 := h.add s1 t st ts h1
      split
      · rename_i s2 ev heq
        rw [heq] at h2
        have h3 := h.limitLoop (s2.entries.length + 1) s2 [] h2
        change P (limitSize s2).1 at h3
        generalize limitSize s2 = q at h3
        obtain ⟨s3, lim⟩ := q
        simp only
        split <;> exact h3
      · rename_i s2 r _ heq
        rw [heq] at h2
        exact h2

theorem CoreClosed.run (h : CoreClosed P) (s : Pool) (ops : List Op) (hs : P s) : P (run s ops) := by
  unfold C11.run
  induction ops generalizing s with
  | nil => exact hs
  | cons op l ih => exact ih _ (h.step s op hs)

/-! ### shared parts of `add_entry` / `remove_entry_and_descendants` -/

theorem evictLoop_of (hrmd : ∀ s id, P s → P (removeWithDesc s id).1)
    (cands : List Nat) (s : Pool) (cnt : Nat) (parents ev : List Nat) (hs : P s) :
    P (evictLoop cands s cnt parents ev).1 := by
  induction cands generalizing s cnt parents ev with
  | nil => exact hs
  | cons c l ih =>
    unfold evictLoop
    split
    · exact ih _ _ _ _ (hrmd _ _ hs)
    · exact hs

/-- `remove_entry_and_descendants` for a predicate that does not look at the links and survives the
    repaired pre-subtraction -/
theorem removeWithDesc_of (hrm : ∀ s id, P s → P (removeEntry s id).1)
    (hpre : ∀ s ids, P s → P (preSubDescendants s ids))
    (hlinks : ∀ (s : Pool) (L : LinkMap), P s → P { s with links := L })
    (s : Pool) (id : Nat) (hs : P s) : P (removeWithDesc s id).1 := by
  unfold removeWithDesc
  simp only
  have h0 : P (if s.cfg.fixF2 then preSubDescendants s (id :: (calcDesc s.links id).filter (· ≠ id)) else s) := by
    split
    · exact hpre _ _ hs
    · exact hs
  have h1 := hlinks _ ((id :: (calcDesc s.links id).filter (· ≠ id)).foldl removeEntryLinks
      (if s.cfg.fixF2 then preSubDescendants s (id :: (calcDesc s.links id).filter (· ≠ id)) else s).links) h0
  suffices ∀ (ids : List Nat) (s : Pool) (acc : List Entry), P s →
      P (ids.foldl (fun (acc : Pool × List Entry) rid =>
        match removeEntry acc.1 rid with
        | (s', some e) => (s', acc.2 ++ [e])
        | (s', none) => (s', acc.2)) (s, acc)).1 from this _ _ _ h1
  intro ids
  induction ids with
  | nil => exact fun _ _ h => h
  | cons a l ih =>
    intro s acc h
    simp only [List.foldl_cons]
    have hr := hrm s a h
    rcases hre : removeEntry s a with ⟨s', oe⟩
    rw [hre] at hr
    cases oe with
    | none => exact ih _ _ hr
    | some e => exact ih _ _ hr

end CkbVerif.Pool
