import CkbVerif.Lemmas.IndexerReplay

/-! The tip after `rollback (append keep interval s b)`, automatic prune included: restored exactly
when the previous tip's Header row is inside the retention (C18). -/
namespace CkbVerif.Indexer

/-- removing Header rows that are not the greatest does not change the tip -/
theorem tip_of_subset (X Y : Store) (hsub : ∀ r, r ∈ headerRows X → r ∈ headerRows Y)
    (hmax : ∀ r, tipRow Y = some r → r ∈ headerRows X) : tip X = tip Y := by
  unfold tip
  obtain ⟨x1, x2⟩ := fold_tipStep_spec (headerRows X) none
  obtain ⟨y1, y2⟩ := fold_tipStep_spec (headerRows Y) none
  cases hY : tipRow Y with
  | none =>
    have hYe : headerRows Y = [] := (y2 (by rw [← tipRow_eq]; exact hY)).1
    cases hX : tipRow X with
    | none => rfl
    | some r1 =>
      obtain ⟨hm, _, _⟩ := x1 r1 (by rw [← tipRow_eq]; exact hX)
      rcases hm with hm | hm
      · have := hsub r1 hm
        rw [hYe] at this
        cases this
      · cases hm
  | some r2 =>
    have hr2X := hmax r2 hY
    obtain ⟨_, hmax2, _⟩ := y1 r2 (by rw [← tipRow_eq]; exact hY)
    cases hX : tipRow X with
    | none =>
      have := (x2 (by rw [← tipRow_eq]; exact hX)).1
      rw [this] at hr2X
      cases hr2X
    | some r1 =>
      obtain ⟨hm1, hmax1, _⟩ := x1 r1 (by rw [← tipRow_eq]; exact hX)
      have hm1' : r1 ∈ headerRows X := by
        rcases hm1 with hm | hm
        · exact hm
        · cases hm
      have h12 := hmax1 r2 hr2X
      have h21 := hmax2 r1 (hsub r1 hm1')
      rw [hdrLt_false_iff] at h12 h21
      simp only [Option.map_some, Option.some.injEq, Prod.mk.injEq]
      omega

variable {s : Store} {b : Block}

theorem Rtx_no_header (wf : WFRollback2 s b) (bn h : Nat) (f : Bool) :
    ∀ o ∈ Rtx s b, o.key ≠ .header bn h f := by
  intro o ho hk
  obtain ⟨i', tx', htx', hm', ho⟩ := (mem_Rtx2 wf o).mp ho
  rcases ho with ⟨oi, out', hout', ho⟩ | ⟨hi', ii', op', c', hop', hc', ho⟩ | rfl
  · rw [mem_uncreateOps] at ho
    rcases ho with rfl | rfl | ⟨t', _, rfl | rfl⟩ | rfl <;> simp [BOp.key] at hk
  · rw [mem_unconsumeOps] at ho
    rcases ho with rfl | rfl | ⟨t', _, rfl | rfl⟩ | rfl <;> simp [BOp.key] at hk
  · simp [BOp.key] at hk

/-- Header rows of the appended store other than the new one are those of `s` -/
theorem get_appendCore_header (k : Key) (hk : ∃ bn h f, k = Key.header bn h f)
    (hne : Key.header b.number b.hash (hdrFlag s b) ≠ k) : get (appendCore s b) k = get s k := by
  rw [appendCore_eq', get_cons]
  simp only [hne, if_false]
  rw [get_del_other _ _ _ hne]
  obtain ⟨bn, h, f, rfl⟩ := hk
  apply get_commit_untouched
  intro o ho hko
  have := txsOps_ok s b o ho
  rw [hko] at this
  simp [appendKeyOk] at this

/-- **the tip after rolling back the block just appended, automatic prune included**: restored when
the previous tip's Header row is inside the retention, `b.number ≤ tipNumber + keep_num` (for a chain
that grows by one: `keep_num ≥ 1`). -/
theorem rollback_append_full_tip (wf : WFRollback2 s b) (hd : HdrDisjoint s b) (hnd : NodupKeys s)
    (keep interval : Nat) (hret : ∀ tn th, tip s = some (tn, th) → b.number ≤ tn + keep) :
    tip (rollback (append keep interval s b)) = tip s := by
  unfold append
  dsimp only
  split
  · -- the prune ran
    have hndF : NodupKeys (rollback (prune (appendCore s b) keep)) :=
      nodup_commit _ _ (nodup_commit _ _ (nodup_commit _ _ hnd))
    have hF : ∀ k, (∃ bn h f, k = Key.header bn h f) →
        get (rollback (prune (appendCore s b) keep)) k =
          if Key.header b.number b.hash (hdrFlag s b) = k then none else get (prune (appendCore s b) keep) k := by
      intro k hk
      unfold rollback
      rw [rollbackOps_prune wf hd keep, rollbackOps_append2 wf, commit_append]
      show get (applyOp _ (.del (.header b.number b.hash (hdrFlag s b)))) k = _
      by_cases hne : Key.header b.number b.hash (hdrFlag s b) = k
      · rw [if_pos hne, ← hne, get_applyOp_del]
      · rw [if_neg hne, get_applyOp_other _ _ _ (by simpa [BOp.key] using hne)]
        obtain ⟨bn, h, f, rfl⟩ := hk
        exact get_commit_untouched _ _ _ (Rtx_no_header wf bn h f)
    have hP : ∀ k, get (prune (appendCore s b) keep) k =
        if (∃ o ∈ pruneOps (appendCore s b) keep, o.key = k) then none else get (appendCore s b) k := by
      intro k
      unfold prune
      apply get_commit_dels
      intro o ho hk
      obtain ⟨k', hk', _⟩ := pruneOps_dels _ keep o ho
      subst hk'
      simp only [BOp.key] at hk
      rw [hk]
    apply tip_of_subset
    · intro r hr
      rw [mem_headerRows_iff, mem_iff_get _ hndF, hF _ ⟨_, _, _, rfl⟩] at hr
      split at hr
      · cases hr
      · rename_i hne
        rw [hP] at hr
        split at hr
        · cases hr
        · rw [get_appendCore_header _ ⟨_, _, _, rfl⟩ hne] at hr
          rw [mem_headerRows_iff, mem_iff_get _ hnd]
          exact hr
    · intro r hr
      have hrmem : r ∈ headerRows s := by
        obtain ⟨x1, _⟩ := fold_tipStep_spec (headerRows s) none
        obtain ⟨hm, _, _⟩ := x1 r (by rw [← tipRow_eq]; exact hr)
        rcases hm with hm | hm
        · exact hm
        · cases hm
      have hget : get s (Key.header r.1 r.2.1 r.2.2.1) = some (Val.txs r.2.2.2) := by
        rw [← mem_iff_get _ hnd, ← mem_headerRows_iff]; exact hrmem
      have hlt : r.1 < b.number :=
        wf.hdrBelow _ ((mem_headerRows_iff s r).mp hrmem) _ _ _ rfl
      have hne : Key.header b.number b.hash (hdrFlag s b) ≠ Key.header r.1 r.2.1 r.2.2.1 := by
        intro h
        simp only [Key.header.injEq] at h
        omega
      have htip : tip s = some (r.1, r.2.1) := by unfold tip; rw [hr]; rfl
      have hkeep := hret _ _ htip
      rw [mem_headerRows_iff, mem_iff_get _ hndF, hF _ ⟨_, _, _, rfl⟩, if_neg hne, hP]
      have hnot : ¬ ∃ o ∈ pruneOps (appendCore s b) keep, o.key = Key.header r.1 r.2.1 r.2.2.1 := by
        rintro ⟨o, ho, hk⟩
        obtain ⟨k', n, hh, rfl, htip', hgt, hcase⟩ := pruneOps_keys _ keep o ho
        rw [tip_appendCore2 wf] at htip'
        cases htip'
        simp only [BOp.key] at hk
        subst hk
        rcases hcase with ⟨bn, op, h, _⟩ | ⟨t, r', h, _⟩ | ⟨bn, h', f', h, hle⟩
        · cases h
        · cases h
        · simp only [Key.header.injEq] at h
          omega
      rw [if_neg hnot, get_appendCore_header _ ⟨_, _, _, rfl⟩ hne]
      exact hget
  · exact rollback_append_tip2 wf hnd

end CkbVerif.Indexer
