import CkbVerif.Lemmas.IndexerRollback2

/-! The type-script families: CellTypeScript and TxTypeScript rows (C18). -/
namespace CkbVerif.Indexer

/-- the CellTypeScript index describes exactly the OutPoint rows with that type script -/
def TypeInv (s : Store) : Prop :=
  ∀ (sc : Script) (bn txi io t : Nat),
    get s (.cellType sc bn txi io) = some (.tx t) ↔
      ∃ c : Cell, get s (.outPoint ⟨t, io⟩) = some (.cell c) ∧ c.out.type = some sc ∧ c.bn = bn ∧ c.txIdx = txi

structure WFRollbackT (s : Store) (b : Block) : Prop extends WFRollback s b where
  freshType : ∀ (sc : Script) (txi io : Nat), get s (.cellType sc b.number txi io) = none
  freshTxType : ∀ (sc : Script) (txi io : Nat) (t : IoType), get s (.txType sc b.number txi io t) = none
  typeInv : TypeInv s

variable {s : Store} {b : Block}

theorem cellType_other (wf : WFAppend s b) (sc : Script) (bn txi io : Nat)
    (hnc : ¬ ∃ (tx : Tx) (out : Output), b.txs[txi]? = some tx ∧ tx.outputs[io]? = some out ∧
      out.type = some sc ∧ bn = b.number)
    (hns : ¬ ∃ (op : OutPoint) (c : Cell), SpentIn s b op c ∧ c.out.type = some sc ∧ c.bn = bn ∧
      c.txIdx = txi ∧ op.idx = io) :
    get (appendCore s b) (.cellType sc bn txi io) = get s (.cellType sc bn txi io) := by
  rw [get_appendCore_nonheader s b _ (by intro _ _ _ h; cases h)]
  apply get_commit_untouched
  intro o ho hk
  rcases txsOps_shape s b wf o ho with ⟨i', tx', ii', op', c', htx', hi', hop', hc', ho'⟩ |
    ⟨i', tx', out', oi', htx', hout', ho'⟩ | ⟨i', tx', htx', rfl⟩
  · rw [mem_consumeOps] at ho'
    rcases ho' with rfl | rfl | ⟨t, ht, rfl | rfl⟩ | rfl | rfl <;> simp [BOp.key] at hk
    exact hns ⟨op', c', ⟨i', tx', ii', htx', hi', hop', hc'⟩, by rw [ht, hk.1], hk.2.1, hk.2.2.1, hk.2.2.2⟩
  · rw [mem_createOps] at ho'
    rcases ho' with rfl | rfl | ⟨t, ht, rfl | rfl⟩ | rfl <;> simp [BOp.key] at hk
    obtain ⟨hl, hb, hi, hoi⟩ := hk
    subst hi; subst hoi
    exact hnc ⟨tx', out', htx', hout', by rw [ht, hl], hb.symm⟩
  · simp [BOp.key] at hk

/-- CellTypeScript rows (live cells by type script) are restored -/
theorem rb_cellType (wf : WFRollbackT s b) (sc : Script) (bn txi io : Nat) :
    get (rollback (appendCore s b)) (.cellType sc bn txi io) = get s (.cellType sc bn txi io) := by
  have wf' := wf.toWFRollback
  rw [get_rollback_nonheader wf' _ (by intro _ _ _ h; cases h)]
  by_cases hA : ∃ (tx : Tx) (out : Output), b.txs[txi]? = some tx ∧ tx.outputs[io]? = some out ∧
      out.type = some sc ∧ bn = b.number
  · obtain ⟨tx, out, htx, hout, hl, hb⟩ := hA
    subst hb
    rw [wf.freshType]
    apply get_commit_all_del
    · intro o ho hk
      obtain ⟨i', tx', htx', hm', ho⟩ := (mem_Rtx wf' o).mp ho
      rcases ho with ⟨oi, out', hout', ho⟩ | ⟨hi', ii', op', c', hop', hc', ho⟩ | rfl
      · rw [mem_uncreateOps] at ho
        rcases ho with rfl | rfl | ⟨t, _, rfl | rfl⟩ | rfl <;> simp [BOp.key] at hk
        simp [hk]
      · rw [mem_unconsumeOps] at ho
        rcases ho with rfl | rfl | ⟨t, _, rfl | rfl⟩ | rfl <;> simp [BOp.key] at hk
        exact absurd hk.2.1 (wf.oldBn op' c' hc')
      · simp [BOp.key] at hk
    · refine ⟨.del (.cellType sc b.number txi io), ?_, rfl⟩
      apply uncreate_mem_Rtx wf' txi tx io out htx hout
      rw [mem_uncreateOps]
      right; right; left
      exact ⟨sc, hl, Or.inl rfl⟩
  · by_cases hB : ∃ (op : OutPoint) (c : Cell), SpentIn s b op c ∧ c.out.type = some sc ∧ c.bn = bn ∧
        c.txIdx = txi ∧ op.idx = io
    · obtain ⟨op, c, hs, hl, hb, hti, hio⟩ := hB
      subst hb; subst hti; subst hio
      have hg : get s (.outPoint op) = some (.cell c) := by
        obtain ⟨_, _, _, _, _, _, hg⟩ := hs; exact hg
      have hrow : get s (.cellType sc c.bn c.txIdx op.idx) = some (.tx op.tx) :=
        (wf.typeInv sc c.bn c.txIdx op.idx op.tx).mpr ⟨c, by cases op; exact hg, hl, rfl, rfl⟩
      rw [hrow]
      obtain ⟨i, tx, ii, htx, hi, hop, _⟩ := hs
      apply get_commit_all_put
      · intro o ho hk
        obtain ⟨i', tx', htx', hm', ho⟩ := (mem_Rtx wf' o).mp ho
        rcases ho with ⟨oi, out', hout', ho⟩ | ⟨hi', ii', op', c', hop', hc', ho⟩ | rfl
        · rw [mem_uncreateOps] at ho
          rcases ho with rfl | rfl | ⟨t, _, rfl | rfl⟩ | rfl <;> simp [BOp.key] at hk
          exact absurd hk.2.1.symm (wf.oldBn op c hg)
        · rw [mem_unconsumeOps] at ho
          rcases ho with rfl | rfl | ⟨t, ht, rfl | rfl⟩ | rfl <;> simp [BOp.key] at hk
          obtain ⟨h1, h2, h3, h4⟩ := hk
          have hrow' : get s (.cellType t c'.bn c'.txIdx op'.idx) = some (.tx op'.tx) :=
            (wf.typeInv t c'.bn c'.txIdx op'.idx op'.tx).mpr ⟨c', by cases op'; exact hc', ht, rfl, rfl⟩
          rw [h1, h2, h3, h4, hrow] at hrow'
          have : op.tx = op'.tx := by simpa using hrow'
          simp [h1, h2, h3, h4, this]
        · simp [BOp.key] at hk
      · refine ⟨.put (.cellType sc c.bn c.txIdx op.idx) (.tx op.tx), ?_, rfl⟩
        apply unconsume_mem_Rtx wf' i tx ii op c htx hi hop hg
        rw [mem_unconsumeOps]
        right; right; left
        exact ⟨sc, hl, Or.inl rfl⟩
    · rw [← cellType_other wf.toWFAppend sc bn txi io hA hB]
      apply get_commit_untouched
      intro o ho hk
      obtain ⟨i', tx', htx', hm', ho⟩ := (mem_Rtx wf' o).mp ho
      rcases ho with ⟨oi, out', hout', ho⟩ | ⟨hi', ii', op', c', hop', hc', ho⟩ | rfl
      · rw [mem_uncreateOps] at ho
        rcases ho with rfl | rfl | ⟨t, ht, rfl | rfl⟩ | rfl <;> simp [BOp.key] at hk
        obtain ⟨hl, hb, hi, hoi⟩ := hk
        subst hi; subst hoi
        exact hA ⟨tx', out', htx', hout', by rw [ht, hl], hb.symm⟩
      · rw [mem_unconsumeOps] at ho
        rcases ho with rfl | rfl | ⟨t, ht, rfl | rfl⟩ | rfl <;> simp [BOp.key] at hk
        exact hB ⟨op', c', ⟨i', tx', ii', htx', hi', hop', hc'⟩, by rw [ht, hk.1], hk.2.1, hk.2.2.1, hk.2.2.2⟩
      · simp [BOp.key] at hk

/-- TxTypeScript rows (transaction history by type script) are restored -/
theorem rb_txType (wf : WFRollbackT s b) (sc : Script) (bn txi io : Nat) (t : IoType) :
    get (rollback (appendCore s b)) (.txType sc bn txi io t) = get s (.txType sc bn txi io t) := by
  have wf' := wf.toWFRollback
  rw [get_rollback_nonheader wf' _ (by intro _ _ _ h; cases h)]
  have hdels : ∀ o ∈ Rtx s b, o.key = .txType sc bn txi io t → o = .del (.txType sc bn txi io t) ∧ bn = b.number := by
    intro o ho hk
    obtain ⟨i', tx', htx', hm', ho⟩ := (mem_Rtx wf' o).mp ho
    rcases ho with ⟨oi, out', hout', ho⟩ | ⟨hi', ii', op', c', hop', hc', ho⟩ | rfl
    · rw [mem_uncreateOps] at ho
      rcases ho with rfl | rfl | ⟨t', _, rfl | rfl⟩ | rfl <;> simp [BOp.key] at hk
      simp [hk]
    · rw [mem_unconsumeOps] at ho
      rcases ho with rfl | rfl | ⟨t', _, rfl | rfl⟩ | rfl <;> simp [BOp.key] at hk
      simp [hk]
    · simp [BOp.key] at hk
  rw [get_commit_dels _ _ _ (fun o ho hk => (hdels o ho hk).1)]
  split
  · rename_i htouched
    obtain ⟨o, ho, hk⟩ := htouched
    have hb := (hdels o ho hk).2
    subst hb
    rw [wf.freshTxType]
  · rename_i hnot
    rw [get_appendCore_nonheader s b _ (by intro _ _ _ h; cases h)]
    apply get_commit_untouched
    intro o ho hk
    apply hnot
    rcases txsOps_shape s b wf.toWFAppend o ho with ⟨i', tx', ii', op', c', htx', hi', hop', hc', ho'⟩ |
      ⟨i', tx', out', oi', htx', hout', ho'⟩ | ⟨i', tx', htx', rfl⟩
    · rw [mem_consumeOps] at ho'
      rcases ho' with rfl | rfl | ⟨t', ht', rfl | rfl⟩ | rfl | rfl <;> simp [BOp.key] at hk
      refine ⟨.del (.txType t' b.number i' ii' .input), ?_, by simp [BOp.key, hk]⟩
      apply unconsume_mem_Rtx wf' i' tx' ii' op' c' htx' hi' hop' hc'
      rw [mem_unconsumeOps]
      right; right; left
      exact ⟨t', ht', Or.inr rfl⟩
    · rw [mem_createOps] at ho'
      rcases ho' with rfl | rfl | ⟨t', ht', rfl | rfl⟩ | rfl <;> simp [BOp.key] at hk
      refine ⟨.del (.txType t' b.number i' oi' .output), ?_, by simp [BOp.key, hk]⟩
      apply uncreate_mem_Rtx wf' i' tx' oi' out' htx' hout'
      rw [mem_uncreateOps]
      right; right; left
      exact ⟨t', ht', Or.inr rfl⟩
    · simp [BOp.key] at hk

/-- **rollback ∘ append restores every row except ConsumedOutPoint residue** -/
theorem rollback_append_get (wf : WFRollbackT s b) (k : Key) (hk : ∀ bn op, k ≠ .consumed bn op) :
    get (rollback (appendCore s b)) k = get s k := by
  cases k with
  | outPoint op => exact rb_outPoint wf.toWFRollback op
  | consumed bn op => exact absurd rfl (hk bn op)
  | cellLock sc bn tx io => exact rb_cellLock wf.toWFRollback sc bn tx io
  | cellType sc bn tx io => exact rb_cellType wf sc bn tx io
  | txLock sc bn tx io t => exact rb_txLock wf.toWFRollback sc bn tx io t
  | txType sc bn tx io t => exact rb_txType wf sc bn tx io t
  | txHash id => exact rb_txHash wf.toWFRollback id
  | header bn h f => exact rb_header wf.toWFRollback bn h f

end CkbVerif.Indexer
