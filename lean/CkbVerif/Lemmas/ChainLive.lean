import CkbVerif.Lemmas.Chain

/-!
Liveness invariant of the chain pipeline model: every delivered fully valid block is accounted for
(has an ext, or is queued behind its parent, or waits in the orphan pool for a parent that is
neither stored nor pending), as long as the expiry timer has not removed anything.
Used for `tip_heaviest_at_quiescence` (C01) and `crash_convergence` (C08).
-/
namespace CkbVerif.Chain

/-- queue discipline: a fully valid queued block has its parent's ext already, or the parent is
queued before it (`seenL` = what precedes) -/
def QG (T : Tree) (td : Nat → Option Nat) : List Nat → List Nat → Prop
  | _, [] => True
  | seenL, b :: r =>
    (FullyValid T b → b ≠ 0 → (td (T.par b)).isSome = true ∨ T.par b ∈ seenL) ∧ QG T td (b :: seenL) r

theorem QG_append {T : Tree} {td : Nat → Option Nat} (c : Nat) : ∀ (q A : List Nat), QG T td A q →
    (FullyValid T c → c ≠ 0 → (td (T.par c)).isSome = true ∨ T.par c ∈ A ∨ T.par c ∈ q) →
    QG T td A (q ++ [c]) := by
  intro q
  induction q with
  | nil =>
    intro A _ hc
    refine ⟨fun hfv h0 => ?_, trivial⟩
    rcases hc hfv h0 with h | h | h
    · exact Or.inl h
    · exact Or.inr h
    · simp at h
  | cons y r ih =>
    intro A hq hc
    refine ⟨hq.1, ih (y :: A) hq.2 (fun hfv h0 => ?_)⟩
    rcases hc hfv h0 with h | h | h
    · exact Or.inl h
    · exact Or.inr (Or.inl (List.mem_cons_of_mem _ h))
    · rcases List.mem_cons.mp h with h | h
      · exact Or.inr (Or.inl (by rw [h]; exact List.mem_cons_self))
      · exact Or.inr (Or.inr h)

theorem QG_mono {T : Tree} {td td' : Nat → Option Nat}
    (hext : ∀ x, (td x).isSome = true → (td' x).isSome = true) :
    ∀ (r A B : List Nat), QG T td A r →
      (∀ x ∈ A, x ∈ B ∨ (td' x).isSome = true ∨ ¬ FullyValid T x) → QG T td' B r := by
  intro r
  induction r with
  | nil => intro _ _ _ _; trivial
  | cons y r ih =>
    intro A B hq hab
    refine ⟨fun hfv h0 => ?_, ih (y :: A) (y :: B) hq.2 ?_⟩
    · rcases hq.1 hfv h0 with h | h
      · exact Or.inl (hext _ h)
      · rcases hab _ h with h1 | h1 | h1
        · exact Or.inr h1
        · exact Or.inl h1
        · exact absurd (hfv.parent h0) h1
    · intro x hx
      rcases List.mem_cons.mp hx with h | h
      · exact Or.inl (by rw [h]; exact List.mem_cons_self)
      · rcases hab x h with h1 | h1
        · exact Or.inl (List.mem_cons_of_mem _ h1)
        · exact Or.inr h1

structure LiveCore (T : Tree) (s : State) : Prop where
  extValid : ∀ b, (s.td b).isSome = true → s.invalid b = false
  invNotFV : ∀ b, s.invalid b = true → ¬ FullyValid T b
  qg : QG T s.td [] s.queue
  pendQ : ∀ b, s.pending b = true → b ∈ s.queue
  queueSt : ∀ b ∈ s.queue, s.pending b = true ∨ (s.td b).isSome = true ∨ s.invalid b = true
  kept : ∀ b, b ≠ 0 → s.seen b = true → FullyValid T b →
    (s.td b).isSome = true ∨ b ∈ s.queue ∨ b ∈ s.pool

/-- orphans are connected: no pooled block has a pending or stored parent -/
def PoolPar (T : Tree) (s : State) : Prop :=
  ∀ c ∈ s.pool, s.pending (T.par c) = false ∧ s.td (T.par c) = none ∧
    (s.invalid (T.par c) = true → T.nc (T.par c) = false)

structure Live (T : Tree) (s : State) : Prop where
  core : LiveCore T s
  poolPar : PoolPar T s

/-- the full invariant -/
structure Inv (T : Tree) (s : State) : Prop where
  safe : Safe T s
  live : s.expiryFired = false → Live T s

/-! ## Primitive changes made by the chain-service thread -/

theorem acceptable_parent {T : Tree} {s : State} (hl : LiveCore T s) {p : Nat}
    (h : acceptable s p = true) : (s.td p).isSome = true ∨ p ∈ s.queue := by
  unfold acceptable at h
  simp only [Bool.or_eq_true, Bool.and_eq_true] at h
  rcases h with h | h
  · exact Or.inr (hl.pendQ p h)
  · exact Or.inl h.2

theorem live_accept {T : Tree} {s s' : State} (hl : LiveCore T s) {c : Nat}
    (hacc : acceptable s (T.par c) = true)
    (htd : s'.td = s.td) (hinv : s'.invalid = s.invalid) (hq : s'.queue = s.queue ++ [c])
    (hpend : s'.pending = upd s.pending c true)
    (hseen : ∀ x, s'.seen x = true → s.seen x = true ∨ x = c)
    (hpool : ∀ x ∈ s.pool, x ≠ c → x ∈ s'.pool) : LiveCore T s' := by
  refine ⟨?_, ?_, ?_, ?_, ?_, ?_⟩
  · rw [htd, hinv]; exact hl.extValid
  · rw [hinv]; exact hl.invNotFV
  · rw [htd, hq]
    refine QG_append c _ _ hl.qg (fun _ _ => ?_)
    rcases acceptable_parent hl hacc with h | h
    · exact Or.inl h
    · exact Or.inr (Or.inr h)
  · intro b hb
    rw [hpend] at hb; rw [hq]
    by_cases hbc : b = c
    · subst hbc; simp
    · rw [upd_other _ _ hbc] at hb
      exact List.mem_append.mpr (Or.inl (hl.pendQ b hb))
  · intro b hb
    rw [hq] at hb; rw [hpend, htd, hinv]
    by_cases hbc : b = c
    · subst hbc; left; simp
    · rw [upd_other _ _ hbc]
      rcases List.mem_append.mp hb with h | h
      · exact hl.queueSt b h
      · exact absurd (by simpa using h) hbc
  · intro b hb0 hs hfv
    rw [htd, hq]
    by_cases hbc : b = c
    · subst hbc; right; left; simp
    · rcases hseen b hs with h | h
      · rcases hl.kept b hb0 h hfv with h1 | h1 | h1
        · exact Or.inl h1
        · exact Or.inr (Or.inl (List.mem_append.mpr (Or.inl h1)))
        · exact Or.inr (Or.inr (hpool b h1 hbc))
      · exact absurd h hbc

theorem live_reject {T : Tree} {s s' : State} (hs : Safe T s) (hl : LiveCore T s) {c : Nat} (hc0 : c ≠ 0)
    (hbad : s.invalid (T.par c) = true)
    (htd : s'.td = s.td) (hinv : s'.invalid = upd s.invalid c true) (hq : s'.queue = s.queue)
    (hpend : s'.pending = s.pending)
    (hseen : ∀ x, s'.seen x = true → s.seen x = true ∨ x = c)
    (hpool : ∀ x ∈ s.pool, x ≠ c → x ∈ s'.pool) : LiveCore T s' := by
  have hnfv : ¬ FullyValid T c := fun hfv => hl.invNotFV _ hbad (hfv.parent hc0)
  refine ⟨?_, ?_, ?_, ?_, ?_, ?_⟩
  · intro b hb
    rw [htd] at hb; rw [hinv]
    by_cases hbc : b = c
    · subst hbc
      have := (hs.extPar b hb hc0).1
      have := hl.extValid _ this
      rw [hbad] at this; exact absurd this (by simp)
    · rw [upd_other _ _ hbc]; exact hl.extValid b hb
  · intro b hb
    rw [hinv] at hb
    by_cases hbc : b = c
    · subst hbc; exact hnfv
    · rw [upd_other _ _ hbc] at hb; exact hl.invNotFV b hb
  · rw [htd, hq]; exact hl.qg
  · rw [hpend, hq]; exact hl.pendQ
  · intro b hb
    rw [hq] at hb; rw [hpend, htd, hinv]
    rcases hl.queueSt b hb with h | h | h
    · exact Or.inl h
    · exact Or.inr (Or.inl h)
    · right; right
      by_cases hbc : b = c
      · subst hbc; simp
      · rw [upd_other _ _ hbc]; exact h
  · intro b hb0 hsn hfv
    rw [htd, hq]
    by_cases hbc : b = c
    · subst hbc; exact absurd hfv hnfv
    · rcases hseen b hsn with h | h
      · rcases hl.kept b hb0 h hfv with h1 | h1 | h1
        · exact Or.inl h1
        · exact Or.inr (Or.inl h1)
        · exact Or.inr (Or.inr (hpool b h1 hbc))
      · exact absurd h hbc

theorem live_pooled {T : Tree} {s s' : State} (hl : LiveCore T s) {c : Nat}
    (htd : s'.td = s.td) (hinv : s'.invalid = s.invalid) (hq : s'.queue = s.queue)
    (hpend : s'.pending = s.pending)
    (hseen : ∀ x, s'.seen x = true → s.seen x = true ∨ x = c)
    (hc : c ∈ s'.pool) (hpool : ∀ x ∈ s.pool, x ∈ s'.pool) : LiveCore T s' := by
  refine ⟨?_, ?_, ?_, ?_, ?_, ?_⟩
  · rw [htd, hinv]; exact hl.extValid
  · rw [hinv]; exact hl.invNotFV
  · rw [htd, hq]; exact hl.qg
  · rw [hpend, hq]; exact hl.pendQ
  · rw [hq, hpend, htd, hinv]; exact hl.queueSt
  · intro b hb0 hsn hfv
    rw [htd, hq]
    rcases hseen b hsn with h | h
    · rcases hl.kept b hb0 h hfv with h1 | h1 | h1
      · exact Or.inl h1
      · exact Or.inr (Or.inl h1)
      · exact Or.inr (Or.inr (hpool b h1))
    · subst h; exact Or.inr (Or.inr hc)

/-! ## search -/

theorem safe_stepPool {T : Tree} {pool0 : List Nat} {acc : State × Out} (h : Safe T acc.1) (c : Nat) :
    Safe T (stepPool T pool0 acc c).1 := by
  obtain ⟨c1, q1, p1⟩ := stepPool_safeFrame (T := T) (pool0 := pool0) (s := acc.1) acc c
    ⟨SameChain.refl _, h.queueNc, h.poolNc⟩
  exact h.of_sameChain c1 q1 p1

theorem live_stepPool {T : Tree} {pool0 : List Nat} {acc : State × Out} (hs : Safe T acc.1)
    (hl : LiveCore T acc.1) (c : Nat) : LiveCore T (stepPool T pool0 acc c).1 := by
  have hact := stepPool_act T pool0 acc c
  generalize stepPool T pool0 acc c = r at hact ⊢
  cases hact with
  | skip _ => exact hl
  | accept hc ha =>
    exact live_accept hl ha rfl rfl rfl rfl (fun x hx => Or.inl hx)
      (fun x hx hxc => by simp [enqueue, unpool]; exact ⟨hx, hxc⟩)
  | reject hc hi =>
    exact live_reject hs hl (hs.poolNc c hc).1 hi rfl rfl rfl rfl (fun x hx => Or.inl hx)
      (fun x hx hxc => by simp [rejectBlk, unpool]; exact ⟨hx, hxc⟩)

theorem search_core {T : Tree} (hint : List Nat) {s : State} (hs : Safe T s) (hl : LiveCore T s) :
    Safe T (search T hint s).1 ∧ LiveCore T (search T hint s).1 := by
  unfold search
  exact foldl_preserves (stepPool T s.pool) (fun acc => Safe T acc.1 ∧ LiveCore T acc.1)
    (fun acc c h => ⟨safe_stepPool h.1 c, live_stepPool h.1 h.2 c⟩) _ _ ⟨hs, hl⟩

/-- what a search candidate step leaves untouched -/
theorem stepPool_other {T : Tree} {pool0 : List Nat} (acc : State × Out) (c : Nat) :
    (∀ x, x ≠ c → (stepPool T pool0 acc c).1.pending x = acc.1.pending x ∧
      (stepPool T pool0 acc c).1.invalid x = acc.1.invalid x) ∧
    (stepPool T pool0 acc c).1.td = acc.1.td ∧
    (∀ x ∈ (stepPool T pool0 acc c).1.pool, x ∈ acc.1.pool) := by
  have hact := stepPool_act T pool0 acc c
  generalize stepPool T pool0 acc c = r at hact ⊢
  cases hact with
  | skip _ => exact ⟨fun _ _ => ⟨rfl, rfl⟩, rfl, fun _ h => h⟩
  | accept _ _ =>
    refine ⟨fun x hx => ⟨?_, rfl⟩, rfl, fun x h => ?_⟩
    · show upd _ c true x = _
      rw [upd_other _ _ hx]; rfl
    · simp [enqueue, unpool] at h; exact h.1
  | reject _ _ =>
    refine ⟨fun x hx => ⟨rfl, ?_⟩, rfl, fun x h => ?_⟩
    · show upd _ c true x = _
      rw [upd_other _ _ hx]; rfl
    · simp [rejectBlk, unpool] at h; exact h.1

/-- a pooled block is "held": its parent is neither acceptable nor marked invalid -/
def Held (T : Tree) (s : State) (c : Nat) : Prop :=
  acceptable s (T.par c) = false ∧ s.invalid (T.par c) = false

theorem held_poolPar {T : Tree} {s : State} (h : ∀ c ∈ s.pool, Held T s c) : PoolPar T s := by
  intro c hc
  obtain ⟨h1, h2⟩ := h c hc
  unfold acceptable at h1
  simp only [Bool.or_eq_false_iff, Bool.and_eq_false_iff] at h1
  refine ⟨h1.1, ?_, fun h => by rw [h2] at h; exact absurd h (by simp)⟩
  rcases h1.2 with h | h
  · rw [h2] at h; simp at h
  · cases htd : s.td (T.par c) with
    | none => rfl
    | some _ => rw [htd] at h; simp at h

theorem le_poolBound : ∀ (l : List Nat) (m c : Nat), c ∈ l → c ≤ l.foldl max m := by
  intro l
  induction l with
  | nil => intro m c h; simp at h
  | cons y r ih =>
    intro m c h
    simp only [List.foldl_cons]
    rcases List.mem_cons.mp h with h | h
    · subst h
      have : ∀ (l : List Nat) (m : Nat), m ≤ l.foldl max m := by
        intro l
        induction l with
        | nil => intro m; simp
        | cons z t iht => intro m; simp only [List.foldl_cons]; exact Nat.le_trans (Nat.le_max_left m z) (iht _)
      exact Nat.le_trans (Nat.le_max_right m c) (this r _)
    · exact ih _ c h

/-- the ascending pass: after candidates `0..k` every pooled id `< k` is held -/
theorem range_pass {T : Tree} {pool0 : List Nat} : ∀ (k : Nat) (acc : State × Out),
    (∀ c ∈ acc.1.pool, c ≠ 0) →
    (∀ c ∈ ((List.range k).foldl (stepPool T pool0) acc).1.pool, c < k →
      Held T ((List.range k).foldl (stepPool T pool0) acc).1 c) ∧
    (∀ c ∈ ((List.range k).foldl (stepPool T pool0) acc).1.pool, c ∈ acc.1.pool) := by
  intro k
  induction k with
  | zero => intro acc _; exact ⟨fun c _ h => absurd h (Nat.not_lt_zero c), fun c h => by simpa using h⟩
  | succ k ih =>
    intro acc h0
    rw [List.range_succ, List.foldl_append]
    simp only [List.foldl_cons, List.foldl_nil]
    obtain ⟨ih1, ih2⟩ := ih acc h0
    generalize (List.range k).foldl (stepPool T pool0) acc = mid at ih1 ih2 ⊢
    obtain ⟨o1, o2, o3⟩ := stepPool_other (T := T) (pool0 := pool0) mid k
    refine ⟨?_, fun c h => ih2 c (o3 c h)⟩
    intro c hc hck
    by_cases hk : c = k
    · subst hk
      obtain ⟨e, a, i⟩ := stepPool_hold hc
      rw [e]; exact ⟨a, i⟩
    · have hlt : c < k := by omega
      have hcm := o3 c hc
      have hc0 : c ≠ 0 := h0 c (ih2 c hcm)
      have hpar : T.par c ≠ k := by have := T.par_lt hc0; omega
      obtain ⟨a, i⟩ := ih1 c hcm hlt
      obtain ⟨p1, p2⟩ := o1 (T.par c) hpar
      unfold Held acceptable at *
      rw [p1, p2, o2]; exact ⟨a, i⟩

theorem search_poolPar {T : Tree} (hint : List Nat) {s : State} (hs : Safe T s) :
    PoolPar T (search T hint s).1 := by
  apply held_poolPar
  unfold search
  rw [List.foldl_append]
  -- the hint part only shrinks the pool
  have hsub : ∀ c ∈ (hint.foldl (stepPool T s.pool) (s, [])).1.pool, c ∈ s.pool := by
    refine foldl_preserves (stepPool T s.pool) (fun acc => ∀ c ∈ acc.1.pool, c ∈ s.pool) ?_ _ _ (fun c h => h)
    intro acc c h x hx
    exact h x ((stepPool_other (T := T) (pool0 := s.pool) acc c).2.2 x hx)
  generalize hint.foldl (stepPool T s.pool) (s, []) = mid at hsub ⊢
  obtain ⟨r1, r2⟩ := range_pass (T := T) (pool0 := s.pool) (poolBound s.pool + 1) mid
    (fun c hc => (hs.poolNc c (hsub c hc)).1)
  intro c hc
  refine r1 c hc ?_
  have := le_poolBound s.pool 0 c (hsub c (r2 c hc))
  unfold poolBound; omega

end CkbVerif.Chain
