import CkbVerif.Lemmas.Chain

/-!
Liveness invariant of the chain pipeline model: every delivered fully valid block is accounted for
(has an ext, or is queued behind its parent, or waits in the orphan pool for a parent that is
neither stored nor pending), as long as the expiry timer has not removed anything.
Used for `tip_heaviest_at_quiescence` (C01) and `crash_convergence` (C08).
-/
namespace CkbVerif.Chain

/-- queue discipline: a fully valid queued block has its parent's ext already, or the parent is
queued before it (`seenL` = what precedes) -/
def QG (T : Tree) (td : Nat → Option Nat) : List Nat → List Nat → Prop
  | _, [] => True
  | seenL, b :: r =>
    (FullyValid T b → b ≠ 0 → (td (T.par b)).isSome = true ∨ T.par b ∈ seenL) ∧ QG T td (b :: seenL) r

theorem QG_append {T : Tree} {td : Nat → Option Nat} (c : Nat) : ∀ (q A : List Nat), QG T td A q →
    (FullyValid T c → c ≠ 0 → (td (T.par c)).isSome = true ∨ T.par c ∈ A ∨ T.par c ∈ q) →
    QG T td A (q ++ [c]) := by
  intro q
  induction q with
  | nil =>
    intro A _ hc
    refine ⟨fun hfv h0 => ?_, trivial⟩
    rcases hc hfv h0 with h | h | h
    · exact Or.inl h
    · exact Or.inr h
    · simp at h
  | cons y r ih =>
    intro A hq hc
    refine ⟨hq.1, ih (y :: A) hq.2 (fun hfv h0 => ?_)⟩
    rcases hc hfv h0 with h | h | h
    · exact Or.inl h
    · exact Or.inr (Or.inl (List.mem_cons_of_mem _ h))
    · rcases List.mem_cons.mp h with h | h
      · exact Or.inr (Or.inl (by rw [h]; exact List.mem_cons_self))
      · exact Or.inr (Or.inr h)

theorem QG_mono {T : Tree} {td td' : Nat → Option Nat}
    (hext : ∀ x, (td x).isSome = true → (td' x).isSome = true) :
    ∀ (r A B : List Nat), QG T td A r →
      (∀ x ∈ A, x ∈ B ∨ (td' x).isSome = true ∨ ¬ FullyValid T x) → QG T td' B r := by
  intro r
  induction r with
  | nil => intro _ _ _ _; trivial
  | cons y r ih =>
    intro A B hq hab
    refine ⟨fun hfv h0 => ?_, ih (y :: A) (y :: B) hq.2 ?_⟩
    · rcases hq.1 hfv h0 with h | h
      · exact Or.inl (hext _ h)
      · rcases hab _ h with h1 | h1 | h1
        · exact Or.inr h1
        · exact Or.inl h1
        · exact absurd (hfv.parent h0) h1
    · intro x hx
      rcases List.mem_cons.mp hx with h | h
      · exact Or.inl (by rw [h]; exact List.mem_cons_self)
      · rcases hab x h with h1 | h1
        · exact Or.inl (List.mem_cons_of_mem _ h1)
        · exact Or.inr h1

structure LiveCore (T : Tree) (s : State) : Prop where
  extValid : ∀ b, (s.td b).isSome = true → s.invalid b = false
  invNotFV : ∀ b, s.invalid b = true → ¬ FullyValid T b
  qg : QG T s.td [] s.queue
  pendQ : ∀ b, s.pending b = true → b ∈ s.queue
  queueSt : ∀ b ∈ s.queue, s.pending b = true ∨ (s.td b).isSome = true ∨ s.invalid b = true
  kept : ∀ b, b ≠ 0 → s.seen b = true → FullyValid T b →
    (s.td b).isSome = true ∨ b ∈ s.queue ∨ b ∈ s.pool

/-- orphans are connected: no pooled block has a pending or stored parent -/
def PoolPar (T : Tree) (s : State) : Prop :=
  ∀ c ∈ s.pool, s.pending (T.par c) = false ∧ s.td (T.par c) = none ∧
    (s.invalid (T.par c) = true → T.nc (T.par c) = false)

structure Live (T : Tree) (s : State) : Prop where
  core : LiveCore T s
  poolPar : PoolPar T s

/-- the full invariant -/
structure Inv (T : Tree) (s : State) : Prop where
  safe : Safe T s
  live : s.expiryFired = false → Live T s

/-! ## Primitive changes made by the chain-service thread -/

theorem acceptable_parent {T : Tree} {s : State} (hl : LiveCore T s) {p : Nat}
    (h : acceptable s p = true) : (s.td p).isSome = true ∨ p ∈ s.queue := by
  unfold acceptable at h
  simp only [Bool.or_eq_true, Bool.and_eq_true] at h
  rcases h with h | h
  · exact Or.inr (hl.pendQ p h)
  · exact Or.inl h.2

theorem live_accept {T : Tree} {s s' : State} (hl : LiveCore T s) {c : Nat}
    (hacc : acceptable s (T.par c) = true)
    (htd : s'.td = s.td) (hinv : s'.invalid = s.invalid) (hq : s'.queue = s.queue ++ [c])
    (hpend : s'.pending = upd s.pending c true)
    (hseen : ∀ x, s'.seen x = true → s.seen x = true ∨ x = c)
    (hpool : ∀ x ∈ s.pool, x ≠ c → x ∈ s'.pool) : LiveCore T s' := by
  refine ⟨?_, ?_, ?_, ?_, ?_, ?_⟩
  · rw [htd, hinv]; exact hl.extValid
  · rw [hinv]; exact hl.invNotFV
  · rw [htd, hq]
    refine QG_append c _ _ hl.qg (fun _ _ => ?_)
    rcases acceptable_parent hl hacc with h | h
    · exact Or.inl h
    · exact Or.inr (Or.inr h)
  · intro b hb
    rw [hpend] at hb; rw [hq]
    by_cases hbc : b = c
    · subst hbc; simp
    · rw [upd_other _ _ hbc] at hb
      exact List.mem_append.mpr (Or.inl (hl.pendQ b hb))
  · intro b hb
    rw [hq] at hb; rw [hpend, htd, hinv]
    by_cases hbc : b = c
    · subst hbc; left; simp
    · rw [upd_other _ _ hbc]
      rcases List.mem_append.mp hb with h | h
      · exact hl.queueSt b h
      · exact absurd (by simpa using h) hbc
  · intro b hb0 hs hfv
    rw [htd, hq]
    by_cases hbc : b = c
    · subst hbc; right; left; simp
    · rcases hseen b hs with h | h
      · rcases hl.kept b hb0 h hfv with h1 | h1 | h1
        · exact Or.inl h1
        · exact Or.inr (Or.inl (List.mem_append.mpr (Or.inl h1)))
        · exact Or.inr (Or.inr (hpool b h1 hbc))
      · exact absurd h hbc

theorem live_reject {T : Tree} {s s' : State} (hs : Safe T s) (hl : LiveCore T s) {c : Nat} (hc0 : c ≠ 0)
    (hbad : s.invalid (T.par c) = true)
    (htd : s'.td = s.td) (hinv : s'.invalid = upd s.invalid c true) (hq : s'.queue = s.queue)
    (hpend : s'.pending = s.pending)
    (hseen : ∀ x, s'.seen x = true → s.seen x = true ∨ x = c)
    (hpool : ∀ x ∈ s.pool, x ≠ c → x ∈ s'.pool) : LiveCore T s' := by
  have hnfv : ¬ FullyValid T c := fun hfv => hl.invNotFV _ hbad (hfv.parent hc0)
  refine ⟨?_, ?_, ?_, ?_, ?_, ?_⟩
  · intro b hb
    rw [htd] at hb; rw [hinv]
    by_cases hbc : b = c
    · subst hbc
      have := (hs.extPar b hb hc0).1
      have := hl.extValid _ this
      rw [hbad] at this; exact absurd this (by simp)
    · rw [upd_other _ _ hbc]; exact hl.extValid b hb
  · intro b hb
    rw [hinv] at hb
    by_cases hbc : b = c
    · subst hbc; exact hnfv
    · rw [upd_other _ _ hbc] at hb; exact hl.invNotFV b hb
  · rw [htd, hq]; exact hl.qg
  · rw [hpend, hq]; exact hl.pendQ
  · intro b hb
    rw [hq] at hb; rw [hpend, htd, hinv]
    rcases hl.queueSt b hb with h | h | h
    · exact Or.inl h
    · exact Or.inr (Or.inl h)
    · right; right
      by_cases hbc : b = c
      · subst hbc; simp
      · rw [upd_other _ _ hbc]; exact h
  · intro b hb0 hsn hfv
    rw [htd, hq]
    by_cases hbc : b = c
    · subst hbc; exact absurd hfv hnfv
    · rcases hseen b hsn with h | h
      · rcases hl.kept b hb0 h hfv with h1 | h1 | h1
        · exact Or.inl h1
        · exact Or.inr (Or.inl h1)
        · exact Or.inr (Or.inr (hpool b h1 hbc))
      · exact absurd h hbc

theorem live_pooled {T : Tree} {s s' : State} (hl : LiveCore T s) {c : Nat}
    (htd : s'.td = s.td) (hinv : s'.invalid = s.invalid) (hq : s'.queue = s.queue)
    (hpend : s'.pending = s.pending)
    (hseen : ∀ x, s'.seen x = true → s.seen x = true ∨ x = c)
    (hc : c ∈ s'.pool) (hpool : ∀ x ∈ s.pool, x ∈ s'.pool) : LiveCore T s' := by
  refine ⟨?_, ?_, ?_, ?_, ?_, ?_⟩
  · rw [htd, hinv]; exact hl.extValid
  · rw [hinv]; exact hl.invNotFV
  · rw [htd, hq]; exact hl.qg
  · rw [hpend, hq]; exact hl.pendQ
  · rw [hq, hpend, htd, hinv]; exact hl.queueSt
  · intro b hb0 hsn hfv
    rw [htd, hq]
    rcases hseen b hsn with h | h
    · rcases hl.kept b hb0 h hfv with h1 | h1 | h1
      · exact Or.inl h1
      · exact Or.inr (Or.inl h1)
      · exact Or.inr (Or.inr (hpool b h1))
    · subst h; exact Or.inr (Or.inr hc)

/-! ## search -/

theorem safe_stepPool {T : Tree} {pool0 : List Nat} {acc : State × Out} (h : Safe T acc.1) (c : Nat) :
    Safe T (stepPool T pool0 acc c).1 := by
  obtain ⟨c1, q1, p1⟩ := stepPool_safeFrame (T := T) (pool0 := pool0) (s := acc.1) acc c
    ⟨SameChain.refl _, h.queueNc, h.poolNc⟩
  exact h.of_sameChain c1 q1 p1

theorem live_stepPool {T : Tree} {pool0 : List Nat} {acc : State × Out} (hs : Safe T acc.1)
    (hl : LiveCore T acc.1) (c : Nat) : LiveCore T (stepPool T pool0 acc c).1 := by
  have hact := stepPool_act T pool0 acc c
  generalize stepPool T pool0 acc c = r at hact ⊢
  cases hact with
  | skip _ => exact hl
  | accept hc ha =>
    exact live_accept hl ha rfl rfl rfl rfl (fun x hx => Or.inl hx)
      (fun x hx hxc => by simp [enqueue, unpool]; exact ⟨hx, hxc⟩)
  | reject hc hi =>
    exact live_reject hs hl (hs.poolNc c hc).1 hi rfl rfl rfl rfl (fun x hx => Or.inl hx)
      (fun x hx hxc => by simp [rejectBlk, unpool]; exact ⟨hx, hxc⟩)

theorem search_core {T : Tree} (hint : List Nat) {s : State} (hs : Safe T s) (hl : LiveCore T s) :
    Safe T (search T hint s).1 ∧ LiveCore T (search T hint s).1 := by
  unfold search
  exact foldl_preserves (stepPool T s.pool) (fun acc => Safe T acc.1 ∧ LiveCore T acc.1)
    (fun acc c h => ⟨safe_stepPool h.1 c, live_stepPool h.1 h.2 c⟩) _ _ ⟨hs, hl⟩

/-- what a search candidate step leaves untouched -/
theorem stepPool_other {T : Tree} {pool0 : List Nat} (acc : State × Out) (c : Nat) :
    (∀ x, x ≠ c → (stepPool T pool0 acc c).1.pending x = acc.1.pending x ∧
      (stepPool T pool0 acc c).1.invalid x = acc.1.invalid x) ∧
    (stepPool T pool0 acc c).1.td = acc.1.td ∧
    (∀ x ∈ (stepPool T pool0 acc c).1.pool, x ∈ acc.1.pool) := by
  have hact := stepPool_act T pool0 acc c
  generalize stepPool T pool0 acc c = r at hact ⊢
  cases hact with
  | skip _ => exact ⟨fun _ _ => ⟨rfl, rfl⟩, rfl, fun _ h => h⟩
  | accept _ _ =>
    refine ⟨fun x hx => ⟨?_, rfl⟩, rfl, fun x h => ?_⟩
    · show upd _ c true x = _
      rw [upd_other _ _ hx]; rfl
    · simp [enqueue, unpool] at h; exact h.1
  | reject _ _ =>
    refine ⟨fun x hx => ⟨rfl, ?_⟩, rfl, fun x h => ?_⟩
    · show upd _ c true x = _
      rw [upd_other _ _ hx]; rfl
    · simp [rejectBlk, unpool] at h; exact h.1

/-- a pooled block is "held": its parent is neither acceptable nor marked invalid -/
def Held (T : Tree) (s : State) (c : Nat) : Prop :=
  acceptable s (T.par c) = false ∧ s.invalid (T.par c) = false

theorem held_poolPar {T : Tree} {s : State} (h : ∀ c ∈ s.pool, Held T s c) : PoolPar T s := by
  intro c hc
  obtain ⟨h1, h2⟩ := h c hc
  unfold acceptable at h1
  simp only [Bool.or_eq_false_iff, Bool.and_eq_false_iff] at h1
  refine ⟨h1.1, ?_, fun h => by rw [h2] at h; exact absurd h (by simp)⟩
  rcases h1.2 with h | h
  · rw [h2] at h; simp at h
  · cases htd : s.td (T.par c) with
    | none => rfl
    | some _ => rw [htd] at h; simp at h

theorem le_poolBound : ∀ (l : List Nat) (m c : Nat), c ∈ l → c ≤ l.foldl max m := by
  intro l
  induction l with
  | nil => intro m c h; simp at h
  | cons y r ih =>
    intro m c h
    simp only [List.foldl_cons]
    rcases List.mem_cons.mp h with h | h
    · subst h
      have : ∀ (l : List Nat) (m : Nat), m ≤ l.foldl max m := by
        intro l
        induction l with
        | nil => intro m; simp
        | cons z t iht => intro m; simp only [List.foldl_cons]; exact Nat.le_trans (Nat.le_max_left m z) (iht _)
      exact Nat.le_trans (Nat.le_max_right m c) (this r _)
    · exact ih _ c h

/-- the ascending pass: after candidates `0..k` every pooled id `< k` is held -/
theorem range_pass {T : Tree} {pool0 : List Nat} : ∀ (k : Nat) (acc : State × Out),
    (∀ c ∈ acc.1.pool, c ≠ 0) →
    (∀ c ∈ ((List.range k).foldl (stepPool T pool0) acc).1.pool, c < k →
      Held T ((List.range k).foldl (stepPool T pool0) acc).1 c) ∧
    (∀ c ∈ ((List.range k).foldl (stepPool T pool0) acc).1.pool, c ∈ acc.1.pool) := by
  intro k
  induction k with
  | zero => intro acc _; exact ⟨fun c _ h => absurd h (Nat.not_lt_zero c), fun c h => by simpa using h⟩
  | succ k ih =>
    intro acc h0
    rw [List.range_succ, List.foldl_append]
    simp only [List.foldl_cons, List.foldl_nil]
    obtain ⟨ih1, ih2⟩ := ih acc h0
    generalize (List.range k).foldl (stepPool T pool0) acc = mid at ih1 ih2 ⊢
    obtain ⟨o1, o2, o3⟩ := stepPool_other (T := T) (pool0 := pool0) mid k
    refine ⟨?_, fun c h => ih2 c (o3 c h)⟩
    intro c hc hck
    by_cases hk : c = k
    · subst hk
      obtain ⟨e, a, i⟩ := stepPool_hold hc
      rw [e]; exact ⟨a, i⟩
    · have hlt : c < k := by omega
      have hcm := o3 c hc
      have hc0 : c ≠ 0 := h0 c (ih2 c hcm)
      have hpar : T.par c ≠ k := by have := T.par_lt hc0; omega
      obtain ⟨a, i⟩ := ih1 c hcm hlt
      obtain ⟨p1, p2⟩ := o1 (T.par c) hpar
      unfold Held acceptable at *
      rw [p1, p2, o2]; exact ⟨a, i⟩

theorem search_poolPar {T : Tree} (hint : List Nat) {s : State} (hs : Safe T s) :
    PoolPar T (search T hint s).1 := by
  apply held_poolPar
  unfold search
  rw [List.foldl_append]
  -- the hint part only shrinks the pool
  have hsub : ∀ c ∈ (hint.foldl (stepPool T s.pool) (s, [])).1.pool, c ∈ s.pool := by
    refine foldl_preserves (stepPool T s.pool) (fun acc => ∀ c ∈ acc.1.pool, c ∈ s.pool) ?_ _ _ (fun c h => h)
    intro acc c h x hx
    exact h x ((stepPool_other (T := T) (pool0 := s.pool) acc c).2.2 x hx)
  generalize hint.foldl (stepPool T s.pool) (s, []) = mid at hsub ⊢
  obtain ⟨r1, r2⟩ := range_pass (T := T) (pool0 := s.pool) (poolBound s.pool + 1) mid
    (fun c hc => (hs.poolNc c (hsub c hc)).1)
  intro c hc
  refine r1 c hc ?_
  have := le_poolBound s.pool 0 c (hsub c (r2 c hc))
  unfold poolBound; omega


/-! ## deliver -/

theorem safe_route {T : Tree} {s : State} (h : Safe T s) {b : Nat} (hb : b ≠ 0) (hnc : T.nc b = true) :
    Safe T (route T { s with seen := upd s.seen b true, stored := upd s.stored b true, commits := s.commits + 1 } b).1 := by
  have hact := route_act T { s with seen := upd s.seen b true, stored := upd s.stored b true, commits := s.commits + 1 } b
  generalize route T { s with seen := upd s.seen b true, stored := upd s.stored b true, commits := s.commits + 1 } b = r at hact ⊢
  cases hact with
  | accept _ =>
    refine h.of_sameChain ⟨rfl, rfl, rfl, rfl⟩ ?_ h.poolNc
    intro x hx
    simp [enqueue] at hx
    rcases hx with hx | hx
    · exact h.queueNc x hx
    · subst hx; exact ⟨hb, hnc⟩
  | reject _ _ => exact h.of_sameChain ⟨rfl, rfl, rfl, rfl⟩ h.queueNc h.poolNc
  | dup _ _ _ => exact h.of_sameChain ⟨rfl, rfl, rfl, rfl⟩ h.queueNc h.poolNc
  | hold _ _ _ =>
    refine h.of_sameChain ⟨rfl, rfl, rfl, rfl⟩ h.queueNc ?_
    intro x hx
    simp at hx
    rcases hx with hx | hx
    · subst hx; exact ⟨hb, hnc⟩
    · exact h.poolNc x hx

theorem upd_true_cases {f : Nat → Bool} {b x : Nat} (h : upd f b true x = true) : f x = true ∨ x = b := by
  by_cases hx : x = b
  · exact Or.inr hx
  · rw [upd_other _ _ hx] at h; exact Or.inl h

theorem live_route {T : Tree} {s : State} (hs : Safe T s) (hl : LiveCore T s) {b : Nat} (hb : b ≠ 0) :
    LiveCore T (route T { s with seen := upd s.seen b true, stored := upd s.stored b true, commits := s.commits + 1 } b).1 := by
  have hact := route_act T { s with seen := upd s.seen b true, stored := upd s.stored b true, commits := s.commits + 1 } b
  generalize route T { s with seen := upd s.seen b true, stored := upd s.stored b true, commits := s.commits + 1 } b = r at hact ⊢
  cases hact with
  | accept ha =>
    exact live_accept hl (c := b) ha rfl rfl rfl rfl (fun x hx => upd_true_cases hx) (fun x hx _ => hx)
  | reject _ hi =>
    exact live_reject hs hl hb hi rfl rfl rfl rfl (fun x hx => upd_true_cases hx) (fun x hx _ => hx)
  | dup _ _ hm =>
    exact live_pooled hl (c := b) rfl rfl rfl rfl (fun x hx => upd_true_cases hx) hm (fun x hx => hx)
  | hold _ _ _ =>
    exact live_pooled hl (c := b) rfl rfl rfl rfl (fun x hx => upd_true_cases hx)
      (List.mem_cons_self) (fun x hx => List.mem_cons_of_mem _ hx)

theorem live_deliver {T : Tree} {s : State} (hs : Safe T s) (hl : Live T s) (hint : List Nat) (b : Nat) :
    Live T (deliver T hint s b).1 := by
  unfold deliver
  by_cases hb : b = 0
  · simp [hb]; exact hl
  · simp only [hb, if_false]
    by_cases hnc : T.nc b = true
    · simp only [hnc, Bool.not_true, Bool.false_eq_true, if_false]
      have s1 := safe_route hs hb hnc
      have l1 := live_route hs hl.core hb
      exact ⟨(search_core hint s1 l1).2, search_poolPar hint s1⟩
    · have hnc' : T.nc b = false := by simpa using hnc
      simp only [hnc', Bool.not_false, if_true]
      have hnfv : ¬ FullyValid T b := fun hfv => by
        have := (hfv.flags hb).1; rw [hnc'] at this; exact absurd this (by simp)
      refine ⟨⟨?_, ?_, hl.core.qg, hl.core.pendQ, ?_, ?_⟩, ?_⟩
      · intro x hx
        show upd s.invalid b true x = false
        by_cases hxb : x = b
        · subst hxb
          have := (hs.extPar x hx hb).2; rw [hnc'] at this; exact absurd this (by simp)
        · rw [upd_other _ _ hxb]; exact hl.core.extValid x hx
      · intro x hx
        change upd s.invalid b true x = true at hx
        by_cases hxb : x = b
        · subst hxb; exact hnfv
        · rw [upd_other _ _ hxb] at hx; exact hl.core.invNotFV x hx
      · intro x hx
        show _ ∨ _ ∨ upd s.invalid b true x = true
        rcases hl.core.queueSt x hx with h | h | h
        · exact Or.inl h
        · exact Or.inr (Or.inl h)
        · right; right
          by_cases hxb : x = b
          · subst hxb; simp
          · rw [upd_other _ _ hxb]; exact h
      · intro x hx0 hsn hfv
        change upd s.seen b true x = true at hsn
        rcases upd_true_cases hsn with h | h
        · exact hl.core.kept x hx0 h hfv
        · subst h; exact absurd hfv hnfv
      · intro c hc
        obtain ⟨p1, p2, p3⟩ := hl.poolPar c hc
        refine ⟨p1, p2, ?_⟩
        intro hi
        change upd s.invalid b true (T.par c) = true at hi
        by_cases hpb : T.par c = b
        · rw [hpb]; exact hnc'
        · rw [upd_other _ _ hpb] at hi; exact p3 hi

/-! ## verify -/

theorem head_not_pool_parent {T : Tree} {s : State} (hs : Safe T s) (hl : Live T s) {b : Nat} {q : List Nat}
    (hq : s.queue = b :: q) : ∀ c ∈ s.pool, T.par c ≠ b := by
  intro c hc hpb
  have hbq : b ∈ s.queue := by rw [hq]; exact List.mem_cons_self
  obtain ⟨p1, p2, p3⟩ := hl.poolPar c hc
  rw [hpb] at p1 p2 p3
  rcases hl.core.queueSt b hbq with h | h | h
  · rw [p1] at h; exact absurd h (by simp)
  · rw [p2] at h; simp at h
  · have := (hs.queueNc b hbq).2; rw [p3 h] at this; exact absurd this (by simp)

theorem fail_facts {T : Tree} {s : State} (hs : Safe T s) (hl : Live T s) {b : Nat} {q : List Nat}
    (hq : s.queue = b :: q)
    (hf : s.invalid (T.par b) = true ∨ s.td (T.par b) = none ∨
        (∃ ptd, s.td (T.par b) = some ptd ∧ s.invalid (T.par b) = false ∧ s.tipTd < ptd + T.work b ∧
          (dirtyRun T s (T.par b) ++ [b]).all T.ok = false)) :
    ¬ FullyValid T b ∧ s.td b = none := by
  have hbq : b ∈ s.queue := by rw [hq]; exact List.mem_cons_self
  have hb0 := (hs.queueNc b hbq).1
  have hqg := hl.core.qg
  rw [hq] at hqg
  constructor
  · intro hfv
    rcases hf with h | h | ⟨ptd, hp, _, _, hall⟩
    · exact hl.core.invNotFV _ h (hfv.parent hb0)
    · rcases hqg.1 hfv hb0 with h1 | h1
      · rw [h] at h1; simp at h1
      · simp at h1
    · have : (dirtyRun T s (T.par b) ++ [b]).all T.ok = true := by
        apply List.all_eq_true.mpr
        intro x hx
        rcases List.mem_append.mp hx with h | h
        · exact dirtyRun_ok T s _ (hfv.parent hb0) x h
        · have : x = b := by simpa using h
          subst this; exact (hfv.flags hb0).2
      rw [this] at hall; exact absurd hall (by simp)
  · cases htd : s.td b with
    | none => rfl
    | some n =>
      exfalso
      have hext : (s.td b).isSome = true := by simp [htd]
      have hpe := (hs.extPar b hext hb0).1
      rcases hf with h | h | ⟨ptd, hp, _, hlt, _⟩
      · have := hl.core.extValid _ hpe; rw [h] at this; exact absurd this (by simp)
      · rw [h] at hpe; simp at hpe
      · have h1 := hs.tdTrue _ _ htd
        have h2 : TD T b (ptd + T.work b) := .step hb0 (hs.tdTrue _ _ hp)
        have := TD.functional h1 h2
        have := hs.tdLe _ _ htd
        omega

theorem live_fail {T : Tree} {s : State} (hs : Safe T s) (hl : Live T s) {b : Nat} {q : List Nat}
    (hq : s.queue = b :: q) (hnfv : ¬ FullyValid T b) (hnone : s.td b = none) :
    Live T (verifyFail { s with queue := q } b).1 := by
  have hnp := head_not_pool_parent hs hl hq
  refine ⟨⟨?_, ?_, ?_, ?_, ?_, ?_⟩, ?_⟩
  · intro x hx
    show upd s.invalid b true x = false
    by_cases hxb : x = b
    · subst hxb; change (s.td x).isSome = true at hx; rw [hnone] at hx; simp at hx
    · rw [upd_other _ _ hxb]; exact hl.core.extValid x hx
  · intro x hx
    change upd s.invalid b true x = true at hx
    by_cases hxb : x = b
    · subst hxb; exact hnfv
    · rw [upd_other _ _ hxb] at hx; exact hl.core.invNotFV x hx
  · have hqg := hl.core.qg
    rw [hq] at hqg
    show QG T s.td [] q
    refine QG_mono (fun _ h => h) q [b] [] hqg.2 ?_
    intro x hx
    have : x = b := by simpa using hx
    subst this; exact Or.inr (Or.inr hnfv)
  · intro x hx
    change upd s.pending b false x = true at hx
    show x ∈ q
    by_cases hxb : x = b
    · subst hxb; simp at hx
    · rw [upd_other _ _ hxb] at hx
      have := hl.core.pendQ x hx
      rw [hq] at this
      rcases List.mem_cons.mp this with h | h
      · exact absurd h hxb
      · exact h
  · intro x hx
    change x ∈ q at hx
    show upd s.pending b false x = true ∨ _ ∨ upd s.invalid b true x = true
    by_cases hxb : x = b
    · subst hxb; right; right; simp
    · rw [upd_other _ _ hxb, upd_other _ _ hxb]
      exact hl.core.queueSt x (by rw [hq]; exact List.mem_cons_of_mem _ hx)
  · intro x hx0 hsn hfv
    show _ ∨ x ∈ q ∨ _
    rcases hl.core.kept x hx0 hsn hfv with h | h | h
    · exact Or.inl h
    · rw [hq] at h
      rcases List.mem_cons.mp h with h1 | h1
      · subst h1; exact absurd hfv hnfv
      · exact Or.inr (Or.inl h1)
    · exact Or.inr (Or.inr h)
  · intro c hc
    have hne := hnp c hc
    obtain ⟨p1, p2, p3⟩ := hl.poolPar c hc
    refine ⟨?_, p2, ?_⟩
    · show upd s.pending b false (T.par c) = false
      rw [upd_other _ _ hne]; exact p1
    · intro hi
      change upd s.invalid b true (T.par c) = true at hi
      rw [upd_other _ _ hne] at hi; exact p3 hi

/-- a successful verification of the head `b`: `b` has an ext afterwards, other exts are unchanged -/
theorem live_done {T : Tree} {s s' : State} (hs : Safe T s) (hl : Live T s) {b : Nat} {q : List Nat}
    (hq : s.queue = b :: q) (hb : (s'.td b).isSome = true) (ho : ∀ x, x ≠ b → s'.td x = s.td x)
    (hinv : s'.invalid = upd s.invalid b false) (hpend : s'.pending = upd s.pending b false)
    (hq' : s'.queue = q) (hpool : s'.pool = s.pool) (hseen : s'.seen = s.seen) : Live T s' := by
  have hnp := head_not_pool_parent hs hl hq
  have hext : ∀ x, (s.td x).isSome = true → (s'.td x).isSome = true := by
    intro x hx
    by_cases hxb : x = b
    · subst hxb; exact hb
    · rw [ho x hxb]; exact hx
  refine ⟨⟨?_, ?_, ?_, ?_, ?_, ?_⟩, ?_⟩
  · intro x hx
    rw [hinv]
    by_cases hxb : x = b
    · subst hxb; simp
    · rw [upd_other _ _ hxb]; rw [ho x hxb] at hx; exact hl.core.extValid x hx
  · intro x hx
    rw [hinv] at hx
    by_cases hxb : x = b
    · subst hxb; simp at hx
    · rw [upd_other _ _ hxb] at hx; exact hl.core.invNotFV x hx
  · have hqg := hl.core.qg
    rw [hq] at hqg
    rw [hq']
    refine QG_mono hext q [b] [] hqg.2 ?_
    intro x hx
    have : x = b := by simpa using hx
    subst this; exact Or.inr (Or.inl hb)
  · intro x hx
    rw [hpend] at hx; rw [hq']
    by_cases hxb : x = b
    · subst hxb; simp at hx
    · rw [upd_other _ _ hxb] at hx
      have := hl.core.pendQ x hx
      rw [hq] at this
      rcases List.mem_cons.mp this with h | h
      · exact absurd h hxb
      · exact h
  · intro x hx
    rw [hq'] at hx; rw [hpend, hinv]
    by_cases hxb : x = b
    · subst hxb; exact Or.inr (Or.inl hb)
    · rw [upd_other _ _ hxb, upd_other _ _ hxb, ho x hxb]
      exact hl.core.queueSt x (by rw [hq]; exact List.mem_cons_of_mem _ hx)
  · intro x hx0 hsn hfv
    rw [hseen] at hsn; rw [hq', hpool]
    rcases hl.core.kept x hx0 hsn hfv with h | h | h
    · exact Or.inl (hext x h)
    · rw [hq] at h
      rcases List.mem_cons.mp h with h1 | h1
      · subst h1; exact Or.inl hb
      · exact Or.inr (Or.inl h1)
    · exact Or.inr (Or.inr h)
  · intro c hc
    rw [hpool] at hc
    have hne := hnp c hc
    obtain ⟨p1, p2, p3⟩ := hl.poolPar c hc
    rw [hpend, hinv, ho _ hne, upd_other _ _ hne, upd_other _ _ hne]
    exact ⟨p1, p2, p3⟩

theorem live_verify {T : Tree} {s : State} (hs : Safe T s) (hl : Live T s) : Live T (verifyHead T s).1 := by
  have hact := verifyHead_act T s
  generalize verifyHead T s = r at hact ⊢
  cases hact with
  | empty _ => exact hl
  | fail b q hq hf =>
    obtain ⟨h1, h2⟩ := fail_facts hs hl hq hf
    exact live_fail hs hl hq h1 h2
  | known b q ptd hq _ _ _ hext =>
    exact live_done hs hl hq hext (fun _ _ => rfl) rfl rfl rfl rfl rfl
  | side b q ptd hq _ _ _ =>
    refine live_done hs hl hq ?_ (fun x hx => ?_) rfl rfl rfl rfl rfl
    · show (upd s.td b _ b).isSome = true
      simp
    · show upd s.td b _ x = _
      rw [upd_other _ _ hx]
  | best b q ptd hq _ _ _ _ =>
    refine live_done hs hl hq ?_ (fun x hx => ?_) rfl rfl rfl rfl rfl
    · show (upd s.td b _ b).isSome = true
      simp
    · show upd s.td b _ x = _
      rw [upd_other _ _ hx]

/-! ## expire, crash -/

theorem expire_noop (T : Tree) (s : State) (h : (expire T s).expiryFired = false) : expire T s = s := by
  unfold expire at h ⊢
  have key : ∀ (l : List Nat) (acc : State × List Nat),
      (l.foldl (stepExpire T s.pool (T.epoch s.tip)) acc).1.expiryFired = false →
      l.foldl (stepExpire T s.pool (T.epoch s.tip)) acc = acc := by
    intro l
    induction l with
    | nil => intro acc _; rfl
    | cons c r ih =>
      intro acc hf
      simp only [List.foldl_cons] at hf ⊢
      have h1 := ih _ hf
      rw [h1] at hf ⊢
      unfold stepExpire at hf ⊢
      by_cases hc : c ∈ acc.1.pool
      · simp only [hc, if_true] at hf ⊢
        by_cases hg : expGone T s.pool (T.epoch s.tip) acc.2 c = true
        · simp only [hg, if_true] at hf; simp at hf
        · simp only [hg]; rfl
      · simp only [hc, if_false]
  rw [key _ _ h]

theorem live_crash {T : Tree} {s : State} (hs : Safe T s) : Live T (crash s) := by
  refine ⟨⟨by simp [crash], by simp [crash], trivial, by simp [crash], by simp [crash], ?_⟩, ?_⟩
  · intro b _ hsn _
    left; exact hsn
  · intro c hc; simp [crash] at hc

theorem live_init (T : Tree) : Live T (init T) := by
  refine ⟨⟨by simp [init], by simp [init], trivial, by simp [init], by simp [init], ?_⟩, ?_⟩
  · intro b _ hsn; simp [init] at hsn
  · intro c hc; simp [init] at hc

/-! ## the full invariant -/

theorem inv_init' (T : Tree) : Inv T (init T) := ⟨safe_init T, fun _ => live_init T⟩

theorem inv_step' {T : Tree} {s : State} (h : Inv T s) (op : Op) : Inv T (step T s op).1 := by
  refine ⟨safe_step h.safe op, ?_⟩
  cases op with
  | deliver b hint =>
    intro hf
    have hf0 : s.expiryFired = false := by
      have : (deliver T hint s b).1.expiryFired = s.expiryFired := by
        unfold deliver
        by_cases hb : b = 0
        · simp [hb]
        · simp only [hb, if_false]
          by_cases hnc : T.nc b = true
          · simp only [hnc, Bool.not_true, Bool.false_eq_true, if_false]
            have e1 : ∀ (s0 : State) (x : Nat), (route T s0 x).1.expiryFired = s0.expiryFired := by
              intro s0 x
              have hact := route_act T s0 x
              generalize route T s0 x = r at hact ⊢
              cases hact <;> rfl
            have e2 : ∀ (s0 : State), (search T hint s0).1.expiryFired = s0.expiryFired := by
              intro s0
              unfold search
              refine foldl_preserves (stepPool T s0.pool) (fun acc => acc.1.expiryFired = s0.expiryFired) ?_ _ _ rfl
              intro acc c hacc
              have hact := stepPool_act T s0.pool acc c
              generalize stepPool T s0.pool acc c = r at hact ⊢
              cases hact <;> exact hacc
            rw [e2, e1]
          · have : T.nc b = false := by simpa using hnc
            simp only [this, Bool.not_false, if_true]
      exact this ▸ hf
    exact live_deliver h.safe (h.live hf0) hint b
  | verify =>
    intro hf
    have hf0 : s.expiryFired = false := by
      have : (verifyHead T s).1.expiryFired = s.expiryFired := by
        have hact := verifyHead_act T s
        generalize verifyHead T s = r at hact ⊢
        cases hact <;> rfl
      exact this ▸ hf
    exact live_verify h.safe (h.live hf0)
  | expire =>
    intro hf
    change (expire T s).expiryFired = false at hf
    show Live T (expire T s)
    have he := expire_noop T s hf
    rw [he] at hf ⊢
    exact h.live hf
  | crash => intro _; exact live_crash h.safe

theorem inv_run' {T : Tree} : ∀ (ops : List Op) (s : State), Inv T s → Inv T (run T s ops) := by
  intro ops
  induction ops with
  | nil => intro s h; exact h
  | cons op ops ih => intro s h; exact ih _ (inv_step' h op)

/-- at quiescence every chain formable from the delivered blocks has an ext -/
theorem chain_has_ext {T : Tree} {s : State} (hs : Safe T s) (hl : Live T s) (hq : s.queue = []) :
    ∀ b, ChainIn T (fun x => s.seen x = true) b → (s.td b).isSome = true := by
  intro b hc
  induction hc with
  | genesis => rw [hs.gen.2]; rfl
  | step hb hd h1 h2 hp ih =>
    rename_i b
    have hfv : FullyValid T b := .step hb h1 h2 hp.fullyValid
    rcases hl.core.kept b hb hd hfv with h | h | h
    · exact h
    · rw [hq] at h; simp at h
    · have := (hl.poolPar b h).2.1
      rw [this] at ih; simp at ih

end CkbVerif.Chain
