/-
Lemmas about `Model/Fork.lean` (`find_fork`): loop invariants of `alignment_fork` and
`find_fork_until_latest_common`, and the list algebra the C02 theorems are stated with.
Core Lean only.
-/
import CkbVerif.Model.Fork
namespace CkbVerif.Fork

/-! ### vocabulary -/

/-- the `k` youngest blocks of the branch ending in `x`, oldest first:
`[anc (k-1), …, anc 1, anc 0 = x]` -/
def ancList (s : Store) (x : Nat) : Nat → List Nat
  | 0 => []
  | k + 1 => anc s x k :: ancList s x k

/-- `main[lo], …, main[lo+n-1]` -/
def mainSeg (s : Store) (lo n : Nat) : List Nat := (List.range' lo n).map s.mainAt

/-- `l` is parent-linked and the parent of its first element is `p` -/
def Linked (s : Store) : Nat → List Nat → Prop
  | _, [] => True
  | p, x :: xs => s.parent x = p ∧ Linked s x xs

/-- the index that is exactly the parent path from genesis to `x` -/
def branchIndex (s : Store) (x : Nat) (h : Nat) : Nat → Option Nat :=
  fun n => if n ≤ h then some (ancAt s x n) else none

/-- Well-formedness of the store as `find_fork` finds it (the `expect`s of the code):
the new tip is not genesis, numbers decrease by one along its parent path down to the genesis
block, the main chain is parent-linked and indexed by number up to the current tip. -/
structure WF (s : Store) (cur newTip : Nat) : Prop where
  tip_pos : 0 < s.number newTip
  branch_num : ∀ k, k ≤ s.number newTip → s.number (anc s newTip k) = s.number newTip - k
  main_link : ∀ n, n < cur → s.parent (s.mainAt (n + 1)) = s.mainAt n
  main_num : ∀ n, n ≤ cur → s.number (s.mainAt n) = n
  root : anc s newTip (s.number newTip) = s.mainAt 0

/-! ### list algebra -/

theorem ancList_length (s : Store) (x k : Nat) : (ancList s x k).length = k := by
  induction k with
  | zero => rfl
  | succ k ih => simp [ancList, ih]

theorem mainSeg_length (s : Store) (lo n : Nat) : (mainSeg s lo n).length = n := by
  simp [mainSeg]

theorem mainSeg_succ (s : Store) (lo n : Nat) :
    mainSeg s lo (n + 1) = s.mainAt lo :: mainSeg s (lo + 1) n := by
  simp [mainSeg, List.range'_succ]

theorem mainSeg_concat (s : Store) (lo n : Nat) :
    mainSeg s lo (n + 1) = mainSeg s lo n ++ [s.mainAt (lo + n)] := by
  simp [mainSeg, List.range'_concat]

theorem mainSeg_append (s : Store) (lo n m : Nat) :
    mainSeg s lo n ++ mainSeg s (lo + n) m = mainSeg s lo (n + m) := by
  induction m with
  | zero => simp [mainSeg]
  | succ m ih =>
    rw [mainSeg_concat, ← List.append_assoc, ih, ← Nat.add_assoc, mainSeg_concat, Nat.add_assoc]

theorem anc_succ' (s : Store) (x k : Nat) : anc s x (k + 1) = anc s (s.parent x) k := by
  induction k with
  | zero => rfl
  | succ k ih => simp only [anc] at ih ⊢; rw [ih]

/-- the last `d` elements of `ancList K` are `ancList d` -/
theorem ancList_drop (s : Store) (x : Nat) (d K : Nat) (h : d ≤ K) :
    (ancList s x K).drop (K - d) = ancList s x d := by
  induction K with
  | zero =>
    have : d = 0 := by omega
    subst this; rfl
  | succ K ih =>
    by_cases hd : d = K + 1
    · subst hd; simp
    · have h' : d ≤ K := by omega
      have : K + 1 - d = (K - d) + 1 := by omega
      rw [this]
      simp only [ancList, List.drop_succ_cons]
      exact ih h'

theorem mem_ancList {s : Store} {x k a : Nat} : a ∈ ancList s x k ↔ ∃ j, j < k ∧ a = anc s x j := by
  induction k with
  | zero => simp [ancList]
  | succ k ih =>
    simp only [ancList, List.mem_cons, ih]
    constructor
    · rintro (h | ⟨j, hj, h⟩)
      · exact ⟨k, by omega, h⟩
      · exact ⟨j, by omega, h⟩
    · rintro ⟨j, hj, h⟩
      by_cases hjk : j = k
      · subst hjk; exact Or.inl h
      · exact Or.inr ⟨j, by omega, h⟩

/-- `ancList` written with heights: the ancestors of `x` at heights `N+1-K ..= N`, ascending -/
theorem ancList_eq_map (s : Store) (x K : Nat) (h : K ≤ s.number x) :
    ancList s x K = (List.range' (s.number x + 1 - K) K).map (ancAt s x) := by
  induction K with
  | zero => rfl
  | succ K ih =>
    have e1 : s.number x + 1 - (K + 1) = s.number x - K := by omega
    have e2 : s.number x - K + 1 = s.number x + 1 - K := by omega
    rw [e1, List.range'_succ, List.map_cons, e2, ← ih (by omega)]
    simp only [ancList, ancAt]
    have : s.number x - (s.number x - K) = K := by omega
    rw [this]

theorem linked_ancList (s : Store) (x K : Nat) : Linked s (anc s x K) (ancList s x K) := by
  induction K with
  | zero => trivial
  | succ K ih => exact ⟨rfl, ih⟩

theorem linked_mainSeg (s : Store) (cur : Nat) (hl : ∀ n, n < cur → s.parent (s.mainAt (n + 1)) = s.mainAt n)
    (lo n : Nat) (h : lo + n ≤ cur) : Linked s (s.mainAt lo) (mainSeg s (lo + 1) n) := by
  induction n generalizing lo with
  | zero => trivial
  | succ n ih =>
    rw [mainSeg_succ]
    exact ⟨hl lo (by omega), ih (lo + 1) (by omega)⟩

theorem ancList_numbers (s : Store) (x K : Nat)
    (hn : ∀ k, k ≤ s.number x → s.number (anc s x k) = s.number x - k) (h : K ≤ s.number x) :
    (ancList s x K).map s.number = List.range' (s.number x + 1 - K) K := by
  induction K with
  | zero => rfl
  | succ K ih =>
    have e1 : s.number x + 1 - (K + 1) = s.number x - K := by omega
    have e2 : s.number x - K + 1 = s.number x + 1 - K := by omega
    rw [e1, List.range'_succ, e2, ← ih (by omega)]
    simp [ancList, hn K (by omega)]

theorem mainSeg_numbers (s : Store) (cur : Nat) (hn : ∀ n, n ≤ cur → s.number (s.mainAt n) = n)
    (lo n : Nat) (h : lo + n ≤ cur + 1) : (mainSeg s lo n).map s.number = List.range' lo n := by
  induction n generalizing lo with
  | zero => rfl
  | succ n ih =>
    rw [mainSeg_succ, List.map_cons, List.range'_succ, ih (lo + 1) (by omega), hn lo (by omega)]

theorem sortedByKey_of_range (key : Nat → Nat) (l : List Nat) (a n : Nat)
    (h : l.map key = List.range' a n) : sortedByKey key l = true := by
  induction l generalizing a n with
  | nil => rfl
  | cons x xs ih =>
    cases xs with
    | nil => rfl
    | cons y ys =>
      cases n with
      | zero => simp at h
      | succ n =>
        cases n with
        | zero => simp at h
        | succ n =>
          simp only [List.map_cons, List.range'_succ, List.cons.injEq] at h
          obtain ⟨hx, hy, hrest⟩ := h
          simp only [sortedByKey, Bool.and_eq_true, decide_eq_true_eq]
          refine ⟨by omega, ih (a + 1) (n + 1) ?_⟩
          simp [List.range'_succ, hy, hrest]

theorem zip_self (l : List Nat) : l.zip l = l.map (fun x => (x, x)) := by
  induction l with
  | nil => rfl
  | cons a l ih => simp [ih]

/-! ### `alignDown` -/

theorem alignDown_spec (s : Store) (f : ForkChanges) (bn n : Nat) :
    alignDown s f bn n = { f with detached := f.detached ++ mainSeg s bn n } := by
  induction n generalizing f bn with
  | zero => simp [alignDown, mainSeg]
  | succ n ih =>
    simp only [alignDown]
    rw [ih, mainSeg_succ]
    simp

/-! ### the walking invariant of both loops

`k` = how many blocks of the new branch have been pushed onto `attached` so far. -/

structure WalkInv (s : Store) (x : Nat) (f : ForkChanges) (i : GlobalIndex) (k : Nat) : Prop where
  kpos : 1 ≤ k
  kle : k ≤ s.number x
  num : i.number = s.number x - k
  hash : i.hash = anc s x k
  att : f.attached = ancList s x k
  dirty : ∃ d, 1 ≤ d ∧ d ≤ k ∧ f.dirtyExts = ancList s x d ∧
    (∀ j, 1 ≤ j → j < d → s.verNone (anc s x j) = true) ∧
    (if i.unseen = true then d = k else d < k ∧ s.verNone (anc s x d) = false)

theorem collectExt_fields (s : Store) (f : ForkChanges) (i : GlobalIndex) :
    (collectExt s f i).1.attached = f.attached ∧ (collectExt s f i).1.detached = f.detached ∧
    (collectExt s f i).2.number = i.number ∧ (collectExt s f i).2.hash = i.hash := by
  unfold collectExt
  split
  · split <;> simp
  · simp

/-- one iteration of either loop body (after the `detached` push, which this lemma does not look at) -/
theorem walk_step (s : Store) (x : Nat) (f : ForkChanges) (i : GlobalIndex) (k : Nat)
    (h : WalkInv s x f i k) (hk : k < s.number x) :
    WalkInv s x { (collectExt s f i).1 with attached := (collectExt s f i).2.hash :: (collectExt s f i).1.attached }
      ((collectExt s f i).2.forward (s.parent (collectExt s f i).2.hash)) (k + 1) := by
  obtain ⟨ha, hd, hn, hh⟩ := collectExt_fields s f i
  refine ⟨by omega, by omega, ?_, ?_, ?_, ?_⟩
  · simp only [GlobalIndex.forward, hn, h.num]; omega
  · simp only [GlobalIndex.forward, hh, h.hash, anc]
  · simp only [ha, hh, h.att, h.hash, ancList]
  · obtain ⟨d, hd1, hdk, hde, hall, hflag⟩ := h.dirty
    have hfu : ∀ (j : GlobalIndex) (p : Nat), (j.forward p).unseen = j.unseen := fun _ _ => rfl
    simp only [hfu]
    unfold collectExt
    cases hu : i.unseen with
    | true =>
      simp only [hu, if_true] at hflag ⊢
      subst hflag
      by_cases hv : s.verNone i.hash = true
      · simp only [hv, if_true]
        refine ⟨d + 1, by omega, by omega, ?_, ?_, ?_⟩
        · simp only [hde, h.hash, ancList]
        · intro j hj1 hj2
          by_cases hjd : j = d
          · subst hjd; rw [← h.hash]; exact hv
          · exact hall j hj1 (by omega)
        · simp [hu]
      · simp only [hv]
        refine ⟨d, hd1, by omega, hde, hall, ?_⟩
        have : s.verNone (anc s x d) = false := by
          rw [← h.hash]; cases hvv : s.verNone i.hash <;> simp_all
        simp [this]
    | false =>
      simp only [hu, Bool.false_eq_true, if_false] at hflag ⊢
      exact ⟨d, hd1, by omega, hde, hall, by omega, hflag.2⟩

/-! ### `alignUp` -/

theorem alignUp_spec (s : Store) (x cur : Nat) (fuel : Nat) (f : ForkChanges) (i : GlobalIndex) (k : Nat)
    (h : WalkInv s x f i k) (hc : cur ≤ i.number) (hf : i.number - cur ≤ fuel) :
    ∃ k', WalkInv s x (alignUp s cur fuel f i).1 (alignUp s cur fuel f i).2 k' ∧
      (alignUp s cur fuel f i).2.number = cur ∧ (alignUp s cur fuel f i).1.detached = f.detached := by
  induction fuel generalizing f i k with
  | zero =>
    refine ⟨k, h, ?_, rfl⟩
    simp only [alignUp]; omega
  | succ fuel ih =>
    simp only [alignUp]
    by_cases hgt : i.number > cur
    · rw [if_pos hgt]
      have hk : k < s.number x := by have := h.num; omega
      have hstep := walk_step s x f i k h hk
      obtain ⟨ha, hd, hn, hh⟩ := collectExt_fields s f i
      have hnum' : ((collectExt s f i).2.forward (s.parent (collectExt s f i).2.hash)).number = i.number - 1 := by
        simp [GlobalIndex.forward, hn]
      obtain ⟨k', hw, hnum, hdet⟩ := ih _ _ (k + 1) hstep (by rw [hnum']; omega) (by rw [hnum']; omega)
      exact ⟨k', hw, hnum, by rw [hdet]; exact hd⟩
    · rw [if_neg hgt]
      dsimp only
      exact ⟨k, h, by omega, rfl⟩

/-! ### `untilCommon` -/

/-- no block of the new branch strictly above height `c` (and below the new tip) is on the main chain -/
def NoCommonAbove (s : Store) (x cur c : Nat) : Prop :=
  ∀ h, c < h → h ≤ cur → h < s.number x → ancAt s x h ≠ s.mainAt h

theorem untilCommon_spec (s : Store) (x cur : Nat) (hroot : anc s x (s.number x) = s.mainAt 0)
    (fuel : Nat) (f : ForkChanges) (i : GlobalIndex) (k : Nat)
    (h : WalkInv s x f i k) (hc : i.number ≤ cur)
    (hdet : f.detached = mainSeg s (i.number + 1) (cur - i.number))
    (hno : NoCommonAbove s x cur i.number) (hf : i.number ≤ fuel) :
    ∃ k', WalkInv s x (untilCommon s fuel f i).1 (untilCommon s fuel f i).2 k' ∧
      (untilCommon s fuel f i).2.number ≤ cur ∧
      (untilCommon s fuel f i).1.detached =
        mainSeg s ((untilCommon s fuel f i).2.number + 1) (cur - (untilCommon s fuel f i).2.number) ∧
      NoCommonAbove s x cur (untilCommon s fuel f i).2.number ∧
      (untilCommon s fuel f i).2.hash = s.mainAt (untilCommon s fuel f i).2.number := by
  induction fuel generalizing f i k with
  | zero =>
    have h0 : i.number = 0 := by omega
    refine ⟨k, h, hc, hdet, hno, ?_⟩
    simp only [untilCommon]
    have hk : k = s.number x := by have := h.num; have := h.kle; omega
    rw [h.hash, hk, hroot, h0]
  | succ fuel ih =>
    simp only [untilCommon]
    by_cases h0 : i.number = 0
    · rw [if_pos h0]
      dsimp only
      refine ⟨k, h, by omega, hdet, hno, ?_⟩
      have hk : k = s.number x := by have := h.num; have := h.kle; omega
      rw [h.hash, hk, hroot, h0]
    · rw [if_neg h0]
      by_cases heq : s.mainAt i.number = i.hash
      · rw [if_pos heq]
        dsimp only
        exact ⟨k, h, hc, hdet, hno, heq.symm⟩
      · rw [if_neg heq]
        have hk : k < s.number x := by have := h.num; omega
        -- the state after the `detached` push
        let f1 : ForkChanges := { f with detached := s.mainAt i.number :: f.detached }
        have h1 : WalkInv s x f1 i k := ⟨h.kpos, h.kle, h.num, h.hash, h.att, h.dirty⟩
        have hstep := walk_step s x f1 i k h1 hk
        obtain ⟨ha, hd, hn, hh⟩ := collectExt_fields s f1 i
        have hnum' : ((collectExt s f1 i).2.forward (s.parent (collectExt s f1 i).2.hash)).number = i.number - 1 := by
          simp [GlobalIndex.forward, hn]
        have hdet' : ({ (collectExt s f1 i).1 with attached := (collectExt s f1 i).2.hash :: (collectExt s f1 i).1.attached } : ForkChanges).detached
            = mainSeg s (i.number - 1 + 1) (cur - (i.number - 1)) := by
          show (collectExt s f1 i).1.detached = _
          rw [hd]
          show s.mainAt i.number :: f.detached = _
          rw [hdet]
          have e1 : i.number - 1 + 1 = i.number := by omega
          have e2 : cur - (i.number - 1) = (cur - i.number) + 1 := by omega
          rw [e1, e2, mainSeg_succ]
        have hno' : NoCommonAbove s x cur (i.number - 1) := by
          intro hh' h1' h2' h3'
          by_cases he : hh' = i.number
          · subst he
            intro hcontra
            apply heq
            rw [← hcontra, h.hash]
            unfold ancAt
            have : s.number x - i.number = k := by have := h.num; have := h.kle; omega
            rw [this]
          · exact hno hh' (by omega) h2' h3'
        have := ih _ _ (k + 1) hstep (by rw [hnum']; omega) (by rw [hnum']; exact hdet')
          (by rw [hnum']; exact hno') (by rw [hnum']; omega)
        exact this

/-! ### `findFork`: the full specification -/

/-- Everything the loops establish.  `c` is the height of the latest common ancestor, `d` the
number of collected dirty exts. -/
structure Spec (s : Store) (cur x : Nat) (f : ForkChanges) (c d : Nat) : Prop where
  c_le_cur : c ≤ cur
  c_lt : c < s.number x
  common : ancAt s x c = s.mainAt c
  latest : NoCommonAbove s x cur c
  detached : f.detached = mainSeg s (c + 1) (cur - c)
  attached : f.attached = ancList s x (s.number x - c)
  d_pos : 1 ≤ d
  d_le : d ≤ s.number x - c
  dirty : f.dirtyExts = ancList s x d
  dirty_none : ∀ j, 1 ≤ j → j < d → s.verNone (anc s x j) = true
  dirty_stop : d = s.number x - c ∨ (d < s.number x - c ∧ s.verNone (anc s x d) = false)

theorem findFork_spec (s : Store) (cur x : Nat) (wf : WF s cur x) :
    ∃ c d, Spec s cur x (findFork s cur x) c d := by
  have hN := wf.tip_pos
  -- the state before `alignment_fork`
  let f0 : ForkChanges := { dirtyExts := [x], attached := [x], detached := [] }
  let i0 : GlobalIndex := ⟨s.number x - 1, s.parent x, true⟩
  have hw0 : ∀ det, WalkInv s x { f0 with detached := det } i0 1 := by
    intro det
    refine ⟨Nat.le_refl _, hN, rfl, rfl, rfl, ⟨1, Nat.le_refl _, Nat.le_refl _, rfl, ?_, ?_⟩⟩
    · intro j h1 h2; omega
    · simp [i0]
  -- what `alignment_fork` returns satisfies the precondition of `untilCommon_spec`
  have halign : ∃ k, WalkInv s x (alignmentFork s f0 i0 (s.number x) cur).1 (alignmentFork s f0 i0 (s.number x) cur).2 k ∧
      (alignmentFork s f0 i0 (s.number x) cur).2.number ≤ cur ∧
      (alignmentFork s f0 i0 (s.number x) cur).1.detached =
        mainSeg s ((alignmentFork s f0 i0 (s.number x) cur).2.number + 1) (cur - (alignmentFork s f0 i0 (s.number x) cur).2.number) ∧
      NoCommonAbove s x cur (alignmentFork s f0 i0 (s.number x) cur).2.number := by
    unfold alignmentFork
    by_cases hle : s.number x ≤ cur
    · simp only [hle, if_true]
      rw [alignDown_spec]
      refine ⟨1, hw0 _, ?_, ?_, ?_⟩
      · show s.number x - 1 ≤ cur; omega
      · show [] ++ mainSeg s (s.number x) (cur + 1 - s.number x) = mainSeg s (s.number x - 1 + 1) (cur - (s.number x - 1))
        have e1 : s.number x - 1 + 1 = s.number x := by omega
        have e2 : cur - (s.number x - 1) = cur + 1 - s.number x := by omega
        rw [e1, e2]; rfl
      · intro h h1 h2 h3
        have : s.number x - 1 < h := h1
        omega
    · simp only [hle, if_false]
      have hw : WalkInv s x f0 i0 1 := hw0 []
      obtain ⟨k', hwk, hnum, hdet⟩ := alignUp_spec s x cur i0.number f0 i0 1 hw
        (by show cur ≤ s.number x - 1; omega) (by omega)
      refine ⟨k', hwk, by omega, ?_, ?_⟩
      · rw [hdet, hnum]
        have : cur - cur = 0 := by omega
        rw [this]; rfl
      · rw [hnum]; intro h h1 h2 h3; omega
  obtain ⟨k, hwk, hcur, hdet, hno⟩ := halign
  obtain ⟨k', hw', hc', hdet', hno', hhash'⟩ :=
    untilCommon_spec s x cur wf.root _ _ _ k hwk hcur hdet hno (Nat.le_refl _)
  have hff : findFork s cur x =
      (untilCommon s (alignmentFork s f0 i0 (s.number x) cur).2.number
        (alignmentFork s f0 i0 (s.number x) cur).1 (alignmentFork s f0 i0 (s.number x) cur).2).1 := rfl
  rw [hff]
  generalize (untilCommon s (alignmentFork s f0 i0 (s.number x) cur).2.number
        (alignmentFork s f0 i0 (s.number x) cur).1 (alignmentFork s f0 i0 (s.number x) cur).2) = r at *
  obtain ⟨d, hd1, hdk, hde, hall, hflag⟩ := hw'.dirty
  have hk' : k' = s.number x - r.2.number := by have := hw'.num; have := hw'.kle; omega
  refine ⟨r.2.number, d, hc', by have := hw'.num; have := hw'.kpos; omega, ?_, hno', hdet', ?_, hd1, ?_, hde, hall, ?_⟩
  · unfold ancAt; rw [← hk', ← hw'.hash]; exact hhash'
  · rw [← hk']; exact hw'.att
  · rw [← hk']; exact hdk
  · rw [← hk']
    by_cases hu : r.2.unseen = true
    · simp only [hu, if_true] at hflag; exact Or.inl hflag
    · simp only [hu] at hflag; exact Or.inr hflag

/-! ### consequences used by the property theorems -/

/-- below a common ancestor the branch *is* the main chain -/
theorem common_below (s : Store) (cur x : Nat) (wf : WF s cur x) (c : Nat) (hc : c ≤ cur)
    (hcN : c ≤ s.number x) (hcom : ancAt s x c = s.mainAt c) :
    ∀ h, h ≤ c → ancAt s x h = s.mainAt h := by
  intro h hh
  obtain ⟨t, rfl⟩ : ∃ t, c = h + t := ⟨c - h, by omega⟩
  clear hh
  induction t with
  | zero => exact hcom
  | succ t ih =>
    apply ih (by omega) (by omega)
    have e : s.number x - (h + t) = (s.number x - (h + (t + 1))) + 1 := by omega
    unfold ancAt at hcom ⊢
    rw [e]
    simp only [anc]
    rw [hcom]
    exact wf.main_link (h + t) (by omega)

theorem rollbackIndex_mainSeg (s : Store) (cur : Nat)
    (hn : ∀ n, n ≤ cur → s.number (s.mainAt n) = n) (c n : Nat) (h : c + n ≤ cur) :
    rollbackIndex s (mainIndex s (c + n)) (mainSeg s (c + 1) n).reverse = mainIndex s c := by
  induction n with
  | zero => rfl
  | succ n ih =>
    rw [mainSeg_concat, List.reverse_append]
    simp only [List.reverse_cons, List.reverse_nil, List.nil_append, List.singleton_append, rollbackIndex]
    have e : c + 1 + n = c + (n + 1) := by omega
    rw [e, hn _ h]
    have : upd (mainIndex s (c + (n + 1))) (c + (n + 1)) none = mainIndex s (c + n) := by
      funext m
      simp only [upd, mainIndex]
      by_cases hm : m = c + (n + 1)
      · subst hm; simp
      · simp only [hm, if_false]
        by_cases hm2 : m ≤ c + n
        · have : m ≤ c + (n + 1) := by omega
          simp [hm2, this]
        · have : ¬ m ≤ c + (n + 1) := by omega
          simp [hm2, this]
    rw [this]
    exact ih (by omega)

theorem attachIndex_ancList (s : Store) (x : Nat)
    (hn : ∀ k, k ≤ s.number x → s.number (anc s x k) = s.number x - k) (K : Nat) (h : K ≤ s.number x) :
    attachIndex s (branchIndex s x (s.number x - K)) (ancList s x K) = branchIndex s x (s.number x) := by
  induction K with
  | zero => rfl
  | succ K ih =>
    simp only [ancList, attachIndex]
    rw [hn K (by omega)]
    have : upd (branchIndex s x (s.number x - (K + 1))) (s.number x - K) (some (anc s x K))
        = branchIndex s x (s.number x - K) := by
      funext m
      simp only [upd, branchIndex]
      by_cases hm : m = s.number x - K
      · subst hm
        simp only [if_true, Nat.le_refl, ancAt]
        have : s.number x - (s.number x - K) = K := by omega
        rw [this]
      · simp only [hm, if_false]
        by_cases hm2 : m ≤ s.number x - (K + 1)
        · have : m ≤ s.number x - K := by omega
          simp [hm2, this]
        · have : ¬ m ≤ s.number x - K := by omega
          simp [hm2, this]
    rw [this]
    exact ih (by omega)

/-- with all of `anc 0 .. anc (d-1)` unverified and `anc d .. anc (K-1)` verified, the
unverified blocks of `ancList K` are exactly its last `d` elements -/
theorem filter_ancList (s : Store) (x d : Nat)
    (htrue : ∀ j, j < d → s.verNone (anc s x j) = true) (K : Nat)
    (hfalse : ∀ j, d ≤ j → j < K → s.verNone (anc s x j) = false) (h : d ≤ K) :
    (ancList s x K).filter s.verNone = ancList s x d := by
  induction K with
  | zero =>
    have : d = 0 := by omega
    subst this; rfl
  | succ K ih =>
    by_cases hd : d = K + 1
    · subst hd
      clear ih h hfalse
      generalize K + 1 = n at *
      induction n with
      | zero => rfl
      | succ n ih =>
        simp only [ancList, List.filter_cons, htrue n (by omega), if_true]
        rw [ih (fun j hj => htrue j (by omega))]
    · simp only [ancList, List.filter_cons, hfalse K (by omega) (by omega)]
      exact ih (fun j h1 h2 => hfalse j h1 (by omega)) (by omega)

/-- "verified ≠ None" is ancestor-closed: once an ancestor is verified, all older ones are -/
theorem closed_from (s : Store) (x d : Nat)
    (hclosed : ∀ j, 1 ≤ j → s.verNone (anc s x j) = false → s.verNone (anc s x (j + 1)) = false)
    (hd1 : 1 ≤ d) (hd : s.verNone (anc s x d) = false) :
    ∀ j, d ≤ j → s.verNone (anc s x j) = false := by
  intro j hj
  obtain ⟨t, rfl⟩ : ∃ t, j = d + t := ⟨j - d, by omega⟩
  induction t with
  | zero => exact hd
  | succ t ih => exact hclosed (d + t) (by omega) (ih (by omega))

end CkbVerif.Fork
