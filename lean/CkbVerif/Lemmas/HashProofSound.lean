import CkbVerif.Lemmas.HashProofComplete
/-!
# CBMT proofs (C15): soundness of `MerkleProof::root` for DISTINCT leaf positions

`root` silently drops an entry when the lemmas are exhausted and its sibling is not next in the queue.  With
duplicate indices this lets a proof verify although one of the supplied leaves is bound to nothing
(`Props/C15.lean: proof_root_duplicate_index_unbound`).  For distinct indices inside the leaf range the queue
invariant `QInv` holds, a drop leaves a node that nothing in the queue can ever cover again (`Uncov`), and the
loop cannot reach the root: so a successful run never drops, every merge it makes is a node equation of the tree,
and — `merge` injective — every supplied (index, leaf) pair is the tree's.
-/
namespace CkbVerif.Hash

/-! ## ancestors in the array tree (1-based: node `i` is `i+1`, parent = half) -/

/-- `a` is `b` or an ancestor of `b` -/
def Anc (a b : Nat) : Prop := ∃ k, (b + 1) / 2 ^ k = a + 1

theorem Anc.le {a b : Nat} (h : Anc a b) : a ≤ b := by
  obtain ⟨k, hk⟩ := h
  have := Nat.div_le_self (b + 1) (2 ^ k)
  omega

theorem anc_root : ∀ (n b : Nat), b + 1 = n → Anc 0 b := by
  intro n
  induction n using Nat.strongRecOn with
  | _ n ih =>
    intro b hb
    by_cases h1 : n = 1
    · exact ⟨0, by simp; omega⟩
    · have hlt : n / 2 < n := by omega
      obtain ⟨k, hk⟩ := ih (n / 2) hlt (n / 2 - 1) (by omega)
      refine ⟨k + 1, ?_⟩
      have e : n / 2 - 1 + 1 = n / 2 := by omega
      rw [e] at hk
      rw [hb, Nat.pow_succ, Nat.mul_comm, ← Nat.div_div_eq_div_mul]
      exact hk

/-- a proper ancestor is at most the parent -/
theorem Anc.le_parent {a b : Nat} (h : Anc a b) (hne : a ≠ b) : a ≤ (b - 1) / 2 := by
  obtain ⟨k, hk⟩ := h
  cases k with
  | zero => simp at hk; omega
  | succ k =>
    rw [Nat.pow_succ, Nat.mul_comm, ← Nat.div_div_eq_div_mul] at hk
    have := Nat.div_le_self ((b + 1) / 2) (2 ^ k)
    omega

/-- an ancestor-or-self of `x` that is the parent of `a` is `x` itself, or passes through `a` or its sibling -/
theorem Anc.through_child {a x : Nat} (ha : a ≠ 0) (h : Anc (tParent a) x) :
    x = tParent a ∨ Anc a x ∨ Anc (tSibling a) x := by
  rw [tParent_eq] at h ⊢
  rw [tSibling_eq a ha]
  obtain ⟨k, hk⟩ := h
  cases k with
  | zero => left; simp at hk; omega
  | succ k =>
    right
    rw [Nat.pow_succ, ← Nat.div_div_eq_div_mul] at hk
    -- c = (x+1)/2^k is a child of the parent
    by_cases hc : (x + 1) / 2 ^ k = a + 1
    · left; exact ⟨k, hc⟩
    · right
      refine ⟨k, ?_⟩
      split <;> omega

/-- a descendant-or-self of `h` that is the parent of `a` has `a` below `h` too -/
theorem Anc.of_parent {a h : Nat} (ha : a ≠ 0) (hp : Anc h (tParent a)) : Anc h a := by
  rw [tParent_eq] at hp
  obtain ⟨k, hk⟩ := hp
  refine ⟨k + 1, ?_⟩
  rw [Nat.pow_succ, Nat.mul_comm, ← Nat.div_div_eq_div_mul]
  have : (a + 1) / 2 = (a - 1) / 2 + 1 := by omega
  rw [this]
  exact hk

theorem anc_parent_self {a : Nat} (ha : a ≠ 0) : Anc (tParent a) a := by
  refine ⟨1, ?_⟩
  rw [tParent_eq]
  simp
  omega

def Comparable (a b : Nat) : Prop := Anc a b ∨ Anc b a

section
variable {α : Type} (merge : α → α → α)

/-- nothing in the queue is on the root path of `h` or below `h` -/
def Uncov (h : Nat) (q : List (Nat × α)) : Prop := ∀ e ∈ q, ¬ Comparable e.1 h

/-- Once a node is uncovered and no lemma is left, `root` cannot succeed. -/
theorem rootLoop_uncov (h : Nat) : ∀ (f : Nat) (q : List (Nat × α)), Uncov h q → rootLoop merge f q [] = none
  | 0, _, _ => by simp [rootLoop]
  | _ + 1, [], _ => by simp [rootLoop]
  | f + 1, (index, node) :: q, hu => by
    have hidx : ¬ Comparable index h := hu (index, node) (by simp)
    have h0 : index ≠ 0 := by
      intro h0
      subst h0
      exact hidx (Or.inl (anc_root _ h rfl))
    have hrest : Uncov h q := fun e he => hu e (List.mem_cons_of_mem _ he)
    simp only [rootLoop, h0, if_false]
    cases q with
    | nil =>
      simp only [takeSibling]
      exact rootLoop_uncov h f [] hrest
    | cons e q' =>
      obtain ⟨front, s⟩ := e
      simp only [takeSibling]
      by_cases hf : front = tSibling index
      · simp only [hf, if_true]
        apply rootLoop_uncov h f
        intro e he
        rcases List.mem_append.mp he with he | he
        · exact hrest e (List.mem_cons_of_mem _ he)
        · simp only [List.mem_singleton] at he
          subst he
          have hsib : ¬ Comparable (tSibling index) h := by
            have := hrest (front, s) (by simp)
            rw [hf] at this
            exact this
          intro hc
          rcases hc with hc | hc
          · rcases Anc.through_child h0 hc with e1 | e1 | e1
            · -- h is the parent: index is below h
              apply hidx
              right
              show Anc h index
              rw [e1]
              exact anc_parent_self h0
            · exact hidx (Or.inl e1)
            · exact hsib (Or.inl e1)
          · exact hidx (Or.inr (Anc.of_parent h0 hc))
      · simp only [hf, if_false]
        exact rootLoop_uncov h f _ hrest

variable {merge}

/-- **soundness of the loop**: on a queue with the invariant, a run that returns the tree's root has bound every
entry to the tree's node at its index -/
theorem rootLoop_sound (hinj : Injective2 merge) {m : Nat} {nd : Nat → α} (ht : TreeEq merge m nd) :
    ∀ (f : Nat) (q : List (Nat × α)) (lem : List α), QInv m (q.map (·.1)) →
      rootLoop merge f q lem = some (nd 0) → ∀ e ∈ q, nd e.1 = e.2
  | 0, _, _, _, h => by simp [rootLoop] at h
  | _ + 1, [], _, _, h => by simp [rootLoop] at h
  | f + 1, (index, node) :: q, lem, hq, hrun => by
    simp only [List.map_cons] at hq
    have hh := hq.2.1 index (by simp)
    have h0 : index ≠ 0 := by omega
    simp only [rootLoop, h0, if_false] at hrun
    have hsibeq := tSibling_eq index h0
    -- the merge equation at the parent
    have hnode : ∀ sib, nd (tParent index) = mergeAt merge index node sib → nd index = node ∧ nd (tSibling index) = sib := by
      intro sib hm
      have hp := ht ((index - 1) / 2) (by omega)
      rw [tParent_eq] at hm
      rw [hp] at hm
      unfold mergeAt at hm
      rw [tIsLeft_eq] at hm
      by_cases hodd : index % 2 = 1
      · simp only [hodd, decide_true, if_true] at hm
        have := hinj _ _ _ _ hm
        have e1 : 2 * ((index - 1) / 2) + 1 = index := by omega
        have e2 : 2 * ((index - 1) / 2) + 2 = index + 1 := by omega
        rw [e1, e2] at this
        rw [hsibeq, if_pos hodd]
        exact this
      · simp only [hodd, decide_false] at hm
        have := hinj _ _ _ _ hm
        have e1 : 2 * ((index - 1) / 2) + 1 = index - 1 := by omega
        have e2 : 2 * ((index - 1) / 2) + 2 = index := by omega
        rw [e1, e2] at this
        rw [hsibeq, if_neg hodd]
        exact ⟨this.2, this.1⟩
    -- after the push: either the parent is the root and the queue is just it, or the invariant goes on
    have after : ∀ (r : List (Nat × α)) (sib : α) (lem1 : List α),
        (tParent index = 0 → r = []) → (tParent index ≠ 0 → QInv m (r.map (·.1) ++ [tParent index])) →
        rootLoop merge f (r ++ [(tParent index, mergeAt merge index node sib)]) lem1 = some (nd 0) →
        (∀ e ∈ r, nd e.1 = e.2) ∧ nd index = node ∧ nd (tSibling index) = sib := by
      intro r sib lem1 hr0 hrinv hrun'
      by_cases hp : tParent index = 0
      · have := hr0 hp
        subst this
        rw [hp] at hrun'
        simp only [List.nil_append] at hrun'
        cases f with
        | zero => simp [rootLoop] at hrun'
        | succ f =>
          simp only [rootLoop, if_true] at hrun'
          split at hrun'
          · have := Option.some.inj hrun'
            have hn := hnode sib (by rw [hp]; exact this.symm)
            exact ⟨by simp, hn⟩
          · cases hrun'
      · have hinv := hrinv hp
        have := rootLoop_sound hinj ht f (r ++ [(tParent index, mergeAt merge index node sib)]) lem1
          (by simpa using hinv) hrun'
        have hpar := this (tParent index, mergeAt merge index node sib) (by simp)
        exact ⟨fun e he => this e (List.mem_append_left _ he), hnode sib hpar⟩
    cases q with
    | nil =>
      simp only [takeSibling] at hrun
      cases lem with
      | nil =>
        simp only [] at hrun
        cases f <;> simp [rootLoop] at hrun
      | cons l ls =>
        simp only [] at hrun
        have hlast : tParent index = 0 → ([] : List (Nat × α)) = [] := fun _ => rfl
        have := after [] l ls hlast (fun hp => by
          have := (hq.step hp).2 (by simp)
          simpa using this) (by simpa using hrun)
        intro e he
        simp only [List.mem_singleton] at he
        subst he
        exact this.2.1
    | cons e q' =>
      obtain ⟨front, s⟩ := e
      simp only [List.map_cons] at hq
      simp only [takeSibling] at hrun
      by_cases hf : front = tSibling index
      · simp only [hf, if_true] at hrun
        have hhead : ((front :: q'.map (·.1)) : List Nat).head? = some (tSibling index) := by simp [hf]
        have := after q' s lem (fun hp => by
            have := (hq.last hp).1 hhead
            simpa using this)
          (fun hp => by
            have := (hq.step hp).1 hhead
            simpa using this) hrun
        intro e he
        rcases List.mem_cons.mp he with rfl | he
        · exact this.2.1
        · rcases List.mem_cons.mp he with rfl | he
          · simp only []
            rw [hf]
            exact this.2.2
          · exact this.1 e he
      · simp only [hf, if_false] at hrun
        have hhead : ((front :: q'.map (·.1)) : List Nat).head? ≠ some (tSibling index) := by simp [hf]
        cases lem with
        | nil =>
          -- a drop: the rest is uncovered at `index`, the run cannot succeed
          simp only [] at hrun
          exfalso
          have hu : Uncov index ((front, s) :: q') := by
            intro e he hc
            have hmem : e.1 ∈ front :: q'.map (·.1) := by
              rcases List.mem_cons.mp he with rfl | he
              · simp
              · exact List.mem_cons_of_mem _ (List.mem_map_of_mem he)
            have hlt : index > e.1 := (List.pairwise_cons.mp hq.1).1 e.1 hmem
            have hwin := hq.2.2 index (by simp) e.1 (List.mem_cons_of_mem _ hmem)
            rcases hc with hc | hc
            · have := hc.le_parent (by omega)
              omega
            · have := hc.le
              omega
          rw [rootLoop_uncov merge index f _ hu] at hrun
          cases hrun
        | cons l ls =>
          simp only [] at hrun
          have := after ((front, s) :: q') l ls (fun hp => by
              have := (hq.last hp).2 hhead
              simp at this)
            (fun hp => by
              have := (hq.step hp).2 hhead
              simpa using this) hrun
          intro e he
          rcases List.mem_cons.mp he with rfl | he
          · exact this.2.1
          · exact this.1 e he

end

end CkbVerif.Hash
