import CkbVerif.Model.TxRules
import CkbVerif.Lemmas.TxRules

/-!
Helper lemmas for the C04 theorems about the DAO maximum-withdraw arithmetic
(`util/dao/src/lib.rs` `calculate_maximum_withdraw` / `transaction_maximum_withdraw`), the tx-pool
admission function and the main-chain header-dep check.
-/
namespace CkbVerif.C04
open CkbVerif.TxRules CkbVerif.Tx CkbVerif.Gen.Tx

/-- order of two floor quotients from the cross products -/
theorem div_le_div_of_cross {a b c d : Nat} (hb : 0 < b) (hd : 0 < d) (h : a * d ≤ c * b) :
    a / b ≤ c / d := by
  rw [Nat.le_div_iff_mul_le hd]
  have h1 : a / b * b ≤ a := Nat.div_mul_le_self a b
  have h2 : a / b * d * b ≤ c * b := by
    calc a / b * d * b = a / b * b * d := by rw [Nat.mul_right_comm]
      _ ≤ a * d := Nat.mul_le_mul_right d h1
      _ ≤ c * b := h
  exact Nat.le_of_mul_le_mul_right h2 hb

/-- the capacity an input contributes to `transaction_maximum_withdraw` (`none` = a `DaoError`) -/
def inputValue : FeeInput → Option Nat
  | .plain c => some c
  | .withdraw c occ dar war ord => maxWithdraw c occ dar war ord
  | .malformed => none

/-- all inputs' contributions, if every one is defined -/
def inputValues : List FeeInput → Option (List Nat)
  | [] => some []
  | i :: rest =>
    match inputValue i, inputValues rest with
    | some v, some vs => some (v :: vs)
    | _, _ => none

theorem maximumWithdraw_cons (acc : Nat) (i : FeeInput) (rest : List FeeInput) :
    maximumWithdraw acc (i :: rest) =
      match inputValue i with
      | none => none
      | some c =>
        match safeAdd c acc with
        | none => none
        | some s => maximumWithdraw s rest := by
  cases i <;> rfl

theorem maximumWithdraw_some_iff (l : List FeeInput) (acc : Nat) (hacc : acc < Tx.U64) (r : Nat) :
    maximumWithdraw acc l = some r ↔
      ∃ vs, inputValues l = some vs ∧ acc + vs.sum < Tx.U64 ∧ r = acc + vs.sum := by
  induction l generalizing acc with
  | nil =>
    simp only [maximumWithdraw, inputValues, Option.some.injEq]
    constructor
    · intro h; exact ⟨[], rfl, by simpa using hacc, by simpa using h.symm⟩
    · rintro ⟨vs, h1, _, h3⟩
      subst h1; simp at h3; exact h3.symm
  | cons i rest ih =>
    rw [maximumWithdraw_cons]
    cases hv : inputValue i with
    | none =>
      simp only [inputValues, hv]
      constructor
      · intro h; cases h
      · rintro ⟨vs, h, _⟩; cases h
    | some c =>
      simp only
      unfold safeAdd
      by_cases hc : c + acc < Tx.U64
      · rw [if_pos hc]
        simp only
        rw [ih _ hc]
        constructor
        · rintro ⟨vs, h1, h2, h3⟩
          refine ⟨c :: vs, ?_, ?_, ?_⟩
          · simp [inputValues, hv, h1]
          · simp only [List.sum_cons]; omega
          · simp only [List.sum_cons]; omega
        · rintro ⟨vs, h1, h2, h3⟩
          simp only [inputValues, hv] at h1
          cases hr : inputValues rest with
          | none => simp [hr] at h1
          | some vs' =>
            simp only [hr, Option.some.injEq] at h1
            subst h1
            simp only [List.sum_cons] at h2 h3
            exact ⟨vs', rfl, by omega, by omega⟩
      · rw [if_neg hc]
        constructor
        · intro h; cases h
        · rintro ⟨vs, h1, h2, h3⟩
          simp only [inputValues, hv] at h1
          cases hr : inputValues rest with
          | none => simp [hr] at h1
          | some vs' =>
            simp only [hr, Option.some.injEq] at h1
            subst h1
            simp only [List.sum_cons] at h2
            omega

theorem inputValues_plain (caps : List Nat) : inputValues (caps.map .plain) = some caps := by
  induction caps with
  | nil => rfl
  | cons c rest ih => simp [inputValues, inputValue, ih]

/-! ### main chain -/

theorem chainAt_some_number {db : Since.HeaderDb} {fuel cur n h : Nat}
    (hc : chainAt db fuel cur n = some h) : ∃ hd, Since.findHdr db h = some hd ∧ hd.number = n := by
  induction fuel generalizing cur with
  | zero => simp [chainAt] at hc
  | succ k ih =>
    unfold chainAt at hc
    cases hf : Since.findHdr db cur with
    | none => simp [hf] at hc
    | some hd =>
      simp only [hf] at hc
      by_cases h1 : hd.number = n
      · simp only [h1, if_true, Option.some.injEq] at hc
        subst hc
        exact ⟨hd, hf, h1⟩
      · simp only [h1, if_false] at hc
        by_cases h2 : hd.number < n
        · simp [h2] at hc
        · simp only [h2, if_false] at hc
          exact ih hc

end CkbVerif.C04
