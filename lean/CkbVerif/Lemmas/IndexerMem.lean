import CkbVerif.Lemmas.IndexerBatch

/-! Membership in the batches built by `append` and `rollback` (C18). -/
namespace CkbVerif.Indexer

theorem mem_consumeOps (bn txi ii id : Nat) (op : OutPoint) (c : Cell) (o : BOp) :
    o ∈ consumeOps bn txi ii id op c ↔
      (o = .del (.cellLock c.out.lock c.bn c.txIdx op.idx) ∨
       o = .put (.txLock c.out.lock bn txi ii .input) (.tx id) ∨
       (∃ t, c.out.type = some t ∧ (o = .del (.cellType t c.bn c.txIdx op.idx) ∨
          o = .put (.txType t bn txi ii .input) (.tx id))) ∨
       o = .del (.outPoint op) ∨ o = .put (.consumed bn op) (.cell c)) := by
  unfold consumeOps
  cases h : c.out.type <;> simp <;> grind

theorem mem_createOps (bn txi id oi : Nat) (out : Output) (o : BOp) :
    o ∈ createOps bn txi id oi out ↔
      (o = .put (.cellLock out.lock bn txi oi) (.tx id) ∨
       o = .put (.txLock out.lock bn txi oi .output) (.tx id) ∨
       (∃ t, out.type = some t ∧ (o = .put (.cellType t bn txi oi) (.tx id) ∨
          o = .put (.txType t bn txi oi .output) (.tx id))) ∨
       o = .put (.outPoint ⟨id, oi⟩) (.cell ⟨bn, txi, out⟩)) := by
  unfold createOps
  cases h : out.type <;> simp <;> grind

end CkbVerif.Indexer

namespace CkbVerif.Indexer

/-- the transaction part of the batch of `append` -/
def txsOps (s : Store) (b : Block) : List BOp :=
  b.txs.zipIdx.flatMap fun (tx, i) => txOps s b i tx

theorem appendOps_eq (s : Store) (b : Block) : appendOps s b = txsOps s b ++ [headerOp s b] := rfl

theorem mem_inputsOps (s : Store) (b : Block) (i : Nat) (tx : Tx) (o : BOp) :
    o ∈ inputsOps s b i tx ↔
      (i ≠ 0 ∧ ∃ op ii c, tx.inputs[ii]? = some op ∧ lookupInput s b op = some c ∧
        o ∈ consumeOps b.number i ii tx.id op c) := by
  unfold inputsOps
  by_cases hi : i = 0
  · simp [hi]
  · simp only [hi, if_false, ne_eq, not_false_eq_true, true_and, List.mem_flatMap]
    constructor
    · rintro ⟨⟨op, ii⟩, hmem, ho⟩
      rw [List.mem_zipIdx_iff_getElem?] at hmem
      simp only at hmem ho
      cases hl : lookupInput s b op with
      | none => simp [hl] at ho
      | some c =>
        simp only [hl] at ho
        exact ⟨op, ii, c, hmem, hl, ho⟩
    · rintro ⟨op, ii, c, hmem, hl, ho⟩
      refine ⟨(op, ii), ?_, ?_⟩
      · rw [List.mem_zipIdx_iff_getElem?]; exact hmem
      · simp only [hl]; exact ho

theorem mem_outputsOps (b : Block) (i : Nat) (tx : Tx) (o : BOp) :
    o ∈ outputsOps b i tx ↔
      ∃ out oi, tx.outputs[oi]? = some out ∧ o ∈ createOps b.number i tx.id oi out := by
  unfold outputsOps
  simp only [List.mem_flatMap]
  constructor
  · rintro ⟨⟨out, oi⟩, hmem, ho⟩
    rw [List.mem_zipIdx_iff_getElem?] at hmem
    exact ⟨out, oi, hmem, ho⟩
  · rintro ⟨out, oi, hmem, ho⟩
    exact ⟨(out, oi), by rw [List.mem_zipIdx_iff_getElem?]; exact hmem, ho⟩

theorem mem_txsOps (s : Store) (b : Block) (o : BOp) :
    o ∈ txsOps s b ↔ ∃ tx i, b.txs[i]? = some tx ∧
      (o ∈ inputsOps s b i tx ∨ o ∈ outputsOps b i tx ∨
       (txMatched s b i tx = true ∧ o = .put (.txHash tx.id) (.inputs tx.inputs))) := by
  unfold txsOps
  simp only [List.mem_flatMap]
  constructor
  · rintro ⟨⟨tx, i⟩, hmem, ho⟩
    rw [List.mem_zipIdx_iff_getElem?] at hmem
    refine ⟨tx, i, hmem, ?_⟩
    simp only [txOps, List.mem_append] at ho
    rcases ho with (ho | ho) | ho
    · exact Or.inl ho
    · exact Or.inr (Or.inl ho)
    · right; right
      split at ho
      · rename_i hm; simp at ho; exact ⟨hm, ho⟩
      · simp at ho
  · rintro ⟨tx, i, hmem, ho⟩
    refine ⟨(tx, i), by rw [List.mem_zipIdx_iff_getElem?]; exact hmem, ?_⟩
    simp only [txOps, List.mem_append]
    rcases ho with ho | ho | ⟨hm, ho⟩
    · exact Or.inl (Or.inl ho)
    · exact Or.inl (Or.inr ho)
    · right; simp [hm, ho]

end CkbVerif.Indexer
