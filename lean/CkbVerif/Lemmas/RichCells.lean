import CkbVerif.Lemmas.RichIndexer

/-! Rich-indexer (relational model): every `get_cells` answer is a live cell of the relations' live
view, and every live cell that matches is answered (C18). -/
namespace CkbVerif.Rich
open CkbVerif.Indexer CkbVerif.Gen.RichIndexer

/-- key uniqueness and the lock foreign key (decidable; evaluated by the examples) -/
def KeysOK (db : DB) : Prop :=
  (db.txs.map (·.hash)).Nodup ∧ (db.txs.map (·.id)).Nodup ∧
  (db.outs.map fun o => (o.txId, o.index)).Nodup ∧
  ∀ o ∈ db.outs, (scriptById db o.lockId).isSome = true

instance (db : DB) : Decidable (KeysOK db) := by unfold KeysOK; infer_instance

theorem find?_of_nodup_key {α β : Type} [DecidableEq β] (k : α → β) (p : α → Bool) :
    ∀ (l : List α) (x : α), (l.map k).Nodup → x ∈ l → p x = true → (∀ y ∈ l, p y = true → k y = k x) →
      l.find? p = some x
  | [], _, _, hx, _, _ => by cases hx
  | a :: r, x, hnd, hx, hp, hu => by
    simp only [List.map_cons, List.nodup_cons] at hnd
    rw [List.find?_cons]
    by_cases hpa : p a = true
    · rw [hpa]
      have hka := hu a (List.mem_cons_self) hpa
      rcases List.mem_cons.mp hx with rfl | hxr
      · rfl
      · exfalso
        apply hnd.1
        rw [hka]
        exact List.mem_map.mpr ⟨x, hxr, rfl⟩
    · have hpa' : p a = false := Bool.eq_false_iff.mpr hpa
      rw [hpa']
      rcases List.mem_cons.mp hx with rfl | hxr
      · rw [hp] at hpa'; cases hpa'
      · exact find?_of_nodup_key k p r x hnd.2 hxr hp (fun y hy => hu y (List.mem_cons_of_mem _ hy))

/-- **every `get_cells` answer is a live cell**: on a database with unique transaction hashes / ids
and unique (tx_id, output_index), an answer row of `get_cells` (any search mode, any filter, lock or
type search) is the live cell of the relations at the reported out-point, with exactly the reported
block number, tx index, capacity, scripts and data, and its searched-family script matches. -/
theorem cellRows_sound {db : DB} (ok : KeysOK db) (ls : Bool) (m : Mode) (q : Script) (f : Filter)
    (a : RCell) (ha : a ∈ cellRows db ls m q f) :
    liveCell db a.op = some a.cell ∧
      (if ls then scriptMatch m q a.cell.out.lock = true
       else ∃ t, a.cell.out.type = some t ∧ scriptMatch m q t = true) := by
  obtain ⟨hH, hI, hK, hL⟩ := ok
  unfold cellRows at ha
  obtain ⟨o, ho, hrow⟩ := List.mem_filterMap.mp ha
  unfold cellRowOf at hrow
  split at hrow
  next s t hs ht =>
    split at hrow
    next b hb =>
      split at hrow
      next hc =>
        simp only [Bool.and_eq_true, decide_eq_true_eq] at hc
        obtain ⟨⟨⟨hm, hsp⟩, _⟩, _⟩ := hc
        have htm : t ∈ db.txs := List.mem_of_find?_eq_some ht
        have hti : t.id = o.txId := by simpa using List.find?_some ht
        have hft : findTx db t.hash = some t := by
          unfold findTx
          exact find?_of_nodup_key (·.hash) _ db.txs t hH htm (by simp) (fun y _ hy => by simpa using hy)
        have hfo : db.outs.find? (outAt t.id o.index) = some o := by
          apply find?_of_nodup_key (fun o : ROut => (o.txId, o.index)) _ db.outs o hK ho
          · simp [outAt, hti]
          · intro y _ hy
            simp only [outAt, Bool.and_eq_true, decide_eq_true_eq] at hy
            simp [hy.1, hy.2, hti]
        have hlk := hL o ho
        cases hlo : scriptById db o.lockId with
        | none => rw [hlo] at hlk; cases hlk
        | some l =>
          cases hrow
          refine ⟨?_, ?_⟩
          · unfold liveCell
            simp only [hft, hfo, hsp, if_true, hb, hlo]
            cases ls
            · simp only [Bool.false_eq_true, if_false] at hs ⊢
              simp [hlo, hs]
            · simp only [if_true] at hs ⊢
              rw [hlo] at hs
              cases hs
              rfl
          · cases ls
            · simp only [Bool.false_eq_true, if_false]
              exact ⟨s, rfl, hm⟩
            · simpa using hm
      next => cases hrow
    next => cases hrow
  next => cases hrow

/-- the filters of `get_cells` read on the answered cell (the sibling script is the cell's type script
for a lock search, its lock script for a type search) -/
def cellPassesR (f : Filter) (ls : Bool) (c : Cell) : Bool :=
  let sib : Option Script := if ls then c.out.type else some c.out.lock
  (match f.script with
   | none => true
   | some fs =>
     match sib with
     | none => false
     | some s => s.code = fs.code && inPrefixRange fs.args s.args) &&
  inRangeC f.scriptLenRange (match sib with | none => 0 | some s => rawLen s) &&
  inRangeC f.dataLenRange c.out.data.length &&
  inRangeC f.capRange c.out.cap &&
  (match f.data with
   | none => true
   | some (.pre, d) => inPrefixRange d c.out.data
   | some (.exact, d) => c.out.data = d
   | some (.infix, d) => isInfix d c.out.data) &&
  inRangeC f.blockRange c.bn

/-- **every matching live cell is answered**: a live cell of the relations whose searched-family
script matches and that passes the filters (read on the cell) is a row of `get_cells`. -/
theorem cellRows_complete {db : DB} (ok : KeysOK db) (ls : Bool) (m : Mode) (q : Script) (f : Filter)
    (op : OutPoint) (c : Cell) (hl : liveCell db op = some c)
    (hm : if ls then scriptMatch m q c.out.lock = true else ∃ t, c.out.type = some t ∧ scriptMatch m q t = true)
    (hf : cellPassesR f ls c = true) :
    ∃ a ∈ cellRows db ls m q f, a.op = op ∧ a.cell = c := by
  obtain ⟨hH, hI, hK, hL⟩ := ok
  unfold liveCell at hl
  split at hl
  next => cases hl
  next t ht =>
    split at hl
    next => cases hl
    next o hfo =>
      split at hl
      next hsp =>
        split at hl
        next b l hb hlo =>
          cases hl
          have htm : t ∈ db.txs := List.mem_of_find?_eq_some ht
          have hth : t.hash = op.tx := by
            unfold findTx at ht
            simpa using List.find?_some ht
          have hom : o ∈ db.outs := List.mem_of_find?_eq_some hfo
          have hoa := List.find?_some hfo
          simp only [outAt, Bool.and_eq_true, decide_eq_true_eq] at hoa
          have htx : txById db o.txId = some t := by
            unfold txById
            exact find?_of_nodup_key (·.id) _ db.txs t hI htm (by simp [hoa.1]) (fun y _ hy => by simpa [hoa.1] using hy)
          refine ⟨⟨o.id, ⟨t.hash, o.index⟩, ⟨b.number, t.txIndex, ⟨o.cap, l, scriptById db o.typeId, o.data⟩⟩⟩, ?_, ?_, rfl⟩
          · unfold cellRows
            apply List.mem_filterMap.mpr
            refine ⟨o, hom, ?_⟩
            unfold cellRowOf
            cases ls
            · simp only [Bool.false_eq_true, if_false] at hm hf ⊢
              obtain ⟨ty, hty, hmt⟩ := hm
              simp only [hty, htx, hb]
              unfold cellPassesR at hf
              simp only [Bool.false_eq_true, if_false] at hf
              have : outPasses db f false o = true ∧ inRangeC f.blockRange b.number = true := by
                unfold outPasses
                simp only [Bool.false_eq_true, if_false, hlo]
                simp only [Bool.and_eq_true] at hf ⊢
                obtain ⟨⟨⟨⟨⟨h1, h2⟩, h3⟩, h4⟩, h5⟩, h6⟩ := hf
                exact ⟨⟨⟨⟨⟨h1, h2⟩, h3⟩, h4⟩, h5⟩, h6⟩
              simp [hmt, hsp, this.1, this.2, hlo]
            · simp only [if_true] at hm hf ⊢
              simp only [hlo, htx, hb]
              unfold cellPassesR at hf
              simp only [if_true] at hf
              have : outPasses db f true o = true ∧ inRangeC f.blockRange b.number = true := by
                unfold outPasses
                simp only [if_true]
                simp only [Bool.and_eq_true] at hf ⊢
                obtain ⟨⟨⟨⟨⟨h1, h2⟩, h3⟩, h4⟩, h5⟩, h6⟩ := hf
                exact ⟨⟨⟨⟨⟨h1, h2⟩, h3⟩, h4⟩, h5⟩, h6⟩
              simp [hm, hsp, this.1, this.2]
          · cases op
            simp only at hth hoa
            simp [hth, hoa.2]
        next => cases hl
      next => cases hl

theorem cellRowOf_cur {db : DB} {ls : Bool} {m : Mode} {q : Script} {f : Filter} {o : ROut} {a : RCell}
    (h : cellRowOf db ls m q f o = some a) : a.cur = o.id := by
  unfold cellRowOf at h
  split at h
  · split at h
    · split at h
      · cases h; rfl
      · cases h
    · cases h
  · cases h

/-- answers come in strictly ascending `output.id` (the cursor) when the output rows do -/
theorem cellRows_sorted {db : DB} (ls : Bool) (m : Mode) (q : Script) (f : Filter) :
    ∀ (outs : List ROut), (outs.map (·.id)).Pairwise (· < ·) →
      ((outs.filterMap (cellRowOf db ls m q f)).map (·.cur)).Pairwise (· < ·)
  | [], _ => by simp
  | o :: r, h => by
    simp only [List.map_cons, List.pairwise_cons] at h
    have ih := cellRows_sorted (db := db) ls m q f r h.2
    rw [List.filterMap_cons]
    cases hc : cellRowOf db ls m q f o with
    | none => simpa using ih
    | some a =>
      simp only [List.map_cons, List.pairwise_cons]
      refine ⟨?_, ih⟩
      intro c hcmem
      obtain ⟨a', ha', rfl⟩ := List.mem_map.mp hcmem
      obtain ⟨o', ho', hrow⟩ := List.mem_filterMap.mp ha'
      rw [cellRowOf_cur hc, cellRowOf_cur hrow]
      exact h.1 o'.id (List.mem_map.mpr ⟨o', ho', rfl⟩)

end CkbVerif.Rich
