import CkbVerif.Model.Chain

/-!
Helper lemmas for C01 / C08: specification notions (`FullyValid`, `TD`, `ChainIn`), case
characterisations of the model's steps, and the *safety* invariant `Safe` with its preservation.
The *liveness* invariant (needed for maximality at quiescence) is in `Lemmas/ChainLive.lean`.
-/
namespace CkbVerif.Chain

/-! ## Specification notions -/

/-- `b` and all its ancestors pass both verification stages (a property of the tree alone). -/
inductive FullyValid (T : Tree) : Nat → Prop
  | genesis : FullyValid T 0
  | step {b : Nat} : b ≠ 0 → T.nc b = true → T.ok b = true → FullyValid T (T.par b) → FullyValid T b

/-- `TD T b n`: the accumulated work of the chain genesis..=b is `n`. -/
inductive TD (T : Tree) : Nat → Nat → Prop
  | genesis : TD T 0 (T.work 0)
  | step {b n : Nat} : b ≠ 0 → TD T (T.par b) n → TD T b (n + T.work b)

/-- a fully valid chain genesis..=b all of whose non-genesis blocks belong to `D`
("can be formed from the blocks received") -/
inductive ChainIn (T : Tree) (D : Nat → Prop) : Nat → Prop
  | genesis : ChainIn T D 0
  | step {b : Nat} : b ≠ 0 → D b → T.nc b = true → T.ok b = true → ChainIn T D (T.par b) → ChainIn T D b

theorem FullyValid.parent {T : Tree} {b : Nat} (h : FullyValid T b) (hb : b ≠ 0) :
    FullyValid T (T.par b) := by
  cases h with
  | genesis => exact absurd rfl hb
  | step _ _ _ hp => exact hp

theorem FullyValid.flags {T : Tree} {b : Nat} (h : FullyValid T b) (hb : b ≠ 0) :
    T.nc b = true ∧ T.ok b = true := by
  cases h with
  | genesis => exact absurd rfl hb
  | step _ h1 h2 _ => exact ⟨h1, h2⟩

theorem ChainIn.fullyValid {T : Tree} {D : Nat → Prop} {b : Nat} (h : ChainIn T D b) : FullyValid T b := by
  induction h with
  | genesis => exact .genesis
  | step hb _ h1 h2 _ ih => exact .step hb h1 h2 ih

theorem ChainIn.mono {T : Tree} {D D' : Nat → Prop} (hD : ∀ b, D b → D' b) {b : Nat}
    (h : ChainIn T D b) : ChainIn T D' b := by
  induction h with
  | genesis => exact .genesis
  | step hb hd h1 h2 _ ih => exact .step hb (hD _ hd) h1 h2 ih

theorem TD.functional {T : Tree} : ∀ {b n m : Nat}, TD T b n → TD T b m → n = m := by
  intro b
  induction b using Nat.strongRecOn with
  | _ b ih =>
    intro n m h1 h2
    cases h1 with
    | genesis =>
      cases h2 with
      | genesis => rfl
      | step hb _ => exact absurd rfl hb
    | step hb hp =>
      cases h2 with
      | genesis => exact absurd rfl hb
      | step _ hp2 =>
        have := ih _ (T.par_lt hb) hp hp2
        omega

/-! ## Small list / fold helpers -/

theorem foldl_preserves {α β : Type} (f : α → β → α) (P : α → Prop)
    (h : ∀ a b, P a → P (f a b)) : ∀ (l : List β) (a : α), P a → P (l.foldl f a) := by
  intro l
  induction l with
  | nil => intro a ha; exact ha
  | cons x xs ih => intro a ha; exact ih _ (h _ _ ha)

theorem mem_unpool {s : State} {c x : Nat} : x ∈ (unpool s c).pool ↔ x ∈ s.pool ∧ x ≠ c := by
  simp [unpool]

/-! ## Case characterisations -/

/-- what one search candidate can do -/
inductive PoolAct (T : Tree) (pool0 : List Nat) (acc : State × Out) (c : Nat) : State × Out → Prop
  | skip : (c ∈ acc.1.pool → acceptable acc.1 (T.par c) = false ∧ acc.1.invalid (T.par c) = false) →
      PoolAct T pool0 acc c acc
  | accept : c ∈ acc.1.pool → acceptable acc.1 (T.par c) = true →
      PoolAct T pool0 acc c (enqueue (unpool acc.1 c) c, acc.2)
  | reject : c ∈ acc.1.pool → acc.1.invalid (T.par c) = true →
      PoolAct T pool0 acc c (rejectBlk (unpool acc.1 c) c, acc.2 ++ [(c, Verdict.err)])

theorem stepPool_act (T : Tree) (pool0 : List Nat) (acc : State × Out) (c : Nat) :
    PoolAct T pool0 acc c (stepPool T pool0 acc c) := by
  unfold stepPool
  by_cases hc : c ∈ acc.1.pool
  · simp only [hc, if_true]
    by_cases hp : T.par c ∈ pool0
    · simp only [hp, if_true]
      by_cases ha : acceptable acc.1 (T.par c) = true
      · simp only [ha, if_true]; exact .accept hc ha
      · simp only [ha]
        by_cases hi : acc.1.invalid (T.par c) = true
        · simp only [hi, if_true]; exact .reject hc hi
        · simp only [hi]; exact .skip (fun _ => ⟨by simpa using ha, by simpa using hi⟩)
    · simp only [hp, if_false]
      by_cases hi : acc.1.invalid (T.par c) = true
      · simp only [hi, if_true]; exact .reject hc hi
      · simp only [hi]
        by_cases ha : acceptable acc.1 (T.par c) = true
        · simp only [ha, if_true]; exact .accept hc ha
        · simp only [ha]; exact .skip (fun _ => ⟨by simpa using ha, by simpa using hi⟩)
  · simp only [hc, if_false]; exact .skip (fun h => absurd h hc)

/-- a stepPool that leaves a candidate in the pool saw a parent that is neither acceptable nor invalid -/
theorem stepPool_hold {T : Tree} {pool0 : List Nat} {acc : State × Out} {c : Nat}
    (h : c ∈ (stepPool T pool0 acc c).1.pool) :
    stepPool T pool0 acc c = acc ∧ acceptable acc.1 (T.par c) = false ∧ acc.1.invalid (T.par c) = false := by
  have hact := stepPool_act T pool0 acc c
  generalize stepPool T pool0 acc c = r at hact h ⊢
  cases hact with
  | skip hcond => exact ⟨rfl, hcond h⟩
  | accept _ _ => simp [enqueue, unpool] at h
  | reject _ _ => simp [rejectBlk, unpool] at h

inductive RouteAct (T : Tree) (s : State) (b : Nat) : State × Out → Prop
  | accept : acceptable s (T.par b) = true → RouteAct T s b (enqueue s b, [])
  | reject : acceptable s (T.par b) = false → s.invalid (T.par b) = true →
      RouteAct T s b (rejectBlk s b, [(b, Verdict.err)])
  | dup : acceptable s (T.par b) = false → s.invalid (T.par b) = false → b ∈ s.pool →
      RouteAct T s b (s, [(b, Verdict.dropped)])
  | hold : acceptable s (T.par b) = false → s.invalid (T.par b) = false → b ∉ s.pool →
      RouteAct T s b ({ s with pool := b :: s.pool }, [])

theorem route_act (T : Tree) (s : State) (b : Nat) : RouteAct T s b (route T s b) := by
  unfold route
  by_cases ha : acceptable s (T.par b) = true
  · simp only [ha, if_true]; exact .accept ha
  · simp only [ha]
    have ha' : acceptable s (T.par b) = false := by simpa using ha
    by_cases hi : s.invalid (T.par b) = true
    · simp only [hi, if_true]; exact .reject ha' hi
    · simp only [hi]
      have hi' : s.invalid (T.par b) = false := by simpa using hi
      by_cases hm : b ∈ s.pool
      · simp only [hm, if_true]; exact .dup ha' hi' hm
      · simp only [hm, if_false]; exact .hold ha' hi' hm

/-! ## dirtyRun -/

theorem dirtyRunAux_fuel2 (T : Tree) (s : State) : ∀ (f1 f2 b : Nat), b ≤ f1 → b ≤ f2 →
    dirtyRunAux T s f1 b = dirtyRunAux T s f2 b := by
  intro f1
  induction f1 with
  | zero =>
    intro f2 b hb _
    have : b = 0 := by omega
    subst this
    cases f2 <;> simp [dirtyRunAux]
  | succ f1 ih =>
    intro f2 b h1 h2
    cases f2 with
    | zero =>
      have : b = 0 := by omega
      subst this; simp [dirtyRunAux]
    | succ f2 =>
      by_cases hb : b = 0
      · subst hb; simp [dirtyRunAux]
      · have hp := T.par_lt hb
        simp only [dirtyRunAux]
        rw [ih f2 (T.par b) (by omega) (by omega)]

theorem dirtyRunAux_fuel (T : Tree) (s : State) (fuel b : Nat) (h : b ≤ fuel) :
    dirtyRunAux T s fuel b = dirtyRunAux T s b b :=
  dirtyRunAux_fuel2 T s fuel b b h (Nat.le_refl b)

theorem dirtyRun_zero (T : Tree) (s : State) : dirtyRun T s 0 = [] := by
  simp [dirtyRun, dirtyRunAux]

theorem dirtyRun_eq (T : Tree) (s : State) {b : Nat} (hb : b ≠ 0) :
    dirtyRun T s b =
      if s.ver b then [] else if (s.td b).isNone then [] else dirtyRun T s (T.par b) ++ [b] := by
  cases b with
  | zero => exact absurd rfl hb
  | succ b' =>
    have hp : T.par (b' + 1) ≤ b' := by have := T.par_lt (b := b' + 1) (by omega); omega
    unfold dirtyRun
    simp only [dirtyRunAux]
    rw [dirtyRunAux_fuel T s b' _ hp]
    simp

/-- every member of the dirty run is a non-genesis, unverified block with an ext whose parent is
in the run too, or verified, or without ext -/
theorem dirtyRun_mem (T : Tree) (s : State) : ∀ (b x : Nat), x ∈ dirtyRun T s b →
    x ≠ 0 ∧ s.ver x = false ∧ (s.td x).isSome = true ∧
    (T.par x ∈ dirtyRun T s b ∨ T.par x = 0 ∨ s.ver (T.par x) = true ∨ (s.td (T.par x)).isNone = true) := by
  intro b
  induction b using Nat.strongRecOn with
  | _ b ih =>
    intro x hx
    by_cases hb : b = 0
    · subst hb; rw [dirtyRun_zero] at hx; simp at hx
    · rw [dirtyRun_eq T s hb] at hx ⊢
      by_cases hv : s.ver b = true
      · simp [hv] at hx
      · by_cases hn : (s.td b).isNone = true
        · simp [hv, hn] at hx
        · simp only [hv, hn] at hx ⊢
          simp only [Bool.false_eq_true, if_false] at hx ⊢
          rcases List.mem_append.mp hx with h | h
          · have := ih _ (T.par_lt hb) x h
            refine ⟨this.1, this.2.1, this.2.2.1, ?_⟩
            rcases this.2.2.2 with h1 | h1
            · exact Or.inl (List.mem_append.mpr (Or.inl h1))
            · exact Or.inr h1
          · have hxb : x = b := by simpa using h
            subst hxb
            refine ⟨hb, by simpa using hv, ?_, ?_⟩
            · cases htd : s.td x <;> simp [htd] at hn ⊢
            · -- parent: either in the run, or the run below is empty for one of the reasons
              by_cases hp0 : T.par x = 0
              · exact Or.inr (Or.inl hp0)
              · by_cases hpv : s.ver (T.par x) = true
                · exact Or.inr (Or.inr (Or.inl hpv))
                · by_cases hpn : (s.td (T.par x)).isNone = true
                  · exact Or.inr (Or.inr (Or.inr hpn))
                  · left
                    apply List.mem_append.mpr; left
                    rw [dirtyRun_eq T s hp0]
                    simp [hpv, hpn]

/-- the top of the run: `p` itself is in `dirtyRun p` unless it is genesis / verified / ext-less -/
theorem dirtyRun_self (T : Tree) (s : State) (p : Nat) :
    p ∈ dirtyRun T s p ∨ p = 0 ∨ s.ver p = true ∨ (s.td p).isNone = true := by
  by_cases hp0 : p = 0
  · exact Or.inr (Or.inl hp0)
  · by_cases hpv : s.ver p = true
    · exact Or.inr (Or.inr (Or.inl hpv))
    · by_cases hpn : (s.td p).isNone = true
      · exact Or.inr (Or.inr (Or.inr hpn))
      · left; rw [dirtyRun_eq T s hp0]; simp [hpv, hpn]

/-- in a fully valid chain every member of the dirty run is `ok` -/
theorem dirtyRun_ok (T : Tree) (s : State) : ∀ (b : Nat), FullyValid T b →
    ∀ x ∈ dirtyRun T s b, T.ok x = true := by
  intro b
  induction b using Nat.strongRecOn with
  | _ b ih =>
    intro hfv x hx
    by_cases hb : b = 0
    · subst hb; rw [dirtyRun_zero] at hx; simp at hx
    · rw [dirtyRun_eq T s hb] at hx
      by_cases hv : s.ver b = true
      · simp [hv] at hx
      · by_cases hn : (s.td b).isNone = true
        · simp [hv, hn] at hx
        · simp only [hv, hn] at hx
          simp only [Bool.false_eq_true, if_false] at hx
          rcases List.mem_append.mp hx with h | h
          · exact ih _ (T.par_lt hb) (hfv.parent hb) x h
          · have hxb : x = b := by simpa using h
            subst hxb; exact (hfv.flags hb).2

/-! ## Safety invariant -/

structure Safe (T : Tree) (s : State) : Prop where
  gen : s.ver 0 = true ∧ s.td 0 = some (T.work 0)
  tipOk : s.td s.tip = some s.tipTd ∧ s.ver s.tip = true
  verClosed : ∀ b, s.ver b = true → b ≠ 0 → T.nc b = true ∧ T.ok b = true ∧ s.ver (T.par b) = true
  verExt : ∀ b, s.ver b = true → (s.td b).isSome = true
  tdTrue : ∀ b n, s.td b = some n → TD T b n
  extPar : ∀ b, (s.td b).isSome = true → b ≠ 0 → (s.td (T.par b)).isSome = true ∧ T.nc b = true
  tdLe : ∀ b n, s.td b = some n → n ≤ s.tipTd
  queueNc : ∀ b ∈ s.queue, b ≠ 0 ∧ T.nc b = true
  poolNc : ∀ b ∈ s.pool, b ≠ 0 ∧ T.nc b = true

/-- `s'` has the same ext table, verified marks and tip as `s` -/
def SameChain (s s' : State) : Prop :=
  s'.td = s.td ∧ s'.ver = s.ver ∧ s'.tip = s.tip ∧ s'.tipTd = s.tipTd

theorem SameChain.refl (s : State) : SameChain s s := ⟨rfl, rfl, rfl, rfl⟩

theorem SameChain.trans {a b c : State} (h1 : SameChain a b) (h2 : SameChain b c) : SameChain a c := by
  obtain ⟨a1, a2, a3, a4⟩ := h1
  obtain ⟨b1, b2, b3, b4⟩ := h2
  exact ⟨b1.trans a1, b2.trans a2, b3.trans a3, b4.trans a4⟩

theorem Safe.of_sameChain {T : Tree} {s s' : State} (h : Safe T s) (hc : SameChain s s')
    (hq : ∀ b ∈ s'.queue, b ≠ 0 ∧ T.nc b = true) (hp : ∀ b ∈ s'.pool, b ≠ 0 ∧ T.nc b = true) :
    Safe T s' := by
  obtain ⟨h1, h2, h3, h4⟩ := hc
  exact
    { gen := by rw [h1, h2]; exact h.gen
      tipOk := by rw [h1, h2, h3, h4]; exact h.tipOk
      verClosed := by rw [h2]; exact h.verClosed
      verExt := by rw [h1, h2]; exact h.verExt
      tdTrue := by rw [h1]; exact h.tdTrue
      extPar := by rw [h1]; exact h.extPar
      tdLe := by rw [h1, h4]; exact h.tdLe
      queueNc := hq
      poolNc := hp }

theorem safe_init (T : Tree) : Safe T (init T) := by
  refine ⟨by simp [init], by simp [init], ?_, ?_, ?_, ?_, ?_, by simp [init], by simp [init]⟩
  · intro b hb hb0; simp [init] at hb; exact absurd hb hb0
  · intro b hb; simp [init] at hb; simp [init, hb]
  · intro b n h
    by_cases hb : b = 0
    · subst hb; simp [init] at h; subst h; exact .genesis
    · simp [init, hb] at h
  · intro b h hb; simp [init, hb] at h
  · intro b n h
    by_cases hb : b = 0
    · subst hb; simp [init] at h; subst h; simp [init]
    · simp [init, hb] at h

/-- the search fold keeps the chain data and only moves nc-blocks around -/
theorem stepPool_safeFrame {T : Tree} {pool0 : List Nat} {s : State} (acc : State × Out) (c : Nat)
    (h : SameChain s acc.1 ∧ (∀ b ∈ acc.1.queue, b ≠ 0 ∧ T.nc b = true) ∧
      (∀ b ∈ acc.1.pool, b ≠ 0 ∧ T.nc b = true)) :
    SameChain s (stepPool T pool0 acc c).1 ∧
      (∀ b ∈ (stepPool T pool0 acc c).1.queue, b ≠ 0 ∧ T.nc b = true) ∧
      (∀ b ∈ (stepPool T pool0 acc c).1.pool, b ≠ 0 ∧ T.nc b = true) := by
  obtain ⟨h1, h2, h3⟩ := h
  have hact := stepPool_act T pool0 acc c
  generalize stepPool T pool0 acc c = r at hact ⊢
  cases hact with
  | skip => exact ⟨h1, h2, h3⟩
  | accept hc _ =>
    refine ⟨h1, ?_, ?_⟩
    · intro b hb
      simp [enqueue, unpool] at hb
      rcases hb with hb | hb
      · exact h2 b hb
      · subst hb; exact h3 b hc
    · intro b hb
      simp [enqueue, unpool] at hb
      exact h3 b hb.1
  | reject hc _ =>
    refine ⟨h1, ?_, ?_⟩
    · intro b hb; simp [rejectBlk, unpool] at hb; exact h2 b hb
    · intro b hb; simp [rejectBlk, unpool] at hb; exact h3 b hb.1

theorem search_safeFrame {T : Tree} (hint : List Nat) (s : State)
    (hq : ∀ b ∈ s.queue, b ≠ 0 ∧ T.nc b = true) (hp : ∀ b ∈ s.pool, b ≠ 0 ∧ T.nc b = true) :
    SameChain s (search T hint s).1 ∧
      (∀ b ∈ (search T hint s).1.queue, b ≠ 0 ∧ T.nc b = true) ∧
      (∀ b ∈ (search T hint s).1.pool, b ≠ 0 ∧ T.nc b = true) := by
  unfold search
  exact foldl_preserves (stepPool T s.pool)
    (fun acc => SameChain s acc.1 ∧ (∀ b ∈ acc.1.queue, b ≠ 0 ∧ T.nc b = true) ∧
      (∀ b ∈ acc.1.pool, b ≠ 0 ∧ T.nc b = true))
    (fun acc c h => stepPool_safeFrame acc c h) _ _ ⟨SameChain.refl s, hq, hp⟩

theorem safe_deliver {T : Tree} {s : State} (h : Safe T s) (hint : List Nat) (b : Nat) :
    Safe T (deliver T hint s b).1 := by
  unfold deliver
  by_cases hb : b = 0
  · simp [hb]; exact h
  · simp only [hb, if_false]
    by_cases hnc : T.nc b = true
    · simp only [hnc, Bool.not_true, Bool.false_eq_true, if_false]
      -- after insert_block + route
      have hr : SameChain s (route T { s with seen := upd s.seen b true, stored := upd s.stored b true, commits := s.commits + 1 } b).1 ∧
          (∀ x ∈ (route T { s with seen := upd s.seen b true, stored := upd s.stored b true, commits := s.commits + 1 } b).1.queue, x ≠ 0 ∧ T.nc x = true) ∧
          (∀ x ∈ (route T { s with seen := upd s.seen b true, stored := upd s.stored b true, commits := s.commits + 1 } b).1.pool, x ≠ 0 ∧ T.nc x = true) := by
        have hact := route_act T { s with seen := upd s.seen b true, stored := upd s.stored b true, commits := s.commits + 1 } b
        generalize route T { s with seen := upd s.seen b true, stored := upd s.stored b true, commits := s.commits + 1 } b = r at hact ⊢
        cases hact with
        | accept _ =>
          refine ⟨⟨rfl, rfl, rfl, rfl⟩, ?_, h.poolNc⟩
          intro x hx
          simp [enqueue] at hx
          rcases hx with hx | hx
          · exact h.queueNc x hx
          · subst hx; exact ⟨hb, hnc⟩
        | reject _ _ => exact ⟨⟨rfl, rfl, rfl, rfl⟩, h.queueNc, h.poolNc⟩
        | dup _ _ _ => exact ⟨⟨rfl, rfl, rfl, rfl⟩, h.queueNc, h.poolNc⟩
        | hold _ _ _ =>
          refine ⟨⟨rfl, rfl, rfl, rfl⟩, h.queueNc, ?_⟩
          intro x hx
          simp at hx
          rcases hx with hx | hx
          · subst hx; exact ⟨hb, hnc⟩
          · exact h.poolNc x hx
      obtain ⟨c1, q1, p1⟩ := hr
      obtain ⟨c2, q2, p2⟩ := search_safeFrame hint _ q1 p1
      exact h.of_sameChain (c1.trans c2) q2 p2
    · have : T.nc b = false := by simpa using hnc
      simp only [this, Bool.not_false, if_true]
      exact h.of_sameChain ⟨rfl, rfl, rfl, rfl⟩ h.queueNc h.poolNc

theorem safe_crash {T : Tree} {s : State} (h : Safe T s) : Safe T (crash s) :=
  h.of_sameChain ⟨rfl, rfl, rfl, rfl⟩ (by simp [crash]) (by simp [crash])

theorem stepExpire_frame {T : Tree} {pool0 : List Nat} {e : Nat} {s : State} (acc : State × List Nat) (c : Nat)
    (h : SameChain s acc.1 ∧ acc.1.queue = s.queue ∧ (∀ b ∈ acc.1.pool, b ∈ s.pool)) :
    SameChain s (stepExpire T pool0 e acc c).1 ∧ (stepExpire T pool0 e acc c).1.queue = s.queue ∧
      (∀ b ∈ (stepExpire T pool0 e acc c).1.pool, b ∈ s.pool) := by
  obtain ⟨h1, h2, h3⟩ := h
  unfold stepExpire
  by_cases hc : c ∈ acc.1.pool
  · simp only [hc, if_true]
    by_cases hg : expGone T pool0 e acc.2 c = true
    · simp only [hg, if_true]
      refine ⟨h1, h2, ?_⟩
      intro b hb; simp [unpool] at hb; exact h3 b hb.1
    · simp only [hg]; exact ⟨h1, h2, h3⟩
  · simp only [hc, if_false]; exact ⟨h1, h2, h3⟩

theorem expire_frame (T : Tree) (s : State) :
    SameChain s (expire T s) ∧ (expire T s).queue = s.queue ∧ (∀ b ∈ (expire T s).pool, b ∈ s.pool) := by
  unfold expire
  exact foldl_preserves (stepExpire T s.pool (T.epoch s.tip))
    (fun acc => SameChain s acc.1 ∧ acc.1.queue = s.queue ∧ (∀ b ∈ acc.1.pool, b ∈ s.pool))
    (fun acc c h => stepExpire_frame acc c h) _ _ ⟨SameChain.refl s, rfl, fun _ hb => hb⟩

theorem safe_expire {T : Tree} {s : State} (h : Safe T s) : Safe T (expire T s) := by
  obtain ⟨c, q, p⟩ := expire_frame T s
  exact h.of_sameChain c (by rw [q]; exact h.queueNc) (fun b hb => h.poolNc b (p b hb))


/-! ## Verify step -/

/-- the state a best-block commit produces (before the volatile bookkeeping of `verifyDone`) -/
def bestState (T : Tree) (s : State) (b : Nat) (q : List Nat) (td : Nat) : State :=
  { s with queue := q, td := upd s.td b (some td),
           ver := fun x => decide (x ∈ dirtyRun T s (T.par b) ++ [b]) || s.ver x, tip := b, tipTd := td,
           commits := s.commits + 1 }

inductive VerifyAct (T : Tree) (s : State) : State × Out → Prop
  | empty : s.queue = [] → VerifyAct T s (s, [])
  | fail (b : Nat) (q : List Nat) : s.queue = b :: q →
      (s.invalid (T.par b) = true ∨ s.td (T.par b) = none ∨
        (∃ ptd, s.td (T.par b) = some ptd ∧ s.invalid (T.par b) = false ∧ s.tipTd < ptd + T.work b ∧
          (dirtyRun T s (T.par b) ++ [b]).all T.ok = false)) →
      VerifyAct T s (verifyFail { s with queue := q } b)
  | known (b : Nat) (q : List Nat) (ptd : Nat) : s.queue = b :: q → s.invalid (T.par b) = false →
      s.td (T.par b) = some ptd → s.ver b = true → (s.td b).isSome = true →
      VerifyAct T s (verifyDone { s with queue := q } b Verdict.okKnown)
  | best (b : Nat) (q : List Nat) (ptd : Nat) : s.queue = b :: q → s.invalid (T.par b) = false →
      s.td (T.par b) = some ptd → s.tipTd < ptd + T.work b →
      (dirtyRun T s (T.par b) ++ [b]).all T.ok = true →
      VerifyAct T s (verifyDone (bestState T s b q (ptd + T.work b)) b Verdict.okNew)
  | side (b : Nat) (q : List Nat) (ptd : Nat) : s.queue = b :: q → s.invalid (T.par b) = false →
      s.td (T.par b) = some ptd → ¬ (s.tipTd < ptd + T.work b) →
      VerifyAct T s (verifyDone { s with queue := q, td := upd s.td b (some (ptd + T.work b)),
                                         commits := s.commits + 1 } b Verdict.okNew)

theorem verifyHead_act (T : Tree) (s : State) : VerifyAct T s (verifyHead T s) := by
  unfold verifyHead
  cases hq : s.queue with
  | nil => simp only []; exact .empty hq
  | cons b q =>
    simp only []
    by_cases hi : s.invalid (T.par b) = true
    · simp only [hi, if_true]; exact .fail b q hq (Or.inl hi)
    · have hi' : s.invalid (T.par b) = false := by simpa using hi
      simp only [hi', Bool.false_eq_true, if_false]
      cases hp : s.td (T.par b) with
      | none => simp only []; exact .fail b q hq (Or.inr (Or.inl hp))
      | some ptd =>
        simp only []
        by_cases hk : (s.ver b && (s.td b).isSome) = true
        · simp only [hk, if_true]
          simp at hk
          exact .known b q ptd hq hi' hp hk.1 (by simp [hk.2])
        · simp only [hk, if_false]
          by_cases hbest : s.tipTd < ptd + T.work b
          · simp only [hbest, if_true]
            by_cases hok : (dirtyRun T s (T.par b) ++ [b]).all T.ok = true
            · simp only [hok, if_true]; exact .best b q ptd hq hi' hp hbest hok
            · simp only [hok]
              exact .fail b q hq (Or.inr (Or.inr ⟨ptd, hp, hi', hbest, by simpa using hok⟩))
          · simp only [hbest, if_false]; exact .side b q ptd hq hi' hp hbest

theorem safe_verify {T : Tree} {s : State} (h : Safe T s) : Safe T (verifyHead T s).1 := by
  have hact := verifyHead_act T s
  generalize verifyHead T s = r at hact ⊢
  cases hact with
  | empty _ => exact h
  | fail b q hq _ =>
    refine h.of_sameChain ⟨rfl, rfl, rfl, rfl⟩ ?_ h.poolNc
    intro x hx; exact h.queueNc x (by rw [hq]; exact List.mem_cons_of_mem _ hx)
  | known b q ptd hq _ _ _ _ =>
    refine h.of_sameChain ⟨rfl, rfl, rfl, rfl⟩ ?_ h.poolNc
    intro x hx; exact h.queueNc x (by rw [hq]; exact List.mem_cons_of_mem _ hx)
  | side b q ptd hq _ hp hns =>
    have hbq := h.queueNc b (by rw [hq]; exact List.mem_cons_self)
    have hpar := h.tdTrue _ _ hp
    refine
      { gen := ⟨h.gen.1, ?_⟩, tipOk := ⟨?_, h.tipOk.2⟩, verClosed := h.verClosed, verExt := ?_,
        tdTrue := ?_, extPar := ?_, tdLe := ?_, queueNc := ?_, poolNc := h.poolNc }
    · show upd s.td b _ 0 = _
      rw [upd_other _ _ (Ne.symm hbq.1)]; exact h.gen.2
    · show upd s.td b _ s.tip = some s.tipTd
      by_cases ht : s.tip = b
      · -- the tip re-submitted: its td is unchanged
        have h1 := h.tdTrue _ _ h.tipOk.1
        have h2 : TD T b (ptd + T.work b) := .step hbq.1 hpar
        rw [ht] at h1 ⊢
        rw [upd_same, TD.functional h1 h2]
      · rw [upd_other _ _ ht]; exact h.tipOk.1
    · intro x hx
      show (upd s.td b _ x).isSome = true
      by_cases hxb : x = b
      · subst hxb; simp
      · rw [upd_other _ _ hxb]; exact h.verExt x hx
    · intro x n hx
      change upd s.td b _ x = some n at hx
      by_cases hxb : x = b
      · subst hxb; rw [upd_same] at hx; injection hx with hx; subst hx; exact .step hbq.1 hpar
      · rw [upd_other _ _ hxb] at hx; exact h.tdTrue x n hx
    · intro x hx hx0
      change (upd s.td b _ x).isSome = true at hx
      show (upd s.td b _ (T.par x)).isSome = true ∧ _
      have key : (s.td (T.par x)).isSome = true ∧ T.nc x = true := by
        by_cases hxb : x = b
        · subst hxb; exact ⟨by simp [hp], hbq.2⟩
        · rw [upd_other _ _ hxb] at hx; exact h.extPar x hx hx0
      refine ⟨?_, key.2⟩
      by_cases hpb : T.par x = b
      · rw [hpb]; simp
      · rw [upd_other _ _ hpb]; exact key.1
    · intro x n hx
      change upd s.td b _ x = some n at hx
      show n ≤ s.tipTd
      by_cases hxb : x = b
      · subst hxb; rw [upd_same] at hx; injection hx with hx; omega
      · rw [upd_other _ _ hxb] at hx; exact h.tdLe x n hx
    · intro x hx; exact h.queueNc x (by rw [hq]; exact List.mem_cons_of_mem _ hx)
  | best b q ptd hq _ hp hbest hok =>
    have hbq := h.queueNc b (by rw [hq]; exact List.mem_cons_self)
    have hpar := h.tdTrue _ _ hp
    have hall := List.all_eq_true.mp hok
    -- facts about the members of the new verified set
    have hmemExt : ∀ x, x ∈ dirtyRun T s (T.par b) → (s.td x).isSome = true :=
      fun x hx => (dirtyRun_mem T s _ x hx).2.2.1
    have hbNoExtOrSame : ∀ n, s.td b = some n → n = ptd + T.work b := by
      intro n hn
      exact TD.functional (h.tdTrue _ _ hn) (.step hbq.1 hpar)
    refine
      { gen := ⟨?_, ?_⟩, tipOk := ⟨?_, ?_⟩, verClosed := ?_, verExt := ?_,
        tdTrue := ?_, extPar := ?_, tdLe := ?_, queueNc := ?_, poolNc := h.poolNc }
    · show (decide (0 ∈ _) || s.ver 0) = true
      simp [h.gen.1]
    · show upd s.td b _ 0 = _
      rw [upd_other _ _ (Ne.symm hbq.1)]; exact h.gen.2
    · show upd s.td b _ b = _
      rw [upd_same]; rfl
    · show (decide (b ∈ dirtyRun T s (T.par b) ++ [b]) || s.ver b) = true
      simp
    · intro x hx hx0
      change (decide (x ∈ dirtyRun T s (T.par b) ++ [b]) || s.ver x) = true at hx
      show _ ∧ _ ∧ (decide (T.par x ∈ dirtyRun T s (T.par b) ++ [b]) || s.ver (T.par x)) = true
      simp only [Bool.or_eq_true, decide_eq_true_eq] at hx ⊢
      rcases hx with hx | hx
      · have hokx : T.ok x = true := hall x hx
        rcases List.mem_append.mp hx with hd | hd
        · obtain ⟨_, _, hext, hparent⟩ := dirtyRun_mem T s _ x hd
          have hep := h.extPar x hext hx0
          refine ⟨hep.2, hokx, ?_⟩
          rcases hparent with h1 | h1 | h1 | h1
          · exact Or.inl (List.mem_append.mpr (Or.inl h1))
          · rw [h1]; exact Or.inr h.gen.1
          · exact Or.inr h1
          · rw [Option.isNone_iff_eq_none] at h1; rw [h1] at hep; simp at hep
        · have hxb : x = b := by simpa using hd
          subst hxb
          refine ⟨hbq.2, hokx, ?_⟩
          rcases dirtyRun_self T s (T.par x) with h1 | h1 | h1 | h1
          · exact Or.inl (List.mem_append.mpr (Or.inl h1))
          · rw [h1]; exact Or.inr h.gen.1
          · exact Or.inr h1
          · rw [hp] at h1; simp at h1
      · obtain ⟨a1, a2, a3⟩ := h.verClosed x hx hx0
        exact ⟨a1, a2, Or.inr a3⟩
    · intro x hx
      change (decide (x ∈ dirtyRun T s (T.par b) ++ [b]) || s.ver x) = true at hx
      show (upd s.td b _ x).isSome = true
      by_cases hxb : x = b
      · subst hxb; simp
      · rw [upd_other _ _ hxb]
        simp only [Bool.or_eq_true, decide_eq_true_eq] at hx
        rcases hx with hx | hx
        · rcases List.mem_append.mp hx with hd | hd
          · exact hmemExt x hd
          · exact absurd (by simpa using hd) hxb
        · exact h.verExt x hx
    · intro x n hx
      change upd s.td b _ x = some n at hx
      by_cases hxb : x = b
      · subst hxb; rw [upd_same] at hx; injection hx with hx; subst hx; exact .step hbq.1 hpar
      · rw [upd_other _ _ hxb] at hx; exact h.tdTrue x n hx
    · intro x hx hx0
      change (upd s.td b _ x).isSome = true at hx
      show (upd s.td b _ (T.par x)).isSome = true ∧ _
      have key : (s.td (T.par x)).isSome = true ∧ T.nc x = true := by
        by_cases hxb : x = b
        · subst hxb; exact ⟨by simp [hp], hbq.2⟩
        · rw [upd_other _ _ hxb] at hx; exact h.extPar x hx hx0
      refine ⟨?_, key.2⟩
      by_cases hpb : T.par x = b
      · rw [hpb]; simp
      · rw [upd_other _ _ hpb]; exact key.1
    · intro x n hx
      change upd s.td b _ x = some n at hx
      show n ≤ ptd + T.work b
      by_cases hxb : x = b
      · subst hxb; rw [upd_same] at hx; injection hx with hx; omega
      · rw [upd_other _ _ hxb] at hx; have := h.tdLe x n hx; omega
    · intro x hx; exact h.queueNc x (by rw [hq]; exact List.mem_cons_of_mem _ hx)

theorem safe_step {T : Tree} {s : State} (h : Safe T s) (op : Op) : Safe T (step T s op).1 := by
  cases op with
  | deliver b hint => exact safe_deliver h hint b
  | verify => exact safe_verify h
  | expire => exact safe_expire h
  | crash => exact safe_crash h

theorem safe_run {T : Tree} : ∀ (ops : List Op) (s : State), Safe T s → Safe T (run T s ops) := by
  intro ops
  induction ops with
  | nil => intro s h; exact h
  | cons op ops ih => intro s h; exact ih _ (safe_step h op)

theorem fullyValid_of_ver {T : Tree} {s : State} (h : Safe T s) : ∀ b, s.ver b = true → FullyValid T b := by
  intro b
  induction b using Nat.strongRecOn with
  | _ b ih =>
    intro hv
    by_cases hb : b = 0
    · subst hb; exact .genesis
    · obtain ⟨h1, h2, h3⟩ := h.verClosed b hv hb
      exact .step hb h1 h2 (ih _ (T.par_lt hb) h3)


/-! ## Only `verify` touches the chain data -/

theorem search_sameChain (T : Tree) (hint : List Nat) (s : State) : SameChain s (search T hint s).1 := by
  unfold search
  refine foldl_preserves (stepPool T s.pool) (fun acc => SameChain s acc.1) ?_ _ _ (SameChain.refl s)
  intro acc c h
  have hact := stepPool_act T s.pool acc c
  generalize stepPool T s.pool acc c = r at hact ⊢
  cases hact with
  | skip _ => exact h
  | accept _ _ => exact h
  | reject _ _ => exact h

theorem route_sameChain (T : Tree) (s : State) (b : Nat) : SameChain s (route T s b).1 := by
  have hact := route_act T s b
  generalize route T s b = r at hact ⊢
  cases hact <;> exact ⟨rfl, rfl, rfl, rfl⟩

theorem deliver_sameChain (T : Tree) (hint : List Nat) (s : State) (b : Nat) :
    SameChain s (deliver T hint s b).1 := by
  unfold deliver
  by_cases hb : b = 0
  · simp [hb]; exact SameChain.refl s
  · simp only [hb, if_false]
    by_cases hnc : T.nc b = true
    · simp only [hnc, Bool.not_true, Bool.false_eq_true, if_false]
      have h1 : SameChain s { s with seen := upd s.seen b true, stored := upd s.stored b true, commits := s.commits + 1 } :=
        ⟨rfl, rfl, rfl, rfl⟩
      exact (h1.trans (route_sameChain T _ b)).trans (search_sameChain T hint _)
    · have : T.nc b = false := by simpa using hnc
      simp only [this, Bool.not_false, if_true]
      exact ⟨rfl, rfl, rfl, rfl⟩

/-- a step that moves the tip is a best-block commit with strictly more accumulated work;
every step leaves the tip's accumulated work at least as large -/
theorem step_tip (T : Tree) (s : State) (op : Op) :
    ((step T s op).1.tip = s.tip ∧ (step T s op).1.tipTd = s.tipTd) ∨ s.tipTd < (step T s op).1.tipTd := by
  cases op with
  | deliver b hint => left; obtain ⟨_, _, h3, h4⟩ := deliver_sameChain T hint s b; exact ⟨h3, h4⟩
  | expire => left; obtain ⟨⟨_, _, h3, h4⟩, _⟩ := expire_frame T s; exact ⟨h3, h4⟩
  | crash => left; exact ⟨rfl, rfl⟩
  | verify =>
    show ((verifyHead T s).1.tip = s.tip ∧ (verifyHead T s).1.tipTd = s.tipTd) ∨ s.tipTd < (verifyHead T s).1.tipTd
    have hact := verifyHead_act T s
    generalize verifyHead T s = r at hact ⊢
    cases hact with
    | empty _ => left; exact ⟨rfl, rfl⟩
    | fail _ _ _ _ => left; exact ⟨rfl, rfl⟩
    | known _ _ _ _ _ _ _ _ => left; exact ⟨rfl, rfl⟩
    | side _ _ _ _ _ _ _ => left; exact ⟨rfl, rfl⟩
    | best b q ptd _ _ _ hbest _ => right; exact hbest

end CkbVerif.Chain
