import CkbVerif.Lemmas.Freezer

/-! Helper lemmas for C09, round 6: the exact read-handle LRU (`openL`, `appendL`, `truncateL`,
`retrieveCache` of `Model/Freezer.lean`). -/
namespace CkbVerif.Freezer

theorem mem_lruPut {cap : Nat} {c : List Nat} {id x : Nat} (h : x ∈ lruPut cap c id) :
    x = id ∨ x ∈ c := by
  unfold lruPut at h
  have := List.mem_of_mem_take h
  rcases List.mem_cons.mp this with h1 | h1
  · exact Or.inl h1
  · exact Or.inr ((List.mem_filter.mp h1).1)

theorem mem_lruPop {c : List Nat} {id x : Nat} (h : x ∈ lruPop c id) : x ∈ c :=
  (List.mem_filter.mp h).1

theorem mem_lruGet {c : List Nat} {id x : Nat} (h : x ∈ lruGet c id) : x ∈ c := by
  unfold lruGet at h
  split at h
  · rename_i hid
    rcases List.mem_cons.mp h with h1 | h1
    · rw [h1]; exact hid
    · exact (List.mem_filter.mp h1).1
  · exact h

theorem mem_foldl_lruPut {cap : Nat} : ∀ (l acc : List Nat) (x : Nat),
    x ∈ l.foldl (lruPut cap) acc → x ∈ acc ∨ x ∈ l
  | [], acc, x, h => Or.inl h
  | a :: l, acc, x, h => by
    simp only [List.foldl_cons] at h
    rcases mem_foldl_lruPut l _ x h with h1 | h1
    · rcases mem_lruPut h1 with h2 | h2
      · exact Or.inr (by simp [h2])
      · exact Or.inl h2
    · exact Or.inr (by simp [h1])

theorem mem_cachePreopen {cap tailId headId x : Nat} (h : x ∈ cachePreopen cap tailId headId) :
    x ≤ headId := by
  unfold cachePreopen at h
  rcases mem_lruPut h with h1 | h1
  · omega
  · rcases mem_foldl_lruPut _ _ _ h1 with h2 | h2
    · cases h2
    · have := (List.mem_filter.mp h2).1
      have := List.mem_range.mp this
      omega

/-- every index entry's file id is at most the head's -/
theorem Good.fid_le_head {d : Disk} {items : List Bytes} {h : Handle} (g : Good d items)
    (hk : HandleOk h d) {i : Nat} {e : Entry} (he : d.idx[i]? = some e) : e.fid ≤ h.headId := by
  obtain ⟨last, rest, hr⟩ := g.rev_ne_nil
  obtain ⟨hid, _⟩ := hk.2 last rest hr
  have hmem : e ∈ d.idx.reverse := List.mem_reverse.mpr (List.mem_of_getElem? he)
  rw [hr] at hmem
  rcases List.mem_cons.mp hmem with h1 | h1
  · rw [h1, hid]; exact Nat.le_refl _
  · have hle := RChain.fid_le (files := d.files) (rev := last :: rest) rfl (by rw [← hr]; exact g.chain) e h1
    rw [hid]; exact hle

theorem getBounds_fid {d : Disk} {item s e fid : Nat} (h : getBounds d item = some (s, e, fid)) :
    ∃ en, d.idx[item]? = some en ∧ en.fid = fid := by
  unfold getBounds at h
  cases hi : d.idx[item]? with
  | none => simp [hi] at h
  | some en =>
    simp only [hi] at h
    refine ⟨en, rfl, ?_⟩
    by_cases h1 : item = 1
    · simp [h1] at h; exact h.2.2
    · simp only [h1, if_false] at h
      cases hp : d.idx[item - 1]? with
      | none => simp [hp] at h
      | some p =>
        simp only [hp] at h
        split at h <;> (simp at h; exact h.2.2)

theorem openL_of_open {cap : Nat} {d d' : Disk} {h : Handle} (ho : «open» d = some (h, d')) :
    ∃ c, openL cap d = some ({ h with cache := c }, d') ∧ ∀ id ∈ c, id ≤ h.headId := by
  unfold openL
  rw [ho]
  exact ⟨_, rfl, fun id hid => mem_cachePreopen hid⟩

end CkbVerif.Freezer
