/-
Definitions and helper lemmas for the pipeline invariant "`ext.verified != None` is
ancestor-closed" (`Props/C02H.lean`).
-/
import CkbVerif.Lemmas.StoreInv
namespace CkbVerif.C02
open CkbVerif.Store

/-- the ext row of `x` exists and was written by a verification (`verified != None`) -/
def Ver (r : Recs) (x : Nat) : Prop := ∃ e, r.ext x = some e ∧ e.verified ≠ none

/-- ancestor-closed: a verified block's parent is verified (`par genesis = genesis`) -/
def VerClosed (par : Nat → Nat) (r : Recs) : Prop := ∀ x, Ver r x → Ver r (par x)

/-- attached list, parent-linked from the fork point `p` -/
def LinkedP (par : Nat → Nat) : Nat → List Block → Prop
  | _, [] => True
  | p, a :: as => par a.id = p ∧ LinkedP par a.id as

theorem ver_reconcileOne_mono (v : View) (b : Block) (x : Nat) (h : Ver v.r x) :
    Ver (reconcileOne v b).r x := by
  obtain ⟨e, he, hv⟩ := h
  simp only [reconcileOne]
  cases hb : v.r.ext b.id with
  | none => exact ⟨e, he, hv⟩
  | some eb =>
    simp only
    by_cases hn : eb.verified = none
    · simp only [hn, if_true]
      by_cases hx : x = b.id
      · subst hx
        rw [hb] at he
        cases he
        exact absurd hn hv
      · exact ⟨e, by simp [putExt, upd, hx, he], hv⟩
    · simp only [hn, if_false]
      exact ⟨e, he, hv⟩

theorem ver_reconcileOne_self (v : View) (b : Block) (h : (v.r.ext b.id).isSome) :
    Ver (reconcileOne v b).r b.id := by
  simp only [reconcileOne]
  cases hb : v.r.ext b.id with
  | none => rw [hb] at h; cases h
  | some eb =>
    simp only
    by_cases hn : eb.verified = none
    · simp only [hn, if_true]
      exact ⟨okExt eb b, by simp [putExt, upd], by simp [okExt]⟩
    · simp only [hn, if_false]
      exact ⟨eb, hb, hn⟩

theorem ver_reconcileOne_inv (v : View) (b : Block) (x : Nat) (h : Ver (reconcileOne v b).r x) :
    Ver v.r x ∨ x = b.id := by
  by_cases hx : x = b.id
  · exact Or.inr hx
  · left
    obtain ⟨e, he, hv⟩ := h
    simp only [reconcileOne] at he
    cases hb : v.r.ext b.id with
    | none => rw [hb] at he; exact ⟨e, he, hv⟩
    | some eb =>
      rw [hb] at he
      simp only at he
      by_cases hn : eb.verified = none
      · simp only [hn, if_true] at he
        exact ⟨e, by simpa [putExt, upd, hx] using he, hv⟩
      · simp only [hn, if_false] at he
        exact ⟨e, he, hv⟩

theorem rows_reconcileOne (v : View) (b : Block) (y : Nat) (h : (v.r.ext y).isSome) :
    ((reconcileOne v b).r.ext y).isSome := by
  simp only [reconcileOne]
  cases hb : v.r.ext b.id with
  | none => exact h
  | some eb =>
    simp only
    by_cases hn : eb.verified = none
    · simp only [hn, if_true, putExt, upd]
      by_cases hy : y = b.id
      · simp [hy]
      · simp [hy, h]
    · simp only [hn, if_false]; exact h

theorem rollback_r (v : View) (bs : List Block) : (rollback v bs).r = v.r := by
  induction bs generalizing v with
  | nil => rfl
  | cons b bs ih => simp only [rollback]; rw [ih]; rfl

/-- `k`-th ancestor -/
def iterPar (par : Nat → Nat) : Nat → Nat → Nat
  | 0, t => t
  | k + 1, t => iterPar par k (par t)

/-- every ancestor of a verified block is verified -/
theorem ver_ancestors (par : Nat → Nat) (r : Recs) (hc : VerClosed par r) (t : Nat) (ht : Ver r t) :
    ∀ k, Ver r (iterPar par k t) := by
  intro k
  induction k generalizing t with
  | zero => exact ht
  | succ k ih => exact ih (par t) (hc t ht)

end CkbVerif.C02
