/-
`reconcile_main_chain` as coded (`Model/Reconcile.lean`: position-based, trusting `dirty_exts`)
against the per-block decision of `Model/Store.lean`'s `reconcile`.
-/
import CkbVerif.Model.Reconcile
import CkbVerif.Lemmas.ForkProcess
namespace CkbVerif.C02
open CkbVerif.Store

theorem reconcile_append (v : View) (as bs : List Block) :
    reconcile v (as ++ bs) = reconcile (reconcile v as) bs := by
  induction as generalizing v with
  | nil => rfl
  | cons a as ih => simp [reconcile, ih]

/-- blocks whose stored ext is absent or already verified: the first loop is what `reconcile` does,
and it writes no record -/
theorem attachVerifiedAll_eq (v : View) (pre : List Block)
    (h : ∀ a ∈ pre, v.r.ext a.id = none ∨ ∃ e, v.r.ext a.id = some e ∧ e.verified ≠ none) :
    attachVerifiedAll v pre = reconcile v pre ∧ (attachVerifiedAll v pre).r = v.r := by
  induction pre generalizing v with
  | nil => exact ⟨rfl, rfl⟩
  | cons a as ih =>
    have ha := h a (by simp)
    have hone : reconcileOne v a = attachVerified v a := by
      simp only [reconcileOne, attachVerified]
      rcases ha with h0 | ⟨e, h1, h2⟩
      · rw [h0]
      · rw [h1]; simp [h2]
    have hr : (attachVerified v a).r = v.r := rfl
    obtain ⟨h1, h2⟩ := ih (attachVerified v a) (by
      intro x hx; rw [hr]; exact h x (List.mem_cons_of_mem _ hx))
    simp only [attachVerifiedAll, reconcile, hone]
    exact ⟨h1, by rw [h2]; rfl⟩

/-- blocks whose stored ext is unverified, each paired with ITS OWN stored ext: the second loop is
what `reconcile` does -/
theorem attachDirtyAll_eq (w : View) (ps : List (Ext × Block))
    (h : ∀ p ∈ ps, w.r.ext p.2.id = some p.1 ∧ p.1.verified = none)
    (hnd : (ps.map (·.2.id)).Pairwise (· ≠ ·)) :
    attachDirtyAll w ps = reconcile w (ps.map (·.2)) := by
  induction ps generalizing w with
  | nil => rfl
  | cons p ps ih =>
    obtain ⟨e, d⟩ := p
    have hp := h (e, d) (by simp)
    have hone : reconcileOne w d = attachDirty w e d := by
      have hv : e.verified = none := hp.2
      have hx : w.r.ext d.id = some e := hp.1
      simp only [reconcileOne, attachDirty, hx, hv, if_true]
    simp only [attachDirtyAll, List.map_cons, reconcile, hone]
    rw [List.map_cons, List.pairwise_cons] at hnd
    apply ih
    · intro q hq
      have hne : q.2.id ≠ d.id := fun heq => hnd.1 q.2.id (List.mem_map.mpr ⟨q, hq, rfl⟩) heq.symm
      have := h q (List.mem_cons_of_mem _ hq)
      refine ⟨?_, this.2⟩
      show Store.upd w.r.ext d.id _ q.2.id = _
      simp [Store.upd, hne, this.1]
    · exact hnd.2

/-- the code's `reconcile_main_chain` equals the per-block `reconcile` whenever the ext list is
aligned with the blocks: `blocks = pre ++ dirty`, `exts` are the stored exts of `dirty` in order -/
theorem reconcileZip_eq (v : View) (pre : List Block) (ps : List (Ext × Block))
    (hpre : ∀ a ∈ pre, v.r.ext a.id = none ∨ ∃ e, v.r.ext a.id = some e ∧ e.verified ≠ none)
    (hps : ∀ p ∈ ps, v.r.ext p.2.id = some p.1 ∧ p.1.verified = none)
    (hnd : (ps.map (·.2.id)).Pairwise (· ≠ ·)) :
    reconcileZip v (pre ++ ps.map (·.2)) (ps.map (·.1)) = reconcile v (pre ++ ps.map (·.2)) := by
  have hlen : (pre ++ ps.map (·.2)).length - (ps.map (·.1)).length = pre.length := by simp
  obtain ⟨h1, h2⟩ := attachVerifiedAll_eq v pre hpre
  have hz : (ps.map (·.1)).zip (ps.map (·.2)) = ps := by
    rw [List.zip_map']; simp
  simp only [reconcileZip, hlen, List.take_left', List.drop_left', hz]
  rw [reconcile_append, ← h1]
  exact attachDirtyAll_eq _ ps (by intro p hp; rw [h2]; exact hps p hp) hnd

/-- the attached blocks are pairwise different (their numbers are) -/
theorem ancList_pairwise_ne (s : Fork.Store) (x : Nat)
    (hbn : ∀ k, k ≤ s.number x → s.number (Fork.anc s x k) = s.number x - k) (K : Nat) (hK : K ≤ s.number x) :
    (Fork.ancList s x K).Pairwise (· ≠ ·) := by
  induction K with
  | zero => exact List.Pairwise.nil
  | succ K ih =>
    simp only [Fork.ancList, List.pairwise_cons]
    refine ⟨?_, ih (by omega)⟩
    intro a ha heq
    rw [Fork.mem_ancList] at ha
    obtain ⟨j, hj, rfl⟩ := ha
    have h1 := hbn K (by omega)
    have h2 := hbn j (by omega)
    rw [heq] at h1
    omega

end CkbVerif.C02
