/-
C11 helper lemmas, part 10: the repaired ancestor-limit eviction of `check_and_record_ancestors`
(/repo 10e306f, F33): a recorded parent whose output the new entry itself spends or references is never
among the evicted transactions of a successful `add_entry`.
-/
import CkbVerif.Lemmas.PoolEvict
namespace CkbVerif.Pool
open CkbVerif.C11

/-- under `fixF33` no cell-ref candidate is a creator of one of the new transaction's own out-points -/
theorem cellRef_not_needed (s : Pool) (t : Tx) (h33 : s.cfg.fixF33 = true) :
    ∀ x ∈ (txAncestors s t).2.2, x ∉ neededIds t := by
  intro x hx
  unfold txAncestors at hx
  simp only [h33, if_true] at hx
  have := (List.mem_filter.mp hx).2
  intro hn
  have hc : (neededIds t).contains x = true := List.contains_iff_mem.mpr hn
  simp [hc] at this
  exact this hn

/-- what the repaired `check_and_record_ancestors` guarantees for the parents it was given -/
def AncGoodN (s : Pool) (e : Entry) : AncRes → Prop
  | .ok _ _ ev => ∀ p ∈ (txAncestors s e.tx).2.1, p ∈ neededIds e.tx → p ∉ ev
  | _ => True

theorem recordAncestors_goodN {s s0 : Pool} (e : Entry) (a p ev : List Nat)
    (hs : ∀ q ∈ (txAncestors s0 e.tx).2.1, q ∈ neededIds e.tx → q ∉ ev) :
    AncGoodN s0 e (match recordAncestors s e a p with
      | some (s', e') => AncRes.ok s' e' ev
      | none => AncRes.panic s) := by
  cases recordAncestors s e a p with
  | none => trivial
  | some r => exact hs

theorem checkAnc_needed (s : Pool) (e : Entry) (h33 : s.cfg.fixF33 = true) (hP : s.cfg.fixPanic = true) :
    AncGoodN s e (checkAndRecordAncestors s e) := by
  have h0 : txs s = (txs s).filter (·.id ∉ ([] : List Nat)) := (List.filter_eq_self.mpr (by simp)).symm
  have hcr := cellRef_not_needed s e.tx h33
  unfold checkAndRecordAncestors
  simp only
  split
  · exact recordAncestors_goodN e _ _ _ (by simp)
  · split
    · have hl := evictLoop_txs
        (((byEvictKey s.entries).filter (·.tx.id ∈ (txAncestors s e.tx).2.2)).map (·.tx.id)) s s
        ((txAncestors s e.tx).1.length + 1) (txAncestors s e.tx).2.1 [] h0 List.nodup_nil (by simp)
      have hpt := evictLoop_parents_take
        (((byEvictKey s.entries).filter (·.tx.id ∈ (txAncestors s e.tx).2.2)).map (·.tx.id)) s
        ((txAncestors s e.tx).1.length + 1) (txAncestors s e.tx).2.1 []
      have hcfg := evictLoop_cfg
        (((byEvictKey s.entries).filter (·.tx.id ∈ (txAncestors s e.tx).2.2)).map (·.tx.id)) s
        ((txAncestors s e.tx).1.length + 1) (txAncestors s e.tx).2.1 []
      split
      · trivial
      · rename_i hc
        -- the post-eviction check passed: every remaining parent is still pooled
        have hall : ∀ q ∈ (evictLoop (((byEvictKey s.entries).filter (·.tx.id ∈ (txAncestors s e.tx).2.2)).map (·.tx.id)) s
            ((txAncestors s e.tx).1.length + 1) (txAncestors s e.tx).2.1 []).2.2.1,
            (getEntry (evictLoop (((byEvictKey s.entries).filter (·.tx.id ∈ (txAncestors s e.tx).2.2)).map (·.tx.id)) s
              ((txAncestors s e.tx).1.length + 1) (txAncestors s e.tx).2.1 []).1 q).isSome = true := by
          intro q hq
          rw [hcfg, hP, Bool.true_and] at hc
          cases hq' : (getEntry (evictLoop (((byEvictKey s.entries).filter (·.tx.id ∈ (txAncestors s e.tx).2.2)).map (·.tx.id)) s
              ((txAncestors s e.tx).1.length + 1) (txAncestors s e.tx).2.1 []).1 q) with
          | some _ => rfl
          | none =>
            exfalso
            apply hc
            exact List.any_eq_true.mpr ⟨q, hq, by rw [hq']; rfl⟩
        have key : ∀ q ∈ (txAncestors s e.tx).2.1, q ∈ neededIds e.tx →
            q ∉ (evictLoop (((byEvictKey s.entries).filter (·.tx.id ∈ (txAncestors s e.tx).2.2)).map (·.tx.id)) s
              ((txAncestors s e.tx).1.length + 1) (txAncestors s e.tx).2.1 []).2.2.2 := by
          intro q hq hn hev
          -- q is no candidate, so it is still among the parents after the loop
          have hnc : q ∉ ((byEvictKey s.entries).filter (·.tx.id ∈ (txAncestors s e.tx).2.2)).map (·.tx.id) := by
            intro hm
            obtain ⟨x, hx, rfl⟩ := List.mem_map.mp hm
            have := (List.mem_filter.mp hx).2
            exact hcr _ (by simpa using this) hn
          have hq1 : q ∈ (evictLoop (((byEvictKey s.entries).filter (·.tx.id ∈ (txAncestors s e.tx).2.2)).map (·.tx.id)) s
              ((txAncestors s e.tx).1.length + 1) (txAncestors s e.tx).2.1 []).2.2.1 := by
            rw [hpt]
            refine List.mem_filter.mpr ⟨hq, ?_⟩
            have : q ∉ List.take (min (((byEvictKey s.entries).filter (·.tx.id ∈ (txAncestors s e.tx).2.2)).map (·.tx.id)).length
                ((txAncestors s e.tx).1.length + 1 - s.cfg.maxAnc))
                (((byEvictKey s.entries).filter (·.tx.id ∈ (txAncestors s e.tx).2.2)).map (·.tx.id)) :=
              fun h => hnc (List.mem_of_mem_take h)
            simpa using this
          have hsome := hall q hq1
          have hmem := (mem_idsOf_iff _ q).mpr hsome
          rw [idsOf_eq_txs, hl.1] at hmem
          obtain ⟨x, hx, rfl⟩ := List.mem_map.mp hmem
          have := (List.mem_filter.mp hx).2
          simp at this
          exact this hev
        split
        · exact recordAncestors_goodN e _ _ _ key
        · trivial
    · trivial

/-- a pooled creator of one of the new transaction's out-points is one of its recorded parents -/
theorem needed_pooled_mem_parents (s : Pool) (t : Tx) (p : Nat) (hn : p ∈ neededIds t)
    (hk : hasLink s.links p = true) : p ∈ (txAncestors s t).2.1 := by
  unfold txAncestors
  simp only
  rw [mem_dedup, List.mem_append]
  unfold neededIds at hn
  obtain ⟨o, ho, rfl⟩ := List.mem_map.mp hn
  rcases List.mem_append.mp ho with a | a
  · left
    refine List.mem_flatMap.mpr ⟨o, a, List.mem_append.mpr (Or.inr ?_)⟩
    rw [hk]; simp
  · right
    refine List.mem_filterMap.mpr ⟨o, a, ?_⟩
    rw [hk]; simp

/-- `add_entry`, repaired code: no evicted transaction is a recorded parent that the new entry needs -/
theorem addEntry_keeps_needed (s : Pool) (t : Tx) (st : Status) (ts : Nat) (s2 : Pool) (ev : List Nat)
    (h33 : s.cfg.fixF33 = true) (hP : s.cfg.fixPanic = true)
    (hadd : addEntry s t st ts = (s2, .ok ev)) :
    ∀ p ∈ neededIds t, hasLink s.links p = true → p ∉ ev := by
  have h2 : (addEntry s t st ts).2 = .ok ev := by rw [hadd]
  have hg := checkAnc_needed s (Entry.fresh t st ts) h33 hP
  unfold addEntry at h2
  split at h2
  · cases h2
  · split at h2
    · cases h2
    · split at h2
      · cases h2
      · cases h2
      · cases h2
      · rename_i s' e' ev' heq
        rw [heq] at hg
        injection h2 with h2
        subst h2
        intro p hn hk
        exact hg p (needed_pooled_mem_parents s t p hn hk) hn

end CkbVerif.Pool
