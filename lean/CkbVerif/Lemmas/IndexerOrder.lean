import CkbVerif.Lemmas.IndexerScan

/-! Byte order of the keys: `bytesLt` is a strict linear order, `be` is order preserving and injective
on in-range numbers, `sortRows` (= the RocksDB iteration order) is sorted (C18: ORDER of the answers). -/
namespace CkbVerif.Indexer
open CkbVerif.Gen.Indexer

/-! ## `bytesLt` is a strict linear order -/

theorem bytesLt_irrefl (a : List Nat) : bytesLt a a = false := by
  induction a with
  | nil => rfl
  | cons x r ih => simp [bytesLt, ih]

theorem bytesLt_cons (a b : Nat) (as bs : List Nat) :
    bytesLt (a :: as) (b :: bs) = if a < b then true else if b < a then false else bytesLt as bs := rfl

theorem bytesLt_trans (a b c : List Nat) (h1 : bytesLt a b = true) (h2 : bytesLt b c = true) :
    bytesLt a c = true := by
  induction a generalizing b c with
  | nil =>
    cases b with
    | nil => simp [bytesLt] at h1
    | cons y bs =>
      cases c with
      | nil => simp [bytesLt] at h2
      | cons z cs => rfl
  | cons x as ih =>
    cases b with
    | nil => simp [bytesLt] at h1
    | cons y bs =>
      cases c with
      | nil => simp [bytesLt] at h2
      | cons z cs =>
        rw [bytesLt_cons] at h1 h2 ⊢
        by_cases hxy : x < y
        · by_cases hyz : y < z
          · simp [show x < z by omega]
          · by_cases hzy : z < y
            · simp [hyz, hzy] at h2
            · have : y = z := by omega
              subst this
              simp [hxy]
        · by_cases hyx : y < x
          · simp [hxy, hyx] at h1
          · have : x = y := by omega
            subst this
            simp only [Nat.lt_irrefl, if_false] at h1
            by_cases hyz : x < z
            · simp [hyz]
            · by_cases hzy : z < x
              · simp [hyz, hzy] at h2
              · simp only [hyz, hzy, if_false] at h2 ⊢
                exact ih bs cs h1 h2

theorem bytesLt_asymm (a b : List Nat) (h : bytesLt a b = true) : bytesLt b a = false := by
  cases h' : bytesLt b a with
  | false => rfl
  | true =>
    have := bytesLt_trans a b a h h'
    rw [bytesLt_irrefl] at this
    cases this

theorem bytesLt_trichotomy (a b : List Nat) (h1 : bytesLt a b = false) (h2 : bytesLt b a = false) : a = b := by
  induction a generalizing b with
  | nil =>
    cases b with
    | nil => rfl
    | cons y bs => simp [bytesLt] at h1
  | cons x as ih =>
    cases b with
    | nil => simp [bytesLt] at h2
    | cons y bs =>
      rw [bytesLt_cons] at h1 h2
      by_cases hxy : x < y
      · simp [hxy] at h1
      · by_cases hyx : y < x
        · simp [hyx] at h2
        · have : x = y := by omega
          subst this
          simp only [Nat.lt_irrefl, if_false] at h1 h2
          rw [ih bs h1 h2]

/-- `≤` is transitive -/
theorem bytesLe_trans (a b c : List Nat) (h1 : bytesLt b a = false) (h2 : bytesLt c b = false) :
    bytesLt c a = false := by
  cases h : bytesLt c a with
  | false => rfl
  | true =>
    cases hab : bytesLt a b with
    | true =>
      have := bytesLt_trans c a b h hab
      rw [h2] at this; cases this
    | false =>
      have := bytesLt_trichotomy a b hab h1
      subst this
      rw [h2] at h; cases h

theorem bytesLt_of_lt_le (a b c : List Nat) (h1 : bytesLt a b = true) (h2 : bytesLt c b = false) :
    bytesLt a c = true := by
  cases h : bytesLt a c with
  | true => rfl
  | false =>
    cases hca : bytesLt c a with
    | true =>
      have := bytesLt_trans c a b hca h1
      rw [h2] at this; cases this
    | false =>
      have := bytesLt_trichotomy a c h hca
      subst this
      rw [h1] at h2; cases h2

/-! ## `be` -/

theorem be_succ (n w : Nat) : be n (w + 1) = (n / 256 ^ w % 256) :: be n w := by
  simp [be, List.range_succ]

theorem digit_mod (n w i : Nat) (h : i < w) : n % 256 ^ w / 256 ^ i % 256 = n / 256 ^ i % 256 := by
  obtain ⟨k, rfl⟩ : ∃ k, w = i + (k + 1) := ⟨w - i - 1, by omega⟩
  rw [Nat.pow_add, Nat.mod_mul_right_div_self, Nat.pow_succ, Nat.mod_mul_left_mod]

theorem be_mod (n w : Nat) : be (n % 256 ^ w) w = be n w := by
  unfold be
  apply List.map_congr_left
  intro i hi
  simp only [List.mem_reverse, List.mem_range] at hi
  exact digit_mod n w i hi

/-- comparing two in-range big-endian numbers byte-wise is comparing the numbers -/
theorem bytesLt_be (w : Nat) : ∀ (a b : Nat) (x y : List Nat), a < 256 ^ w → b < 256 ^ w →
    bytesLt (be a w ++ x) (be b w ++ y) = if a < b then true else if b < a then false else bytesLt x y := by
  induction w with
  | zero =>
    intro a b x y ha hb
    have : a = 0 := by simpa using ha
    have : b = 0 := by simpa using hb
    subst_vars
    simp [be]
  | succ w ih =>
    intro a b x y ha hb
    rw [be_succ, be_succ, List.cons_append, List.cons_append, bytesLt_cons, ← be_mod a w, ← be_mod b w,
      ih (a % 256 ^ w) (b % 256 ^ w) x y (Nat.mod_lt _ (Nat.pow_pos (by decide)))
        (Nat.mod_lt _ (Nat.pow_pos (by decide)))]
    have hP : 0 < 256 ^ w := Nat.pow_pos (by decide)
    have hda : a / 256 ^ w < 256 := by
      rw [Nat.div_lt_iff_lt_mul hP]; rw [Nat.pow_succ] at ha; rw [Nat.mul_comm]; exact ha
    have hdb : b / 256 ^ w < 256 := by
      rw [Nat.div_lt_iff_lt_mul hP]; rw [Nat.pow_succ] at hb; rw [Nat.mul_comm]; exact hb
    rw [Nat.mod_eq_of_lt hda, Nat.mod_eq_of_lt hdb]
    have ea := Nat.div_add_mod a (256 ^ w)
    have eb := Nat.div_add_mod b (256 ^ w)
    have la := Nat.mod_lt a hP
    have lb := Nat.mod_lt b hP
    generalize 256 ^ w = P at *
    generalize a / P = ah at *
    generalize b / P = bh at *
    generalize a % P = al at *
    generalize b % P = bl at *
    by_cases h1 : ah < bh
    · have : P * ah + P ≤ P * bh := by
        have := Nat.mul_le_mul_left P (show ah + 1 ≤ bh from h1)
        rw [Nat.mul_add, Nat.mul_one] at this
        exact this
      simp [h1, show a < b by omega]
    · by_cases h2 : bh < ah
      · have : P * bh + P ≤ P * ah := by
          have := Nat.mul_le_mul_left P (show bh + 1 ≤ ah from h2)
          rw [Nat.mul_add, Nat.mul_one] at this
          exact this
        simp [h1, h2, show ¬ a < b by omega, show b < a by omega]
      · have : ah = bh := by omega
        subst this
        simp only [Nat.lt_irrefl, if_false]
        by_cases h3 : al < bl
        · simp [h3, show a < b by omega]
        · by_cases h4 : bl < al
          · simp [h3, h4, show ¬ a < b by omega, show b < a by omega]
          · simp [h3, h4, show ¬ a < b by omega, show ¬ b < a by omega]

theorem be_inj (w a b : Nat) (ha : a < 256 ^ w) (hb : b < 256 ^ w) (h : be a w = be b w) : a = b := by
  have h1 := bytesLt_be w a b [] [] ha hb
  have h2 := bytesLt_be w b a [] [] hb ha
  rw [h, bytesLt_irrefl] at h1
  rw [h, bytesLt_irrefl] at h2
  by_cases hab : a < b
  · simp [hab] at h1
  · by_cases hba : b < a
    · simp [hba] at h2
    · omega

/-- a common prefix does not matter -/
theorem bytesLt_append_left (p x y : List Nat) : bytesLt (p ++ x) (p ++ y) = bytesLt x y := by
  induction p with
  | nil => rfl
  | cons a r ih => simp [bytesLt_cons, ih]

/-! ## `sortRows` sorts -/

/-- `x ≤ y` on rows (by key bytes) -/
def rowLe (x y : Key × Val) : Prop := bytesLt y.1.bytes x.1.bytes = false
/-- `x < y` on rows (by key bytes) -/
def rowLt (x y : Key × Val) : Prop := bytesLt x.1.bytes y.1.bytes = true

theorem insertRow_sorted (r : Key × Val) (l : List (Key × Val)) (h : l.Pairwise rowLe) :
    (insertRow r l).Pairwise rowLe := by
  induction l with
  | nil => simp [insertRow]
  | cons x xs ih =>
    rw [List.pairwise_cons] at h
    unfold insertRow
    split
    · rename_i hlt
      rw [List.pairwise_cons]
      refine ⟨?_, List.pairwise_cons.mpr h⟩
      intro y hy
      rw [List.mem_cons] at hy
      rcases hy with rfl | hy
      · exact bytesLt_asymm _ _ hlt
      · have hxy : rowLe x y := h.1 y hy
        -- r < x ≤ y
        unfold rowLe at hxy ⊢
        cases hyr : bytesLt y.1.bytes r.1.bytes with
        | false => rfl
        | true =>
          have := bytesLt_trans _ _ _ hyr hlt
          rw [hxy] at this; cases this
    · rename_i hnlt
      rw [List.pairwise_cons]
      refine ⟨?_, ih h.2⟩
      intro y hy
      rw [mem_insertRow] at hy
      rcases hy with rfl | hy
      · unfold rowLe; simpa using hnlt
      · exact h.1 y hy

theorem sortRows_sorted (l : List (Key × Val)) : (sortRows l).Pairwise rowLe := by
  induction l with
  | nil => simp [sortRows]
  | cons a t ih => exact insertRow_sorted a _ ih

theorem insertRow_strict (r : Key × Val) (l : List (Key × Val)) (h : l.Pairwise rowLt)
    (hne : ∀ x ∈ l, x.1.bytes ≠ r.1.bytes) : (insertRow r l).Pairwise rowLt := by
  induction l with
  | nil => simp [insertRow]
  | cons x xs ih =>
    rw [List.pairwise_cons] at h
    unfold insertRow
    split
    · rename_i hlt
      rw [List.pairwise_cons]
      refine ⟨?_, List.pairwise_cons.mpr h⟩
      intro y hy
      rw [List.mem_cons] at hy
      rcases hy with rfl | hy
      · exact hlt
      · exact bytesLt_trans _ _ _ hlt (h.1 y hy)
    · rename_i hnlt
      rw [List.pairwise_cons]
      refine ⟨?_, ih h.2 (fun y hy => hne y (by simp [hy]))⟩
      intro y hy
      rw [mem_insertRow] at hy
      rcases hy with rfl | hy
      · unfold rowLt
        cases hxr : bytesLt x.1.bytes y.1.bytes with
        | true => rfl
        | false =>
          have hnlt' : bytesLt y.1.bytes x.1.bytes = false := by simpa using hnlt
          exact absurd (bytesLt_trichotomy _ _ hxr hnlt') (hne x (by simp))
      · exact h.1 y hy

/-- when the key bytes are pairwise distinct the iteration order is STRICTLY ascending -/
theorem sortRows_strict (l : List (Key × Val)) (h : l.Pairwise fun x y => x.1.bytes ≠ y.1.bytes) :
    (sortRows l).Pairwise rowLt := by
  induction l with
  | nil => simp [sortRows]
  | cons a t ih =>
    rw [List.pairwise_cons] at h
    apply insertRow_strict a _ (ih h.2)
    intro x hx
    rw [mem_sortRows] at hx
    exact fun heq => h.1 x hx heq.symm

end CkbVerif.Indexer
