import CkbVerif.Model.Hash
/-!
# CBMT lemmas (C15): the root of `CBMT::build_merkle_root` is injective

* same number of leaves: only `merge` injective is needed (the tree shape is a function of the count);
* any number of leaves: additionally no leaf is a `merge` output (and `zero` is neither) — shown by
  running the very same algorithm in the free term algebra `Tm` (homomorphism lemma), where the
  number of atoms of the root term is the number of leaves.
-/
namespace CkbVerif.Hash
open CkbVerif.Molecule

def Injective2 {α : Type} (merge : α → α → α) : Prop :=
  ∀ a b c d, merge a b = merge c d → a = c ∧ b = d

section same_length
variable {α : Type} (merge : α → α → α)

theorem rchunks_length : ∀ (r : List α),
    (rchunks merge r).1.length = r.length / 2 ∧ ((rchunks merge r).2.isSome = true ↔ r.length % 2 = 1)
  | [] => by simp [rchunks]
  | [x] => by simp [rchunks]
  | a :: b :: rest => by
    have ih := rchunks_length rest
    simp only [rchunks, List.length_cons]
    refine ⟨by omega, ?_⟩
    rw [ih.2]; omega

theorem rchunks_inj (hinj : Injective2 merge) : ∀ (r1 r2 : List α), r1.length = r2.length →
    rchunks merge r1 = rchunks merge r2 → r1 = r2
  | [], [], _, _ => rfl
  | [x], [y], _, h => by
    simp only [rchunks, Prod.mk.injEq, Option.some.injEq, true_and] at h
    rw [h]
  | a :: b :: r1, c :: d :: r2, hl, h => by
    simp only [rchunks, Prod.mk.injEq, List.cons.injEq] at h
    obtain ⟨⟨hm, hq⟩, hr⟩ := h
    have := hinj _ _ _ _ hm
    have ih := rchunks_inj hinj r1 r2 (by simp only [List.length_cons] at hl; omega) (Prod.ext hq hr)
    rw [this.1, this.2, ih]
  | [], _ :: _, hl, _ => by simp at hl
  | _ :: _, [], hl, _ => by simp at hl
  | [_], _ :: _ :: _, hl, _ => by simp at hl
  | _ :: _ :: _, [_], hl, _ => by simp at hl

theorem initQueue_length (l : List α) : (initQueue merge l).length = l.length / 2 + l.length % 2 := by
  have h := rchunks_length merge l.reverse
  simp only [List.length_reverse] at h
  unfold initQueue
  cases hrem : (rchunks merge l.reverse).2 with
  | none =>
    have : ¬ l.length % 2 = 1 := by
      intro hc; have := h.2.mpr hc; rw [hrem] at this; simp at this
    simp only [h.1]; omega
  | some x =>
    have : l.length % 2 = 1 := h.2.mp (by rw [hrem]; rfl)
    simp only [List.length_cons, h.1]; omega

theorem initQueue_ne_nil (l : List α) (hl : l ≠ []) : initQueue merge l ≠ [] := by
  intro hc
  have h := initQueue_length merge l
  rw [hc] at h
  have : 0 < l.length := List.length_pos_iff.mpr hl
  simp only [List.length_nil] at h
  omega

theorem initQueue_inj (hinj : Injective2 merge) (l1 l2 : List α) (hlen : l1.length = l2.length)
    (h : initQueue merge l1 = initQueue merge l2) : l1 = l2 := by
  have h1 := rchunks_length merge l1.reverse
  have h2 := rchunks_length merge l2.reverse
  simp only [List.length_reverse] at h1 h2
  have hr : rchunks merge l1.reverse = rchunks merge l2.reverse := by
    unfold initQueue at h
    cases e1 : (rchunks merge l1.reverse).2 with
    | none =>
      cases e2 : (rchunks merge l2.reverse).2 with
      | none =>
        rw [e1, e2] at h
        exact Prod.ext h (by rw [e1, e2])
      | some y =>
        exfalso
        have p2 : l2.length % 2 = 1 := h2.2.mp (by rw [e2]; rfl)
        have p1 : ¬ l1.length % 2 = 1 := by
          intro hc; have := h1.2.mpr hc; rw [e1] at this; simp at this
        omega
    | some x =>
      cases e2 : (rchunks merge l2.reverse).2 with
      | none =>
        exfalso
        have p1 : l1.length % 2 = 1 := h1.2.mp (by rw [e1]; rfl)
        have p2 : ¬ l2.length % 2 = 1 := by
          intro hc; have := h2.2.mpr hc; rw [e2] at this; simp at this
        omega
      | some y =>
        rw [e1, e2] at h
        simp only [List.cons.injEq] at h
        exact Prod.ext h.2 (by rw [e1, e2, h.1])
  have := rchunks_inj merge hinj l1.reverse l2.reverse (by simp [hlen]) hr
  have := congrArg List.reverse this
  simpa using this

theorem reduceQ_some : ∀ (f : Nat) (q : List α), q ≠ [] → q.length ≤ f + 1 → ∃ a, reduceQ merge f q = some a
  | _, [], h, _ => absurd rfl h
  | f, [x], _, _ => ⟨x, by cases f <;> rfl⟩
  | 0, _ :: _ :: _, _, hl => by simp at hl
  | f + 1, r :: l :: rest, _, hl => by
    simp only [reduceQ]
    exact reduceQ_some f (rest ++ [merge l r]) (by simp) (by simp only [List.length_append, List.length_cons, List.length_nil] at hl ⊢; omega)

theorem reduceQ_inj (hinj : Injective2 merge) : ∀ (f : Nat) (q1 q2 : List α) (a : α), q1.length = q2.length →
    reduceQ merge f q1 = some a → reduceQ merge f q2 = some a → q1 = q2
  | _, [], [], _, _, _, _ => rfl
  | f, [x], [y], a, _, h1, h2 => by
    have e1 : reduceQ merge f [x] = some x := by cases f <;> rfl
    have e2 : reduceQ merge f [y] = some y := by cases f <;> rfl
    rw [e1] at h1; rw [e2] at h2
    rw [Option.some.inj h1, Option.some.inj h2]
  | 0, _ :: _ :: _, _, _, _, h1, _ => by simp [reduceQ] at h1
  | f + 1, r1 :: l1 :: rest1, r2 :: l2 :: rest2, a, hl, h1, h2 => by
    simp only [reduceQ] at h1 h2
    have ih := reduceQ_inj hinj f (rest1 ++ [merge l1 r1]) (rest2 ++ [merge l2 r2]) a
      (by simp only [List.length_append, List.length_cons, List.length_nil] at hl ⊢; omega) h1 h2
    have := List.append_inj' ih rfl
    have hm := hinj _ _ _ _ (List.cons.inj this.2).1
    rw [this.1, hm.1, hm.2]
  | _, [], _ :: _, _, hl, _, _ => by simp at hl
  | _, _ :: _, [], _, hl, _, _ => by simp at hl
  | _, [_], _ :: _ :: _, _, hl, _, _ => by simp at hl
  | _, _ :: _ :: _, [_], _, hl, _, _ => by simp at hl

/-- on a non-empty leaf list the root is what the queue loop returns -/
theorem cbmtRoot_eq_reduce (zero : α) (l : List α) (hl : l ≠ []) :
    reduceQ merge l.length (initQueue merge l) = some (cbmtRoot merge zero l) := by
  have hq := initQueue_ne_nil merge l hl
  have hlen := initQueue_length merge l
  obtain ⟨a, ha⟩ := reduceQ_some merge l.length (initQueue merge l) hq (by omega)
  unfold cbmtRoot
  have : l.isEmpty = false := by cases l <;> simp_all
  rw [this, ha]; rfl

theorem cbmtRoot_inj_same_length (hinj : Injective2 merge) (zero : α) (l1 l2 : List α)
    (hlen : l1.length = l2.length) (h : cbmtRoot merge zero l1 = cbmtRoot merge zero l2) : l1 = l2 := by
  by_cases h1 : l1 = []
  · subst h1
    cases l2 with
    | nil => rfl
    | cons => simp at hlen
  · have h2 : l2 ≠ [] := by
      intro hc; subst hc
      exact h1 (List.length_eq_zero_iff.mp (by simpa using hlen))
    have e1 := cbmtRoot_eq_reduce merge zero l1 h1
    have e2 := cbmtRoot_eq_reduce merge zero l2 h2
    rw [h, hlen] at e1
    have hq := reduceQ_inj merge hinj l2.length _ _ _
      (by rw [initQueue_length, initQueue_length, hlen]) e1 e2
    exact initQueue_inj merge hinj l1 l2 hlen hq

end same_length

/-! ## homomorphisms: the algorithm commutes with any map that commutes with `merge` -/

section hom
variable {α β : Type} (mα : α → α → α) (mβ : β → β → β) (φ : β → α)
  (hφ : ∀ a b, φ (mβ a b) = mα (φ a) (φ b))
include hφ

theorem rchunks_map : ∀ (r : List β),
    rchunks mα (r.map φ) = (((rchunks mβ r).1).map φ, ((rchunks mβ r).2).map φ)
  | [] => rfl
  | [_] => rfl
  | a :: b :: rest => by
    have ih := rchunks_map rest
    simp only [List.map_cons, rchunks, ih, hφ]

theorem initQueue_map (l : List β) : initQueue mα (l.map φ) = (initQueue mβ l).map φ := by
  unfold initQueue
  rw [← List.map_reverse, rchunks_map mα mβ φ hφ]
  cases (rchunks mβ l.reverse).2 <;> simp

theorem reduceQ_map : ∀ (f : Nat) (q : List β), reduceQ mα f (q.map φ) = (reduceQ mβ f q).map φ
  | _, [] => by simp [reduceQ]
  | f, [x] => by cases f <;> simp [reduceQ]
  | 0, _ :: _ :: _ => by simp [reduceQ]
  | f + 1, r :: l :: rest => by
    have ih := reduceQ_map f (rest ++ [mβ l r])
    simp only [List.map_cons, reduceQ]
    rw [← ih]
    simp [hφ]

theorem cbmtRoot_map (zero : β) (l : List β) :
    cbmtRoot mα (φ zero) (l.map φ) = φ (cbmtRoot mβ zero l) := by
  unfold cbmtRoot
  cases l with
  | nil => rfl
  | cons x xs =>
    simp only [List.map_cons, List.isEmpty_cons, Bool.false_eq_true, if_false, List.length_cons, List.length_map]
    have := reduceQ_map mα mβ φ hφ (xs.length + 1) (initQueue mβ (x :: xs))
    rw [← initQueue_map mα mβ φ hφ] at this
    simp only [List.map_cons] at this
    rw [this]
    cases reduceQ mβ (xs.length + 1) (initQueue mβ (x :: xs)) <;> rfl

end hom

/-! ## the free merge-term algebra and the length binding -/

inductive Tm (α : Type)
  | atom (a : α)
  | node (l r : Tm α)

namespace Tm
variable {α : Type}

def eval (merge : α → α → α) : Tm α → α
  | atom a => a
  | node l r => merge (eval merge l) (eval merge r)

def atoms : Tm α → List α
  | atom a => [a]
  | node l r => atoms l ++ atoms r

theorem node_inj2 : Injective2 (Tm.node : Tm α → Tm α → Tm α) := by
  intro a b c d h
  cases h; exact ⟨rfl, rfl⟩

/-- terms whose atoms are never `merge` outputs evaluate injectively when `merge` is injective -/
theorem eval_inj (merge : α → α → α) (hinj : Injective2 merge) :
    ∀ (t1 t2 : Tm α), (∀ x ∈ t1.atoms, ∀ a b, x ≠ merge a b) → (∀ x ∈ t2.atoms, ∀ a b, x ≠ merge a b) →
      eval merge t1 = eval merge t2 → t1 = t2
  | atom a, atom b, _, _, h => by simp only [eval] at h; rw [h]
  | atom a, node l r, h1, _, h => by
    simp only [eval] at h
    exact absurd h (h1 a (by simp [atoms]) _ _)
  | node l r, atom b, _, h2, h => by
    simp only [eval] at h
    exact absurd h.symm (h2 b (by simp [atoms]) _ _)
  | node l1 r1, node l2 r2, h1, h2, h => by
    simp only [eval] at h
    have := hinj _ _ _ _ h
    have hl := eval_inj merge hinj l1 l2 (fun x hx => h1 x (by simp [atoms, hx])) (fun x hx => h2 x (by simp [atoms, hx])) this.1
    have hr := eval_inj merge hinj r1 r2 (fun x hx => h1 x (by simp [atoms, hx])) (fun x hx => h2 x (by simp [atoms, hx])) this.2
    rw [hl, hr]

end Tm

section perm
variable {α : Type}

theorem rchunks_atoms : ∀ (r : List (Tm α)),
    (((rchunks Tm.node r).1.flatMap Tm.atoms) ++ ((rchunks Tm.node r).2.toList.flatMap Tm.atoms)).Perm
      (r.flatMap Tm.atoms)
  | [] => by simp [rchunks]
  | [x] => by simp [rchunks]
  | a :: b :: rest => by
    have ih := rchunks_atoms rest
    simp only [rchunks, List.flatMap_cons, Tm.atoms, List.append_assoc]
    -- (atoms b ++ atoms a) ++ (Q ++ R)  ~  atoms a ++ (atoms b ++ REST)
    refine List.Perm.trans ?_ (List.Perm.append_left _ (List.Perm.append_left _ ih))
    rw [← List.append_assoc, ← List.append_assoc (Tm.atoms a)]
    exact List.Perm.append_right _ List.perm_append_comm

theorem initQueue_atoms (l : List (Tm α)) :
    ((initQueue Tm.node l).flatMap Tm.atoms).Perm (l.flatMap Tm.atoms) := by
  have h := rchunks_atoms l.reverse
  have hrev : (l.reverse.flatMap Tm.atoms).Perm (l.flatMap Tm.atoms) :=
    (List.reverse_perm l).flatMap_right _
  refine List.Perm.trans ?_ (h.trans hrev)
  unfold initQueue
  cases (rchunks Tm.node l.reverse).2 with
  | none => simp
  | some x =>
    simp only [List.flatMap_cons, Option.toList_some, List.flatMap_nil, List.append_nil]
    exact List.perm_append_comm

theorem reduceQ_atoms : ∀ (f : Nat) (q : List (Tm α)) (t : Tm α), reduceQ Tm.node f q = some t →
    t.atoms.Perm (q.flatMap Tm.atoms)
  | _, [], _, h => by simp [reduceQ] at h
  | f, [x], t, h => by
    have e : reduceQ Tm.node f [x] = some x := by cases f <;> rfl
    rw [e] at h; cases h; simp
  | 0, _ :: _ :: _, _, h => by simp [reduceQ] at h
  | f + 1, r :: l :: rest, t, h => by
    simp only [reduceQ] at h
    have ih := reduceQ_atoms f _ t h
    refine ih.trans ?_
    simp only [List.flatMap_append, List.flatMap_cons, List.flatMap_nil, Tm.atoms, List.append_nil]
    -- REST ++ (atoms l ++ atoms r) ~ atoms r ++ (atoms l ++ REST)
    refine List.perm_append_comm.trans ?_
    refine (List.Perm.append_right _ List.perm_append_comm).trans ?_
    rw [List.append_assoc]

theorem flatMap_atoms_map_atom (l : List α) : (l.map Tm.atom).flatMap Tm.atoms = l := by
  induction l with
  | nil => rfl
  | cons x xs ih => simp [Tm.atoms, ih]

/-- the root term over `n ≥ 1` atoms has exactly those atoms -/
theorem tmRoot_atoms (z : Tm α) (l : List α) (hl : l ≠ []) :
    (cbmtRoot Tm.node z (l.map Tm.atom)).atoms.Perm l := by
  have hne : l.map Tm.atom ≠ [] := by simpa using hl
  have e := cbmtRoot_eq_reduce Tm.node z (l.map Tm.atom) hne
  have h1 := reduceQ_atoms _ _ _ e
  have h2 := initQueue_atoms (l.map (Tm.atom))
  rw [flatMap_atoms_map_atom] at h2
  exact h1.trans h2

end perm

section any_length
variable {α : Type} (merge : α → α → α)

/-- the real root is the evaluation of the root TERM -/
theorem cbmtRoot_eval (zero : α) (l : List α) :
    cbmtRoot merge zero l = Tm.eval merge (cbmtRoot Tm.node (Tm.atom zero) (l.map Tm.atom)) := by
  have := cbmtRoot_map merge Tm.node (Tm.eval merge) (fun _ _ => rfl) (Tm.atom zero) (l.map Tm.atom)
  simp only [List.map_map] at this
  have hid : (Tm.eval merge ∘ Tm.atom) = id := rfl
  rw [hid, List.map_id] at this
  exact this

/-- **Length binding.**  If no leaf is a `merge` output or `zero`, and `zero` is not a `merge`
output, the root determines the leaf list, whatever the two lengths. -/
theorem cbmtRoot_inj_any_length (hinj : Injective2 merge) (zero : α)
    (hz : ∀ a b, merge a b ≠ zero) (l1 l2 : List α)
    (h1 : ∀ x ∈ l1, x ≠ zero ∧ ∀ a b, x ≠ merge a b) (h2 : ∀ x ∈ l2, x ≠ zero ∧ ∀ a b, x ≠ merge a b)
    (h : cbmtRoot merge zero l1 = cbmtRoot merge zero l2) : l1 = l2 := by
  -- a non-empty list never has root `zero`
  have nz : ∀ (l : List α), l ≠ [] → (∀ x ∈ l, x ≠ zero ∧ ∀ a b, x ≠ merge a b) → cbmtRoot merge zero l ≠ zero := by
    intro l hl hx
    rw [cbmtRoot_eval]
    have hp := tmRoot_atoms (Tm.atom zero) l hl
    cases ht : cbmtRoot Tm.node (Tm.atom zero) (l.map Tm.atom) with
    | atom a =>
      rw [ht] at hp
      have : a ∈ l := hp.subset (by simp [Tm.atoms])
      simpa [Tm.eval] using (hx a this).1
    | node l r => simpa [Tm.eval] using hz _ _
  by_cases e1 : l1 = []
  · subst e1
    by_cases e2 : l2 = []
    · exact e2.symm
    · exact absurd h.symm (by simpa [cbmtRoot] using nz l2 e2 h2)
  · by_cases e2 : l2 = []
    · subst e2
      exact absurd h (by simpa [cbmtRoot] using nz l1 e1 h1)
    · have p1 := tmRoot_atoms (Tm.atom zero) l1 e1
      have p2 := tmRoot_atoms (Tm.atom zero) l2 e2
      rw [cbmtRoot_eval merge zero l1, cbmtRoot_eval merge zero l2] at h
      have ht := Tm.eval_inj merge hinj _ _
        (fun x hx => (h1 x (p1.subset hx)).2) (fun x hx => (h2 x (p2.subset hx)).2) h
      have hlen : l1.length = l2.length := by
        rw [← p1.length_eq, ← p2.length_eq, ht]
      have := cbmtRoot_inj_same_length Tm.node Tm.node_inj2 (Tm.atom zero) _ _ (by simp [hlen]) ht
      exact (List.map_inj_right (fun _ _ hab => by cases hab; rfl)).mp this

end any_length

/-- **No domain separation.**  For EVERY `merge`, the two-leaf list `[merge b c, a]` and the
three-leaf list `[a, b, c]` have the same root: a leaf that is itself an inner-node value makes
lists of different lengths collide structurally. -/
theorem cbmt_structural_collision {α : Type} (merge : α → α → α) (zero a b c : α) :
    cbmtRoot merge zero [merge b c, a] = cbmtRoot merge zero [a, b, c] := rfl

end CkbVerif.Hash
