import CkbVerif.Lemmas.Restart

/-!
Helper lemmas for C01's restart and panic theorems (`Props/C01Restart.lean`):
* a restart is `crash` followed by ordinary deliveries (`restart_eq_run`), a history with restarts is a
  plain history (`expand`, `rrun_eq_run`);
* deliveries never touch the chain data (`run_delivers_sameChain`);
* `QueueStored`: the invariant behind `no_panic_first_deliveries_partial` (every queued or pooled block
  has its data, no block is queued twice) and its preservation by every step of a history without a
  second delivery of a block.
-/
namespace CkbVerif.C01
open CkbVerif.Chain CkbVerif.Gen.Chain

/-- the deliveries `InitLoadUnverified` performs on the database the stopped process left behind -/
def scanOps (T : Tree) (mel : Nat) (order : List Nat) (s : State) : List Op :=
  (scanList T mel order (crash s)).map fun b => Op.deliver b []

theorem foldl_deliver_eq_run (T : Tree) : ∀ (l : List Nat) (acc : State × Out),
    (l.foldl (fun (acc : State × Out) b => let r := deliver T [] acc.1 b; (r.1, acc.2 ++ r.2)) acc).1
      = run T acc.1 (l.map fun b => Op.deliver b []) := by
  intro l
  induction l with
  | nil => intro acc; rfl
  | cons x xs ih => intro acc; simp only [List.foldl_cons, List.map_cons]; rw [ih]; rfl

/-- a restart is `crash` followed by ordinary deliveries -/
theorem restart_eq_run (T : Tree) (mel : Nat) (order : List Nat) (s : State) :
    (restart T mel order s).1 = run T (crash s) (scanOps T mel order s) := by
  unfold restart scanOps
  exact foldl_deliver_eq_run T _ _

/-- the plain operation sequence a history with restarts amounts to -/
def expand (T : Tree) : State → List ROp → List Op
  | _, [] => []
  | s, .op o :: r => o :: expand T (step T s o).1 r
  | s, .restart mel order :: r =>
    (Op.crash :: scanOps T mel order s) ++ expand T (restart T mel order s).1 r

theorem rrun_eq_run (T : Tree) : ∀ (rops : List ROp) (s : State), rrun T s rops = run T s (expand T s rops) := by
  intro rops
  induction rops with
  | nil => intro s; rfl
  | cons op r ih =>
    intro s
    cases op with
    | op o => exact ih _
    | restart mel order =>
      show rrun T (restart T mel order s).1 r = run T s ((Op.crash :: scanOps T mel order s) ++ expand T (restart T mel order s).1 r)
      rw [ih, run_append]
      congr 1
      exact restart_eq_run T mel order s

theorem rrun_ops (T : Tree) : ∀ (ops : List Op) (s : State), rrun T s (ops.map ROp.op) = run T s ops := by
  intro ops
  induction ops with
  | nil => intro s; rfl
  | cons o r ih => intro s; exact ih _

theorem run_delivers_sameChain (T : Tree) : ∀ (l : List Nat) (s : State),
    SameChain s (run T s (l.map fun b => Op.deliver b [])) := by
  intro l
  induction l with
  | nil => intro s; exact SameChain.refl s
  | cons x xs ih => intro s; exact (deliver_sameChain T [] s x).trans (ih _)

theorem delivered_scanOps (T : Tree) (mel : Nat) (order : List Nat) (s : State) :
    delivered (scanOps T mel order s) = scanList T mel order (crash s) := by
  unfold scanOps
  induction scanList T mel order (crash s) with
  | nil => rfl
  | cons x xs ih => simp [delivered, ih]

theorem crashFree_scanOps (T : Tree) (mel : Nat) (order : List Nat) (s : State) :
    crashFree (scanOps T mel order s) := by
  intro op hop
  unfold scanOps at hop
  obtain ⟨x, _, rfl⟩ := List.mem_map.mp hop
  exact fun hc => Op.noConfusion hc

/-- every queued or pooled block has its data in the database, no block is queued twice, none is queued
and pooled at once -/
structure QueueStored (s : State) : Prop where
  q : ∀ b ∈ s.queue, s.stored b = true
  p : ∀ b ∈ s.pool, s.stored b = true
  nodup : s.queue.Nodup
  disj : ∀ b ∈ s.queue, b ∉ s.pool

theorem qs_init (T : Tree) : QueueStored (init T) :=
  ⟨by simp [init], by simp [init], by simp [init], by simp [init]⟩

theorem qs_stepPool {T : Tree} {pool0 : List Nat} (acc : State × Out) (c : Nat) (h : QueueStored acc.1) :
    QueueStored (stepPool T pool0 acc c).1 := by
  have hact := stepPool_act T pool0 acc c
  generalize stepPool T pool0 acc c = r at hact ⊢
  cases hact with
  | skip _ => exact h
  | accept hc _ =>
    have hcq : c ∉ acc.1.queue := fun hq => h.disj c hq hc
    refine ⟨?_, ?_, ?_, ?_⟩
    · intro b hb
      simp only [enqueue, unpool, List.mem_append, List.mem_singleton] at hb
      rcases hb with hb | hb
      · exact h.q b hb
      · rw [hb]; exact h.p c hc
    · intro b hb
      simp only [enqueue, unpool, List.mem_filter] at hb
      exact h.p b hb.1
    · simp only [enqueue, unpool, List.nodup_append]
      refine ⟨h.nodup, by simp, ?_⟩
      intro a ha b hb
      simp only [List.mem_singleton] at hb
      rw [hb]; exact fun hac => hcq (hac ▸ ha)
    · intro b hb
      simp only [enqueue, unpool, List.mem_append, List.mem_singleton] at hb
      simp only [enqueue, unpool, List.mem_filter, bne_iff_ne, ne_eq, not_and, Decidable.not_not]
      rcases hb with hb | hb
      · intro hbp; exact absurd hbp (h.disj b hb)
      · intro _; exact hb
  | reject hc _ =>
    have hcq : c ∉ acc.1.queue := fun hq => h.disj c hq hc
    refine ⟨?_, ?_, ?_, ?_⟩
    · intro b hb
      have hb' : b ∈ acc.1.queue := hb
      have hbc : b ≠ c := fun e => hcq (e ▸ hb')
      show upd acc.1.stored c false b = true
      rw [upd_other _ _ hbc]; exact h.q b hb'
    · intro b hb
      simp only [rejectBlk, unpool, List.mem_filter, bne_iff_ne, ne_eq] at hb
      show upd acc.1.stored c false b = true
      rw [upd_other _ _ hb.2]; exact h.p b hb.1
    · exact h.nodup
    · intro b hb
      have hb' : b ∈ acc.1.queue := hb
      simp only [rejectBlk, unpool, List.mem_filter, not_and]
      intro hbp; exact absurd hbp (h.disj b hb')

theorem qs_search {T : Tree} (hint : List Nat) (s : State) (h : QueueStored s) :
    QueueStored (search T hint s).1 := by
  unfold search
  exact foldl_preserves (stepPool T s.pool) (fun acc => QueueStored acc.1)
    (fun acc c ih => qs_stepPool acc c ih) _ _ h

theorem qs_deliver {T : Tree} (hint : List Nat) (s : State) (b : Nat) (h : QueueStored s)
    (hq : b ∉ s.queue) (hp : b ∉ s.pool) : QueueStored (deliver T hint s b).1 := by
  unfold deliver
  by_cases hb : b = 0
  · simp only [hb, if_true]; exact h
  · simp only [hb, if_false]
    by_cases hnc : T.nc b = true
    · simp only [hnc, Bool.not_true, Bool.false_eq_true, if_false]
      apply qs_search
      generalize hs1 : ({ s with seen := upd s.seen b true, stored := upd s.stored b true, commits := s.commits + 1 } : State) = s1
      have e1 : s1.queue = s.queue := by rw [← hs1]
      have e2 : s1.pool = s.pool := by rw [← hs1]
      have e3 : s1.stored = upd s.stored b true := by rw [← hs1]
      have st : ∀ x, s.stored x = true → s1.stored x = true := by
        intro x hx; rw [e3]
        by_cases hxb : x = b
        · rw [hxb]; simp
        · rw [upd_other _ _ hxb]; exact hx
      have stb : s1.stored b = true := by rw [e3]; simp
      have h1 : QueueStored s1 :=
        ⟨fun x hx => st x (h.q x (e1 ▸ hx)), fun x hx => st x (h.p x (e2 ▸ hx)), e1 ▸ h.nodup,
          fun x hx => by rw [e2]; exact h.disj x (e1 ▸ hx)⟩
      have hq1 : b ∉ s1.queue := by rw [e1]; exact hq
      have hp1 : b ∉ s1.pool := by rw [e2]; exact hp
      have hact := route_act T s1 b
      generalize route T s1 b = r at hact ⊢
      cases hact with
      | accept _ =>
        refine ⟨?_, h1.p, ?_, ?_⟩
        · intro x hx
          simp only [enqueue, List.mem_append, List.mem_singleton] at hx
          rcases hx with hx | hx
          · exact h1.q x hx
          · rw [hx]; exact stb
        · simp only [enqueue, List.nodup_append]
          refine ⟨h1.nodup, by simp, ?_⟩
          intro a ha x hx
          simp only [List.mem_singleton] at hx
          rw [hx]; exact fun hab => hq1 (hab ▸ ha)
        · intro x hx
          simp only [enqueue, List.mem_append, List.mem_singleton] at hx
          rcases hx with hx | hx
          · exact h1.disj x hx
          · rw [hx]; exact hp1
      | reject _ _ =>
        refine ⟨?_, ?_, h1.nodup, h1.disj⟩
        · intro x hx
          have hx' : x ∈ s1.queue := hx
          have hxb : x ≠ b := fun e => hq1 (e ▸ hx')
          show upd s1.stored b false x = true
          rw [upd_other _ _ hxb]; exact h1.q x hx'
        · intro x hx
          have hx' : x ∈ s1.pool := hx
          have hxb : x ≠ b := fun e => hp1 (e ▸ hx')
          show upd s1.stored b false x = true
          rw [upd_other _ _ hxb]; exact h1.p x hx'
      | dup _ _ _ => exact h1
      | hold _ _ _ =>
        refine ⟨h1.q, ?_, h1.nodup, ?_⟩
        · intro x hx
          have hx' : x ∈ b :: s1.pool := hx
          rcases List.mem_cons.mp hx' with e | e
          · rw [e]; exact stb
          · exact h1.p x e
        · intro x hx
          have hx' : x ∈ s1.queue := hx
          show x ∉ b :: s1.pool
          intro hm
          rcases List.mem_cons.mp hm with e | e
          · exact hq1 (e ▸ hx')
          · exact h1.disj x hx' e
    · have : T.nc b = false := by simpa using hnc
      simp only [this, Bool.not_false, if_true]
      exact ⟨h.q, h.p, h.nodup, h.disj⟩

theorem qs_verify {T : Tree} (s : State) (h : QueueStored s) : QueueStored (verifyHead T s).1 := by
  have hact := verifyHead_act T s
  generalize verifyHead T s = r at hact ⊢
  have tail : ∀ (b : Nat) (q : List Nat), s.queue = b :: q →
      (∀ x ∈ q, s.stored x = true) ∧ q.Nodup ∧ (∀ x ∈ q, x ∉ s.pool) ∧ b ∉ q ∧ b ∉ s.pool := by
    intro b q hq
    have hn := h.nodup
    rw [hq] at hn
    obtain ⟨hn1, hn2⟩ := List.nodup_cons.mp hn
    refine ⟨fun x hx => h.q x (hq ▸ List.mem_cons_of_mem _ hx), hn2,
      fun x hx => h.disj x (hq ▸ List.mem_cons_of_mem _ hx), hn1, h.disj b (hq ▸ List.mem_cons_self)⟩
  cases hact with
  | empty _ => exact h
  | fail b q hq _ =>
    obtain ⟨t1, t2, t3, t4, t5⟩ := tail b q hq
    refine ⟨?_, ?_, t2, t3⟩
    · intro x hx
      have hx' : x ∈ q := hx
      have hxb : x ≠ b := fun e => t4 (e ▸ hx')
      show upd s.stored b false x = true
      rw [upd_other _ _ hxb]; exact t1 x hx'
    · intro x hx
      have hx' : x ∈ s.pool := hx
      have hxb : x ≠ b := fun e => t5 (e ▸ hx')
      show upd s.stored b false x = true
      rw [upd_other _ _ hxb]; exact h.p x hx'
  | known b q ptd hq _ _ _ _ =>
    obtain ⟨t1, t2, t3, _, _⟩ := tail b q hq
    exact ⟨t1, h.p, t2, t3⟩
  | best b q ptd hq _ _ _ _ =>
    obtain ⟨t1, t2, t3, _, _⟩ := tail b q hq
    exact ⟨t1, h.p, t2, t3⟩
  | side b q ptd hq _ _ _ =>
    obtain ⟨t1, t2, t3, _, _⟩ := tail b q hq
    exact ⟨t1, h.p, t2, t3⟩

theorem qs_stepExpire {T : Tree} {pool0 : List Nat} {e : Nat} (acc : State × List Nat) (c : Nat)
    (h : QueueStored acc.1) : QueueStored (stepExpire T pool0 e acc c).1 := by
  unfold stepExpire
  by_cases hc : c ∈ acc.1.pool
  · simp only [hc, if_true]
    by_cases hg : expGone T pool0 e acc.2 c = true
    · simp only [hg, if_true]
      have hcq : c ∉ acc.1.queue := fun hq => h.disj c hq hc
      refine ⟨?_, ?_, h.nodup, ?_⟩
      · intro b hb
        have hb' : b ∈ acc.1.queue := hb
        have hbc : b ≠ c := fun e => hcq (e ▸ hb')
        show upd acc.1.stored c false b = true
        rw [upd_other _ _ hbc]; exact h.q b hb'
      · intro b hb
        simp only [unpool, List.mem_filter, bne_iff_ne, ne_eq] at hb
        show upd acc.1.stored c false b = true
        rw [upd_other _ _ hb.2]; exact h.p b hb.1
      · intro b hb
        have hb' : b ∈ acc.1.queue := hb
        simp only [unpool, List.mem_filter, not_and]
        intro hbp; exact absurd hbp (h.disj b hb')
    · simp only [hg]; exact h
  · simp only [hc, if_false]; exact h

theorem qs_expire {T : Tree} (s : State) (h : QueueStored s) : QueueStored (expire T s) := by
  unfold expire
  exact foldl_preserves (stepExpire T s.pool (T.epoch s.tip)) (fun acc => QueueStored acc.1)
    (fun acc c ih => qs_stepExpire acc c ih) _ _ h

theorem no_panic_aux (T : Tree) : ∀ (ops : List Op) (p : PState), p.dead = false → QueueStored p.st →
    SeenOk p.st → (∀ b ∈ delivered ops, b ≠ 0 → p.st.seen b = false) → crashFree ops →
    (delivered ops).Nodup →
    (prun T p ops).dead = false ∧ (prun T p ops).st = run T p.st ops := by
  intro ops
  induction ops with
  | nil => intro p hd _ _ _ _ _; exact ⟨hd, rfl⟩
  | cons op ops ih =>
    intro p hd hqs hk hfresh hcf hnd
    have hcf' : crashFree ops := fun o ho => hcf o (List.mem_cons_of_mem _ ho)
    cases op with
    | deliver x hint =>
      simp only [delivered, List.nodup_cons] at hnd
      have hstep : pstep T p (.deliver x hint) = { p with st := (deliver T hint p.st x).1 } := rfl
      show (prun T (pstep T p (.deliver x hint)) ops).dead = false ∧
        (prun T (pstep T p (.deliver x hint)) ops).st = run T (deliver T hint p.st x).1 ops
      rw [hstep]
      have hx : x ≠ 0 → x ∉ p.st.queue ∧ x ∉ p.st.pool := by
        intro hx0
        have hs := hfresh x (by simp [delivered]) hx0
        refine ⟨fun hm => ?_, fun hm => ?_⟩
        · rw [hk.queue x hm] at hs; exact absurd hs (by simp)
        · rw [hk.pool x hm] at hs; exact absurd hs (by simp)
      have hqs' : QueueStored (deliver T hint p.st x).1 := by
        by_cases hx0 : x = 0
        · subst hx0; unfold deliver; simp only [if_true]; exact hqs
        · exact qs_deliver hint p.st x hqs (hx hx0).1 (hx hx0).2
      refine ih { p with st := (deliver T hint p.st x).1 } hd hqs' (seenOk_deliver hk hint x) ?_ hcf' hnd.2
      intro b hb hb0
      show (deliver T hint p.st x).1.seen b = false
      rw [deliver_seen]
      have hbx : b ≠ x := fun e => hnd.1 (e ▸ hb)
      have hs := hfresh b (by simp [delivered, hb]) hb0
      by_cases hx0 : x = 0
      · simp only [hx0, if_true]; exact hs
      · simp only [hx0, if_false]; rw [upd_other _ _ hbx]; exact hs
    | verify =>
      have hnp : verifyPanics p.st = false := by
        unfold verifyPanics
        cases hq : p.st.queue with
        | nil => rfl
        | cons b q => simp only []; rw [hqs.q b (hq ▸ List.mem_cons_self)]; rfl
      have hstep : pstep T p .verify = { p with st := (verifyHead T p.st).1 } := by
        simp only [pstep, hd, hnp, Bool.false_eq_true, if_false]
      show (prun T (pstep T p .verify) ops).dead = false ∧
        (prun T (pstep T p .verify) ops).st = run T (verifyHead T p.st).1 ops
      rw [hstep]
      refine ih { p with st := (verifyHead T p.st).1 } hd (qs_verify p.st hqs) (seenOk_verify hk) ?_ hcf' hnd
      intro b hb hb0
      show (verifyHead T p.st).1.seen b = false
      rw [verify_seen]; exact hfresh b hb hb0
    | expire =>
      have hstep : pstep T p .expire = { p with st := expire T p.st } := rfl
      show (prun T (pstep T p .expire) ops).dead = false ∧
        (prun T (pstep T p .expire) ops).st = run T (expire T p.st) ops
      rw [hstep]
      refine ih { p with st := expire T p.st } hd (qs_expire p.st hqs) (seenOk_step (T := T) hk .expire) ?_ hcf' hnd
      intro b hb hb0
      show (expire T p.st).seen b = false
      rw [expire_seen]; exact hfresh b hb hb0
    | crash => exact absurd rfl (hcf Op.crash List.mem_cons_self)

end CkbVerif.C01
