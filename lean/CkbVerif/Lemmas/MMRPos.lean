import CkbVerif.Model.MMR
/-!
# Position arithmetic of the MMR crate, characterised by the list of peak heights

`hs` is the list of peak heights of an MMR, left to right (strictly decreasing: the binary
decomposition of the leaf count, highest bit first).  `szH hs` is its `mmr_size`.
Main results: `posHeight_spec` (what `pos_height_in_tree` answers at and after the next leaf
position) and `getPeaks_spec` (`get_peaks (szH hs) = peaksAt 0 hs`).
-/
namespace CkbVerif.MMR

theorem two_pow_succ (k : Nat) : 2 ^ (k + 1) = 2 * 2 ^ k := by
  rw [Nat.pow_succ]; omega

theorem two_pow_mono {a b : Nat} (h : a ≤ b) : 2 ^ a ≤ 2 ^ b :=
  Nat.pow_le_pow_right (by decide) h

/-- `mmr_size` of an MMR whose peaks have heights `hs` -/
def szH : List Nat → Nat
  | [] => 0
  | h :: r => (2 ^ (h + 1) - 1) + szH r

/-- strictly decreasing and below `b` -/
def DescB : Nat → List Nat → Prop
  | _, [] => True
  | b, h :: r => h < b ∧ DescB h r

/-- number of merges the next push performs: length of the maximal suffix `[t-1, …, 1, 0]`
(for a strictly decreasing list, `h :: r` is such a suffix iff `h = r.length`) -/
def run : List Nat → Nat
  | [] => 0
  | h :: r => if h = r.length then h + 1 else run r

/-- peak heights after one more leaf (binary increment) -/
def inc : List Nat → List Nat
  | [] => [0]
  | h :: r => if h = r.length then [h + 1] else h :: inc r

theorem DescB_len {b : Nat} {hs : List Nat} (h : DescB b hs) : hs.length ≤ b := by
  induction hs generalizing b with
  | nil => simp
  | cons x r ih =>
    obtain ⟨h1, h2⟩ := h
    have := ih h2
    simp; omega

theorem DescB_mono {b b' : Nat} {hs : List Nat} (h : DescB b hs) (hb : b ≤ b') : DescB b' hs := by
  cases hs with
  | nil => trivial
  | cons x r => exact ⟨by have := h.1; omega, h.2⟩

/-- closed form for the "all ones" case: peaks `[b-1, …, 0]` -/
theorem szH_full {b : Nat} {hs : List Nat} (h : DescB b hs) (hl : hs.length = b) :
    szH hs + b + 2 = 2 ^ (b + 1) := by
  induction hs generalizing b with
  | nil => simp at hl; subst hl; simp [szH]
  | cons x r ih =>
    obtain ⟨h1, h2⟩ := h
    have hr := DescB_len h2
    simp at hl
    have hx : r.length = x := by omega
    have := ih h2 hx
    have hb : b = x + 1 := by omega
    subst hb
    have p1 := two_pow_succ (x + 1)
    have p0 := Nat.two_pow_pos x
    simp only [szH]
    omega

theorem szH_bound {b : Nat} {hs : List Nat} (h : DescB b hs) {j : Nat} (hj : j ≤ run hs) :
    szH hs + j + 2 ≤ 2 ^ (b + 1) := by
  induction hs generalizing b with
  | nil =>
    simp [run] at hj; subst hj
    have := Nat.two_pow_pos b
    have := two_pow_succ b
    simp [szH]; omega
  | cons x r ih =>
    obtain ⟨h1, h2⟩ := h
    have hmono : 2 ^ (x + 1 + 1) ≤ 2 ^ (b + 1) := two_pow_mono (by omega)
    suffices szH (x :: r) + j + 2 ≤ 2 ^ (x + 1 + 1) by omega
    by_cases hf : x = r.length
    · have hfull := szH_full (b := x + 1) (hs := x :: r) ⟨by omega, h2⟩ (by simp; omega)
      simp only [run, hf, if_true] at hj
      rw [← hf] at hj
      omega
    · simp only [run, hf, if_false] at hj
      have := ih h2 hj
      have p1 := two_pow_succ (x + 1)
      have p0 := Nat.two_pow_pos (x + 1)
      simp only [szH]
      omega

theorem run_le_length (hs : List Nat) : run hs ≤ hs.length := by
  induction hs with
  | nil => simp [run]
  | cons x r ih =>
    simp only [run]
    split
    · simp; omega
    · simp; omega

theorem szH_inc {b : Nat} {hs : List Nat} (h : DescB b hs) : szH (inc hs) = szH hs + run hs + 1 := by
  induction hs generalizing b with
  | nil => simp [inc, szH, run]
  | cons x r ih =>
    obtain ⟨h1, h2⟩ := h
    by_cases hf : x = r.length
    · have hfull := szH_full (b := x + 1) (hs := x :: r) ⟨by omega, h2⟩ (by simp; omega)
      have p1 := two_pow_succ (x + 1)
      have p0 := Nat.two_pow_pos (x + 1)
      simp only [inc, run, hf, if_true, szH] at hfull ⊢
      rw [← hf] at hfull ⊢
      omega
    · simp only [inc, run, hf, if_false, szH]
      rw [ih h2]; omega

theorem DescB_inc {b : Nat} {hs : List Nat} (h : DescB b hs) (hl : hs.length < b) : DescB b (inc hs) := by
  induction hs generalizing b with
  | nil => exact ⟨hl, trivial⟩
  | cons x r ih =>
    obtain ⟨h1, h2⟩ := h
    have hr := DescB_len h2
    by_cases hf : x = r.length
    · simp only [inc, hf, if_true]
      simp at hl
      exact ⟨by omega, trivial⟩
    · simp only [inc, hf, if_false]
      exact ⟨h1, ih h2 (by omega)⟩

theorem length_inc_le (hs : List Nat) : (inc hs).length ≤ hs.length + 1 := by
  induction hs with
  | nil => simp [inc]
  | cons x r ih =>
    simp only [inc]
    split
    · simp
    · simp; omega

/-! ## `pos_height_in_tree` -/

theorem log2_eq {x K : Nat} (h1 : 2 ^ K ≤ x) (h2 : x < 2 ^ (K + 1)) : x.log2 = K := by
  have p0 := Nat.two_pow_pos K
  have hx : x ≠ 0 := by omega
  have a : K ≤ x.log2 := (Nat.le_log2 hx).2 h1
  have b : x.log2 < K + 1 := (Nat.log2_lt hx).2 h2
  omega

theorem posHeightAux_allOnes (f k : Nat) : posHeightAux f (2 ^ (k + 1) - 1) = k := by
  have p0 := Nat.two_pow_pos k
  have p1 := two_pow_succ k
  have hl : (2 ^ (k + 1) - 1).log2 = k := log2_eq (by omega) (by omega)
  cases f with
  | zero => simp [posHeightAux, hl]
  | succ f =>
    have : allOnes (2 ^ (k + 1) - 1) = true := by
      simp only [allOnes, hl, Bool.and_eq_true, bne_iff_ne, ne_eq, beq_iff_eq]
      omega
    simp [posHeightAux, this, hl]

/-- one `jump_left` over a peak of height `K`: the position is the same distance after the
following peaks -/
theorem posHeightAux_jump (f K x : Nat) (h1 : 2 ^ (K + 1) ≤ x) (h2 : x + 2 ≤ 2 ^ (K + 1 + 1)) :
    posHeightAux (f + 1) x = posHeightAux f (x - (2 ^ (K + 1) - 1)) := by
  have hl : x.log2 = K + 1 := log2_eq h1 (by omega)
  have : allOnes x = false := by
    simp only [allOnes, hl, Bool.and_eq_false_iff, bne_eq_false_iff_eq, beq_eq_false_iff_ne, ne_eq]
    right; omega
  simp [posHeightAux, this, jumpLeft, hl]

/-- the 1-based index `szH hs + j + 1`, `j ≤ run hs`, has height `j` -/
theorem posHeightAux_spec {b : Nat} {hs : List Nat} (h : DescB b hs) {j : Nat} (hj : j ≤ run hs)
    (f : Nat) (hf : hs.length ≤ f) : posHeightAux f (szH hs + j + 1) = j := by
  induction hs generalizing b f with
  | nil =>
    simp [run] at hj; subst hj
    exact posHeightAux_allOnes f 0
  | cons x r ih =>
    obtain ⟨h1, h2⟩ := h
    have hr := DescB_len h2
    have p1 := two_pow_succ (x + 1)
    have p0 := Nat.two_pow_pos (x + 1)
    obtain ⟨f', rfl⟩ : ∃ f', f = f' + 1 := ⟨f - 1, by simp at hf; omega⟩
    simp at hf
    by_cases hfull : x = r.length
    · have hsz := szH_full (b := x + 1) (hs := x :: r) ⟨by omega, h2⟩ (by simp; omega)
      simp only [run, hfull, if_true] at hj
      rw [← hfull] at hj
      by_cases hj' : j = x + 1
      · subst hj'
        have : szH (x :: r) + (x + 1) + 1 = 2 ^ (x + 1 + 1) - 1 := by omega
        rw [this]; exact posHeightAux_allOnes _ _
      · have hjx : j ≤ x := by omega
        rw [posHeightAux_jump f' x _ (by simp only [szH]; omega) (by omega)]
        have : szH (x :: r) + j + 1 - (2 ^ (x + 1) - 1) = szH r + j + 1 := by simp only [szH]; omega
        rw [this]
        refine ih h2 ?_ f' (by omega)
        -- `r` is itself `[x-1, …, 0]`
        cases r with
        | nil => simp at hfull; simp [run]; omega
        | cons y r' =>
          have hy := DescB_len h2.2
          have : y = r'.length := by simp at hfull; have := h2.1; omega
          simp only [run, this, if_true]
          simp at hfull; omega
    · simp only [run, hfull, if_false] at hj
      have hb := szH_bound h2 hj
      have hm : 2 ^ (x + 1) ≤ 2 ^ (x + 1) := Nat.le_refl _
      rw [posHeightAux_jump f' x _ (by simp only [szH]; omega) (by simp only [szH]; omega)]
      have : szH (x :: r) + j + 1 - (2 ^ (x + 1) - 1) = szH r + j + 1 := by simp only [szH]; omega
      rw [this]
      exact ih h2 hj f' (by omega)

theorem length_le_szH (hs : List Nat) : hs.length ≤ szH hs := by
  induction hs with
  | nil => simp
  | cons x r ih =>
    have p0 := Nat.two_pow_pos x
    have p1 := two_pow_succ x
    simp only [szH, List.length_cons]; omega

/-- **`pos_height_in_tree` at the frontier of an MMR with peak heights `hs`**: the next leaf goes to
`szH hs` (height 0) and the `j`-th node after it has height `j`, for `j` up to the number of
trailing one bits of the leaf count. -/
theorem posHeight_spec {b : Nat} {hs : List Nat} (h : DescB b hs) {j : Nat} (hj : j ≤ run hs) :
    posHeightInTree (szH hs + j) = j := by
  unfold posHeightInTree
  exact posHeightAux_spec h hj _ (by have := length_le_szH hs; omega)

/-! ## `get_peaks` -/

/-- peak positions, left to right, of mountains with heights `hs` laid out from offset `off` -/
def peaksAt : Nat → List Nat → List Nat
  | _, [] => []
  | off, h :: r => (off + 2 ^ (h + 1) - 2) :: peaksAt (off + (2 ^ (h + 1) - 1)) r

theorem leftPeakLoop_spec (size K : Nat) (h1 : 2 ^ (K + 1) ≤ size + 1) (h2 : size + 2 ≤ 2 ^ (K + 1 + 1)) :
    ∀ (d height f : Nat), height + d = K + 1 → 1 ≤ height → d ≤ f →
      leftPeakLoop size f height (2 ^ height - 2) (2 ^ (height + 1) - 2) = (K, 2 ^ (K + 1) - 2) := by
  intro d
  induction d with
  | zero =>
    intro height f hd hh hf
    have : height = K + 1 := by omega
    subst this
    cases f with
    | zero => simp [leftPeakLoop]
    | succ f =>
      have : ¬ (2 ^ (K + 1 + 1) - 2 < size) := by omega
      simp [leftPeakLoop, this]
  | succ d ih =>
    intro height f hd hh hf
    obtain ⟨f', rfl⟩ : ∃ f', f = f' + 1 := ⟨f - 1, by omega⟩
    have hm : 2 ^ (height + 1) ≤ 2 ^ (K + 1) := two_pow_mono (by omega)
    have : 2 ^ (height + 1) - 2 < size := by
      have := Nat.two_pow_pos height
      have := two_pow_succ height
      omega
    simp only [leftPeakLoop, this, if_true, peakPosByHeight]
    exact ih (height + 1) f' (by omega) (by omega) (by omega)

theorem leftPeakHeightPos_spec {b : Nat} {K : Nat} {rest : List Nat} (h : DescB b (K :: rest)) :
    leftPeakHeightPos (szH (K :: rest)) = (K, 2 ^ (K + 1) - 2) := by
  have hb := szH_bound (b := K + 1) (hs := K :: rest) ⟨by omega, h.2⟩ (j := 0) (by omega)
  have p0 := Nat.two_pow_pos K
  have p1 := two_pow_succ K
  have hlo : 2 ^ (K + 1) ≤ szH (K :: rest) + 1 := by simp only [szH]; omega
  have hK : K < 2 ^ K := Nat.lt_two_pow_self
  have := leftPeakLoop_spec (szH (K :: rest)) K hlo (by omega) K 1 (szH (K :: rest) + 1) (by omega) (by omega)
    (by omega)
  simpa [leftPeakHeightPos, peakPosByHeight] using this

theorem rightPeakLoop_spec (size off : Nat) (hoff : 1 ≤ off) :
    ∀ (j : Nat) (rest : List Nat), DescB (j + 1) rest → size = off + szH rest →
      rightPeakLoop size j (off + 2 ^ (j + 1) - 2) =
        match rest with
        | [] => none
        | k :: _ => some (k, off + 2 ^ (k + 1) - 2) := by
  intro j
  induction j with
  | zero =>
    intro rest hd hs
    cases rest with
    | nil =>
      simp only [szH] at hs
      simp [rightPeakLoop]; omega
    | cons k r =>
      have hk : k = 0 := by have := hd.1; omega
      subst hk
      simp only [szH] at hs
      simp [rightPeakLoop]; omega
  | succ j ih =>
    intro rest hd hs
    have p0 := Nat.two_pow_pos j
    have p1 := two_pow_succ j
    have p2 := two_pow_succ (j + 1)
    have hstep : off + 2 ^ (j + 1 + 1) - 2 - parentOffset j = off + 2 ^ (j + 1) - 2 := by
      simp only [parentOffset, Gen.MMR.PARENT_OFFSET_BASE]; omega
    cases rest with
    | nil =>
      simp only [szH] at hs
      have : off + 2 ^ (j + 1 + 1) - 2 > size - 1 := by omega
      simp only [rightPeakLoop, this, if_true, hstep]
      exact ih [] trivial (by simp [szH]; omega)
    | cons k r =>
      by_cases hk : k = j + 1
      · subst hk
        simp only [szH] at hs
        have : ¬ (off + 2 ^ (j + 1 + 1) - 2 > size - 1) := by omega
        simp [rightPeakLoop, this]
      · have hk' : k < j + 1 := by have := hd.1; omega
        have hb := szH_bound (b := k + 1) (hs := k :: r) ⟨by omega, hd.2⟩ (j := 0) (by omega)
        have hm : 2 ^ (k + 1 + 1) ≤ 2 ^ (j + 1 + 1) := two_pow_mono (by omega)
        have : off + 2 ^ (j + 1 + 1) - 2 > size - 1 := by omega
        simp only [rightPeakLoop, this, if_true, hstep]
        exact ih (k :: r) ⟨hk', hd.2⟩ hs

theorem peaksLoop_spec (size : Nat) :
    ∀ (rest : List Nat) (f K off : Nat), DescB K rest → size = off + szH rest → 2 ^ (K + 1) ≤ off + 1 →
      rest.length ≤ f → peaksLoop size f K (off - 1) = peaksAt off rest := by
  intro rest
  induction rest with
  | nil =>
    intro f K off hd hs hoff hf
    have p0 := Nat.two_pow_pos K
    have p1 := two_pow_succ K
    cases f with
    | zero => simp [peaksLoop, peaksAt]
    | succ f =>
      by_cases hK : K > 0
      · have hpos : off - 1 + siblingOffset K = off + 2 ^ (K + 1) - 2 := by
          simp only [siblingOffset, Gen.MMR.SIBLING_OFFSET_BASE]; omega
        have := rightPeakLoop_spec size off (by omega) K [] trivial hs
        simp [peaksLoop, hK, getRightPeak, hpos, this, peaksAt]
      · simp [peaksLoop, hK, peaksAt]
  | cons k r ih =>
    intro f K off hd hs hoff hf
    have p0 := Nat.two_pow_pos K
    have p1 := two_pow_succ K
    obtain ⟨f', rfl⟩ : ∃ f', f = f' + 1 := ⟨f - 1, by simp at hf; omega⟩
    have hK : K > 0 := by have := hd.1; omega
    have hpos : off - 1 + siblingOffset K = off + 2 ^ (K + 1) - 2 := by
      simp only [siblingOffset, Gen.MMR.SIBLING_OFFSET_BASE]; omega
    have := rightPeakLoop_spec size off (by omega) K (k :: r) (DescB_mono hd (by omega)) hs
    simp only [peaksLoop, hK, if_true, getRightPeak, hpos, this, peaksAt]
    have q0 := Nat.two_pow_pos k
    have q1 := two_pow_succ k
    have hrec := ih f' k (off + (2 ^ (k + 1) - 1)) hd.2 (by simp only [szH] at hs; omega) (by omega)
      (by simp at hf; omega)
    have he : off + (2 ^ (k + 1) - 1) - 1 = off + 2 ^ (k + 1) - 2 := by omega
    rw [he] at hrec
    rw [hrec]

/-- **`get_peaks(mmr_size)`** returns the peaks of the binary decomposition, left to right. -/
theorem getPeaks_spec {b : Nat} {K : Nat} {rest : List Nat} (h : DescB b (K :: rest)) :
    getPeaks (szH (K :: rest)) = peaksAt 0 (K :: rest) := by
  have p0 := Nat.two_pow_pos K
  have p1 := two_pow_succ K
  have hl := DescB_len h.2
  simp only [getPeaks, leftPeakHeightPos_spec h, peaksAt]
  have := peaksLoop_spec (szH (K :: rest)) rest (K + 1) K (2 ^ (K + 1) - 1) h.2 (by simp [szH])
    (by omega) (by omega)
  have he : 2 ^ (K + 1) - 1 - 1 = 2 ^ (K + 1) - 2 := by omega
  rw [he] at this
  simp [this]

end CkbVerif.MMR
