import CkbVerif.Lemmas.MMR
/-!
# `leaf_index_to_mmr_size` and the leaf count

`leaf_index_to_mmr_size(n - 1) = 2n - count_ones(n)` is the size of the MMR after `n` pushes.
-/
namespace CkbVerif.MMR

variable {α : Type}

/-- number of leaves under mountains of heights `hs` -/
def leafCount : List Nat → Nat
  | [] => 0
  | h :: r => 2 ^ h + leafCount r

theorem szH_leafCount (hs : List Nat) : szH hs + hs.length = 2 * leafCount hs := by
  induction hs with
  | nil => rfl
  | cons h r ih =>
    have p0 := Nat.two_pow_pos h
    have p1 := two_pow_succ h
    simp only [szH, leafCount, List.length_cons]; omega

theorem leafCount_lt {b : Nat} {hs : List Nat} (h : DescB b hs) : leafCount hs < 2 ^ b := by
  induction hs generalizing b with
  | nil => exact Nat.two_pow_pos b
  | cons x r ih =>
    have := ih h.2
    have hm : 2 ^ (x + 1) ≤ 2 ^ b := two_pow_mono (by have := h.1; omega)
    have p1 := two_pow_succ x
    simp only [leafCount]; omega

theorem leafCount_full {b : Nat} {hs : List Nat} (h : DescB b hs) (hl : hs.length = b) :
    leafCount hs + 1 = 2 ^ b := by
  induction hs generalizing b with
  | nil => simp at hl; subst hl; rfl
  | cons x r ih =>
    have hr := DescB_len h.2
    have := h.1
    simp at hl
    have hx : r.length = x := by omega
    have := ih h.2 hx
    have hb : b = x + 1 := by omega
    subst hb
    have p1 := two_pow_succ x
    simp only [leafCount]; omega

theorem leafCount_inc {b : Nat} {hs : List Nat} (h : DescB b hs) : leafCount (inc hs) = leafCount hs + 1 := by
  induction hs generalizing b with
  | nil => rfl
  | cons x r ih =>
    by_cases hf : x = r.length
    · have := leafCount_full (b := x + 1) (hs := x :: r) ⟨by omega, h.2⟩ (by simp; omega)
      simp only [inc, hf, if_true, leafCount] at this ⊢
      rw [← hf] at this ⊢
      omega
    · simp only [inc, hf, if_false, leafCount]
      rw [ih h.2]; omega

theorem popcountAux_fuel : ∀ (f f' n : Nat), n ≤ f → n ≤ f' → popcountAux f n = popcountAux f' n := by
  intro f
  induction f with
  | zero =>
    intro f' n h1 _
    have : n = 0 := by omega
    subst this
    cases f' <;> simp [popcountAux]
  | succ f ih =>
    intro f' n h1 h2
    cases f' with
    | zero =>
      have : n = 0 := by omega
      subst this
      simp [popcountAux]
    | succ f' =>
      simp only [popcountAux]
      split
      · rfl
      · rw [ih f' (n / 2) (by omega) (by omega)]

theorem popcount_unfold (n : Nat) (hn : n ≠ 0) : popcount n = n % 2 + popcount (n / 2) := by
  unfold popcount
  obtain ⟨k, rfl⟩ : ∃ k, n = k + 1 := ⟨n - 1, by omega⟩
  simp only [popcountAux]
  rw [popcountAux_fuel k ((k + 1) / 2) ((k + 1) / 2) (by omega) (by omega)]
  simp

theorem popcount_zero : popcount 0 = 0 := rfl

theorem popcount_add_pow (h m : Nat) (hm : m < 2 ^ h) : popcount (2 ^ h + m) = 1 + popcount m := by
  induction h generalizing m with
  | zero =>
    have : m = 0 := by simpa using hm
    subst this
    rfl
  | succ h ih =>
    have p0 := Nat.two_pow_pos h
    have p1 := two_pow_succ h
    rw [popcount_unfold _ (by omega)]
    have e1 : (2 ^ (h + 1) + m) % 2 = m % 2 := by omega
    have e2 : (2 ^ (h + 1) + m) / 2 = 2 ^ h + m / 2 := by omega
    rw [e1, e2, ih (m / 2) (by omega)]
    by_cases hm0 : m = 0
    · subst hm0; simp [popcount_zero]
    · rw [popcount_unfold m hm0]; omega

theorem popcount_leafCount {b : Nat} {hs : List Nat} (h : DescB b hs) : popcount (leafCount hs) = hs.length := by
  induction hs generalizing b with
  | nil => rfl
  | cons x r ih =>
    have := leafCount_lt h.2
    simp only [leafCount, List.length_cons]
    rw [popcount_add_pow x _ this, ih h.2]; omega

/-- **`leaf_index_to_mmr_size`**: for an MMR whose peaks have heights `hs` (at least one leaf), the
crate's `2 * leaves - count_ones(leaves)` is exactly the number of stored nodes. -/
theorem leafIndexToMmrSize_spec {b : Nat} {hs : List Nat} (h : DescB b hs) (hne : hs ≠ []) :
    leafIndexToMmrSize (leafCount hs - 1) = szH hs := by
  have hpos : 0 < leafCount hs := by
    cases hs with
    | nil => exact absurd rfl hne
    | cons x r => have := Nat.two_pow_pos x; simp only [leafCount]; omega
  have h1 := szH_leafCount hs
  have h2 := popcount_leafCount h
  unfold leafIndexToMmrSize
  have : leafCount hs - 1 + 1 = leafCount hs := by omega
  simp only [this, h2]
  omega

theorem leafCount_specD (merge : α → α → α) (leaves : List α) :
    (∃ b, DescB b (heights (specD merge leaves))) ∧
      leafCount (heights (specD merge leaves)) = leaves.length := by
  unfold specD
  suffices ∀ (ms : List (Nat × α)), (∃ b, DescB b (heights ms)) →
      (∃ b, DescB b (heights (leaves.foldl (pushD merge) ms))) ∧
      leafCount (heights (leaves.foldl (pushD merge) ms)) = leafCount (heights ms) + leaves.length by
    have := this [] ⟨0, trivial⟩
    simpa [heights, leafCount] using this
  induction leaves with
  | nil => intro ms hd; exact ⟨hd, by simp⟩
  | cons x xs ih =>
    intro ms ⟨b, hd⟩
    have hd' : DescB (max b ((heights ms).length + 1)) (heights (pushD merge ms x)) := by
      rw [heights_pushD]; exact DescB_inc (DescB_mono hd (by omega)) (by omega)
    have := ih (pushD merge ms x) ⟨_, hd'⟩
    simp only [List.foldl_cons, List.length_cons]
    refine ⟨this.1, ?_⟩
    rw [this.2, heights_pushD, leafCount_inc hd]; omega

/-! ### `leaf_index_to_pos` -/

theorem tzAux_fuel : ∀ (f f' n : Nat), n ≤ f → n ≤ f' → trailingZerosAux f n = trailingZerosAux f' n := by
  intro f
  induction f with
  | zero =>
    intro f' n h1 _
    have : n = 0 := by omega
    subst this
    cases f' <;> simp [trailingZerosAux]
  | succ f ih =>
    intro f' n h1 h2
    cases f' with
    | zero =>
      have : n = 0 := by omega
      subst this
      simp [trailingZerosAux]
    | succ f' =>
      simp only [trailingZerosAux]
      split
      · rfl
      · split
        · rfl
        · rw [ih f' (n / 2) (by omega) (by omega)]

theorem tz_unfold (n : Nat) (hn : n ≠ 0) :
    trailingZeros n = if n % 2 = 1 then 0 else 1 + trailingZeros (n / 2) := by
  unfold trailingZeros
  obtain ⟨k, rfl⟩ : ∃ k, n = k + 1 := ⟨n - 1, by omega⟩
  simp only [trailingZerosAux]
  rw [tzAux_fuel k ((k + 1) / 2) ((k + 1) / 2) (by omega) (by omega)]
  simp

theorem tz_two_pow (h : Nat) : trailingZeros (2 ^ h) = h := by
  induction h with
  | zero => rfl
  | succ h ih =>
    have p0 := Nat.two_pow_pos h
    have p1 := two_pow_succ h
    rw [tz_unfold _ (by omega)]
    have e1 : ¬ (2 ^ (h + 1) % 2 = 1) := by omega
    have e2 : 2 ^ (h + 1) / 2 = 2 ^ h := by omega
    rw [if_neg e1, e2, ih]; omega

theorem tz_add_pow (h m : Nat) (hm : m < 2 ^ h) (hpos : 0 < m) :
    trailingZeros (2 ^ h + m) = trailingZeros m := by
  induction h generalizing m with
  | zero => simp at hm; omega
  | succ h ih =>
    have p0 := Nat.two_pow_pos h
    have p1 := two_pow_succ h
    rw [tz_unfold _ (by omega), tz_unfold m (by omega)]
    have e1 : (2 ^ (h + 1) + m) % 2 = m % 2 := by omega
    have e2 : (2 ^ (h + 1) + m) / 2 = 2 ^ h + m / 2 := by omega
    rw [e1, e2]
    by_cases hodd : m % 2 = 1
    · simp [hodd]
    · simp only [hodd, if_false]
      rw [ih (m / 2) (by omega) (by omega)]

/-- `[b-1, …, 0]` -/
def fullList : Nat → List Nat
  | 0 => []
  | b + 1 => b :: fullList b

theorem fullList_spec (b : Nat) : DescB b (fullList b) ∧ (fullList b).length = b := by
  induction b with
  | zero => exact ⟨trivial, rfl⟩
  | succ b ih => exact ⟨⟨by omega, ih.1⟩, by simp [fullList, ih.2]⟩

theorem popcount_all_ones (x : Nat) : popcount (2 ^ x - 1) = x := by
  obtain ⟨hd, hl⟩ := fullList_spec x
  have h1 := leafCount_full hd hl
  have h2 := popcount_leafCount hd
  have : leafCount (fullList x) = 2 ^ x - 1 := by omega
  rw [this, hl] at h2
  exact h2

/-- `trailing_zeros(leaves + 1)` is the number of merges of the next push -/
theorem tz_leafCount {b : Nat} {hs : List Nat} (h : DescB b hs) :
    trailingZeros (leafCount hs + 1) = run hs := by
  induction hs generalizing b with
  | nil => rfl
  | cons x r ih =>
    have hlt := leafCount_lt h.2
    by_cases hf : x = r.length
    · have := leafCount_full (b := x + 1) (hs := x :: r) ⟨by omega, h.2⟩ (by simp; omega)
      rw [this, tz_two_pow]
      simp [run, hf]
    · simp only [run, hf, if_false, leafCount]
      have hne : leafCount r + 1 ≠ 2 ^ x := by
        intro he
        have h2 := popcount_leafCount h.2
        have : leafCount r = 2 ^ x - 1 := by omega
        rw [this, popcount_all_ones] at h2
        exact hf h2
      have e : 2 ^ x + leafCount r + 1 = 2 ^ x + (leafCount r + 1) := by omega
      rw [e, tz_add_pow x _ (by omega) (by omega)]
      exact ih h.2

/-- **`leaf_index_to_pos`**: the leaf with index `leafCount hs` (the next one) goes to position
`szH hs`, the current `mmr_size`. -/
theorem leafIndexToPos_spec {b : Nat} {hs : List Nat} (h : DescB b hs) :
    leafIndexToPos (leafCount hs) = szH hs := by
  have hd' : DescB (max b (hs.length + 1)) (inc hs) := DescB_inc (DescB_mono h (by omega)) (by omega)
  have hne : inc hs ≠ [] := by
    cases hs with
    | nil => simp [inc]
    | cons x r => simp only [inc]; split <;> simp
  have h1 := leafIndexToMmrSize_spec hd' hne
  rw [leafCount_inc h] at h1
  simp only [Nat.add_sub_cancel] at h1
  unfold leafIndexToPos
  rw [h1, tz_leafCount h, szH_inc h]
  omega


theorem pushAll_append (merge : α → α → α) (m : MMR α) (a b : List α) :
    pushAll merge m (a ++ b) =
      match pushAll merge m a with
      | none => none
      | some m1 => pushAll merge m1 b := by
  induction a generalizing m with
  | nil => rfl
  | cons x xs ih =>
    simp only [List.cons_append, pushAll]
    cases push merge m x with
    | none => rfl
    | some r => exact ih r.1

theorem pushAll_inv (merge : α → α → α) (m : MMR α) (ms : List (Nat × α)) (ls : List α) (hinv : Inv m ms) :
    ∃ m', pushAll merge m ls = some m' ∧ Inv m' (ls.foldl (pushD merge) ms) ∧
      (∀ q, q < m.size → m'.store q = m.store q) ∧ m.size ≤ m'.size := by
  induction ls generalizing m ms with
  | nil => exact ⟨m, rfl, hinv, fun _ _ => rfl, Nat.le_refl _⟩
  | cons x xs ih =>
    obtain ⟨m1, h1, hinv1, hst1, hsz1⟩ := push_inv merge m ms x hinv
    obtain ⟨m2, h2, hinv2, hst2, hsz2⟩ := ih m1 (pushD merge ms x) hinv1
    refine ⟨m2, ?_, hinv2, ?_, by omega⟩
    · simp [pushAll, h1, h2]
    · intro q hq
      rw [hst2 q (by omega), hst1 q hq]

theorem Inv_congr {n : Nat} {s s' : Store α} {ms : List (Nat × α)} (hinv : Inv ⟨n, s⟩ ms)
    (hagree : ∀ q, q < n → s' q = s q) : Inv ⟨n, s'⟩ ms := by
  obtain ⟨hd, hsize, hhas⟩ := hinv
  refine ⟨hd, hsize, StoreHas_congr (fun q hq => hagree q ?_) hhas⟩
  simp at hsize; omega

theorem specD_ne_nil (merge : α → α → α) (leaves : List α) (hne : leaves ≠ []) :
    specD merge leaves ≠ [] := by
  intro h
  have := (leafCount_specD merge leaves).2
  rw [h] at this
  cases leaves with
  | nil => exact hne rfl
  | cons x xs => simp [heights, leafCount] at this

end CkbVerif.MMR
