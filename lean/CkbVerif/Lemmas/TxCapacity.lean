import CkbVerif.Model.Tx

/-!
Helper lemmas for the C04 capacity theorems: the chain of checked additions in
`CellOutput::occupied_capacity` has a closed form, and its `Overflow` branches are exactly
"the exact sum does not fit u64".
-/
namespace CkbVerif.C04
open CkbVerif.Tx CkbVerif.Gen.Tx

/-- **spec**: the bytes a cell occupies besides its data: capacity field (8) + lock script
(code hash 32 + hash type 1 + args) + type script if present (32 + 1 + args) -/
def fixedBytes (o : Output) : Nat :=
  CAPACITY_FIELD_BYTES + (o.lockArgs + SCRIPT_FIXED_BYTES) +
    (match o.typeArgs with | none => 0 | some a => a + SCRIPT_FIXED_BYTES)

/-- **spec**: occupied bytes including the data -/
def occBytes (o : Output) : Nat := fixedBytes o + o.dataLen

/-- a value if it fits u64, `Overflow` otherwise -/
def chk (U v : Nat) : Option Nat := if v < U then some v else none
theorem scriptOccupied_eq (a : Nat) : scriptOccupied a = capBytes (a + SCRIPT_FIXED_BYTES) := by
  rw [scriptOccupied]
theorem capBytes_def (n : Nat) : capBytes n = chk Tx.U64 (n * BYTE_SHANNONS) := by
  rw [capBytes, chk]
theorem safeAdd_def (a b : Nat) : safeAdd a b = chk Tx.U64 (a + b) := by
  rw [safeAdd, chk]
theorem chk_bind_add (U a b : Nat) : ((chk U a).bind fun x => chk U (x + b)) = chk U (a + b) := by
  unfold chk
  by_cases h : a + b < U
  · have : a < U := by omega
    rw [if_pos this, Option.bind_some, if_pos h]
  · by_cases h2 : a < U
    · rw [if_pos h2, Option.bind_some, if_neg h]
    · rw [if_neg h2, Option.bind_none, if_neg h]
theorem chk_bind_add' (U a b : Nat) : ((chk U a).bind fun y => chk U (y + b)) = chk U (b + a) := by
  rw [chk_bind_add, Nat.add_comm]
theorem chk_bind_add_left (U a c : Nat) : ((chk U a).bind fun x => chk U (c + x)) = chk U (c + a) := by
  have : (fun x => chk U (c + x)) = fun x => chk U (x + c) := by
    funext x; rw [Nat.add_comm]
  rw [this, chk_bind_add, Nat.add_comm]
theorem chk_bind_self (U a : Nat) : ((chk U a).bind fun x => chk U x) = chk U a := by
  have := chk_bind_add U a 0
  simpa using this
/-- the closed form of `occupied_capacity(data_capacity)`: the exact sum, `Overflow` iff it leaves u64 -/
theorem occupied_closed (o : Output) (dc : Nat) :
    occupied o dc = chk Tx.U64 (fixedBytes o * BYTE_SHANNONS + dc) := by
  unfold occupied fixedBytes
  simp only [scriptOccupied_eq, capBytes_def, safeAdd_def]
  generalize CAPACITY_FIELD_BYTES = C
  generalize SCRIPT_FIXED_BYTES = S
  generalize o.lockArgs = la
  generalize BYTE_SHANNONS = B
  generalize Tx.U64 = U
  cases o.typeArgs with
  | none =>
    simp only [chk_bind_add, Option.bind_some, Nat.zero_add, Nat.add_zero, chk_bind_self]
    simp only [chk_bind_add_left]
    congr 1
    simp only [Nat.add_mul]; omega
  | some a =>
    simp only [chk_bind_add]
    simp only [chk_bind_add_left, ← Nat.add_assoc]
    congr 1
    simp only [Nat.add_mul]; omega

/-- `is_lack_of_capacity(Capacity::bytes(data.len())?)?` in closed form -/
theorem lackOfCapacity_closed (o : Output) :
    lackOfCapacity o =
      if occBytes o * BYTE_SHANNONS < Tx.U64 then some (decide (occBytes o * BYTE_SHANNONS > o.capacity)) else none := by
  unfold lackOfCapacity occBytes
  rw [capBytes_def]
  have e : (fixedBytes o + o.dataLen) * BYTE_SHANNONS = fixedBytes o * BYTE_SHANNONS + o.dataLen * BYTE_SHANNONS :=
    Nat.add_mul _ _ _
  rw [e]
  generalize o.dataLen * BYTE_SHANNONS = D
  by_cases h1 : D < Tx.U64
  · rw [chk, if_pos h1, Option.bind_some, occupied_closed, chk]
    generalize fixedBytes o * BYTE_SHANNONS = F
    by_cases h2 : F + D < Tx.U64
    · rw [if_pos h2, if_pos h2, Option.map_some]
    · rw [if_neg h2, if_neg h2, Option.map_none]
  · rw [chk, if_neg h1, Option.bind_none]
    have h2 : ¬ fixedBytes o * BYTE_SHANNONS + D < Tx.U64 := by omega
    rw [if_neg h2]

/-- the first element of a list of per-output results that is not `some false`, if any -/
theorem checkLacks_spec (l : List (Option Bool)) (i : Nat) :
    (checkLacks i l = .ok ∧ ∀ x ∈ l, x = some false) ∨
    (∃ k, ∃ h : k < l.length, (∀ j (hj : j < k), l[j]'(Nat.lt_trans hj h) = some false) ∧
      ((l[k] = none ∧ checkLacks i l = .overflow) ∨ (l[k] = some true ∧ checkLacks i l = .insufficient (i + k)))) := by
  induction l generalizing i with
  | nil => left; exact ⟨rfl, by simp⟩
  | cons a rest ih =>
    cases a with
    | none =>
      right
      exact ⟨0, by simp, fun j hj => absurd hj (Nat.not_lt_zero j), Or.inl ⟨rfl, rfl⟩⟩
    | some b =>
      cases b with
      | true =>
        right
        exact ⟨0, by simp, fun j hj => absurd hj (Nat.not_lt_zero j), Or.inr ⟨rfl, rfl⟩⟩
      | false =>
        rcases ih (i + 1) with ⟨e, hall⟩ | ⟨k, hk, hb, hc⟩
        · left
          refine ⟨by simpa [checkLacks] using e, ?_⟩
          intro x hx
          rcases List.mem_cons.1 hx with rfl | hx
          · rfl
          · exact hall x hx
        · right
          refine ⟨k + 1, by simp; omega, ?_, ?_⟩
          · intro j hj
            cases j with
            | zero => rfl
            | succ j => simpa using hb j (by omega)
          · rcases hc with ⟨h1, h2⟩ | ⟨h1, h2⟩
            · left; exact ⟨by simpa using h1, by simpa [checkLacks] using h2⟩
            · right
              refine ⟨by simpa using h1, ?_⟩
              have : i + (k + 1) = i + 1 + k := by omega
              simpa [checkLacks, this] using h2

/-- `try_fold(Capacity::zero(), safe_add)` is the exact sum, `Overflow` iff it leaves u64 -/
theorem sumCapsL_closed (l : List Nat) (acc : Nat) (h : acc < Tx.U64) :
    sumCapsL acc l = if acc + l.sum < Tx.U64 then some (acc + l.sum) else none := by
  induction l generalizing acc with
  | nil => simp [sumCapsL, h]
  | cons c rest ih =>
    unfold sumCapsL safeAdd
    by_cases h1 : acc + c < Tx.U64
    · rw [if_pos h1]
      show sumCapsL (acc + c) rest = _
      rw [ih _ h1, List.sum_cons, Nat.add_assoc]
    · have : ¬ acc + (c + rest.sum) < Tx.U64 := by omega
      simp [h1, this]

end CkbVerif.C04
