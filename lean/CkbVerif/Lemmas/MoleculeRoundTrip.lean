import CkbVerif.Lemmas.MoleculeCodec
/-! (B) builder then reader is the identity, for every well-formed schema and value. -/
namespace CkbVerif.Molecule

theorem all_mem {α : Type} {p : α → Bool} {xs : List α} (h : xs.all p = true) : ∀ x ∈ xs, p x = true := by
  simpa using h

theorem wfvU_id_mem : ∀ (ids : List Nat) (its : List Schema) (id : Nat) (v : Val), wfvU ids its id v = true → id ∈ ids
  | [], _, _, _, h => by simp [wfvU] at h
  | _ :: _, [], _, _, h => by simp [wfvU] at h
  | i :: ids, s :: ss, id, v, h => by
      simp only [wfvU] at h
      split at h
      · rename_i e; simp [e]
      · simp [wfvU_id_mem ids ss id v h]

theorem num_le32' (n : Nat) (h : n < 4294967296) : num (le32 n) = n := by
  simpa using num_le32 n [] h

mutual
theorem decode_encode (c : Bool) : ∀ (s : Schema) (v : Val), wf s = true → wfv s v = true → decode c s (encode s v) = some v
  | .byte, v, _, hv => by
      cases v <;> simp [wfv] at hv
      simp [encode, decode]
  | .array it n, v, hs, hv => by
      cases v <;> simp [wfv] at hv
      rename_i vs
      obtain ⟨hn, hall⟩ := hv
      subst hn
      simp only [wf, Bool.and_eq_true] at hs
      have hlen : ∀ x ∈ vs, (encode it x).length = size it := fun x hx => encode_length_fixed it x hs.1 (hall x hx)
      have hl := flatten_map_length_const (encode it) vs (size it) hlen
      have hch := chunk_flatten (size it) (vs.map (encode it)) [] (by simpa using hlen)
      simp only [List.append_nil, List.length_map] at hch
      have henc : encode (.array it vs.length) (.seq vs) = (vs.map (encode it)).flatten := by simp only [encode]
      rw [henc]
      simp only [decode, hl, ↓reduceIte, hch]
      rw [mapOpt_map (decode c it) (encode it) vs (fun x hx => decode_encode c it x hs.2 (hall x hx))]
      rfl
  | .struct fs, v, hs, hv => by
      cases v <;> simp [wfv] at hv
      rename_i vs
      simp only [wf, Bool.and_eq_true] at hs
      have henc : encode (.struct fs) (.seq vs) = (encodeL fs vs).flatten := by simp only [encode]
      rw [henc]
      have hl := encodeL_length_fixed fs vs hs.1 hv
      have := decodeS_encodeL c fs vs [] hs.1 hs.2 hv
      simp only [List.append_nil] at this
      simp only [decode, hl, ↓reduceIte, this]
      rfl
  | .fixvec it, v, hs, hv => by
      cases v <;> simp [wfv] at hv
      rename_i vs
      simp only [wf, Bool.and_eq_true] at hs
      have hlen : ∀ x ∈ vs, (encode it x).length = size it := fun x hx => encode_length_fixed it x hs.1 (hv.2 x hx)
      have hl := flatten_map_length_const (encode it) vs (size it) hlen
      have hch := chunk_flatten (size it) (vs.map (encode it)) [] (by simpa using hlen)
      simp only [List.append_nil, List.length_map] at hch
      have henc : encode (.fixvec it) (.seq vs) = le32 vs.length ++ (vs.map (encode it)).flatten := by
        simp only [encode, encFixvec, List.length_map]
      rw [henc]
      have hnum := num_le32 vs.length (vs.map (encode it)).flatten hv.1
      have hdrop := drop4_le32 vs.length (vs.map (encode it)).flatten
      have hc : 4 ≤ (le32 vs.length ++ (vs.map (encode it)).flatten).length ∧
          (le32 vs.length ++ (vs.map (encode it)).flatten).length =
            4 + size it * num (le32 vs.length ++ (vs.map (encode it)).flatten) := by
        rw [hnum]
        simp only [List.length_append, le32_length, hl]
        exact ⟨Nat.le_add_right _ _, trivial⟩
      simp only [decode]
      rw [if_pos hc, hnum, hdrop, hch, mapOpt_map (decode c it) (encode it) vs (fun x hx => decode_encode c it x hs.2 (hv.2 x hx))]
      rfl
  | .dynvec it, v, hs, hv => by
      cases v <;> simp [wfv] at hv
      rename_i vs
      simp only [wf] at hs
      have henc : encode (.dynvec it) (.seq vs) = encDyn (vs.map (encode it)) := by simp only [encode]
      rw [henc]
      cases vs with
      | nil =>
        have : isEmptyDyn (encDyn (List.map (encode it) [])) = true := by
          simp [encDyn, isEmptyDyn, le32_length, num_le32' 4 (by omega)]
        simp only [decode, this, ↓reduceIte]
      | cons x xs =>
        have hne : List.map (encode it) (x :: xs) ≠ [] := by simp
        have hsz : 4 * ((List.map (encode it) (x :: xs)).length + 1) + (List.map (encode it) (x :: xs)).flatten.length < 4294967296 := by
          simpa using hv.2
        have h1 := isEmptyDyn_encDyn _ hne
        have h2 := dynHeader_encDyn _ hne hsz
        have h3 := slices_encDyn _ hne
        simp only [decode, h1, Bool.false_eq_true, ↓reduceIte, h2, h3]
        rw [mapOpt_map (decode c it) (encode it) (x :: xs) (fun y hy => decode_encode c it y hs (hv.1 y hy))]
        rfl
  | .table fs, v, hs, hv => by
      cases v <;> simp [wfv] at hv
      rename_i vs
      simp only [wf] at hs
      have henc : encode (.table fs) (.seq vs) = encDyn (encodeL fs vs) := by simp only [encode]
      rw [henc]
      cases fs with
      | nil =>
        cases vs with
        | nil =>
          have : emptyTableOk c (encDyn (encodeL [] [])) = true := by
            simp [encodeL, encDyn, emptyTableOk, le32_length, num_le32' 4 (by omega)]
          simp only [decode, this, ↓reduceIte]
        | cons => simp [wfvL] at hv
      | cons f fs =>
        cases vs with
        | nil => simp [wfvL] at hv
        | cons x xs =>
          have hel := encodeL_length (f :: fs) (x :: xs) hv.1
          have hne : encodeL (f :: fs) (x :: xs) ≠ [] := by simp [encodeL]
          have hsz : 4 * ((encodeL (f :: fs) (x :: xs)).length + 1) + (encodeL (f :: fs) (x :: xs)).flatten.length < 4294967296 := by
            simpa [hel] using hv.2
          have h2 := dynHeader_encDyn _ hne hsz
          have h3 := slices_encDyn _ hne
          have hfc : fieldCountOk c (f :: fs).length ((4 * ((encodeL (f :: fs) (x :: xs)).length + 1) :: endsFrom (4 * ((encodeL (f :: fs) (x :: xs)).length + 1)) (encodeL (f :: fs) (x :: xs))).length - 1) = true := by
            simp [fieldCountOk, endsFrom_length, hel]
          have h4 := decodeL_encodeL c (f :: fs) (x :: xs) hs hv.1
          simp only [decode, h2, hfc, ↓reduceIte, h3, h4]
          rfl
  | .option it, v, hs, hv => by
      simp only [wf, Bool.and_eq_true] at hs
      cases v <;> simp [wfv] at hv
      · simp [encode, decode]
      · rename_i x
        have hne := encode_ne_nil it x hs.1 hv
        have henc : encode (.option it) (.some x) = encode it x := by simp only [encode]
        rw [henc]
        have : (encode it x).isEmpty = false := by
          cases h : encode it x with
          | nil => exact absurd h hne
          | cons => rfl
        simp only [decode, this, Bool.false_eq_true, ↓reduceIte, decode_encode c it x hs.2 hv]
        rfl
  | .union ids its, v, hs, hv => by
      simp only [wf, Bool.and_eq_true] at hs
      cases v <;> simp [wfv] at hv
      rename_i id x
      have hid : id < 4294967296 := by
        have hm := wfvU_id_mem ids its id x hv
        have := all_mem hs.1.2 id hm
        simpa using this
      have henc : encode (.union ids its) (.union id x) = le32 id ++ encodeU ids its id x := by simp only [encode]
      rw [henc]
      have hnum := num_le32 id (encodeU ids its id x) hid
      have hdrop := drop4_le32 id (encodeU ids its id x)
      have h4 : 4 ≤ (le32 id ++ encodeU ids its id x).length := by simp [le32_length]
      simp only [decode, h4, ↓reduceIte, hnum, hdrop, decodeU_encodeU c ids its id x hs.2 hv]
      rfl
theorem decodeS_encodeL (c : Bool) : ∀ (fs : List Schema) (vs : List Val) (rest : Bytes), fixedL fs = true → wfL fs = true →
    wfvL fs vs = true → decodeS c fs ((encodeL fs vs).flatten ++ rest) = some vs
  | [], vs, _, _, _, hv => by
      cases vs <;> simp [wfvL] at hv
      simp [decodeS]
  | f :: fs, vs, rest, hf, hs, hv => by
      cases vs with
      | nil => simp [wfvL] at hv
      | cons v vs =>
        simp only [wfvL, Bool.and_eq_true] at hv
        simp only [fixedL, Bool.and_eq_true] at hf
        simp only [wfL, Bool.and_eq_true] at hs
        have hl := encode_length_fixed f v hf.1 hv.1
        simp only [encodeL, List.flatten_cons, List.append_assoc, decodeS]
        rw [List.take_left' hl, List.drop_left' hl, decode_encode c f v hs.1 hv.1, decodeS_encodeL c fs vs rest hf.2 hs.2 hv.2]
theorem decodeL_encodeL (c : Bool) : ∀ (fs : List Schema) (vs : List Val), wfL fs = true → wfvL fs vs = true →
    decodeL c fs (encodeL fs vs) = some vs
  | [], vs, _, hv => by
      cases vs <;> simp [wfvL] at hv
      simp [decodeL]
  | f :: fs, vs, hs, hv => by
      cases vs with
      | nil => simp [wfvL] at hv
      | cons v vs =>
        simp only [wfvL, Bool.and_eq_true] at hv
        simp only [wfL, Bool.and_eq_true] at hs
        simp only [encodeL, decodeL]
        rw [decode_encode c f v hs.1 hv.1, decodeL_encodeL c fs vs hs.2 hv.2]
theorem decodeU_encodeU (c : Bool) : ∀ (ids : List Nat) (its : List Schema) (id : Nat) (v : Val), wfL its = true →
    wfvU ids its id v = true → decodeU c ids its id (encodeU ids its id v) = some v
  | [], _, _, _, _, hv => by simp [wfvU] at hv
  | _ :: _, [], _, _, _, hv => by simp [wfvU] at hv
  | i :: ids, s :: ss, id, v, hs, hv => by
      simp only [wfL, Bool.and_eq_true] at hs
      simp only [wfvU] at hv
      simp only [encodeU, decodeU]
      split
      · rename_i e
        rw [if_pos e] at hv
        exact decode_encode c s v hs.1 hv
      · rename_i e
        rw [if_neg e] at hv
        exact decodeU_encodeU c ids ss id v hs.2 hv
end

end CkbVerif.Molecule
