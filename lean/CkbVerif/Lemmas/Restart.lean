import CkbVerif.Props.C01

/-!
Helper lemmas for the restart theorems of C08 (`Props/C08.lean`):

* `step_stored_sub`: block data appears only through the `insert_block` commit of a delivery of a
  non-contextually valid block; every other write only deletes.  Hence `stored ⊆ delivered` and
  `stored → nc` in every reachable state.
* `run_delivers`: a run of deliveries of nc-valid blocks from a state whose `block_status_map` has no
  BLOCK_INVALID entry (e.g. right after a restart) rejects nothing: every delivered block ends in the
  verify queue or in the orphan pool, exts are untouched, nothing is deleted.
-/
namespace CkbVerif.Chain
open CkbVerif.C01

/-! ## `stored` only grows by `insert_block` -/

theorem route_stored_sub (T : Tree) (s : State) (b x : Nat)
    (h : (route T s b).1.stored x = true) : s.stored x = true := by
  have hact := route_act T s b
  generalize route T s b = r at hact h
  cases hact with
  | accept _ => exact h
  | reject _ _ =>
    simp only [rejectBlk] at h
    by_cases hx : x = b
    · subst hx; simp at h
    · rwa [upd_other _ _ hx] at h
  | dup _ _ _ => exact h
  | hold _ _ _ => exact h

theorem stepPool_stored_sub (T : Tree) (pool0 : List Nat) (acc : State × Out) (c x : Nat)
    (h : (stepPool T pool0 acc c).1.stored x = true) : acc.1.stored x = true := by
  have hact := stepPool_act T pool0 acc c
  generalize stepPool T pool0 acc c = r at hact h
  cases hact with
  | skip _ => exact h
  | accept _ _ => exact h
  | reject _ _ =>
    simp only [rejectBlk, unpool] at h
    by_cases hx : x = c
    · subst hx; simp at h
    · rwa [upd_other _ _ hx] at h

theorem search_stored_sub (T : Tree) (hint : List Nat) (s : State) (x : Nat)
    (h : (search T hint s).1.stored x = true) : s.stored x = true := by
  unfold search at h
  exact foldl_preserves (stepPool T s.pool) (fun acc => acc.1.stored x = true → s.stored x = true)
    (fun acc c ih h' => ih (stepPool_stored_sub T s.pool acc c x h')) _ _ (fun h' => h') h

theorem deliver_stored_sub (T : Tree) (hint : List Nat) (s : State) (b x : Nat)
    (h : (deliver T hint s b).1.stored x = true) :
    s.stored x = true ∨ (x = b ∧ b ≠ 0 ∧ T.nc b = true) := by
  unfold deliver at h
  by_cases hb : b = 0
  · simp only [hb, if_true] at h; exact Or.inl h
  · simp only [hb, if_false] at h
    by_cases hnc : T.nc b = true
    · simp only [hnc, Bool.not_true, Bool.false_eq_true, if_false] at h
      have h1 := route_stored_sub T _ b x (search_stored_sub T hint _ x h)
      by_cases hx : x = b
      · exact Or.inr ⟨hx, hb, hnc⟩
      · left; simpa [upd_other _ _ hx] using h1
    · have : T.nc b = false := by simpa using hnc
      simp only [this, Bool.not_false, if_true] at h
      exact Or.inl h

theorem verify_stored_sub (T : Tree) (s : State) (x : Nat)
    (h : (verifyHead T s).1.stored x = true) : s.stored x = true := by
  have hact := verifyHead_act T s
  generalize verifyHead T s = r at hact h
  cases hact with
  | empty _ => exact h
  | fail b q _ _ =>
    simp only [verifyFail] at h
    by_cases hx : x = b
    · subst hx; simp at h
    · rwa [upd_other _ _ hx] at h
  | known b q ptd _ _ _ _ _ => exact h
  | best b q ptd _ _ _ _ _ => exact h
  | side b q ptd _ _ _ _ => exact h

theorem stepExpire_stored_sub (T : Tree) (pool0 : List Nat) (e : Nat) (acc : State × List Nat) (c x : Nat)
    (h : (stepExpire T pool0 e acc c).1.stored x = true) : acc.1.stored x = true := by
  unfold stepExpire at h
  by_cases hc : c ∈ acc.1.pool
  · simp only [hc, if_true] at h
    by_cases hg : expGone T pool0 e acc.2 c = true
    · simp only [hg, if_true, unpool] at h
      by_cases hx : x = c
      · subst hx; simp at h
      · rwa [upd_other _ _ hx] at h
    · simp only [hg] at h; exact h
  · simp only [hc, if_false] at h; exact h

theorem expire_stored_sub (T : Tree) (s : State) (x : Nat)
    (h : (expire T s).stored x = true) : s.stored x = true := by
  unfold expire at h
  exact foldl_preserves (stepExpire T s.pool (T.epoch s.tip))
    (fun acc => acc.1.stored x = true → s.stored x = true)
    (fun acc c ih h' => ih (stepExpire_stored_sub T s.pool _ acc c x h')) _ _ (fun h' => h') h

/-- block data is written only by the `insert_block` commit of a delivery of a block that passed the
non-contextual verification -/
theorem step_stored_sub (T : Tree) (s : State) (op : Op) (x : Nat)
    (h : (step T s op).1.stored x = true) :
    s.stored x = true ∨ ((∃ hint, op = Op.deliver x hint) ∧ x ≠ 0 ∧ T.nc x = true) := by
  cases op with
  | deliver b hint =>
    rcases deliver_stored_sub T hint s b x h with h1 | ⟨h1, h2, h3⟩
    · exact Or.inl h1
    · subst h1; exact Or.inr ⟨⟨hint, rfl⟩, h2, h3⟩
  | verify => exact Or.inl (verify_stored_sub T s x h)
  | expire => exact Or.inl (expire_stored_sub T s x h)
  | crash => exact Or.inl h

/-- everything stored was delivered (or was stored at the start), and is non-contextually valid -/
theorem stored_run (T : Tree) : ∀ (ops : List Op) (s : State) (x : Nat),
    (run T s ops).stored x = true →
    s.stored x = true ∨ (x ∈ delivered ops ∧ x ≠ 0 ∧ T.nc x = true) := by
  intro ops
  induction ops with
  | nil => intro s x h; exact Or.inl h
  | cons op ops ih =>
    intro s x h
    rcases ih _ x h with h1 | ⟨h1, h2, h3⟩
    · rcases step_stored_sub T s op x h1 with h4 | ⟨⟨hint, h4⟩, h5, h6⟩
      · exact Or.inl h4
      · subst h4; exact Or.inr ⟨by simp [delivered], h5, h6⟩
    · refine Or.inr ⟨?_, h2, h3⟩
      cases op with
      | deliver b hint => simp [delivered, h1]
      | verify => exact h1
      | expire => exact h1
      | crash => exact h1

theorem stored_reachable (T : Tree) (ops : List Op) (x : Nat) (hx : x ≠ 0)
    (h : (run T (init T) ops).stored x = true) : x ∈ delivered ops ∧ T.nc x = true := by
  rcases stored_run T ops (init T) x h with h1 | ⟨h1, _, h3⟩
  · simp [init, hx] at h1
  · exact ⟨h1, h3⟩

/-! ## Lists of operations -/

theorem run_append (T : Tree) : ∀ (a b : List Op) (s : State), run T s (a ++ b) = run T (run T s a) b := by
  intro a
  induction a with
  | nil => intro b s; rfl
  | cons x xs ih => intro b s; exact ih b _

theorem delivered_append : ∀ (a b : List Op), delivered (a ++ b) = delivered a ++ delivered b := by
  intro a
  induction a with
  | nil => intro b; rfl
  | cons x xs ih =>
    intro b
    cases x with
    | deliver y hint => simp [delivered, ih]
    | verify => simpa [delivered] using ih b
    | expire => simpa [delivered] using ih b
    | crash => simpa [delivered] using ih b

/-! ## Deliveries into a node without BLOCK_INVALID entries (a freshly restarted node) -/

/-- no BLOCK_INVALID entry in the status map -/
def NoInv (s : State) : Prop := ∀ x, s.invalid x = false

/-- the frame of such deliveries: what the start state had queued / pooled / seen stays so -/
structure Kept (s s' : State) : Prop where
  noInv : NoInv s'
  td : s'.td = s.td
  held : ∀ y, (y ∈ s.queue ∨ y ∈ s.pool) → (y ∈ s'.queue ∨ y ∈ s'.pool)
  stored : ∀ y, s.stored y = true → s'.stored y = true
  seen : ∀ y, s.seen y = true → s'.seen y = true
  fired : s'.expiryFired = s.expiryFired

theorem Kept.refl {s : State} (h : NoInv s) : Kept s s :=
  ⟨h, rfl, fun _ h => h, fun _ h => h, fun _ h => h, rfl⟩

theorem Kept.trans {a b c : State} (h1 : Kept a b) (h2 : Kept b c) : Kept a c :=
  ⟨h2.noInv, h2.td.trans h1.td, fun y h => h2.held y (h1.held y h), fun y h => h2.stored y (h1.stored y h),
    fun y h => h2.seen y (h1.seen y h), h2.fired.trans h1.fired⟩

theorem kept_stepPool (T : Tree) (pool0 : List Nat) (s : State) (acc : State × Out) (c : Nat)
    (h : Kept s acc.1) : Kept s (stepPool T pool0 acc c).1 := by
  have hact := stepPool_act T pool0 acc c
  generalize stepPool T pool0 acc c = r at hact ⊢
  cases hact with
  | skip _ => exact h
  | accept hc _ =>
    refine h.trans ⟨h.noInv, rfl, ?_, fun _ h => h, fun _ h => h, rfl⟩
    intro y hy
    simp only [enqueue, unpool, List.mem_append, List.mem_singleton, List.mem_filter, bne_iff_ne, ne_eq]
    by_cases hyc : y = c
    · exact Or.inl (Or.inr hyc)
    · rcases hy with hy | hy
      · exact Or.inl (Or.inl hy)
      · exact Or.inr ⟨hy, hyc⟩
  | reject _ hi => rw [h.noInv] at hi; exact absurd hi (by simp)

theorem kept_search (T : Tree) (hint : List Nat) (s : State) (h : NoInv s) : Kept s (search T hint s).1 := by
  unfold search
  exact foldl_preserves (stepPool T s.pool) (fun acc => Kept s acc.1)
    (fun acc c ih => kept_stepPool T s.pool s acc c ih) _ _ (Kept.refl h)

/-- one delivery of an nc-valid block into a node without BLOCK_INVALID entries: nothing is rejected,
the block ends in the verify queue or in the orphan pool -/
theorem kept_deliver (T : Tree) (hint : List Nat) (s : State) (h : NoInv s) (b : Nat) (hb : b ≠ 0)
    (hnc : T.nc b = true) :
    Kept s (deliver T hint s b).1 ∧
    (b ∈ (deliver T hint s b).1.queue ∨ b ∈ (deliver T hint s b).1.pool) ∧
    (deliver T hint s b).1.stored b = true ∧ (deliver T hint s b).1.seen b = true := by
  unfold deliver
  simp only [hb, if_false, hnc, Bool.not_true, Bool.false_eq_true]
  -- insert_block
  have k1 : Kept s { s with seen := upd s.seen b true, stored := upd s.stored b true, commits := s.commits + 1 } := by
    refine ⟨h, rfl, fun _ h => h, ?_, ?_, rfl⟩
    · intro y hy
      show upd s.stored b true y = true
      by_cases hyb : y = b
      · rw [hyb]; simp
      · rw [upd_other _ _ hyb]; exact hy
    · intro y hy
      show upd s.seen b true y = true
      by_cases hyb : y = b
      · rw [hyb]; simp
      · rw [upd_other _ _ hyb]; exact hy
  -- route
  have hact := route_act T { s with seen := upd s.seen b true, stored := upd s.stored b true, commits := s.commits + 1 } b
  generalize hs1 : ({ s with seen := upd s.seen b true, stored := upd s.stored b true, commits := s.commits + 1 } : State) = s1 at hact k1
  have st1 : s1.stored b = true ∧ s1.seen b = true := by rw [← hs1]; simp
  have k2 : Kept s1 (route T s1 b).1 ∧ (b ∈ (route T s1 b).1.queue ∨ b ∈ (route T s1 b).1.pool) := by
    generalize route T s1 b = r at hact ⊢
    cases hact with
    | accept _ =>
      refine ⟨⟨k1.noInv, rfl, ?_, fun _ h => h, fun _ h => h, rfl⟩, Or.inl (by simp [enqueue])⟩
      intro y hy
      rcases hy with hy | hy
      · exact Or.inl (by simp [enqueue, hy])
      · exact Or.inr hy
    | reject _ hi => rw [k1.noInv] at hi; exact absurd hi (by simp)
    | dup _ _ hm => exact ⟨Kept.refl k1.noInv, Or.inr hm⟩
    | hold _ _ _ =>
      refine ⟨⟨k1.noInv, rfl, ?_, fun _ h => h, fun _ h => h, rfl⟩, Or.inr (by simp)⟩
      intro y hy
      rcases hy with hy | hy
      · exact Or.inl hy
      · exact Or.inr (List.mem_cons_of_mem _ hy)
  obtain ⟨k2, m2⟩ := k2
  have k3 := kept_search T hint (route T s1 b).1 k2.noInv
  exact ⟨k1.trans (k2.trans k3), k3.held b m2, k3.stored b (k2.stored b st1.1), k3.seen b (k2.seen b st1.2)⟩

/-- a run of deliveries of nc-valid blocks into a node without BLOCK_INVALID entries -/
theorem run_delivers (T : Tree) : ∀ (l : List Nat) (s : State), NoInv s →
    (∀ b ∈ l, b ≠ 0 ∧ T.nc b = true) →
    Kept s (run T s (l.map fun b => Op.deliver b [])) ∧
    ∀ b ∈ l, (b ∈ (run T s (l.map fun b => Op.deliver b [])).queue ∨
              b ∈ (run T s (l.map fun b => Op.deliver b [])).pool) ∧
             (run T s (l.map fun b => Op.deliver b [])).stored b = true ∧
             (run T s (l.map fun b => Op.deliver b [])).seen b = true := by
  intro l
  induction l with
  | nil => intro s h _; exact ⟨Kept.refl h, fun b hb => by simp at hb⟩
  | cons x xs ih =>
    intro s h hl
    obtain ⟨hx0, hxnc⟩ := hl x List.mem_cons_self
    obtain ⟨k1, m1, st1, sn1⟩ := kept_deliver T [] s h x hx0 hxnc
    obtain ⟨k2, m2⟩ := ih (deliver T [] s x).1 k1.noInv (fun b hb => hl b (List.mem_cons_of_mem _ hb))
    refine ⟨k1.trans k2, ?_⟩
    intro b hb
    rcases List.mem_cons.mp hb with hbx | hbx
    · subst hbx; exact ⟨k2.held b m1, k2.stored b st1, k2.seen b sn1⟩
    · exact m2 b hbx

end CkbVerif.Chain
