/-
C11 helper lemmas, part 7: the closure computation of the model (`saturate` / `calcRelation`, the
model of `TxLinksMap::calc_relation_ids`) is correct for every graph: its result is duplicate-free and
contains exactly the nodes reachable from the stage (`RT`, reflexive-transitive reachability).
-/
import CkbVerif.Lemmas.PoolLinks
namespace CkbVerif.Pool

/-- reflexive-transitive reachability along a successor function -/
inductive RT (g : Nat → List Nat) : Nat → Nat → Prop
  | refl (x : Nat) : RT g x x
  | step {x y z : Nat} : y ∈ g x → RT g y z → RT g x z

theorem RT.trans {g : Nat → List Nat} {x y z : Nat} (h1 : RT g x y) (h2 : RT g y z) : RT g x z := by
  induction h1 with
  | refl => exact h2
  | step hy _ ih => exact .step hy (ih h2)

theorem RT.snoc {g : Nat → List Nat} {x y z : Nat} (h1 : RT g x y) (h2 : z ∈ g y) : RT g x z :=
  h1.trans (.step h2 (.refl z))

/-- reachability in the converse graph -/
theorem RT.conv {g g' : Nat → List Nat} (hc : ∀ a b, b ∈ g a → a ∈ g' b) {x y : Nat} (h : RT g x y) : RT g' y x := by
  induction h with
  | refl => exact .refl _
  | step hy _ ih => exact ih.snoc (hc _ _ hy)

theorem nodup_union {α} [DecidableEq α] (a b : List α) (ha : a.Nodup) (hb : b.Nodup) : (union a b).Nodup := by
  unfold union
  refine List.nodup_append.mpr ⟨ha, List.Nodup.sublist List.filter_sublist hb, ?_⟩
  intro x hx y hy hxy
  have := (List.mem_filter.mp hy).2
  simp only [decide_eq_true_eq] at this
  exact this (hxy ▸ hx)

theorem nodup_expand (g : Nat → List Nat) (A : List Nat) (h : A.Nodup) : (expand g A).Nodup :=
  nodup_union _ _ h (nodup_dedup _)

theorem mem_expand (g : Nat → List Nat) (A : List Nat) (y : Nat) :
    y ∈ expand g A ↔ y ∈ A ∨ ∃ x ∈ A, y ∈ g x := by
  unfold expand
  rw [mem_union, mem_dedup, List.mem_flatMap]

theorem nodup_saturate (g : Nat → List Nat) (f : Nat) (A : List Nat) (h : A.Nodup) : (saturate g f A).Nodup := by
  induction f generalizing A with
  | zero => exact h
  | succ n ih =>
    unfold saturate
    simp only
    split
    · exact h
    · exact ih _ (nodup_expand g A h)

/-- soundness: everything in the result is reachable from the start set -/
theorem saturate_sound (g : Nat → List Nat) (f : Nat) (A : List Nat) (y : Nat) (h : y ∈ saturate g f A) :
    ∃ x ∈ A, RT g x y := by
  induction f generalizing A with
  | zero => exact ⟨y, h, .refl y⟩
  | succ n ih =>
    unfold saturate at h
    simp only at h
    split at h
    · exact ⟨y, h, .refl y⟩
    · obtain ⟨x, hx, hr⟩ := ih _ h
      rcases (mem_expand g A x).mp hx with a | ⟨x0, hx0, hg⟩
      · exact ⟨x, a, hr⟩
      · exact ⟨x0, hx0, .step hg hr⟩

/-- a stable round means the set is closed -/
theorem closed_of_stable (g : Nat → List Nat) (A : List Nat) (h : (expand g A).length = A.length) :
    ∀ x ∈ A, ∀ y ∈ g x, y ∈ A := by
  unfold expand union at h
  rw [List.length_append] at h
  have hnil : (dedup (A.flatMap g)).filter (· ∉ A) = [] := by
    apply List.eq_nil_of_length_eq_zero; omega
  intro x hx y hy
  have hm : y ∈ dedup (A.flatMap g) := (mem_dedup _ _).mpr (List.mem_flatMap.mpr ⟨x, hx, hy⟩)
  by_cases hA : y ∈ A
  · exact hA
  · have : y ∈ (dedup (A.flatMap g)).filter (· ∉ A) := List.mem_filter.mpr ⟨hm, by simpa using hA⟩
    rw [hnil] at this; cases this

theorem length_expand_ge (g : Nat → List Nat) (A : List Nat) : A.length ≤ (expand g A).length := by
  unfold expand union; rw [List.length_append]; omega

/-- with enough fuel the result is closed under `g` (every unfinished round adds a node of `U`) -/
theorem saturate_closed (g : Nat → List Nat) (U : List Nat) (hU : ∀ x ∈ U, ∀ y ∈ g x, y ∈ U)
    (f : Nat) (A : List Nat) (hn : A.Nodup) (hA : ∀ x ∈ A, x ∈ U) (hf : U.length < f + A.length) :
    ∀ x ∈ saturate g f A, ∀ y ∈ g x, y ∈ saturate g f A := by
  induction f generalizing A with
  | zero =>
    have := List.Nodup.length_le_of_subset hn (fun x hx => hA x hx)
    omega
  | succ n ih =>
    unfold saturate
    simp only
    split
    · rename_i hst; exact closed_of_stable g A hst
    · rename_i hst
      have hge := length_expand_ge g A
      apply ih _ (nodup_expand g A hn)
      · intro x hx
        rcases (mem_expand g A x).mp hx with a | ⟨x0, hx0, hg⟩
        · exact hA x a
        · exact hU x0 (hA x0 hx0) x hg
      · omega

theorem saturate_complete (g : Nat → List Nat) (U : List Nat) (hU : ∀ x ∈ U, ∀ y ∈ g x, y ∈ U)
    (f : Nat) (A : List Nat) (hn : A.Nodup) (hA : ∀ x ∈ A, x ∈ U) (hf : U.length < f + A.length)
    (x y : Nat) (hx : x ∈ A) (hr : RT g x y) : y ∈ saturate g f A := by
  have hc := saturate_closed g U hU f A hn hA hf
  have hx' := sub_saturate g f A x hx
  clear hx
  induction hr with
  | refl => exact hx'
  | step hy _ ih => exact ih (hc _ hx' _ hy)

/-- `calc_relation_ids`: the stage plus everything reachable from it, when every successor is a key -/
theorem mem_calcRelation (g : Nat → List Nat) (ns stage : List Nat) (hg : ∀ x y, y ∈ g x → y ∈ ns) (y : Nat) :
    y ∈ calcRelation g ns stage ↔ ∃ x ∈ stage, RT g x y := by
  unfold calcRelation
  constructor
  · intro h
    obtain ⟨x, hx, hr⟩ := saturate_sound g _ _ y h
    exact ⟨x, (mem_dedup _ _).mp hx, hr⟩
  · rintro ⟨x, hx, hr⟩
    refine saturate_complete g (ns ++ dedup stage) ?_ _ _ (nodup_dedup _) ?_ ?_ x y ((mem_dedup _ _).mpr hx) hr
    · intro a _ b hb; exact List.mem_append.mpr (Or.inl (hg a b hb))
    · intro a ha; exact List.mem_append.mpr (Or.inr ha)
    · rw [List.length_append]
      have : (dedup stage).length ≤ stage.length := by
        clear hx hr
        induction stage with
        | nil => simp [dedup]
        | cons a l ih => simp only [dedup]; split <;> simp only [List.length_cons] <;> omega
      omega

theorem nodup_calcRelation (g : Nat → List Nat) (ns stage : List Nat) : (calcRelation g ns stage).Nodup :=
  nodup_saturate g _ _ (nodup_dedup _)

/-! ### ancestors / descendants of the link map -/

/-- `y` is reachable from `x` along parent links in one or more steps -/
def Anc (L : LinkMap) (x y : Nat) : Prop := ∃ p ∈ parentsOf L x, RT (parentsOf L) p y
def Desc (L : LinkMap) (x y : Nat) : Prop := ∃ c ∈ childrenOf L x, RT (childrenOf L) c y

theorem mem_calcAnc {L : LinkMap} (h : LinkStruct L) (x y : Nat) : y ∈ calcAnc L x ↔ Anc L x y :=
  mem_calcRelation _ _ _ (fun _ _ hb => (h.parent_key hb).1) y

theorem mem_calcDesc {L : LinkMap} (h : LinkStruct L) (x y : Nat) : y ∈ calcDesc L x ↔ Desc L x y :=
  mem_calcRelation _ _ _ (fun a b hb => (h.parent_key ((h.sym a b).mpr hb)).2) y

theorem nodup_calcAnc (L : LinkMap) (x : Nat) : (calcAnc L x).Nodup := nodup_calcRelation _ _ _
theorem nodup_calcDesc (L : LinkMap) (x : Nat) : (calcDesc L x).Nodup := nodup_calcRelation _ _ _

/-- descendants are the converse of ancestors -/
theorem desc_iff_anc {L : LinkMap} (h : LinkStruct L) (x y : Nat) : Desc L x y ↔ Anc L y x := by
  constructor
  · rintro ⟨c, hc, hr⟩
    -- x -> c ->* y along children; reversed: y ->* c -> x along parents
    have hr' : RT (parentsOf L) y c := hr.conv (fun a b hb => (h.sym a b).mpr hb)
    have hx : x ∈ parentsOf L c := (h.sym x c).mpr hc
    -- split the first step of y ->* c -> x
    have : RT (parentsOf L) y x := hr'.snoc hx
    cases hr' with
    | refl => exact ⟨x, hx, .refl x⟩
    | step hy hrest => exact ⟨_, hy, hrest.snoc hx⟩
  · rintro ⟨p, hp, hr⟩
    have hr' : RT (childrenOf L) x p := hr.conv (fun a b hb => (h.sym b a).mp hb)
    have hy : y ∈ childrenOf L p := (h.sym p y).mp hp
    cases hr' with
    | refl => exact ⟨y, hy, .refl y⟩
    | step hc hrest => exact ⟨_, hc, hrest.snoc hy⟩

end CkbVerif.Pool
