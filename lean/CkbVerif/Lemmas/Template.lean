import CkbVerif.Model.Template

namespace CkbVerif.Template

theorem step_max (s : TSt) (op : Op) : (step s op).max = s.max ∧ (step s op).U = s.U := by
  cases op <;> simp only [step] <;> (repeat' split) <;> simp

theorem Inv.step {s : TSt} (h : Inv s) (op : Op) (hs : op.selOk) (hb : op.blankOk s.max s.U) :
    Inv (step s op) := by
  obtain ⟨h1, h2, h3, h4, h5⟩ := h
  cases op with
  | blank base n =>
    simp only [Op.blankOk] at hb
    refine ⟨?_, rfl, ?_, rfl, ?_⟩ <;> simp [Template.step, TSt.actual, basic] <;> omega
  | full p sel =>
    simp only [Op.selOk] at hs
    simp only [Template.step]
    split
    · exact ⟨h1, h2, h3, h4, h5⟩
    · rename_i hle
      have := hs (s.max - basic s s.nUncles p)
      refine ⟨?_, rfl, rfl, h4, ?_⟩ <;> simp [TSt.actual, basic] at * <;> omega
  | uncles n maxU =>
    simp only [Template.step]
    split
    · split
      · split
        · rename_i hlt
          refine ⟨?_, h2, h3, rfl, ?_⟩
          · simp only [TSt.actual, basic, calcTotal] at *
            split <;> omega
          · simp only [TSt.actual, basic, calcTotal] at *
            split at hlt <;> omega
        · exact ⟨h1, h2, h3, h4, h5⟩
      · exact ⟨h1, h2, h3, h4, h5⟩
    · exact ⟨h1, h2, h3, h4, h5⟩
  | proposals p =>
    simp only [Template.step]
    split
    · rename_i hlt
      refine ⟨?_, h2, rfl, h4, ?_⟩
      · simp only [TSt.actual, basic, calcTotal] at *
        split <;> omega
      · simp only [TSt.actual, basic, calcTotal] at *
        split at hlt <;> omega
    · exact ⟨h1, h2, h3, h4, h5⟩
  | txs sel =>
    simp only [Op.selOk] at hs
    simp only [Template.step]
    split
    · exact ⟨h1, h2, h3, h4, h5⟩
    · rename_i hle
      have hsel := hs (s.max - basic s s.nUncles s.nProposals)
      generalize sel (s.max - basic s s.nUncles s.nProposals) = t at *
      refine ⟨?_, rfl, h3, h4, ?_⟩
      · simp only [TSt.actual, calcTotal] at *
        by_cases ht : t > s.sTxs
        · rw [if_pos ht]; simp only [basic] at *; omega
        · rw [if_neg ht]; simp only [basic] at *; omega
      · simp only [TSt.actual, basic] at *
        omega

end CkbVerif.Template
