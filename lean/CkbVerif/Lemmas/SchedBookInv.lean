import CkbVerif.Lemmas.SchedBook
import CkbVerif.Lemmas.SchedBookW
import CkbVerif.Lemmas.SchedBookP

/-! The fd-ownership invariant of waiting VMs (`IoInv`) and its preservation by every step of the
scheduler bookkeeping model. -/
namespace CkbVerif.SchedBook
open CkbVerif.Gen.Cycles

/-- the VM state waits on `fd` -/
def WaitsOn (v : VmState) (fd : Nat) : Prop :=
  (∃ len, v = .waitRead fd len) ∨ (∃ c len, v = .waitWrite fd c len)

/-- `states` is an ordered map; a VM that waits for a read or a write on an fd OWNS that fd; every
fd that exists is below `next_fd_slot` (the two ends of a pipe are the adjacent slots `fd`,
`fd ^ 1` handed out together by `Fd::create`) -/
structure IoInv (s : Sch) : Prop where
  ks : KS s.states
  own : ∀ x v fd, (x, v) ∈ s.states → WaitsOn v fd → mget fd s.fds = some x
  fresh : ∀ fd x, mget fd s.fds = some x → fd < s.nextFd

theorem IoInv.congr {s t : Sch} (h1 : t.states = s.states) (h2 : t.fds = s.fds) (h3 : t.nextFd = s.nextFd)
    (h : IoInv s) : IoInv t :=
  ⟨by rw [h1]; exact h.ks, by rw [h1, h2]; exact h.own, by rw [h2, h3]; exact h.fresh⟩

theorem IoInv.core {s t : Sch} (hc : SameCore s t) (h : IoInv s) : IoInv t :=
  h.congr hc.2.2.2.1 hc.2.2.2.2.1 hc.2.2.1

/-- writing a state for VM `k` that waits only on fds `k` owns keeps the invariant -/
theorem IoInv.insert {s t : Sch} (k : Nat) (v : VmState) (h : IoInv s)
    (hv : ∀ fd, WaitsOn v fd → mget fd s.fds = some k)
    (h1 : t.states = minsert k v s.states) (h2 : t.fds = s.fds) (h3 : t.nextFd = s.nextFd) : IoInv t := by
  refine ⟨by rw [h1]; exact KS_minsert _ _ _ h.ks, ?_, by rw [h2, h3]; exact h.fresh⟩
  intro x w fd hm hw
  rw [h1] at hm
  rw [h2]
  rcases mem_minsert_sub k v _ _ hm with e | e
  · cases e; exact hv fd hw
  · exact h.own x w fd e hw

theorem not_waitsOn_runnable (fd : Nat) : ¬ WaitsOn .runnable fd := by
  rintro (⟨_, h⟩ | ⟨_, _, h⟩) <;> cases h

theorem not_waitsOn_wait (t fd : Nat) : ¬ WaitsOn (.wait t) fd := by
  rintro (⟨_, h⟩ | ⟨_, _, h⟩) <;> cases h

theorem not_waitsOn_terminated (fd : Nat) : ¬ WaitsOn .terminated fd := by
  rintro (⟨_, h⟩ | ⟨_, _, h⟩) <;> cases h

/-! ### `process_io` -/

theorem serveClosed_inv : ∀ (l : List Nat) (s t : Sch), IoInv s → serveClosed l s = .ok t → IoInv t := by
  intro l
  induction l with
  | nil => intro s t hi h; simp [serveClosed] at h; subst h; exact hi
  | cons vm rest ih =>
    intro s t hi h
    unfold serveClosed at h
    split at h
    · split at h
      · cases h
      · rename_i s1 he
        refine ih _ t ?_ h
        exact (hi.core (ensureInst_core he)).insert vm .runnable (fun fd hw => absurd hw (not_waitsOn_runnable fd)) rfl rfl rfl
    · split at h
      · cases h
      · rename_i s1 he
        refine ih _ t ?_ h
        exact (hi.core (ensureInst_core he)).insert vm .runnable (fun fd hw => absurd hw (not_waitsOn_runnable fd)) rfl rfl rfl
    · exact ih s t hi h

theorem servePairs_inv : ∀ (l : List Pair) (s t : Sch), (∀ p ∈ l, mget p.wfd s.fds = some p.writer) →
    IoInv s → servePairs l s = .ok t → IoInv t := by
  intro l
  induction l with
  | nil => intro s t _ hi h; simp [servePairs] at h; subst h; exact hi
  | cons p rest ih =>
    intro s t hp hi h
    unfold servePairs at h
    split at h
    · cases h
    · rename_i s1 he
      simp only at h
      have hc := ensureInst_core he
      have hfd : s1.fds = s.fds := hc.2.2.2.2.1
      have i1 : IoInv s1 := hi.core hc
      have hown := hp p List.mem_cons_self
      have hrest : ∀ q ∈ rest, mget q.wfd s.fds = some q.writer := fun q hq => hp q (List.mem_cons_of_mem _ hq)
      have i2 : IoInv { s1 with log := Out.io p.reader p.writer (min p.rlen (p.wlen - p.consumed)) :: s1.log,
                                states := minsert p.reader VmState.runnable s1.states } :=
        i1.insert p.reader .runnable (fun fd hw => absurd hw (not_waitsOn_runnable fd)) rfl rfl rfl
      split at h
      · refine ih _ t ?_ ?_ h
        · simp only [hfd]; exact hrest
        · exact i2.insert p.writer .runnable (fun fd hw => absurd hw (not_waitsOn_runnable fd)) rfl rfl rfl
      · refine ih _ t ?_ ?_ h
        · simp only [hfd]; exact hrest
        refine i2.insert p.writer _ ?_ rfl rfl rfl
        intro fd hw
        rcases hw with ⟨_, e⟩ | ⟨_, _, e⟩
        · cases e
        · cases e; simp only [hfd]; exact hown

/-- `process_io` keeps the invariant -/
theorem processIo_inv (s t : Sch) (hi : IoInv s) (h : processIo s = .ok t) : IoInv t := by
  unfold processIo at h
  simp only at h
  split at h
  · cases h
  · rename_i s1 he
    have i0 : IoInv ({ s with log := Out.ioScan (closedReaders s ++ closedWriters s).length (ioPairs s).length :: s.log } : Sch) :=
      IoInv.congr (s := s) rfl rfl rfl hi
    have i1 := serveClosed_inv _ _ s1 i0 he
    have hfd : s1.fds = s.fds := (serveClosed_okW _ _ s1 he).1
    refine servePairs_inv _ s1 t ?_ i1 h
    intro p hp
    rw [hfd]
    exact hi.own _ _ _ (ioPairs_open s p hp).2 (.inr ⟨_, _, rfl⟩)

/-! ### messages -/

theorem mget_filter_key {α : Type} (q : Nat → Bool) (k : Nat) (l : List (Nat × α)) :
    mget k (l.filter (fun x => q x.1)) = if q k = true then mget k l else none := by
  induction l with
  | nil => simp [mget]
  | cons p l ih =>
    obtain ⟨a, w⟩ := p
    by_cases hq : q a = true
    · simp only [List.filter_cons, hq, if_true, mget]
      by_cases e : k = a
      · subst e; simp [hq]
      · simp only [e, if_false]; exact ih
    · simp only [List.filter_cons, hq, Bool.false_eq_true, if_false, ih]
      by_cases e : k = a
      · subst e; simp [hq]
      · simp [mget, e]

theorem mget_mremove_ne {α : Type} (k k' : Nat) (l : List (Nat × α)) (h : k ≠ k') :
    mget k (mremove k' l) = mget k l := by
  have := mget_filter_key (fun a => decide (a ≠ k')) k l
  unfold mremove
  rw [this]; simp [h]

theorem mget_mremove_self {α : Type} (k : Nat) (l : List (Nat × α)) : mget k (mremove k l) = none := by
  have := mget_filter_key (fun a => decide (a ≠ k)) k l
  unfold mremove
  rw [this]; simp

theorem mget_filter_some {α : Type} (p : Nat × α → Bool) (k : Nat) (l : List (Nat × α)) (v : α)
    (h : mget k (l.filter p) = some v) : ∃ v', mget k l = some v' := by
  induction l with
  | nil => simp [mget] at h
  | cons q l ih =>
    obtain ⟨a, w⟩ := q
    by_cases e : k = a
    · exact ⟨w, by simp [mget, e]⟩
    · by_cases hp : p (a, w) = true
      · simp only [List.filter_cons, hp, if_true, mget, e, if_false] at h
        obtain ⟨v', hv⟩ := ih h
        exact ⟨v', by simp [mget, e, hv]⟩
      · simp only [List.filter_cons, hp, Bool.false_eq_true, if_false] at h
        obtain ⟨v', hv⟩ := ih h
        exact ⟨v', by simp [mget, e, hv]⟩

theorem mget_filter_keep {α : Type} (p : Nat × α → Bool) (k : Nat) (l : List (Nat × α)) (v : α)
    (h : mget k l = some v) (hp : p (k, v) = true) : mget k (l.filter p) = some v := by
  induction l with
  | nil => simp [mget] at h
  | cons q l ih =>
    obtain ⟨a, w⟩ := q
    by_cases e : k = a
    · subst e
      simp only [mget, if_true, Option.some.injEq] at h
      subst h
      simp [List.filter_cons, hp, mget]
    · simp only [mget, e, if_false] at h
      by_cases hq : p (a, w) = true
      · simp [List.filter_cons, hq, mget, e, ih h]
      · simp [List.filter_cons, hq, ih h]

theorem mget_foldl_minsert (id : Nat) : ∀ (L : List Nat) (fds : List (Nat × Nat)) (fd : Nat),
    mget fd (L.foldl (fun acc f => minsert f id acc) fds) = if fd ∈ L then some id else mget fd fds := by
  intro L
  induction L with
  | nil => intro fds fd; simp
  | cons f rest ih =>
    intro fds fd
    simp only [List.foldl_cons, ih, mget_minsert, List.mem_cons]
    by_cases h1 : fd ∈ rest
    · simp [h1]
    · by_cases h2 : fd = f <;> simp [h1, h2]

theorem evictLoop_core : ∀ (fuel : Nat) (s t : Sch), evictLoop fuel s = .ok t → SameCore s t := by
  intro fuel
  induction fuel with
  | zero => intro s t h; simp [evictLoop] at h; subst h; exact SameCore.refl s
  | succ n ih =>
    intro s t h
    unfold evictLoop at h
    split at h
    · split at h
      · cases h
      · rename_i id _ _
        split at h
        · cases h
        · rename_i s' hs
          exact (suspendVm_core hs).trans (ih s' t h)
    · cases h; exact SameCore.refl s

theorem bootVm_shape {parent : Option Nat} {s t : Sch} {id : Nat} (h : bootVm parent s = .ok (id, t)) :
    id = s.nextVm ∧ t.states = minsert s.nextVm .runnable s.states ∧ t.fds = s.fds ∧ t.nextFd = s.nextFd := by
  unfold bootVm at h
  simp only at h
  have key : ∀ s1 : Sch, SameCore { s with nextVm := s.nextVm + 1 } s1 →
      (match evictLoop (s1.inst.length + 1) s1 with
        | .error e => (.error e : Except SErr (Nat × Sch))
        | .ok s2 => .ok (s.nextVm, { s2 with inst := sinsert s.nextVm s2.inst, states := minsert s.nextVm .runnable s2.states })) = .ok (id, t) →
      id = s.nextVm ∧ t.states = minsert s.nextVm .runnable s.states ∧ t.fds = s.fds ∧ t.nextFd = s.nextFd := by
    intro s1 hc h'
    split at h'
    · cases h'
    · rename_i s2 he
      have c2 := hc.trans (evictLoop_core _ _ _ he)
      simp only [Except.ok.injEq, Prod.mk.injEq] at h'
      obtain ⟨e1, e2⟩ := h'
      subst e1 e2
      exact ⟨rfl, by simp only [c2.2.2.2.1], c2.2.2.2.2.1, c2.2.2.1⟩
  cases parent with
  | none => exact key _ (SameCore.refl _) h
  | some p =>
    simp only at h
    split at h
    · cases h
    · rename_i s1 he
      exact key s1 (ensureInst_core he) h

def Msg.sender : Msg → Nat
  | .exec vm | .spawn vm _ | .wait vm _ | .pipe vm | .read vm _ _ | .write vm _ _ | .inh vm | .close vm _ => vm

/-- a VM that is `Runnable` waits on nothing: it is not the owner-waiter of any fd -/
theorem waiter_ne_runnable {s : Sch} (hi : IoInv s) {vm x : Nat} {v : VmState} {fd : Nat}
    (hrun : mget vm s.states = some .runnable) (hm : (x, v) ∈ s.states) (hw : WaitsOn v fd) : x ≠ vm := by
  intro e
  subst e
  have := mget_of_mem _ hi.ks _ _ hm
  rw [hrun] at this
  cases this
  exact not_waitsOn_runnable fd hw

/-- every message of a `Runnable` sender keeps the invariant -/
theorem processMsg_inv (m : Msg) (s t : Sch) (hi : IoInv s) (hrun : mget m.sender s.states = some .runnable)
    (h : processMsg m s = .ok t) : IoInv t := by
  cases m with
  | exec vm =>
    simp only [processMsg] at h
    split at h
    · exact hi.core (ensureInst_core h)
    · cases h
  | inh vm => exact hi.core (ensureInst_core (by simpa [processMsg] using h))
  | wait vm target =>
    simp only [processMsg] at h
    split at h
    · split at h
      · cases h
      · rename_i s1 he
        cases h
        exact (hi.core (ensureInst_core he)).insert vm .runnable (fun fd hw => absurd hw (not_waitsOn_runnable fd)) rfl rfl rfl
    · split at h
      · exact hi.core (ensureInst_core h)
      · cases h
        exact hi.insert vm (.wait target) (fun fd hw => absurd hw (not_waitsOn_wait _ fd)) rfl rfl rfl
  | read vm fd len =>
    simp only [processMsg] at h
    split at h
    · exact hi.core (ensureInst_core h)
    · rename_i hown
      split at h
      · exact hi.core (ensureInst_core h)
      · cases h
        refine hi.insert vm (.waitRead fd len) ?_ rfl rfl rfl
        intro fd' hw
        rcases hw with ⟨_, e⟩ | ⟨_, _, e⟩
        · cases e; simpa using hown
        · cases e
  | write vm fd len =>
    simp only [processMsg] at h
    split at h
    · exact hi.core (ensureInst_core h)
    · rename_i hown
      split at h
      · exact hi.core (ensureInst_core h)
      · cases h
        refine hi.insert vm (.waitWrite fd 0 len) ?_ rfl rfl rfl
        intro fd' hw
        rcases hw with ⟨_, e⟩ | ⟨_, _, e⟩
        · cases e
        · cases e; simpa using hown
  | close vm fd =>
    simp only [processMsg] at h
    split at h
    · exact hi.core (ensureInst_core h)
    · rename_i hown
      have hown' : mget fd s.fds = some vm := by simpa using hown
      refine IoInv.core (ensureInst_core h) ?_
      refine ⟨hi.ks, ?_, ?_⟩
      · intro x v fd' hm hw
        have hx := hi.own x v fd' hm hw
        have hne : fd' ≠ fd := by
          intro e; subst e
          rw [hown'] at hx
          exact waiter_ne_runnable hi hrun hm hw (Option.some.inj hx).symm
        show mget fd' (mremove fd s.fds) = some x
        rw [mget_mremove_ne _ _ _ hne]; exact hx
      · intro fd' x hm
        have hm' : mget fd' (mremove fd s.fds) = some x := hm
        by_cases e : fd' = fd
        · subst e; rw [mget_mremove_self] at hm'; cases hm'
        · rw [mget_mremove_ne _ _ _ e] at hm'; exact hi.fresh fd' x hm'
  | pipe vm =>
    simp only [processMsg] at h
    split at h
    · exact hi.core (ensureInst_core h)
    · refine IoInv.core (ensureInst_core h) ?_
      refine ⟨hi.ks, ?_, ?_⟩
      · intro x v fd' hm hw
        have hx := hi.own x v fd' hm hw
        have hlt := hi.fresh fd' x hx
        show mget fd' (minsert (s.nextFd + 1) vm (minsert s.nextFd vm s.fds)) = some x
        rw [mget_minsert, mget_minsert]
        have h1 : ¬ fd' = s.nextFd + 1 := by omega
        have h2 : ¬ fd' = s.nextFd := by omega
        simp only [h1, h2, if_false]; exact hx
      · intro fd' x hm
        have hm' : mget fd' (minsert (s.nextFd + 1) vm (minsert s.nextFd vm s.fds)) = some x := hm
        rw [mget_minsert, mget_minsert] at hm'
        show fd' < s.nextFd + 2
        by_cases h1 : fd' = s.nextFd + 1
        · omega
        · by_cases h2 : fd' = s.nextFd
          · omega
          · simp only [h1, h2, if_false] at hm'
            have := hi.fresh fd' x hm'; omega
  | spawn vm fds =>
    simp only [processMsg] at h
    split at h
    · exact hi.core (ensureInst_core h)
    · rename_i hall
      split at h
      · exact hi.core (ensureInst_core h)
      · split at h
        · cases h
        · rename_i id s1 hb
          obtain ⟨hid, hst, hfd, hnf⟩ := bootVm_shape hb
          refine IoInv.core (ensureInst_core h) ?_
          have hfds : ∀ f ∈ fds, mget f s.fds = some vm := by
            intro f hf
            have := hall
            simp only [List.any_eq_true, not_exists, not_and, bne_iff_ne, ne_eq, Decidable.not_not] at this
            exact this f hf
          refine ⟨by show KS s1.states; rw [hst]; exact KS_minsert _ _ _ hi.ks, ?_, ?_⟩
          · intro x v fd' hm hw
            have hm' : (x, v) ∈ s1.states := hm
            rw [hst] at hm'
            show mget fd' (fds.foldl (fun acc f => minsert f id acc) s1.fds) = some x
            rw [mget_foldl_minsert, hfd]
            rcases mem_minsert_sub _ _ _ _ hm' with e | e
            · cases e; exact absurd hw (not_waitsOn_runnable fd')
            · have hx := hi.own x v fd' e hw
              have : fd' ∉ fds := by
                intro hin
                have := hfds fd' hin
                rw [hx] at this
                exact waiter_ne_runnable hi hrun e hw (Option.some.inj this)
              simp only [this, if_false]; exact hx
          · intro fd' x hm
            have hm' : mget fd' (fds.foldl (fun acc f => minsert f id acc) s1.fds) = some x := hm
            rw [mget_foldl_minsert, hfd] at hm'
            show fd' < s1.nextFd
            rw [hnf]
            by_cases hin : fd' ∈ fds
            · exact hi.fresh fd' vm (hfds fd' hin)
            · simp only [hin, if_false] at hm'; exact hi.fresh fd' x hm'

/-! ### results of a VM run, iterations, runs -/

theorem processMsgs_inv (id : Nat) : ∀ (ms : List Msg) (s t : Sch), IoInv s → ms.length ≤ 1 →
    (∀ m ∈ ms, m.sender = id) → mget id s.states = some .runnable → processMsgs ms s = .ok t → IoInv t := by
  intro ms s t hi hl hs hrun h
  match ms, hl with
  | [], _ => simp [processMsgs] at h; subst h; exact hi
  | [m], _ =>
    simp only [processMsgs] at h
    split at h
    · cases h
    · rename_i s' hm
      cases h
      exact processMsg_inv m s _ hi (by rw [hs m List.mem_cons_self]; exact hrun) hm

theorem wakeJoining_inv : ∀ (l : List Nat) (s t : Sch), IoInv s → wakeJoining l s = .ok t → IoInv t := by
  intro l
  induction l with
  | nil => intro s t hi h; simp [wakeJoining] at h; subst h; exact hi
  | cons vm rest ih =>
    intro s t hi h
    unfold wakeJoining at h
    split at h
    · cases h
    · rename_i s1 he
      refine ih _ t ?_ h
      exact (hi.core (ensureInst_core he)).insert vm .runnable (fun fd hw => absurd hw (not_waitsOn_runnable fd)) rfl rfl rfl

theorem KS_mremove {α : Type} (k : Nat) (l : List (Nat × α)) (h : KS l) : KS (mremove k l) := by
  unfold KS mremove at *
  exact List.Pairwise.sublist (List.Sublist.map _ List.filter_sublist) h

/-- the bookkeeping after a non-root VM has terminated: its fds are closed, its state is removed -/
theorem IoInv.purge {s t : Sch} (id : Nat) (hi : IoInv s) (h1 : t.states = mremove id s.states)
    (h2 : t.fds = s.fds.filter (·.2 ≠ id)) (h3 : t.nextFd = s.nextFd) : IoInv t := by
  refine ⟨by rw [h1]; exact KS_mremove _ _ hi.ks, ?_, ?_⟩
  · intro x v fd hm hw
    rw [h1] at hm
    unfold mremove at hm
    obtain ⟨hm1, hm2⟩ := List.mem_filter.mp hm
    have hx := hi.own x v fd hm1 hw
    rw [h2]
    exact mget_filter_keep _ _ _ _ hx (by simpa using hm2)
  · intro fd x hm
    rw [h2] at hm
    obtain ⟨x', hx'⟩ := mget_filter_some _ _ _ _ hm
    rw [h3]; exact hi.fresh fd x' hx'

theorem processResults_inv (id : Nat) (ev : Ev) (s : Sch) (hi : IoInv s) (hl : ev.msgs.length ≤ 1)
    (hs : ∀ m ∈ ev.msgs, m.sender = id) (hrun : mget id s.states = some .runnable) :
    IoInv (processResults id ev s).1 := by
  unfold processResults
  split
  · exact hi
  · rename_i s1 hm
    have i1 := processMsgs_inv id _ s s1 hi hl hs hrun hm
    split
    · exact i1
    · exact i1
    · exact i1
    · exact i1
    · rename_i code _
      have i2 : IoInv ({ s1 with term := minsert id code s1.term } : Sch) := IoInv.congr (s := s1) rfl rfl rfl i1
      simp only
      split
      · split
        · exact i2
        · rename_i s3 he
          have i3 := i2.core (ensureInst_core he)
          refine ⟨?_, ?_, i3.fresh⟩
          · simp [KS]
          · intro x v fd hm hw
            simp only [List.mem_singleton, Prod.mk.injEq] at hm
            rw [hm.2] at hw
            exact absurd hw (not_waitsOn_terminated fd)
      · split
        · exact i2
        · rename_i s3 hw
          exact (wakeJoining_inv _ _ s3 i2 hw).purge id rfl rfl rfl

theorem chooseVm_runnable (s : Sch) (hk : KS s.states) (id : Nat) (h : chooseVm s = some id) :
    mget id s.states = some .runnable := by
  unfold chooseVm at h
  cases hf : s.states.reverse.find? (fun p => decide (p.2 = .runnable)) with
  | none => rw [hf] at h; cases h
  | some p =>
    rw [hf] at h
    simp only [Option.map_some, Option.some.injEq] at h
    have hp := List.find?_some hf
    have hm := List.mem_reverse.mp (List.mem_of_find?_eq_some hf)
    obtain ⟨a, v⟩ := p
    simp only at h hp
    subst h
    have : v = .runnable := by simpa using hp
    subst this
    exact mget_of_mem _ hk _ _ hm

theorem iterateInner_inv (ev : Ev) (s : Sch) (hi : IoInv s) (hl : ev.msgs.length ≤ 1)
    (hs : ∀ m ∈ ev.msgs, chooseVm s = some m.sender) : IoInv (iterateInner ev s).1 := by
  unfold iterateInner
  split
  · exact hi
  · rename_i id hc
    split
    · exact hi
    · rename_i s1 he
      have i1 := hi.core (ensureInst_core he)
      split
      · refine processResults_inv id ev _ (IoInv.congr (s := s1) rfl rfl rfl i1) hl ?_ ?_
        · intro m hm
          have := hs m hm
          rw [hc] at this
          exact (Option.some.inj this).symm
        · show mget id s1.states = some .runnable
          rw [(ensureInst_core he).2.2.2.1]
          exact chooseVm_runnable s hi.ks id hc
      · exact i1

theorem iterateOuter_inv (ev : Ev) (limit : Nat) (s : Sch) (hi : IoInv s) (hl : ev.msgs.length ≤ 1)
    (hs : ∀ m ∈ ev.msgs, chooseVm s = some m.sender) : IoInv (iterateOuter ev limit s).1 := by
  have i1 := iterateInner_inv ev s hi hl hs
  unfold iterateOuter
  rcases hii : iterateInner ev s with ⟨s1, r⟩
  rw [hii] at i1
  simp only at i1 ⊢
  split
  · have i2 : IoInv ({ s1 with total := s1.total + s1.iter } : Sch) := IoInv.congr (s := s1) rfl rfl rfl i1
    split
    · exact i2
    · have i3 : IoInv ({ s1 with total := s1.total + s1.iter, iter := 0 } : Sch) := IoInv.congr (s := s1) rfl rfl rfl i1
      split
      · exact i3
      · rename_i s4 hio
        have i4 := processIo_inv _ s4 i3 hio
        split <;> exact i4
  · exact i1

/-- an observed VM run is well formed: at most one message (every message syscall yields), sent by
the VM that ran -/
def EvOk (ev : Ev) : Prop := ev.msgs.length ≤ 1 ∧ ∀ m ∈ ev.msgs, m.sender = ev.vm

theorem finish_inv (s : Sch) (evs : List Ev) (hi : IoInv s) : IoInv (finish s evs).1 := by
  unfold finish
  split
  · exact hi
  · rename_i s' he; exact hi.core (ensureInst_core he)

theorem runLoop_inv : ∀ (evs : List Ev) (limit : Nat) (s : Sch), IoInv s → (∀ ev ∈ evs, EvOk ev) →
    IoInv (runLoop evs limit s).1 := by
  intro evs
  induction evs with
  | nil =>
    intro limit s hi _
    unfold runLoop
    split
    · exact finish_inv s [] hi
    · split
      · exact hi
      · have := iterateOuter_inv default limit s hi (by decide) (by intro m hm; cases hm)
        split <;> (rename_i s' _ hh; rw [hh] at this; exact this)
  | cons ev rest ih =>
    intro limit s hi hok
    unfold runLoop
    split
    · exact finish_inv s _ hi
    · split
      · have := iterateOuter_inv default limit s hi (by decide) (by intro m hm; cases hm)
        split <;> (rename_i s' _ hh; rw [hh] at this; exact this)
      · split
        · exact hi
        · rename_i hne
          have hch : chooseVm s = some ev.vm := by simpa using hne
          have hev := hok ev List.mem_cons_self
          have := iterateOuter_inv ev limit s hi hev.1 (by intro m hm; rw [hch, hev.2 m hm])
          split
          · rename_i s' _ hh; rw [hh] at this; exact this
          · rename_i s' rem hh
            rw [hh] at this
            exact ih rem s' this (fun e he => hok e (List.mem_cons_of_mem _ he))

theorem init_inv : IoInv ({} : Sch) :=
  ⟨by simp [KS], fun x v fd hm _ => (by cases hm), fun fd x hm => (by cases hm)⟩

theorem run_inv (evs : List Ev) (limit : Nat) (s : Sch) (hi : IoInv s) (hok : ∀ ev ∈ evs, EvOk ev) :
    IoInv (run evs limit s).1 := by
  unfold run
  split
  · split
    · exact hi
    · rename_i id s' hb
      obtain ⟨_, hst, hfd, hnf⟩ := bootVm_shape hb
      exact runLoop_inv evs limit s' (hi.insert s.nextVm .runnable (fun fd hw => absurd hw (not_waitsOn_runnable fd)) hst hfd hnf) hok
  · exact runLoop_inv evs limit s hi hok

theorem suspendAll_core : ∀ (l : List Nat) (s t : Sch), suspendAll l s = .ok t → SameCore s t := by
  intro l
  induction l with
  | nil => intro s t h; simp [suspendAll] at h; subst h; exact SameCore.refl s
  | cons id rest ih =>
    intro s t h
    unfold suspendAll at h
    split at h
    · cases h
    · rename_i s' hs; exact (suspendVm_core hs).trans (ih s' t h)

/-- a whole-scheduler suspend + resume keeps the invariant -/
theorem suspend_resume_inv (s t s' : Sch) (f : Full) (lg : List Out) (hi : IoInv s)
    (h1 : suspend s = .ok (f, t)) (h2 : resume f lg = .ok s') : IoInv t ∧ IoInv s' := by
  unfold suspend at h1
  simp only at h1
  split at h1
  · cases h1
  · rename_i s1 hs
    have c1 := suspendAll_core _ _ s1 hs
    split at h1
    · cases h1
      have it := hi.core c1
      refine ⟨it, ?_⟩
      unfold resume at h2
      simp only at h2
      split at h2
      · cases h2
      · rename_i s2 he
        cases h2
        have c2 := ensureInst_core he
        exact IoInv.congr (s := t) c2.2.2.2.1 c2.2.2.2.2.1 c2.2.2.1 it
    · cases h1

/-! ### the chunked API -/

theorem finish_rest (s : Sch) (evs : List Ev) : (finish s evs).2.2 = evs := by
  unfold finish; split <;> rfl

theorem runLoop_rest : ∀ (evs : List Ev) (limit : Nat) (s : Sch), ∀ e ∈ (runLoop evs limit s).2.2, e ∈ evs := by
  intro evs
  induction evs with
  | nil =>
    intro limit s e he
    unfold runLoop at he
    split at he
    · rw [finish_rest] at he; exact he
    · split at he
      · exact he
      · split at he <;> exact he
  | cons ev rest ih =>
    intro limit s e he
    unfold runLoop at he
    split at he
    · rw [finish_rest] at he; exact he
    · split at he
      · split at he <;> exact he
      · split at he
        · exact he
        · split at he
          · exact List.mem_cons_of_mem _ he
          · rename_i s' rem _
            exact List.mem_cons_of_mem _ (ih rem s' e he)

theorem run_rest (evs : List Ev) (limit : Nat) (s : Sch) : ∀ e ∈ (run evs limit s).2.2, e ∈ evs := by
  intro e he
  unfold run at he
  split at he
  · split at he
    · exact he
    · exact runLoop_rest _ _ _ e he
  · exact runLoop_rest _ _ _ e he

/-- the resumable API as coded keeps the invariant through every suspension and resumption -/
theorem chunked_inv : ∀ (ls : List Nat) (evs : List Ev) (s : Sch), IoInv s → (∀ ev ∈ evs, EvOk ev) →
    IoInv (chunkedWith resume ls evs s).2.2 := by
  intro ls
  induction ls with
  | nil => intro evs s hi _; exact hi
  | cons l rest ih =>
    intro evs s hi hok
    have hr := run_inv evs l s hi hok
    have hrest := run_rest evs l s
    unfold chunkedWith
    rcases hrun : run evs l s with ⟨s1, e, rs⟩
    rw [hrun] at hr hrest
    simp only at hr hrest
    have go : ∀ (x : SErr), IoInv
        (match suspend s1 with
          | .error e => (([] : List Full), some (RunEnd.stopped e), s1)
          | .ok (f, s2) =>
            match resume f s2.log with
            | .error e => ([f], some (RunEnd.stopped e), s2)
            | .ok s3 =>
              let (fs, r, s4) := chunkedWith resume rest rs s3
              (f :: fs, r, s4)).2.2 := by
      intro _
      split
      · exact hr
      · rename_i f s2 hs
        split
        · rename_i e' hre
          -- the suspended scheduler
          unfold suspend at hs
          simp only at hs
          split at hs
          · cases hs
          · rename_i sa hsa
            split at hs
            · cases hs; exact hr.core (suspendAll_core _ _ _ hsa)
            · cases hs
        · rename_i s3 hre
          obtain ⟨_, i3⟩ := suspend_resume_inv s1 s2 s3 f s2.log hr hs hre
          exact ih rs s3 i3 (fun e he => hok e (hrest e he))
    cases e with
    | stopped x =>
      cases x with
      | cyclesExceeded => exact go .cyclesExceeded
      | pause => exact go .pause
      | deadlock => exact hr
      | unexpected => exact hr
      | vm => exact hr
    | done _ _ => exact hr
    | starved => exact hr
    | wrongVm => exact hr

end CkbVerif.SchedBook
