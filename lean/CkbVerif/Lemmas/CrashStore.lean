import CkbVerif.Model.CrashStore
import CkbVerif.Lemmas.StoreInv
/-! Helper lemmas for `Props/C08Store.lean`: the commit-by-commit store model vs `Store.process`. -/
namespace CkbVerif.CrashStore
open CkbVerif.Store

/-- writing the rows of a block that are already there changes nothing (`insert_block` of a
re-delivered block: the start-up scan, the tip fence, a duplicate from the network) -/
theorem insertBlock_same (r : Recs) (b : Block) (h : r.bodies b.id = some b) : insertBlock r b = r := by
  cases r with
  | mk bodies ext blockEpoch epochExt =>
    simp only [insertBlock]
    congr
    funext x
    simp only [Store.upd]
    split
    · next hx => subst hx; exact h.symm
    · rfl

theorem applyLog_append (v : View) (as bs : List Commit) :
    applyLog v (as ++ bs) = applyLog (applyLog v as) bs := by
  induction as generalizing v with
  | nil => rfl
  | cons a as ih => exact ih (applyCommit v a)

/-- a verify transaction of a block that is not heavier than the tip leaves the main-chain view alone -/
theorem verifyCommit_side_m (v : View) (b : Block)
    (h : ¬ (freshExt v.r b).td > tdOf v.r (v.m.tip.getD 0)) : (verifyCommit v b).m = v.m := by
  simp only [verifyCommit]
  simp [h]

end CkbVerif.CrashStore
