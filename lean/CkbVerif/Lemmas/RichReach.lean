import CkbVerif.Lemmas.RichCells

/-! Rich-indexer (relational model): every database reached by appends and rollbacks keeps its output
rows in strictly ascending id order (C18). -/
namespace CkbVerif.Rich
open CkbVerif.Indexer CkbVerif.Gen.RichIndexer

/-- the databases the indexer can be in: any interleaving of `append` and `rollback` from the empty one -/
inductive Reachable : DB → Prop
  | empty : Reachable {}
  | append (db : DB) (b : Block) : Reachable db → Reachable (appendBlock db b)
  | rollback (db : DB) : Reachable db → Reachable (rollback db)

def OutsAsc (db : DB) : Prop := (db.outs.map (·.id)).Pairwise (· < ·)

theorem asc_lt_nextId : ∀ (l : List Nat), l.Pairwise (· < ·) → ∀ x ∈ l, x < nextId l := by
  intro l hl x hx
  unfold nextId
  cases h : l.getLast? with
  | none => rw [List.getLast?_eq_none_iff.mp h] at hx; cases hx
  | some y =>
    obtain ⟨ys, rfl⟩ := List.getLast?_eq_some_iff.mp h
    simp only
    rcases List.mem_append.mp hx with hx | hx
    · have := (List.pairwise_append.mp hl).2.2 x hx y (by simp)
      omega
    · simp only [List.mem_singleton] at hx
      omega

theorem asc_snoc_nextId (l : List Nat) (hl : l.Pairwise (· < ·)) : (l ++ [nextId l]).Pairwise (· < ·) := by
  rw [List.pairwise_append]
  refine ⟨hl, by simp, ?_⟩
  intro a ha b hb
  simp only [List.mem_singleton] at hb
  subst hb
  exact asc_lt_nextId l hl a ha

theorem spendCell_outIds (db : DB) (op : OutPoint) : (spendCell db op).1.outs.map (·.id) = db.outs.map (·.id) := by
  unfold spendCell
  split
  · rfl
  · split
    · simp only [List.map_map]
      apply List.map_congr_left
      intro o _
      simp only [Function.comp]
      split <;> rfl
    · rfl

theorem inputStep_outIds (acc : DB × List (Nat × Nat)) (op : OutPoint) (ii : Nat) :
    (inputStep acc op ii).1.outs.map (·.id) = acc.1.outs.map (·.id) := by
  unfold inputStep
  simp only
  split
  · split <;> exact spendCell_outIds _ _
  · exact spendCell_outIds _ _

theorem inputsLoop_outIds : ∀ (l : List OutPoint) (acc : DB × List (Nat × Nat)) (ii : Nat),
    (inputsLoop acc ii l).1.outs.map (·.id) = acc.1.outs.map (·.id)
  | [], _, _ => rfl
  | op :: r, acc, ii => by
    rw [inputsLoop, inputsLoop_outIds r, inputStep_outIds]

theorem insertScript_outs (db : DB) (s : Script) : (insertScript db s).outs = db.outs := by
  unfold insertScript; split <;> rfl

theorem insertScripts_outs (db : DB) (outs : List Output) : (insertScripts db outs).outs = db.outs := by
  unfold insertScripts
  generalize outs.flatMap outputScripts = l
  induction l generalizing db with
  | nil => rfl
  | cons s r ih => rw [List.foldl_cons, ih, insertScript_outs]

theorem insertOutputs_asc : ∀ (l : List Output) (db : DB) (txId oi : Nat), OutsAsc db →
    OutsAsc (insertOutputs db txId oi l)
  | [], _, _, _, h => h
  | o :: r, db, txId, oi, h => by
    rw [insertOutputs]
    apply insertOutputs_asc r
    unfold OutsAsc
    simp only [List.map_append, List.map_cons, List.map_nil]
    exact asc_snoc_nextId _ h

theorem insertTx_asc (db : DB) (bid i : Nat) (tx : Tx) (h : OutsAsc db) : OutsAsc (insertTx db bid i tx) := by
  unfold insertTx insertTxRows
  simp only
  apply insertOutputs_asc
  unfold OutsAsc
  rw [insertScripts_outs]
  simp only
  split
  · exact h
  · unfold OutsAsc at h
    rw [inputsLoop_outIds]
    exact h

theorem insertTxs_asc : ∀ (l : List Tx) (db : DB) (bid i : Nat), OutsAsc db → OutsAsc (insertTxs db bid i l)
  | [], _, _, _, h => h
  | tx :: r, db, bid, i, h => by
    rw [insertTxs]
    exact insertTxs_asc r _ bid (i + 1) (insertTx_asc db bid i tx h)

theorem appendBlock_asc (db : DB) (b : Block) (h : OutsAsc db) : OutsAsc (appendBlock db b) := by
  unfold appendBlock
  exact insertTxs_asc _ _ _ _ h

theorem rollback_asc (db : DB) (h : OutsAsc db) : OutsAsc (rollback db) := by
  unfold rollback
  split
  · exact h
  · unfold OutsAsc at *
    simp only
    refine List.Pairwise.sublist ?_ (show ((db.outs.map fun o => o.id)).Pairwise (· < ·) from h)
    rw [show (fun o : ROut => o.id) = (·.id) from rfl]
    have hmap : ∀ (reset : List Nat), (db.outs.map fun o => if reset.contains o.id then { o with spent := RESET_SETS_IS_SPENT } else o).map (·.id) = db.outs.map (·.id) := by
      intro reset
      simp only [List.map_map]
      apply List.map_congr_left
      intro o _
      simp only [Function.comp]
      split <;> rfl
    rw [← hmap]
    exact List.Sublist.map _ List.filter_sublist

/-- **every reachable database keeps its output rows in strictly ascending id order** -/
theorem reachable_outsAsc {db : DB} (h : Reachable db) : OutsAsc db := by
  induction h with
  | empty => simp [OutsAsc]
  | append db b _ ih => exact appendBlock_asc db b ih
  | rollback db _ ih => exact rollback_asc db ih

/-! ## transaction row ids -/

def TxsAsc (db : DB) : Prop := (db.txs.map (·.id)).Pairwise (· < ·)

theorem spendCell_txs (db : DB) (op : OutPoint) : (spendCell db op).1.txs = db.txs := by
  unfold spendCell
  split
  · rfl
  · split <;> rfl

theorem inputStep_txs (acc : DB × List (Nat × Nat)) (op : OutPoint) (ii : Nat) :
    (inputStep acc op ii).1.txs = acc.1.txs := by
  unfold inputStep
  simp only
  split
  · split <;> exact spendCell_txs _ _
  · exact spendCell_txs _ _

theorem inputsLoop_txs : ∀ (l : List OutPoint) (acc : DB × List (Nat × Nat)) (ii : Nat),
    (inputsLoop acc ii l).1.txs = acc.1.txs
  | [], _, _ => rfl
  | op :: r, acc, ii => by rw [inputsLoop, inputsLoop_txs r, inputStep_txs]

theorem insertScript_txs (db : DB) (s : Script) : (insertScript db s).txs = db.txs := by
  unfold insertScript; split <;> rfl

theorem insertScripts_txs (db : DB) (outs : List Output) : (insertScripts db outs).txs = db.txs := by
  unfold insertScripts
  generalize outs.flatMap outputScripts = l
  induction l generalizing db with
  | nil => rfl
  | cons s r ih => rw [List.foldl_cons, ih, insertScript_txs]

theorem insertOutputs_txs : ∀ (l : List Output) (db : DB) (txId oi : Nat), (insertOutputs db txId oi l).txs = db.txs
  | [], _, _, _ => rfl
  | o :: r, db, txId, oi => by rw [insertOutputs, insertOutputs_txs r]

theorem insertTx_txsAsc (db : DB) (bid i : Nat) (tx : Tx) (h : TxsAsc db) : TxsAsc (insertTx db bid i tx) := by
  unfold TxsAsc insertTx insertTxRows
  simp only
  rw [insertOutputs_txs, insertScripts_txs]
  simp only [List.map_append, List.map_cons, List.map_nil]
  have hr : (if i = 0 then (db, ([] : List (Nat × Nat))) else inputsLoop (db, []) 0 tx.inputs).1.txs = db.txs := by
    split
    · rfl
    · exact inputsLoop_txs _ _ _
  rw [hr]
  exact asc_snoc_nextId _ h

theorem insertTxs_txsAsc : ∀ (l : List Tx) (db : DB) (bid i : Nat), TxsAsc db → TxsAsc (insertTxs db bid i l)
  | [], _, _, _, h => h
  | tx :: r, db, bid, i, h => by
    rw [insertTxs]
    exact insertTxs_txsAsc r _ bid (i + 1) (insertTx_txsAsc db bid i tx h)

theorem rollback_txsAsc (db : DB) (h : TxsAsc db) : TxsAsc (rollback db) := by
  unfold rollback
  split
  · exact h
  · unfold TxsAsc at *
    simp only
    exact List.Pairwise.sublist (List.Sublist.map _ List.filter_sublist) h

/-- every reachable database has strictly ascending (hence pairwise distinct) transaction row ids -/
theorem reachable_txsAsc {db : DB} (h : Reachable db) : TxsAsc db := by
  induction h with
  | empty => simp [TxsAsc]
  | append db b _ ih =>
    unfold appendBlock
    exact insertTxs_txsAsc _ _ _ _ ih
  | rollback db _ ih => exact rollback_txsAsc db ih

theorem asc_nodup (l : List Nat) (h : l.Pairwise (· < ·)) : l.Nodup :=
  h.imp (fun hab => Nat.ne_of_lt hab)

end CkbVerif.Rich
