import CkbVerif.Lemmas.EpochRat

/-!
Specification-level characterisation of the three stages of `next_epoch_ext` that use
`RationalU256`: the raw length estimate, the orphan-rate estimate and the next difficulty.
-/
namespace CkbVerif.Epoch
open CkbVerif.Arith CkbVerif.Gen.Epoch

theorem Rep.congr {r : URat} {p q p2 q2 : Nat} (h : Rep r p q) (hq2 : 0 < q2) (he : p * q2 = p2 * q) :
    Rep r p2 q2 := by
  obtain ⟨hd, hq, hr⟩ := h
  refine ⟨hd, hq2, ?_⟩
  apply Nat.eq_of_mul_eq_mul_left hq
  calc q * (r.n * q2) = (r.n * q) * q2 := by ring
    _ = (p * r.d) * q2 := by rw [hr]
    _ = (p * q2) * r.d := by ring
    _ = (p2 * q) * r.d := by rw [he]
    _ = q * (p2 * r.d) := by ring

/-! ### the length estimate -/

/-- RFC: `C_{i+1,m} = o_ideal (1 + o_i) L_ideal C_i,m / (o_i (1 + o_ideal) L_i)` with `o_i = u/L`,
as one fraction -/
def rawLenNum (P : Params) (L u : Nat) : Nat := P.ortN * (u + L) * P.T * L
def rawLenDen (P : Params) (u dur : Nat) : Nat := u * (P.ortN + P.ortD) * dur

theorem rawLengthRat_spec {P : Params} {L u dur : Nat} {lor q : URat}
    (hlor : Rep lor u L) (hort : 0 < P.ortD) (hu : 0 < u) (hdur : 0 < dur)
    (h : rawLengthRat P.ort P.T L dur lor = some q) :
    Rep q (rawLenNum P L u) (rawLenDen P u dur) := by
  unfold rawLengthRat at h
  simp only [Option.bind_eq_bind, Option.bind_eq_some_iff] at h
  obtain ⟨a, ha, n1, hn1, n2, hn2, num, hnum, b, hb, d1, hd1, den, hden, hq⟩ := h
  have hortR : Rep P.ort P.ortN P.ortD := Rep.raw hort
  have ra := Rep.addU hlor ha
  have rn1 := Rep.mul hortR ra hn1
  have rn2 := Rep.mulU rn1 hn2
  have rnum := Rep.mulU rn2 hnum
  have rb := Rep.addU hortR hb
  have rd1 := Rep.mul hlor rb hd1
  have rden := Rep.mulU rd1 hden
  have hL : 0 < L := hlor.2.1
  have hpos : 0 < u * (P.ortN + P.ortD * 1) * dur :=
    Nat.mul_pos (Nat.mul_pos hu (by omega)) hdur
  have rq := Rep.div rnum rden hpos hq
  refine rq.congr (Nat.mul_pos (Nat.mul_pos hu (by omega)) hdur) ?_
  unfold rawLenNum rawLenDen
  ring

/-- the length stage, as a closed formula -/
def lengthSpec (P : Params) (L u dur : Nat) : Nat × Bool :=
  if u = 0 then (min MAX_EPOCH_LENGTH (L * TAU), true)
  else
    let raw := (rawLenNum P L u / rawLenDen P u dur) % U64
    let maxL := min MAX_EPOCH_LENGTH (L * TAU)
    let minL := max MIN_EPOCH_LENGTH (L / TAU)
    if raw > maxL then (maxL, true) else if raw < minL then (minL, true) else (raw, false)

theorem boundingEpochLength_eq {len L : Nat} {r : Nat × Bool} (h : boundingEpochLength len L = some r) :
    r = (if len > min MAX_EPOCH_LENGTH (L * TAU) then (min MAX_EPOCH_LENGTH (L * TAU), true)
         else if len < max MIN_EPOCH_LENGTH (L / TAU) then (max MIN_EPOCH_LENGTH (L / TAU), true)
         else (len, false)) := by
  unfold boundingEpochLength at h
  simp only [Option.bind_eq_bind, Option.bind_eq_some_iff, chk64, chk_eq_some] at h
  obtain ⟨l2, ⟨_, hl2⟩, h⟩ := h
  subst hl2
  split at h
  · rename_i hc; injection h with h; subst h; simp [hc]
  · rename_i hc
    split at h
    · rename_i hc2; injection h with h; subst h; simp [hc, hc2]
    · rename_i hc2; injection h with h; subst h; simp [hc, hc2]

theorem nextLength_spec {P : Params} {L u dur : Nat} {lor : URat} {r : Nat × Bool}
    (hlor : Rep lor u L) (hort : 0 < P.ortD) (hdur : 0 < dur)
    (h : nextLength P.ort P.T L u dur lor = some r) : r = lengthSpec P L u dur := by
  unfold nextLength at h
  unfold lengthSpec
  split at h
  · rename_i hu
    simp only [Option.bind_eq_bind, Option.bind_eq_some_iff, chk64, chk_eq_some] at h
    obtain ⟨l2, ⟨_, hl2⟩, h⟩ := h
    injection h with h; subst hl2; simp [hu, h]
  · rename_i hu
    simp only [Option.bind_eq_bind, Option.bind_eq_some_iff] at h
    obtain ⟨q, hq, raw, hraw, h⟩ := h
    have rq := rawLengthRat_spec hlor hort (Nat.pos_of_ne_zero hu) hdur hq
    have := rq.floor hraw
    subst this
    simp only [hu, if_false]
    exact boundingEpochLength_eq h

/-! ### the orphan-rate estimate and the difficulty -/

/-- `(1 + o_i)·L_ideal·C_i,m` and `o_i·L_i·C_{i+1,m}`, both scaled by `C_i,m` -/
def estA (P : Params) (L u : Nat) : Nat := (u + L) * P.T * L
def estB (u dur L' : Nat) : Nat := u * dur * L'

/-- the orphan rate `o_{i+1} = p/q` used for the next difficulty:
`0` when the last epoch had no uncles; `o_ideal` when the length estimate was not bounded, or when
the estimate `1 / ((1+o_i) L_ideal C_i / (o_i L_i C_{i+1}) - 1)` has a non-positive denominator;
else that estimate, `= B / (A - B)`. -/
def orphanSpec (P : Params) (L u dur L' : Nat) (bound : Bool) : Nat × Nat :=
  if bound then
    if u = 0 then (0, 1)
    else if estA P L u ≤ estB u dur L' then (P.ortN, P.ortD)
    else (estB u dur L', estA P L u - estB u dur L')
  else (P.ortN, P.ortD)

theorem orphanSpec_pos {P : Params} {L u dur L' : Nat} {bound : Bool} (hort : 0 < P.ortD) :
    0 < (orphanSpec P L u dur L' bound).2 := by
  unfold orphanSpec
  split
  · split
    · decide
    · split
      · exact hort
      · simp only; omega
  · exact hort

theorem idealDenominator_spec {P : Params} {L' : Nat} {den : URat} (hort : 0 < P.ortD)
    (h : idealDenominator P.ort L' = some den) : Rep den ((P.ortN + P.ortD) * L') P.ortD := by
  unfold idealDenominator at h
  simp only [Option.bind_eq_bind, Option.bind_eq_some_iff] at h
  obtain ⟨c, hc, h⟩ := h
  have rc := Rep.addU (Rep.raw hort : Rep P.ort P.ortN P.ortD) hc
  have := Rep.mulU rc h
  simpa using this

theorem estimationRecip_spec {P : Params} {L u dur L' : Nat} {lor recip : URat}
    (hlor : Rep lor u L) (hu : 0 < u) (hdur : 0 < dur) (hL' : 0 < L')
    (h : estimationRecip P.T L dur L' lor = some recip) :
    Rep recip (estA P L u * L - L * estB u dur L') (L * estB u dur L') := by
  unfold estimationRecip at h
  simp only [Option.bind_eq_bind, Option.bind_eq_some_iff] at h
  obtain ⟨a1, ha1, a2, ha2, a3, ha3, b1, hb1, b2, hb2, q, hq, h⟩ := h
  have r1 := Rep.addU hlor ha1
  have r2 := Rep.mulU r1 ha2
  have r3 := Rep.mulU r2 ha3
  have s1 := Rep.mulU hlor hb1
  have s2 := Rep.mulU s1 hb2
  have hpos : 0 < u * dur * L' := Nat.mul_pos (Nat.mul_pos hu hdur) hL'
  have rq := Rep.div r3 s2 hpos hq
  have rr := Rep.satSubU rq h
  unfold estA estB
  simpa using rr

theorem diffDenominator_spec {P : Params} {L u dur L' : Nat} {bound : Bool} {lor den : URat}
    (hlor : Rep lor u L) (hort : 0 < P.ortD) (hdur : 0 < dur) (hL' : 0 < L')
    (h : diffDenominator P.ort P.T L dur L' bound lor = some den) :
    Rep den (((orphanSpec P L u dur L' bound).1 + (orphanSpec P L u dur L' bound).2) * L')
      (orphanSpec P L u dur L' bound).2 := by
  have hL : 0 < L := hlor.2.1
  unfold diffDenominator at h
  unfold orphanSpec
  cases bound with
  | false =>
    simp only [Bool.false_eq_true, if_false] at h ⊢
    exact idealDenominator_spec hort h
  | true =>
    simp only [if_true] at h ⊢
    have hz := Rep.is_zero hlor
    by_cases hu : u = 0
    · have : lor.n = 0 := hz.mpr hu
      simp only [this, hu, if_true] at h ⊢
      have := Rep.new h
      simpa using this
    · have hn : lor.n ≠ 0 := fun hh => hu (hz.mp hh)
      simp only [hn, hu, if_false] at h ⊢
      simp only [Option.bind_eq_bind, Option.bind_eq_some_iff] at h
      obtain ⟨recip, hrecip, h⟩ := h
      have rr := estimationRecip_spec (P := P) hlor (Nat.pos_of_ne_zero hu) hdur hL' hrecip
      have hzr := Rep.is_zero rr
      by_cases hAB : estA P L u ≤ estB u dur L'
      · have : estA P L u * L - L * estB u dur L' = 0 := by
          have := Nat.mul_le_mul_right L hAB
          rw [Nat.mul_comm (estB u dur L') L] at this
          omega
        have hr0 : recip.n = 0 := hzr.mpr this
        simp only [hr0, hAB, if_true] at h ⊢
        exact idealDenominator_spec hort h
      · have hlt : estB u dur L' < estA P L u := by omega
        have hpos : 0 < estA P L u * L - L * estB u dur L' := by
          have := Nat.mul_lt_mul_of_pos_right hlt hL
          rw [Nat.mul_comm (estB u dur L') L] at this
          omega
        have hr0 : recip.n ≠ 0 := fun hh => by have := hzr.mp hh; omega
        simp only [hr0, hAB, if_false] at h ⊢
        simp only [Option.bind_eq_bind, Option.bind_eq_some_iff] at h
        obtain ⟨est, hest, c, hc, h⟩ := h
        have re := Rep.div Rep.one rr hpos hest
        have rc := Rep.addU re hc
        have rden := Rep.mulU rc h
        refine rden.congr (by omega) ?_
        -- (1*(L*B) + 1*(A*L - L*B)*1) * L' * (A - B) = ((B + (A - B)) * L') * (1*(A*L - L*B))
        have e1 : estA P L u * L - L * estB u dur L' = L * (estA P L u - estB u dur L') := by
          rw [Nat.mul_sub, Nat.mul_comm L (estA P L u)]
        have e2 : estB u dur L' + (estA P L u - estB u dur L') = estA P L u := by omega
        rw [e1, e2]
        have e3 : 1 * (L * estB u dur L') + 1 * (L * (estA P L u - estB u dur L')) * 1 = L * estA P L u := by
          rw [Nat.one_mul, Nat.one_mul, Nat.mul_one, ← Nat.mul_add, e2]
        rw [e3]
        ring

theorem nextDiff_spec {adj T p q L' nd : Nat} {den : URat} (hden : Rep den ((p + q) * L') q)
    (hL' : 0 < L') (h : nextDiff adj T den = some nd) :
    nd = max 1 (adj * T * q / ((p + q) * L')) := by
  have hq : 0 < q := hden.2.1
  unfold nextDiff at h
  simp only [Option.bind_eq_bind, Option.bind_eq_some_iff, chk256, chk_eq_some] at h
  obtain ⟨x, ⟨_, hx⟩, num, hnum, t, ht, h⟩ := h
  subst hx
  have rnum := Rep.new hnum
  have hgt := Rep.gt rnum hden ht
  have hpos : 0 < (p + q) * L' := Nat.mul_pos (by omega) hL'
  cases t with
  | true =>
    simp only [if_true, Option.bind_eq_bind, Option.bind_eq_some_iff] at h
    obtain ⟨qq, hqq, h⟩ := h
    have rq := Rep.div rnum hden hpos hqq
    have := rq.floor h
    have hlt : (p + q) * L' * 1 < adj * T * q := hgt.mp rfl
    rw [Nat.one_mul] at this
    have h1 : 1 ≤ adj * T * q / ((p + q) * L') := by
      apply (Nat.le_div_iff_mul_le hpos).mpr; omega
    omega
  | false =>
    simp only [Bool.false_eq_true, if_false] at h
    injection h with h
    have hle : ¬ ((p + q) * L' * 1 < adj * T * q) := fun hh => by
      have := hgt.mpr hh; simp at this
    have h1 : adj * T * q / ((p + q) * L') ≤ 1 := by
      apply Nat.div_le_of_le_mul; omega
    omega

end CkbVerif.Epoch
