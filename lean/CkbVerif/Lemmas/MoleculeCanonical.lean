import CkbVerif.Lemmas.MoleculeRoundTrip
/-! (D) strict decoding accepts only the canonical encoding of the value it returns. -/
namespace CkbVerif.Molecule

theorem option_map_eq_some {α β : Type} {f : α → β} {o : Option α} {b : β} (h : o.map f = some b) :
    ∃ a, o = some a ∧ f a = b := by
  cases o with
  | none => simp at h
  | some a => exact ⟨a, rfl, by simpa using h⟩

mutual
theorem encode_decode : ∀ (s : Schema) (bs : Bytes) (v : Val), decode false s bs = some v → encode s v = bs
  | .byte, bs, v, h => by
      simp only [decode] at h
      split at h
      · simp only [Option.some.injEq] at h; subst h; simp [encode]
      · simp at h
  | .array it n, bs, v, h => by
      simp only [decode] at h
      split at h
      · rename_i hl
        obtain ⟨vs, hm, hv⟩ := option_map_eq_some h
        subst hv
        have := mapOpt_some_map (decode false it) (encode it) _ vs (fun x _ y hy => encode_decode it x y hy) hm
        simp only [encode]
        rw [this, flatten_chunk (size it) n bs hl]
      · simp at h
  | .struct fs, bs, v, h => by
      simp only [decode] at h
      split at h
      · rename_i hl
        obtain ⟨vs, hm, hv⟩ := option_map_eq_some h
        subst hv
        simp only [encode]
        exact encodeL_decodeS fs bs vs hl hm
      · simp at h
  | .fixvec it, bs, v, h => by
      simp only [decode] at h
      split at h
      · rename_i hl
        obtain ⟨vs, hm, hv⟩ := option_map_eq_some h
        subst hv
        have hmap := mapOpt_some_map (decode false it) (encode it) _ vs (fun x _ y hy => encode_decode it x y hy) hm
        have hlen : vs.length = num bs := by
          rw [mapOpt_length _ _ _ hm, chunk_length]
        have hd : (bs.drop 4).length = size it * num bs := by
          rw [List.length_drop]; omega
        simp only [encode, encFixvec, List.length_map]
        rw [hmap, flatten_chunk (size it) (num bs) (bs.drop 4) hd, hlen, take4_eq_le32_num bs hl.1, List.take_append_drop]
      · simp at h
  | .dynvec it, bs, v, h => by
      simp only [decode] at h
      split at h
      · rename_i he
        simp only [Option.some.injEq] at h
        subst h
        simp only [isEmptyDyn, Bool.and_eq_true, beq_iff_eq] at he
        simp only [encode, List.map_nil, encDyn]
        rw [← he.2, take4_eq_le32_num bs (by omega)]
        exact List.take_of_length_le (by omega)
      · split at h
        · simp at h
        · rename_i offs ho
          obtain ⟨vs, hm, hv⟩ := option_map_eq_some h
          subst hv
          have hmap := mapOpt_some_map (decode false it) (encode it) _ vs (fun x _ y hy => encode_decode it x y hy) hm
          simp only [encode]
          rw [hmap]
          exact (encDyn_slices bs offs ho).1
  | .table fs, bs, v, h => by
      cases fs with
      | nil =>
        simp only [decode] at h
        split at h
        · rename_i he
          simp only [Option.some.injEq] at h
          subst h
          simp only [emptyTableOk, Bool.and_eq_true, decide_eq_true_eq, beq_iff_eq, Bool.or_false] at he
          simp only [encode, encodeL, encDyn]
          have h4 : bs.length = 4 := he.2
          have hn : num bs = 4 := by rw [he.1.2, h4]
          rw [← hn, take4_eq_le32_num bs (by omega)]
          exact List.take_of_length_le (by omega)
        · simp at h
      | cons f fs =>
        simp only [decode] at h
        split at h
        · simp at h
        · rename_i offs ho
          split at h
          · rename_i hfc
            obtain ⟨vs, hm, hv⟩ := option_map_eq_some h
            subst hv
            obtain ⟨hcan, hsl, _⟩ := encDyn_slices bs offs ho
            have hcnt : (slices bs offs).length = (f :: fs).length := by
              simp only [fieldCountOk, Bool.false_or, Bool.and_eq_true, decide_eq_true_eq] at hfc
              omega
            simp only [encode]
            rw [encodeL_decodeL (f :: fs) (slices bs offs) vs hcnt hm]
            exact hcan
          · simp at h
  | .option it, bs, v, h => by
      simp only [decode] at h
      split at h
      · rename_i he
        simp only [Option.some.injEq] at h
        subst h
        simp only [encode]
        exact (List.isEmpty_iff.mp he).symm
      · obtain ⟨x, hm, hv⟩ := option_map_eq_some h
        subst hv
        simp only [encode]
        exact encode_decode it bs x hm
  | .union ids its, bs, v, h => by
      simp only [decode] at h
      split at h
      · rename_i hl
        obtain ⟨x, hm, hv⟩ := option_map_eq_some h
        subst hv
        simp only [encode]
        rw [encodeU_decodeU ids its (num bs) (bs.drop 4) x hm, take4_eq_le32_num bs hl, List.take_append_drop]
      · simp at h
theorem encodeL_decodeS : ∀ (fs : List Schema) (bs : Bytes) (vs : List Val), bs.length = sizeL fs →
    decodeS false fs bs = some vs → (encodeL fs vs).flatten = bs
  | [], bs, vs, hl, h => by
      simp only [decodeS, Option.some.injEq] at h
      subst h
      simp only [sizeL] at hl
      simp [encodeL, List.eq_nil_of_length_eq_zero hl]
  | f :: fs, bs, vs, hl, h => by
      simp only [decodeS] at h
      split at h
      · simp at h
      · rename_i v hv
        split at h
        · simp at h
        · rename_i vs' hvs
          simp only [Option.some.injEq] at h
          subst h
          simp only [sizeL] at hl
          have hd : (bs.drop (size f)).length = sizeL fs := by rw [List.length_drop]; omega
          simp only [encodeL, List.flatten_cons]
          rw [encode_decode f _ v hv, encodeL_decodeS fs _ vs' hd hvs, List.take_append_drop]
theorem encodeL_decodeL : ∀ (fs : List Schema) (sl : List Bytes) (vs : List Val), sl.length = fs.length →
    decodeL false fs sl = some vs → encodeL fs vs = sl
  | [], sl, vs, hl, h => by
      simp only [decodeL, Option.some.injEq] at h
      subst h
      simp only [List.length_nil] at hl
      simp [encodeL, List.eq_nil_of_length_eq_zero hl]
  | f :: fs, [], vs, hl, h => by simp at hl
  | f :: fs, b :: sl, vs, hl, h => by
      simp only [decodeL] at h
      split at h
      · simp at h
      · rename_i v hv
        split at h
        · simp at h
        · rename_i vs' hvs
          simp only [Option.some.injEq] at h
          subst h
          simp only [List.length_cons, Nat.add_right_cancel_iff] at hl
          simp only [encodeL]
          rw [encode_decode f b v hv, encodeL_decodeL fs sl vs' hl hvs]
theorem encodeU_decodeU : ∀ (ids : List Nat) (its : List Schema) (id : Nat) (bs : Bytes) (v : Val),
    decodeU false ids its id bs = some v → encodeU ids its id v = bs
  | [], _, _, _, _, h => by simp [decodeU] at h
  | _ :: _, [], _, _, _, h => by simp [decodeU] at h
  | i :: ids, s :: ss, id, bs, v, h => by
      simp only [decodeU] at h
      simp only [encodeU]
      split
      · rename_i e
        rw [if_pos e] at h
        exact encode_decode s bs v h
      · rename_i e
        rw [if_neg e] at h
        exact encodeU_decodeU ids ss id bs v h
end

end CkbVerif.Molecule
