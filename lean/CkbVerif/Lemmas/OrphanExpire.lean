import CkbVerif.Lemmas.Orphan

/-! Exactness of `clean_expired_blocks` (C17, orphan pool): releasing one leader leaves the
subtrees of the other leaders untouched, so the loop over the leader snapshot removes exactly the
descendants of the expired leaders. -/
namespace CkbVerif.Orphan

theorem filter_true' (l : List Blk) : l = l.filter (fun _ => true) := by
  induction l with
  | nil => rfl
  | cons a l ih => simp; exact ih

theorem bfs_is_filter (fuel : Nat) : ∀ (pool : List Blk) (queue : List Nat) (removed : List Blk),
    ∃ P : Blk → Bool, (bfs fuel pool queue removed).1 = pool.filter P := by
  induction fuel with
  | zero => intro pool _ _; exact ⟨fun _ => true, by simp only [bfs]; exact filter_true' _⟩
  | succ fuel ih =>
    intro pool queue removed
    cases queue with
    | nil => exact ⟨fun _ => true, by simp only [bfs]; exact filter_true' _⟩
    | cons q rest =>
      obtain ⟨P, hP⟩ := ih (pool.filter (fun b => !(b.parent == q)))
        (rest ++ (children pool q).map (·.id)) (removed ++ children pool q)
      refine ⟨fun b => P b && !(b.parent == q), ?_⟩
      simp only [bfs]
      rw [hP, List.filter_filter]

theorem removeByParent_is_filter (s : Pool) (p : Nat) :
    ∃ P : Blk → Bool, (removeByParent s p).1.pool = s.pool.filter P := by
  unfold removeByParent
  split
  · exact bfs_is_filter _ _ _ _
  · exact ⟨fun _ => true, filter_true' _⟩

theorem eq_of_id {pool : List Blk} (h : (pool.map (·.id)).Nodup) {c c' : Blk} (hc : c ∈ pool)
    (hc' : c' ∈ pool) (hid : c.id = c'.id) : c = c' := by
  induction pool with
  | nil => cases hc
  | cons x pool ih =>
    simp only [List.map_cons, List.nodup_cons] at h
    rcases List.mem_cons.mp hc with a | a <;> rcases List.mem_cons.mp hc' with a' | a'
    · rw [a, a']
    · exact (h.1 (List.mem_map.mpr ⟨c', a', by rw [← hid, a]⟩)).elim
    · exact (h.1 (List.mem_map.mpr ⟨c, a, by rw [hid, a']⟩)).elim
    · exact ih h.2 a a'

/-- the subtree of `l` is the same in `pool'` as in `pool` -/
structure Untouched (pool pool' : List Blk) (l : Nat) : Prop where
  children : children pool' l = children pool l
  desc : ∀ b, Desc pool' l b ↔ Desc pool l b

theorem Untouched.refl (pool : List Blk) (l : Nat) : Untouched pool pool l := ⟨rfl, fun _ => Iff.rfl⟩

theorem Untouched.trans {p0 p1 p2 : List Blk} {l : Nat} (a : Untouched p0 p1 l) (b : Untouched p1 p2 l) :
    Untouched p0 p2 l :=
  ⟨b.children.trans a.children, fun x => (b.desc x).trans (a.desc x)⟩

/-- descendants of two different unpooled roots are disjoint -/
theorem desc_disjoint {pool : List Blk} (hnd : (pool.map (·.id)).Nodup) {l l' : Nat} (hne : l' ≠ l)
    (hl : ¬ ∃ b, b ∈ pool ∧ b.id = l) (hl' : ¬ ∃ b, b ∈ pool ∧ b.id = l') {b : Blk}
    (h : Desc pool l' b) : ¬ Desc pool l b := by
  induction h with
  | @child b h1 h2 =>
    intro hd
    cases hd with
    | child _ h4 => exact hne (h2.symm.trans h4)
    | step hd' _ h4 => exact hl' ⟨_, hd'.mem, (h2.symm.trans h4).symm⟩
  | @step c b hc h1 h2 ih =>
    intro hd
    cases hd with
    | child _ h4 => exact hl ⟨c, hc.mem, h2.symm.trans h4⟩
    | @step c' _ hd' _ h4 =>
      have : c' = c := eq_of_id hnd hd'.mem hc.mem (h4.symm.trans h2)
      subst this
      exact ih hd'

theorem release_other {par : Nat → Nat} {s : Pool} (h : Inv par s) {l l' : Nat}
    (hl' : l' ∈ s.leaders) (hne : l' ≠ l) :
    Untouched s.pool (removeByParent s l).1.pool l' ∧ l' ∈ (removeByParent s l).1.leaders := by
  by_cases hl : l ∈ s.leaders
  · obtain ⟨_, a2, a3⟩ := removeByParent_leader hl
    have nl := ((h.leaders l).mp hl).2
    have nl' := ((h.leaders l').mp hl').2
    have keep : ∀ b, Desc s.pool l' b → b ∈ (removeByParent s l).1.pool := fun b hd =>
      (a2 b).mpr ⟨hd.mem, desc_disjoint h.nodup hne nl nl' hd⟩
    refine ⟨⟨?_, ?_⟩, ?_⟩
    · obtain ⟨P, hP⟩ := removeByParent_is_filter s l
      rw [hP]
      simp only [children, List.filter_filter]
      apply List.filter_congr
      intro b hb
      by_cases hp : b.parent = l'
      · have : b ∈ s.pool.filter P := by rw [← hP]; exact keep b (.child hb hp)
        simp [(List.mem_filter.mp this).2, hp]
      · simp [hp]
    · intro b
      constructor
      · intro hd; exact hd.mono (fun x hx => ((a2 x).mp hx).1)
      · intro hd
        induction hd with
        | child h1 h2 => exact .child (keep _ (.child h1 h2)) h2
        | step hc h1 h2 ih => exact .step ih (keep _ (.step hc h1 h2)) h2
    · rw [a3]
      exact List.mem_filter.mpr ⟨hl', by simpa using hne⟩
  · rw [removeByParent_nonleader hl]
    exact ⟨Untouched.refl _ _, hl'⟩

/-- the loop of `clean_expired_blocks` over a duplicate-free list of leaders whose subtrees are
still as in `pool0` -/
theorem expire_fold {par : Nat → Nat} (pool0 : List Blk) (e : Nat) : ∀ (ls : List Nat) (acc : Pool × List Blk),
    Inv par acc.1 → ls.Nodup → (∀ l, l ∈ ls → l ∈ acc.1.leaders ∧ Untouched pool0 acc.1.pool l) →
    (∀ b, b ∈ (ls.foldl
        (fun (acc : Pool × List Blk) h =>
          if needClean acc.1.pool h e then
            ((removeByParent acc.1 h).1, acc.2 ++ (removeByParent acc.1 h).2)
          else acc) acc).2 ↔
      b ∈ acc.2 ∨ ∃ l, l ∈ ls ∧ needClean pool0 l e = true ∧ Desc pool0 l b) ∧
    (∀ b, b ∈ (ls.foldl
        (fun (acc : Pool × List Blk) h =>
          if needClean acc.1.pool h e then
            ((removeByParent acc.1 h).1, acc.2 ++ (removeByParent acc.1 h).2)
          else acc) acc).1.pool ↔
      b ∈ acc.1.pool ∧ ¬ ∃ l, l ∈ ls ∧ needClean pool0 l e = true ∧ Desc pool0 l b) := by
  intro ls
  induction ls with
  | nil =>
    intro acc _ _ _
    simp
  | cons l ls ih =>
    intro acc hinv hnd hU
    simp only [List.foldl_cons]
    rw [List.nodup_cons] at hnd
    obtain ⟨hlead, hunt⟩ := hU l List.mem_cons_self
    have hnc : needClean acc.1.pool l e = needClean pool0 l e := by
      unfold needClean; rw [hunt.children]
    by_cases hc : needClean pool0 l e = true
    · rw [hnc, if_pos hc]
      obtain ⟨a1, a2, _⟩ := removeByParent_leader hlead
      have hU' : ∀ l', l' ∈ ls → l' ∈ (removeByParent acc.1 l).1.leaders ∧
          Untouched pool0 (removeByParent acc.1 l).1.pool l' := by
        intro l' hl'
        obtain ⟨h1, h2⟩ := hU l' (List.mem_cons_of_mem _ hl')
        have hne : l' ≠ l := fun hh => hnd.1 (hh ▸ hl')
        obtain ⟨u, m⟩ := release_other hinv h1 hne
        exact ⟨m, h2.trans u⟩
      obtain ⟨i1, i2⟩ := ih ((removeByParent acc.1 l).1, acc.2 ++ (removeByParent acc.1 l).2)
        (hinv.removeByParent l) hnd.2 hU'
      constructor
      · intro b
        rw [i1 b]
        simp only [List.mem_append, a1 b, hunt.desc b, List.mem_cons]
        constructor
        · rintro ((h | h) | ⟨l', h1, h2, h3⟩)
          · exact Or.inl h
          · exact Or.inr ⟨l, Or.inl rfl, hc, h⟩
          · exact Or.inr ⟨l', Or.inr h1, h2, h3⟩
        · rintro (h | ⟨l', (h1 | h1), h2, h3⟩)
          · exact Or.inl (Or.inl h)
          · subst h1; exact Or.inl (Or.inr h3)
          · exact Or.inr ⟨l', h1, h2, h3⟩
      · intro b
        rw [i2 b]
        simp only [a2 b, hunt.desc b, List.mem_cons]
        constructor
        · rintro ⟨⟨h1, h2⟩, h3⟩
          refine ⟨h1, ?_⟩
          rintro ⟨l', (h4 | h4), h5, h6⟩
          · subst h4; exact h2 h6
          · exact h3 ⟨l', h4, h5, h6⟩
        · rintro ⟨h1, h2⟩
          exact ⟨⟨h1, fun hd => h2 ⟨l, Or.inl rfl, hc, hd⟩⟩,
            fun ⟨l', h4, h5, h6⟩ => h2 ⟨l', Or.inr h4, h5, h6⟩⟩
    · rw [hnc, if_neg hc]
      have hU' : ∀ l', l' ∈ ls → l' ∈ acc.1.leaders ∧ Untouched pool0 acc.1.pool l' :=
        fun l' hl' => hU l' (List.mem_cons_of_mem _ hl')
      obtain ⟨i1, i2⟩ := ih acc hinv hnd.2 hU'
      constructor
      · intro b
        rw [i1 b]
        simp only [List.mem_cons]
        constructor
        · rintro (h | ⟨l', h1, h2, h3⟩)
          · exact Or.inl h
          · exact Or.inr ⟨l', Or.inr h1, h2, h3⟩
        · rintro (h | ⟨l', (h1 | h1), h2, h3⟩)
          · exact Or.inl h
          · subst h1; exact (hc h2).elim
          · exact Or.inr ⟨l', h1, h2, h3⟩
      · intro b
        rw [i2 b]
        simp only [List.mem_cons]
        constructor
        · rintro ⟨h1, h2⟩
          refine ⟨h1, ?_⟩
          rintro ⟨l', (h4 | h4), h5, h6⟩
          · subst h4; exact hc h5
          · exact h2 ⟨l', h4, h5, h6⟩
        · rintro ⟨h1, h2⟩
          exact ⟨h1, fun ⟨l', h4, h5, h6⟩ => h2 ⟨l', Or.inr h4, h5, h6⟩⟩

/-- `clean_expired_blocks` removes exactly the stored descendants of the leaders whose (first)
child is older than `EXPIRED_EPOCH` epochs, and keeps exactly the rest -/
theorem cleanExpired_exact {par : Nat → Nat} {s : Pool} (h : Inv par s) (e : Nat) :
    (∀ b, b ∈ (cleanExpired s e).2 ↔
      ∃ l, l ∈ s.leaders ∧ needClean s.pool l e = true ∧ Desc s.pool l b) ∧
    (∀ b, b ∈ (cleanExpired s e).1.pool ↔
      b ∈ s.pool ∧ ¬ ∃ l, l ∈ s.leaders ∧ needClean s.pool l e = true ∧ Desc s.pool l b) := by
  obtain ⟨a, b⟩ := expire_fold (par := par) s.pool e s.leaders (s, []) h h.leadersNodup
    (fun l hl => ⟨hl, Untouched.refl _ _⟩)
  unfold cleanExpired
  exact ⟨fun x => by rw [a x]; simp, b⟩

end CkbVerif.Orphan
