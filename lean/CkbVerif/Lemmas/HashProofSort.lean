import CkbVerif.Model.HashProof
/-!
# Lemmas for the CBMT proof model (C15): `TreeIndex` arithmetic and the stable sort
-/
namespace CkbVerif.Hash

/-! ## `TreeIndex` in arithmetic form -/

theorem xor_one_eq (n : Nat) : n ^^^ 1 = if n % 2 = 0 then n + 1 else n - 1 := by
  have h1 : (n ^^^ 1) / 2 = n / 2 := by
    rw [Nat.xor_div_two]; simp
  have h2 : ((n ^^^ 1) % 2 = 1) ↔ ¬ (n % 2 = 1) := by
    rw [Nat.xor_mod_two_eq_one]; simp
  split <;> omega

theorem tSibling_eq (i : Nat) (h : i ≠ 0) : tSibling i = if i % 2 = 1 then i + 1 else i - 1 := by
  unfold tSibling
  rw [if_neg h, xor_one_eq]
  split <;> split <;> omega

theorem tParent_eq (i : Nat) : tParent i = (i - 1) / 2 := by
  unfold tParent
  split
  · subst_vars; rfl
  · rw [Nat.shiftRight_eq_div_pow]

theorem tIsLeft_eq (i : Nat) : tIsLeft i = decide (i % 2 = 1) := by
  unfold tIsLeft
  rw [Nat.and_one_is_mod]
  by_cases h : i % 2 = 1 <;> simp [h]

/-! ## stable insertion sort -/

section sort
variable {β γ : Type} (le : β → β → Bool) (key : γ → β)

theorem insertBy_perm (x : γ) : ∀ l : List γ, (insertBy le key x l).Perm (x :: l)
  | [] => by simp [insertBy]
  | y :: ys => by
    unfold insertBy
    split
    · exact List.Perm.refl _
    · exact ((insertBy_perm x ys).cons y).trans (List.Perm.swap x y ys)

theorem sortBy_perm : ∀ l : List γ, (sortBy le key l).Perm l
  | [] => by simp [sortBy]
  | x :: xs => by
    unfold sortBy
    exact (insertBy_perm le key x _).trans ((sortBy_perm xs).cons x)

theorem sortBy_length (l : List γ) : (sortBy le key l).length = l.length := (sortBy_perm le key l).length_eq

theorem mem_sortBy {l : List γ} {a : γ} : a ∈ sortBy le key l ↔ a ∈ l := (sortBy_perm le key l).mem_iff

/-- a list that is already sorted is left alone (no totality needed) -/
theorem insertBy_of_le (x : γ) (l : List γ) (h : ∀ y ∈ l, le (key x) (key y) = true) : insertBy le key x l = x :: l := by
  cases l with
  | nil => rfl
  | cons y ys => unfold insertBy; rw [if_pos (h y (by simp))]

theorem sortBy_of_pairwise : ∀ l : List γ, l.Pairwise (fun a b => le (key a) (key b) = true) → sortBy le key l = l
  | [], _ => rfl
  | x :: xs, h => by
    rw [List.pairwise_cons] at h
    unfold sortBy
    rw [sortBy_of_pairwise xs h.2, insertBy_of_le le key x xs h.1]

variable (htot : ∀ a b : β, le a b = true ∨ le b a = true) (htrans : ∀ a b c : β, le a b = true → le b c = true → le a c = true)
include htot htrans

theorem insertBy_pairwise (x : γ) : ∀ l : List γ, l.Pairwise (fun a b => le (key a) (key b) = true) →
    (insertBy le key x l).Pairwise (fun a b => le (key a) (key b) = true)
  | [], _ => by simp [insertBy]
  | y :: ys, h => by
    unfold insertBy
    rw [List.pairwise_cons] at h
    split
    · rename_i hxy
      rw [List.pairwise_cons]
      refine ⟨?_, List.pairwise_cons.mpr h⟩
      intro z hz
      rcases List.mem_cons.mp hz with rfl | hz
      · exact hxy
      · exact htrans _ _ _ hxy (h.1 z hz)
    · rename_i hxy
      have hyx : le (key y) (key x) = true := by
        rcases htot (key x) (key y) with h' | h'
        · exact absurd h' hxy
        · exact h'
      rw [List.pairwise_cons]
      refine ⟨?_, insertBy_pairwise x ys h.2⟩
      intro z hz
      rcases List.mem_cons.mp ((insertBy_perm le key x ys).mem_iff.mp hz) with rfl | hz
      · exact hyx
      · exact h.1 z hz

theorem sortBy_pairwise : ∀ l : List γ, (sortBy le key l).Pairwise (fun a b => le (key a) (key b) = true)
  | [] => by simp [sortBy]
  | x :: xs => by
    unfold sortBy
    exact insertBy_pairwise le key htot htrans x _ (sortBy_pairwise xs)

end sort

section sortmap
variable {β γ δ : Type} (le : β → β → Bool) (key : γ → β) (g : δ → γ)

theorem insertBy_map (x : δ) : ∀ l : List δ,
    insertBy le key (g x) (l.map g) = (insertBy le (fun d => key (g d)) x l).map g
  | [] => rfl
  | y :: ys => by
    simp only [List.map_cons, insertBy]
    split
    · rfl
    · rw [List.map_cons, insertBy_map x ys]

theorem sortBy_map : ∀ l : List δ, sortBy le key (l.map g) = (sortBy le (fun d => key (g d)) l).map g
  | [] => rfl
  | x :: xs => by
    simp only [List.map_cons, sortBy]
    rw [sortBy_map xs, insertBy_map]

end sortmap

/-! ## the `Reverse<u32>` order -/

theorem leRev_tot (a b : Nat) : leRev a b = true ∨ leRev b a = true := by
  unfold leRev; simp only [Nat.ble_eq]; omega

theorem leRev_trans (a b c : Nat) : leRev a b = true → leRev b c = true → leRev a c = true := by
  unfold leRev; simp only [Nat.ble_eq]; omega

/-- sorting distinct numbers by `Reverse` gives the strictly descending list -/
theorem sortBy_leRev_strict (l : List Nat) (hnd : l.Nodup) : (sortBy leRev id l).Pairwise (· > ·) := by
  have hs := sortBy_pairwise leRev id leRev_tot leRev_trans l
  have hn : (sortBy leRev id l).Nodup := (sortBy_perm leRev id l).nodup_iff.mpr hnd
  have := hs.and hn
  refine this.imp ?_
  intro a b h
  simp only [leRev, id, Nat.ble_eq] at h
  omega

/-- a permutation of a strictly descending list sorts back to it -/
theorem sortBy_leRev_of_perm (l q : List Nat) (hq : q.Pairwise (· > ·)) (hp : l.Perm q) : sortBy leRev id l = q := by
  have hnd : l.Nodup := hp.nodup_iff.mpr (hq.imp (fun h => Nat.ne_of_gt h))
  have hs := sortBy_leRev_strict l hnd
  exact List.Perm.eq_of_pairwise (le := (· > ·)) (fun a b _ _ h1 h2 => by omega) hs hq ((sortBy_perm leRev id l).trans hp)

end CkbVerif.Hash
