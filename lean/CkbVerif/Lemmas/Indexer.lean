import CkbVerif.Model.Indexer

/-! Store / write-batch lemmas for the indexer model (C18). -/
namespace CkbVerif.Indexer

theorem del_cons (e : Key × Val) (r : Store) (k : Key) :
    del (e :: r) k = if e.1 = k then del r k else e :: del r k := by
  unfold del
  by_cases h : e.1 = k <;> simp [List.filter_cons, h]

theorem get_cons (e : Key × Val) (r : Store) (k : Key) :
    get (e :: r) k = if e.1 = k then some e.2 else get r k := by
  obtain ⟨k', v⟩ := e
  rfl

theorem get_del_same (s : Store) (k : Key) : get (del s k) k = none := by
  induction s with
  | nil => rfl
  | cons e r ih =>
    rw [del_cons]
    by_cases h : e.1 = k
    · simp [h, ih]
    · simp [h, get_cons, ih]

theorem get_del_other (s : Store) (k k' : Key) (h : k' ≠ k) : get (del s k') k = get s k := by
  induction s with
  | nil => rfl
  | cons e r ih =>
    rw [del_cons]
    by_cases h2 : e.1 = k'
    · have h3 : e.1 ≠ k := by rw [h2]; exact h
      simp [h2, get_cons, ih, h]
    · simp [h2, get_cons, ih]

theorem get_put_same (s : Store) (k : Key) (v : Val) : get (put s k v) k = some v := by
  simp [put, get]

theorem get_put_other (s : Store) (k k' : Key) (v : Val) (h : k' ≠ k) :
    get (put s k' v) k = get s k := by
  simp [put, get, h, get_del_other s k k' h]

/-- a batch entry that does not mention `k` does not change what `k` maps to -/
theorem get_applyOp_other (s : Store) (o : BOp) (k : Key) (h : o.key ≠ k) :
    get (applyOp s o) k = get s k := by
  cases o with
  | put k' v => exact get_put_other s k k' v h
  | del k' => exact get_del_other s k k' h

/-- a batch none of whose entries mentions `k` does not change what `k` maps to -/
theorem get_commit_untouched (ops : List BOp) (s : Store) (k : Key)
    (h : ∀ o ∈ ops, o.key ≠ k) : get (commit s ops) k = get s k := by
  induction ops generalizing s with
  | nil => rfl
  | cons o r ih =>
    have h1 : o.key ≠ k := h o (by simp)
    have h2 : ∀ o' ∈ r, o'.key ≠ k := fun o' ho' => h o' (by simp [ho'])
    show get (commit (applyOp s o) r) k = get s k
    rw [ih (applyOp s o) h2, get_applyOp_other s o k h1]

theorem commit_append (s : Store) (a b : List BOp) : commit s (a ++ b) = commit (commit s a) b := by
  simp [commit, List.foldl_append]

/-- the value of `k` after a batch: decided by the LAST entry that mentions `k` -/
def lastWrite (ops : List BOp) (k : Key) : Option (Option Val) :=
  ops.foldl (fun acc o =>
    match o with
    | .put k' v => if k' = k then some (some v) else acc
    | .del k' => if k' = k then some none else acc) none

theorem get_commit_snoc (s : Store) (ops : List BOp) (o : BOp) (k : Key) :
    get (commit s (ops ++ [o])) k =
      (match o with
       | .put k' v => if k' = k then some v else get (commit s ops) k
       | .del k' => if k' = k then none else get (commit s ops) k) := by
  rw [commit_append]
  cases o with
  | put k' v =>
    by_cases h : k' = k
    · subst h; simp [commit, applyOp, get_put_same]
    · simp [commit, applyOp, h, get_put_other _ k k' v h]
  | del k' =>
    by_cases h : k' = k
    · subst h; simp [commit, applyOp, get_del_same]
    · simp [commit, applyOp, h, get_del_other _ k k' h]

end CkbVerif.Indexer

namespace CkbVerif.Indexer

/-- every row of the store after a batch is an old row or a row put by the batch -/
theorem mem_commit (ops : List BOp) (s : Store) (e : Key × Val) (h : e ∈ commit s ops) :
    e ∈ s ∨ BOp.put e.1 e.2 ∈ ops := by
  induction ops generalizing s with
  | nil => exact Or.inl h
  | cons o r ih =>
    have h' : e ∈ commit (applyOp s o) r := h
    rcases ih (applyOp s o) h' with h1 | h1
    · cases o with
      | put k v =>
        simp only [applyOp, put, List.mem_cons] at h1
        rcases h1 with h1 | h1
        · right; subst h1; simp
        · left; exact (List.mem_filter.mp h1).1
      | del k =>
        simp only [applyOp] at h1
        left; exact (List.mem_filter.mp h1).1
    · right; simp [h1]

/-- a batch of deletions that do not mention the first row leaves it first -/
theorem commit_dels_cons (ops : List BOp) (e : Key × Val) (r : Store)
    (h : ∀ o ∈ ops, ∃ k, o = .del k ∧ k ≠ e.1) :
    commit (e :: r) ops = e :: commit r ops := by
  induction ops generalizing r with
  | nil => rfl
  | cons o t ih =>
    obtain ⟨k, hk, hne⟩ := h o (by simp)
    subst hk
    have ht : ∀ o ∈ t, ∃ k, o = .del k ∧ k ≠ e.1 := fun o ho => h o (by simp [ho])
    show commit (applyOp (e :: r) (.del k)) t = e :: commit (applyOp r (.del k)) t
    have : applyOp (e :: r) (.del k) = e :: applyOp r (.del k) := by
      simp only [applyOp, del_cons]
      have : ¬ e.1 = k := fun h => hne h.symm
      simp [this]
    rw [this, ih _ ht]

/-- a batch of deletions only removes rows -/
theorem mem_commit_dels (ops : List BOp) (s : Store) (e : Key × Val)
    (hd : ∀ o ∈ ops, ∃ k, o = .del k) (h : e ∈ commit s ops) : e ∈ s := by
  rcases mem_commit ops s e h with h1 | h1
  · exact h1
  · obtain ⟨k, hk⟩ := hd _ h1
    cases hk

def Key.isAnswer : Key → Bool
  | .outPoint _ | .cellLock .. | .cellType .. | .txLock .. | .txType .. => true
  | _ => false

end CkbVerif.Indexer
