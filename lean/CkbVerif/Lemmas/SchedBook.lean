import CkbVerif.Model.SchedBook

/-! Helper lemmas for the scheduler bookkeeping model (`Model/SchedBook.lean`): key-set algebra,
frame lemmas (what `resume_vm` / `suspend_vm` / `ensure_vms_instantiated` / `process_io` leave
untouched) and the two loops of a whole-scheduler suspend / resume. -/
namespace CkbVerif.SchedBook
open CkbVerif.Gen.Cycles

/-! ### key sets -/

theorem mem_sinsert (a x : Nat) (l : List Nat) : x ∈ sinsert a l ↔ x = a ∨ x ∈ l := by
  induction l with
  | nil => simp [sinsert]
  | cons b l ih =>
    unfold sinsert
    by_cases h1 : a < b
    · simp [h1]
    · by_cases h2 : a = b
      · subst h2; simp
      · simp only [h1, h2, if_false, List.mem_cons, ih]
        constructor
        · rintro (h | h | h) <;> simp [h]
        · rintro (h | h | h) <;> simp [h]

theorem mem_sremove (a x : Nat) (l : List Nat) : x ∈ sremove a l ↔ x ≠ a ∧ x ∈ l := by
  simp [sremove, and_comm]

theorem sinsert_lt_all (a : Nat) (l : List Nat) (h : ∀ b ∈ l, a < b) : sinsert a l = a :: l := by
  cases l with
  | nil => rfl
  | cons b l => simp [sinsert, h b (List.mem_cons_self)]

theorem sremove_head (a : Nat) (l : List Nat) (h : a ∉ l) : sremove a (a :: l) = l := by
  simp only [sremove, List.filter_cons, ne_eq, not_true_eq_false, decide_false]
  simp only [Bool.false_eq_true, if_false]
  exact List.filter_eq_self.mpr (fun x hx => by simp; intro e; subst e; exact h hx)

/-! ### frame: everything but `iter`, `inst`, `susp`, `log` is untouched by the VM swapping -/

/-- the components VM swapping cannot touch -/
def SameCore (s t : Sch) : Prop :=
  t.total = s.total ∧ t.nextVm = s.nextVm ∧ t.nextFd = s.nextFd ∧ t.states = s.states ∧
  t.fds = s.fds ∧ t.inherited = s.inherited ∧ t.term = s.term

theorem SameCore.refl (s : Sch) : SameCore s s := ⟨rfl, rfl, rfl, rfl, rfl, rfl, rfl⟩

theorem SameCore.trans {a b c : Sch} (h1 : SameCore a b) (h2 : SameCore b c) : SameCore a c := by
  obtain ⟨a1, a2, a3, a4, a5, a6, a7⟩ := h1
  obtain ⟨b1, b2, b3, b4, b5, b6, b7⟩ := h2
  exact ⟨b1.trans a1, b2.trans a2, b3.trans a3, b4.trans a4, b5.trans a5, b6.trans a6, b7.trans a7⟩

/-- the scheduler after a successful `resume_vm(id)` -/
def afterResume (id : Nat) (s : Sch) : Sch :=
  { s with iter := s.iter + SPAWN_EXTRA_CYCLES_BASE, inst := sinsert id s.inst, susp := sremove id s.susp, log := .rv id :: s.log }

/-- the scheduler after a successful `suspend_vm(id)` -/
def afterSuspend (id : Nat) (s : Sch) : Sch :=
  { s with iter := s.iter + SPAWN_EXTRA_CYCLES_BASE, susp := sinsert id s.susp, inst := sremove id s.inst, log := .sv id :: s.log }

theorem resumeVm_ok {id : Nat} {s t : Sch} (h : resumeVm id s = .ok t) :
    id ∈ s.susp ∧ t = afterResume id s := by
  unfold resumeVm at h
  by_cases h1 : id ∈ s.susp
  · by_cases h2 : s.iter + SPAWN_EXTRA_CYCLES_BASE < U64
    · simp [h1, h2] at h
      exact ⟨h1, h.symm⟩
    · simp [h1, h2] at h
  · simp [h1] at h

theorem suspendVm_ok {id : Nat} {s t : Sch} (h : suspendVm id s = .ok t) :
    id ∈ s.inst ∧ t = afterSuspend id s := by
  unfold suspendVm at h
  by_cases h1 : id ∈ s.inst
  · by_cases h2 : s.iter + SPAWN_EXTRA_CYCLES_BASE < U64
    · simp [h1, h2] at h
      exact ⟨h1, h.symm⟩
    · simp [h1, h2] at h
  · simp [h1] at h

theorem resumeVm_core {id : Nat} {s t : Sch} (h : resumeVm id s = .ok t) : SameCore s t := by
  obtain ⟨_, e⟩ := resumeVm_ok h
  subst e
  exact ⟨rfl, rfl, rfl, rfl, rfl, rfl, rfl⟩

theorem suspendVm_core {id : Nat} {s t : Sch} (h : suspendVm id s = .ok t) : SameCore s t := by
  obtain ⟨_, e⟩ := suspendVm_ok h
  subst e
  exact ⟨rfl, rfl, rfl, rfl, rfl, rfl, rfl⟩

theorem fillLoop_core : ∀ (r : List Nat) (s t : Sch) (left : List Nat),
    fillLoop r s = .ok (left, t) → SameCore s t := by
  intro r
  induction r with
  | nil => intro s t left h; simp [fillLoop] at h; rw [← h.2]; exact SameCore.refl s
  | cons id rest ih =>
    intro s t left h
    unfold fillLoop at h
    by_cases hl : s.inst.length < MAX_INSTANTIATED_VMS
    · simp only [hl, if_true] at h
      cases hr : resumeVm id s with
      | error e => rw [hr] at h; simp at h
      | ok s' =>
        rw [hr] at h
        exact (resumeVm_core hr).trans (ih s' t left h)
    · simp only [hl, if_false, Except.ok.injEq, Prod.mk.injEq] at h
      rw [← h.2]; exact SameCore.refl s

theorem swapLoop_core : ∀ (as bs : List Nat) (s t : Sch), swapLoop as bs s = .ok t → SameCore s t := by
  intro as bs
  induction bs generalizing as with
  | nil => intro s t h; cases as <;> simp [swapLoop] at h <;> (rw [← h]; exact SameCore.refl s)
  | cons b bs ih =>
    intro s t h
    cases as with
    | nil => simp [swapLoop] at h
    | cons a as =>
      unfold swapLoop at h
      cases h1 : suspendVm a s with
      | error e => rw [h1] at h; simp at h
      | ok s1 =>
        rw [h1] at h
        simp only at h
        cases h2 : resumeVm b s1 with
        | error e => rw [h2] at h; simp at h
        | ok s2 =>
          rw [h2] at h
          exact ((suspendVm_core h1).trans (resumeVm_core h2)).trans (ih as s2 t h)

theorem ensureInst_core {ids : List Nat} {s t : Sch} (h : ensureInst ids s = .ok t) : SameCore s t := by
  unfold ensureInst at h
  by_cases h0 : MAX_INSTANTIATED_VMS < ids.length
  · simp [h0] at h
  · simp only [h0, if_false] at h
    cases hf : fillLoop (ids.filter (fun id => !s.inst.contains id)).reverse s with
    | error e => rw [hf] at h; simp at h
    | ok p =>
      obtain ⟨leftRev, s1⟩ := p
      rw [hf] at h
      simp only at h
      have c1 := fillLoop_core _ s s1 leftRev hf
      by_cases he : leftRev.reverse.isEmpty = true
      · simp only [he, if_true, Except.ok.injEq] at h
        rw [← h]; exact c1
      · simp only [he, Bool.false_eq_true, if_false] at h
        exact c1.trans (swapLoop_core _ _ s1 t h)

/-! ### the two loops of a whole-scheduler suspend / resume -/

@[simp] theorem afterResume_inst (id : Nat) (s : Sch) : (afterResume id s).inst = sinsert id s.inst := rfl
@[simp] theorem afterResume_susp (id : Nat) (s : Sch) : (afterResume id s).susp = sremove id s.susp := rfl
@[simp] theorem afterResume_iter (id : Nat) (s : Sch) : (afterResume id s).iter = s.iter + SPAWN_EXTRA_CYCLES_BASE := rfl
@[simp] theorem afterSuspend_inst (id : Nat) (s : Sch) : (afterSuspend id s).inst = sremove id s.inst := rfl
@[simp] theorem afterSuspend_susp (id : Nat) (s : Sch) : (afterSuspend id s).susp = sinsert id s.susp := rfl
@[simp] theorem afterSuspend_iter (id : Nat) (s : Sch) : (afterSuspend id s).iter = s.iter + SPAWN_EXTRA_CYCLES_BASE := rfl

theorem suspendVm_of_mem {id : Nat} {s : Sch} (h : id ∈ s.inst) (hov : s.iter + SPAWN_EXTRA_CYCLES_BASE < U64) :
    suspendVm id s = .ok (afterSuspend id s) := by
  unfold suspendVm afterSuspend; simp [h, hov]

theorem resumeVm_of_mem {id : Nat} {s : Sch} (h : id ∈ s.susp) (hov : s.iter + SPAWN_EXTRA_CYCLES_BASE < U64) :
    resumeVm id s = .ok (afterResume id s) := by
  unfold resumeVm afterResume; simp [h, hov]

theorem extra_le_mul (n : Nat) : SPAWN_EXTRA_CYCLES_BASE ≤ (n + 1) * SPAWN_EXTRA_CYCLES_BASE :=
  Nat.le_mul_of_pos_left _ (by omega)

/-- `Scheduler::suspend`'s loop over all instantiated VMs: nothing stays instantiated, every one of
them is now suspended, `SPAWN_EXTRA_CYCLES_BASE` per VM went to `iteration_cycles` -/
theorem suspendAll_all : ∀ (l : List Nat) (s : Sch), s.inst = l → l.Nodup →
    s.iter + l.length * SPAWN_EXTRA_CYCLES_BASE < U64 →
    ∃ t, suspendAll l s = .ok t ∧ t.inst = [] ∧ (∀ x, x ∈ t.susp ↔ x ∈ s.susp ∨ x ∈ l) ∧
      t.iter = s.iter + l.length * SPAWN_EXTRA_CYCLES_BASE ∧ SameCore s t := by
  intro l
  induction l with
  | nil => intro s h _ _; exact ⟨s, rfl, h, by simp, by simp, SameCore.refl s⟩
  | cons id rest ih =>
    intro s h nd hov
    have hnd := List.nodup_cons.mp nd
    have hin : id ∈ s.inst := by rw [h]; simp
    simp only [List.length_cons, Nat.add_mul, Nat.one_mul] at hov
    have hs := suspendVm_of_mem hin (by omega)
    unfold suspendAll
    rw [hs]
    simp only
    obtain ⟨t, h1, h2, h3, h4, h5⟩ := ih (afterSuspend id s)
      (by rw [afterSuspend_inst, h]; exact sremove_head id rest hnd.1) hnd.2
      (by rw [afterSuspend_iter]; omega)
    refine ⟨t, h1, h2, ?_, ?_, (suspendVm_core hs).trans h5⟩
    · intro x
      rw [h3 x]
      simp only [afterSuspend_susp, mem_sinsert, List.mem_cons]
      constructor
      · rintro ((h | h) | h) <;> simp [h]
      · rintro (h | h | h) <;> simp [h]
    · rw [h4, afterSuspend_iter]; simp only [List.length_cons, Nat.add_mul, Nat.one_mul]; omega

/-- the first loop of `ensure_vms_instantiated` on ids given in DESCENDING order that are all
smaller than what is instantiated: every one of them is resumed and the instantiated key set is
the ascending list in front of the old one -/
theorem fillLoop_all : ∀ (r : List Nat) (s : Sch), r.Pairwise (· > ·) → (∀ a ∈ r, ∀ b ∈ s.inst, a < b) →
    (∀ a ∈ r, a ∈ s.susp) → r.length + s.inst.length ≤ MAX_INSTANTIATED_VMS →
    s.iter + r.length * SPAWN_EXTRA_CYCLES_BASE < U64 →
    ∃ t, fillLoop r s = .ok ([], t) ∧ t.inst = r.reverse ++ s.inst ∧
      (∀ x, x ∈ t.susp ↔ x ∈ s.susp ∧ x ∉ r) ∧ SameCore s t := by
  intro r
  induction r with
  | nil => intro s _ _ _ _ _; exact ⟨s, rfl, by simp, by simp, SameCore.refl s⟩
  | cons a rest ih =>
    intro s hp hlt hsus hlen hov
    have hp' := List.pairwise_cons.mp hp
    simp only [List.length_cons, Nat.add_mul, Nat.one_mul] at hov
    simp only [List.length_cons] at hlen
    have hl : s.inst.length < MAX_INSTANTIATED_VMS := by omega
    have hs := resumeVm_of_mem (hsus a List.mem_cons_self) (by omega)
    unfold fillLoop
    simp only [hl, if_true]
    rw [hs]
    simp only
    have hins : sinsert a s.inst = a :: s.inst := sinsert_lt_all a s.inst (hlt a List.mem_cons_self)
    obtain ⟨t, h1, h2, h3, h4⟩ := ih (afterResume a s) hp'.2
      (by
        intro x hx b hb
        rw [afterResume_inst, hins, List.mem_cons] at hb
        rcases hb with hb | hb
        · subst hb; exact hp'.1 x hx
        · exact hlt x (List.mem_cons_of_mem _ hx) b hb)
      (by
        intro x hx
        rw [afterResume_susp, mem_sremove]
        exact ⟨by have := hp'.1 x hx; omega, hsus x (List.mem_cons_of_mem _ hx)⟩)
      (by rw [afterResume_inst, hins, List.length_cons]; omega)
      (by rw [afterResume_iter]; omega)
    refine ⟨t, h1, ?_, ?_, (resumeVm_core hs).trans h4⟩
    · rw [h2, afterResume_inst, hins]; simp
    · intro x
      rw [h3 x, afterResume_susp, mem_sremove, List.mem_cons]
      constructor
      · rintro ⟨⟨h, h'⟩, h''⟩; exact ⟨h', by rintro (e | e); exact h e; exact h'' e⟩
      · rintro ⟨h, h'⟩; exact ⟨⟨fun e => h' (.inl e), h⟩, fun e => h' (.inr e)⟩

/-! ### small facts used by `Props/C05Sched.lean` -/

theorem pairwise_lt_nodup {l : List Nat} (h : l.Pairwise (· < ·)) : l.Nodup :=
  h.imp (fun hab => Nat.ne_of_lt hab)

theorem serveClosed_total : ∀ (l : List Nat) (s t : Sch), serveClosed l s = .ok t → t.total = s.total := by
  intro l
  induction l with
  | nil => intro s t h; simp [serveClosed] at h; rw [← h]
  | cons vm rest ih =>
    intro s t h
    unfold serveClosed at h
    split at h
    · split at h
      · cases h
      · rename_i s1 he
        rw [ih _ t h]
        exact (ensureInst_core he).1
    · split at h
      · cases h
      · rename_i s1 he
        rw [ih _ t h]
        exact (ensureInst_core he).1
    · exact ih s t h

theorem servePairs_total : ∀ (l : List Pair) (s t : Sch), servePairs l s = .ok t → t.total = s.total := by
  intro l
  induction l with
  | nil => intro s t h; simp [servePairs] at h; rw [← h]
  | cons p rest ih =>
    intro s t h
    unfold servePairs at h
    split at h
    · cases h
    · rename_i s1 he
      simp only at h
      rw [ih _ t h]
      split <;> exact (ensureInst_core he).1

theorem processIo_total (s t : Sch) (h : processIo s = .ok t) : t.total = s.total := by
  unfold processIo at h
  simp only at h
  split at h
  · cases h
  · rename_i s1 he
    rw [servePairs_total _ s1 t h, serveClosed_total _ _ s1 he]

/-! ### `ensure_get_instantiated` on one VM -/

theorem sinsert_length_le (a : Nat) (l : List Nat) : (sinsert a l).length ≤ l.length + 1 := by
  induction l with
  | nil => simp [sinsert]
  | cons b l ih =>
    unfold sinsert
    by_cases h1 : a < b
    · simp [h1]
    · by_cases h2 : a = b
      · simp [h2]
      · simp only [h1, h2, if_false, List.length_cons]; omega

theorem sremove_length_lt (a : Nat) (l : List Nat) (h : a ∈ l) : (sremove a l).length < l.length := by
  induction l with
  | nil => cases h
  | cons b l ih =>
    unfold sremove
    simp only [List.filter_cons]
    by_cases hb : b = a
    · subst hb
      simp only [ne_eq, not_true_eq_false, decide_false, Bool.false_eq_true, if_false, List.length_cons]
      have := List.length_filter_le (fun x => decide (x ≠ b)) l
      simp only [ne_eq] at this
      omega
    · have hin : a ∈ l := by
        rcases List.mem_cons.mp h with e | e
        · exact absurd e.symm hb
        · exact e
      have := ih hin
      unfold sremove at this
      simp only [ne_eq] at this
      simp only [ne_eq, hb, not_false_eq_true, decide_true, if_true, List.length_cons]
      omega

/-- `ensure_get_instantiated(id)`: afterwards the VM is instantiated, and the cap of
`MAX_INSTANTIATED_VMS` is kept -/
theorem ensureInst_single {id : Nat} {s t : Sch} (h : ensureInst [id] s = .ok t) :
    id ∈ t.inst ∧ (s.inst.length ≤ MAX_INSTANTIATED_VMS → t.inst.length ≤ MAX_INSTANTIATED_VMS) := by
  unfold ensureInst at h
  have h0 : ¬ MAX_INSTANTIATED_VMS < [id].length := by simp [MAX_INSTANTIATED_VMS]
  simp only [h0, if_false] at h
  by_cases hin : id ∈ s.inst
  · have hf : [id].filter (fun x => !s.inst.contains x) = [] := by simp [hin]
    rw [hf] at h
    simp [fillLoop] at h
    subst h
    exact ⟨hin, fun hh => hh⟩
  · have hf : [id].filter (fun x => !s.inst.contains x) = [id] := by simp [hin]
    rw [hf] at h
    simp only [List.reverse_cons, List.reverse_nil, List.nil_append] at h
    unfold fillLoop at h
    by_cases hl : s.inst.length < MAX_INSTANTIATED_VMS
    · simp only [hl, if_true] at h
      cases hr : resumeVm id s with
      | error e => rw [hr] at h; simp at h
      | ok s1 =>
        rw [hr] at h
        simp [fillLoop] at h
        subst h
        obtain ⟨_, e⟩ := resumeVm_ok hr
        subst e
        refine ⟨by simp [afterResume, mem_sinsert], fun _ => ?_⟩
        have := sinsert_length_le id s.inst
        simp only [afterResume]
        omega
    · simp only [hl, if_false] at h
      simp only [List.reverse_cons, List.reverse_nil, List.nil_append, List.isEmpty_cons, Bool.false_eq_true, if_false] at h
      cases hs : s.inst.filter (fun x => !([id].contains x)) with
      | nil => rw [hs] at h; simp [swapLoop] at h
      | cons a as =>
        rw [hs] at h
        unfold swapLoop at h
        cases h1 : suspendVm a s with
        | error e => rw [h1] at h; simp at h
        | ok s1 =>
          rw [h1] at h
          simp only at h
          cases h2 : resumeVm id s1 with
          | error e => rw [h2] at h; simp at h
          | ok s2 =>
            rw [h2] at h
            simp only at h
            have h3 : swapLoop as [] s2 = .ok s2 := by cases as <;> rfl
            rw [h3] at h
            cases h
            obtain ⟨ha, e1⟩ := suspendVm_ok h1
            obtain ⟨_, e2⟩ := resumeVm_ok h2
            subst e1 e2
            refine ⟨by simp [afterResume, mem_sinsert], fun hcap => ?_⟩
            have l1 := sinsert_length_le id (sremove a s.inst)
            have l2 := sremove_length_lt a s.inst ha
            simp only [afterResume, afterSuspend]
            omega

/-! ### what `process_io` can change -/

theorem mem_minsert_sub {α : Type} (k : Nat) (v : α) (l : List (Nat × α)) (p : Nat × α)
    (h : p ∈ minsert k v l) : p = (k, v) ∨ p ∈ l := by
  induction l with
  | nil => simp [minsert] at h; exact .inl h
  | cons q l ih =>
    obtain ⟨k', v'⟩ := q
    unfold minsert at h
    by_cases h1 : k < k'
    · simp only [h1, if_true, List.mem_cons] at h
      rcases h with h | h | h
      · exact .inl h
      · exact .inr (by simp [h])
      · exact .inr (by simp [h])
    · by_cases h2 : k = k'
      · subst h2
        simp only [Nat.lt_irrefl, if_false, if_true, List.mem_cons] at h
        rcases h with h | h
        · exact .inl h
        · exact .inr (by simp [h])
      · simp only [h1, h2, if_false, List.mem_cons] at h
        rcases h with h | h
        · exact .inr (by simp [h])
        · rcases ih h with e | e
          · exact .inl e
          · exact .inr (by simp [e])

/-- what `process_io` may write into `states`: `Runnable`, or a `WaitForWrite` -/
def IoWritten (st : VmState) : Prop := st = .runnable ∨ ∃ fd c len, st = .waitWrite fd c len

/-- `t` differs from `s` only by VM swapping and by states `process_io` may write -/
def IoStep (s t : Sch) : Prop :=
  t.total = s.total ∧ t.nextVm = s.nextVm ∧ t.nextFd = s.nextFd ∧ t.fds = s.fds ∧
  t.inherited = s.inherited ∧ t.term = s.term ∧
  ∀ p ∈ t.states, p ∈ s.states ∨ IoWritten p.2

theorem IoStep.refl (s : Sch) : IoStep s s := ⟨rfl, rfl, rfl, rfl, rfl, rfl, fun _ h => .inl h⟩

theorem IoStep.trans {a b c : Sch} (h1 : IoStep a b) (h2 : IoStep b c) : IoStep a c := by
  obtain ⟨a1, a2, a3, a4, a5, a6, a7⟩ := h1
  obtain ⟨b1, b2, b3, b4, b5, b6, b7⟩ := h2
  refine ⟨b1.trans a1, b2.trans a2, b3.trans a3, b4.trans a4, b5.trans a5, b6.trans a6, ?_⟩
  intro p hp
  rcases b7 p hp with h | h
  · exact a7 p h
  · exact .inr h

theorem IoStep.ofCore {s t : Sch} (h : SameCore s t) : IoStep s t := by
  obtain ⟨c1, c2, c3, c4, c5, c6, c7⟩ := h
  exact ⟨c1, c2, c3, c5, c6, c7, fun p hp => .inl (by rw [← c4]; exact hp)⟩

theorem IoStep.insert (s : Sch) (vm : Nat) (st : VmState) (h : IoWritten st) :
    IoStep s { s with states := minsert vm st s.states } :=
  ⟨rfl, rfl, rfl, rfl, rfl, rfl, fun p hp => by
    rcases mem_minsert_sub vm st s.states p hp with e | e
    · exact .inr (by rw [e]; exact h)
    · exact .inl e⟩

theorem serveClosed_ioStep : ∀ (l : List Nat) (s t : Sch), serveClosed l s = .ok t → IoStep s t := by
  intro l
  induction l with
  | nil => intro s t h; simp [serveClosed] at h; rw [← h]; exact IoStep.refl s
  | cons vm rest ih =>
    intro s t h
    unfold serveClosed at h
    split at h
    · split at h
      · cases h
      · rename_i s1 he
        exact ((IoStep.ofCore (ensureInst_core he)).trans (IoStep.insert s1 vm .runnable (.inl rfl))).trans (ih _ t h)
    · split at h
      · cases h
      · rename_i s1 he
        exact ((IoStep.ofCore (ensureInst_core he)).trans (IoStep.insert s1 vm .runnable (.inl rfl))).trans (ih _ t h)
    · exact ih s t h

theorem servePairs_ioStep : ∀ (l : List Pair) (s t : Sch), servePairs l s = .ok t → IoStep s t := by
  intro l
  induction l with
  | nil => intro s t h; simp [servePairs] at h; rw [← h]; exact IoStep.refl s
  | cons p rest ih =>
    intro s t h
    unfold servePairs at h
    split at h
    · cases h
    · rename_i s1 he
      simp only at h
      refine (IoStep.ofCore (ensureInst_core he)).trans (IoStep.trans ?_ (ih _ t h))
      have e1 : IoStep s1 { s1 with log := .io p.reader p.writer (min p.rlen (p.wlen - p.consumed)) :: s1.log,
                                    states := minsert p.reader .runnable s1.states } := by
        have := IoStep.insert s1 p.reader .runnable (.inl rfl)
        exact ⟨this.1, this.2.1, this.2.2.1, this.2.2.2.1, this.2.2.2.2.1, this.2.2.2.2.2.1, this.2.2.2.2.2.2⟩
      split
      · exact e1.trans (IoStep.insert _ p.writer .runnable (.inl rfl))
      · exact e1.trans (IoStep.insert _ p.writer _ (.inr ⟨_, _, _, rfl⟩))

theorem processIo_ioStep (s t : Sch) (h : processIo s = .ok t) : IoStep s t := by
  unfold processIo at h
  simp only at h
  split at h
  · cases h
  · rename_i s1 he
    have h1 := serveClosed_ioStep _ _ s1 he
    have h2 := servePairs_ioStep _ s1 t h
    have h0 : IoStep s { s with log := .ioScan (closedReaders s ++ closedWriters s).length (ioPairs s).length :: s.log } :=
      ⟨rfl, rfl, rfl, rfl, rfl, rfl, fun _ hp => .inl hp⟩
    exact (h0.trans h1).trans h2

/-! ### `process_io`: no reader is left on a closed end -/

/-- keys strictly ascending (`BTreeMap`) -/
def KS {α : Type} (l : List (Nat × α)) : Prop := (l.map (·.1)).Pairwise (· < ·)

theorem mget_minsert {α : Type} (k k' : Nat) (v : α) (l : List (Nat × α)) :
    mget k (minsert k' v l) = if k = k' then some v else mget k l := by
  induction l with
  | nil => simp [minsert, mget]
  | cons q l ih =>
    obtain ⟨a, w⟩ := q
    unfold minsert
    by_cases h1 : k' < a
    · simp only [h1, if_true]
      by_cases hk : k = k'
      · simp [mget, hk]
      · simp [mget, hk]
    · by_cases h2 : k' = a
      · subst h2
        simp only [Nat.lt_irrefl, if_false, if_true]
        by_cases hk : k = k' <;> simp [mget, hk]
      · simp only [h1, h2, if_false]
        by_cases hk : k = k'
        · subst hk
          have : ¬ k = a := h2
          simp [mget, this, ih]
        · by_cases ha : k = a
          · simp [mget, ha, hk]
            intro e; exact absurd (ha ▸ e.symm ▸ rfl : k = k') hk
          · simp [mget, ha, ih, hk]

theorem keys_minsert {α : Type} (k : Nat) (v : α) (l : List (Nat × α)) (x : Nat) :
    x ∈ (minsert k v l).map (·.1) ↔ x = k ∨ x ∈ l.map (·.1) := by
  induction l with
  | nil => simp [minsert]
  | cons q l ih =>
    obtain ⟨a, w⟩ := q
    unfold minsert
    by_cases h1 : k < a
    · simp [h1]
    · by_cases h2 : k = a
      · subst h2; simp
      · simp only [h1, h2, if_false, List.map_cons, List.mem_cons, ih]
        constructor
        · rintro (h | h | h) <;> simp [h]
        · rintro (h | h | h) <;> simp [h]

theorem KS_minsert {α : Type} (k : Nat) (v : α) (l : List (Nat × α)) (h : KS l) : KS (minsert k v l) := by
  induction l with
  | nil => simp [KS, minsert]
  | cons q l ih =>
    obtain ⟨a, w⟩ := q
    unfold KS at h
    simp only [List.map_cons, List.pairwise_cons] at h
    unfold minsert
    by_cases h1 : k < a
    · simp only [h1, if_true]
      unfold KS
      simp only [List.map_cons, List.pairwise_cons, List.mem_cons]
      refine ⟨?_, h⟩
      rintro x (e | e)
      · omega
      · have := h.1 x e; omega
    · by_cases h2 : k = a
      · subst h2
        simp only [Nat.lt_irrefl, if_false, if_true]
        unfold KS
        simp only [List.map_cons, List.pairwise_cons]
        exact h
      · simp only [h1, h2, if_false]
        unfold KS
        simp only [List.map_cons, List.pairwise_cons]
        refine ⟨?_, ih h.2⟩
        intro x hx
        rcases (keys_minsert k v l x).mp hx with e | e
        · omega
        · exact h.1 x e

theorem mget_of_mem {α : Type} (l : List (Nat × α)) (h : KS l) (a : Nat) (v : α) (hm : (a, v) ∈ l) :
    mget a l = some v := by
  induction l with
  | nil => cases hm
  | cons q l ih =>
    obtain ⟨b, w⟩ := q
    unfold KS at h
    simp only [List.map_cons, List.pairwise_cons] at h
    rcases List.mem_cons.mp hm with e | e
    · cases e; simp [mget]
    · have hb : b < a := h.1 a (List.mem_map_of_mem (f := (·.1)) e)
      have : ¬ a = b := by omega
      simp only [mget, this, if_false]
      exact ih h.2 e

/-- not waiting for a read -/
def NotRead (o : Option VmState) : Prop := ∀ fd len, o ≠ some (.waitRead fd len)

theorem serveClosed_post : ∀ (l : List Nat) (s t : Sch), KS s.states → serveClosed l s = .ok t →
    KS t.states ∧ (∀ vm, NotRead (mget vm s.states) → NotRead (mget vm t.states)) ∧
    (∀ vm ∈ l, NotRead (mget vm t.states)) := by
  intro l
  induction l with
  | nil =>
    intro s t hk h
    simp [serveClosed] at h
    subst h
    exact ⟨hk, fun _ h => h, by simp⟩
  | cons vm rest ih =>
    intro s t hk h
    unfold serveClosed at h
    have step : ∀ s1 : Sch, ensureInst [vm] s = .ok s1 →
        serveClosed rest { s1 with states := minsert vm .runnable s1.states } = .ok t →
        KS t.states ∧ (∀ x, NotRead (mget x s.states) → NotRead (mget x t.states)) ∧
          (∀ x ∈ vm :: rest, NotRead (mget x t.states)) := by
      intro s1 he h'
      have hst : s1.states = s.states := (ensureInst_core he).2.2.2.1
      obtain ⟨k1, k2, k3⟩ := ih _ t (by simp only [hst]; exact KS_minsert _ _ _ hk) h'
      have hins : ∀ x, NotRead (mget x s.states) → NotRead (mget x (minsert vm VmState.runnable s1.states)) := by
        intro x hx fd len
        rw [mget_minsert, hst]
        by_cases e : x = vm
        · simp [e]
        · simp only [e, if_false]; exact hx fd len
      refine ⟨k1, fun x hx => k2 x (hins x hx), ?_⟩
      intro x hx
      rcases List.mem_cons.mp hx with e | e
      · subst e
        apply k2
        intro fd len
        simp only [mget_minsert, if_true]
        simp
      · exact k3 x e
    split at h
    · split at h
      · cases h
      · rename_i s1 he; exact step s1 he h
    · split at h
      · cases h
      · rename_i s1 he; exact step s1 he h
    · rename_i hne1 hne2
      obtain ⟨k1, k2, k3⟩ := ih s t hk h
      refine ⟨k1, k2, ?_⟩
      intro x hx
      rcases List.mem_cons.mp hx with e | e
      · subst e
        apply k2
        intro fd len hh
        exact hne1 fd len hh
      · exact k3 x e

theorem servePairs_post : ∀ (l : List Pair) (s t : Sch), KS s.states → servePairs l s = .ok t →
    KS t.states ∧ (∀ vm, NotRead (mget vm s.states) → NotRead (mget vm t.states)) := by
  intro l
  induction l with
  | nil =>
    intro s t hk h
    simp [servePairs] at h
    subst h
    exact ⟨hk, fun _ h => h⟩
  | cons p rest ih =>
    intro s t hk h
    unfold servePairs at h
    split at h
    · cases h
    · rename_i s1 he
      simp only at h
      have hst : s1.states = s.states := (ensureInst_core he).2.2.2.1
      have hk1 : KS (minsert p.reader VmState.runnable s1.states) := by rw [hst]; exact KS_minsert _ _ _ hk
      have hn1 : ∀ x, NotRead (mget x s.states) → NotRead (mget x (minsert p.reader VmState.runnable s1.states)) := by
        intro x hx fd len
        rw [mget_minsert, hst]
        by_cases e : x = p.reader
        · simp [e]
        · simp only [e, if_false]; exact hx fd len
      split at h
      · obtain ⟨k1, k2⟩ := ih _ t (by simp only; exact KS_minsert _ _ _ hk1) h
        refine ⟨k1, fun x hx => k2 x ?_⟩
        intro fd len
        simp only
        rw [mget_minsert]
        by_cases e : x = p.writer
        · simp [e]
        · simp only [e, if_false]; exact hn1 x hx fd len
      · obtain ⟨k1, k2⟩ := ih _ t (by simp only; exact KS_minsert _ _ _ hk1) h
        refine ⟨k1, fun x hx => k2 x ?_⟩
        intro fd len
        simp only
        rw [mget_minsert]
        by_cases e : x = p.writer
        · simp [e]
        · simp only [e, if_false]; exact hn1 x hx fd len

/-- after `process_io` no VM waits for a read on a pipe whose other end is closed -/
theorem processIo_no_closed_reader (s t : Sch) (hk : KS s.states) (h : processIo s = .ok t) :
    closedReaders t = [] := by
  have hio := processIo_ioStep s t h
  unfold processIo at h
  simp only at h
  split at h
  · cases h
  · rename_i s1 he
    obtain ⟨a1, a2, a3⟩ := serveClosed_post _ _ s1 (show KS ({ s with log := Out.ioScan (closedReaders s ++ closedWriters s).length (ioPairs s).length :: s.log } : Sch).states from hk) he
    obtain ⟨b1, b2⟩ := servePairs_post _ s1 t a1 h
    apply List.eq_nil_iff_forall_not_mem.mpr
    intro vm hvm
    unfold closedReaders at hvm
    obtain ⟨⟨x, st⟩, hp, hf⟩ := List.mem_filterMap.mp hvm
    cases st with
    | waitRead fd len =>
      simp only at hf
      by_cases ho : mhas (otherFd fd) t.fds = true
      · simp [ho] at hf
      · simp only [ho, Bool.false_eq_true, if_false, Option.some.injEq] at hf
        subst hf
        -- the entry was there before, with the other end closed: the VM was in the closed list
        have hs : (x, VmState.waitRead fd len) ∈ s.states := by
          rcases hio.2.2.2.2.2.2 _ hp with e | e | ⟨_, _, _, e⟩
          · exact e
          · cases e
          · cases e
        have hfd : t.fds = s.fds := hio.2.2.2.1
        have hc : x ∈ closedReaders s := by
          unfold closedReaders
          apply List.mem_filterMap.mpr
          refine ⟨(x, VmState.waitRead fd len), hs, ?_⟩
          simp only
          rw [← hfd]
          simp [ho]
        have hn := b2 x (a3 x (List.mem_append_left _ hc))
        exact hn fd len (mget_of_mem _ b1 x _ hp)
    | runnable => simp at hf
    | terminated => simp at hf
    | wait _ => simp at hf
    | waitWrite _ _ _ => simp at hf

end CkbVerif.SchedBook
