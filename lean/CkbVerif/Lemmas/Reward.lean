import CkbVerif.Model.Reward
import CkbVerif.Lemmas.Dao

/-! Helper lemmas for `Model/Reward.lean` (C06). Core Lean only. -/
namespace CkbVerif.Reward
open CkbVerif.Arith
open CkbVerif.Dao (chk64_some safeAdd_some safeSub_some)

theorem proposerShare_some {r : Ratio} {fee p : Nat} :
    proposerShare r fee = some p ↔
      fee * r.numer < U64 ∧ r.denom ≠ 0 ∧ p = fee * r.numer / r.denom := by
  unfold proposerShare safeMulRatio
  cases h : chk64 (fee * r.numer) with
  | none =>
    simp only [Option.bind_none, reduceCtorEq, false_iff]
    intro ⟨h1, _, _⟩
    have : chk64 (fee * r.numer) = some (fee * r.numer) := chk64_some.2 ⟨h1, rfl⟩
    rw [h] at this; cases this
  | some x =>
    obtain ⟨h1, rfl⟩ := chk64_some.1 h
    simp only [Option.bind_some, divChk_eq_some]
    constructor
    · rintro ⟨h2, rfl⟩; exact ⟨h1, h2, rfl⟩
    · rintro ⟨_, h2, rfl⟩; exact ⟨h2, rfl⟩

theorem committerShare_some {r : Ratio} {fee c : Nat} :
    committerShare r fee = some c ↔
      fee * r.numer < U64 ∧ r.denom ≠ 0 ∧ fee * r.numer / r.denom ≤ fee ∧
      c = fee - fee * r.numer / r.denom := by
  unfold committerShare
  cases h : safeMulRatio fee r with
  | none =>
    simp only [Option.bind_none, reduceCtorEq, false_iff]
    intro ⟨h1, h2, _, _⟩
    have : proposerShare r fee = some (fee * r.numer / r.denom) := proposerShare_some.2 ⟨h1, h2, rfl⟩
    unfold proposerShare at this
    rw [h] at this; cases this
  | some p =>
    have hp : proposerShare r fee = some p := h
    obtain ⟨h1, h2, rfl⟩ := proposerShare_some.1 hp
    simp only [Option.bind_some, safeSub_some]
    constructor
    · rintro ⟨h3, rfl⟩; exact ⟨h1, h2, h3, rfl⟩
    · rintro ⟨_, _, h3, rfl⟩; exact ⟨h3, rfl⟩

/-- spec: the committer's part of a list of fees -/
def committerSum (r : Ratio) : List Nat → Nat
  | [] => 0
  | f :: fs => (f - f * r.numer / r.denom) + committerSum r fs

/-- spec: the proposers' part of a list of fees -/
def proposerSum (r : Ratio) : List Nat → Nat
  | [] => 0
  | f :: fs => f * r.numer / r.denom + proposerSum r fs

def feeSum : List Nat → Nat
  | [] => 0
  | f :: fs => f + feeSum fs

theorem txsFeesFrom_some {r : Ratio} {fees : List Nat} {acc v : Nat}
    (h : txsFeesFrom r fees acc = some v) :
    v = acc + committerSum r fees ∧ v + proposerSum r fees = acc + feeSum fees ∧ v < U64 ∨
    (fees = [] ∧ v = acc) := by
  induction fees generalizing acc with
  | nil => right; simp [txsFeesFrom] at h; exact ⟨rfl, h.symm⟩
  | cons f fs ih =>
    left
    unfold txsFeesFrom at h
    cases hm : committerShare r f with
    | none => simp [hm] at h
    | some m =>
      obtain ⟨_, _, hle, rfl⟩ := committerShare_some.1 hm
      simp only [hm, Option.bind_some] at h
      cases ha : safeAdd acc (f - f * r.numer / r.denom) with
      | none => simp [ha] at h
      | some acc' =>
        obtain ⟨hlt, rfl⟩ := safeAdd_some.1 ha
        simp only [ha, Option.bind_some] at h
        rcases ih h with ⟨e1, e2, e3⟩ | ⟨rfl, rfl⟩
        · refine ⟨?_, ?_, e3⟩
          · simp only [committerSum]; omega
          · simp only [proposerSum, feeSum]; omega
        · refine ⟨?_, ?_, hlt⟩
          · simp [committerSum]
          · simp only [proposerSum, feeSum]; omega

theorem totalReward_some {a b c d : Nat} {br : BlockReward} :
    totalReward a b c d = some br ↔
      a + b + c + d < U64 ∧
      br = { total := a + b + c + d, primary := c, secondary := d, txFee := a, proposalReward := b } := by
  unfold totalReward
  cases h1 : safeAdd a b with
  | none =>
    simp only [Option.bind_none, reduceCtorEq, false_iff]
    rintro ⟨h, _⟩
    have : safeAdd a b = some (a + b) := safeAdd_some.2 ⟨by omega, rfl⟩
    rw [h1] at this; cases this
  | some x =>
    obtain ⟨_, rfl⟩ := safeAdd_some.1 h1
    simp only [Option.bind_some]
    cases h2 : safeAdd (a + b) c with
    | none =>
      simp only [Option.bind_none, reduceCtorEq, false_iff]
      rintro ⟨h, _⟩
      have : safeAdd (a + b) c = some (a + b + c) := safeAdd_some.2 ⟨by omega, rfl⟩
      rw [h2] at this; cases this
    | some y =>
      obtain ⟨_, rfl⟩ := safeAdd_some.1 h2
      simp only [Option.bind_some]
      cases h3 : safeAdd (a + b + c) d with
      | none =>
        simp only [Option.bind_none, reduceCtorEq, false_iff]
        rintro ⟨h, _⟩
        have : safeAdd (a + b + c) d = some (a + b + c + d) := safeAdd_some.2 ⟨h, rfl⟩
        rw [h3] at this; cases this
      | some z =>
        obtain ⟨h, rfl⟩ := safeAdd_some.1 h3
        simp only [Option.bind_some, Option.some.injEq]
        constructor
        · intro e; exact ⟨h, e.symm⟩
        · rintro ⟨_, e⟩; exact e.symm

/-! ### the walk -/

theorem payLoop_spec (check : Bool) (proposed : List Nat) (at_ : Nat) (cs : List (Nat × Nat))
    (targets : List Nat) :
    (∀ x ∈ (payLoop check proposed at_ cs targets).1, x ∈ targets) ∧
    (∀ e ∈ (payLoop check proposed at_ cs targets).2,
      e.blk = at_ ∧ e.id ∈ targets ∧ (check = true → e.id ∉ proposed) ∧ (e.id, e.fee) ∈ cs) := by
  induction cs generalizing targets with
  | nil => simp [payLoop]
  | cons c cs ih =>
    obtain ⟨id, fee⟩ := c
    unfold payLoop
    by_cases hc : targets.contains id = true
    · have hsub : ∀ x ∈ targets.filter (· != id), x ∈ targets := fun x hx => (List.mem_filter.1 hx).1
      obtain ⟨ih1, ih2⟩ := ih (targets.filter (· != id))
      simp only [hc, if_true]
      by_cases hp : (check && proposed.contains id) = true
      · simp only [hp, if_true]
        refine ⟨fun x hx => hsub x (ih1 x hx), fun e he => ?_⟩
        obtain ⟨a, b, c', d⟩ := ih2 e he
        exact ⟨a, hsub _ b, c', List.mem_cons_of_mem _ d⟩
      · simp only [hp]
        refine ⟨fun x hx => hsub x (ih1 x hx), fun e he => ?_⟩
        simp only [Bool.false_eq_true, if_false, List.mem_cons] at he
        rcases he with rfl | he
        · refine ⟨rfl, by simpa using hc, ?_, by simp⟩
          intro hck
          simp only [hck, Bool.true_and, Bool.not_eq_true] at hp
          simpa using hp
        · obtain ⟨a, b, c', d⟩ := ih2 e he
          exact ⟨a, hsub _ b, c', List.mem_cons_of_mem _ d⟩
    · simp only [hc]
      obtain ⟨ih1, ih2⟩ := ih targets
      refine ⟨ih1, fun e he => ?_⟩
      obtain ⟨a, b, c', d⟩ := ih2 e he
      exact ⟨a, b, c', List.mem_cons_of_mem _ d⟩

theorem payBlock_spec (check : Bool) (proposed : List Nat) (at_ : Nat) (b : Blk) (targets : List Nat) :
    (∀ x ∈ (payBlock check proposed at_ b targets).1, x ∈ targets) ∧
    (∀ e ∈ (payBlock check proposed at_ b targets).2,
      e.blk = at_ ∧ e.id ∈ targets ∧ (check = true → e.id ∉ proposed) ∧
      (e.id, e.fee) ∈ b.commitIds.zip b.fees) := by
  unfold payBlock
  by_cases h : (targets.any fun x => b.commitIds.contains x) = true
  · simp only [h, if_true]; exact payLoop_spec _ _ _ _ _
  · simp only [h]; simp

/-- what the backwards walk guarantees about every fee it pays -/
theorem walk_spec (w : Win) (chain : List Blk) (ccs : Nat) (idx : Nat) (targets proposed : List Nat) :
    ∀ e ∈ walk w chain ccs idx targets proposed,
      e.id ∈ targets ∧ e.blk < idx ∧ ccs ≤ e.blk ∧ e.id ∉ proposed ∧
      (∀ i, e.blk ≤ i → i < idx → e.id ∉ (blkAt chain (max (i - w.far) 1)).props) ∧
      (e.id, e.fee) ∈ (blkAt chain e.blk).commitIds.zip (blkAt chain e.blk).fees := by
  induction idx generalizing targets proposed with
  | zero => simp [walk]
  | succ n ih =>
    intro e he
    unfold walk at he
    split at he
    · simp only [List.mem_append] at he
      obtain ⟨pb1, pb2⟩ := payBlock_spec true (proposed ++ (blkAt chain (max (n - w.far) 1)).props) n
        (blkAt chain n) targets
      rcases he with he | he
      · obtain ⟨a, b, c, d⟩ := pb2 e he
        have hnot := c rfl
        simp only [List.mem_append, not_or] at hnot
        refine ⟨b, by omega, by omega, hnot.1, ?_, by rw [a]; exact d⟩
        intro i h1 h2
        have : i = n := by omega
        subst this; exact hnot.2
      · obtain ⟨a, b, c, d, f, g⟩ := ih _ _ e he
        simp only [List.mem_append, not_or] at d
        refine ⟨pb1 _ a, by omega, c, d.1, ?_, g⟩
        intro i h1 h2
        by_cases hi : i = n
        · subst hi; exact d.2
        · exact f i h1 (by omega)
    · simp at he

/-- what `proposal_reward(parent, target)` guarantees about every fee it pays -/
theorem paidList_spec (w : Win) (chain : List Blk) (P t : Nat) :
    ∀ e ∈ paidList w chain P t,
      e.id ∈ (blkAt chain t).props ∧ e.blk ≤ P ∧
      (∀ i, e.blk ≤ i → i < P → e.id ∉ (blkAt chain (max (i - w.far) 1)).props) ∧
      (e.id, e.fee) ∈ (blkAt chain e.blk).commitIds.zip (blkAt chain e.blk).fees := by
  intro e he
  unfold paidList at he
  simp only [List.mem_append] at he
  obtain ⟨pb1, pb2⟩ := payBlock_spec false [] P (blkAt chain P) (blkAt chain t).props
  rcases he with he | he
  · obtain ⟨a, b, _, d⟩ := pb2 e he
    refine ⟨b, by omega, ?_, by rw [a]; exact d⟩
    intro i h1 h2; omega
  · obtain ⟨a, b, _, _, f, g⟩ := walk_spec _ _ _ _ _ _ e he
    exact ⟨pb1 _ a, by omega, f, g⟩

/-- spec: the proposer shares of a list of paid fees -/
def paidSum (r : Ratio) : List Paid → Nat
  | [] => 0
  | p :: ps => p.fee * r.numer / r.denom + paidSum r ps

theorem sumShares_some {r : Ratio} {l : List Paid} {acc v : Nat}
    (h : sumShares r l acc = some v) : v = acc + paidSum r l := by
  induction l generalizing acc with
  | nil => simp [sumShares] at h; simp [paidSum, h]
  | cons p ps ih =>
    unfold sumShares at h
    cases hs : proposerShare r p.fee with
    | none => simp [hs] at h
    | some s =>
      obtain ⟨_, _, rfl⟩ := proposerShare_some.1 hs
      simp only [hs, Option.bind_some] at h
      cases ha : safeAdd acc (p.fee * r.numer / r.denom) with
      | none => simp [ha] at h
      | some acc' =>
        obtain ⟨_, rfl⟩ := safeAdd_some.1 ha
        simp only [ha, Option.bind_some] at h
        rw [ih h]; simp only [paidSum]; omega

end CkbVerif.Reward
