import CkbVerif.Model.RichIndexer

/-! The relational `append` is APPEND-ONLY up to `is_spent` flags, for EVERY database and EVERY block
(no hypothesis): it adds exactly one block row, adds transaction / input / script rows at the end,
adds output rows at the end, and changes an older output row at most in its `is_spent` column (C18;
the structural half of `Layer`, proved rather than evaluated). -/
namespace CkbVerif.Rich
open CkbVerif.Indexer CkbVerif.Gen.RichIndexer

/-- `g` changes at most the `is_spent` column, and only to "spent" -/
def SpentOnly (g : ROut → ROut) : Prop := ∀ o, g o = o ∨ g o = { o with spent := SPEND_SETS_IS_SPENT }

structure Ext (db d : DB) : Prop where
  blocks : d.blocks = db.blocks
  txs : ∃ nt, d.txs = db.txs ++ nt
  ins : ∃ ni, d.ins = db.ins ++ ni
  scripts : ∃ ns, d.scripts = db.scripts ++ ns
  outs : ∃ g no, SpentOnly g ∧ d.outs = db.outs.map g ++ no

theorem Ext.refl (db : DB) : Ext db db :=
  ⟨rfl, ⟨[], by simp⟩, ⟨[], by simp⟩, ⟨[], by simp⟩, ⟨id, [], fun _ => Or.inl rfl, by simp⟩⟩

theorem Ext.trans {a b c : DB} (h1 : Ext a b) (h2 : Ext b c) : Ext a c := by
  obtain ⟨b1, ⟨t1, ht1⟩, ⟨i1, hi1⟩, ⟨s1, hs1⟩, ⟨g1, n1, hg1, ho1⟩⟩ := h1
  obtain ⟨b2, ⟨t2, ht2⟩, ⟨i2, hi2⟩, ⟨s2, hs2⟩, ⟨g2, n2, hg2, ho2⟩⟩ := h2
  refine ⟨b2.trans b1, ⟨t1 ++ t2, by rw [ht2, ht1, List.append_assoc]⟩,
    ⟨i1 ++ i2, by rw [hi2, hi1, List.append_assoc]⟩, ⟨s1 ++ s2, by rw [hs2, hs1, List.append_assoc]⟩,
    ⟨g2 ∘ g1, n1.map g2 ++ n2, ?_, by rw [ho2, ho1]; simp [List.map_append, List.map_map, List.append_assoc]⟩⟩
  intro o
  show g2 (g1 o) = o ∨ g2 (g1 o) = _
  rcases hg1 o with e1 | e1
  · rw [e1]; exact hg2 o
  · rw [e1]
    rcases hg2 { o with spent := SPEND_SETS_IS_SPENT } with e2 | e2
    · exact Or.inr e2
    · exact Or.inr e2

theorem ext_spendCell (db : DB) (op : OutPoint) : Ext db (spendCell db op).1 := by
  unfold spendCell
  cases findTx db op.tx with
  | none => exact Ext.refl db
  | some t =>
    dsimp only
    by_cases h : db.outs.any (outAt t.id op.idx) = true
    · rw [if_pos h]
      refine ⟨rfl, ⟨[], by simp⟩, ⟨[], by simp⟩, ⟨[], by simp⟩,
        ⟨fun o => if outAt t.id op.idx o then { o with spent := SPEND_SETS_IS_SPENT } else o, [], ?_, by simp⟩⟩
      intro o
      dsimp only
      split
      · exact Or.inr rfl
      · exact Or.inl rfl
    · rw [if_neg h]
      exact Ext.refl db

theorem ext_inputStep (acc : DB × List (Nat × Nat)) (op : OutPoint) (ii : Nat) :
    Ext acc.1 (inputStep acc op ii).1 := by
  unfold inputStep
  dsimp only
  split
  · split <;> exact ext_spendCell acc.1 op
  · exact ext_spendCell acc.1 op

theorem ext_inputsLoop (l : List OutPoint) (acc : DB × List (Nat × Nat)) (ii : Nat) :
    Ext acc.1 (inputsLoop acc ii l).1 := by
  induction l generalizing acc ii with
  | nil => exact Ext.refl _
  | cons op r ih =>
    unfold inputsLoop
    exact (ext_inputStep acc op ii).trans (ih _ _)

theorem ext_insertScript (db : DB) (s : Script) : Ext db (insertScript db s) := by
  unfold insertScript
  split
  · exact Ext.refl db
  · exact ⟨rfl, ⟨[], by simp⟩, ⟨[], by simp⟩, ⟨_, rfl⟩, ⟨id, [], fun _ => Or.inl rfl, by simp⟩⟩

theorem ext_foldl_insertScript (l : List Script) (db : DB) : Ext db (l.foldl insertScript db) := by
  induction l generalizing db with
  | nil => exact Ext.refl _
  | cons s r ih => exact (ext_insertScript db s).trans (ih _)

theorem ext_insertOutputs (l : List Output) (db : DB) (txId oi : Nat) : Ext db (insertOutputs db txId oi l) := by
  induction l generalizing db oi with
  | nil => exact Ext.refl _
  | cons o r ih =>
    unfold insertOutputs
    refine Ext.trans ?_ (ih _ _)
    exact ⟨rfl, ⟨[], by simp⟩, ⟨[], by simp⟩, ⟨[], by simp⟩, ⟨id, _, fun _ => Or.inl rfl, by simp; rfl⟩⟩

theorem ext_insertTxRows (db : DB) (inRows : List (Nat × Nat)) (blockId txIndex : Nat) (tx : Tx) :
    Ext db (insertTxRows db inRows blockId txIndex tx) := by
  unfold insertTxRows
  dsimp only
  refine Ext.trans ?_ (Ext.trans (ext_foldl_insertScript _ _) (ext_insertOutputs _ _ _ _))
  exact ⟨rfl, ⟨_, rfl⟩, ⟨_, rfl⟩, ⟨[], by simp⟩, ⟨id, [], fun _ => Or.inl rfl, by simp⟩⟩

theorem ext_insertTx (db : DB) (blockId txIndex : Nat) (tx : Tx) : Ext db (insertTx db blockId txIndex tx) := by
  unfold insertTx
  dsimp only
  split
  · exact ext_insertTxRows _ _ _ _ _
  · exact (ext_inputsLoop tx.inputs (db, []) 0).trans (ext_insertTxRows _ _ _ _ _)

theorem ext_insertTxs (l : List Tx) (db : DB) (blockId i : Nat) : Ext db (insertTxs db blockId i l) := by
  induction l generalizing db i with
  | nil => exact Ext.refl _
  | cons tx r ih =>
    unfold insertTxs
    exact (ext_insertTx db blockId i tx).trans (ih _ _)

end CkbVerif.Rich
