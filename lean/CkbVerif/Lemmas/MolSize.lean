import CkbVerif.Model.MolSize
import CkbVerif.Lemmas.HashBlockBytes
/-!
# `serialized_size` helpers (C15): what the three size functions measure
-/
namespace CkbVerif.Hash
open CkbVerif.Molecule CkbVerif.Gen.Schemas

theorem encDyn_length_all (items : List Bytes) :
    (encDyn items).length = 4 * (items.length + 1) + items.flatten.length := by
  cases items with
  | nil => simp [encDyn, le32_length]
  | cons x xs => exact encDyn_length _ (by simp)

/-- field 1 of an encoded two-field table -/
theorem tableField1_encode (f0 f1 : Schema) (a b : Val) (hv : wfv (.table [f0, f1]) (.seq [a, b]) = true) :
    tableFieldBytes (encode (.table [f0, f1]) (.seq [a, b])) 1 = some (encode f1 b) := by
  simp only [wfv, wfvL, Bool.and_eq_true, decide_eq_true_eq, Bool.and_true] at hv
  have hne : encodeL [f0, f1] [a, b] ≠ [] := by simp [encodeL]
  have hsz : 4 * ((encodeL [f0, f1] [a, b]).length + 1) + (encodeL [f0, f1] [a, b]).flatten.length < 4294967296 := by
    simpa [encodeL] using hv.2
  simp only [encode, tableFieldBytes, dynHeader_encDyn _ hne hsz, slices_encDyn _ hne]
  simp [encodeL]

/-- the same uncle with no proposals -/
def stripUncle (u : Val × Val) : Val × Val := (u.1, .seq [])

theorem uncle_length (u : Val × Val) :
    (encode S.UncleBlock (uncleVal u)).length = 12 + (encode S.Header u.1).length + (encode S.ProposalShortIdVec u.2).length := by
  simp only [S.UncleBlock, uncleVal, encode, encodeL, encDyn_length_all]
  simp
  omega

theorem empty_proposals_length : (encode S.ProposalShortIdVec (.seq [])).length = 4 := by
  simp [S.ProposalShortIdVec, encode, encFixvec, le32_length]

theorem proposals_length_ge (p : Val) (hp : wfv S.ProposalShortIdVec p = true) : 4 ≤ (encode S.ProposalShortIdVec p).length := by
  cases p with
  | seq ps => simp [S.ProposalShortIdVec, encode, encFixvec, le32_length]
  | _ => simp [S.ProposalShortIdVec, wfv] at hp

theorem uncle_wfv_parts (u : Val × Val) (hw : wfv S.UncleBlock (uncleVal u) = true) : wfv S.ProposalShortIdVec u.2 = true := by
  simp only [S.UncleBlock, uncleVal, wfv, wfvL, Bool.and_eq_true, Bool.and_true] at hw
  exact hw.1.2

/-- Σ uncle encodings = Σ stripped uncle encodings + Σ (proposals length − 4) -/
theorem uncles_flatten_split : ∀ (us : List (Val × Val)), (∀ u ∈ us, wfv S.UncleBlock (uncleVal u) = true) →
    ((us.map uncleVal).map (encode S.UncleBlock)).flatten.length =
      (((us.map stripUncle).map uncleVal).map (encode S.UncleBlock)).flatten.length
        + (us.map (fun u => (encode S.ProposalShortIdVec u.2).length - 4)).sum
  | [], _ => rfl
  | u :: us, h => by
    have ih := uncles_flatten_split us (fun x hx => h x (List.mem_cons_of_mem _ hx))
    have hp := proposals_length_ge u.2 (uncle_wfv_parts u (h u (by simp)))
    simp only [List.map_cons, List.flatten_cons, List.length_append, List.sum_cons]
    rw [ih, uncle_length u, uncle_length (stripUncle u)]
    simp only [stripUncle, empty_proposals_length]
    omega

/-- what the reader-side sum of `serialized_size_without_uncle_proposals` is on builder bytes -/
theorem uncleProposalsExtra_encode (u : Val × Val) (hw : wfv S.UncleBlock (uncleVal u) = true) :
    uncleProposalsExtra (encode S.UncleBlock (uncleVal u)) = (encode S.ProposalShortIdVec u.2).length - 4 := by
  unfold uncleProposalsExtra numberSize
  have := tableField1_encode S.Header S.ProposalShortIdVec u.1 u.2 (by simpa [S.UncleBlock, uncleVal] using hw)
  show ((tableFieldBytes (encode (.table [S.Header, S.ProposalShortIdVec]) (Val.seq [u.1, u.2])) 1).getD []).length - 4 = _
  rw [this]; rfl

theorem sizeWithoutUncleProposals_encDyn (h : Val) (us : List (Val × Val)) (ts ps : List Val) (extra : List Bytes)
    (hus : wfv (.dynvec S.UncleBlock) (.seq (us.map uncleVal)) = true)
    (hsz : 4 * ((blockItems h us ts ps extra).length + 1) + (blockItems h us ts ps extra).flatten.length < 4294967296) :
    sizeWithoutUncleProposals (encDyn (blockItems h us ts ps extra)) =
      some ((encDyn (blockItems h (us.map stripUncle) ts ps extra)).length) := by
  have hne : blockItems h us ts ps extra ≠ [] := by simp [blockItems]
  have hw : ∀ u ∈ us, wfv S.UncleBlock (uncleVal u) = true := by
    intro u hu
    simp only [wfv, Bool.and_eq_true] at hus
    exact all_mem hus.1 _ (List.mem_map.mpr ⟨u, hu, rfl⟩)
  unfold sizeWithoutUncleProposals
  simp only [dynHeader_encDyn _ hne hsz, slices_encDyn _ hne]
  simp only [blockItems]
  rw [dynItems_encode_dynvec S.UncleBlock _ hus]
  simp only []
  have hsum : (((us.map uncleVal).map (encode S.UncleBlock)).map uncleProposalsExtra).sum
      = (us.map (fun u => (encode S.ProposalShortIdVec u.2).length - 4)).sum := by
    simp only [List.map_map]
    congr 1
    apply List.map_congr_left
    intro u hu
    exact uncleProposalsExtra_encode u (hw u hu)
  rw [hsum]
  congr 1
  have hsplit := uncles_flatten_split us hw
  simp only [encDyn_length_all, encode, List.length_cons, List.flatten_cons, List.length_append, List.length_map]
  rw [hsplit]
  omega

end CkbVerif.Hash
