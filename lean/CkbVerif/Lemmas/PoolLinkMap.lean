/-
C11 helper lemmas, part 5: pure facts about `LinkMap` (the model of `TxLinksMap`): lookups through
`modLink` / filters / appends, and the structural invariant `LinkStruct` (unique keys, parents and
children lists are duplicate-free and converse to each other) under the three edits the pool performs:
`removeEntryLinks`, "add a node below existing parents" and "hang existing nodes below a node".
-/
import CkbVerif.Model.Pool
namespace CkbVerif.Pool

theorem linkOf_modLink (L : LinkMap) (ids : List Nat) (f : Links → Links) (x : Nat) :
    linkOf (modLink L ids f) x = (linkOf L x).map fun l => if x ∈ ids then f l else l := by
  unfold linkOf modLink
  induction L with
  | nil => rfl
  | cons kl L ih =>
    simp only [List.map_cons, List.find?_cons]
    by_cases hk : kl.1 = x
    · subst hk
      by_cases hm : kl.1 ∈ ids <;> simp [hm]
    · have h1 : (if kl.1 ∈ ids then (kl.1, f kl.2) else kl).1 = kl.1 := by split <;> rfl
      simp only [h1, hk, decide_false]
      exact ih

theorem linkOf_filter_ne (L : LinkMap) (id x : Nat) :
    linkOf (L.filter (·.1 ≠ id)) x = if x = id then none else linkOf L x := by
  unfold linkOf
  induction L with
  | nil => simp
  | cons kl L ih =>
    by_cases hk : kl.1 = id
    · have : decide (kl.1 ≠ id) = false := by simp [hk]
      rw [List.filter_cons, this]
      simp only [Bool.false_eq_true, if_false, List.find?_cons]
      rw [ih]
      by_cases hx : x = id
      · simp [hx]
      · have : ¬ kl.1 = x := fun e => hx (e ▸ hk)
        simp [hx, this]
    · have : decide (kl.1 ≠ id) = true := by simp [hk]
      rw [List.filter_cons, this]
      simp only [if_true, List.find?_cons]
      by_cases hkx : kl.1 = x
      · have : ¬ x = id := fun e => hk (hkx ▸ e)
        simp [hkx, this]
      · simp only [hkx, decide_false]
        exact ih

theorem linkOf_append_single (L : LinkMap) (k : Nat) (l : Links) (x : Nat) (hk : linkOf L k = none) :
    linkOf (L ++ [(k, l)]) x = if x = k then some l else linkOf L x := by
  unfold linkOf at hk ⊢
  rw [List.find?_append]
  by_cases hx : x = k
  · subst hx
    have : List.find? (fun y => decide (y.1 = x)) L = none := by simpa using hk
    simp [this]
  · cases hf : List.find? (fun y => decide (y.1 = x)) L with
    | some y => simp [hx]
    | none =>
      have : ¬ k = x := fun e => hx e.symm
      simp [hx, this]

theorem mem_keys_iff (L : LinkMap) (x : Nat) : x ∈ keys L ↔ (linkOf L x).isSome := by
  unfold keys linkOf
  induction L with
  | nil => simp
  | cons kl L ih =>
    simp only [List.map_cons, List.mem_cons, List.find?_cons]
    by_cases hk : kl.1 = x
    · simp [hk]
    · have : ¬ x = kl.1 := fun e => hk e.symm
      simp only [this, false_or, hk, decide_false]
      exact ih

theorem parentsOf_eq (L : LinkMap) (x : Nat) : parentsOf L x = ((linkOf L x).map (·.parents)).getD [] := rfl
theorem childrenOf_eq (L : LinkMap) (x : Nat) : childrenOf L x = ((linkOf L x).map (·.children)).getD [] := rfl

theorem parentsOf_nil_of_not_key {L : LinkMap} {x : Nat} (h : x ∉ keys L) : parentsOf L x = [] := by
  have : ¬ (linkOf L x).isSome = true := fun hs => h ((mem_keys_iff L x).mpr hs)
  unfold parentsOf
  cases hl : linkOf L x with
  | none => rfl
  | some l => rw [hl] at this; simp at this

theorem childrenOf_nil_of_not_key {L : LinkMap} {x : Nat} (h : x ∉ keys L) : childrenOf L x = [] := by
  have : ¬ (linkOf L x).isSome = true := fun hs => h ((mem_keys_iff L x).mpr hs)
  unfold childrenOf
  cases hl : linkOf L x with
  | none => rfl
  | some l => rw [hl] at this; simp at this

theorem keys_modLink (L : LinkMap) (ids : List Nat) (f : Links → Links) : keys (modLink L ids f) = keys L := by
  unfold keys modLink
  rw [List.map_map]
  apply List.map_congr_left
  intro kl _
  simp only [Function.comp]
  split <;> rfl

theorem keys_filter_ne (L : LinkMap) (id : Nat) : keys (L.filter (·.1 ≠ id)) = (keys L).filter (· ≠ id) := by
  unfold keys
  rw [List.filter_map]
  rfl

structure LinkStruct (L : LinkMap) : Prop where
  keys : (keys L).Nodup
  sym : ∀ p c, p ∈ parentsOf L c ↔ c ∈ childrenOf L p
  ndP : ∀ id, (parentsOf L id).Nodup
  ndC : ∀ id, (childrenOf L id).Nodup

theorem LinkStruct.parent_key {L : LinkMap} (h : LinkStruct L) {p c : Nat} (hp : p ∈ parentsOf L c) :
    p ∈ Pool.keys L ∧ c ∈ Pool.keys L := by
  constructor
  · by_cases hn : p ∈ Pool.keys L
    · exact hn
    · have := childrenOf_nil_of_not_key hn
      have hc := (h.sym p c).mp hp
      rw [this] at hc; cases hc
  · by_cases hn : c ∈ Pool.keys L
    · exact hn
    · rw [parentsOf_nil_of_not_key hn] at hp; cases hp

/-! ### removeEntryLinks -/

theorem parentsOf_removeEntryLinks {L : LinkMap} (h : LinkStruct L) (id x : Nat) :
    parentsOf (removeEntryLinks L id) x = if x = id then [] else (parentsOf L x).filter (· ≠ id) := by
  rw [parentsOf_eq (removeEntryLinks L id) x]
  unfold removeEntryLinks
  simp only
  rw [linkOf_filter_ne]
  by_cases hx : x = id
  · simp [hx]
  · simp only [hx, if_false]
    rw [linkOf_modLink, linkOf_modLink, parentsOf_eq L x]
    cases hl : linkOf L x with
    | none => simp
    | some l =>
      simp only [Option.map_some, Option.getD_some]
      have hpar : parentsOf L x = l.parents := by rw [parentsOf_eq, hl]; rfl
      by_cases hc : x ∈ childrenOf L id
      · by_cases hp : x ∈ parentsOf L id <;> simp [hc, hp]
      · have hnot : id ∉ l.parents := by
          rw [← hpar]; exact fun hm => hc ((h.sym id x).mp hm)
        have : l.parents.filter (fun x => !decide (x = id)) = l.parents := by
          apply List.filter_eq_self.mpr
          intro a ha
          have : a ≠ id := fun e => hnot (e ▸ ha)
          simpa using this
        by_cases hp : x ∈ parentsOf L id <;> simp [hc, hp, this]

theorem childrenOf_removeEntryLinks {L : LinkMap} (h : LinkStruct L) (id x : Nat) :
    childrenOf (removeEntryLinks L id) x = if x = id then [] else (childrenOf L x).filter (· ≠ id) := by
  rw [childrenOf_eq (removeEntryLinks L id) x]
  unfold removeEntryLinks
  simp only
  rw [linkOf_filter_ne]
  by_cases hx : x = id
  · simp [hx]
  · simp only [hx, if_false]
    rw [linkOf_modLink, linkOf_modLink, childrenOf_eq L x]
    cases hl : linkOf L x with
    | none => simp
    | some l =>
      simp only [Option.map_some, Option.getD_some]
      have hch : childrenOf L x = l.children := by rw [childrenOf_eq, hl]; rfl
      by_cases hp : x ∈ parentsOf L id
      · by_cases hc : x ∈ childrenOf L id <;> simp [hc, hp]
      · have hnot : id ∉ l.children := by
          rw [← hch]; exact fun hm => hp ((h.sym x id).mpr hm)
        have : l.children.filter (fun x => !decide (x = id)) = l.children := by
          apply List.filter_eq_self.mpr
          intro a ha
          have : a ≠ id := fun e => hnot (e ▸ ha)
          simpa using this
        by_cases hc : x ∈ childrenOf L id <;> simp [hc, hp, this]

theorem keys_removeEntryLinks (L : LinkMap) (id : Nat) : keys (removeEntryLinks L id) = (keys L).filter (· ≠ id) := by
  unfold removeEntryLinks
  simp only
  rw [keys_filter_ne, keys_modLink, keys_modLink]

theorem LinkStruct.removeEntryLinks {L : LinkMap} (h : LinkStruct L) (id : Nat) : LinkStruct (removeEntryLinks L id) := by
  constructor
  · rw [keys_removeEntryLinks]; exact List.Nodup.sublist List.filter_sublist h.keys
  · intro p c
    rw [parentsOf_removeEntryLinks h, childrenOf_removeEntryLinks h]
    by_cases hc : c = id
    · subst hc
      by_cases hp : p = c
      · simp [hp]
      · simp [hp]
    · by_cases hp : p = id
      · subst hp; simp [hc]
      · simp only [hc, hp, if_false, List.mem_filter]
        constructor
        · rintro ⟨a, _⟩; exact ⟨(h.sym p c).mp a, by simpa using hc⟩
        · rintro ⟨a, _⟩; exact ⟨(h.sym p c).mpr a, by simpa using hp⟩
  · intro x
    rw [parentsOf_removeEntryLinks h]
    split
    · exact List.nodup_nil
    · exact List.Nodup.sublist List.filter_sublist (h.ndP x)
  · intro x
    rw [childrenOf_removeEntryLinks h]
    split
    · exact List.nodup_nil
    · exact List.Nodup.sublist List.filter_sublist (h.ndC x)

/-- removing a node that has no link entry changes nothing -/
theorem removeEntryLinks_not_key {L : LinkMap} {id : Nat} (h : id ∉ keys L) : removeEntryLinks L id = L := by
  unfold removeEntryLinks
  simp only
  rw [parentsOf_nil_of_not_key h, childrenOf_nil_of_not_key h]
  have hm : ∀ (M : LinkMap) (f : Links → Links), modLink M [] f = M := by
    intro M f; unfold modLink
    conv => rhs; rw [← List.map_id M]
    apply List.map_congr_left; intro kl _; simp
  rw [hm, hm]
  apply List.filter_eq_self.mpr
  intro kl hkl
  have hk : kl.1 ∈ keys L := List.mem_map.mpr ⟨kl, hkl, rfl⟩
  have : kl.1 ≠ id := fun e => h (e ▸ hk)
  simpa using this

end CkbVerif.Pool
