/-
C11 helper lemmas, part 5: pure facts about `LinkMap` (the model of `TxLinksMap`): lookups through
`modLink` / filters / appends, and the structural invariant `LinkStruct` (unique keys, parents and
children lists are duplicate-free and converse to each other) under the three edits the pool performs:
`removeEntryLinks`, "add a node below existing parents" and "hang existing nodes below a node".
-/
import CkbVerif.Model.Pool
namespace CkbVerif.Pool

theorem linkOf_modLink (L : LinkMap) (ids : List Nat) (f : Links → Links) (x : Nat) :
    linkOf (modLink L ids f) x = (linkOf L x).map fun l => if x ∈ ids then f l else l := by
  unfold linkOf modLink
  induction L with
  | nil => rfl
  | cons kl L ih =>
    simp only [List.map_cons, List.find?_cons]
    by_cases hk : kl.1 = x
    · subst hk
      by_cases hm : kl.1 ∈ ids <;> simp [hm]
    · have h1 : (if kl.1 ∈ ids then (kl.1, f kl.2) else kl).1 = kl.1 := by split <;> rfl
      simp only [h1, hk, decide_false]
      exact ih

theorem linkOf_filter_ne (L : LinkMap) (id x : Nat) :
    linkOf (L.filter (·.1 ≠ id)) x = if x = id then none else linkOf L x := by
  unfold linkOf
  induction L with
  | nil => simp
  | cons kl L ih =>
    by_cases hk : kl.1 = id
    · have : decide (kl.1 ≠ id) = false := by simp [hk]
      rw [List.filter_cons, this]
      simp only [Bool.false_eq_true, if_false, List.find?_cons]
      rw [ih]
      by_cases hx : x = id
      · simp [hx]
      · have : ¬ kl.1 = x := fun e => hx (e ▸ hk)
        simp [hx, this]
    · have : decide (kl.1 ≠ id) = true := by simp [hk]
      rw [List.filter_cons, this]
      simp only [if_true, List.find?_cons]
      by_cases hkx : kl.1 = x
      · have : ¬ x = id := fun e => hk (hkx ▸ e)
        simp [hkx, this]
      · simp only [hkx, decide_false]
        exact ih

theorem linkOf_append_single (L : LinkMap) (k : Nat) (l : Links) (x : Nat) (hk : linkOf L k = none) :
    linkOf (L ++ [(k, l)]) x = if x = k then some l else linkOf L x := by
  unfold linkOf at hk ⊢
  rw [List.find?_append]
  by_cases hx : x = k
  · subst hx
    have : List.find? (fun y => decide (y.1 = x)) L = none := by simpa using hk
    simp [this]
  · cases hf : List.find? (fun y => decide (y.1 = x)) L with
    | some y => simp [hx]
    | none =>
      have : ¬ k = x := fun e => hx e.symm
      simp [hx, this]

theorem mem_keys_iff (L : LinkMap) (x : Nat) : x ∈ keys L ↔ (linkOf L x).isSome := by
  unfold keys linkOf
  induction L with
  | nil => simp
  | cons kl L ih =>
    simp only [List.map_cons, List.mem_cons, List.find?_cons]
    by_cases hk : kl.1 = x
    · simp [hk]
    · have : ¬ x = kl.1 := fun e => hk e.symm
      simp only [this, false_or, hk, decide_false]
      exact ih

theorem parentsOf_eq (L : LinkMap) (x : Nat) : parentsOf L x = ((linkOf L x).map (·.parents)).getD [] := rfl
theorem childrenOf_eq (L : LinkMap) (x : Nat) : childrenOf L x = ((linkOf L x).map (·.children)).getD [] := rfl

theorem parentsOf_nil_of_not_key {L : LinkMap} {x : Nat} (h : x ∉ keys L) : parentsOf L x = [] := by
  have : ¬ (linkOf L x).isSome = true := fun hs => h ((mem_keys_iff L x).mpr hs)
  unfold parentsOf
  cases hl : linkOf L x with
  | none => rfl
  | some l => rw [hl] at this; simp at this

theorem childrenOf_nil_of_not_key {L : LinkMap} {x : Nat} (h : x ∉ keys L) : childrenOf L x = [] := by
  have : ¬ (linkOf L x).isSome = true := fun hs => h ((mem_keys_iff L x).mpr hs)
  unfold childrenOf
  cases hl : linkOf L x with
  | none => rfl
  | some l => rw [hl] at this; simp at this

theorem keys_modLink (L : LinkMap) (ids : List Nat) (f : Links → Links) : keys (modLink L ids f) = keys L := by
  unfold keys modLink
  rw [List.map_map]
  apply List.map_congr_left
  intro kl _
  simp only [Function.comp]
  split <;> rfl

theorem keys_filter_ne (L : LinkMap) (id : Nat) : keys (L.filter (·.1 ≠ id)) = (keys L).filter (· ≠ id) := by
  unfold keys
  rw [List.filter_map]
  rfl

structure LinkStruct (L : LinkMap) : Prop where
  keys : (keys L).Nodup
  sym : ∀ p c, p ∈ parentsOf L c ↔ c ∈ childrenOf L p
  ndP : ∀ id, (parentsOf L id).Nodup
  ndC : ∀ id, (childrenOf L id).Nodup

theorem LinkStruct.parent_key {L : LinkMap} (h : LinkStruct L) {p c : Nat} (hp : p ∈ parentsOf L c) :
    p ∈ Pool.keys L ∧ c ∈ Pool.keys L := by
  constructor
  · by_cases hn : p ∈ Pool.keys L
    · exact hn
    · have := childrenOf_nil_of_not_key hn
      have hc := (h.sym p c).mp hp
      rw [this] at hc; cases hc
  · by_cases hn : c ∈ Pool.keys L
    · exact hn
    · rw [parentsOf_nil_of_not_key hn] at hp; cases hp

/-! ### removeEntryLinks -/

theorem parentsOf_removeEntryLinks {L : LinkMap} (h : LinkStruct L) (id x : Nat) :
    parentsOf (removeEntryLinks L id) x = if x = id then [] else (parentsOf L x).filter (· ≠ id) := by
  rw [parentsOf_eq (removeEntryLinks L id) x]
  unfold removeEntryLinks
  simp only
  rw [linkOf_filter_ne]
  by_cases hx : x = id
  · simp [hx]
  · simp only [hx, if_false]
    rw [linkOf_modLink, linkOf_modLink, parentsOf_eq L x]
    cases hl : linkOf L x with
    | none => simp
    | some l =>
      simp only [Option.map_some, Option.getD_some]
      have hpar : parentsOf L x = l.parents := by rw [parentsOf_eq, hl]; rfl
      by_cases hc : x ∈ childrenOf L id
      · by_cases hp : x ∈ parentsOf L id <;> simp [hc, hp]
      · have hnot : id ∉ l.parents := by
          rw [← hpar]; exact fun hm => hc ((h.sym id x).mp hm)
        have : l.parents.filter (fun x => !decide (x = id)) = l.parents := by
          apply List.filter_eq_self.mpr
          intro a ha
          have : a ≠ id := fun e => hnot (e ▸ ha)
          simpa using this
        by_cases hp : x ∈ parentsOf L id <;> simp [hc, hp, this]

theorem childrenOf_removeEntryLinks {L : LinkMap} (h : LinkStruct L) (id x : Nat) :
    childrenOf (removeEntryLinks L id) x = if x = id then [] else (childrenOf L x).filter (· ≠ id) := by
  rw [childrenOf_eq (removeEntryLinks L id) x]
  unfold removeEntryLinks
  simp only
  rw [linkOf_filter_ne]
  by_cases hx : x = id
  · simp [hx]
  · simp only [hx, if_false]
    rw [linkOf_modLink, linkOf_modLink, childrenOf_eq L x]
    cases hl : linkOf L x with
    | none => simp
    | some l =>
      simp only [Option.map_some, Option.getD_some]
      have hch : childrenOf L x = l.children := by rw [childrenOf_eq, hl]; rfl
      by_cases hp : x ∈ parentsOf L id
      · by_cases hc : x ∈ childrenOf L id <;> simp [hc, hp]
      · have hnot : id ∉ l.children := by
          rw [← hch]; exact fun hm => hp ((h.sym x id).mpr hm)
        have : l.children.filter (fun x => !decide (x = id)) = l.children := by
          apply List.filter_eq_self.mpr
          intro a ha
          have : a ≠ id := fun e => hnot (e ▸ ha)
          simpa using this
        by_cases hc : x ∈ childrenOf L id <;> simp [hc, hp, this]

theorem keys_removeEntryLinks (L : LinkMap) (id : Nat) : keys (removeEntryLinks L id) = (keys L).filter (· ≠ id) := by
  unfold removeEntryLinks
  simp only
  rw [keys_filter_ne, keys_modLink, keys_modLink]

theorem LinkStruct.removeEntryLinks {L : LinkMap} (h : LinkStruct L) (id : Nat) : LinkStruct (removeEntryLinks L id) := by
  constructor
  · rw [keys_removeEntryLinks]; exact List.Nodup.sublist List.filter_sublist h.keys
  · intro p c
    rw [parentsOf_removeEntryLinks h, childrenOf_removeEntryLinks h]
    by_cases hc : c = id
    · subst hc
      by_cases hp : p = c
      · simp [hp]
      · simp [hp]
    · by_cases hp : p = id
      · subst hp; simp [hc]
      · simp only [hc, hp, if_false, List.mem_filter]
        constructor
        · rintro ⟨a, _⟩; exact ⟨(h.sym p c).mp a, by simpa using hc⟩
        · rintro ⟨a, _⟩; exact ⟨(h.sym p c).mpr a, by simpa using hp⟩
  · intro x
    rw [parentsOf_removeEntryLinks h]
    split
    · exact List.nodup_nil
    · exact List.Nodup.sublist List.filter_sublist (h.ndP x)
  · intro x
    rw [childrenOf_removeEntryLinks h]
    split
    · exact List.nodup_nil
    · exact List.Nodup.sublist List.filter_sublist (h.ndC x)

/-- removing a node that has no link entry changes nothing -/
theorem removeEntryLinks_not_key {L : LinkMap} {id : Nat} (h : id ∉ keys L) : removeEntryLinks L id = L := by
  unfold removeEntryLinks
  simp only
  rw [parentsOf_nil_of_not_key h, childrenOf_nil_of_not_key h]
  have hm : ∀ (M : LinkMap) (f : Links → Links), modLink M [] f = M := by
    intro M f; unfold modLink
    conv => rhs; rw [← List.map_id M]
    apply List.map_congr_left; intro kl _; simp
  rw [hm, hm]
  apply List.filter_eq_self.mpr
  intro kl hkl
  have hk : kl.1 ∈ keys L := List.mem_map.mpr ⟨kl, hkl, rfl⟩
  have : kl.1 ≠ id := fun e => h (e ▸ hk)
  simpa using this


/-! ### a new node below existing parents (`_record_ancestors`) -/

theorem mem_insertNew {α} [DecidableEq α] (l : List α) (a x : α) : x ∈ insertNew l a ↔ x ∈ l ∨ x = a := by
  unfold insertNew
  split
  · constructor
    · exact Or.inl
    · rintro (h | h)
      · exact h
      · rw [h]; assumption
  · simp

theorem nodup_insertNew {α} [DecidableEq α] (l : List α) (a : α) (h : l.Nodup) : (insertNew l a).Nodup := by
  unfold insertNew
  split
  · exact h
  · rename_i hn
    refine List.nodup_append.mpr ⟨h, by simp, ?_⟩
    intro x hx y hy hxy
    have : y = a := by simpa using hy
    exact hn (this ▸ hxy ▸ hx)

def addNodeLinks (L : LinkMap) (E : Nat) (P : List Nat) : LinkMap :=
  ((modLink L P fun l => { l with children := insertNew l.children E }).filter (·.1 ≠ E)) ++
    [(E, { parents := P, children := [] })]

theorem linkOf_addNodeLinks (L : LinkMap) (E : Nat) (P : List Nat) (x : Nat) :
    linkOf (addNodeLinks L E P) x =
      if x = E then some { parents := P, children := [] }
      else (linkOf L x).map fun l => if x ∈ P then { l with children := insertNew l.children E } else l := by
  unfold addNodeLinks
  rw [linkOf_append_single _ _ _ _ (by rw [linkOf_filter_ne]; simp)]
  by_cases hx : x = E
  · simp [hx]
  · simp only [hx, if_false]
    rw [linkOf_filter_ne, linkOf_modLink]
    simp [hx]

theorem parentsOf_addNodeLinks (L : LinkMap) (E : Nat) (P : List Nat) (x : Nat) :
    parentsOf (addNodeLinks L E P) x = if x = E then P else parentsOf L x := by
  rw [parentsOf_eq, linkOf_addNodeLinks, parentsOf_eq]
  by_cases hx : x = E
  · simp [hx]
  · simp only [hx, if_false]
    cases linkOf L x with
    | none => rfl
    | some l => by_cases hp : x ∈ P <;> simp [hp]

theorem childrenOf_addNodeLinks (L : LinkMap) (E : Nat) (P : List Nat) (x : Nat) :
    childrenOf (addNodeLinks L E P) x =
      if x = E then [] else if x ∈ P then (linkOf L x).elim [] (fun l => insertNew l.children E) else childrenOf L x := by
  rw [childrenOf_eq, linkOf_addNodeLinks, childrenOf_eq]
  by_cases hx : x = E
  · simp [hx]
  · simp only [hx, if_false]
    cases linkOf L x with
    | none => by_cases hp : x ∈ P <;> simp [hp]
    | some l => by_cases hp : x ∈ P <;> simp [hp]

theorem keys_addNodeLinks (L : LinkMap) (E : Nat) (P : List Nat) (hE : E ∉ keys L) :
    keys (addNodeLinks L E P) = keys L ++ [E] := by
  unfold addNodeLinks
  have : ∀ M : LinkMap, keys (M ++ [(E, ({ parents := P, children := [] } : Links))]) = keys M ++ [E] := by
    intro M; simp [keys]
  rw [this, keys_filter_ne, keys_modLink]
  congr 1
  apply List.filter_eq_self.mpr
  intro a ha
  have : a ≠ E := fun e => hE (e ▸ ha)
  simpa using this

theorem LinkStruct.addNode {L : LinkMap} (h : LinkStruct L) {E : Nat} {P : List Nat} (hE : E ∉ Pool.keys L)
    (hP : ∀ p ∈ P, p ∈ Pool.keys L) (hn : P.Nodup) : LinkStruct (addNodeLinks L E P) := by
  have hEP : E ∉ P := fun hm => hE (hP E hm)
  have hch : ∀ x, x ∈ P → childrenOf (addNodeLinks L E P) x = insertNew (childrenOf L x) E := by
    intro x hx
    have hxE : x ≠ E := fun e => hEP (e ▸ hx)
    rw [childrenOf_addNodeLinks]
    simp only [hxE, if_false, hx, if_true]
    have hk := (mem_keys_iff L x).mp (hP x hx)
    rw [childrenOf_eq]
    cases hl : linkOf L x with
    | none => rw [hl] at hk; simp at hk
    | some l => rfl
  constructor
  · rw [keys_addNodeLinks L E P hE]
    refine List.nodup_append.mpr ⟨h.keys, by simp, ?_⟩
    intro a ha b hb hab
    have : b = E := by simpa using hb
    exact hE (this ▸ hab ▸ ha)
  · intro p c
    rw [parentsOf_addNodeLinks]
    by_cases hc : c = E
    · subst hc
      simp only [if_true]
      by_cases hp : p ∈ P
      · rw [hch p hp]; simp [hp, mem_insertNew]
      · have hpE : p = c ∨ p ≠ c := Decidable.em _
        rcases hpE with e | e
        · subst e; rw [childrenOf_addNodeLinks]; simp [hp]
        · rw [childrenOf_addNodeLinks]
          simp only [e, if_false, hp]
          constructor
          · intro x; exact x.elim
          · intro x
            have := (h.sym p c).mpr x
            rw [parentsOf_nil_of_not_key hE] at this; cases this
    · simp only [hc, if_false]
      by_cases hpE : p = E
      · subst hpE
        rw [childrenOf_addNodeLinks, if_pos rfl]
        constructor
        · intro x; exact absurd (h.parent_key x).1 hE
        · intro x; cases x
      · by_cases hp : p ∈ P
        · rw [hch p hp, mem_insertNew]
          constructor
          · intro x; exact Or.inl ((h.sym p c).mp x)
          · rintro (x | x)
            · exact (h.sym p c).mpr x
            · exact absurd x hc
        · rw [childrenOf_addNodeLinks]; simp only [hpE, if_false, hp]
          exact h.sym p c
  · intro x
    rw [parentsOf_addNodeLinks]
    split
    · exact hn
    · exact h.ndP x
  · intro x
    by_cases hx : x ∈ P
    · rw [hch x hx]; exact nodup_insertNew _ _ (h.ndC x)
    · rw [childrenOf_addNodeLinks]
      split
      · exact List.nodup_nil
      · exact h.ndC x

/-! ### existing nodes hung below a node (`record_entry_descendants` with pooled children) -/

def linkChildren (L : LinkMap) (E : Nat) (C : List Nat) : LinkMap :=
  modLink (modLink L C fun l => { l with parents := insertNew l.parents E }) [E]
    fun l => { l with children := C.foldl insertNew l.children }

theorem mem_foldl_insertNew {α} [DecidableEq α] (C l : List α) (x : α) :
    x ∈ C.foldl insertNew l ↔ x ∈ l ∨ x ∈ C := by
  induction C generalizing l with
  | nil => simp
  | cons a C ih =>
    simp only [List.foldl_cons, List.mem_cons]
    rw [ih, mem_insertNew]
    constructor
    · rintro ((h | h) | h)
      · exact Or.inl h
      · exact Or.inr (Or.inl h)
      · exact Or.inr (Or.inr h)
    · rintro (h | h | h)
      · exact Or.inl (Or.inl h)
      · exact Or.inl (Or.inr h)
      · exact Or.inr h

theorem nodup_foldl_insertNew {α} [DecidableEq α] (C l : List α) (h : l.Nodup) : (C.foldl insertNew l).Nodup := by
  induction C generalizing l with
  | nil => exact h
  | cons a C ih => exact ih _ (nodup_insertNew _ _ h)

theorem parentsOf_linkChildren (L : LinkMap) (E : Nat) (C : List Nat) (x : Nat) :
    parentsOf (linkChildren L E C) x = if x ∈ C then (linkOf L x).elim [] (fun l => insertNew l.parents E) else parentsOf L x := by
  rw [parentsOf_eq]
  unfold linkChildren
  rw [linkOf_modLink, linkOf_modLink, parentsOf_eq]
  cases linkOf L x with
  | none => by_cases hc : x ∈ C <;> simp [hc]
  | some l =>
    by_cases he : x = E
    · subst he; by_cases hc : x ∈ C <;> simp [hc]
    · by_cases hc : x ∈ C <;> simp [hc, he]

theorem childrenOf_linkChildren (L : LinkMap) (E : Nat) (C : List Nat) (x : Nat) :
    childrenOf (linkChildren L E C) x = if x = E then (linkOf L x).elim [] (fun l => C.foldl insertNew l.children) else childrenOf L x := by
  rw [childrenOf_eq]
  unfold linkChildren
  rw [linkOf_modLink, linkOf_modLink, childrenOf_eq]
  cases linkOf L x with
  | none => by_cases he : x = E <;> simp [he]
  | some l =>
    by_cases he : x = E
    · subst he; by_cases hc : x ∈ C <;> simp [hc]
    · by_cases hc : x ∈ C <;> simp [hc, he]

theorem keys_linkChildren (L : LinkMap) (E : Nat) (C : List Nat) : keys (linkChildren L E C) = keys L := by
  unfold linkChildren; rw [keys_modLink, keys_modLink]

theorem LinkStruct.linkChildren {L : LinkMap} (h : LinkStruct L) {E : Nat} {C : List Nat} (hE : E ∈ Pool.keys L)
    (hC : ∀ c ∈ C, c ∈ Pool.keys L) : LinkStruct (linkChildren L E C) := by
  have hpar : ∀ x, x ∈ C → parentsOf (Pool.linkChildren L E C) x = insertNew (parentsOf L x) E := by
    intro x hx
    rw [parentsOf_linkChildren]; simp only [hx, if_true]
    have hk := (mem_keys_iff L x).mp (hC x hx)
    rw [parentsOf_eq]
    cases hl : linkOf L x with
    | none => rw [hl] at hk; simp at hk
    | some l => rfl
  have hchE : childrenOf (Pool.linkChildren L E C) E = C.foldl insertNew (childrenOf L E) := by
    rw [childrenOf_linkChildren]; simp only [if_true]
    have hk := (mem_keys_iff L E).mp hE
    rw [childrenOf_eq]
    cases hl : linkOf L E with
    | none => rw [hl] at hk; simp at hk
    | some l => rfl
  constructor
  · rw [keys_linkChildren]; exact h.keys
  · intro p c
    by_cases hc : c ∈ C
    · rw [hpar c hc, mem_insertNew]
      by_cases hp : p = E
      · subst hp; rw [hchE, mem_foldl_insertNew]; simp [hc]
      · rw [childrenOf_linkChildren]; simp only [hp, if_false, or_false]
        exact h.sym p c
    · rw [parentsOf_linkChildren]; simp only [hc, if_false]
      by_cases hp : p = E
      · subst hp; rw [hchE, mem_foldl_insertNew]; simp only [hc, or_false]; exact h.sym p c
      · rw [childrenOf_linkChildren]; simp only [hp, if_false]; exact h.sym p c
  · intro x
    by_cases hx : x ∈ C
    · rw [hpar x hx]; exact nodup_insertNew _ _ (h.ndP x)
    · rw [parentsOf_linkChildren]; simp only [hx, if_false]; exact h.ndP x
  · intro x
    by_cases hx : x = E
    · subst hx; rw [hchE]; exact nodup_foldl_insertNew _ _ (h.ndC x)
    · rw [childrenOf_linkChildren]; simp only [hx, if_false]; exact h.ndC x

end CkbVerif.Pool
