import CkbVerif.Model.RichIndexer
import CkbVerif.Lemmas.RichReach

/-! LIMIT / CURSOR of the relational model's `get_cells` (C18): the page walk over rows whose cursor
`output.id` is strictly monotone. -/
namespace CkbVerif.Rich
open CkbVerif.Indexer (Script Filter)

/-- `c` lies beyond the cursor `a` in the iteration direction (`WHERE output.id > a` / `< a`) -/
def beyond (desc : Bool) (a c : Nat) : Bool := if desc then c < a else a < c

def DirSorted (desc : Bool) (l : List RCell) : Prop := l.Pairwise fun x y => beyond desc x.cur y.cur = true

theorem beyond_irrefl (desc : Bool) (a : Nat) : beyond desc a a = false := by
  cases desc <;> simp [beyond]

theorem beyond_asymm (desc : Bool) (a c : Nat) (h : beyond desc a c = true) : beyond desc c a = false := by
  cases desc <;> simp [beyond] at h ⊢ <;> omega

/-- after a page that ends with `e`, the cursor filter keeps exactly the rows behind `e` -/
theorem filter_beyond_split (desc : Bool) (A : List RCell) (e : RCell) (B : List RCell)
    (h : DirSorted desc (A ++ e :: B)) :
    (A ++ e :: B).filter (fun r => beyond desc e.cur r.cur) = B := by
  unfold DirSorted at h
  rw [List.pairwise_append] at h
  obtain ⟨_, heB, hA⟩ := h
  rw [List.pairwise_cons] at heB
  rw [List.filter_append, List.filter_cons]
  have h1 : A.filter (fun r => beyond desc e.cur r.cur) = [] := by
    rw [List.filter_eq_nil_iff]
    intro a ha
    have := hA a ha e (by simp)
    simp [beyond_asymm desc _ _ this]
  have h2 : B.filter (fun r => beyond desc e.cur r.cur) = B := by
    rw [List.filter_eq_self]
    intro b hb
    exact heB.1 b hb
  simp [h1, h2, beyond_irrefl]

/-- the rows behind the cursor -/
def afterRows (desc : Bool) (R : List RCell) : Option Nat → List RCell
  | none => R
  | some a => R.filter fun r => beyond desc a r.cur

theorem getCells_rows (db : DB) (ls : Bool) (m : Mode) (q : Script) (f : Filter) (desc : Bool)
    (limit : Nat) (after : Option Nat) :
    getCells db ls m q f desc limit after =
      let rows := afterRows desc (if desc then (cellRows db ls m q f).reverse else cellRows db ls m q f) after
      (rows.take limit, (rows.take limit).getLast?.map (·.cur)) := by
  unfold getCells afterRows beyond
  cases after <;> rfl

/-- the walk from any point: the remaining pages concatenate to the remaining rows -/
theorem getCellsPages_from (db : DB) (ls : Bool) (m : Mode) (q : Script) (f : Filter) (desc : Bool)
    (limit : Nat) (hl : 1 ≤ limit)
    (hs : DirSorted desc (if desc then (cellRows db ls m q f).reverse else cellRows db ls m q f)) :
    ∀ (fuel : Nat) (after : Option Nat) (A B : List RCell),
      (if desc then (cellRows db ls m q f).reverse else cellRows db ls m q f) = A ++ B →
      (match after with
        | none => A = []
        | some a => ∃ A' e, A = A' ++ [e] ∧ e.cur = a) →
      B.length < fuel →
      (getCellsPages db ls m q f desc limit fuel after).flatten = B ∧
      (getCellsPages db ls m q f desc limit fuel after).getLast? = some [] := by
  intro fuel
  induction fuel with
  | zero => intro _ _ _ _ _ h; omega
  | succ fuel ih =>
    intro after A B hAB hcur hlen
    have hrows : afterRows desc (if desc then (cellRows db ls m q f).reverse else cellRows db ls m q f) after = B := by
      cases after with
      | none => simp only at hcur; simp only [afterRows]; rw [hAB, hcur]; rfl
      | some a =>
        obtain ⟨A', e, hA, he⟩ := hcur
        simp only [afterRows]
        rw [hAB, hA, ← he, List.append_assoc]
        apply filter_beyond_split
        rw [hAB, hA, List.append_assoc] at hs
        exact hs
    unfold getCellsPages
    rw [getCells_rows]
    simp only
    rw [hrows]
    by_cases hp : B.take limit = []
    · have hB : B = [] := by
        cases B with
        | nil => rfl
        | cons b t =>
          obtain ⟨k, rfl⟩ : ∃ k, limit = k + 1 := ⟨limit - 1, by omega⟩
          simp at hp
      subst hB
      simp
    · have hne : (B.take limit).isEmpty = false := by
        cases hq : B.take limit with
        | nil => exact absurd hq hp
        | cons _ _ => rfl
      simp only [hne, Bool.false_eq_true, if_false]
      obtain ⟨P, e, hP⟩ : ∃ P e, B.take limit = P ++ [e] :=
        ⟨(B.take limit).dropLast, (B.take limit).getLast hp, (List.dropLast_concat_getLast hp).symm⟩
      have hlast : (B.take limit).getLast?.map (·.cur) = some e.cur := by rw [hP]; simp
      have hB : B = (P ++ [e]) ++ B.drop limit := by rw [← hP, List.take_append_drop]
      have hAB' : (if desc then (cellRows db ls m q f).reverse else cellRows db ls m q f) =
          (A ++ P ++ [e]) ++ B.drop limit := by
        rw [hAB]; conv => lhs; rw [hB]
        simp
      have hlen' : (B.drop limit).length < fuel := by
        have h1 : (B.drop limit).length = B.length - limit := List.length_drop
        have h2 : 1 ≤ B.length := by
          cases B with
          | nil => simp at hp
          | cons _ _ => simp
        omega
      obtain ⟨ih1, ih2⟩ := ih (some e.cur) (A ++ P ++ [e]) (B.drop limit) hAB'
        ⟨A ++ P, e, rfl, rfl⟩ hlen'
      rw [hlast]
      refine ⟨?_, ?_⟩
      · rw [List.flatten_cons, ih1, List.take_append_drop]
      · rw [List.getLast?_cons]
        cases hw : getCellsPages db ls m q f desc limit fuel (some e.cur) with
        | nil => rw [hw] at ih2; simp at ih2
        | cons p ps => rw [hw] at ih2; rw [← ih2]; rfl

theorem dirSorted_of_asc (l : List RCell) (h : (l.map (·.cur)).Pairwise (· < ·)) (desc : Bool) :
    DirSorted desc (if desc then l.reverse else l) := by
  rw [List.pairwise_map] at h
  cases desc with
  | false => simpa [DirSorted, beyond] using h
  | true =>
    simp only [if_true, DirSorted, beyond]
    rw [List.pairwise_reverse]
    simpa using h

end CkbVerif.Rich
