import CkbVerif.Model.Orphan

/-! Helper lemmas for the orphan-pool part of C17. -/
namespace CkbVerif.Orphan

/-- `b` is a stored descendant of `p`: a chain of pooled blocks `b → … → child of p`. -/
inductive Desc (pool : List Blk) (p : Nat) : Blk → Prop
  | child {b : Blk} : b ∈ pool → b.parent = p → Desc pool p b
  | step {c b : Blk} : Desc pool p c → b ∈ pool → b.parent = c.id → Desc pool p b

/-- descendant of one of several roots -/
def DescQ (pool : List Blk) (qs : List Nat) (b : Blk) : Prop := ∃ q, q ∈ qs ∧ Desc pool q b

theorem mem_children {pool : List Blk} {q : Nat} {b : Blk} :
    b ∈ children pool q ↔ b ∈ pool ∧ b.parent = q := by
  simp [children, List.mem_filter]

theorem mem_rest {pool : List Blk} {q : Nat} {b : Blk} :
    b ∈ pool.filter (fun b => !(b.parent == q)) ↔ b ∈ pool ∧ b.parent ≠ q := by
  simp [List.mem_filter]

theorem Desc.mem {pool : List Blk} {p : Nat} {b : Blk} (h : Desc pool p b) : b ∈ pool := by
  cases h with
  | child h _ => exact h
  | step _ h _ => exact h

theorem Desc.mono {pool1 pool : List Blk} (hs : ∀ b, b ∈ pool1 → b ∈ pool) {p : Nat} {b : Blk}
    (h : Desc pool1 p b) : Desc pool p b := by
  induction h with
  | child h1 h2 => exact .child (hs _ h1) h2
  | step _ h1 h2 ih => exact .step ih (hs _ h1) h2

theorem Desc.trans {pool : List Blk} {q : Nat} {c b : Blk} (h1 : Desc pool q c)
    (h2 : Desc pool c.id b) : Desc pool q b := by
  induction h2 with
  | child h3 h4 => exact .step h1 h3 h4
  | step _ h3 h4 ih => exact .step ih h3 h4

theorem Desc.not_of_rest {pool : List Blk} {q : Nat} {b : Blk}
    (h : Desc (pool.filter (fun b => !(b.parent == q))) q b) : False := by
  induction h with
  | child h1 h2 => exact (mem_rest.mp h1).2 h2
  | step _ _ _ ih => exact ih

/-- a descendant chain either ends in a child of `q`, avoids the children of `q` altogether, or
passes through one of them and continues below it outside the children of `q` -/
theorem Desc.split {pool : List Blk} {r : Nat} {b : Blk} (q : Nat) (h : Desc pool r b) :
    b.parent = q ∨ Desc (pool.filter (fun b => !(b.parent == q))) r b ∨
      ∃ c, c ∈ children pool q ∧ Desc (pool.filter (fun b => !(b.parent == q))) c.id b := by
  induction h with
  | @child b h1 h2 =>
    by_cases hq : b.parent = q
    · exact Or.inl hq
    · exact Or.inr (Or.inl (.child (mem_rest.mpr ⟨h1, hq⟩) h2))
  | @step c b hc h1 h2 ih =>
    by_cases hq : b.parent = q
    · exact Or.inl hq
    · have hb := mem_rest.mpr ⟨h1, hq⟩
      rcases ih with h | h | ⟨c', hc', h⟩
      · exact Or.inr (Or.inr ⟨c, mem_children.mpr ⟨hc.mem, h⟩, .child hb h2⟩)
      · exact Or.inr (Or.inl (.step h hb h2))
      · exact Or.inr (Or.inr ⟨c', hc', .step h hb h2⟩)

/-- one iteration of the loop, on the specification side -/
theorem descQ_step {pool : List Blk} {q : Nat} {rest : List Nat} {b : Blk} :
    DescQ pool (q :: rest) b ↔
      b ∈ children pool q ∨
      DescQ (pool.filter (fun b => !(b.parent == q))) (rest ++ (children pool q).map (·.id)) b := by
  have sub : ∀ b, b ∈ pool.filter (fun b => !(b.parent == q)) → b ∈ pool := fun b h => (mem_rest.mp h).1
  constructor
  · rintro ⟨r, hr, hd⟩
    rcases hd.split q with h | h | ⟨c, hc, h⟩
    · exact Or.inl (mem_children.mpr ⟨hd.mem, h⟩)
    · rcases List.mem_cons.mp hr with hr | hr
      · subst hr; exact (h.not_of_rest).elim
      · exact Or.inr ⟨r, List.mem_append_left _ hr, h⟩
    · exact Or.inr ⟨c.id, List.mem_append_right _ (List.mem_map.mpr ⟨c, hc, rfl⟩), h⟩
  · rintro (h | ⟨r, hr, hd⟩)
    · have := mem_children.mp h
      exact ⟨q, List.mem_cons_self, .child this.1 this.2⟩
    · rcases List.mem_append.mp hr with hr | hr
      · exact ⟨r, List.mem_cons_of_mem _ hr, hd.mono sub⟩
      · obtain ⟨c, hc, rfl⟩ := List.mem_map.mp hr
        have := mem_children.mp hc
        exact ⟨q, List.mem_cons_self, (Desc.child this.1 this.2).trans (hd.mono sub)⟩

theorem length_split (pool : List Blk) (q : Nat) :
    (children pool q).length + (pool.filter (fun b => !(b.parent == q))).length = pool.length := by
  have := (List.filter_append_perm (fun b : Blk => b.parent == q) pool).length_eq
  simpa [children] using this

/-- the loop returns exactly the descendants of the queued roots and keeps exactly the rest -/
theorem bfs_spec (fuel : Nat) : ∀ (pool : List Blk) (queue : List Nat) (removed : List Blk),
    queue.length + 2 * pool.length < fuel →
    (∀ b, b ∈ (bfs fuel pool queue removed).2 ↔ b ∈ removed ∨ DescQ pool queue b) ∧
    (∀ b, b ∈ (bfs fuel pool queue removed).1 ↔ b ∈ pool ∧ ¬ DescQ pool queue b) := by
  induction fuel with
  | zero => intro pool queue removed h; omega
  | succ fuel ih =>
    intro pool queue removed hf
    cases queue with
    | nil =>
      simp only [bfs]
      have : ∀ b, ¬ DescQ pool [] b := by rintro b ⟨q, hq, _⟩; cases hq
      exact ⟨fun b => by simp [this b], fun b => by simp [this b]⟩
    | cons q rest =>
      simp only [bfs]
      have hl := length_split pool q
      have hf' : (rest ++ (children pool q).map (·.id)).length +
          2 * (pool.filter (fun b => !(b.parent == q))).length < fuel := by
        simp only [List.length_append, List.length_map, List.length_cons] at hf ⊢
        omega
      obtain ⟨i1, i2⟩ := ih _ _ (removed ++ children pool q) hf'
      constructor
      · intro b
        rw [i1 b, descQ_step, List.mem_append]
        constructor
        · rintro ((h | h) | h)
          · exact Or.inl h
          · exact Or.inr (Or.inl h)
          · exact Or.inr (Or.inr h)
        · rintro (h | h | h)
          · exact Or.inl (Or.inl h)
          · exact Or.inl (Or.inr h)
          · exact Or.inr h
      · intro b
        rw [i2 b, descQ_step, mem_rest]
        constructor
        · rintro ⟨⟨h1, h2⟩, h3⟩
          refine ⟨h1, ?_⟩
          rintro (h | h)
          · exact h2 (mem_children.mp h).2
          · exact h3 h
        · rintro ⟨h1, h2⟩
          refine ⟨⟨h1, ?_⟩, fun h => h2 (Or.inr h)⟩
          intro hq
          exact h2 (Or.inl (mem_children.mpr ⟨h1, hq⟩))

/-- nothing is duplicated or lost: `removed' ++ pool'` is a permutation of `removed ++ pool` -/
theorem bfs_perm (fuel : Nat) : ∀ (pool : List Blk) (queue : List Nat) (removed : List Blk),
    ((bfs fuel pool queue removed).2 ++ (bfs fuel pool queue removed).1).Perm (removed ++ pool) := by
  induction fuel with
  | zero => intro pool queue removed; simp [bfs]
  | succ fuel ih =>
    intro pool queue removed
    cases queue with
    | nil => simp [bfs]
    | cons q rest =>
      simp only [bfs]
      refine (ih _ _ _).trans ?_
      rw [List.append_assoc]
      exact List.Perm.append_left _ (by simpa [children] using List.filter_append_perm (fun b : Blk => b.parent == q) pool)

/-! ## invariants -/

/-- `leaders` = parents of pooled blocks that are not themselves pooled -/
def LeadersInv (s : Pool) : Prop :=
  ∀ p, p ∈ s.leaders ↔ (∃ b, b ∈ s.pool ∧ b.parent = p) ∧ ¬ ∃ b, b ∈ s.pool ∧ b.id = p

/-- blocks are well-formed w.r.t. a parent function: no block is its own parent -/
def WF (par : Nat → Nat) (pool : List Blk) : Prop :=
  ∀ b, b ∈ pool → b.parent = par b.id

structure Inv (par : Nat → Nat) (s : Pool) : Prop where
  wf : WF par s.pool
  nodup : (s.pool.map (·.id)).Nodup
  leadersNodup : s.leaders.Nodup
  leaders : LeadersInv s

theorem pooled_iff {pool : List Blk} {h : Nat} : pooled pool h = true ↔ ∃ b, b ∈ pool ∧ b.id = h := by
  simp [pooled, List.any_eq_true]

theorem Inv.empty (par : Nat → Nat) : Inv par {} := by
  refine ⟨?_, ?_, List.nodup_nil, ?_⟩
  · intro b h; cases h
  · exact List.nodup_nil
  · intro p
    constructor
    · intro h; cases h
    · rintro ⟨⟨b, hb, _⟩, _⟩; cases hb

theorem Inv.insert {par : Nat → Nat} (hpar : ∀ i, par i ≠ i) {s : Pool} (h : Inv par s) {b : Blk}
    (hb : b.parent = par b.id) : Inv par (CkbVerif.Orphan.insert s b) := by
  have hne : b.parent ≠ b.id := by rw [hb]; exact hpar _
  refine ⟨?_, ?_, ?_, ?_⟩
  · intro c hc
    simp only [CkbVerif.Orphan.insert, List.mem_cons, List.mem_filter] at hc
    rcases hc with hc | hc
    · subst hc; exact hb
    · exact h.wf c hc.1
  · simp only [CkbVerif.Orphan.insert, List.map_cons, List.nodup_cons]
    constructor
    · simp only [List.mem_map, List.mem_filter, not_exists, not_and]
      intro c hc
      have := hc.2
      simp only [bne_iff_ne, ne_eq] at this
      exact this
    · exact List.Nodup.sublist (List.Sublist.map _ List.filter_sublist) h.nodup
  · have hl1 : (s.leaders.filter (fun h => h != b.id)).Nodup :=
      List.Nodup.sublist List.filter_sublist h.leadersNodup
    simp only [CkbVerif.Orphan.insert]
    split
    · exact hl1
    · split
      · exact hl1
      · rename_i hc
        rw [List.nodup_cons]
        exact ⟨by simpa using hc, hl1⟩
  · intro p
    have hL := h.leaders
    -- children / pooled after the insert
    have hchild : (∃ c, c ∈ (CkbVerif.Orphan.insert s b).pool ∧ c.parent = p) ↔
        (p = b.parent ∨ ∃ c, c ∈ s.pool ∧ c.parent = p) := by
      simp only [CkbVerif.Orphan.insert, List.mem_cons, List.mem_filter]
      constructor
      · rintro ⟨c, (hc | hc), hp⟩
        · subst hc; exact Or.inl hp.symm
        · exact Or.inr ⟨c, hc.1, hp⟩
      · rintro (hp | ⟨c, hc, hp⟩)
        · exact ⟨b, Or.inl rfl, hp.symm⟩
        · by_cases hid : c.id = b.id
          · refine ⟨b, Or.inl rfl, ?_⟩
            rw [hb, ← hid, ← h.wf c hc]; exact hp
          · exact ⟨c, Or.inr ⟨hc, by simpa using hid⟩, hp⟩
    have hpool : (∃ c, c ∈ (CkbVerif.Orphan.insert s b).pool ∧ c.id = p) ↔
        (p = b.id ∨ ∃ c, c ∈ s.pool ∧ c.id = p) := by
      simp only [CkbVerif.Orphan.insert, List.mem_cons, List.mem_filter]
      constructor
      · rintro ⟨c, (hc | hc), hp⟩
        · subst hc; exact Or.inl hp.symm
        · exact Or.inr ⟨c, hc.1, hp⟩
      · rintro (hp | ⟨c, hc, hp⟩)
        · exact ⟨b, Or.inl rfl, hp.symm⟩
        · by_cases hid : c.id = b.id
          · exact ⟨b, Or.inl rfl, by rw [← hid]; exact hp⟩
          · exact ⟨c, Or.inr ⟨hc, by simpa using hid⟩, hp⟩
    rw [hchild, hpool]
    have hmem : p ∈ (CkbVerif.Orphan.insert s b).leaders ↔
        (p ∈ s.leaders ∧ p ≠ b.id) ∨ (p = b.parent ∧ ¬ ∃ c, c ∈ s.pool ∧ c.id = b.parent) := by
      simp only [CkbVerif.Orphan.insert]
      split
      · rename_i hp
        have hp' := pooled_iff.mp hp
        simp only [List.mem_filter, bne_iff_ne, ne_eq]
        constructor
        · intro hh; exact Or.inl (by simpa using hh)
        · rintro (hh | ⟨_, hh⟩)
          · simpa using hh
          · exact (hh hp').elim
      · rename_i hp
        have hp' : ¬ ∃ c, c ∈ s.pool ∧ c.id = b.parent := fun hh => hp (pooled_iff.mpr hh)
        split
        · rename_i hc
          have hc' : b.parent ∈ s.leaders ∧ b.parent ≠ b.id := by
            simpa [List.mem_filter] using hc
          simp only [List.mem_filter, bne_iff_ne, ne_eq]
          constructor
          · intro hh; exact Or.inl (by simpa using hh)
          · rintro (hh | ⟨hh, _⟩)
            · simpa using hh
            · subst hh; simpa using hc'
        · simp only [List.mem_cons, List.mem_filter, bne_iff_ne, ne_eq]
          constructor
          · rintro (hh | hh)
            · exact Or.inr ⟨hh, hp'⟩
            · exact Or.inl (by simpa using hh)
          · rintro (hh | ⟨hh, _⟩)
            · exact Or.inr (by simpa using hh)
            · exact Or.inl hh
    rw [hmem, hL p]
    constructor
    · rintro (⟨⟨h1, h2⟩, h3⟩ | ⟨h1, h2⟩)
      · exact ⟨Or.inr h1, fun hh => hh.elim h3 h2⟩
      · subst h1
        exact ⟨Or.inl rfl, fun hh => hh.elim hne h2⟩
    · rintro ⟨h1, h2⟩
      have h3 : p ≠ b.id := fun hh => h2 (Or.inl hh)
      have h4 : ¬ ∃ c, c ∈ s.pool ∧ c.id = p := fun hh => h2 (Or.inr hh)
      rcases h1 with h1 | h1
      · subst h1; exact Or.inr ⟨rfl, h4⟩
      · exact Or.inl ⟨⟨h1, h4⟩, h3⟩

/-- what `remove_blocks_by_parent` does when `p` is a leader -/
theorem removeByParent_leader {s : Pool} {p : Nat} (hp : p ∈ s.leaders) :
    (∀ b, b ∈ (removeByParent s p).2 ↔ Desc s.pool p b) ∧
    (∀ b, b ∈ (removeByParent s p).1.pool ↔ b ∈ s.pool ∧ ¬ Desc s.pool p b) ∧
    (removeByParent s p).1.leaders = s.leaders.filter (fun h => h != p) := by
  have hc : s.leaders.contains p = true := by simpa using hp
  have hd : ∀ b, DescQ s.pool [p] b ↔ Desc s.pool p b := by
    intro b
    constructor
    · rintro ⟨q, hq, h⟩
      have : q = p := by simpa using hq
      subst this; exact h
    · intro h; exact ⟨p, List.mem_cons_self, h⟩
  obtain ⟨a1, a2⟩ := bfs_spec (2 * s.pool.length + 2) s.pool [p] [] (by simp; omega)
  simp only [removeByParent, hc, if_true]
  refine ⟨fun b => ?_, fun b => ?_, trivial⟩
  · rw [a1 b, hd b]; simp
  · rw [a2 b, hd b]

theorem removeByParent_nonleader {s : Pool} {p : Nat} (hp : p ∉ s.leaders) :
    removeByParent s p = (s, []) := by
  unfold removeByParent
  rw [if_neg]
  simpa using hp

theorem Inv.removeByParent {par : Nat → Nat} {s : Pool} (h : Inv par s) (p : Nat) :
    Inv par (CkbVerif.Orphan.removeByParent s p).1 := by
  by_cases hp : p ∈ s.leaders
  · obtain ⟨_, a2, a3⟩ := removeByParent_leader hp
    refine ⟨?_, ?_, ?_, ?_⟩
    · intro b hb; exact h.wf b ((a2 b).mp hb).1
    · -- ids stay distinct
      have hc : s.leaders.contains p = true := by simpa using hp
      have perm := bfs_perm (2 * s.pool.length + 2) s.pool [p] []
      have : (((CkbVerif.Orphan.removeByParent s p).2 ++ (CkbVerif.Orphan.removeByParent s p).1.pool).map (·.id)).Nodup := by
        simp only [CkbVerif.Orphan.removeByParent, hc, if_true]
        exact ((perm.map (·.id)).nodup_iff).mpr (by simpa using h.nodup)
      rw [List.map_append] at this
      exact (List.nodup_append.mp this).2.1
    · rw [a3]; exact List.Nodup.sublist List.filter_sublist h.leadersNodup
    · intro r
      rw [a3]
      simp only [List.mem_filter, bne_iff_ne, ne_eq]
      rw [h.leaders r]
      constructor
      · rintro ⟨⟨⟨c, hc, hcr⟩, hnp⟩, hne⟩
        refine ⟨⟨c, (a2 c).mpr ⟨hc, ?_⟩, hcr⟩, ?_⟩
        · intro hd
          cases hd with
          | child _ h2 => exact hne (hcr.symm.trans h2)
          | step hd' _ h2 => exact hnp ⟨_, hd'.mem, (hcr.symm.trans h2).symm⟩
        · rintro ⟨x, hx, hxr⟩
          exact hnp ⟨x, ((a2 x).mp hx).1, hxr⟩
      · rintro ⟨⟨c, hc, hcr⟩, hnp⟩
        have hc' := (a2 c).mp hc
        have hne : r ≠ p := by
          intro hh; subst hh
          exact hc'.2 (.child hc'.1 hcr)
        refine ⟨⟨⟨c, hc'.1, hcr⟩, ?_⟩, hne⟩
        rintro ⟨x, hx, hxr⟩
        by_cases hdx : Desc s.pool p x
        · exact hc'.2 (.step hdx hc'.1 (hcr.trans hxr.symm))
        · exact hnp ⟨x, (a2 x).mpr ⟨hx, hdx⟩, hxr⟩
  · rw [removeByParent_nonleader hp]; exact h

theorem Inv.cleanExpired {par : Nat → Nat} {s : Pool} (h : Inv par s) (tipEpoch : Nat) :
    Inv par (CkbVerif.Orphan.cleanExpired s tipEpoch).1 := by
  unfold CkbVerif.Orphan.cleanExpired
  generalize s.leaders = ls
  have : ∀ (acc : Pool × List Blk), Inv par acc.1 →
      Inv par (ls.foldl
        (fun (acc : Pool × List Blk) h =>
          if needClean acc.1.pool h tipEpoch then
            ((CkbVerif.Orphan.removeByParent acc.1 h).1, acc.2 ++ (CkbVerif.Orphan.removeByParent acc.1 h).2)
          else acc) acc).1 := by
    induction ls with
    | nil => intro acc ha; exact ha
    | cons l ls ih =>
      intro acc ha
      simp only [List.foldl_cons]
      apply ih
      split
      · exact ha.removeByParent l
      · exact ha
  exact this (s, []) h

theorem Desc.has_child {pool : List Blk} {p : Nat} {b : Blk} (h : Desc pool p b) :
    ∃ c, c ∈ pool ∧ c.parent = p := by
  induction h with
  | child h1 h2 => exact ⟨_, h1, h2⟩
  | step _ _ _ ih => exact ih

/-- each released block is returned once -/
theorem removeByParent_nodup {s : Pool} (h : (s.pool.map (·.id)).Nodup) (p : Nat) :
    ((CkbVerif.Orphan.removeByParent s p).2.map (·.id)).Nodup := by
  by_cases hp : p ∈ s.leaders
  · have hc : s.leaders.contains p = true := by simpa using hp
    have perm := bfs_perm (2 * s.pool.length + 2) s.pool [p] []
    have : (((CkbVerif.Orphan.removeByParent s p).2 ++ (CkbVerif.Orphan.removeByParent s p).1.pool).map (·.id)).Nodup := by
      simp only [CkbVerif.Orphan.removeByParent, hc, if_true]
      exact ((perm.map (·.id)).nodup_iff).mpr (by simpa using h)
    rw [List.map_append] at this
    exact (List.nodup_append.mp this).1
  · rw [removeByParent_nonleader hp]; exact List.nodup_nil

end CkbVerif.Orphan
