import CkbVerif.Lemmas.Readd

/-! Helper lemmas for `Props/C12.lean`, part 3: `limit_size` ends under the limit; the stage of every
    entry after the update against the new proposal window. -/
namespace CkbVerif.Reorg

/-! ### `limit_size` -/

theorem nextEvictAt_pooled {p : Pool} {pref : List Nat} {st id : Nat} (h : nextEvictAt p pref st = some id) :
    ∃ e ∈ p, e.id = id := by
  unfold nextEvictAt at h
  split at h
  · rename_i x hf
    have := List.find?_some hf
    obtain ⟨e, he, hc⟩ := List.any_eq_true.mp this
    simp only [Bool.and_eq_true, beq_iff_eq] at hc
    cases h
    exact ⟨e, he, hc.1⟩
  · cases hq : p.find? (·.status == st) with
    | none => rw [hq] at h; simp at h
    | some e =>
      rw [hq] at h
      simp only [Option.map_some, Option.some.injEq] at h
      exact ⟨e, List.mem_of_find?_eq_some hq, h⟩

theorem nextEvict_pooled {p : Pool} {pref : List Nat} {id : Nat} (h : nextEvict p pref = some id) :
    ∃ e ∈ p, e.id = id := by
  unfold nextEvict at h
  split at h
  · rename_i x hx; cases h; exact nextEvictAt_pooled hx
  · split at h
    · rename_i x hx; cases h; exact nextEvictAt_pooled hx
    · split at h
      · rename_i x hx; cases h; exact nextEvictAt_pooled hx
      · cases p with
        | nil => simp at h
        | cons e es =>
          simp only [List.head?_cons, Option.map_some, Option.some.injEq] at h
          exact ⟨e, List.mem_cons_self .., h⟩

theorem nextEvict_none {p : Pool} {pref : List Nat} (h : nextEvict p pref = none) : p = [] := by
  unfold nextEvict at h
  split at h
  · cases h
  · split at h
    · cases h
    · split at h
      · cases h
      · cases p with
        | nil => rfl
        | cons e es => simp at h

theorem length_removeWithDesc_lt {p : Pool} {id : Nat} (h : ∃ e ∈ p, e.id = id) :
    (removeWithDesc p id).length < p.length := by
  unfold removeWithDesc
  apply List.length_filter_lt_length_iff_exists.mpr
  obtain ⟨e, he, hid⟩ := h
  exact ⟨e, he, by simp [hid]⟩

theorem limitLoop_under (m : Nat) (pref : List Nat) (f : Nat) (p : Pool) (hf : p.length < f) :
    totalSize (limitLoop m pref f p) ≤ m := by
  induction f generalizing p with
  | zero => omega
  | succ n ih =>
    unfold limitLoop
    split
    · rename_i hgt
      split
      · rename_i id hid
        apply ih
        have := length_removeWithDesc_lt (nextEvict_pooled hid)
        omega
      · rename_i hnone
        have := nextEvict_none hnone
        subst this
        simp [totalSize] at hgt
    · omega

/-- membership (not only `Sub`): the removals are filters -/
theorem mem_of_mem_removeWithDesc {p : Pool} {id : Nat} {e : PEnt} (h : e ∈ removeWithDesc p id) : e ∈ p :=
  (mem_removeWithDesc.mp h).1

theorem mem_of_mem_foldl_removeWithDesc (l : List Nat) (p : Pool) {e : PEnt} (h : e ∈ l.foldl removeWithDesc p) : e ∈ p := by
  induction l generalizing p with
  | nil => exact h
  | cons x xs ih => exact mem_of_mem_removeWithDesc (ih _ h)

theorem mem_of_mem_limitLoop (m : Nat) (pref : List Nat) (f : Nat) (p : Pool) {e : PEnt}
    (h : e ∈ limitLoop m pref f p) : e ∈ p := by
  induction f generalizing p with
  | zero => exact h
  | succ n ih =>
    unfold limitLoop at h
    split at h
    · split at h
      · exact mem_of_mem_removeWithDesc (ih _ h)
      · exact h
    · exact h

theorem mem_of_mem_foldl_removeWithDesc' {α} (f : α → Nat) (l : List α) (p : Pool) {e : PEnt}
    (h : e ∈ l.foldl (fun q x => removeWithDesc q (f x)) p) : e ∈ p := by
  induction l generalizing p with
  | nil => exact h
  | cons x xs ih => exact mem_of_mem_removeWithDesc (ih _ h)

theorem mem_of_mem_resolveInput {p : Pool} {i : Nat} {e : PEnt} (h : e ∈ resolveInput p i) : e ∈ p := by
  rw [resolveInput_eq] at h
  have h1 := mem_of_mem_foldl_removeWithDesc' (fun x : PEnt => x.id) _ _ h
  unfold spenderGone at h1
  split at h1
  · exact mem_of_mem_removeWithDesc h1
  · exact h1

theorem mem_of_mem_removeCommitted {p : Pool} {tx : CTx} {e : PEnt} (h : e ∈ removeCommitted p tx) : e ∈ p := by
  unfold removeCommitted at h
  have : ∀ (l : List Nat) (q : Pool), e ∈ l.foldl resolveInput q → e ∈ q := by
    intro l
    induction l with
    | nil => intro q h; exact h
    | cons x xs ih => intro q h; exact mem_of_mem_resolveInput (ih _ h)
  exact (List.mem_filter.mp (this _ _ h)).1

/-- the conflict phases only remove: what is left after them was pooled, unchanged -/
theorem mem_of_mem_conflict_phases (p : Pool) (a : Args) {e : PEnt}
    (h : e ∈ resolveHeaderDeps (a.attached.foldl removeCommitted p) a.detachedHeaders) : e ∈ p := by
  unfold resolveHeaderDeps at h
  have h1 := mem_of_mem_foldl_removeWithDesc' (fun x : PEnt => x.id) _ _ h
  have : ∀ (l : List CTx) (q : Pool), e ∈ l.foldl removeCommitted q → e ∈ q := by
    intro l
    induction l with
    | nil => intro q h; exact h
    | cons x xs ih => intro q h; exact mem_of_mem_removeCommitted (ih _ h)
  exact this _ _ h1

/-! ### stages -/

/-- what the stage clause needs of a pool while detached proposals are processed: entries with the same
    id are at the same stage, stages are 0/1/2, a proposed entry is proposed in the new window or its
    proposal was detached, and the ids processed so far are pending -/
structure StageInv (a : Args) (done : List Nat) (q : Pool) : Prop where
  same : ∀ x ∈ q, ∀ y ∈ q, x.id = y.id → x.status = y.status
  le2 : ∀ x ∈ q, x.status ≤ 2
  prop : ∀ x ∈ q, x.status = 2 → x.id ∈ a.proposed ∨ x.id ∈ a.detachedProposals
  done0 : ∀ x ∈ q, x.id ∈ done → x.status = 0

/-- resetting the stage of the entries whose id satisfies `c` -/
def resetBy (c : Nat → Bool) (q : Pool) : Pool := q.map fun x => if c x.id then { x with status := 0 } else x

theorem resetBy_false (q : Pool) : resetBy (fun _ => false) q = q := by
  unfold resetBy; simp

/-- `remove_by_detached_proposal` for one id is a reset by id, and it covers the id itself whenever that
    id is pooled at a non-pending stage -/
theorem detachProposal_spec {q : Pool} (id : Nat) (hsame : ∀ x ∈ q, ∀ y ∈ q, x.id = y.id → x.status = y.status) :
    ∃ c : Nat → Bool, detachProposal q id = resetBy c q ∧ ((∃ x ∈ q, x.id = id ∧ x.status ≠ 0) → c id = true) := by
  unfold detachProposal
  split
  · rename_i e hf
    have hm := List.mem_of_find?_eq_some hf
    have hid : e.id = id := by simpa using List.find?_some hf
    by_cases hs : e.status = 0
    · refine ⟨fun _ => false, by simp [hs, resetBy_false], ?_⟩
      rintro ⟨x, hx, hxi, hxs⟩
      exact absurd (hsame x hx e hm (hxi.trans hid.symm) ▸ hs) hxs
    · refine ⟨fun i => i == id || (descOf q id).contains i, ?_, fun _ => by simp⟩
      have : (e.status == 0) = false := by simpa using hs
      simp [this, resetBy]
  · rename_i hf
    refine ⟨fun _ => false, (resetBy_false q).symm, ?_⟩
    rintro ⟨x, hx, hxi, _⟩
    have := List.find?_eq_none.mp hf x hx
    simp at this
    exact absurd hxi this

theorem stageInv_resetBy {a : Args} {done : List Nat} {q : Pool} (c : Nat → Bool) (id : Nat)
    (h : StageInv a done q) (hc : (∃ x ∈ q, x.id = id ∧ x.status ≠ 0) → c id = true) :
    StageInv a (id :: done) (resetBy c q) := by
  have hmem : ∀ y ∈ resetBy c q, ∃ x ∈ q, y.id = x.id ∧ (y.status = x.status ∧ c x.id = false ∨ y.status = 0 ∧ c x.id = true) := by
    intro y hy
    unfold resetBy at hy
    obtain ⟨x, hx, rfl⟩ := List.mem_map.mp hy
    refine ⟨x, hx, ?_, ?_⟩
    · split <;> rfl
    · cases hcx : c x.id <;> simp
  constructor
  · intro y1 h1 y2 h2 hid
    obtain ⟨x1, hx1, i1, s1⟩ := hmem y1 h1
    obtain ⟨x2, hx2, i2, s2⟩ := hmem y2 h2
    have hxid : x1.id = x2.id := by rw [← i1, ← i2]; exact hid
    have hst := h.same x1 hx1 x2 hx2 hxid
    rcases s1 with ⟨a1, b1⟩ | ⟨a1, b1⟩ <;> rcases s2 with ⟨a2, b2⟩ | ⟨a2, b2⟩
    · rw [a1, a2]; exact hst
    · rw [hxid] at b1; rw [b1] at b2; cases b2
    · rw [hxid] at b1; rw [b1] at b2; cases b2
    · rw [a1, a2]
  · intro y hy
    obtain ⟨x, hx, _, s⟩ := hmem y hy
    rcases s with ⟨a1, _⟩ | ⟨a1, _⟩
    · rw [a1]; exact h.le2 x hx
    · omega
  · intro y hy h2
    obtain ⟨x, hx, i1, s⟩ := hmem y hy
    rcases s with ⟨a1, _⟩ | ⟨a1, _⟩
    · rw [i1]; exact h.prop x hx (a1 ▸ h2)
    · omega
  · intro y hy hd
    obtain ⟨x, hx, i1, s⟩ := hmem y hy
    rcases s with ⟨a1, b1⟩ | ⟨a1, _⟩
    · rw [a1]
      rcases List.mem_cons.mp hd with h0 | h0
      · -- the id just processed: not reset means it was pending already
        by_cases hs : x.status = 0
        · exact hs
        · have := hc ⟨x, hx, i1 ▸ h0, hs⟩
          rw [← h0, i1] at this; rw [this] at b1; cases b1
      · exact h.done0 x hx (i1 ▸ h0)
    · exact a1

theorem stageInv_foldl_detachProposal {a : Args} (l : List Nat) (done : List Nat) (q : Pool) (h : StageInv a done q) :
    StageInv a (l.reverse ++ done) (l.foldl detachProposal q) := by
  induction l generalizing done q with
  | nil => simpa using h
  | cons id ids ih =>
    simp only [List.foldl_cons, List.reverse_cons, List.append_assoc, List.singleton_append]
    obtain ⟨c, hc1, hc2⟩ := detachProposal_spec id h.same
    rw [hc1]
    exact ih (id :: done) _ (stageInv_resetBy c id h hc2)

/-- after the stage moves every entry is at the stage of the new window, or it is a gap entry whose id
    is neither proposed nor in the gap of the new window -/
theorem stage_after_moves {a : Args} {q : Pool} (h : StageInv a a.detachedProposals.reverse q) :
    ∀ e ∈ q.map (moveStage a), e.status = windowStage a e.id ∨ (e.status = 1 ∧ e.id ∉ a.proposed ∧ e.id ∉ a.gap) := by
  intro e he
  obtain ⟨x, hx, rfl⟩ := List.mem_map.mp he
  have hle := h.le2 x hx
  have hid : (moveStage a x).id = x.id := (moveStage_core a x).1
  rw [hid]
  have h012 : x.status = 0 ∨ x.status = 1 ∨ x.status = 2 := by omega
  rcases h012 with h0 | h1 | h2
  · left
    unfold moveStage windowStage
    simp [h0]
    split
    · rfl
    · split <;> simp [h0]
  · unfold moveStage windowStage
    by_cases hp : x.id ∈ a.proposed
    · left; simp [h1, hp]
    · by_cases hg : x.id ∈ a.gap
      · left; simp [h1, hp, hg]
      · right
        simp [h1, hp, hg]
  · left
    have hpr : x.id ∈ a.proposed := by
      rcases h.prop x hx h2 with h' | h'
      · exact h'
      · have := h.done0 x hx (List.mem_reverse.mpr h'); omega
    unfold moveStage windowStage
    simp [h2, hpr]

end CkbVerif.Reorg
