import CkbVerif.Model.Inflight

/-! Helper lemmas for the in-flight table part of C17. -/
namespace CkbVerif.Inflight

/-! ## association lists -/

theorem assoc_unique {α β : Type} {l : List (α × β)} (h : (l.map (·.1)).Nodup) {k : α} {v1 v2 : β}
    (h1 : (k, v1) ∈ l) (h2 : (k, v2) ∈ l) : v1 = v2 := by
  induction l with
  | nil => cases h1
  | cons e l ih =>
    simp only [List.map_cons, List.nodup_cons] at h
    rcases List.mem_cons.mp h1 with a1 | a1
    · rcases List.mem_cons.mp h2 with a2 | a2
      · rw [← a1] at a2; exact (Prod.mk.inj a2).2.symm
      · exact (h.1 (List.mem_map.mpr ⟨(k, v2), a2, by rw [← a1]⟩)).elim
    · rcases List.mem_cons.mp h2 with a2 | a2
      · exact (h.1 (List.mem_map.mpr ⟨(k, v1), a1, by rw [← a2]⟩)).elim
      · exact ih h.2 a1 a2

theorem nodup_keys_filter {α β : Type} {l : List (α × β)} (h : (l.map (·.1)).Nodup) (q : α × β → Bool) :
    ((l.filter q).map (·.1)).Nodup :=
  List.Nodup.sublist (List.Sublist.map _ List.filter_sublist) h

theorem find_mem {α : Type} {l : List α} {q : α → Bool} {a : α} (h : l.find? q = some a) :
    a ∈ l ∧ q a = true :=
  ⟨List.mem_of_find?_eq_some h, List.find?_some h⟩

theorem find_none {α : Type} {l : List α} {q : α → Bool} (h : l.find? q = none) :
    ∀ a, a ∈ l → q a = false := by
  intro a ha
  have := List.find?_eq_none.mp h a ha
  simpa using this

/-! ## schedulers -/

theorem keys_updSched (l : List (Nat × Sched)) (p : Nat) (f : Sched → Sched) :
    (updSched l p f).map (·.1) = l.map (·.1) := by
  simp only [updSched, List.map_map]
  apply List.map_congr_left
  intro e _
  simp only [Function.comp]
  split <;> rfl

theorem mem_updSched {l : List (Nat × Sched)} {p : Nat} {f : Sched → Sched} {q : Nat} {sc' : Sched}
    (h : (q, sc') ∈ updSched l p f) :
    ∃ sc, (q, sc) ∈ l ∧ sc' = if q = p then f sc else sc := by
  simp only [updSched, List.mem_map] at h
  obtain ⟨⟨q0, sc0⟩, hm, he⟩ := h
  by_cases hq : q0 = p
  · simp only [hq, beq_self_eq_true, if_true] at he
    obtain ⟨h1, h2⟩ := Prod.mk.inj he
    subst h1
    subst hq
    exact ⟨sc0, hm, by simp [h2]⟩
  · have : (q0 == p) = false := by simpa using hq
    simp only [this] at he
    obtain ⟨h1, h2⟩ := Prod.mk.inj he
    subst h1; subst h2
    exact ⟨sc0, hm, by simp [hq]⟩

theorem keys_dropFromScheds (l : List (Nat × Sched)) (gone : List (Blk × Req)) (pu : Bool) (k : Nat) :
    (dropFromScheds l gone pu k).map (·.1) = l.map (·.1) := by
  simp [dropFromScheds, List.map_map, Function.comp]

theorem mem_dropFromScheds {l : List (Nat × Sched)} {gone : List (Blk × Req)} {pu : Bool} {k : Nat}
    {q : Nat} {sc' : Sched} (h : (q, sc') ∈ dropFromScheds l gone pu k) :
    ∃ sc, (q, sc) ∈ l ∧
      ∀ b, b ∈ sc'.hashes ↔ b ∈ sc.hashes ∧ ¬ ∃ g, g ∈ gone ∧ g.2.peer = q ∧ g.1 = b := by
  simp only [dropFromScheds, List.mem_map] at h
  obtain ⟨⟨q0, sc0⟩, hm, he⟩ := h
  obtain ⟨h1, h2⟩ := Prod.mk.inj he
  subst h1
  refine ⟨sc0, hm, ?_⟩
  intro b
  rw [← h2]
  simp only [List.mem_filter, Bool.not_eq_true', List.any_eq_false, beq_iff_eq, not_exists, not_and]
  constructor
  · rintro ⟨a1, a2⟩
    refine ⟨a1, ?_⟩
    intro g hg hp hb
    exact a2 g ⟨hg, hp⟩ hb
  · rintro ⟨a1, a2⟩
    refine ⟨a1, ?_⟩
    intro g hg hb
    exact a2 g hg.1 hg.2 hb

/-! ## the invariant -/

structure Inv (s : Inflight) : Prop where
  statesNodup : (s.states.map (·.1)).Nodup
  schedsNodup : (s.scheds.map (·.1)).Nodup
  /-- every block listed for a peer is in flight from exactly that peer -/
  listed : ∀ p sc b, (p, sc) ∈ s.scheds → b ∈ sc.hashes → ∃ st, (b, st) ∈ s.states ∧ st.peer = p

theorem Inv.empty : Inv {} := by
  refine ⟨List.nodup_nil, List.nodup_nil, ?_⟩
  intro p sc b h; cases h

theorem hasState_false {s : Inflight} {b : Blk} (h : hasState s b = false) :
    b ∉ s.states.map (·.1) := by
  intro hm
  obtain ⟨e, he, hb⟩ := List.mem_map.mp hm
  have : hasState s b = true := by
    simp only [hasState, List.any_eq_true]
    exact ⟨e, he, by simp [hb]⟩
  rw [h] at this; cases this

theorem Inv.insert {s : Inflight} (h : Inv s) (now peer : Nat) (b : Blk) :
    Inv (CkbVerif.Inflight.insert s now peer b).1 := by
  unfold CkbVerif.Inflight.insert
  cases hs : hasState s b with
  | true => simpa using h
  | false =>
    have hb := hasState_false hs
    simp only [Bool.false_eq_true, if_false]
    cases hf : s.scheds.find? (fun e => e.1 == peer) with
    | none =>
      simp only []
      have hno := find_none hf
      refine ⟨?_, ?_, ?_⟩
      · simpa [List.nodup_cons] using ⟨by simpa using hb, h.statesNodup⟩
      · simp only [List.map_append, List.map_cons, List.map_nil]
        rw [List.nodup_append]
        refine ⟨h.schedsNodup, by simp, ?_⟩
        intro a ha c hc
        have hc' : c = peer := by simpa using hc
        subst hc'
        obtain ⟨e, he, hea⟩ := List.mem_map.mp ha
        have := hno e he
        intro heq
        subst heq
        simp [hea] at this
      · intro p sc b' hm hb'
        rcases List.mem_append.mp hm with hm | hm
        · obtain ⟨st, h1, h2⟩ := h.listed p sc b' hm hb'
          exact ⟨st, List.mem_cons_of_mem _ h1, h2⟩
        · have : (p, sc) = (peer, { hashes := [b] }) := by simpa using hm
          obtain ⟨h1, h2⟩ := Prod.mk.inj this
          subst h1; subst h2
          have : b' = b := by simpa using hb'
          subst this
          exact ⟨_, List.mem_cons_self, rfl⟩
    | some e =>
      obtain ⟨q0, sc0⟩ := e
      simp only []
      refine ⟨?_, ?_, ?_⟩
      · simpa [List.nodup_cons] using ⟨by simpa using hb, h.statesNodup⟩
      · rw [keys_updSched]; exact h.schedsNodup
      · intro p sc b' hm hb'
        dsimp only at hm
        obtain ⟨sc1, hm1, hsc⟩ := mem_updSched hm
        by_cases hb2 : b' ∈ sc1.hashes
        · obtain ⟨st, h1, h2⟩ := h.listed p sc1 b' hm1 hb2
          exact ⟨st, List.mem_cons_of_mem _ h1, h2⟩
        · -- the new entry
          by_cases hp : p = peer
          · rw [if_pos hp] at hsc
            by_cases hc : sc1.hashes.contains b = true
            · rw [if_pos hc] at hsc; subst hsc; exact (hb2 hb').elim
            · rw [if_neg hc] at hsc
              subst hsc
              have : b' = b := by
                rcases List.mem_cons.mp hb' with h | h
                · exact h
                · exact (hb2 h).elim
              subst this
              exact ⟨_, List.mem_cons_self, hp.symm⟩
          · rw [if_neg hp] at hsc; subst hsc; exact (hb2 hb').elim

theorem Inv.removeByPeer {s : Inflight} (h : Inv s) (peer : Nat) :
    Inv (CkbVerif.Inflight.removeByPeer s peer).1 := by
  unfold CkbVerif.Inflight.removeByPeer
  cases hf : s.scheds.find? (fun e => e.1 == peer) with
  | none => exact h
  | some e =>
    obtain ⟨q0, sc0⟩ := e
    obtain ⟨hm0, hq0⟩ := find_mem hf
    have hq : q0 = peer := by simpa using hq0
    subst hq
    simp only []
    refine ⟨nodup_keys_filter h.statesNodup _, nodup_keys_filter h.schedsNodup _, ?_⟩
    intro p sc b hm hb
    simp only [List.mem_filter, bne_iff_ne, ne_eq] at hm
    obtain ⟨st, h1, h2⟩ := h.listed p sc b hm.1 hb
    refine ⟨st, ?_, h2⟩
    simp only [List.mem_filter, Bool.not_eq_true', List.contains_eq_mem, decide_eq_false_iff_not]
    refine ⟨h1, ?_⟩
    intro hin
    obtain ⟨st', h3, h4⟩ := h.listed q0 sc0 b hm0 hin
    have := assoc_unique h.statesNodup h1 h3
    subst this
    exact hm.2 (by simpa using h2.symm.trans h4)

/-- the count adjustments of `remove_by_block` do not touch the block list -/
theorem adj_hashes (sc : Sched) (n : Nat) :
    (sc.increase n).hashes = sc.hashes ∧ (sc.decrease n).hashes = sc.hashes := by
  constructor
  · unfold Sched.increase; split <;> rfl
  · unfold Sched.decrease; simp only []; split <;> rfl

/-- effect of `remove_by_block` on the three components, for a block that is in flight -/
theorem removeByBlock_found {s : Inflight} (now : Nat) {b : Blk} {st : Req}
    (hf : s.states.find? (fun e => e.1 == b) = some (b, st)) :
    (removeByBlock s now b).2 = true ∧
    (removeByBlock s now b).1.states = s.states.filter (fun e => e.1 != b) ∧
    (∀ p sc', (p, sc') ∈ (removeByBlock s now b).1.scheds →
      ∃ sc, (p, sc) ∈ s.scheds ∧
        sc'.hashes = if p = st.peer then sc.hashes.filter (fun x => x != b) else sc.hashes) ∧
    ((removeByBlock s now b).1.scheds.map (·.1) = s.scheds.map (·.1)) := by
  unfold removeByBlock
  simp only [hf]
  cases hsf : s.scheds.find? (fun e => e.1 == st.peer) with
  | none =>
    simp only []
    refine ⟨trivial, trivial, ?_, trivial⟩
    intro p sc' hm
    refine ⟨sc', hm, ?_⟩
    have := find_none hsf _ hm
    have hp : p ≠ st.peer := by simpa using this
    rw [if_neg hp]
  | some e =>
    simp only []
    refine ⟨trivial, trivial, ?_, keys_updSched _ _ _⟩
    intro p sc' hm
    obtain ⟨sc, hm1, hsc⟩ := mem_updSched hm
    refine ⟨sc, hm1, ?_⟩
    by_cases hp : p = st.peer
    · rw [if_pos hp] at hsc
      rw [if_pos hp, hsc]
      split
      · split
        · exact (adj_hashes _ _).1
        · exact (adj_hashes _ _).1
        · split
          · exact (adj_hashes _ _).2
          · rfl
        · split
          · exact (adj_hashes _ _).2
          · rfl
      · rfl
    · rw [if_neg hp] at hsc
      rw [if_neg hp, hsc]

theorem find_state {s : Inflight} {b : Blk} {e : Blk × Req}
    (hf : s.states.find? (fun e => e.1 == b) = some e) : e = (b, e.2) := by
  have := (find_mem hf).2
  have : e.1 = b := by simpa using this
  rw [← this]

theorem Inv.removeByBlock {s : Inflight} (h : Inv s) (now : Nat) (b : Blk) :
    Inv (CkbVerif.Inflight.removeByBlock s now b).1 := by
  cases hf : s.states.find? (fun e => e.1 == b) with
  | none =>
    have : CkbVerif.Inflight.removeByBlock s now b = (s, false) := by
      unfold CkbVerif.Inflight.removeByBlock; simp only [hf]
    rw [this]; exact h
  | some e =>
    have he := find_state hf
    rw [he] at hf
    have hmem := (find_mem hf).1
    obtain ⟨_, a2, a3, a4⟩ := removeByBlock_found now hf
    refine ⟨?_, ?_, ?_⟩
    · rw [a2]; exact nodup_keys_filter h.statesNodup _
    · rw [a4]; exact h.schedsNodup
    · intro p sc' b' hm hb'
      obtain ⟨sc, hm1, hh⟩ := a3 p sc' hm
      rw [a2]
      by_cases hp : p = e.2.peer
      · rw [if_pos hp] at hh
        rw [hh] at hb'
        simp only [List.mem_filter, bne_iff_ne, ne_eq] at hb'
        obtain ⟨st', h1, h2⟩ := h.listed p sc b' hm1 hb'.1
        exact ⟨st', by simp only [List.mem_filter, bne_iff_ne, ne_eq]; exact ⟨h1, hb'.2⟩, h2⟩
      · rw [if_neg hp] at hh
        rw [hh] at hb'
        obtain ⟨st', h1, h2⟩ := h.listed p sc b' hm1 hb'
        refine ⟨st', ?_, h2⟩
        simp only [List.mem_filter, bne_iff_ne, ne_eq]
        refine ⟨h1, ?_⟩
        intro hbb
        subst hbb
        have := assoc_unique h.statesNodup h1 hmem
        subst this
        exact hp h2.symm

theorem Inv.prune {s : Inflight} (h : Inv s) (now tip : Nat) :
    Inv (CkbVerif.Inflight.prune s now tip).1 := by
  unfold CkbVerif.Inflight.prune
  simp only []
  refine ⟨?_, ?_, ?_⟩
  · exact nodup_keys_filter (nodup_keys_filter h.statesNodup _) _
  · rw [keys_dropFromScheds]
    apply nodup_keys_filter
    rw [keys_dropFromScheds]
    exact h.schedsNodup
  · intro p sc3 b hm hb
    obtain ⟨sc2, hm2, h3⟩ := mem_dropFromScheds hm
    have hm1 := (List.mem_filter.mp hm2).1
    obtain ⟨sc, hm0, h1⟩ := mem_dropFromScheds hm1
    obtain ⟨hb2, hng⟩ := (h3 b).mp hb
    obtain ⟨hb0, hne⟩ := (h1 b).mp hb2
    obtain ⟨st, hst, hpeer⟩ := h.listed p sc b hm0 hb0
    have hnot : timedOut now tip (b, st) = false := by
      cases hto : timedOut now tip (b, st) with
      | false => rfl
      | true =>
        exact (hne ⟨(b, st), List.mem_filter.mpr ⟨hst, hto⟩, hpeer, rfl⟩).elim
    have hst1 : (b, st) ∈ s.states.filter (fun e => !timedOut now tip e) :=
      List.mem_filter.mpr ⟨hst, by simp [hnot]⟩
    refine ⟨st, ?_, hpeer⟩
    refine List.mem_filter.mpr ⟨hst1, ?_⟩
    rw [Bool.not_eq_true']
    apply Bool.eq_false_iff.mpr
    intro hany
    exact hng ⟨(b, st), List.mem_filter.mpr ⟨hst1, hany⟩, hpeer, rfl⟩

theorem Inv.markSlow {s : Inflight} (h : Inv s) (now tip : Nat) : Inv (markSlow s now tip) :=
  ⟨h.statesNodup, h.schedsNodup, h.listed⟩

end CkbVerif.Inflight
