import CkbVerif.Model.Frame
/-! Lemmas for the length-delimited codec model (`Model/Frame.lean`, second half). -/
namespace CkbVerif.Frame
open CkbVerif.Gen.Codec

/-! ## one call -/

theorem frameItem_ne_nil (d : Bytes) (i : Item) (h : frameItem d = some i) : 1 ≤ d.length := by
  cases d with
  | nil => simp [frameItem] at h
  | cons b rest => simp

theorem ldData_frame (n : Nat) (src d r : Bytes) (st : DecState) (h : ldData n src = (.frame d, st, r)) :
    st = .head ∧ n ≤ src.length ∧ d = src.take n ∧ r = src.drop n := by
  unfold ldData at h
  split at h
  · simp at h
  · simp only [Prod.mk.injEq, Ld.frame.injEq] at h
    obtain ⟨h1, h2, h3⟩ := h
    exact ⟨h2.symm, by omega, h1.symm, h3.symm⟩

theorem ldData_pending (n : Nat) (src r : Bytes) (st : DecState) (h : ldData n src = (.pending, st, r)) :
    st = .data n ∧ src.length < n ∧ r = src := by
  unfold ldData at h
  split at h
  · simp only [Prod.mk.injEq, true_and] at h
    exact ⟨h.1.symm, by assumption, h.2.symm⟩
  · simp at h

theorem ldData_not_err (n : Nat) (src r : Bytes) (st : DecState) : ldData n src ≠ (.err, st, r) := by
  unfold ldData
  split <;> simp

theorem ldData_append_frame (n : Nat) (src d r c : Bytes) (st : DecState) (h : ldData n src = (.frame d, st, r)) :
    ldData n (src ++ c) = (.frame d, st, r ++ c) := by
  obtain ⟨h1, h2, h3, h4⟩ := ldData_frame n src d r st h
  unfold ldData
  have : ¬ (src ++ c).length < n := by simp; omega
  simp only [this, if_false, h1, h3, h4]
  rw [List.take_append_of_le_length h2, List.drop_append_of_le_length h2]

/-- a frame handed up by the length-delimited layer: its length, and that bytes were consumed -/
theorem ldDecode_frame (m : Nat) (st st' : DecState) (src d r : Bytes) (h : ldDecode m st src = (.frame d, st', r)) :
    st' = .head ∧ d.length + r.length ≤ src.length ∧
    (match st with | .head => d.length ≤ m | .data n => d.length = n) := by
  cases st with
  | head =>
    simp only [ldDecode] at h
    split at h
    · simp at h
    · split at h
      · simp at h
      · rename_i h4 hm
        obtain ⟨h1, h2, h3, h5⟩ := ldData_frame _ _ _ _ _ h
        simp only [List.length_drop] at h2
        refine ⟨h1, ?_, ?_⟩
        · subst h3; subst h5
          simp only [List.length_take, List.length_drop]
          omega
        · subst h3
          simp only [List.length_take, List.length_drop]
          omega
  | data n =>
    simp only [ldDecode] at h
    obtain ⟨h1, h2, h3, h5⟩ := ldData_frame _ _ _ _ _ h
    refine ⟨h1, ?_, ?_⟩
    · subst h3; subst h5
      simp only [List.length_take, List.length_drop]
      omega
    · subst h3
      simp only [List.length_take]
      omega

/-- the answers of one `decode` call, case by case -/
theorem decodeCall_cases (cfg : Cfg) (st : DecState) (src : Bytes) :
    (src = [] ∧ decodeCall cfg st src = (.pending, st, src)) ∨
    (src ≠ [] ∧ ∃ st' r, ldDecode cfg.maxFrame st src = (.pending, st', r) ∧ decodeCall cfg st src = (.pending, st', r)) ∨
    (src ≠ [] ∧ ∃ st' r, ldDecode cfg.maxFrame st src = (.err, st', r) ∧ decodeCall cfg st src = (.err, st', r)) ∨
    (src ≠ [] ∧ ∃ d st' r, ldDecode cfg.maxFrame st src = (.frame d, st', r) ∧ frameItem d = none ∧
      decodeCall cfg st src = (.err, st', r)) ∨
    (src ≠ [] ∧ ∃ d i st' r, ldDecode cfg.maxFrame st src = (.frame d, st', r) ∧ frameItem d = some i ∧
      decodeCall cfg st src = (.item i, st', r)) := by
  cases src with
  | nil => left; simp [decodeCall]
  | cons b rest =>
    right
    have hne : (b :: rest) ≠ [] := by simp
    rcases hl : ldDecode cfg.maxFrame st (b :: rest) with ⟨a, st', r⟩
    cases a with
    | pending => left; exact ⟨hne, st', r, rfl, by simp [decodeCall, hl]⟩
    | err => right; left; exact ⟨hne, st', r, rfl, by simp [decodeCall, hl]⟩
    | frame d =>
      right; right
      cases hf : frameItem d with
      | none => left; exact ⟨hne, d, st', r, rfl, hf, by simp [decodeCall, hl, hf]⟩
      | some i => right; exact ⟨hne, d, i, st', r, rfl, hf, by simp [decodeCall, hl, hf]⟩

theorem decodeCall_item (cfg : Cfg) (st st' : DecState) (src r : Bytes) (i : Item)
    (h : decodeCall cfg st src = (.item i, st', r)) :
    src ≠ [] ∧ ∃ d, ldDecode cfg.maxFrame st src = (.frame d, st', r) ∧ frameItem d = some i := by
  rcases decodeCall_cases cfg st src with ⟨_, h'⟩ | ⟨_, _, _, _, h'⟩ | ⟨_, _, _, _, h'⟩ | ⟨_, _, _, _, _, _, h'⟩ |
      ⟨hne, d, i', st'', r', hl, hf, h'⟩
  all_goals rw [h'] at h
  all_goals simp only [Prod.mk.injEq, reduceCtorEq, false_and] at h
  simp only [Step.item.injEq] at h
  obtain ⟨h1, h2, h3⟩ := h
  subst h1; subst h2; subst h3
  exact ⟨hne, d, hl, hf⟩

/-- every delivered frame consumes at least one byte of the buffer -/
theorem decodeCall_item_shorter (cfg : Cfg) (st st' : DecState) (src r : Bytes) (i : Item)
    (h : decodeCall cfg st src = (.item i, st', r)) : r.length < src.length := by
  obtain ⟨_, d, hl, hf⟩ := decodeCall_item cfg st st' src r i h
  have := frameItem_ne_nil d i hf
  have := (ldDecode_frame _ _ _ _ _ _ hl).2.1
  omega

theorem be32_append (src c : Bytes) (h : HEAD_LEN ≤ src.length) : be32 (src ++ c) = be32 src := by
  match src, h with
  | a :: b :: c' :: d :: rest, _ => simp [be32]

theorem ldDecode_append_frame (m : Nat) (st st' : DecState) (src d r c : Bytes)
    (h : ldDecode m st src = (.frame d, st', r)) : ldDecode m st (src ++ c) = (.frame d, st', r ++ c) := by
  cases st with
  | head =>
    simp only [ldDecode] at h ⊢
    split at h
    · simp at h
    · split at h
      · simp at h
      · rename_i h4 hm
        have h4' : HEAD_LEN ≤ src.length := by omega
        have : ¬ (src ++ c).length < HEAD_LEN := by simp; omega
        simp only [this, if_false, be32_append src c h4', hm]
        rw [List.drop_append_of_le_length h4']
        exact ldData_append_frame _ _ _ _ _ _ h
  | data n =>
    simp only [ldDecode] at h ⊢
    exact ldData_append_frame _ _ _ _ _ _ h

theorem ldDecode_append_err (m : Nat) (st st' : DecState) (src r c : Bytes)
    (h : ldDecode m st src = (.err, st', r)) : ldDecode m st (src ++ c) = (.err, st', r ++ c) := by
  cases st with
  | head =>
    simp only [ldDecode] at h ⊢
    split at h
    · simp at h
    · split at h
      · rename_i h4 hm
        have h4' : HEAD_LEN ≤ src.length := by omega
        have : ¬ (src ++ c).length < HEAD_LEN := by simp; omega
        simp only [this, if_false, be32_append src c h4', hm, if_true]
        simp only [Prod.mk.injEq, true_and] at h
        simp [h.1, ← h.2]
      · exact absurd h (ldData_not_err _ _ _ _)
  | data n =>
    simp only [ldDecode] at h
    exact absurd h (ldData_not_err _ _ _ _)

theorem decodeCall_append_item (cfg : Cfg) (st st' : DecState) (src r c : Bytes) (i : Item)
    (h : decodeCall cfg st src = (.item i, st', r)) : decodeCall cfg st (src ++ c) = (.item i, st', r ++ c) := by
  obtain ⟨hne, d, hl, hf⟩ := decodeCall_item cfg st st' src r i h
  have hl' := ldDecode_append_frame _ _ _ _ _ _ c hl
  have : (src ++ c).isEmpty = false := by
    cases src with
    | nil => exact absurd rfl hne
    | cons => rfl
  simp [decodeCall, this, hl', hf]

theorem decodeCall_append_err (cfg : Cfg) (st st' : DecState) (src r c : Bytes)
    (h : decodeCall cfg st src = (.err, st', r)) : decodeCall cfg st (src ++ c) = (.err, st', r ++ c) := by
  have hemp : ∀ s : Bytes, s ≠ [] → (s ++ c).isEmpty = false := by
    intro s hs
    cases s with
    | nil => exact absurd rfl hs
    | cons => rfl
  rcases decodeCall_cases cfg st src with ⟨_, h'⟩ | ⟨_, _, _, _, h'⟩ | ⟨hne, st1, r1, hl, h'⟩ | ⟨hne, d, st1, r1, hl, hf, h'⟩ |
      ⟨_, _, _, _, _, _, _, h'⟩
  all_goals rw [h'] at h
  all_goals simp only [Prod.mk.injEq, reduceCtorEq, false_and, true_and] at h
  · obtain ⟨h1, h2⟩ := h
    subst h1; subst h2
    simp [decodeCall, hemp src hne, ldDecode_append_err _ _ _ _ _ c hl]
  · obtain ⟨h1, h2⟩ := h
    subst h1; subst h2
    simp [decodeCall, hemp src hne, ldDecode_append_frame _ _ _ _ _ _ c hl, hf]

/-- `Ok(None)`: calling again after more bytes arrived is the same as a fresh call on the old
bytes followed by the new ones — the decoder state carries exactly what was consumed -/
theorem decodeCall_append_pending (cfg : Cfg) (st st' : DecState) (src r c : Bytes)
    (h : decodeCall cfg st src = (.pending, st', r)) :
    decodeCall cfg st (src ++ c) = decodeCall cfg st' (r ++ c) := by
  rcases decodeCall_cases cfg st src with ⟨he, h'⟩ | ⟨hne, st1, r1, hl, h'⟩ | ⟨_, _, _, _, h'⟩ | ⟨_, _, _, _, _, _, h'⟩ |
      ⟨_, _, _, _, _, _, _, h'⟩
  all_goals rw [h'] at h
  all_goals simp only [Prod.mk.injEq, reduceCtorEq, false_and, true_and] at h
  · obtain ⟨h1, h2⟩ := h
    subst h1; subst h2; rfl
  · obtain ⟨h1, h2⟩ := h
    subst h1; subst h2
    cases st with
    | data n =>
      simp only [ldDecode] at hl
      obtain ⟨e1, _, e2⟩ := ldData_pending _ _ _ _ hl
      subst e1; subst e2; rfl
    | head =>
      simp only [ldDecode] at hl
      split at hl
      · simp only [Prod.mk.injEq, true_and] at hl
        rw [← hl.1, ← hl.2]
      · rename_i h4
        split at hl
        · simp at hl
        · rename_i hm
          obtain ⟨e1, e2, e3⟩ := ldData_pending _ _ _ _ hl
          subst e1; subst e3
          have h4' : HEAD_LEN ≤ src.length := by omega
          have hemp : (src ++ c).isEmpty = false := by
            cases src with
            | nil => exact absurd rfl hne
            | cons => rfl
          have hnl : ¬ (src ++ c).length < HEAD_LEN := by simp; omega
          have lhs : decodeCall cfg .head (src ++ c) =
              (match ldData (be32 src) (src.drop HEAD_LEN ++ c) with
               | (.pending, st', r) => (.pending, st', r)
               | (.err, st', r) => (.err, st', r)
               | (.frame d, st', r) =>
                 match frameItem d with
                 | none => (.err, st', r)
                 | some i => (.item i, st', r)) := by
            simp only [decodeCall, hemp, ldDecode, hnl, if_false, be32_append src c h4', hm,
              List.drop_append_of_le_length h4', Bool.false_eq_true]
            rfl
          rw [lhs]
          cases hx : (src.drop HEAD_LEN ++ c) with
          | nil =>
            have hlen : (src.drop HEAD_LEN).length = 0 := by
              have := congrArg List.length hx
              simp only [List.length_append, List.length_nil] at this
              omega
            have hpos : 0 < be32 src := by omega
            simp [decodeCall, ldData, hpos]
          | cons x xs =>
            simp only [decodeCall, List.isEmpty_cons, Bool.false_eq_true, if_false, ldDecode]
            rfl

/-! ## the read loop -/

theorem drainF_fuel (cfg : Cfg) (f1 f2 : Nat) (st : DecState) (src : Bytes) (h1 : src.length < f1) (h2 : src.length < f2) :
    drainF cfg f1 st src = drainF cfg f2 st src := by
  induction f1 generalizing f2 st src with
  | zero => omega
  | succ f1 ih =>
    cases f2 with
    | zero => omega
    | succ f2 =>
      simp only [drainF]
      rcases hd : decodeCall cfg st src with ⟨a, st', r⟩
      cases a with
      | pending => rfl
      | err => rfl
      | item i =>
        have := decodeCall_item_shorter cfg st st' src r i hd
        simp only
        rw [ih f2 st' r (by omega) (by omega)]

/-- two buffers on which the next `decode` call answers the same are drained the same way -/
theorem drainF_congr_first (cfg : Cfg) (fa fb : Nat) (sa sb : DecState) (a b : Bytes)
    (h : decodeCall cfg sa a = decodeCall cfg sb b) (ha : a.length < fa) (hb : b.length < fb) :
    drainF cfg fa sa a = drainF cfg fb sb b := by
  cases fa with
  | zero => omega
  | succ fa =>
    cases fb with
    | zero => omega
    | succ fb =>
      simp only [drainF]
      rw [← h]
      rcases hd : decodeCall cfg sa a with ⟨x, st', r⟩
      cases x with
      | pending => rfl
      | err => rfl
      | item i =>
        have h1 := decodeCall_item_shorter cfg sa st' a r i hd
        have h2 := decodeCall_item_shorter cfg sb st' b r i (h ▸ hd)
        simp only
        rw [drainF_fuel cfg fa fb st' r (by omega) (by omega)]

theorem drainF_append (cfg : Cfg) (c : Bytes) (f : Nat) :
    ∀ (st : DecState) (src : Bytes) (f' : Nat) (is : List Item) (e : End),
      src.length < f → (src ++ c).length < f' → drainF cfg f st src = (is, e) →
      match e with
      | .err => drainF cfg f' st (src ++ c) = (is, .err)
      | .pending st' r => drainF cfg f' st (src ++ c) = (is ++ (drain cfg st' (r ++ c)).1, (drain cfg st' (r ++ c)).2) := by
  induction f with
  | zero => intro st src f' is e h; omega
  | succ f ih =>
    intro st src f' is e hf hf' hd
    simp only [drainF] at hd
    rcases hc : decodeCall cfg st src with ⟨a, st1, r1⟩
    rw [hc] at hd
    cases a with
    | pending =>
      simp only [Prod.mk.injEq] at hd
      obtain ⟨e1, e2⟩ := hd
      subst e1; subst e2
      simp only [List.nil_append]
      have := decodeCall_append_pending cfg st st1 src r1 c hc
      exact drainF_congr_first cfg f' _ st st1 (src ++ c) (r1 ++ c) this hf' (by omega)
    | err =>
      simp only [Prod.mk.injEq] at hd
      obtain ⟨e1, e2⟩ := hd
      subst e1; subst e2
      have := decodeCall_append_err cfg st st1 src r1 c hc
      cases f' with
      | zero => omega
      | succ f' => simp [drainF, this]
    | item i =>
      have hsh := decodeCall_item_shorter cfg st st1 src r1 i hc
      have happ := decodeCall_append_item cfg st st1 src r1 c i hc
      rcases hrec : drainF cfg f st1 r1 with ⟨is', e'⟩
      simp only [hrec, Prod.mk.injEq] at hd
      obtain ⟨e1, e2⟩ := hd
      subst e1; subst e2
      cases f' with
      | zero => omega
      | succ f' =>
        have hlen : (r1 ++ c).length < f' := by
          simp only [List.length_append] at hf' ⊢
          omega
        have := ih st1 r1 f' is' e' (by omega) hlen hrec
        cases e' with
        | err =>
          simp only at this ⊢
          simp [drainF, happ, this]
        | pending st' r =>
          simp only at this ⊢
          simp [drainF, happ, this]

theorem drain_append_pending (cfg : Cfg) (st st' : DecState) (src r c : Bytes) (is : List Item)
    (h : drain cfg st src = (is, .pending st' r)) :
    drain cfg st (src ++ c) = (is ++ (drain cfg st' (r ++ c)).1, (drain cfg st' (r ++ c)).2) :=
  drainF_append cfg c (src.length + 1) st src ((src ++ c).length + 1) is (.pending st' r) (by omega) (by omega) h

theorem drain_append_err (cfg : Cfg) (st : DecState) (src c : Bytes) (is : List Item)
    (h : drain cfg st src = (is, .err)) : drain cfg st (src ++ c) = (is, .err) :=
  drainF_append cfg c (src.length + 1) st src ((src ++ c).length + 1) is .err (by omega) (by omega) h

theorem feedAll_err (cfg : Cfg) (c : Conn) (chunks : List Bytes) (h : c.state = .err) : feedAll cfg c chunks = c := by
  induction chunks with
  | nil => rfl
  | cons x xs ih =>
    simp only [feedAll, List.foldl_cons] at ih ⊢
    have : feed cfg c x = c := by simp [feed, h]
    rw [this]; exact ih

/-- feeding chunk after chunk = feeding the concatenation at once -/
theorem feedAll_eq_feed_flatten (cfg : Cfg) (c : Conn) (chunks : List Bytes) :
    feedAll cfg c chunks = feed cfg c chunks.flatten ∨ (chunks = [] ∧ feedAll cfg c chunks = c) := by
  induction chunks generalizing c with
  | nil => right; exact ⟨rfl, rfl⟩
  | cons x xs ih =>
    left
    obtain ⟨items, state⟩ := c
    cases state with
    | err =>
      rw [feedAll_err cfg _ _ rfl]
      simp [feed]
    | pending st buf =>
      have hstep : feedAll cfg ⟨items, .pending st buf⟩ (x :: xs) = feedAll cfg (feed cfg ⟨items, .pending st buf⟩ x) xs := by
        simp [feedAll]
      rw [hstep]
      rcases hd : drain cfg st (buf ++ x) with ⟨is, e⟩
      have hfx : feed cfg ⟨items, .pending st buf⟩ x = ⟨items ++ is, e⟩ := by simp [feed, hd]
      rw [hfx]
      cases e with
      | err =>
        rw [feedAll_err cfg _ _ rfl]
        have := drain_append_err cfg st (buf ++ x) xs.flatten is hd
        simp only [List.append_assoc] at this
        simp [feed, this]
      | pending st' r =>
        have happ := drain_append_pending cfg st st' (buf ++ x) r xs.flatten is hd
        simp only [List.append_assoc] at happ
        rcases ih ⟨items ++ is, .pending st' r⟩ with h1 | ⟨h1, h2⟩
        · rw [h1]
          simp [feed, happ]
        · subst h1
          rw [h2]
          simp only [List.flatten_cons, List.flatten_nil, List.append_nil]
          simp [feed, hd]

theorem feed_nil_init (cfg : Cfg) : feed cfg Conn.init [] = Conn.init := by
  simp [feed, Conn.init, drain, drainF, decodeCall]

/-! ## bounds -/

/-- the decoder state never waits for more than `max_frame_length` bytes -/
def stOk (cfg : Cfg) : DecState → Prop
  | .head => True
  | .data n => n ≤ cfg.maxFrame

def endOk (cfg : Cfg) : End → Prop
  | .err => True
  | .pending st _ => stOk cfg st

/-- what `decode` may hand to the protocol handler for this item -/
def itemBounded (cfg : Cfg) : Item → Prop
  | .raw p => p.length + 1 ≤ cfg.maxFrame
  | .snappy n _ => n ≤ MAX_UNCOMPRESSED_LEN

theorem frameItem_bounded (cfg : Cfg) (d : Bytes) (i : Item) (h : frameItem d = some i) (hd : d.length ≤ cfg.maxFrame) :
    itemBounded cfg i := by
  unfold frameItem at h
  split at h
  · simp at h
  · cases d with
    | nil => simp at h
    | cons b rest =>
      simp only at h
      split at h
      · split at h
        · split at h
          · simp at h
          · rename_i hn
            simp only [Option.some.injEq] at h
            subst h
            simp only [itemBounded]; omega
        · simp at h
      · simp only [Option.some.injEq] at h
        subst h
        simpa [itemBounded] using hd

theorem ldDecode_pending_ok (cfg : Cfg) (st st' : DecState) (src r : Bytes) (hs : stOk cfg st)
    (h : ldDecode cfg.maxFrame st src = (.pending, st', r)) : stOk cfg st' := by
  cases st with
  | data n =>
    simp only [ldDecode] at h
    obtain ⟨e, _, _⟩ := ldData_pending _ _ _ _ h
    subst e; exact hs
  | head =>
    simp only [ldDecode] at h
    split at h
    · simp only [Prod.mk.injEq, true_and] at h
      rw [← h.1]; trivial
    · split at h
      · simp at h
      · rename_i hm
        obtain ⟨e, _, _⟩ := ldData_pending _ _ _ _ h
        subst e
        simp only [stOk]; omega

theorem drainF_bounded (cfg : Cfg) (f : Nat) (st : DecState) (src : Bytes) (hs : stOk cfg st) :
    (∀ i ∈ (drainF cfg f st src).1, itemBounded cfg i) ∧ endOk cfg (drainF cfg f st src).2 := by
  induction f generalizing st src with
  | zero => simp [drainF, endOk, hs]
  | succ f ih =>
    simp only [drainF]
    rcases decodeCall_cases cfg st src with ⟨_, h'⟩ | ⟨_, st1, r1, hl, h'⟩ | ⟨_, _, _, _, h'⟩ | ⟨_, _, _, _, _, _, h'⟩ |
        ⟨_, d, i, st1, r1, hl, hf, h'⟩
    · rw [h']; simp [endOk, hs]
    · rw [h']; simp [endOk, ldDecode_pending_ok cfg st st1 src r1 hs hl]
    · rw [h']; simp [endOk]
    · rw [h']; simp [endOk]
    · rw [h']
      obtain ⟨e1, _, e3⟩ := ldDecode_frame _ _ _ _ _ _ hl
      subst e1
      have hdl : d.length ≤ cfg.maxFrame := by
        cases st with
        | head => simpa using e3
        | data n =>
          simp only at e3
          simp only [stOk] at hs
          omega
      have hb := frameItem_bounded cfg d i hf hdl
      have := ih .head r1 trivial
      simp only [List.mem_cons, forall_eq_or_imp]
      exact ⟨⟨hb, this.1⟩, this.2⟩

def connOk (cfg : Cfg) (c : Conn) : Prop := (∀ i ∈ c.items, itemBounded cfg i) ∧ endOk cfg c.state

theorem feed_ok (cfg : Cfg) (c : Conn) (chunk : Bytes) (h : connOk cfg c) : connOk cfg (feed cfg c chunk) := by
  obtain ⟨items, state⟩ := c
  cases state with
  | err => simpa [feed] using h
  | pending st buf =>
    have := drainF_bounded cfg ((buf ++ chunk).length + 1) st (buf ++ chunk) h.2
    rcases hd : drain cfg st (buf ++ chunk) with ⟨is, e⟩
    unfold drain at hd
    rw [hd] at this
    simp only [feed, drain, hd, connOk, List.mem_append]
    refine ⟨?_, this.2⟩
    rintro i (hi | hi)
    · exact h.1 i hi
    · exact this.1 i hi

theorem feedAll_ok (cfg : Cfg) (c : Conn) (chunks : List Bytes) (h : connOk cfg c) : connOk cfg (feedAll cfg c chunks) := by
  induction chunks generalizing c with
  | nil => exact h
  | cons x xs ih =>
    simp only [feedAll, List.foldl_cons]
    exact ih _ (feed_ok cfg c x h)

theorem fitTo_length (n : Nat) (out : Bytes) : (fitTo n out).length = n := by
  simp only [fitTo, List.length_take, List.length_append, List.length_replicate]
  omega

theorem fitTo_self (out : Bytes) : fitTo out.length out = out := by
  simp [fitTo]

theorem finish_bounded (snap : Bytes → Option Bytes) (cfg : Cfg) (i : Item) (out : Bytes)
    (hb : itemBounded cfg i) (h : finish snap i = some out) :
    out.length ≤ MAX_UNCOMPRESSED_LEN ∨ out.length + 1 ≤ cfg.maxFrame := by
  cases i with
  | raw p =>
    simp only [finish, Option.some.injEq] at h
    subst h
    right; exact hb
  | snappy n body =>
    simp only [finish, Option.map_eq_some_iff] at h
    obtain ⟨o, _, ho⟩ := h
    subst ho
    left
    rw [fitTo_length]
    exact hb

/-! ## the head -/

theorem be32_enc (n : Nat) (rest : Bytes) (h : n < 4294967296) : be32 (be32enc n ++ rest) = n := by
  simp only [be32enc, be32, List.cons_append, List.nil_append, UInt8.toNat_ofNat']
  omega

end CkbVerif.Frame
