import CkbVerif.Lemmas.HashProof
/-!
# CBMT proofs (C15): completeness of `build_merkle_proof` → `retrieve_leaves` → `root`

Every non-empty list of DISTINCT in-range leaf indices (in any order) over every non-empty leaf list gives a proof;
`retrieve_leaves` accepts it and returns the selected leaves (sorted by value); `root` on those leaves returns
`build_merkle_root(leaves)`.
-/
namespace CkbVerif.Hash

section
variable {α : Type}

theorem zip_map_self (g : Nat → α) : ∀ l : List Nat, l.zip (l.map g) = l.map (fun i => (i, g i))
  | [] => rfl
  | x :: xs => by simp [zip_map_self g xs]

theorem pFuel_map (g : Nat → α) (q : List Nat) : pFuel (q.map fun i => (i, g i)) = qSum q + 1 := by
  unfold pFuel qSum
  rw [List.map_map]
  rfl

theorem qFuel_eq (q : List Nat) : qFuel q = qSum q + 1 := rfl

theorem shr_one (x : Nat) : x >>> 1 = x / 2 := by rw [Nat.shiftRight_eq_div_pow]
theorem shl_one (x : Nat) : x <<< 1 = 2 * x := by rw [Nat.shiftLeft_eq]; omega

variable (le : α → α → Bool)
  (htot : ∀ a b : α, le a b = true ∨ le b a = true) (htrans : ∀ a b c : α, le a b = true → le b c = true → le a c = true)
  (merge : α → α → α) (zero : α)

/-- the queue `build_proof` starts from -/
def startQueue (n : Nat) (idx : List Nat) : List Nat := sortBy leRev id (idx.map (fun i => n + i - 1))

theorem startQueue_mem {n : Nat} {idx : List Nat} (hn : 0 < n) (hr : ∀ i ∈ idx, i < n) :
    ∀ a ∈ startQueue n idx, n - 1 ≤ a ∧ a ≤ 2 * (n - 1) := by
  intro a ha
  rw [startQueue, mem_sortBy, List.mem_map] at ha
  obtain ⟨i, hi, rfl⟩ := ha
  have := hr i hi
  omega

theorem startQueue_strict {n : Nat} {idx : List Nat} (hn : 0 < n) (hnd : idx.Nodup) :
    (startQueue n idx).Pairwise (· > ·) := by
  apply sortBy_leRev_strict
  exact List.Pairwise.map _ (fun a b (hab : a ≠ b) => by show n + a - 1 ≠ n + b - 1; omega) hnd

theorem startQueue_inv {n : Nat} {idx : List Nat} (hn : 2 ≤ n) (hnd : idx.Nodup) (hr : ∀ i ∈ idx, i < n) :
    QInv (n - 1) (startQueue n idx) := by
  refine ⟨startQueue_strict (by omega) hnd, ?_, ?_⟩
  · intro a ha
    have := startQueue_mem (by omega) hr a ha
    omega
  · intro a ha b hb
    have h1 := startQueue_mem (by omega) hr a ha
    have h2 := startQueue_mem (by omega) hr b hb
    omega

include htot htrans in
/-- **completeness, in full**: for every non-empty leaf list and every non-empty list of distinct in-range leaf
indices, `CBMT::build_merkle_proof` returns a proof `p` (no `None`, the assertion does not fire) whose indices are a
permutation of the leaf positions `n - 1 + i`; `CBMT::retrieve_leaves(leaves, p)` returns the selected leaves; and
`p.root(those leaves)` is `Some(build_merkle_root(leaves))`. -/
theorem buildMerkleProof_complete (leaves : List α) (idx : List Nat)
    (hne : leaves ≠ []) (hidx : idx ≠ []) (hnd : idx.Nodup) (hr : ∀ i ∈ idx, i < leaves.length) :
    ∃ p : MProof α, buildMerkleProof le merge zero leaves idx = .some p ∧
      p.indices.Perm (idx.map (fun i => leaves.length + i - 1)) ∧
      retrieveLeaves zero leaves p = some (p.indices.map fun i => leaves.getD (i + 1 - leaves.length) zero) ∧
      proofRoot le merge p (p.indices.map fun i => leaves.getD (i + 1 - leaves.length) zero)
        = some (cbmtRoot merge zero leaves) := by
  have hn : 0 < leaves.length := List.length_pos_iff.mpr hne
  let n := leaves.length
  let nodes := buildTree merge zero leaves
  let nd := nodeAt merge zero leaves
  have hlen : nodes.length = 2 * n - 1 := buildTree_length merge zero leaves hne
  have hnodes : ∀ i, i ≤ 2 * (n - 1) → nodes.getD i zero = nd i := fun i hi =>
    buildTree_getD merge zero leaves hne i (by omega)
  have hlc : (nodes.length >>> 1) + 1 = n := by rw [hlen, shr_one]; omega
  let q := startQueue n idx
  have hqmem := startQueue_mem (idx := idx) hn hr
  have hqne : q ≠ [] := by
    intro h
    have : q.length = idx.length := by simp [q, startQueue, sortBy_length]
    rw [h] at this
    cases idx <;> simp_all
  have hqstrict : q.Pairwise (· > ·) := startQueue_strict hn hnd
  let J := sortBy le (fun i => nodes.getD i zero) q
  have hJperm : J.Perm q := sortBy_perm _ _ _
  have hJmem : ∀ a ∈ J, n - 1 ≤ a ∧ a ≤ 2 * (n - 1) := fun a ha => hqmem a (hJperm.mem_iff.mp ha)
  have hleaf : ∀ a ∈ J, leaves.getD (a + 1 - n) zero = nd a := by
    intro a ha
    have := hJmem a ha
    show _ = nodeAt merge zero leaves a
    rw [nodeAt_leaf merge zero leaves a (by omega)]
    congr 1
    omega
  have hLeq : (J.map fun i => leaves.getD (i + 1 - n) zero) = J.map nd := List.map_congr_left hleaf
  -- the loops
  have hloops : ∃ lem, buildLoop zero nodes (qFuel q) q = some lem ∧
      rootLoop merge (pFuel (q.map fun i => (i, nd i))) (q.map fun i => (i, nd i)) lem = some (nd 0) := by
    rw [pFuel_map, qFuel_eq]
    by_cases h2 : 2 ≤ n
    · have ht : TreeEq merge (n - 1) nd := fun p hp => nodeAt_inner merge zero leaves p hp
      exact loops_agree merge zero ht nodes hnodes _ _ q (startQueue_inv h2 hnd hr) hqne (by omega) (by omega)
    · -- one leaf: the only index list is [0]
      have hn1 : n = 1 := by omega
      have hq0 : ∀ a ∈ q, a = 0 := fun a ha => by have := hqmem a ha; omega
      have hq : q = [0] := by
        cases hq' : q with
        | nil => exact absurd hq' hqne
        | cons a r =>
          cases r with
          | nil => rw [hq0 a (by rw [hq']; simp)]
          | cons b r' =>
            rw [hq'] at hqstrict hq0
            have := (List.pairwise_cons.mp hqstrict).1 b (by simp)
            have ha := hq0 a (by simp)
            have hb := hq0 b (by simp)
            omega
      rw [hq]
      refine ⟨[], by simp [buildLoop], by simp [rootLoop]⟩
  obtain ⟨lem, hb, hroot⟩ := hloops
  refine ⟨{ indices := J, lemmas := lem }, ?_, ?_, ?_, ?_⟩
  · -- build_proof
    unfold buildMerkleProof buildProof
    have e1 : (buildTree merge zero leaves).isEmpty = false := by
      rw [List.isEmpty_eq_false_iff]; intro h; have := hlen; simp only [nodes] at this; rw [h] at this; simp at this; omega
    have e2 : idx.isEmpty = false := by rw [List.isEmpty_eq_false_iff]; exact hidx
    simp only [e1, e2, Bool.or_self, Bool.false_eq_true, if_false]
    show (if (startQueue ((nodes.length >>> 1) + 1) idx).headD 0 ≥ (((nodes.length >>> 1) + 1) <<< 1) - 1 then _ else _) = _
    rw [hlc, shl_one]
    have hhead : ¬ (q.headD 0 ≥ 2 * n - 1) := by
      cases hq' : q with
      | nil => exact absurd hq' hqne
      | cons a r =>
        have := hqmem a (by show a ∈ q; rw [hq']; simp)
        simp only [List.headD_cons]; omega
    rw [if_neg hhead]
    show (match buildLoop zero nodes (qFuel q) q with | Option.none => _ | Option.some lemmas => _) = _
    rw [hb]
    rfl
  · exact hJperm.trans (sortBy_perm _ _ _)
  · -- retrieve_leaves
    unfold retrieveLeaves
    have e1 : leaves.isEmpty = false := by rw [List.isEmpty_eq_false_iff]; exact hne
    have e2 : J.isEmpty = false := by
      rw [List.isEmpty_eq_false_iff]; intro h; exact hqne (by have := hJperm.length_eq; rw [h] at this; exact List.length_eq_zero_iff.mp this.symm)
    simp only [e1, e2, Bool.or_self, Bool.false_eq_true, if_false]
    have hall : (J.all fun i => Nat.ble (leaves.length - 1) i && Nat.blt i ((leaves.length <<< 1) - 1)) = true := by
      rw [List.all_eq_true]
      intro a ha
      have := hJmem a ha
      rw [shl_one]
      simp only [Bool.and_eq_true, Nat.ble_eq, Nat.blt_eq]
      omega
    rw [if_pos hall]
  · -- root
    show proofRoot le merge { indices := J, lemmas := lem } (J.map fun i => leaves.getD (i + 1 - n) zero) = _
    rw [hLeq]
    unfold proofRoot
    have hJne : J ≠ [] := by
      intro h; exact hqne (by have := hJperm.length_eq; rw [h] at this; exact List.length_eq_zero_iff.mp this.symm)
    have e1 : ((J.map nd).length != J.length || (J.map nd).isEmpty) = false := by
      simp [hJne]
    rw [if_neg (by rw [e1]; simp)]
    -- `pre`
    have hsorted : sortBy le id (J.map nd) = J.map nd := by
      apply sortBy_of_pairwise
      rw [List.pairwise_map]
      have := sortBy_pairwise le (fun i => nodes.getD i zero) htot htrans q
      refine List.Pairwise.imp_of_mem ?_ this
      intro a b ha hb h
      have h1 := hnodes a (hJmem a ha).2
      have h2 := hnodes b (hJmem b hb).2
      simp only [id]
      rw [← h1, ← h2]
      exact h
    have hpre : proofPre le { indices := J, lemmas := lem } (J.map nd) = q.map fun i => (i, nd i) := by
      unfold proofPre
      simp only []
      rw [hsorted, zip_map_self, sortBy_map]
      have : (fun d : Nat => Prod.fst ((fun i => (i, nd i)) d)) = id := rfl
      rw [this, sortBy_leRev_of_perm J q hqstrict hJperm]
    rw [hpre]
    simp only []
    rw [hroot, cbmtRoot_eq_nodeAt merge zero leaves hne]

end

end CkbVerif.Hash
