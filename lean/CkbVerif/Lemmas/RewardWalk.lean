import CkbVerif.Lemmas.Reward

/-! Completeness of the proposal-reward walk (C06): `paidList = specPaid`. Core Lean only. -/
namespace CkbVerif.Reward

theorem filterMap_congr' {α β : Type} {f g : α → Option β} {l : List α}
    (h : ∀ x ∈ l, f x = g x) : l.filterMap f = l.filterMap g := by
  induction l with
  | nil => rfl
  | cons a l ih =>
    have ha := h a (by simp)
    have ih' := ih (fun x hx => h x (by simp [hx]))
    simp only [List.filterMap_cons, ha, ih']

/-- the selection both the code's loop and the specification make among one block's commits -/
def pick (at_ : Nat) (inT : Nat → Bool) (excluded : Nat → Bool) (cf : Nat × Nat) : Option Paid :=
  if inT cf.1 && !(excluded cf.1) then some ⟨at_, cf.1, cf.2⟩ else none

theorem payLoop_eq (check : Bool) (proposed : List Nat) (at_ : Nat) (cs : List (Nat × Nat))
    (targets : List Nat) (hnd : (cs.map Prod.fst).Nodup) :
    (payLoop check proposed at_ cs targets).2 =
      cs.filterMap (pick at_ (fun x => targets.contains x) (fun x => check && proposed.contains x)) ∧
    ∀ x, x ∈ (payLoop check proposed at_ cs targets).1 ↔ x ∈ targets ∧ x ∉ cs.map Prod.fst := by
  induction cs generalizing targets with
  | nil => simp [payLoop]
  | cons c cs ih =>
    obtain ⟨id, fee⟩ := c
    simp only [List.map_cons, List.nodup_cons] at hnd
    obtain ⟨hid, hnd'⟩ := hnd
    unfold payLoop
    by_cases hc : targets.contains id = true
    · obtain ⟨ih1, ih2⟩ := ih (targets.filter (· != id)) hnd'
      have hcongr : cs.filterMap (pick at_ (fun x => (targets.filter (· != id)).contains x)
            (fun x => check && proposed.contains x)) =
          cs.filterMap (pick at_ (fun x => targets.contains x) (fun x => check && proposed.contains x)) := by
        apply filterMap_congr'
        intro cf hcf
        have hne : cf.1 ≠ id := by
          intro e; apply hid; rw [← e]; exact List.mem_map_of_mem (f := Prod.fst) hcf
        have : (targets.filter (· != id)).contains cf.1 = targets.contains cf.1 := by
          rw [Bool.eq_iff_iff]; simp [List.mem_filter, hne]
        simp only [pick, this]
      have hmem : ∀ x, x ∈ (payLoop check proposed at_ cs (targets.filter (· != id))).1 ↔
          x ∈ targets ∧ x ∉ (id :: cs.map Prod.fst) := by
        intro x; rw [ih2 x]; simp [List.mem_filter]; constructor
        · rintro ⟨⟨a, b⟩, c⟩; exact ⟨a, b, c⟩
        · rintro ⟨a, b, c⟩; exact ⟨⟨a, b⟩, c⟩
      simp only [hc, if_true]
      by_cases hp : (check && proposed.contains id) = true
      · simp only [hp, if_true]
        refine ⟨?_, hmem⟩
        have hhead : pick at_ (fun x => targets.contains x) (fun x => check && proposed.contains x)
            (id, fee) = none := by simp only [pick, hc, hp]; rfl
        rw [ih1, hcongr, List.filterMap_cons, hhead]
      · simp only [hp]
        refine ⟨?_, hmem⟩
        simp only [Bool.false_eq_true, if_false]
        simp only [Bool.not_eq_true] at hp
        have hhead : pick at_ (fun x => targets.contains x) (fun x => check && proposed.contains x)
            (id, fee) = some ⟨at_, id, fee⟩ := by simp only [pick, hc, hp]; rfl
        rw [ih1, hcongr, List.filterMap_cons, hhead]
    · obtain ⟨ih1, ih2⟩ := ih targets hnd'
      simp only [Bool.not_eq_true] at hc
      simp only [hc, Bool.false_eq_true, if_false]
      refine ⟨?_, ?_⟩
      · have hhead : pick at_ (fun x => targets.contains x) (fun x => check && proposed.contains x)
            (id, fee) = none := by simp only [pick, hc]; rfl
        rw [ih1, List.filterMap_cons, hhead]
      · intro x
        rw [ih2 x]
        simp only [List.map_cons, List.mem_cons, not_or]
        constructor
        · rintro ⟨a, b⟩
          refine ⟨a, ?_, b⟩
          intro e; subst e
          have : targets.contains x = true := by simpa using a
          rw [hc] at this; cases this
        · rintro ⟨a, _, b⟩; exact ⟨a, b⟩

theorem zip_fst_nodup (l₁ l₂ : List Nat) (h : l₁.Nodup) : ((l₁.zip l₂).map Prod.fst).Nodup := by
  induction l₁ generalizing l₂ with
  | nil => simp
  | cons a l₁ ih =>
    cases l₂ with
    | nil => simp
    | cons b l₂ =>
      simp only [List.nodup_cons] at h
      simp only [List.zip_cons_cons, List.map_cons, List.nodup_cons]
      refine ⟨?_, ih l₂ h.2⟩
      intro hm
      obtain ⟨cf, hcf, rfl⟩ := List.mem_map.1 hm
      exact h.1 (List.of_mem_zip hcf).1

theorem zip_fst_mem {l₁ l₂ : List Nat} {x : Nat} (h : x ∈ (l₁.zip l₂).map Prod.fst) : x ∈ l₁ := by
  obtain ⟨cf, hcf, rfl⟩ := List.mem_map.1 h
  exact (List.of_mem_zip hcf).1

theorem payBlock_eq (check : Bool) (proposed : List Nat) (at_ : Nat) (b : Blk) (targets : List Nat)
    (hnd : b.commitIds.Nodup) :
    (payBlock check proposed at_ b targets).2 =
      (b.commitIds.zip b.fees).filterMap
        (pick at_ (fun x => targets.contains x) (fun x => check && proposed.contains x)) ∧
    ∀ x, x ∈ (payBlock check proposed at_ b targets).1 ↔
      x ∈ targets ∧ x ∉ (b.commitIds.zip b.fees).map Prod.fst := by
  unfold payBlock
  by_cases h : (targets.any fun x => b.commitIds.contains x) = true
  · simp only [h, if_true]
    exact payLoop_eq _ _ _ _ _ (zip_fst_nodup _ _ hnd)
  · simp only [h]
    simp only [Bool.false_eq_true, if_false]
    have hno : ∀ x ∈ targets, x ∉ b.commitIds := by
      intro x hx hm
      apply h
      rw [List.any_eq_true]
      exact ⟨x, hx, by simpa using hm⟩
    refine ⟨?_, ?_⟩
    · symm
      rw [List.filterMap_eq_nil_iff]
      intro cf hcf
      have hm : cf.1 ∈ b.commitIds := (List.of_mem_zip (a := cf.1) (b := cf.2) hcf).1
      have : targets.contains cf.1 = false := by
        rw [Bool.eq_false_iff]; intro hc; exact hno cf.1 (by simpa using hc) hm
      simp only [pick, this]; rfl
    · intro x
      constructor
      · intro hx; exact ⟨hx, fun hm => hno x hx (zip_fst_mem hm)⟩
      · exact fun hx => hx.1

theorem proposedIn_iff (chain : List Blk) (lo hi id : Nat) :
    proposedIn chain lo hi id = true ↔ ∃ q, lo ≤ q ∧ q < hi ∧ id ∈ (blkAt chain q).props := by
  unfold proposedIn
  rw [List.any_eq_true]
  constructor
  · rintro ⟨q, hq, hc⟩
    rw [List.mem_range'_1] at hq
    exact ⟨q, hq.1, by omega, by simpa using hc⟩
  · rintro ⟨q, h1, h2, h3⟩
    exact ⟨q, by rw [List.mem_range'_1]; omega, by simpa using h3⟩

/-- the backwards walk from index `n` pays exactly the specified commits of blocks `ccs .. n-1` -/
theorem walk_eq_spec (w : Win) (chain : List Blk) (t : Nat) (ht : 2 ≤ t)
    (hnd : ∀ c, t + w.close ≤ c → c ≤ t + w.far → (blkAt chain c).commitIds.Nodup)
    (hdisj : ∀ c₁ c₂, t + w.close ≤ c₁ → c₁ < c₂ → c₂ ≤ t + w.far →
      ∀ id ∈ (blkAt chain c₁).commitIds, id ∉ (blkAt chain c₂).commitIds)
    (n : Nat) (hn : n ≤ t + w.far) (T proposed : List Nat)
    (hT : ∀ c, t + w.close ≤ c → c < n → ∀ id ∈ (blkAt chain c).commitIds,
      (id ∈ T ↔ id ∈ (blkAt chain t).props))
    (hP : ∀ x, x ∈ proposed ↔
      ∃ i, n ≤ i ∧ i < t + w.far ∧ x ∈ (blkAt chain (max (i - w.far) 1)).props) :
    walk w chain (t + w.close) n T proposed =
      (List.range' (t + w.close) (n - (t + w.close))).reverse.flatMap (specPaidAt w chain t) := by
  induction n generalizing T proposed with
  | zero => simp [walk]
  | succ n ih =>
    unfold walk
    by_cases hgt : n + 1 > t + w.close
    · have hrange : List.range' (t + w.close) (n + 1 - (t + w.close)) =
          List.range' (t + w.close) (n - (t + w.close)) ++ [n] := by
        have e : n + 1 - (t + w.close) = (n - (t + w.close)) + 1 := by omega
        rw [e, List.range'_concat]
        congr 2; omega
      rw [hrange, List.reverse_append, List.reverse_singleton, List.singleton_append, List.flatMap_cons]
      by_cases hTe : T.isEmpty = true
      · -- no target left: nothing more is paid, and nothing more is specified
        have hTnil : T = [] := by simpa using hTe
        simp only [hTe, Bool.not_true, Bool.false_eq_true, and_false, if_false]
        symm
        rw [List.append_eq_nil_iff]
        have hnone : ∀ c, t + w.close ≤ c → c < n + 1 → specPaidAt w chain t c = [] := by
          intro c h1 h2
          unfold specPaidAt
          rw [List.filterMap_eq_nil_iff]
          intro cf hcf
          have hm : cf.1 ∈ (blkAt chain c).commitIds := (List.of_mem_zip (a := cf.1) (b := cf.2) hcf).1
          have := (hT c h1 h2 cf.1 hm)
          rw [hTnil] at this
          have hc : (blkAt chain t).props.contains cf.1 = false := by
            rw [Bool.eq_false_iff]; intro hc; exact absurd (this.2 (by simpa using hc)) (by simp)
          simp only [hc]; rfl
        refine ⟨hnone n (by omega) (by omega), ?_⟩
        rw [List.flatMap_eq_nil_iff]
        intro c hc
        rw [List.mem_reverse, List.mem_range'_1] at hc
        exact hnone c hc.1 (by omega)
      · have hTe' : (!T.isEmpty) = true := by simpa using hTe
        simp only [hgt, hTe', and_self, if_true]
        obtain ⟨pb1, pb2⟩ := payBlock_eq true (proposed ++ (blkAt chain (max (n - w.far) 1)).props) n
          (blkAt chain n) T (hnd n (by omega) (by omega))
        -- membership in the extended `proposed` set
        have hP' : ∀ x, x ∈ proposed ++ (blkAt chain (max (n - w.far) 1)).props ↔
            ∃ i, n ≤ i ∧ i < t + w.far ∧ x ∈ (blkAt chain (max (i - w.far) 1)).props := by
          intro x
          rw [List.mem_append, hP x]
          constructor
          · rintro (⟨i, h1, h2, h3⟩ | h)
            · exact ⟨i, by omega, h2, h3⟩
            · exact ⟨n, Nat.le_refl _, by omega, h⟩
          · rintro ⟨i, h1, h2, h3⟩
            by_cases hi : i = n
            · subst hi; exact Or.inr h3
            · exact Or.inl ⟨i, by omega, h2, h3⟩
        congr 1
        · -- this block
          rw [pb1]
          unfold specPaidAt
          apply filterMap_congr'
          intro cf hcf
          have hm : cf.1 ∈ (blkAt chain n).commitIds := (List.of_mem_zip (a := cf.1) (b := cf.2) hcf).1
          have e1 : T.contains cf.1 = (blkAt chain t).props.contains cf.1 := by
            rw [Bool.eq_iff_iff]; simpa using hT n (by omega) (by omega) cf.1 hm
          have e2 : (true && (proposed ++ (blkAt chain (max (n - w.far) 1)).props).contains cf.1) =
              proposedIn chain (max (n - w.far) 1) t cf.1 := by
            rw [Bool.true_and, Bool.eq_iff_iff, proposedIn_iff]
            simp only [List.contains_iff_mem, hP' cf.1]
            constructor
            · rintro ⟨i, h1, h2, h3⟩
              exact ⟨max (i - w.far) 1, by omega, by omega, h3⟩
            · rintro ⟨q, h1, h2, h3⟩
              refine ⟨q + w.far, by omega, by omega, ?_⟩
              have : max (q + w.far - w.far) 1 = q := by omega
              rw [this]; exact h3
          simp only [pick, e1, e2]
        · -- the earlier blocks
          apply ih (by omega)
          · intro c h1 h2 id hid
            rw [pb2 id]
            have hnot : id ∉ ((blkAt chain n).commitIds.zip (blkAt chain n).fees).map Prod.fst :=
              fun hm => hdisj c n h1 h2 (by omega) id hid (zip_fst_mem hm)
            constructor
            · rintro ⟨a, _⟩; exact (hT c h1 (by omega) id hid).1 a
            · intro a; exact ⟨(hT c h1 (by omega) id hid).2 a, hnot⟩
          · exact hP'
    · have e : n + 1 - (t + w.close) = 0 := by omega
      simp [hgt, e]

/-- **completeness + soundness of the walk**: for a target `t ≥ 2`, the fees whose proposer share
the code pays when block `t + w_far + 1` finalises `t` are exactly the specified ones, in order -/
theorem paidList_eq_specPaid (w : Win) (chain : List Blk) (t : Nat) (ht : 2 ≤ t)
    (hw : w.close ≤ w.far)
    (hnd : ∀ c, t + w.close ≤ c → c ≤ t + w.far → (blkAt chain c).commitIds.Nodup)
    (hdisj : ∀ c₁ c₂, t + w.close ≤ c₁ → c₁ < c₂ → c₂ ≤ t + w.far →
      ∀ id ∈ (blkAt chain c₁).commitIds, id ∉ (blkAt chain c₂).commitIds) :
    paidList w chain (t + w.far) t = specPaid w chain t := by
  unfold paidList specPaid
  have hccs : max (t + w.far + 1 - w.length) (1 + w.close) = t + w.close := by
    unfold Win.length; omega
  simp only [hccs]
  obtain ⟨pb1, pb2⟩ := payBlock_eq false [] (t + w.far) (blkAt chain (t + w.far))
    (blkAt chain t).props (hnd _ (by omega) (by omega))
  have hrange : List.range' (t + w.close) (w.far - w.close + 1) =
      List.range' (t + w.close) (t + w.far - (t + w.close)) ++ [t + w.far] := by
    have e : w.far - w.close + 1 = (t + w.far - (t + w.close)) + 1 := by omega
    rw [e, List.range'_concat]
    congr 2; omega
  rw [hrange, List.reverse_append, List.reverse_singleton, List.singleton_append, List.flatMap_cons]
  congr 1
  · rw [pb1]
    unfold specPaidAt
    apply filterMap_congr'
    intro cf _
    have e2 : proposedIn chain (max (t + w.far - w.far) 1) t cf.1 = false := by
      rw [Bool.eq_false_iff]
      intro h
      obtain ⟨q, h1, h2, _⟩ := (proposedIn_iff _ _ _ _).1 h
      omega
    simp only [pick, e2, Bool.false_and]
  · apply walk_eq_spec w chain t ht hnd hdisj (t + w.far) (Nat.le_refl _)
    · intro c h1 h2 id hid
      rw [pb2 id]
      have hnot : id ∉ ((blkAt chain (t + w.far)).commitIds.zip (blkAt chain (t + w.far)).fees).map Prod.fst :=
        fun hm => hdisj c (t + w.far) h1 h2 (Nat.le_refl _) id hid (zip_fst_mem hm)
      exact ⟨fun a => a.1, fun a => ⟨a, hnot⟩⟩
    · intro x
      simp only [List.not_mem_nil, false_iff]
      rintro ⟨i, h1, h2, _⟩; omega

/-! ### earliest proposer, membership in the specification, distinct keys -/

theorem isEarliestProposer_iff (w : Win) (chain : List Blk) (c id t : Nat) :
    isEarliestProposer w chain c id t = true ↔
      max (c - w.far) 1 ≤ t ∧ t ≤ c - w.close ∧ id ∈ (blkAt chain t).props ∧
      ∀ q, max (c - w.far) 1 ≤ q → q < t → id ∉ (blkAt chain q).props := by
  unfold isEarliestProposer
  simp only [Bool.and_eq_true, decide_eq_true_eq, Bool.not_eq_eq_eq_not, Bool.not_true,
    List.contains_iff_mem]
  constructor
  · rintro ⟨⟨⟨h1, h2⟩, h3⟩, h4⟩
    refine ⟨h1, h2, h3, fun q hq1 hq2 hm => ?_⟩
    have : proposedIn chain (max (c - w.far) 1) t id = true :=
      (proposedIn_iff _ _ _ _).2 ⟨q, hq1, hq2, hm⟩
    rw [h4] at this; cases this
  · rintro ⟨h1, h2, h3, h4⟩
    refine ⟨⟨⟨h1, h2⟩, h3⟩, ?_⟩
    rw [Bool.eq_false_iff]
    intro h
    obtain ⟨q, hq1, hq2, hm⟩ := (proposedIn_iff _ _ _ _).1 h
    exact h4 q hq1 hq2 hm

/-- a least witness above `lo` -/
theorem exists_least (p : Nat → Prop) (lo : Nat) :
    ∀ k, p (lo + k) → ∃ t, lo ≤ t ∧ t ≤ lo + k ∧ p t ∧ ∀ q, lo ≤ q → q < t → ¬ p q := by
  intro k
  induction k using Nat.strongRecOn with
  | _ k ih =>
    intro hk
    by_cases h : ∃ j, j < k ∧ p (lo + j)
    · obtain ⟨j, hj, hpj⟩ := h
      obtain ⟨t, h1, h2, h3, h4⟩ := ih j hj hpj
      exact ⟨t, h1, by omega, h3, h4⟩
    · refine ⟨lo + k, by omega, Nat.le_refl _, hk, fun q hq1 hq2 hpq => h ⟨q - lo, by omega, ?_⟩⟩
      have : lo + (q - lo) = q := by omega
      rw [this]; exact hpq

/-- the two-phase commit rule gives every commit an earliest proposer in its window -/
theorem earliest_exists (w : Win) (chain : List Blk) (c id : Nat)
    (h : proposedInWindow w chain c id = true) : ∃ t, isEarliestProposer w chain c id t = true := by
  unfold proposedInWindow at h
  obtain ⟨q, h1, h2, h3⟩ := (proposedIn_iff _ _ _ _).1 h
  obtain ⟨t, t1, t2, t3, t4⟩ := exists_least (fun q => id ∈ (blkAt chain q).props)
    (max (c - w.far) 1) (q - max (c - w.far) 1) (by
      have : max (c - w.far) 1 + (q - max (c - w.far) 1) = q := by omega
      simp only [this]; exact h3)
  exact ⟨t, (isEarliestProposer_iff _ _ _ _ _).2 ⟨t1, by omega, t3, t4⟩⟩

/-- a commit whose earliest in-window proposer is `t` is in `t`'s specification -/
theorem mem_specPaid_of_earliest (w : Win) (chain : List Blk) (c id fee t : Nat) (ht : 1 ≤ t)
    (hw : w.close ≤ w.far)
    (hcommit : (id, fee) ∈ (blkAt chain c).commitIds.zip (blkAt chain c).fees)
    (he : isEarliestProposer w chain c id t = true) : ⟨c, id, fee⟩ ∈ specPaid w chain t := by
  obtain ⟨h1, h2, h3, h4⟩ := (isEarliestProposer_iff _ _ _ _ _).1 he
  unfold specPaid
  rw [List.mem_flatMap]
  refine ⟨c, ?_, ?_⟩
  · rw [List.mem_reverse, List.mem_range'_1]; omega
  · unfold specPaidAt
    rw [List.mem_filterMap]
    refine ⟨(id, fee), hcommit, ?_⟩
    have e1 : (blkAt chain t).props.contains id = true := by simpa using h3
    have e2 : proposedIn chain (max (c - w.far) 1) t id = false := by
      rw [Bool.eq_false_iff]; intro h
      obtain ⟨q, hq1, hq2, hm⟩ := (proposedIn_iff _ _ _ _).1 h
      exact h4 q hq1 hq2 hm
    simp only [e1, e2]; rfl

theorem specPaidAt_mem {w : Win} {chain : List Blk} {t c : Nat} {e : Paid}
    (h : e ∈ specPaidAt w chain t c) :
    e.blk = c ∧ (e.id, e.fee) ∈ (blkAt chain c).commitIds.zip (blkAt chain c).fees := by
  unfold specPaidAt at h
  rw [List.mem_filterMap] at h
  obtain ⟨cf, hcf, hp⟩ := h
  split at hp
  · simp only [Option.some.injEq] at hp; subst hp; exact ⟨rfl, hcf⟩
  · cases hp

/-- no commit `(block, id)` occurs twice among the fees paid for one target -/
theorem specPaid_keys_distinct (w : Win) (chain : List Blk) (t : Nat)
    (hnd : ∀ c, (blkAt chain c).commitIds.Nodup) :
    (specPaid w chain t).Pairwise (fun a b => ¬ (a.blk = b.blk ∧ a.id = b.id)) := by
  unfold specPaid
  rw [List.pairwise_flatMap]
  constructor
  · intro c _
    unfold specPaidAt
    rw [List.pairwise_filterMap]
    have hz := zip_fst_nodup (blkAt chain c).commitIds (blkAt chain c).fees (hnd c)
    unfold List.Nodup at hz
    rw [List.pairwise_map] at hz
    refine hz.imp ?_
    intro a b hab x hx y hy
    split at hx <;> simp only [Option.some.injEq, reduceCtorEq] at hx
    split at hy <;> simp only [Option.some.injEq, reduceCtorEq] at hy
    subst hx; subst hy
    exact fun h => hab h.2
  · rw [List.pairwise_reverse]
    have := List.nodup_range' (s := t + w.close) (n := w.far - w.close + 1)
    unfold List.Nodup at this
    refine this.imp ?_
    intro a b hab x hx y hy h
    have := (specPaidAt_mem hx).1
    have := (specPaidAt_mem hy).1
    omega

/-- the specification as a predicate: what it means for a fee to belong to target `t` -/
theorem mem_specPaid_iff (w : Win) (chain : List Blk) (t : Nat) (hw : w.close ≤ w.far) (e : Paid) :
    e ∈ specPaid w chain t ↔
      t + w.close ≤ e.blk ∧ e.blk ≤ t + w.far ∧
      (e.id, e.fee) ∈ (blkAt chain e.blk).commitIds.zip (blkAt chain e.blk).fees ∧
      e.id ∈ (blkAt chain t).props ∧
      ∀ q, max (e.blk - w.far) 1 ≤ q → q < t → e.id ∉ (blkAt chain q).props := by
  unfold specPaid
  rw [List.mem_flatMap]
  constructor
  · rintro ⟨c, hc, he⟩
    rw [List.mem_reverse, List.mem_range'_1] at hc
    obtain ⟨hb, hz⟩ := specPaidAt_mem he
    unfold specPaidAt at he
    rw [List.mem_filterMap] at he
    obtain ⟨cf, _, hp⟩ := he
    split at hp
    · rename_i hcond
      simp only [Option.some.injEq] at hp
      subst hp
      simp only [Bool.and_eq_true, Bool.not_eq_eq_eq_not, Bool.not_true, List.contains_iff_mem] at hcond
      refine ⟨hc.1, by omega, hz, hcond.1, fun q hq1 hq2 hm => ?_⟩
      have : proposedIn chain (max (c - w.far) 1) t cf.1 = true :=
        (proposedIn_iff _ _ _ _).2 ⟨q, hq1, hq2, hm⟩
      rw [hcond.2] at this; cases this
    · cases hp
  · rintro ⟨h1, h2, h3, h4, h5⟩
    refine ⟨e.blk, by rw [List.mem_reverse, List.mem_range'_1]; omega, ?_⟩
    unfold specPaidAt
    rw [List.mem_filterMap]
    refine ⟨(e.id, e.fee), h3, ?_⟩
    have e1 : (blkAt chain t).props.contains e.id = true := by simpa using h4
    have e2 : proposedIn chain (max (e.blk - w.far) 1) t e.id = false := by
      rw [Bool.eq_false_iff]; intro h
      obtain ⟨q, hq1, hq2, hm⟩ := (proposedIn_iff _ _ _ _).1 h
      exact h5 q hq1 hq2 hm
    simp only [e1, e2]; rfl

end CkbVerif.Reward
