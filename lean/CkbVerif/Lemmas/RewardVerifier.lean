import CkbVerif.Model.Reward
import CkbVerif.Lemmas.Dao

/-! Helper lemmas about `rewardVerify` / `cellbaseVerify` (`Model/Reward.lean`, C06).
Core Lean only. -/
namespace CkbVerif.Reward
open CkbVerif.Arith
open CkbVerif.Dao (safeAdd_some)

/-- Σ capacity over the cellbase outputs, as an unbounded natural number (what the cellbase
creates) -/
def outsSum : List (Nat × Bool) → Nat
  | [] => 0
  | o :: rest => o.1 + outsSum rest

/-- the `try_fold` of `outputs_capacity()`: it returns `s` iff `s` is the exact sum and fits a u64 -/
theorem foldlM_safeAdd_iff {outs : List (Nat × Bool)} {a s : Nat} (ha : a < U64) :
    outs.foldlM (fun acc o => safeAdd acc o.1) a = some s ↔ s = a + outsSum outs ∧ s < U64 := by
  induction outs generalizing a with
  | nil =>
    simp only [List.foldlM_nil, pure, Option.some.injEq, outsSum, Nat.add_zero]
    constructor
    · rintro rfl; exact ⟨rfl, ha⟩
    · rintro ⟨rfl, _⟩; rfl
  | cons o rest ih =>
    simp only [List.foldlM_cons, outsSum]
    cases hadd : safeAdd a o.1 with
    | none =>
      simp only [bind, Option.bind_none, reduceCtorEq, false_iff]
      rintro ⟨rfl, hlt⟩
      have : safeAdd a o.1 = some (a + o.1) := safeAdd_some.2 ⟨by omega, rfl⟩
      rw [hadd] at this; cases this
    | some a' =>
      obtain ⟨hlt, rfl⟩ := safeAdd_some.1 hadd
      simp only [bind, Option.bind_some]
      rw [ih hlt]
      constructor
      · rintro ⟨rfl, h⟩; exact ⟨by omega, h⟩
      · rintro ⟨rfl, h⟩; exact ⟨by omega, h⟩

theorem outsSum_eq_zero_of_nil : outsSum [] = 0 := rfl

/-- `rewardVerify` unfolded into its three cases -/
theorem rewardVerify_ok_iff (w : Win) (P total lockOcc : Nat) (outs : List (Nat × Bool)) :
    rewardVerify w P total lockOcc outs = some .ok ↔
      ((P + 1 ≤ finalizationDelay w ∨ lockOcc > total) ∧ outs = []) ∨
      (¬ (P + 1 ≤ finalizationDelay w ∨ lockOcc > total) ∧ outsSum outs = total ∧ total < U64 ∧
        ∃ o rest, outs = o :: rest ∧ o.2 = true) := by
  have h0 : (0 : Nat) < U64 := by decide
  unfold rewardVerify
  by_cases hex : P + 1 ≤ finalizationDelay w ∨ lockOcc > total
  · simp only [hex, if_true, Option.some.injEq, true_and, not_true_eq_false, false_and, or_false]
    cases outs with
    | nil => simp
    | cons o rest => simp
  · simp only [hex, if_false, false_and, false_or, not_false_eq_true, true_and]
    cases hs : outs.foldlM (fun acc o => safeAdd acc o.1) 0 with
    | none =>
      simp only [reduceCtorEq, false_iff]
      rintro ⟨hsum, hlt, _⟩
      have := (foldlM_safeAdd_iff (outs := outs) (s := total) h0).2 ⟨by omega, hlt⟩
      rw [hs] at this; cases this
    | some s =>
      obtain ⟨hsv, hslt⟩ := (foldlM_safeAdd_iff h0).1 hs
      simp only [Nat.zero_add] at hsv
      by_cases hst : s = total
      · subst hst
        simp only [ne_eq, not_true_eq_false, if_false]
        cases outs with
        | nil => simp
        | cons o rest =>
          by_cases ho : o.2 = true
          · simp only [ho, if_true, true_iff]
            exact ⟨hsv.symm, hslt, o, rest, rfl, ho⟩
          · simp [ho]
      · simp only [ne_eq, hst, not_false_eq_true, if_true, Option.some.injEq, reduceCtorEq, false_iff]
        rintro ⟨hsum, _⟩
        omega

/-- `cellbaseVerify` = at most one output and `rewardVerify` -/
theorem cellbaseVerify_ok_iff (w : Win) (P total lockOcc : Nat) (outs : List (Nat × Bool)) :
    cellbaseVerify w P total lockOcc outs = some .ok ↔
      outs.length ≤ 1 ∧ rewardVerify w P total lockOcc outs = some .ok := by
  unfold cellbaseVerify
  by_cases hl : outs.length > 1
  · simp only [hl, if_true, Option.some.injEq, reduceCtorEq, false_iff]
    omega
  · simp only [hl, if_false]
    have : outs.length ≤ 1 := by omega
    cases hr : rewardVerify w P total lockOcc outs with
    | none => simp
    | some v => cases v <;> simp [this]

/-! ### chains of accepted blocks -/

/-- what `RewardVerifier` sees of one block: parent number, reward total of the finalisation
target, occupied capacity of a cell with the target's lock, the cellbase outputs -/
structure CbBlock where
  parent : Nat
  total : Nat
  lockOcc : Nat
  outs : List (Nat × Bool)
deriving Repr

/-- the block has a finalisation target whose reward fills a cell -/
def CbBlock.pays (w : Win) (b : CbBlock) : Bool :=
  decide (finalizationDelay w < b.parent + 1) && decide (b.lockOcc ≤ b.total)

/-- Σ capacity created by the cellbases of the blocks -/
def minted : List CbBlock → Nat
  | [] => 0
  | b :: bs => outsSum b.outs + minted bs

/-- Σ reward totals of the blocks that pay -/
def due (w : Win) : List CbBlock → Nat
  | [] => 0
  | b :: bs => (if b.pays w then b.total else 0) + due w bs

def totals : List CbBlock → Nat
  | [] => 0
  | b :: bs => b.total + totals bs

theorem due_le_totals (w : Win) (bs : List CbBlock) : due w bs ≤ totals bs := by
  induction bs with
  | nil => simp [due, totals]
  | cons b bs ih =>
    simp only [due, totals]
    split <;> omega

/-- `Σ_{k=1..n} f k` -/
def sumTo (f : Nat → Nat) : Nat → Nat
  | 0 => 0
  | n + 1 => sumTo f n + f (n + 1)

theorem sumTo_mono (f : Nat → Nat) {a b : Nat} (h : a ≤ b) : sumTo f a ≤ sumTo f b := by
  induction b with
  | zero => have : a = 0 := by omega
            subst this; exact Nat.le_refl _
  | succ b ih =>
    by_cases hab : a = b + 1
    · subst hab; exact Nat.le_refl _
    · have := ih (by omega)
      simp only [sumTo]; omega

end CkbVerif.Reward
