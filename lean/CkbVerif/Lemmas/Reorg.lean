import CkbVerif.Model.Reorg
import CkbVerif.Lemmas.PoolClosure

/-! Helper lemmas for `Props/C12.lean`, part 1: sub-pools, derived links (descendant closure),
    "inputs resolvable" and "no conflict with attached" through `_update_tx_pool_for_reorg`. -/
namespace CkbVerif.Reorg
open CkbVerif.Pool (RT mem_calcRelation)

/-- `q` consists of entries of `p`, possibly at another stage -/
def Sub (q p : Pool) : Prop :=
  ∀ e ∈ q, ∃ e0 ∈ p, e.id = e0.id ∧ e.spent = e0.spent ∧ e.deps = e0.deps ∧ e.hdeps = e0.hdeps ∧ e.outs = e0.outs

theorem Sub.refl (p : Pool) : Sub p p := fun e he => ⟨e, he, rfl, rfl, rfl, rfl, rfl⟩

theorem Sub.trans {a b c : Pool} (h1 : Sub a b) (h2 : Sub b c) : Sub a c := by
  intro e he
  obtain ⟨e1, he1, a1, a2, a3, a4, a5⟩ := h1 e he
  obtain ⟨e2, he2, b1, b2, b3, b4, b5⟩ := h2 e1 he1
  exact ⟨e2, he2, a1.trans b1, a2.trans b2, a3.trans b3, a4.trans b4, a5.trans b5⟩

theorem Sub.of_filter (p : Pool) (f : PEnt → Bool) : Sub (p.filter f) p :=
  fun e he => ⟨e, (List.mem_filter.mp he).1, rfl, rfl, rfl, rfl, rfl⟩

theorem sub_removeEntry (p : Pool) (id : Nat) : Sub (removeEntry p id) p := Sub.of_filter _ _
theorem sub_removeWithDesc (p : Pool) (id : Nat) : Sub (removeWithDesc p id) p := Sub.of_filter _ _

theorem sub_foldl {α} (f : Pool → α → Pool) (hf : ∀ q a, Sub (f q a) q) (l : List α) (p : Pool) :
    Sub (l.foldl f p) p := by
  induction l generalizing p with
  | nil => exact Sub.refl p
  | cons a as ih => exact (ih (f p a)).trans (hf p a)

theorem sub_resolveInput (p : Pool) (i : Nat) : Sub (resolveInput p i) p := by
  unfold resolveInput
  have h1 : Sub (match p.find? (fun e => e.spent.contains i) with
      | some e => removeWithDesc p e.id | none => p) p := by
    split
    · exact sub_removeWithDesc _ _
    · exact Sub.refl p
  exact (sub_foldl (fun q (e : PEnt) => removeWithDesc q e.id) (fun q e => sub_removeWithDesc q e.id) _ _).trans h1

theorem sub_removeCommitted (p : Pool) (tx : CTx) : Sub (removeCommitted p tx) p :=
  (sub_foldl _ sub_resolveInput _ _).trans (sub_removeEntry p tx.id)

theorem sub_resolveHeaderDeps (p : Pool) (hs : List Nat) : Sub (resolveHeaderDeps p hs) p :=
  sub_foldl (fun q (e : PEnt) => removeWithDesc q e.id) (fun q e => sub_removeWithDesc q e.id) _ _

theorem sub_map_status (p : Pool) (f : PEnt → PEnt)
    (hf : ∀ e, (f e).id = e.id ∧ (f e).spent = e.spent ∧ (f e).deps = e.deps ∧ (f e).hdeps = e.hdeps ∧ (f e).outs = e.outs) :
    Sub (p.map f) p := by
  intro e he
  obtain ⟨e0, he0, rfl⟩ := List.mem_map.mp he
  exact ⟨e0, he0, (hf e0).1, (hf e0).2.1, (hf e0).2.2.1, (hf e0).2.2.2.1, (hf e0).2.2.2.2⟩

theorem sub_detachProposal (p : Pool) (id : Nat) : Sub (detachProposal p id) p := by
  unfold detachProposal
  split
  · split
    · exact Sub.refl p
    · apply sub_map_status
      intro e; split <;> simp
  · exact Sub.refl p

theorem moveStage_core (a : Args) (e : PEnt) :
    (moveStage a e).id = e.id ∧ (moveStage a e).spent = e.spent ∧ (moveStage a e).deps = e.deps ∧
    (moveStage a e).hdeps = e.hdeps ∧ (moveStage a e).outs = e.outs := by
  unfold moveStage
  repeat' split
  all_goals simp

/-- phases after `remove_committed_txs`/`resolve_conflict_header_dep` only drop entries or change stages -/
theorem sub_update_tail (a : Args) (p2 : Pool) :
    Sub (a.expired.foldl removeWithDesc ((a.detachedProposals.foldl detachProposal p2).map (moveStage a))) p2 :=
  ((sub_foldl _ sub_removeWithDesc _ _).trans (sub_map_status _ _ (moveStage_core a))).trans
    (sub_foldl _ sub_detachProposal _ _)

/-! ### what each removal guarantees -/

theorem removeWithDesc_no_id (p : Pool) (id : Nat) : ∀ e ∈ removeWithDesc p id, e.id ≠ id := by
  intro e he
  have := (List.mem_filter.mp he).2
  simp only [Bool.and_eq_true, bne_iff_ne, ne_eq] at this
  exact this.1

theorem removeWithDesc_no_desc (p : Pool) (id : Nat) : ∀ e ∈ removeWithDesc p id, e.id ∉ descOf p id := by
  intro e he
  have := (List.mem_filter.mp he).2
  simp only [Bool.and_eq_true, Bool.not_eq_true', List.contains_eq_mem, decide_eq_false_iff_not] at this
  exact this.2

/-- folding `remove_entry_and_descendants` over a list leaves none of the listed ids -/
theorem foldl_removeWithDesc_no_id (l : List Nat) (p : Pool) :
    ∀ e ∈ l.foldl removeWithDesc p, e.id ∉ l := by
  induction l generalizing p with
  | nil => intro e _; simp
  | cons x xs ih =>
    intro e he hmem
    simp only [List.foldl_cons] at he
    rcases List.mem_cons.mp hmem with h | h
    · have hsub : Sub (xs.foldl removeWithDesc (removeWithDesc p x)) (removeWithDesc p x) :=
        sub_foldl _ sub_removeWithDesc _ _
      obtain ⟨e0, he0, hid, _⟩ := hsub e he
      exact removeWithDesc_no_id p x e0 he0 (hid ▸ h)
    · exact ih _ e he h

theorem removeEntry_no_id (p : Pool) (id : Nat) : ∀ e ∈ removeEntry p id, e.id ≠ id := by
  intro e he
  have := (List.mem_filter.mp he).2
  simpa using this

/-- a property of (id, spent, deps, hdeps) that holds for no entry of `p` holds for no entry of a sub-pool -/
theorem Sub.forall {q p : Pool} (h : Sub q p) (P : Nat → List Nat → List Nat → List Nat → Prop)
    (hp : ∀ e ∈ p, P e.id e.spent e.deps e.hdeps) : ∀ e ∈ q, P e.id e.spent e.deps e.hdeps := by
  intro e he
  obtain ⟨e0, he0, a1, a2, a3, a4, _⟩ := h e he
  rw [a1, a2, a3, a4]; exact hp e0 he0

/-- folding removals that each delete the entry they are named after leaves none of the named ids;
    `sel` picks the offenders from the original pool -/
theorem foldl_removeWithDesc_clears (sel : PEnt → Bool) (p : Pool) :
    ∀ e ∈ (p.filter sel).foldl (fun q x => removeWithDesc q x.id) p, e.id ∉ (p.filter sel).map (·.id) := by
  suffices h : ∀ (l : List PEnt) (q : Pool), (∀ e ∈ q, e.id ∉ ([] : List Nat)) →
      ∀ (done : List Nat), (∀ e ∈ q, e.id ∉ done) →
      ∀ e ∈ l.foldl (fun q x => removeWithDesc q x.id) q, e.id ∉ done ∧ e.id ∉ l.map (·.id) by
    intro e he
    exact (h (p.filter sel) p (by simp) [] (by simp) e he).2
  intro l
  induction l with
  | nil => intro q _ done hd e he; exact ⟨hd e he, by simp⟩
  | cons x xs ih =>
    intro q h0 done hd e he
    simp only [List.foldl_cons] at he
    have hq' : ∀ e ∈ removeWithDesc q x.id, e.id ∉ x.id :: done := by
      intro e he
      simp only [List.mem_cons, not_or]
      exact ⟨removeWithDesc_no_id q x.id e he, hd e (List.mem_filter.mp he).1⟩
    obtain ⟨h1, h2⟩ := ih (removeWithDesc q x.id) (by simp) (x.id :: done) hq' e he
    simp only [List.mem_cons, not_or] at h1
    refine ⟨h1.2, ?_⟩
    simp only [List.map_cons, List.mem_cons, not_or]
    exact ⟨h1.1, h2⟩


/-! ### derived links: what `remove_entry_and_descendants` removes is closed under link children -/

theorem mem_childIds {p : Pool} {id y : Nat} :
    y ∈ childIds p id ↔ ∃ e ∈ p, ∃ c ∈ p, e.id = id ∧ c.id = y ∧ isChild e c = true := by
  unfold childIds
  simp only [List.mem_map, List.mem_filter, List.any_eq_true, beq_iff_eq]
  constructor
  · rintro ⟨c, ⟨hc, e, ⟨he, hid⟩, hch⟩, rfl⟩
    exact ⟨e, he, c, hc, hid, rfl, hch⟩
  · rintro ⟨e, he, c, hc, hid, rfl, hch⟩
    exact ⟨c, ⟨hc, e, ⟨he, hid⟩, hch⟩, rfl⟩

theorem childIds_sub_ids (p : Pool) (x y : Nat) (h : y ∈ childIds p x) : y ∈ ids p := by
  obtain ⟨_, _, c, hc, _, rfl, _⟩ := mem_childIds.mp h
  exact List.mem_map_of_mem hc

/-- `calc_descendants`: everything reachable from a link child -/
theorem mem_descOf (p : Pool) (id y : Nat) : y ∈ descOf p id ↔ ∃ c ∈ childIds p id, RT (childIds p) c y :=
  mem_calcRelation (childIds p) (ids p) (childIds p id) (childIds_sub_ids p) y

/-- `x` leaves with `remove_entry_and_descendants(id)` -/
def Gone (p : Pool) (id x : Nat) : Prop := x = id ∨ x ∈ descOf p id

theorem gone_child {p : Pool} {id : Nat} {e c : PEnt} (he : e ∈ p) (hc : c ∈ p) (hg : Gone p id e.id)
    (hch : isChild e c = true) : Gone p id c.id := by
  have hcc : c.id ∈ childIds p e.id := mem_childIds.mpr ⟨e, he, c, hc, rfl, rfl, hch⟩
  rcases hg with h | h
  · exact Or.inr ((mem_descOf p id c.id).mpr ⟨c.id, h ▸ hcc, .refl _⟩)
  · obtain ⟨c0, hc0, hr⟩ := (mem_descOf p id e.id).mp h
    exact Or.inr ((mem_descOf p id c.id).mpr ⟨c0, hc0, hr.snoc hcc⟩)

theorem mem_removeWithDesc {p : Pool} {id : Nat} {e : PEnt} :
    e ∈ removeWithDesc p id ↔ e ∈ p ∧ ¬ Gone p id e.id := by
  unfold removeWithDesc Gone
  simp only [List.mem_filter, Bool.and_eq_true, bne_iff_ne, ne_eq, Bool.not_eq_true', List.contains_eq_mem,
    decide_eq_false_iff_not, not_or]

/-! ### "every input / cell dep is live or created by a pooled entry" -/

/-- every input and cell dep of a pooled entry is `live` or an output of a pooled entry -/
def Resolvable (live : Nat → Prop) (q : Pool) : Prop :=
  ∀ e ∈ q, ∀ o ∈ e.spent ++ e.deps, live o ∨ ∃ x ∈ q, o ∈ x.outs

theorem refs_of_uses {x e : PEnt} {o : Nat} (ho : o ∈ e.spent ++ e.deps) (hx : o ∈ x.outs) : refs x e = true := by
  unfold refs
  rcases List.mem_append.mp ho with h | h
  · have : e.spent.any x.outs.contains = true := List.any_eq_true.mpr ⟨o, h, by simpa using hx⟩
    simp [this]
  · have : e.deps.any x.outs.contains = true := List.any_eq_true.mpr ⟨o, h, by simpa using hx⟩
    simp [this]

/-- removing an entry with its descendants never leaves a user of a removed output behind -/
theorem resolvable_removeWithDesc {live : Nat → Prop} {p : Pool} (id : Nat) (h : Resolvable live p) :
    Resolvable live (removeWithDesc p id) := by
  intro e he o ho
  obtain ⟨hep, hng⟩ := mem_removeWithDesc.mp he
  rcases h e hep o ho with hl | ⟨x, hx, hox⟩
  · exact Or.inl hl
  · by_cases hgx : Gone p id x.id
    · exfalso
      by_cases hid : e.id = x.id
      · exact hng (hid ▸ hgx)
      · apply hng
        apply gone_child hx hep hgx
        unfold isChild
        simp [hid, refs_of_uses ho hox]
    · exact Or.inr ⟨x, mem_removeWithDesc.mpr ⟨hx, hgx⟩, hox⟩

theorem resolvable_foldl_removeWithDesc {live : Nat → Prop} {α} (f : α → Nat) (l : List α) (p : Pool)
    (h : Resolvable live p) : Resolvable live (l.foldl (fun q x => removeWithDesc q (f x)) p) := by
  induction l generalizing p with
  | nil => exact h
  | cons x xs ih => exact ih _ (resolvable_removeWithDesc (f x) h)

theorem resolvable_resolveInput {live : Nat → Prop} {p : Pool} (i : Nat) (h : Resolvable live p) :
    Resolvable live (resolveInput p i) := by
  unfold resolveInput
  apply resolvable_foldl_removeWithDesc (fun e : PEnt => e.id)
  split
  · exact resolvable_removeWithDesc _ h
  · exact h

theorem resolvable_foldl_resolveInput {live : Nat → Prop} (l : List Nat) (p : Pool) (h : Resolvable live p) :
    Resolvable live (l.foldl resolveInput p) := by
  induction l generalizing p with
  | nil => exact h
  | cons x xs ih => exact ih _ (resolvable_resolveInput x h)

/-- `remove_entry` of a committed transaction: its outputs are accounted for by the chain -/
theorem resolvable_removeEntry {live : Nat → Prop} {p : Pool} (id : Nat) (h : Resolvable live p)
    (hl : ∀ x ∈ p, x.id = id → ∀ o ∈ x.outs, live o) : Resolvable live (removeEntry p id) := by
  intro e he o ho
  have hep := (List.mem_filter.mp he).1
  rcases h e hep o ho with h1 | ⟨x, hx, hox⟩
  · exact Or.inl h1
  · by_cases hid : x.id = id
    · exact Or.inl (hl x hx hid o hox)
    · exact Or.inr ⟨x, List.mem_filter.mpr ⟨hx, by simpa using hid⟩, hox⟩

theorem resolvable_removeCommitted {live : Nat → Prop} {p : Pool} (tx : CTx) (h : Resolvable live p)
    (hl : ∀ x ∈ p, x.id = tx.id → ∀ o ∈ x.outs, live o) : Resolvable live (removeCommitted p tx) :=
  resolvable_foldl_resolveInput _ _ (resolvable_removeEntry tx.id h hl)

theorem resolvable_foldl_removeCommitted {live : Nat → Prop} (l : List CTx) (p : Pool) (h : Resolvable live p)
    (hl : ∀ t ∈ l, ∀ x ∈ p, x.id = t.id → ∀ o ∈ x.outs, live o) :
    Resolvable live (l.foldl removeCommitted p) := by
  induction l generalizing p with
  | nil => exact h
  | cons t ts ih =>
    apply ih _ (resolvable_removeCommitted t h (hl t (List.mem_cons_self ..)))
    intro t' ht' x hx hid o ho
    obtain ⟨x0, hx0, i1, _, _, _, i5⟩ := sub_removeCommitted p t x hx
    exact hl t' (List.mem_cons_of_mem _ ht') x0 hx0 (i1 ▸ hid) o (i5 ▸ ho)

/-- a stage change keeps the clause -/
theorem resolvable_map {live : Nat → Prop} {p : Pool} (f : PEnt → PEnt)
    (hf : ∀ e, (f e).id = e.id ∧ (f e).spent = e.spent ∧ (f e).deps = e.deps ∧ (f e).hdeps = e.hdeps ∧ (f e).outs = e.outs)
    (h : Resolvable live p) : Resolvable live (p.map f) := by
  intro e he o ho
  obtain ⟨e0, he0, rfl⟩ := List.mem_map.mp he
  rw [(hf e0).2.1, (hf e0).2.2.1] at ho
  rcases h e0 he0 o ho with h1 | ⟨x, hx, hox⟩
  · exact Or.inl h1
  · exact Or.inr ⟨f x, List.mem_map_of_mem hx, by rw [(hf x).2.2.2.2]; exact hox⟩

theorem resolvable_detachProposal {live : Nat → Prop} {p : Pool} (id : Nat) (h : Resolvable live p) :
    Resolvable live (detachProposal p id) := by
  unfold detachProposal
  split
  · split
    · exact h
    · apply resolvable_map _ _ h
      intro e; split <;> simp
  · exact h

theorem resolvable_foldl_detachProposal {live : Nat → Prop} (l : List Nat) (p : Pool) (h : Resolvable live p) :
    Resolvable live (l.foldl detachProposal p) := by
  induction l generalizing p with
  | nil => exact h
  | cons x xs ih => exact ih _ (resolvable_detachProposal x h)

/-- the clause goes through the whole update, for any `live` that accounts for the outputs of the
    attached transactions that were pooled -/
theorem resolvable_update {live : Nat → Prop} (p : Pool) (a : Args) (h : Resolvable live p)
    (hl : ∀ t ∈ a.attached, ∀ x ∈ p, x.id = t.id → ∀ o ∈ x.outs, live o) : Resolvable live (update p a) := by
  unfold update
  apply resolvable_foldl_removeWithDesc (fun x : Nat => x)
  apply resolvable_map _ (moveStage_core a)
  apply resolvable_foldl_detachProposal
  unfold resolveHeaderDeps
  apply resolvable_foldl_removeWithDesc (fun e : PEnt => e.id)
  exact resolvable_foldl_removeCommitted _ _ h hl

theorem sub_limitLoop (m : Nat) (pref : List Nat) (f : Nat) (p : Pool) : Sub (limitLoop m pref f p) p := by
  induction f generalizing p with
  | zero => exact Sub.refl p
  | succ n ih =>
    unfold limitLoop
    split
    · split
      · exact (ih _).trans (sub_removeWithDesc _ _)
      · exact Sub.refl p
    · exact Sub.refl p

theorem sub_limitSize (a : Args) (p : Pool) : Sub (limitSize a p) p := sub_limitLoop _ _ _ _

theorem resolvable_limitLoop {live : Nat → Prop} (m : Nat) (pref : List Nat) (f : Nat) (p : Pool)
    (h : Resolvable live p) : Resolvable live (limitLoop m pref f p) := by
  induction f generalizing p with
  | zero => exact h
  | succ n ih =>
    unfold limitLoop
    split
    · split
      · exact ih _ (resolvable_removeWithDesc _ h)
      · exact h
    · exact h

/-- `limit_size` keeps the clause, whatever the eviction order -/
theorem resolvable_limitSize {live : Nat → Prop} (a : Args) (p : Pool) (h : Resolvable live p) :
    Resolvable live (limitSize a p) := resolvable_limitLoop _ _ _ _ h

/-! ### no survivor spends or depends on what an attached transaction consumed -/

/-- no out-point is spent by two pooled transactions (`edges.inputs` is a map; C11's invariant) -/
def NoDoubleSpend (p : Pool) : Prop := ∀ e1 ∈ p, ∀ e2 ∈ p, ∀ o, o ∈ e1.spent → o ∈ e2.spent → e1.id = e2.id

theorem NoDoubleSpend.sub {q p : Pool} (h : NoDoubleSpend p) (hs : Sub q p) : NoDoubleSpend q := by
  intro e1 h1 e2 h2 o o1 o2
  obtain ⟨a1, ha1, i1, i2, _⟩ := hs e1 h1
  obtain ⟨a2, ha2, j1, j2, _⟩ := hs e2 h2
  rw [i1, j1]
  exact h a1 ha1 a2 ha2 o (i2 ▸ o1) (j2 ▸ o2)

/-- first half of `resolve_conflict` for one out-point: the pooled spender goes -/
def spenderGone (p : Pool) (i : Nat) : Pool :=
  match p.find? (fun e => e.spent.contains i) with
  | some e => removeWithDesc p e.id
  | none => p

theorem resolveInput_eq (p : Pool) (i : Nat) :
    resolveInput p i = ((spenderGone p i).filter fun e => e.deps.contains i).foldl (fun q e => removeWithDesc q e.id) (spenderGone p i) := rfl

theorem spenderGone_clears {p : Pool} (i : Nat) (hnd : NoDoubleSpend p) : ∀ x ∈ spenderGone p i, i ∉ x.spent := by
  intro x hx hix
  unfold spenderGone at hx
  split at hx
  · rename_i e1 hf
    have h1 := List.find?_some hf
    have hm := List.mem_of_find?_eq_some hf
    obtain ⟨hxp, hng⟩ := mem_removeWithDesc.mp hx
    exact hng (Or.inl (hnd x hxp e1 hm i hix (by simpa using h1)))
  · rename_i hf
    have := List.find?_eq_none.mp hf x hx
    simp at this
    exact this hix

/-- `resolve_conflict` for the consumed out-point `i` leaves no spender and no dep user of `i` -/
theorem resolveInput_clears {p : Pool} (i : Nat) (hnd : NoDoubleSpend p) :
    ∀ e ∈ resolveInput p i, i ∉ e.spent ∧ i ∉ e.deps := by
  intro e he
  rw [resolveInput_eq] at he
  have hsub : Sub (((spenderGone p i).filter fun e => e.deps.contains i).foldl (fun q e => removeWithDesc q e.id) (spenderGone p i)) (spenderGone p i) :=
    sub_foldl (fun q (e : PEnt) => removeWithDesc q e.id) (fun q e => sub_removeWithDesc q e.id) _ _
  obtain ⟨e0, he0, i1, i2, i3, _⟩ := hsub e he
  refine ⟨i2 ▸ spenderGone_clears i hnd e0 he0, ?_⟩
  intro hd
  have hoff : e0 ∈ (spenderGone p i).filter (fun x => x.deps.contains i) :=
    List.mem_filter.mpr ⟨he0, by rw [← i3]; simpa using hd⟩
  exact foldl_removeWithDesc_clears (fun x => x.deps.contains i) (spenderGone p i) e he (i1 ▸ List.mem_map_of_mem hoff)

theorem foldl_resolveInput_clears (l : List Nat) (p : Pool) (hnd : NoDoubleSpend p) :
    ∀ e ∈ l.foldl resolveInput p, ∀ i ∈ l, i ∉ e.spent ∧ i ∉ e.deps := by
  induction l generalizing p with
  | nil => intro e _ i hi; simp at hi
  | cons x xs ih =>
    intro e he i hi
    simp only [List.foldl_cons] at he
    rcases List.mem_cons.mp hi with rfl | h
    · obtain ⟨e0, he0, _, i2, i3, _⟩ := sub_foldl _ sub_resolveInput xs (resolveInput p i) e he
      have := resolveInput_clears i hnd e0 he0
      exact ⟨i2 ▸ this.1, i3 ▸ this.2⟩
    · exact ih _ (hnd.sub (sub_resolveInput p x)) e he i h

theorem foldl_removeCommitted_clears (l : List CTx) (p : Pool) (hnd : NoDoubleSpend p) :
    ∀ e ∈ l.foldl removeCommitted p, ∀ t ∈ l, ∀ i ∈ t.spent, i ∉ e.spent ∧ i ∉ e.deps := by
  induction l generalizing p with
  | nil => intro e _ t ht; simp at ht
  | cons x xs ih =>
    intro e he t ht i hi
    simp only [List.foldl_cons] at he
    rcases List.mem_cons.mp ht with rfl | h
    · obtain ⟨e0, he0, _, i2, i3, _⟩ := sub_foldl _ sub_removeCommitted xs (removeCommitted p t) e he
      have := foldl_resolveInput_clears t.spent (removeEntry p t.id) (hnd.sub (sub_removeEntry p t.id)) e0 he0 i hi
      exact ⟨i2 ▸ this.1, i3 ▸ this.2⟩
    · exact ih _ (hnd.sub (sub_removeCommitted p x)) e he t h i hi

theorem sub_update_attached (p : Pool) (a : Args) : Sub (update p a) (a.attached.foldl removeCommitted p) := by
  unfold update
  exact (sub_update_tail a _).trans (sub_resolveHeaderDeps _ _)

end CkbVerif.Reorg
