import CkbVerif.Model.Reorg

/-! Helper lemmas for `Props/C12.lean`. Core Lean only. -/
namespace CkbVerif.Reorg

/-- `q` consists of entries of `p`, possibly at another stage -/
def Sub (q p : Pool) : Prop :=
  ∀ e ∈ q, ∃ e0 ∈ p, e.id = e0.id ∧ e.spent = e0.spent ∧ e.deps = e0.deps ∧ e.hdeps = e0.hdeps

theorem Sub.refl (p : Pool) : Sub p p := fun e he => ⟨e, he, rfl, rfl, rfl, rfl⟩

theorem Sub.trans {a b c : Pool} (h1 : Sub a b) (h2 : Sub b c) : Sub a c := by
  intro e he
  obtain ⟨e1, he1, a1, a2, a3, a4⟩ := h1 e he
  obtain ⟨e2, he2, b1, b2, b3, b4⟩ := h2 e1 he1
  exact ⟨e2, he2, a1.trans b1, a2.trans b2, a3.trans b3, a4.trans b4⟩

theorem Sub.of_filter (p : Pool) (f : PEnt → Bool) : Sub (p.filter f) p :=
  fun e he => ⟨e, (List.mem_filter.mp he).1, rfl, rfl, rfl, rfl⟩

theorem sub_removeEntry (p : Pool) (id : Nat) : Sub (removeEntry p id) p := Sub.of_filter _ _
theorem sub_removeWithDesc (p : Pool) (id : Nat) : Sub (removeWithDesc p id) p := Sub.of_filter _ _

theorem sub_foldl {α} (f : Pool → α → Pool) (hf : ∀ q a, Sub (f q a) q) (l : List α) (p : Pool) :
    Sub (l.foldl f p) p := by
  induction l generalizing p with
  | nil => exact Sub.refl p
  | cons a as ih => exact (ih (f p a)).trans (hf p a)

theorem sub_resolveInput (p : Pool) (i : Nat) : Sub (resolveInput p i) p := by
  unfold resolveInput
  have h1 : Sub (match p.find? (fun e => e.spent.contains i) with
      | some e => removeWithDesc p e.id | none => p) p := by
    split
    · exact sub_removeWithDesc _ _
    · exact Sub.refl p
  exact (sub_foldl (fun q (e : PEnt) => removeWithDesc q e.id) (fun q e => sub_removeWithDesc q e.id) _ _).trans h1

theorem sub_removeCommitted (p : Pool) (tx : Tx) : Sub (removeCommitted p tx) p :=
  (sub_foldl _ sub_resolveInput _ _).trans (sub_removeEntry p tx.id)

theorem sub_resolveHeaderDeps (p : Pool) (hs : List Nat) : Sub (resolveHeaderDeps p hs) p :=
  sub_foldl (fun q (e : PEnt) => removeWithDesc q e.id) (fun q e => sub_removeWithDesc q e.id) _ _

theorem sub_map_status (p : Pool) (f : PEnt → PEnt)
    (hf : ∀ e, (f e).id = e.id ∧ (f e).spent = e.spent ∧ (f e).deps = e.deps ∧ (f e).hdeps = e.hdeps) :
    Sub (p.map f) p := by
  intro e he
  obtain ⟨e0, he0, rfl⟩ := List.mem_map.mp he
  exact ⟨e0, he0, (hf e0).1, (hf e0).2.1, (hf e0).2.2.1, (hf e0).2.2.2⟩

theorem sub_detachProposal (p : Pool) (id : Nat) : Sub (detachProposal p id) p := by
  unfold detachProposal
  split
  · split
    · exact Sub.refl p
    · apply sub_map_status
      intro e; split <;> simp
  · exact Sub.refl p

theorem moveStage_core (a : Args) (e : PEnt) :
    (moveStage a e).id = e.id ∧ (moveStage a e).spent = e.spent ∧ (moveStage a e).deps = e.deps ∧
    (moveStage a e).hdeps = e.hdeps := by
  unfold moveStage
  repeat' split
  all_goals simp

/-- phases after `remove_committed_txs`/`resolve_conflict_header_dep` only drop entries or change stages -/
theorem sub_update_tail (a : Args) (p2 : Pool) :
    Sub (a.expired.foldl removeWithDesc ((a.detachedProposals.foldl detachProposal p2).map (moveStage a))) p2 :=
  ((sub_foldl _ sub_removeWithDesc _ _).trans (sub_map_status _ _ (moveStage_core a))).trans
    (sub_foldl _ sub_detachProposal _ _)

/-! ### what each removal guarantees -/

theorem removeWithDesc_no_id (p : Pool) (id : Nat) : ∀ e ∈ removeWithDesc p id, e.id ≠ id := by
  intro e he
  have := (List.mem_filter.mp he).2
  simp only [Bool.and_eq_true, bne_iff_ne, ne_eq] at this
  exact this.1

theorem removeWithDesc_no_desc (p : Pool) (id : Nat) : ∀ e ∈ removeWithDesc p id, e.id ∉ descOf p id := by
  intro e he
  have := (List.mem_filter.mp he).2
  simp only [Bool.and_eq_true, Bool.not_eq_true', List.contains_eq_mem, decide_eq_false_iff_not] at this
  exact this.2

/-- folding `remove_entry_and_descendants` over a list leaves none of the listed ids -/
theorem foldl_removeWithDesc_no_id (l : List Nat) (p : Pool) :
    ∀ e ∈ l.foldl removeWithDesc p, e.id ∉ l := by
  induction l generalizing p with
  | nil => intro e _; simp
  | cons x xs ih =>
    intro e he hmem
    simp only [List.foldl_cons] at he
    rcases List.mem_cons.mp hmem with h | h
    · have hsub : Sub (xs.foldl removeWithDesc (removeWithDesc p x)) (removeWithDesc p x) :=
        sub_foldl _ sub_removeWithDesc _ _
      obtain ⟨e0, he0, hid, _⟩ := hsub e he
      exact removeWithDesc_no_id p x e0 he0 (hid ▸ h)
    · exact ih _ e he h

theorem removeEntry_no_id (p : Pool) (id : Nat) : ∀ e ∈ removeEntry p id, e.id ≠ id := by
  intro e he
  have := (List.mem_filter.mp he).2
  simpa using this

/-- a property of (id, spent, deps, hdeps) that holds for no entry of `p` holds for no entry of a sub-pool -/
theorem Sub.forall {q p : Pool} (h : Sub q p) (P : Nat → List Nat → List Nat → List Nat → Prop)
    (hp : ∀ e ∈ p, P e.id e.spent e.deps e.hdeps) : ∀ e ∈ q, P e.id e.spent e.deps e.hdeps := by
  intro e he
  obtain ⟨e0, he0, a1, a2, a3, a4⟩ := h e he
  rw [a1, a2, a3, a4]; exact hp e0 he0

/-- folding removals that each delete the entry they are named after leaves none of the named ids;
    `sel` picks the offenders from the original pool -/
theorem foldl_removeWithDesc_clears (sel : PEnt → Bool) (p : Pool) :
    ∀ e ∈ (p.filter sel).foldl (fun q x => removeWithDesc q x.id) p, e.id ∉ (p.filter sel).map (·.id) := by
  suffices h : ∀ (l : List PEnt) (q : Pool), (∀ e ∈ q, e.id ∉ ([] : List Nat)) →
      ∀ (done : List Nat), (∀ e ∈ q, e.id ∉ done) →
      ∀ e ∈ l.foldl (fun q x => removeWithDesc q x.id) q, e.id ∉ done ∧ e.id ∉ l.map (·.id) by
    intro e he
    exact (h (p.filter sel) p (by simp) [] (by simp) e he).2
  intro l
  induction l with
  | nil => intro q _ done hd e he; exact ⟨hd e he, by simp⟩
  | cons x xs ih =>
    intro q h0 done hd e he
    simp only [List.foldl_cons] at he
    have hq' : ∀ e ∈ removeWithDesc q x.id, e.id ∉ x.id :: done := by
      intro e he
      simp only [List.mem_cons, not_or]
      exact ⟨removeWithDesc_no_id q x.id e he, hd e (List.mem_filter.mp he).1⟩
    obtain ⟨h1, h2⟩ := ih (removeWithDesc q x.id) (by simp) (x.id :: done) hq' e he
    simp only [List.mem_cons, not_or] at h1
    refine ⟨h1.2, ?_⟩
    simp only [List.map_cons, List.mem_cons, not_or]
    exact ⟨h1.1, h2⟩

end CkbVerif.Reorg
