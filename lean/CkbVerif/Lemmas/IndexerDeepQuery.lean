import CkbVerif.Lemmas.IndexerDeep
import CkbVerif.Lemmas.IndexerBounded

/-! The QUERIES only read rows that are not ConsumedOutPoint rows, and the iteration order is a function
of the row set: two duplicate-free stores that agree outside the ConsumedOutPoint rows (`NcEq`), one of
them with in-range keys, give the same `get_cells`, `get_cells_capacity`, `get_transactions` (both
forms) answers, cursors included (C18: the answers after reorganisations of any depth). -/
namespace CkbVerif.Indexer
open CkbVerif.Gen.Indexer

theorem rowLt_irrefl_dq (x : Key × Val) : ¬ rowLt x x := by
  unfold rowLt
  rw [bytesLt_irrefl]
  exact Bool.false_ne_true

/-- two strictly ascending row lists with the same members are equal -/
theorem rowLt_strict_ext : ∀ (l1 l2 : List (Key × Val)), l1.Pairwise rowLt → l2.Pairwise rowLt →
    (∀ x, x ∈ l1 ↔ x ∈ l2) → l1 = l2
  | [], [], _, _, _ => rfl
  | [], b :: u, _, _, h => absurd ((h b).mpr List.mem_cons_self) (by simp)
  | a :: t, [], _, _, h => absurd ((h a).mp List.mem_cons_self) (by simp)
  | a :: t, b :: u, h1, h2, h => by
    rw [List.pairwise_cons] at h1 h2
    have hab : a = b := by
      have ha := (h a).mp List.mem_cons_self
      have hb := (h b).mpr List.mem_cons_self
      rcases List.mem_cons.mp ha with ha | ha
      · exact ha
      · rcases List.mem_cons.mp hb with hb | hb
        · exact hb.symm
        · have l1 : rowLt b a := h2.1 a ha
          have l2 : rowLt a b := h1.1 b hb
          unfold rowLt at l1 l2
          rw [bytesLt_asymm _ _ l1] at l2
          cases l2
    subst hab
    congr 1
    apply rowLt_strict_ext t u h1.2 h2.2
    intro x
    constructor
    · intro hx
      rcases List.mem_cons.mp ((h x).mp (List.mem_cons_of_mem _ hx)) with rfl | hx'
      · exact absurd (h1.1 x hx) (rowLt_irrefl_dq x)
      · exact hx'
    · intro hx
      rcases List.mem_cons.mp ((h x).mpr (List.mem_cons_of_mem _ hx)) with rfl | hx'
      · exact absurd (h2.1 x hx) (rowLt_irrefl_dq x)
      · exact hx'

theorem not_consumed_of_scriptKey (k : Key) (h : k.isScriptKey = true) : ∀ bn op, k ≠ .consumed bn op := by
  intro bn op e
  rw [e] at h
  cases h

/-- the prefix scan of a script-indexed family is the same in both stores -/
theorem scan_ncEq {S C : Store} (hS : NodupKeys S) (hC : NodupKeys C) (h : NcEq S C) (hkb : KeysBounded C)
    (fam : Nat) (rest : List Nat)
    (hf : fam = KP_CELL_LOCK_SCRIPT ∨ fam = KP_CELL_TYPE_SCRIPT ∨ fam = KP_TX_LOCK_SCRIPT ∨ fam = KP_TX_TYPE_SCRIPT) :
    scan S (fam :: rest) = scan C (fam :: rest) := by
  have hmem : ∀ e : Key × Val, isPrefix (fam :: rest) e.1.bytes = true → (e ∈ S ↔ e ∈ C) := by
    rintro ⟨k, v⟩ hp
    have hs := isScriptKey_of_prefix k fam rest hf hp
    rw [mem_iff_get _ hS, mem_iff_get _ hC, h k (not_consumed_of_scriptKey k hs)]
  have hstrictS : (scan S (fam :: rest)).Pairwise rowLt := by
    unfold scan
    apply sortRows_strict
    have hp := (nodupKeys_pairwise S hS).sublist
      (List.filter_sublist (p := fun e => isPrefix (fam :: rest) e.1.bytes))
    apply List.Pairwise.imp_of_mem _ hp
    intro x y hx hy hne heq
    rw [List.mem_filter] at hx hy
    have hxC := (hmem x hx.2).mp hx.1
    have hyC := (hmem y hy.2).mp hy.1
    exact hne (bytes_inj x.1 y.1 (isScriptKey_of_prefix _ fam rest hf hx.2) (hkb x hxC) (hkb y hyC) heq)
  apply rowLt_strict_ext _ _ hstrictS (scan_strict C hC hkb fam rest hf)
  intro x
  rw [mem_scan, mem_scan]
  constructor
  · rintro ⟨h1, h2⟩; exact ⟨(hmem x h2).mp h1, h2⟩
  · rintro ⟨h1, h2⟩; exact ⟨(hmem x h2).mpr h1, h2⟩

theorem cellRows_ncEq {S C : Store} (h : NcEq S C) (ls : Bool) (q : Script) (exact : Bool) (f : Filter)
    (lenIncl : Bool) (rows : List (Key × Val)) :
    cellRows S ls q exact f lenIncl rows = cellRows C ls q exact f lenIncl rows := by
  have hg : ∀ op, get S (.outPoint op) = get C (.outPoint op) := fun op => h _ (by intro _ _ e; cases e)
  unfold cellRows
  simp only [hg]

theorem cellPrefix_fam4 (ls : Bool) (q : Script) :
    ∃ fam rest, cellPrefix ls q = fam :: rest ∧ (fam = KP_CELL_LOCK_SCRIPT ∨ fam = KP_CELL_TYPE_SCRIPT ∨
      fam = KP_TX_LOCK_SCRIPT ∨ fam = KP_TX_TYPE_SCRIPT) := by
  cases ls
  · exact ⟨_, _, rfl, Or.inr (Or.inl (by simp))⟩
  · exact ⟨_, _, rfl, Or.inl (by simp)⟩

theorem txPrefix_fam4 (ls : Bool) (q : Script) :
    ∃ fam rest, txPrefix ls q = fam :: rest ∧ (fam = KP_CELL_LOCK_SCRIPT ∨ fam = KP_CELL_TYPE_SCRIPT ∨
      fam = KP_TX_LOCK_SCRIPT ∨ fam = KP_TX_TYPE_SCRIPT) := by
  cases ls
  · exact ⟨_, _, rfl, Or.inr (Or.inr (Or.inr (by simp)))⟩
  · exact ⟨_, _, rfl, Or.inr (Or.inr (Or.inl (by simp)))⟩

theorem txRowPasses_ncEq {S C : Store} (h : NcEq S C) (ls : Bool) (fs : Option Script) (br : Option (Nat × Nat)) :
    txRowPasses S ls fs br = txRowPasses C ls fs br := by
  funext r
  unfold txRowPasses
  cases fs with
  | none => rfl
  | some f =>
    dsimp only
    cases ls
    · rw [h _ (by intro _ _ e; simp at e)]
    · rw [h _ (by intro _ _ e; simp at e)]

/-- **every query answers the same in both stores** -/
theorem queries_ncEq {S C : Store} (hS : NodupKeys S) (hC : NodupKeys C) (h : NcEq S C) (hkb : KeysBounded C) :
    (∀ ls q exact f desc limit cursor, getCells S ls q exact f desc limit cursor = getCells C ls q exact f desc limit cursor) ∧
    (∀ ls q exact f, getCellsCapacity S ls q exact f = getCellsCapacity C ls q exact f) ∧
    (∀ ls q exact fs br desc limit cursor,
      getTxs S ls q exact fs br desc limit cursor = getTxs C ls q exact fs br desc limit cursor) ∧
    (∀ ls q exact fs br desc limit cursor,
      getTxsGrouped S ls q exact fs br desc limit cursor = getTxsGrouped C ls q exact fs br desc limit cursor) ∧
    tip S = tip C := by
  refine ⟨?_, ?_, ?_, ?_, tip_congr S C (headerRows_ncEq hS hC h)⟩
  · intro ls q exact f desc limit cursor
    obtain ⟨fam, rest, hp, hf⟩ := cellPrefix_fam4 ls q
    unfold getCells
    rw [hp, scan_ncEq hS hC h hkb fam rest hf]
    simp only [cellRows_ncEq h]
  · intro ls q exact f
    obtain ⟨fam, rest, hp, hf⟩ := cellPrefix_fam4 ls q
    unfold getCellsCapacity
    rw [hp, scan_ncEq hS hC h hkb fam rest hf, cellRows_ncEq h]
  · intro ls q exact fs br desc limit cursor
    obtain ⟨fam, rest, hp, hf⟩ := txPrefix_fam4 ls q
    unfold getTxs
    rw [hp]
    dsimp only
    rw [scan_ncEq hS hC h hkb fam rest hf, txRowPasses_ncEq h]
  · intro ls q exact fs br desc limit cursor
    obtain ⟨fam, rest, hp, hf⟩ := txPrefix_fam4 ls q
    have hg : groupLoop S ls fs br limit = groupLoop C ls fs br limit := by
      funext rows acc last
      induction rows generalizing acc last with
      | nil => rfl
      | cons r rest' ih =>
        unfold groupLoop
        simp only [txRowPasses_ncEq h, ih]
    unfold getTxsGrouped
    rw [hp]
    dsimp only
    rw [scan_ncEq hS hC h hkb fam rest hf, hg]

end CkbVerif.Indexer
