import CkbVerif.Lemmas.IndexerStep
import CkbVerif.Lemmas.IndexerScan

/-! Unique keys, and the live-cell invariant along a chain of appends (C18). -/
namespace CkbVerif.Indexer

/-- every key occurs at most once (true of every store built by put/delete) -/
def NodupKeys : Store → Prop
  | [] => True
  | e :: r => get r e.1 = none ∧ NodupKeys r

theorem nodup_del (s : Store) (k : Key) (h : NodupKeys s) : NodupKeys (del s k) := by
  induction s with
  | nil => trivial
  | cons e r ih =>
    rw [del_cons]
    obtain ⟨h1, h2⟩ := h
    by_cases hk : e.1 = k
    · simp only [hk, if_true]; exact ih h2
    · simp only [hk, if_false]
      refine ⟨?_, ih h2⟩
      rw [get_del_other r e.1 k (fun h => hk h.symm)]
      exact h1

theorem nodup_put (s : Store) (k : Key) (v : Val) (h : NodupKeys s) : NodupKeys (put s k v) :=
  ⟨get_del_same s k, nodup_del s k h⟩

theorem nodup_commit (ops : List BOp) (s : Store) (h : NodupKeys s) : NodupKeys (commit s ops) := by
  induction ops generalizing s with
  | nil => exact h
  | cons o r ih =>
    apply ih
    cases o with
    | put k v => exact nodup_put s k v h
    | del k => exact nodup_del s k h

theorem nodup_append (keep interval : Nat) (s : Store) (b : Block) (h : NodupKeys s) :
    NodupKeys (append keep interval s b) := by
  unfold append
  dsimp only
  split
  · exact nodup_commit _ _ (nodup_commit _ _ h)
  · exact nodup_commit _ _ h

/-- with unique keys, list membership of a row is `get` -/
theorem mem_iff_get (s : Store) (h : NodupKeys s) (k : Key) (v : Val) :
    (k, v) ∈ s ↔ get s k = some v := by
  induction s with
  | nil => simp [get]
  | cons e r ih =>
    obtain ⟨h1, h2⟩ := h
    rw [List.mem_cons, get_cons, ih h2]
    constructor
    · rintro (he | hr)
      · subst he; simp
      · have : e.1 ≠ k := by
          intro hk; rw [hk, hr] at h1; cases h1
        simp [this, hr]
    · intro hg
      by_cases hk : e.1 = k
      · simp only [hk, if_true] at hg
        left
        cases hg
        cases e
        simp_all
      · simp only [hk, if_false] at hg
        exact Or.inr hg

/-- a chain of blocks, each well-formed for the store it is appended to -/
def ChainOK (keep interval : Nat) : Store → List Block → Prop
  | _, [] => True
  | s, b :: r => WFAppend s b ∧ ChainOK keep interval (append keep interval s b) r

theorem lockInv_append_prune (keep interval : Nat) (s : Store) (b : Block) (wf : WFAppend s b)
    (inv : LockInv s) : LockInv (append keep interval s b) := by
  have hcore := lockInv_append s b wf inv
  unfold append
  dsimp only
  split
  · intro sc bn txi io t
    rw [prune_answers, prune_answers]
    · exact hcore sc bn txi io t
    · rfl
    · rfl
  · exact hcore
where
  prune_answers {s : Store} {keep : Nat} {k : Key} (hk : k.isAnswer = true) :
      get (prune s keep) k = get s k := by
    unfold prune
    apply get_commit_untouched
    intro o ho heq
    obtain ⟨k', hk', ha, _⟩ := pruneOps_dels s keep o ho
    subst hk'
    simp only [BOp.key] at heq
    rw [heq, hk] at ha
    cases ha

/-- **the live-cell index is exact after any chain of well-formed appends** -/
theorem lockInv_chain (keep interval : Nat) (blocks : List Block) (s : Store) (inv : LockInv s)
    (ok : ChainOK keep interval s blocks) : LockInv (blocks.foldl (append keep interval) s) := by
  induction blocks generalizing s with
  | nil => exact inv
  | cons b r ih =>
    obtain ⟨wf, ok'⟩ := ok
    exact ih _ (lockInv_append_prune keep interval s b wf inv) ok'

theorem nodup_chain (keep interval : Nat) (blocks : List Block) (s : Store) (h : NodupKeys s) :
    NodupKeys (blocks.foldl (append keep interval) s) := by
  induction blocks generalizing s with
  | nil => exact h
  | cons b r ih => exact ih _ (nodup_append keep interval s b h)

theorem lockInv_empty : LockInv [] := by
  intro sc bn txi io t
  simp [get]

end CkbVerif.Indexer

namespace CkbVerif.Indexer

theorem mem_of_get (s : Store) (k : Key) (v : Val) (h : get s k = some v) : (k, v) ∈ s := by
  induction s with
  | nil => cases h
  | cons e r ih =>
    rw [get_cons] at h
    by_cases hk : e.1 = k
    · simp only [hk, if_true] at h
      cases h
      obtain ⟨k', v'⟩ := e
      simp only at hk
      subst hk
      exact List.mem_cons_self
    · simp only [hk, if_false] at h
      exact List.mem_cons_of_mem _ (ih h)

theorem get_none_of (s : Store) (k : Key) (h : ∀ e ∈ s, e.1 ≠ k) : get s k = none := by
  induction s with
  | nil => rfl
  | cons e r ih =>
    rw [get_cons]
    have : e.1 ≠ k := h e (by simp)
    simp only [this, if_false]
    exact ih (fun e' he' => h e' (by simp [he']))

theorem idInj_of_nodup (l : List Tx) (h : (l.map (·.id)).Nodup) (i j : Nat) (a b' : Tx)
    (hi : l[i]? = some a) (hj : l[j]? = some b') (hid : a.id = b'.id) : i = j := by
  rw [List.nodup_iff_pairwise_ne, List.pairwise_iff_getElem] at h
  obtain ⟨hi1, hi2⟩ := List.getElem?_eq_some_iff.mp hi
  obtain ⟨hj1, hj2⟩ := List.getElem?_eq_some_iff.mp hj
  rcases Nat.lt_trichotomy i j with hlt | heq | hgt
  · have := h i j (by simpa using hi1) (by simpa using hj1) hlt
    simp only [List.getElem_map, hi2, hj2] at this
    exact absurd hid this
  · exact heq
  · have := h j i (by simpa using hj1) (by simpa using hi1) hgt
    simp only [List.getElem_map, hi2, hj2] at this
    exact absurd hid.symm this

/-- a decidable sufficient condition for `WFAppend` (used by the examples) -/
def wfAppendB (s : Store) (b : Block) : Bool :=
  decide ((b.txs.map (·.id)).Nodup) &&
  s.all (fun e => match e with
    | (.outPoint op, .cell c) => b.txs.all (fun tx => tx.id ≠ op.tx) && c.bn ≠ b.number
    | (.outPoint _, _) => false
    | _ => true) &&
  b.txs.all (fun tx => tx.inputs.all fun op => b.txs.all fun tx' => tx'.id ≠ op.tx)

theorem wfAppend_of_B (s : Store) (b : Block) (h : wfAppendB s b = true) : WFAppend s b := by
  simp only [wfAppendB, Bool.and_eq_true, decide_eq_true_eq, List.all_eq_true] at h
  obtain ⟨⟨h1, h2⟩, h3⟩ := h
  have hrow : ∀ op v, get s (.outPoint op) = some v →
      ∃ c, v = .cell c ∧ (∀ tx ∈ b.txs, tx.id ≠ op.tx) ∧ c.bn ≠ b.number := by
    intro op v hg
    have := h2 _ (mem_of_get s _ v hg)
    cases v with
    | cell c =>
      simp only [Bool.and_eq_true, List.all_eq_true, decide_eq_true_eq, ne_eq] at this
      exact ⟨c, rfl, this.1, this.2⟩
    | tx _ => simp at this
    | inputs _ => simp at this
    | txs _ => simp at this
  refine ⟨?_, ?_, ?_, ?_, ?_⟩
  · intro i i' tx tx' hi hi' hid
    exact idInj_of_nodup b.txs h1 i i' tx tx' hi hi' hid
  · intro tx htx oi
    cases hg : get s (.outPoint ⟨tx.id, oi⟩) with
    | none => rfl
    | some v =>
      obtain ⟨c, _, hne, _⟩ := hrow _ v hg
      exact absurd rfl (hne tx htx)
  · intro op v hg
    obtain ⟨c, hc, _, _⟩ := hrow op v hg
    exact ⟨c, hc⟩
  · intro op c hg
    obtain ⟨c', hc', _, hbn⟩ := hrow op _ hg
    cases hc'
    exact hbn
  · intro i tx htx op hop tx' htx'
    have := h3 tx (List.mem_of_getElem? htx) op hop tx' htx'
    simpa using this

end CkbVerif.Indexer
