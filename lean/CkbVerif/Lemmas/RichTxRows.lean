import CkbVerif.Lemmas.RichTxPage

/-! Rich-indexer (relational model): the rows of `get_transactions` are exactly the matching output
rows and the input rows whose spent output matches (C18). -/
namespace CkbVerif.Rich
open CkbVerif.Indexer

theorem mem_insertBy {α : Type} (lt : α → α → Bool) (r x : α) (l : List α) :
    x ∈ insertBy lt r l ↔ x = r ∨ x ∈ l := by
  induction l with
  | nil => simp [insertBy]
  | cons y ys ih =>
    unfold insertBy
    split
    · simp only [List.mem_cons, ih]
      constructor
      · rintro (h | h | h)
        · exact Or.inr (Or.inl h)
        · exact Or.inl h
        · exact Or.inr (Or.inr h)
      · rintro (h | h | h)
        · exact Or.inr (Or.inl h)
        · exact Or.inl h
        · exact Or.inr (Or.inr h)
    · simp

theorem mem_sortBy {α : Type} (lt : α → α → Bool) (x : α) (l : List α) : x ∈ sortBy lt l ↔ x ∈ l := by
  unfold sortBy
  induction l with
  | nil => simp
  | cons y ys ih => simp only [List.foldr_cons, mem_insertBy, ih, List.mem_cons]

/-- the UNION ALL sub-query: an output-part row is a matching output row, an input-part row is an
input row whose spent output row (first row with that id) matches -/
theorem mem_unionRows (db : DB) (ls : Bool) (m : Mode) (q : Script) (f : Filter) (tid : Nat) (isIn : Bool) (io : Nat) :
    (tid, isIn, io) ∈ unionRows db ls m q f ↔
      (isIn = false ∧ ∃ o ∈ db.outs, outMatches db ls m q f o = true ∧ o.txId = tid ∧ o.index = io) ∨
      (isIn = true ∧ ∃ i ∈ db.ins, ∃ o, db.outs.find? (fun o => o.id = i.outputId) = some o ∧
        outMatches db ls m q f o = true ∧ i.consumedTx = tid ∧ i.index = io) := by
  unfold unionRows
  rw [List.mem_append, List.mem_filterMap, List.mem_filterMap]
  constructor
  · rintro (⟨o, ho, h⟩ | ⟨i, hi, h⟩)
    · left
      split at h
      next hm =>
        simp only [Option.some.injEq, Prod.mk.injEq] at h
        exact ⟨h.2.1.symm, o, ho, hm, h.1, h.2.2⟩
      next => cases h
    · right
      rw [mem_sortBy] at hi
      split at h
      next o hf =>
        split at h
        next hm =>
          simp only [Option.some.injEq, Prod.mk.injEq] at h
          exact ⟨h.2.1.symm, i, hi, o, hf, hm, h.1, h.2.2⟩
        next => cases h
      next => cases h
  · rintro (⟨rfl, o, ho, hm, rfl, rfl⟩ | ⟨rfl, i, hi, o, hf, hm, rfl, rfl⟩)
    · left
      exact ⟨o, ho, by simp [hm]⟩
    · right
      exact ⟨i, (mem_sortBy _ _ _).mpr hi, by simp [hf, hm]⟩

/-- **the rows of `get_transactions`** (before ORDER BY / LIMIT): `r` is answered iff its transaction
and block rows exist, the block number passes `block_range`, and it is either an OUTPUT row of a
matching output of that transaction or an INPUT row of that transaction whose spent output matches
(searched script by mode + every output filter, read on the spent cell). -/
theorem mem_txRows (db : DB) (ls : Bool) (m : Mode) (q : Script) (f : Filter) (r : RTxRow) :
    r ∈ txRows db ls m q f ↔
      ∃ t b, txById db r.txId = some t ∧ blockById db t.blockId = some b ∧
        inRangeC f.blockRange b.number = true ∧ r.tx = t.hash ∧ r.bn = b.number ∧ r.txIdx = t.txIndex ∧
        (r.txId, r.isInput, r.io) ∈ unionRows db ls m q f := by
  unfold txRows
  rw [List.mem_filterMap]
  constructor
  · rintro ⟨⟨tid, isIn, io⟩, hu, h⟩
    simp only at h
    split at h
    next t ht =>
      split at h
      next b hb =>
        split at h
        next hr =>
          cases h
          exact ⟨t, b, ht, hb, hr, rfl, rfl, rfl, hu⟩
        next => cases h
      next => cases h
    next => cases h
  · rintro ⟨t, b, ht, hb, hr, h1, h2, h3, hu⟩
    refine ⟨(r.txId, r.isInput, r.io), hu, ?_⟩
    simp only [ht, hb, hr, if_true]
    cases r
    simp_all

end CkbVerif.Rich
