/-
C11 helper lemmas, part 8: the weight sums behind the aggregates (`sumW`), as a commutative fold:
invariant under permutation, under changes that keep the transactions, and additive under inserting /
removing one element of a duplicate-free list.
-/
import CkbVerif.Lemmas.PoolClosure
namespace CkbVerif.Pool

theorem W.ext' {a b : W} (h1 : a.count = b.count) (h2 : a.size = b.size) (h3 : a.cycles = b.cycles) (h4 : a.fee = b.fee) :
    a = b := by
  cases a; cases b; simp only [W.mk.injEq]; exact ⟨h1, h2, h3, h4⟩

theorem W.add_zero (a : W) : a.add W.zero = a := by apply W.ext' <;> simp [W.add, W.zero]
theorem W.zero_add (a : W) : W.zero.add a = a := by apply W.ext' <;> simp [W.add, W.zero]
theorem W.add_comm (a b : W) : a.add b = b.add a := by apply W.ext' <;> simp [W.add] <;> omega
theorem W.add_assoc (a b c : W) : (a.add b).add c = a.add (b.add c) := by apply W.ext' <;> simp [W.add] <;> omega
theorem W.add_right_comm (a b c : W) : (a.add b).add c = (a.add c).add b := by apply W.ext' <;> simp [W.add] <;> omega
theorem W.add_sub_cancel (a b : W) : (a.add b).sub b = a := by apply W.ext' <;> simp [W.add, W.sub]
theorem W.add_add_sub_cancel (a b c : W) : (a.add (b.add c)).sub c = a.add b := by
  apply W.ext' <;> simp [W.add, W.sub] <;> omega

/-- the weight of a pooled transaction (zero for an id that is not pooled) -/
def wOf (s : Pool) (id : Nat) : W := match getEntry s id with
  | some e => e.tx.w
  | none => W.zero

theorem sumW_eq (s : Pool) (ids : List Nat) : sumW s ids = ids.foldl (fun acc id => acc.add (wOf s id)) W.zero := by
  unfold sumW
  congr 1
  funext acc id
  unfold wOf
  cases getEntry s id with
  | none => exact (W.add_zero acc).symm
  | some e => rfl

theorem foldW_init (s : Pool) (ids : List Nat) (init : W) :
    ids.foldl (fun acc id => acc.add (wOf s id)) init = init.add (ids.foldl (fun acc id => acc.add (wOf s id)) W.zero) := by
  induction ids generalizing init with
  | nil => exact (W.add_zero init).symm
  | cons a l ih =>
    simp only [List.foldl_cons]
    rw [ih (init.add (wOf s a)), ih (W.zero.add (wOf s a)), W.zero_add, W.add_assoc]

theorem sumW_cons (s : Pool) (a : Nat) (l : List Nat) : sumW s (a :: l) = (wOf s a).add (sumW s l) := by
  rw [sumW_eq, sumW_eq, List.foldl_cons, foldW_init, W.zero_add]

theorem sumW_nil (s : Pool) : sumW s [] = W.zero := rfl

theorem sumW_perm (s : Pool) {l1 l2 : List Nat} (p : l1.Perm l2) : sumW s l1 = sumW s l2 := by
  rw [sumW_eq, sumW_eq]
  exact List.Perm.foldl_eq' p (fun x _ y _ z => W.add_right_comm z (wOf s x) (wOf s y)) W.zero

theorem sumW_congr {s s' : Pool} (l : List Nat) (h : ∀ id ∈ l, wOf s id = wOf s' id) : sumW s l = sumW s' l := by
  induction l with
  | nil => rfl
  | cons a l ih =>
    rw [sumW_cons, sumW_cons, h a List.mem_cons_self, ih (fun id hid => h id (List.mem_cons_of_mem _ hid))]

/-- two duplicate-free lists with the same members have the same sum -/
theorem sumW_ext (s : Pool) {l1 l2 : List Nat} (h1 : l1.Nodup) (h2 : l2.Nodup) (h : ∀ y, y ∈ l1 ↔ y ∈ l2) :
    sumW s l1 = sumW s l2 :=
  sumW_perm s ((List.perm_ext_iff_of_nodup h1 h2).mpr h)

/-- one more member -/
theorem sumW_insert (s : Pool) {l l' : List Nat} {z : Nat} (hl : l.Nodup) (hl' : l'.Nodup) (hz : z ∉ l)
    (h : ∀ y, y ∈ l' ↔ y ∈ l ∨ y = z) : sumW s l' = (sumW s l).add (wOf s z) := by
  have : l'.Perm (z :: l) := by
    refine (List.perm_ext_iff_of_nodup hl' (List.nodup_cons.mpr ⟨hz, hl⟩)).mpr fun y => ?_
    rw [h y, List.mem_cons]; exact or_comm
  rw [sumW_perm s this, sumW_cons, W.add_comm]

/-- the weights only depend on the pooled transactions -/
theorem wOf_congr {s s' : Pool} (id : Nat) (h : (getEntry s id).map (·.tx) = (getEntry s' id).map (·.tx)) :
    wOf s id = wOf s' id := by
  unfold wOf
  cases h1 : getEntry s id <;> cases h2 : getEntry s' id <;> rw [h1, h2] at h <;> simp at h
  all_goals first | rfl | (show Tx.w _ = Tx.w _; rw [h])

end CkbVerif.Pool
