import CkbVerif.Model.DaoRaw
import CkbVerif.Lemmas.Dao

/-! Helper lemmas for `Model/DaoRaw.lean` (C06). Core Lean only. -/
namespace CkbVerif.Dao
open CkbVerif.Arith

theorem throw_ne_ok {α : Type} {e : Err} {a : α} : (throw e : R α) ≠ .ok a := by
  simp [throw, throwThe, MonadExceptOf.throw]

theorem bind_error {α β : Type} {x : R α} {f : α → R β} {e : Err} :
    (x >>= f) = .error e ↔ x = .error e ∨ ∃ a, x = .ok a ∧ f a = .error e := by
  cases x <;> simp [bind, Except.bind]

theorem throw_error {α : Type} {e e' : Err} : (throw e : R α) = .error e' ↔ e = e' := by
  simp [throw, throwThe, MonadExceptOf.throw]

theorem pure_ne_error {α : Type} {a : α} {e : Err} : (pure a : R α) ≠ .error e := by
  simp [pure, Except.pure]

theorem ok_bind {α β : Type} (a : α) (f : α → R β) : ((Except.ok a : R α) >>= f) = f a := rfl

theorem inputMaxWithdraw_daoW (c : Cell) (dn da wn wa : Nat) :
    inputMaxWithdraw ⟨c, .daoWithdraw dn da wn wa⟩ =
      (capBytes c.dataBytes >>= fun d => maxWithdrawWith c d dn da wn wa) := rfl

/-! ### steps 3 and 4 -/

theorem withdrawingHeaderHash_ok {deps : List Nat} {i : RawInput} {h : Nat} :
    withdrawingHeaderHash deps i = .ok h ↔
      ∃ info, i.txInfo = some info ∧ info.blockHash ∈ deps ∧ h = info.blockHash := by
  unfold withdrawingHeaderHash
  cases hi : i.txInfo with
  | none => simp [throw_ne_ok]
  | some info =>
    by_cases hc : deps.contains info.blockHash = true
    · simp only [hc, if_true, pure_ok]
      constructor
      · rintro rfl; exact ⟨info, rfl, by simpa using hc, rfl⟩
      · rintro ⟨info', h1, _, rfl⟩; cases h1; rfl
    · simp only [hc]
      constructor
      · intro h; exact absurd h throw_ne_ok
      · rintro ⟨info', h1, h2, _⟩
        cases h1
        exact absurd (by simpa using h2) hc

theorem depositHeaderIndex_ok {ws : List RawWitness} {k idx : Nat} :
    depositHeaderIndex ws k = .ok idx ↔ ws[k]? = some (.args (some (8, idx))) := by
  unfold depositHeaderIndex
  cases hw : ws[k]? with
  | none => simp [throw_ne_ok]
  | some w =>
    cases w with
    | malformed => simp [throw_ne_ok]
    | args it =>
      cases it with
      | none => simp [throw_ne_ok]
      | some lv =>
        obtain ⟨len, v⟩ := lv
        by_cases hl : len = 8
        · subst hl; simp [pure_ok]
        · simp [hl, throw_ne_ok]

theorem depositHeaderHash_ok {deps : List Nat} {ws : List RawWitness} {k h : Nat} :
    depositHeaderHash deps ws k = .ok h ↔
      ∃ idx, ws[k]? = some (.args (some (8, idx))) ∧ deps[idx]? = some h := by
  unfold depositHeaderHash
  simp only [bind_ok, depositHeaderIndex_ok]
  constructor
  · rintro ⟨idx, h1, h2⟩
    refine ⟨idx, h1, ?_⟩
    cases hd : deps[idx]? with
    | none => rw [hd] at h2; exact absurd h2 throw_ne_ok
    | some x => rw [hd] at h2; simp only [pure_ok] at h2; rw [h2]
  · rintro ⟨idx, h1, h2⟩
    exact ⟨idx, h1, by rw [h2]; simp [pure_ok]⟩

theorem maxWithdrawRaw_ok {hdr : Headers} {c : Cell} {d dep wd w : Nat} :
    maxWithdrawRaw hdr c d dep wd = .ok w ↔
      ∃ dn da wn wa, hdr dep = some (dn, da) ∧ hdr wd = some (wn, wa) ∧
        maxWithdrawWith c d dn da wn wa = .ok w := by
  unfold maxWithdrawRaw
  cases h1 : hdr dep with
  | none => simp [throw_ne_ok]
  | some a =>
    obtain ⟨dn, da⟩ := a
    cases h2 : hdr wd with
    | none => simp [throw_ne_ok]
    | some b =>
      obtain ⟨wn, wa⟩ := b
      constructor
      · intro h; exact ⟨dn, da, wn, wa, rfl, rfl, h⟩
      · rintro ⟨_, _, _, _, e1, e2, h⟩
        cases e1; cases e2; exact h

/-! ### refinement: raw input → kind-level input -/

theorem raw_input_refines {hdr : Headers} {deps : List Nat} {ws : List RawWitness} {k : Nat}
    {i : RawInput} {kd : InKind} (h : kindOf hdr deps ws k i = some kd) :
    rawInputMaxWithdraw hdr deps ws k i = inputMaxWithdraw ⟨i.cell, kd⟩ ∧
    rawModifiedOccupied i = modifiedOccupied ⟨i.cell, kd⟩ := by
  unfold kindOf at h
  cases hw : isDaoWithdrawing i with
  | true =>
    rw [hw] at h
    simp only [if_true] at h
    cases hs : isSatoshiInput i with
    | true => rw [hs] at h; simp at h
    | false =>
      rw [hs] at h
      simp only [Bool.false_eq_true, if_false] at h
      cases e1 : withdrawingHeaderHash deps i with
      | error e => rw [e1] at h; simp at h
      | ok wd =>
        cases e2 : depositHeaderHash deps ws k with
        | error e => rw [e1, e2] at h; simp at h
        | ok dep =>
          rw [e1, e2] at h
          simp only at h
          cases h1 : hdr dep with
          | none => rw [h1] at h; simp at h
          | some a =>
            obtain ⟨dn, da⟩ := a
            cases h2 : hdr wd with
            | none => rw [h1, h2] at h; simp at h
            | some b =>
              obtain ⟨wn, wa⟩ := b
              rw [h1, h2] at h
              simp only [Option.some.injEq] at h
              subst h
              constructor
              · have hr : ∀ d, maxWithdrawRaw hdr i.cell d dep wd =
                    maxWithdrawWith i.cell d dn da wn wa := by
                  intro d; simp only [maxWithdrawRaw, h1, h2]
                unfold rawInputMaxWithdraw
                rw [hw, e1, e2]
                simp only [if_true]
                rw [ok_bind, ok_bind, inputMaxWithdraw_daoW]
                simp only [hr]
              · unfold rawModifiedOccupied modifiedOccupied
                rw [hs]; simp
  | false =>
    rw [hw] at h
    simp only [Bool.false_eq_true, if_false] at h
    cases hs : isSatoshiInput i with
    | true =>
      rw [hs] at h
      simp only [if_true, Option.some.injEq] at h
      subst h
      constructor
      · unfold rawInputMaxWithdraw inputMaxWithdraw; rw [hw]; simp
      · unfold rawModifiedOccupied modifiedOccupied; rw [hs]; simp
    | false =>
      rw [hs] at h
      simp only [Bool.false_eq_true, if_false, Option.some.injEq] at h
      subst h
      constructor
      · unfold rawInputMaxWithdraw inputMaxWithdraw; rw [hw]; simp
      · unfold rawModifiedOccupied modifiedOccupied; rw [hs]; simp

theorem kindsFrom_cons {hdr : Headers} {deps : List Nat} {ws : List RawWitness} {k : Nat}
    {i : RawInput} {is : List RawInput} {ins : List Input}
    (h : kindsFrom hdr deps ws k (i :: is) = some ins) :
    ∃ kd r, kindOf hdr deps ws k i = some kd ∧ kindsFrom hdr deps ws (k + 1) is = some r ∧
      ins = ⟨i.cell, kd⟩ :: r := by
  simp only [kindsFrom] at h
  cases h1 : kindOf hdr deps ws k i with
  | none => simp [h1] at h
  | some kd =>
    cases h2 : kindsFrom hdr deps ws (k + 1) is with
    | none => simp [h1, h2] at h
    | some r =>
      simp only [h1, h2, Option.some.injEq] at h
      exact ⟨kd, r, rfl, rfl, h.symm⟩

theorem sums_refine {hdr : Headers} {deps : List Nat} {ws : List RawWitness} :
    ∀ (is : List RawInput) (k : Nat) (ins : List Input) (acc : Nat),
      kindsFrom hdr deps ws k is = some ins →
      sumRIdx (rawInputMaxWithdraw hdr deps ws) k is acc = sumR inputMaxWithdraw ins acc ∧
      sumR rawModifiedOccupied is acc = sumR modifiedOccupied ins acc ∧
      sumR (fun (i : RawInput) => pure i.cell.cap) is acc =
        sumR (fun (i : Input) => pure i.cell.cap) ins acc := by
  intro is
  induction is with
  | nil =>
    intro k ins acc h
    simp only [kindsFrom, Option.some.injEq] at h
    subst h
    exact ⟨rfl, rfl, rfl⟩
  | cons i is ih =>
    intro k ins acc h
    obtain ⟨kd, r, h1, h2, rfl⟩ := kindsFrom_cons h
    obtain ⟨e1, e2⟩ := raw_input_refines h1
    refine ⟨?_, ?_, ?_⟩
    · simp only [sumRIdx, sumR, e1]
      cases inputMaxWithdraw ⟨i.cell, kd⟩ with
      | error e => rfl
      | ok c =>
        simp only [bind, Except.bind]
        cases ovf (safeAdd acc c) with
        | error e => rfl
        | ok a => exact (ih (k + 1) r a h2).1
    · simp only [sumR, e2]
      cases modifiedOccupied ⟨i.cell, kd⟩ with
      | error e => rfl
      | ok c =>
        simp only [bind, Except.bind]
        cases ovf (safeAdd acc c) with
        | error e => rfl
        | ok a => exact (ih (k + 1) r a h2).2.1
    · simp only [sumR, pure, Except.pure, bind, Except.bind]
      cases ovf (safeAdd acc i.cell.cap) with
      | error e => rfl
      | ok a => exact (ih (k + 1) r a h2).2.2

/-- a successful indexed fold is the sum of its summands -/
theorem sumRIdx_ok {α : Type} (f : Nat → α → R Nat) :
    ∀ (xs : List α) (k acc m : Nat), sumRIdx f k xs acc = .ok m →
      ∃ vs : List Nat, vs.length = xs.length ∧
        (∀ j x, xs[j]? = some x → f (k + j) x = .ok (vs.getD j 0)) ∧ m = acc + vs.sum := by
  intro xs
  induction xs with
  | nil =>
    intro k acc m h
    simp only [sumRIdx, pure_ok] at h
    exact ⟨[], rfl, by simp, by simp [h]⟩
  | cons x xs ih =>
    intro k acc m h
    simp only [sumRIdx, bind_ok, ovf_ok, safeAdd_some] at h
    obtain ⟨c, hc, a, ⟨ha, rfl⟩, hr⟩ := h
    obtain ⟨vs, hl, hp, hm⟩ := ih (k + 1) (acc + c) m hr
    refine ⟨c :: vs, by simp [hl], ?_, by simp [hm]; omega⟩
    intro j y hj
    cases j with
    | zero => simp at hj; subst hj; simpa using hc
    | succ j =>
      simp only [List.getElem?_cons_succ] at hj
      have := hp j y hj
      simp only [List.getD_cons_succ]
      rw [← this]; congr 1; omega

/-- a `sumR` over raw transactions = the `sumR` over their kind-level transactions -/
theorem sumR_txs {hdr : Headers} {f : RawTx → R Nat} {g : Tx → R Nat}
    (hfg : ∀ t t', txOf hdr t = some t' → f t = g t') :
    ∀ (txs : List RawTx) (txs' : List Tx) (acc : Nat), txsOf hdr txs = some txs' →
      sumR f txs acc = sumR g txs' acc := by
  intro txs
  induction txs with
  | nil =>
    intro txs' acc h
    simp only [txsOf, Option.some.injEq] at h
    subst h; rfl
  | cons t ts ih =>
    intro txs' acc h
    simp only [txsOf] at h
    cases h1 : txOf hdr t with
    | none => simp [h1] at h
    | some t' =>
      cases h2 : txsOf hdr ts with
      | none => simp [h1, h2] at h
      | some r =>
        simp only [h1, h2, Option.some.injEq] at h
        subst h
        simp only [sumR, hfg t t' h1]
        cases g t' with
        | error e => rfl
        | ok c =>
          simp only [bind, Except.bind]
          cases ovf (safeAdd acc c) with
          | error e => rfl
          | ok a => exact ih r a h2

end CkbVerif.Dao
