import CkbVerif.Model.Tx
