import CkbVerif.Model.Tx

/-!
Helper lemmas for C04 (`Model/Tx.lean`): each stage of `resolve_transaction` succeeds exactly when
its spec predicate holds; checked capacity sums.
-/
namespace CkbVerif.Tx
open CkbVerif.Gen.Tx

/-- an out point that `resolve_cell` accepts: not spent earlier in the block / by the pool pass, and
live in the provider -/
def Usable (seen : List OutPoint) (p : Provider) (op : OutPoint) : Prop :=
  op ∉ seen ∧ ∃ g, p op = .live g

theorem resolveCell_ok_iff (seen : List OutPoint) (p : Provider) (op : OutPoint) :
    (∃ g, resolveCell seen p op = .ok g) ↔ Usable seen p op := by
  unfold resolveCell Usable
  by_cases hs : op ∈ seen
  · simp [hs]
  · simp only [hs, if_false, not_false_eq_true, true_and]
    cases p op <;> simp

theorem resolveCell_val {seen : List OutPoint} {p : Provider} {op : OutPoint} {g : GroupData}
    (h : resolveCell seen p op = .ok g) : p op = .live g := by
  unfold resolveCell at h
  by_cases hs : op ∈ seen
  · simp [hs] at h
  · simp only [hs, if_false] at h
    cases hp : p op <;> simp [hp] at h
    subst h; rfl

theorem resolveCell_cases (seen : List OutPoint) (p : Provider) (op : OutPoint) :
    (∃ g, resolveCell seen p op = .ok g) ∨ (∃ e, resolveCell seen p op = .error e) := by
  cases h : resolveCell seen p op with
  | ok g => exact Or.inl ⟨g, rfl⟩
  | error e => exact Or.inr ⟨e, rfl⟩

theorem resolveInputs_ok_iff (seen : List OutPoint) (p : Provider) (l cur : List OutPoint) :
    (∃ r, resolveInputs seen p l cur = .ok r) ↔
      l.Nodup ∧ (∀ x ∈ l, x ∉ cur) ∧ ∀ x ∈ l, Usable seen p x := by
  induction l generalizing cur with
  | nil => simp [resolveInputs]
  | cons op rest ih =>
    unfold resolveInputs
    by_cases hc : op ∈ cur
    · simp [hc]
    · simp only [hc, if_false]
      cases hr : resolveCell seen p op with
      | error e =>
        have : ¬ Usable seen p op := fun hu => by
          obtain ⟨g, hg⟩ := (resolveCell_ok_iff seen p op).2 hu
          rw [hr] at hg; cases hg
        simp [this]
      | ok g =>
        have hu : Usable seen p op := (resolveCell_ok_iff seen p op).1 ⟨g, hr⟩
        simp only [ih, List.nodup_cons, List.mem_cons, List.mem_append, List.not_mem_nil, or_false]
        constructor
        · rintro ⟨h1, h2, h3⟩
          refine ⟨⟨fun hm => (h2 op hm) (Or.inr rfl), h1⟩, ?_, ?_⟩
          · intro x hx
            rcases hx with rfl | hx
            · exact hc
            · exact fun hxc => h2 x hx (Or.inl hxc)
          · intro x hx
            rcases hx with rfl | hx
            · exact hu
            · exact h3 x hx
        · rintro ⟨⟨h0, h1⟩, h2, h3⟩
          refine ⟨h1, ?_, fun x hx => h3 x (Or.inr hx)⟩
          intro x hx hxc
          rcases hxc with hxc | rfl
          · exact h2 x (Or.inr hx) hxc
          · exact h0 hx

theorem resolveInputs_val {seen : List OutPoint} {p : Provider} {l cur r : List OutPoint}
    (h : resolveInputs seen p l cur = .ok r) : r = cur ++ l := by
  induction l generalizing cur with
  | nil => simp [resolveInputs] at h; simp [h]
  | cons op rest ih =>
    unfold resolveInputs at h
    by_cases hc : op ∈ cur
    · simp [hc] at h
    · simp only [hc, if_false] at h
      cases hr : resolveCell seen p op with
      | error e => simp [hr] at h
      | ok g =>
        simp only [hr] at h
        have := ih h
        simp [this]

theorem resolveMembers_ok_iff (seen : List OutPoint) (p : Provider) (ms : List OutPoint) :
    resolveMembers seen p ms = .ok () ↔ ∀ m ∈ ms, Usable seen p m := by
  induction ms with
  | nil => simp [resolveMembers]
  | cons m rest ih =>
    unfold resolveMembers
    cases hr : resolveCell seen p m with
    | error e =>
      have : ¬ Usable seen p m := fun hu => by
        obtain ⟨g, hg⟩ := (resolveCell_ok_iff seen p m).2 hu
        rw [hr] at hg; cases hg
      simp [this]
    | ok g =>
      have hu : Usable seen p m := (resolveCell_ok_iff seen p m).1 ⟨g, hr⟩
      simp [ih, hu]

/-- slots a dependency consumes: 1 for a code dep, the number of members for a dep group -/
def depCost (p : Provider) (d : Dep) : Nat :=
  if d.isGroup then (match p d.op with | .live (some ms) => ms.length | _ => 0) else 1

/-- a dependency that resolves: the cell is usable; for a dep group its data is a non-empty out-point
vector and every member is usable -/
def DepOk (seen : List OutPoint) (p : Provider) (d : Dep) : Prop :=
  Usable seen p d.op ∧ (d.isGroup = true → ∃ ms, p d.op = .live (some ms) ∧ ∀ m ∈ ms, Usable seen p m)

theorem resolveDeps_ok_iff (seen : List OutPoint) (p : Provider) (ds : List Dep) (slots : Nat)
    (cds gs : List OutPoint) :
    (∃ r, resolveDeps seen p ds slots cds gs = .ok r) ↔
      (∀ d ∈ ds, DepOk seen p d) ∧ (ds.map (depCost p)).sum ≤ slots := by
  induction ds generalizing slots cds gs with
  | nil => simp [resolveDeps]
  | cons d rest ih =>
    unfold resolveDeps
    by_cases hg : d.isGroup = true
    · simp only [hg, if_true]
      cases hr : resolveCell seen p d.op with
      | error e =>
        have : ¬ Usable seen p d.op := fun hu => by
          obtain ⟨g, hg⟩ := (resolveCell_ok_iff seen p d.op).2 hu
          rw [hr] at hg; cases hg
        simp [DepOk, this]
      | ok g =>
        have hu : Usable seen p d.op := (resolveCell_ok_iff seen p d.op).1 ⟨g, hr⟩
        have hp := resolveCell_val hr
        cases g with
        | none =>
          simp only [List.mem_cons, forall_eq_or_imp, DepOk, hg, hp]
          simp
        | some ms =>
          simp only
          by_cases hs : slots < ms.length
          · simp only [hs, if_true, List.map_cons, List.sum_cons, depCost, hg, hp]
            constructor
            · rintro ⟨r, hr⟩; cases hr
            · rintro ⟨_, h2⟩; omega
          · simp only [hs, if_false]
            cases hm : resolveMembers seen p ms with
            | error e =>
              have : ¬ ∀ m ∈ ms, Usable seen p m := fun h => by
                rw [(resolveMembers_ok_iff seen p ms).2 h] at hm; cases hm
              simp only [List.mem_cons, forall_eq_or_imp, DepOk, hg, hp]
              constructor
              · rintro ⟨r, hr⟩; cases hr
              · rintro ⟨⟨⟨_, h1⟩, _⟩, _⟩
                obtain ⟨ms', e1, e2⟩ := h1 trivial
                cases e1; exact absurd e2 this
            | ok u =>
              have hall := (resolveMembers_ok_iff seen p ms).1 (by cases u; exact hm)
              simp only [ih, List.mem_cons, forall_eq_or_imp, List.map_cons, List.sum_cons]
              have hc : depCost p d = ms.length := by simp [depCost, hg, hp]
              have hd : DepOk seen p d := ⟨hu, fun _ => ⟨ms, hp, hall⟩⟩
              rw [hc]
              constructor
              · rintro ⟨h1, h2⟩; exact ⟨⟨hd, h1⟩, by omega⟩
              · rintro ⟨⟨_, h1⟩, h2⟩; exact ⟨h1, by omega⟩
    · have hg' : d.isGroup = false := by cases h : d.isGroup <;> simp_all
      have hc : depCost p d = 1 := by simp [depCost, hg']
      simp only [hg', Bool.false_eq_true, if_false, List.mem_cons, forall_eq_or_imp, List.map_cons, List.sum_cons, hc]
      by_cases hs : slots < 1
      · simp only [hs, if_true]
        constructor
        · rintro ⟨r, hr⟩; cases hr
        · rintro ⟨_, h2⟩; omega
      · simp only [hs, if_false]
        cases hr : resolveCell seen p d.op with
        | error e =>
          have : ¬ Usable seen p d.op := fun hu => by
            obtain ⟨g, hg⟩ := (resolveCell_ok_iff seen p d.op).2 hu
            rw [hr] at hg; cases hg
          simp [DepOk, this]
        | ok g =>
          have hu : Usable seen p d.op := (resolveCell_ok_iff seen p d.op).1 ⟨g, hr⟩
          have hd : DepOk seen p d := ⟨hu, fun h => by rw [hg'] at h; cases h⟩
          simp only [ih]
          constructor
          · rintro ⟨h1, h2⟩; exact ⟨⟨hd, h1⟩, by omega⟩
          · rintro ⟨⟨_, h1⟩, h2⟩; exact ⟨h1, by omega⟩

theorem checkHeaders_ok_iff (valid : Nat → Bool) (hs : List Nat) :
    checkHeaders valid hs = .ok () ↔ ∀ h ∈ hs, valid h = true := by
  induction hs with
  | nil => simp [checkHeaders]
  | cons h rest ih =>
    unfold checkHeaders
    by_cases hv : valid h = true
    · simp [hv, ih]
    · simp [hv]

end CkbVerif.Tx
