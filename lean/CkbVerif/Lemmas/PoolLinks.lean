/-
C11 helper lemmas, part 6: the links clause (structural part) for the whole pool.

`LinksOK s`: the link map has exactly the pooled ids as keys, every parents / children list is
duplicate-free, `p ∈ parents(c) ↔ c ∈ children(p)` (so every link joins two pooled transactions), and —
needed to keep that true — whoever `edges.deps` / `edges.inputs` name as the user of an out-point is
pooled and really references it.  Preserved by every operation, on every history.
-/
import CkbVerif.Lemmas.Pool
import CkbVerif.Lemmas.PoolLift
import CkbVerif.Lemmas.PoolLinkMap
namespace CkbVerif.Pool

/-! ### `edges.deps` as a relation -/

abbrev DepMap := List (OutPt × List Nat)

def usersOf (D : DepMap) (o : OutPt) : List Nat := ((D.find? (·.1 = o)).map (·.2)).getD []

theorem depUsers_eq (s : Pool) (o : OutPt) : depUsers s o = usersOf s.deps o := rfl

theorem find?_of_mem_nodup_keys {D : DepMap} (h : (D.map (·.1)).Nodup) {kv : OutPt × List Nat} (hm : kv ∈ D) :
    D.find? (·.1 = kv.1) = some kv := by
  induction D with
  | nil => cases hm
  | cons x D ih =>
    simp only [List.map_cons, List.nodup_cons] at h
    rcases List.mem_cons.mp hm with e | e
    · subst e; simp
    · have : ¬ x.1 = kv.1 := fun e' => h.1 (List.mem_map.mpr ⟨kv, e, e'.symm⟩)
      simp only [List.find?_cons, this, decide_false]
      exact ih h.2 e

theorem mem_usersOf {D : DepMap} (h : (D.map (·.1)).Nodup) (o : OutPt) (id : Nat) :
    id ∈ usersOf D o ↔ ∃ l, (o, l) ∈ D ∧ id ∈ l := by
  unfold usersOf
  constructor
  · intro hm
    cases hf : D.find? (·.1 = o) with
    | none => rw [hf] at hm; cases hm
    | some kv =>
      rw [hf] at hm
      have hk : kv.1 = o := by simpa using List.find?_some hf
      exact ⟨kv.2, by rw [← hk]; exact List.mem_of_find?_eq_some hf, hm⟩
  · rintro ⟨l, hl, hid⟩
    have := find?_of_mem_nodup_keys h hl
    simp only at this
    rw [this]; exact hid

theorem deleteDep_keys (D : DepMap) (o : OutPt) (id : Nat) (h : (D.map (·.1)).Nodup) :
    ((deleteDep D o id).map (·.1)).Nodup := by
  unfold deleteDep
  refine List.Nodup.sublist (List.Sublist.map _ List.filter_sublist) ?_
  have : (D.map fun kv => if kv.1 = o then (kv.1, kv.2.filter (· ≠ id)) else kv).map (·.1) = D.map (·.1) := by
    rw [List.map_map]; apply List.map_congr_left; intro kv _; simp only [Function.comp]; split <;> rfl
  rw [this]; exact h

theorem mem_deleteDep {D : DepMap} {o : OutPt} {id : Nat} {kv : OutPt × List Nat} (hm : kv ∈ deleteDep D o id) :
    ∃ l, (kv.1, l) ∈ D ∧ ∀ x ∈ kv.2, x ∈ l ∧ ¬(kv.1 = o ∧ x = id) := by
  unfold deleteDep at hm
  obtain ⟨hm1, _⟩ := List.mem_filter.mp hm
  obtain ⟨kv0, h0, hkv⟩ := List.mem_map.mp hm1
  by_cases hk : kv0.1 = o
  · rw [if_pos hk] at hkv
    subst hkv
    refine ⟨kv0.2, h0, fun x hx => ?_⟩
    obtain ⟨a, b⟩ := List.mem_filter.mp hx
    exact ⟨a, fun hc => by simp at b; exact b hc.2⟩
  · rw [if_neg hk] at hkv
    subst hkv
    exact ⟨kv0.2, h0, fun x hx => ⟨hx, fun hc => hk hc.1⟩⟩

theorem insertDep_keys (D : DepMap) (o : OutPt) (id : Nat) (h : (D.map (·.1)).Nodup) :
    ((insertDep D o id).map (·.1)).Nodup := by
  unfold insertDep
  split
  · have : (D.map fun kv => if kv.1 = o then (kv.1, insertNew kv.2 id) else kv).map (·.1) = D.map (·.1) := by
      rw [List.map_map]; apply List.map_congr_left; intro kv _; simp only [Function.comp]; split <;> rfl
    rw [this]; exact h
  · rename_i hany
    rw [List.map_append]
    refine List.nodup_append.mpr ⟨h, by simp, ?_⟩
    intro a ha b hb hab
    have hb' : b = o := by simpa using hb
    obtain ⟨kv, hkv, rfl⟩ := List.mem_map.mp ha
    apply hany
    simp only [List.any_eq_true, decide_eq_true_eq]
    exact ⟨kv, hkv, hab.trans hb'⟩

theorem mem_insertDep {D : DepMap} {o : OutPt} {id : Nat} {kv : OutPt × List Nat} (hm : kv ∈ insertDep D o id) :
    ∀ x ∈ kv.2, (∃ l, (kv.1, l) ∈ D ∧ x ∈ l) ∨ (kv.1 = o ∧ x = id) := by
  unfold insertDep at hm
  split at hm
  · obtain ⟨kv0, h0, hkv⟩ := List.mem_map.mp hm
    intro x hx
    by_cases hk : kv0.1 = o
    · rw [if_pos hk] at hkv
      subst hkv
      rcases (mem_insertNew _ _ _).mp hx with a | a
      · exact Or.inl ⟨kv0.2, h0, a⟩
      · exact Or.inr ⟨hk, a⟩
    · rw [if_neg hk] at hkv
      subst hkv
      exact Or.inl ⟨kv0.2, h0, hx⟩
  · rcases List.mem_append.mp hm with a | a
    · intro x hx; exact Or.inl ⟨kv.2, a, hx⟩
    · have : kv = (o, [id]) := by simpa using a
      subst this
      intro x hx
      exact Or.inr ⟨rfl, by simpa using hx⟩

/-! ### the invariant -/

/-- `X`: ids whose link entries have already been dropped while their entries are still there
    (the intermediate states of `remove_entry_and_descendants`); `LinksOK` is the case `X = []`. -/
structure LinksRel (s : Pool) (X : List Nat) : Prop where
  ids : ((txs s).map (·.id)).Nodup
  depKeys : (s.deps.map (·.1)).Nodup
  depOwn : ∀ o id, id ∈ depUsers s o → ∃ t ∈ txs s, t.id = id ∧ o ∈ t.deps
  inOwn : ∀ p ∈ s.inputs, ∃ t ∈ txs s, t.id = p.2 ∧ p.1 ∈ t.inputs
  struct : LinkStruct s.links
  keysEq : ∀ id, id ∈ keys s.links ↔ (∃ t ∈ txs s, t.id = id) ∧ id ∉ X

abbrev LinksOK (s : Pool) : Prop := LinksRel s []

theorem LinksRel.congr {s s' : Pool} {X : List Nat} (h : LinksRel s X) (ht : txs s' = txs s)
    (hd : s'.deps = s.deps) (hi : s'.inputs = s.inputs) (hl : s'.links = s.links) : LinksRel s' X := by
  constructor
  · rw [ht]; exact h.ids
  · rw [hd]; exact h.depKeys
  · intro o id hm; rw [ht]; apply h.depOwn; rw [depUsers_eq] at hm ⊢; rw [← hd]; exact hm
  · rw [hi, ht]; exact h.inOwn
  · rw [hl]; exact h.struct
  · rw [hl, ht]; exact h.keysEq

theorem foldDelete_keys (ds : List OutPt) (id : Nat) (D : DepMap) (h : (D.map (·.1)).Nodup) :
    ((ds.foldl (fun D d => deleteDep D d id) D).map (·.1)).Nodup := by
  induction ds generalizing D with
  | nil => exact h
  | cons d ds ih => exact ih _ (deleteDep_keys D d id h)

theorem foldDelete_rel (ds : List OutPt) (rid : Nat) (D : DepMap) (h : (D.map (·.1)).Nodup) (o : OutPt) (x : Nat)
    (hm : x ∈ usersOf (ds.foldl (fun D d => deleteDep D d rid) D) o) :
    x ∈ usersOf D o ∧ ¬(o ∈ ds ∧ x = rid) := by
  induction ds generalizing D with
  | nil => exact ⟨hm, fun hc => by cases hc.1⟩
  | cons d ds ih =>
    simp only [List.foldl_cons] at hm
    obtain ⟨h1, h2⟩ := ih _ (deleteDep_keys D d rid h) hm
    obtain ⟨l, hl, hx⟩ := (mem_usersOf (deleteDep_keys D d rid h) o x).mp h1
    obtain ⟨l0, hl0, hall⟩ := mem_deleteDep hl
    obtain ⟨a, b⟩ := hall x hx
    refine ⟨(mem_usersOf h o x).mpr ⟨l0, hl0, a⟩, ?_⟩
    rintro ⟨hc1, hc2⟩
    rcases List.mem_cons.mp hc1 with e | e
    · exact b ⟨e, hc2⟩
    · exact h2 ⟨e, hc2⟩

theorem removeEntry_deps (s : Pool) (id : Nat) (e : Entry) (h : getEntry s id = some e) :
    (removeEntry s id).1.deps = e.tx.deps.foldl (fun D d => deleteDep D d e.tx.id) s.deps := by
  by_cases hc : (isBetween s.links id && s.cfg.fixMid) = true <;> simp [removeEntry, h, hc, removeEdges]

theorem linksRel_rm {s : Pool} {X : List Nat} (h : LinksRel s X) (rid : Nat) : LinksRel (removeEntry s rid).1 X := by
  cases hg : getEntry s rid with
  | none => rw [removeEntry_none s rid hg]; exact h
  | some e =>
    obtain ⟨ht, hi⟩ := removeEntry_txs s rid e hg
    obtain ⟨hem, hid⟩ := getEntry_some hg
    have hetx : e.tx ∈ txs s := List.mem_map.mpr ⟨e, hem, rfl⟩
    have hmem : ∀ t, t ∈ txs (removeEntry s rid).1 ↔ t ∈ txs s ∧ t.id ≠ rid := by
      intro t; rw [ht]; simp [List.mem_filter]
    constructor
    · rw [ht]; exact List.Nodup.sublist (List.Sublist.map _ List.filter_sublist) h.ids
    · rw [removeEntry_deps s rid e hg]; exact foldDelete_keys _ _ _ h.depKeys
    · intro o x hm
      rw [depUsers_eq, removeEntry_deps s rid e hg] at hm
      obtain ⟨h1, h2⟩ := foldDelete_rel _ _ _ h.depKeys o x hm
      obtain ⟨t, htm, htid, hto⟩ := h.depOwn o x h1
      refine ⟨t, (hmem t).mpr ⟨htm, ?_⟩, htid, hto⟩
      intro hte
      have : t = e.tx := nodup_ids_unique _ h.ids htm hetx (by rw [hte, hid])
      exact h2 ⟨this ▸ hto, by rw [← htid, hte, hid]⟩
    · intro p hp
      rw [hi] at hp
      obtain ⟨hpm, hpn⟩ := List.mem_filter.mp hp
      simp only [decide_eq_true_eq] at hpn
      obtain ⟨t, htm, htid, hto⟩ := h.inOwn p hpm
      refine ⟨t, (hmem t).mpr ⟨htm, ?_⟩, htid, hto⟩
      intro hte
      have : t = e.tx := nodup_ids_unique _ h.ids htm hetx (by rw [hte, hid])
      exact hpn (this ▸ hto)
    · rw [removeEntry_links s rid e hg]; exact h.struct.removeEntryLinks rid
    · intro x
      rw [removeEntry_links s rid e hg, keys_removeEntryLinks]
      simp only [List.mem_filter, decide_eq_true_eq]
      rw [h.keysEq x]
      constructor
      · rintro ⟨⟨⟨t, htm, htid⟩, hx⟩, hne⟩
        exact ⟨⟨t, (hmem t).mpr ⟨htm, by rw [htid]; simpa using hne⟩, htid⟩, hx⟩
      · rintro ⟨⟨t, htm, htid⟩, hx⟩
        obtain ⟨a, b⟩ := (hmem t).mp htm
        exact ⟨⟨⟨t, a, htid⟩, hx⟩, by rw [← htid]; simpa using b⟩


/-! ### remove_entry_and_descendants -/

theorem foldUnlink (ids : List Nat) (L : LinkMap) (h : LinkStruct L) :
    LinkStruct (ids.foldl removeEntryLinks L) ∧ keys (ids.foldl removeEntryLinks L) = (keys L).filter (· ∉ ids) := by
  induction ids generalizing L with
  | nil => exact ⟨h, (List.filter_eq_self.mpr (by simp)).symm⟩
  | cons a l ih =>
    simp only [List.foldl_cons]
    obtain ⟨h1, h2⟩ := ih _ (h.removeEntryLinks a)
    refine ⟨h1, ?_⟩
    rw [h2, keys_removeEntryLinks, List.filter_filter]
    apply List.filter_congr
    intro x _
    by_cases h1 : x ∈ l <;> by_cases h2 : x = a <;> simp [h1, h2]

theorem foldRemove_rel (ids : List Nat) (s : Pool) (acc : List Entry) (X : List Nat) (h : LinksRel s X) :
    LinksRel (ids.foldl (fun (acc : Pool × List Entry) rid =>
      match removeEntry acc.1 rid with
      | (s', some e) => (s', acc.2 ++ [e])
      | (s', none) => (s', acc.2)) (s, acc)).1 X ∧
    ∀ t ∈ txs (ids.foldl (fun (acc : Pool × List Entry) rid =>
      match removeEntry acc.1 rid with
      | (s', some e) => (s', acc.2 ++ [e])
      | (s', none) => (s', acc.2)) (s, acc)).1, t.id ∉ ids := by
  induction ids generalizing s acc with
  | nil => exact ⟨h, fun _ _ hm => by cases hm⟩
  | cons a l ih =>
    simp only [List.foldl_cons]
    have hr := linksRel_rm h a
    have hgone : ∀ t ∈ txs (removeEntry s a).1, t.id ≠ a := by
      intro t ht
      cases hg : getEntry s a with
      | none => rw [removeEntry_none s a hg] at ht; exact getEntry_none hg t ht
      | some e =>
        rw [(removeEntry_txs s a e hg).1] at ht
        simpa using (List.mem_filter.mp ht).2
    have hsh := removeEntry_shrinks s a
    rcases hre : removeEntry s a with ⟨s', oe⟩
    rw [hre] at hr hgone hsh
    have key : ∀ acc', LinksRel (l.foldl (fun (acc : Pool × List Entry) rid =>
        match removeEntry acc.1 rid with
        | (s', some e) => (s', acc.2 ++ [e])
        | (s', none) => (s', acc.2)) (s', acc')).1 X ∧
      ∀ t ∈ txs (l.foldl (fun (acc : Pool × List Entry) rid =>
        match removeEntry acc.1 rid with
        | (s', some e) => (s', acc.2 ++ [e])
        | (s', none) => (s', acc.2)) (s', acc')).1, t.id ∉ a :: l := by
      intro acc'
      obtain ⟨h1, h2⟩ := ih s' acc' hr
      refine ⟨h1, fun t ht hm => ?_⟩
      rcases List.mem_cons.mp hm with e | e
      · exact hgone t ((foldRemove_shrinks l s' acc').2 t ht) e
      · exact h2 t ht e
    cases oe with
    | none => exact key acc
    | some e => exact key (acc ++ [e])

theorem preSub_links (s : Pool) (ids : List Nat) :
    (preSubDescendants s ids).links = s.links ∧ (preSubDescendants s ids).deps = s.deps := by
  unfold preSubDescendants
  induction ids generalizing s with
  | nil => exact ⟨rfl, rfl⟩
  | cons a l ih =>
    simp only [List.foldl_cons]
    cases hg : getEntry s a with
    | none => exact ih s
    | some e => simp only; exact ih _

theorem linksOK_rmd (s : Pool) (id : Nat) (h : LinksOK s) : LinksOK (removeWithDesc s id).1 := by
  unfold removeWithDesc
  simp only
  have h0 : LinksOK (if s.cfg.fixF2 then preSubDescendants s (id :: (calcDesc s.links id).filter (· ≠ id)) else s) := by
    split
    · obtain ⟨a, b⟩ := preSub_txs s (id :: (calcDesc s.links id).filter (· ≠ id))
      obtain ⟨c, d⟩ := preSub_links s (id :: (calcDesc s.links id).filter (· ≠ id))
      exact h.congr a d b c
    · exact h
  generalize (if s.cfg.fixF2 then preSubDescendants s (id :: (calcDesc s.links id).filter (· ≠ id)) else s) = s0 at h0
  generalize (id :: (calcDesc s.links id).filter (· ≠ id)) = ids
  obtain ⟨hs, hk⟩ := foldUnlink ids s0.links h0.struct
  have h1 : LinksRel { s0 with links := ids.foldl removeEntryLinks s0.links } ids := by
    refine ⟨h0.ids, h0.depKeys, h0.depOwn, h0.inOwn, hs, fun x => ?_⟩
    show x ∈ keys (ids.foldl removeEntryLinks s0.links) ↔ _
    rw [hk]
    simp only [List.mem_filter, decide_eq_true_eq]
    have := h0.keysEq x
    simp only [List.not_mem_nil, not_false_eq_true, and_true] at this
    rw [this]
    exact Iff.rfl
  obtain ⟨h2, h3⟩ := foldRemove_rel ids _ [] ids h1
  refine ⟨h2.ids, h2.depKeys, h2.depOwn, h2.inOwn, h2.struct, fun x => ?_⟩
  refine (h2.keysEq x).trans ?_
  constructor
  · rintro ⟨a, _⟩; exact ⟨a, by simp⟩
  · rintro ⟨⟨t, ht, hid⟩, _⟩; exact ⟨⟨t, ht, hid⟩, hid ▸ h3 t ht⟩


/-! ### add_entry -/

theorem mem_dedup {α} [DecidableEq α] (l : List α) : ∀ x : α, x ∈ dedup l ↔ x ∈ l := by
  induction l with
  | nil => intro x; simp [dedup]
  | cons a l ih =>
    intro x
    simp only [dedup]
    split
    · rename_i hm
      rw [ih, List.mem_cons]
      constructor
      · exact Or.inr
      · rintro (e | e)
        · rw [e]; exact (ih a).mp hm
        · exact e
    · rw [List.mem_cons, List.mem_cons, ih]

theorem nodup_dedup {α} [DecidableEq α] (l : List α) : (dedup l).Nodup := by
  induction l with
  | nil => exact List.nodup_nil
  | cons a l ih =>
    simp only [dedup]
    split
    · exact ih
    · rename_i hm; exact List.nodup_cons.mpr ⟨hm, ih⟩

theorem mem_union {α} [DecidableEq α] (a b : List α) (x : α) : x ∈ union a b ↔ x ∈ a ∨ x ∈ b := by
  unfold union
  rw [List.mem_append, List.mem_filter]
  constructor
  · rintro (h | ⟨h, _⟩)
    · exact Or.inl h
    · exact Or.inr h
  · rintro (h | h)
    · exact Or.inl h
    · by_cases hx : x ∈ a
      · exact Or.inl hx
      · exact Or.inr ⟨h, by simpa using hx⟩

theorem sub_saturate (g : Nat → List Nat) (f : Nat) (A : List Nat) : ∀ x ∈ A, x ∈ saturate g f A := by
  induction f generalizing A with
  | zero => exact fun _ h => h
  | succ n ih =>
    intro x hx
    unfold saturate
    simp only
    split
    · exact hx
    · exact ih _ x ((mem_union _ _ _).mpr (Or.inl hx))

theorem stage_sub_calcRelation (g : Nat → List Nat) (ns stage : List Nat) : ∀ x ∈ stage, x ∈ calcRelation g ns stage :=
  fun x hx => sub_saturate g _ _ x ((mem_dedup _ _).mpr hx)

theorem foldInsert_keys (ds : List OutPt) (id : Nat) (D : DepMap) (h : (D.map (·.1)).Nodup) :
    ((ds.foldl (fun D d => insertDep D d id) D).map (·.1)).Nodup := by
  induction ds generalizing D with
  | nil => exact h
  | cons d ds ih => exact ih _ (insertDep_keys D d id h)

theorem foldInsert_rel (ds : List OutPt) (nid : Nat) (D : DepMap) (h : (D.map (·.1)).Nodup) (o : OutPt) (x : Nat)
    (hm : x ∈ usersOf (ds.foldl (fun D d => insertDep D d nid) D) o) :
    x ∈ usersOf D o ∨ (o ∈ ds ∧ x = nid) := by
  induction ds generalizing D with
  | nil => exact Or.inl hm
  | cons d ds ih =>
    simp only [List.foldl_cons] at hm
    rcases ih _ (insertDep_keys D d nid h) hm with h1 | h1
    · obtain ⟨l, hl, hx⟩ := (mem_usersOf (insertDep_keys D d nid h) o x).mp h1
      rcases mem_insertDep hl x hx with ⟨l0, hl0, a⟩ | ⟨a, b⟩
      · exact Or.inl ((mem_usersOf h o x).mpr ⟨l0, hl0, a⟩)
      · exact Or.inr ⟨by rw [show o = d from a]; exact List.mem_cons_self, b⟩
    · exact Or.inr ⟨List.mem_cons_of_mem _ h1.1, h1.2⟩

theorem evictLoop_parents (cands : List Nat) (s : Pool) (cnt : Nat) (parents ev : List Nat) (hn : parents.Nodup) :
    (evictLoop cands s cnt parents ev).2.2.1.Nodup := by
  induction cands generalizing s cnt parents ev with
  | nil => exact hn
  | cons c l ih =>
    unfold evictLoop
    split
    · exact ih _ _ _ _ (List.Nodup.sublist List.filter_sublist hn)
    · exact hn

theorem evictLoop_shrinks (cands : List Nat) (s : Pool) (cnt : Nat) (parents ev : List Nat) :
    Shrinks (evictLoop cands s cnt parents ev).1 s := by
  induction cands generalizing s cnt parents ev with
  | nil => exact Shrinks.refl s
  | cons c l ih =>
    unfold evictLoop
    split
    · exact (ih _ _ _ _).trans (removeWithDesc_shrinks s c)
    · exact Shrinks.refl s

/-- what `check_and_record_ancestors` guarantees for the links clause: the result is a consistent pool
    `s1` (no more transactions than before) whose link map got the new node `E` below parents `P` -/
def AncGoodK (s : Pool) (e : Entry) : AncRes → Prop
  | .ok s' e' _ => ∃ s1 P, LinksOK s1 ∧ Shrinks s1 s ∧ s' = { s1 with links := addNodeLinks s1.links e.tx.id P } ∧
      e'.tx = e.tx ∧ P.Nodup ∧ ∀ p ∈ P, p ∈ keys s1.links
  | .panic s' => LinksOK s'
  | .rejAfter s' => LinksOK s'
  | .rej => True

theorem recordAncestors_goodK {s s0 : Pool} (h : LinksOK s) (hs : Shrinks s s0) (e : Entry) (P ev : List Nat) (hn : P.Nodup) :
    AncGoodK s0 e (match recordAncestors s e (calcRelation (parentsOf s.links) (keys s.links) P) P with
      | some (s', e') => AncRes.ok s' e' ev
      | none => AncRes.panic s) := by
  cases hr : recordAncestors s e (calcRelation (parentsOf s.links) (keys s.links) P) P with
  | none => exact h
  | some r =>
    obtain ⟨s', e'⟩ := r
    have htx := (recordAncestors_txs hr).2.2
    unfold recordAncestors at hr
    split at hr
    · rename_i hall
      simp only [Option.some.injEq, Prod.mk.injEq] at hr
      obtain ⟨hs', he'⟩ := hr
      refine ⟨s, P, h, hs, ?_, htx, hn, ?_⟩
      · rw [← hs']; rfl
      · intro p hp
        have hp' := stage_sub_calcRelation (parentsOf s.links) (keys s.links) P p hp
        have := List.all_eq_true.mp hall p hp'
        cases hg : getEntry s p with
        | none => rw [hg] at this; simp at this
        | some x =>
          obtain ⟨hx, hid⟩ := getEntry_some hg
          exact (h.keysEq p).mpr ⟨⟨x.tx, List.mem_map.mpr ⟨x, hx, rfl⟩, hid⟩, by simp⟩
    · cases hr

theorem checkAnc_links {s : Pool} (h : LinksOK s) (e : Entry) : AncGoodK s e (checkAndRecordAncestors s e) := by
  unfold checkAndRecordAncestors
  simp only
  split
  · exact recordAncestors_goodK h (Shrinks.refl s) e _ _ (nodup_dedup _)
  · split
    · have hl := evictLoop_of (P := LinksOK) linksOK_rmd
        (((byEvictKey s.entries).filter (·.tx.id ∈ (txAncestors s e.tx).2.2)).map (·.tx.id)) s
        ((txAncestors s e.tx).1.length + 1) (txAncestors s e.tx).2.1 [] h
      have hsh := evictLoop_shrinks
        (((byEvictKey s.entries).filter (·.tx.id ∈ (txAncestors s e.tx).2.2)).map (·.tx.id)) s
        ((txAncestors s e.tx).1.length + 1) (txAncestors s e.tx).2.1 []
      have hpn := evictLoop_parents
        (((byEvictKey s.entries).filter (·.tx.id ∈ (txAncestors s e.tx).2.2)).map (·.tx.id)) s
        ((txAncestors s e.tx).1.length + 1) (txAncestors s e.tx).2.1 [] (nodup_dedup _)
      split
      · exact hl
      · split
        · exact recordAncestors_goodK hl hsh e _ _ hpn
        · exact hl
    · trivial


theorem mem_findChildren {s : Pool} {t : Tx} {c : Nat} (h : c ∈ findChildren s t) :
    (∃ o, c ∈ depUsers s o) ∨ (∃ o, inputUser s o = some c) := by
  unfold findChildren at h
  rw [mem_dedup] at h
  obtain ⟨o, _, ho⟩ := List.mem_flatMap.mp h
  rcases List.mem_append.mp ho with a | a
  · exact Or.inl ⟨o, a⟩
  · refine Or.inr ⟨o, ?_⟩
    cases hu : inputUser s o with
    | none => rw [hu] at a; cases a
    | some v => rw [hu] at a; simp at a; rw [a]

theorem inputUser_mem' {s : Pool} {i : OutPt} {id : Nat} (h : inputUser s i = some id) : (i, id) ∈ s.inputs := by
  unfold inputUser at h
  simp only [Option.map_eq_some_iff] at h
  obtain ⟨p, hp, rfl⟩ := h
  have hm := List.mem_of_find?_eq_some hp
  have hk : p.1 = i := by simpa using List.find?_some hp
  rw [← hk]; exact hm

theorem linksOK_recordDescendants {s : Pool} (h : LinksOK s) (e : Entry) (he : e.tx.id ∈ keys s.links) :
    LinksOK (recordDescendants s e) := by
  have hch : ∀ c ∈ findChildren s e.tx, c ∈ keys s.links := by
    intro c hc
    rcases mem_findChildren hc with ⟨o, ho⟩ | ⟨o, ho⟩
    · obtain ⟨t, ht, hid, _⟩ := h.depOwn o c ho
      exact (h.keysEq c).mpr ⟨⟨t, ht, hid⟩, by simp⟩
    · obtain ⟨t, ht, hid, _⟩ := h.inOwn _ (inputUser_mem' ho)
      exact (h.keysEq c).mpr ⟨⟨t, ht, hid⟩, by simp⟩
  have hlinked : LinksOK { s with links := linkChildren s.links e.tx.id (findChildren s e.tx) } := by
    refine ⟨h.ids, h.depKeys, h.depOwn, h.inOwn, h.struct.linkChildren he hch, fun x => ?_⟩
    show x ∈ keys (linkChildren s.links e.tx.id (findChildren s e.tx)) ↔ _
    rw [keys_linkChildren]; exact h.keysEq x
  unfold recordDescendants
  simp only
  split
  · exact h.congr (by simp only [txs]; exact modEntries_txs _ _ (by simp) _) rfl rfl rfl
  · split
    · exact hlinked.congr (rebuild_txs _ _) rfl rfl rfl
    · refine hlinked.congr ?_ rfl rfl rfl
      simp only [txs]
      rw [modEntries_txs _ _ (by simp), modEntries_txs _ _ (by simp)]

theorem linksOK_add (s : Pool) (t : Tx) (st : Status) (ts : Nat) (h : LinksOK s) : LinksOK (addEntry s t st ts).1 := by
  unfold addEntry
  split
  · exact h
  · rename_i hdup
    split
    · exact h
    · have hg := checkAnc_links h (Entry.fresh t st ts)
      split
      · exact h
      · rename_i s' heq; rw [heq] at hg; exact hg
      · rename_i s' heq; rw [heq] at hg; exact hg
      · rename_i s2 e ev heq
        rw [heq] at hg
        obtain ⟨s1, P, h1, hsh, hs2, hetx, hPn, hPk⟩ := hg
        have hetx : e.tx = t := hetx
        have hid : (Entry.fresh t st ts).tx.id = t.id := rfl
        rw [hid] at hs2
        simp only [Bool.not_eq_true, Option.isSome_eq_false_iff, Option.isNone_iff_eq_none] at hdup
        have hfresh : ∀ x ∈ txs s1, x.id ≠ t.id := fun x hx => getEntry_none hdup x (hsh.2 x hx)
        have hEk : t.id ∉ keys s1.links := by
          intro hk
          obtain ⟨⟨x, hx, hxid⟩, _⟩ := (h1.keysEq t.id).mp hk
          exact hfresh x hx hxid
        -- the pool after recording ancestors, edges and the entry itself
        have h3 : LinksOK { recordEdges s2 t with entries := (recordEdges s2 t).entries ++ [e] } := by
          subst hs2
          have htxs : txs { recordEdges { s1 with links := addNodeLinks s1.links t.id P } t with
              entries := (recordEdges { s1 with links := addNodeLinks s1.links t.id P } t).entries ++ [e] } = txs s1 ++ [t] := by
            simp [txs, recordEdges, hetx]
          constructor
          · rw [htxs, List.map_append]
            refine List.nodup_append.mpr ⟨h1.ids, by simp, ?_⟩
            intro a ha b hb hab
            obtain ⟨x, hx, rfl⟩ := List.mem_map.mp ha
            have : b = t.id := by simpa using hb
            exact hfresh x hx (hab.trans this)
          · exact foldInsert_keys _ _ _ h1.depKeys
          · intro o x hm
            rw [htxs]
            rcases foldInsert_rel _ _ _ h1.depKeys o x hm with a | ⟨a, b⟩
            · obtain ⟨y, hy, c, d⟩ := h1.depOwn o x a
              exact ⟨y, List.mem_append.mpr (Or.inl hy), c, d⟩
            · exact ⟨t, List.mem_append.mpr (Or.inr (by simp)), b.symm, a⟩
          · intro p hp
            rw [htxs]
            rcases List.mem_append.mp hp with a | a
            · obtain ⟨y, hy, c, d⟩ := h1.inOwn p a
              exact ⟨y, List.mem_append.mpr (Or.inl hy), c, d⟩
            · obtain ⟨o, ho, rfl⟩ := List.mem_map.mp a
              exact ⟨t, List.mem_append.mpr (Or.inr (by simp)), rfl, ho⟩
          · exact h1.struct.addNode hEk hPk hPn
          · intro x
            rw [htxs]
            show x ∈ keys (addNodeLinks s1.links t.id P) ↔ _
            rw [keys_addNodeLinks _ _ _ hEk, List.mem_append]
            have := h1.keysEq x
            simp only [List.not_mem_nil, not_false_eq_true, and_true] at this ⊢
            rw [this]
            constructor
            · rintro (⟨y, hy, c⟩ | a)
              · exact ⟨y, List.mem_append.mpr (Or.inl hy), c⟩
              · have hx : x = t.id := by simpa using a
                exact ⟨t, List.mem_append.mpr (Or.inr (by simp)), hx.symm⟩
            · rintro ⟨y, hy, c⟩
              rcases List.mem_append.mp hy with a | a
              · exact Or.inl ⟨y, a, c⟩
              · have : y = t := by simpa using a
                exact Or.inr (by simp [← c, this])
        have hek : e.tx.id ∈ keys ({ recordEdges s2 t with entries := (recordEdges s2 t).entries ++ [e] } : Pool).links := by
          refine (h3.keysEq _).mpr ⟨⟨e.tx, ?_, rfl⟩, by simp⟩
          simp [txs]
        have h4 := linksOK_recordDescendants h3 e hek
        exact h4.congr (by simp [txs]) (by simp) (by simp) (by simp)

theorem linksOK_set (s : Pool) (id : Nat) (st : Status) (h : LinksOK s) : LinksOK (setEntry s id st) := by
  unfold setEntry
  split
  · exact h
  · refine h.congr ?_ (by simp) (by simp) (by simp)
    simp only [txs, track_entries, List.map_map]
    apply List.map_congr_left; intro x _; simp only [Function.comp]; split <;> rfl

theorem linksOK_stripIn (s : Pool) (i : OutPt) (h : LinksOK s) : LinksOK { s with inputs := s.inputs.filter (·.1 ≠ i) } :=
  ⟨h.ids, h.depKeys, h.depOwn, fun p hp => h.inOwn p (List.mem_filter.mp hp).1, h.struct, h.keysEq⟩

theorem linksOK_stripDep (s : Pool) (i : OutPt) (h : LinksOK s) : LinksOK { s with deps := s.deps.filter (·.1 ≠ i) } := by
  have hk : ((s.deps.filter (·.1 ≠ i)).map (·.1)).Nodup :=
    List.Nodup.sublist (List.Sublist.map _ List.filter_sublist) h.depKeys
  refine ⟨h.ids, hk, ?_, h.inOwn, h.struct, h.keysEq⟩
  intro o x hm
  have hm' : x ∈ usersOf (s.deps.filter (·.1 ≠ i)) o := hm
  obtain ⟨l, hl, hx⟩ := (mem_usersOf hk o x).mp hm'
  exact h.depOwn o x ((mem_usersOf h.depKeys o x).mpr ⟨l, (List.mem_filter.mp hl).1, hx⟩)

theorem linksOK_closed : CoreClosed LinksOK where
  rm := fun s id h => linksRel_rm h id
  rmd := linksOK_rmd
  add := linksOK_add
  set := linksOK_set
  stripIn := fun s i id h _ => linksOK_rmd _ id (linksOK_stripIn s i h)
  stripDep := fun s i acc h => foldRmd_of (P := LinksOK) linksOK_rmd _ _ _ (linksOK_stripDep s i h)

end CkbVerif.Pool
