/-
C11 helper lemmas, part 9: replacement (`process_rbf`), the ghost flag, and `remove_by_detached_proposal`.

* `processRbf` = the fold of `remove_entry_and_descendants` inside `submit`; its surviving transactions are
  exactly the old ones outside `ids.flatMap (rmdIds s)` (`processRbf_txs`); a duplicate-free id list splits
  the total of any per-entry quantity (`sum_split`);
* `addEntry` within the ancestor limit appends exactly the new transaction (`addEntry_ok_within_limit`),
  in general its transactions are old ones or the new one (`addEntry_txs_sub`); the shape of `submit`
  (`submit_eq`, `submitTail_cases`);
* which operations can set the ghost flag `ghostBad`: `GP`/`gp_*` (everything built from
  `remove_entry_and_descendants` keeps it), `removeEntry_ghostBad_iff`, `commitTx_ghostBad`,
  `addEntry_ghostBad_of_no_children`, `submit_ghostBad_of_no_children`, `addEntry_ghostBad_iff`;
* `AcycInv`: on clean histories the link graph is acyclic (`acycInv_closed`); with exact aggregates a parent
  has a strictly smaller `ancestors_count` (`anc_count_lt_of_parent`); the entries
  `remove_entry_and_descendants` returns (`removeWithDesc_removed`); hence `remove_by_detached_proposal`
  re-inserts parents before children and keeps a clean pool clean (`detach_one_ghost`, `detach_ghost`).
-/
import CkbVerif.Lemmas.PoolEdge
import CkbVerif.Lemmas.PoolLimit
import CkbVerif.Lemmas.PoolLinks
import CkbVerif.Lemmas.PoolAgg
import CkbVerif.Lemmas.PoolDerived
namespace CkbVerif.Pool
open CkbVerif.C11

/-! ## lists -/

theorem length_dedup_le {α} [DecidableEq α] (l : List α) : (dedup l).length ≤ l.length := by
  induction l with
  | nil => exact Nat.le_refl _
  | cons a l ih =>
    simp only [dedup]
    split
    · exact Nat.le_succ_of_le ih
    · simp only [List.length_cons]; omega

theorem length_flatMap_id (l : List (List Nat)) : (l.flatMap id).length = (l.map List.length).sum := by
  induction l with
  | nil => rfl
  | cons a l ih => simp only [List.flatMap_cons, List.length_append, List.map_cons, List.sum_cons, ih, id]

theorem foldl_len_eq (l : List (List Nat)) (n : Nat) :
    l.foldl (fun n d => n + d.length + 1) n = n + (l.map fun d => d.length + 1).sum := by
  induction l generalizing n with
  | nil => simp
  | cons a l ih => simp only [List.foldl_cons, List.map_cons, List.sum_cons]; rw [ih]; omega

theorem sum_len_succ (l : List (List Nat)) :
    (l.map fun d => d.length + 1).sum = (l.map List.length).sum + l.length := by
  induction l with
  | nil => rfl
  | cons a l ih => simp only [List.map_cons, List.sum_cons, List.length_cons, ih]; omega

theorem foldl_fee_eq (l : List Entry) (n : Nat) :
    l.foldl (fun acc e => acc + e.tx.fee) n = n + (l.map (·.tx.fee)).sum := by
  induction l generalizing n with
  | nil => simp
  | cons a l ih => simp only [List.foldl_cons, List.map_cons, List.sum_cons]; rw [ih]; omega

/-! ## `process_rbf` -/

/-- the fold inside `submit` (`process_rbf`): every conflict leaves with its descendants -/
def processRbf (s : Pool) (conflicts : List Nat) : Pool × List Nat :=
  conflicts.foldl (fun (acc : Pool × List Nat) c =>
    let r := removeWithDesc acc.1 c
    (r.1, acc.2 ++ idsOf r.2)) (s, [])

theorem rmV_cores (v : EdgeV) (id : Nat) : (rmV v id).cores = v.cores.filter (·.1.id ≠ id) := by
  unfold rmV
  cases hf : findCore v id with
  | none =>
    symm
    apply List.filter_eq_self.mpr
    intro c hc
    simpa using findCore_none hf c hc
  | some c => cases hc : c.2.1 <;> simp [decSt, hc]

theorem foldRm_cores (ids : List Nat) (v : EdgeV) : (ids.foldl rmV v).cores = v.cores.filter (·.1.id ∉ ids) := by
  induction ids generalizing v with
  | nil => exact (List.filter_eq_self.mpr (by simp)).symm
  | cons a l ih =>
    simp only [List.foldl_cons]
    rw [ih, rmV_cores, List.filter_filter]
    apply List.filter_congr
    intro x _
    by_cases h1 : x.1.id ∈ l <;> by_cases h2 : x.1.id = a <;> simp [h1, h2]

theorem txs_eq_cores (s : Pool) : txs s = (edge s).cores.map (·.1) := by
  simp only [txs, edge, List.map_map]; rfl

/-- the transactions `remove_entry_and_descendants` leaves: the old ones outside `rmdIds` -/
theorem removeWithDesc_txs (s : Pool) (id : Nat) :
    txs (removeWithDesc s id).1 = (txs s).filter (·.id ∉ rmdIds s id) := by
  rw [txs_eq_cores, edge_removeWithDesc, foldRm_cores, txs_eq_cores, List.filter_map]
  rfl

theorem foldRmd_acc (ids : List Nat) (s : Pool) (acc : List Nat) :
    (ids.foldl (fun (acc : Pool × List Nat) c =>
      let r := removeWithDesc acc.1 c
      (r.1, acc.2 ++ idsOf r.2)) (s, acc)).1 = (processRbf s ids).1 := by
  unfold processRbf
  generalize ([] : List Nat) = acc'
  induction ids generalizing s acc acc' with
  | nil => rfl
  | cons a l ih => simp only [List.foldl_cons]; exact ih _ _ _

theorem processRbf_cons (s : Pool) (a : Nat) (l : List Nat) :
    (processRbf s (a :: l)).1 = (processRbf (removeWithDesc s a).1 l).1 := by
  conv => lhs; unfold processRbf
  simp only [List.foldl_cons]
  exact foldRmd_acc _ _ _

/-- membership in `rmdIds` after an earlier `remove_entry_and_descendants`, for a survivor -/
theorem mem_rmdIds_after {s : Pool} (hL : LinksOK s) (a c y : Nat) (hy : y ∉ rmdIds s a) :
    y ∈ rmdIds (removeWithDesc s a).1 c ↔ y ∈ rmdIds s c := by
  have hst := hL.struct
  have hdc := downClosed_rmdIds hst a
  have hl := (removeWithDesc_final hL a).1
  obtain ⟨hst', hk'⟩ := foldUnlink (rmdIds s a) s.links hst
  have hmem : ∀ (L : LinkMap), LinkStruct L → ∀ c y, y ∈ c :: (calcDesc L c).filter (· ≠ c) ↔ y = c ∨ Desc L c y := by
    intro L hLs c y
    rw [List.mem_cons, List.mem_filter, mem_calcDesc hLs]
    constructor
    · rintro (e | ⟨d, _⟩)
      · exact Or.inl e
      · exact Or.inr d
    · rintro (e | d)
      · exact Or.inl e
      · by_cases e : y = c
        · exact Or.inl e
        · exact Or.inr ⟨d, by simpa using e⟩
  show y ∈ c :: (calcDesc (removeWithDesc s a).1.links c).filter (· ≠ c) ↔ y ∈ c :: (calcDesc s.links c).filter (· ≠ c)
  rw [hl, hmem _ hst', hmem _ hst]
  change y ∉ a :: (calcDesc s.links a).filter (· ≠ a) at hy
  unfold rmdIds at hst' hk' ⊢
  by_cases hcD : c ∈ a :: (calcDesc s.links a).filter (· ≠ a)
  · constructor
    · rintro (e | d)
      · exact Or.inl e
      · exfalso
        have hck : c ∉ keys ((a :: (calcDesc s.links a).filter (· ≠ a)).foldl removeEntryLinks s.links) := by
          rw [hk']; intro hm
          have := (List.mem_filter.mp hm).2
          simp only [decide_eq_true_eq] at this
          exact this hcD
        obtain ⟨c0, hc0, _⟩ := d
        rw [childrenOf_nil_of_not_key hck] at hc0; cases hc0
    · rintro (e | d)
      · exact Or.inl e
      · exfalso
        obtain ⟨c0, hc0, hr⟩ := d
        exact hy (absorbing_rt hdc (hdc c hcD c0 hc0) hr)
  · rw [desc_after_rmd hst hdc hcD]
    constructor
    · rintro (e | ⟨d, _⟩)
      · exact Or.inl e
      · exact Or.inr d
    · rintro (e | d)
      · exact Or.inl e
      · exact Or.inr ⟨d, hy⟩

/-- what `process_rbf` leaves: exactly the old transactions outside the removal sets taken IN THE STATE
    BEFORE the replacement -/
theorem processRbf_txs (ids : List Nat) (s : Pool) (hL : LinksOK s) :
    LinksOK (processRbf s ids).1 ∧
    txs (processRbf s ids).1 = (txs s).filter (·.id ∉ ids.flatMap (rmdIds s)) := by
  induction ids generalizing s with
  | nil => exact ⟨hL, (List.filter_eq_self.mpr (by simp)).symm⟩
  | cons a l ih =>
    rw [processRbf_cons]
    obtain ⟨h1, h2⟩ := ih (removeWithDesc s a).1 (linksOK_rmd s a hL)
    refine ⟨h1, ?_⟩
    rw [h2, removeWithDesc_txs, List.filter_filter]
    apply List.filter_congr
    intro x _
    by_cases hx : x.id ∈ rmdIds s a
    · simp [hx]
    · have : x.id ∈ l.flatMap (rmdIds (removeWithDesc s a).1) ↔ x.id ∈ l.flatMap (rmdIds s) := by
        simp only [List.mem_flatMap]
        constructor
        · rintro ⟨c, hc, hm⟩; exact ⟨c, hc, (mem_rmdIds_after hL a c x.id hx).mp hm⟩
        · rintro ⟨c, hc, hm⟩; exact ⟨c, hc, (mem_rmdIds_after hL a c x.id hx).mpr hm⟩
      by_cases h3 : x.id ∈ l.flatMap (rmdIds s)
      · have h4 := this.mpr h3
        simp [hx, h3, h4]
      · have h4 : x.id ∉ l.flatMap (rmdIds (removeWithDesc s a).1) := fun h => h3 (this.mp h)
        simp only [List.flatMap_cons, List.mem_append, hx, h3, h4, or_self, not_false_eq_true, decide_true, Bool.and_self]

/-! ## fees -/

theorem sum_remove_entry (f : Entry → Nat) (l : List Entry) (h : (l.map (·.tx.id)).Nodup) (c : Entry) (hc : c ∈ l) :
    ((l.filter (·.tx.id ≠ c.tx.id)).map f).sum + f c = (l.map f).sum := by
  induction l with
  | nil => cases hc
  | cons x l ih =>
    simp only [List.map_cons, List.nodup_cons] at h
    rw [List.filter_cons]
    by_cases hx : x.tx.id = c.tx.id
    · have hxc : x = c := by
        rcases List.mem_cons.mp hc with e | e
        · exact e.symm
        · exact absurd (List.mem_map.mpr ⟨c, e, hx.symm⟩) h.1
      subst hxc
      have hl : l.filter (·.tx.id ≠ x.tx.id) = l := by
        apply List.filter_eq_self.mpr
        intro a ha
        have : a.tx.id ≠ x.tx.id := fun e => h.1 (List.mem_map.mpr ⟨a, ha, e⟩)
        simpa using this
      have hd : decide (x.tx.id ≠ x.tx.id) = false := by simp
      rw [hd]
      simp only [Bool.false_eq_true, if_false, List.map_cons, List.sum_cons]
      rw [hl]; omega
    · have hcl : c ∈ l := by
        rcases List.mem_cons.mp hc with e | e
        · exact absurd (by rw [e]) hx
        · exact e
      have hd : decide (x.tx.id ≠ c.tx.id) = true := by simpa using hx
      rw [hd]
      simp only [if_true, List.map_cons, List.sum_cons]
      have := ih h.2 hcl
      omega

/-- a duplicate-free id list splits the total of any per-entry quantity: the entries outside the list plus
    the listed (pooled) entries, each once -/
theorem sum_split (f : Entry → Nat) (l : List Entry) (hl : (l.map (·.tx.id)).Nodup) (R : List Nat) (hR : R.Nodup) :
    ((l.filter (·.tx.id ∉ R)).map f).sum + ((R.filterMap fun r => l.find? (·.tx.id = r)).map f).sum = (l.map f).sum := by
  induction R with
  | nil =>
    have : l.filter (·.tx.id ∉ ([] : List Nat)) = l := List.filter_eq_self.mpr (by simp)
    rw [this]; simp
  | cons r R ih =>
    simp only [List.nodup_cons] at hR
    have ih := ih hR.2
    have hff : l.filter (·.tx.id ∉ r :: R) = (l.filter (·.tx.id ∉ R)).filter (·.tx.id ≠ r) := by
      rw [List.filter_filter]
      apply List.filter_congr
      intro x _
      by_cases h1 : x.tx.id ∈ R <;> by_cases h2 : x.tx.id = r <;> simp [h1, h2]
    rw [hff]
    cases hf : l.find? (·.tx.id = r) with
    | none =>
      have hnone : ∀ x ∈ l, x.tx.id ≠ r := by
        intro x hx; simpa using List.find?_eq_none.mp hf x hx
      have : (l.filter (·.tx.id ∉ R)).filter (·.tx.id ≠ r) = l.filter (·.tx.id ∉ R) := by
        apply List.filter_eq_self.mpr
        intro x hx
        simpa using hnone x (List.mem_filter.mp hx).1
      rw [this, List.filterMap_cons, hf]
      exact ih
    | some c =>
      have hcl : c ∈ l := List.mem_of_find?_eq_some hf
      have hcid : c.tx.id = r := by simpa using List.find?_some hf
      have hcin : c ∈ l.filter (·.tx.id ∉ R) := List.mem_filter.mpr ⟨hcl, by rw [hcid]; simpa using hR.1⟩
      have hnd : ((l.filter (·.tx.id ∉ R)).map (·.tx.id)).Nodup :=
        List.Nodup.sublist (List.Sublist.map _ List.filter_sublist) hl
      have := sum_remove_entry f _ hnd c hcin
      rw [hcid] at this
      rw [List.filterMap_cons, hf]
      simp only [List.map_cons, List.sum_cons]
      omega

theorem filterMap_getEntry_eq (s : Pool) (R : List Nat) :
    R.filterMap (getEntry s) = R.filterMap fun r => s.entries.find? (·.tx.id = r) := rfl

/-! ## `add_entry`: which transactions it leaves -/

theorem txs_sub_of_foldRm {s s' : Pool} {ids : List Nat} (h : edge s' = ids.foldl rmV (edge s)) :
    ∀ x ∈ txs s', x ∈ txs s := by
  intro x hx
  rw [txs_eq_cores, h] at hx
  obtain ⟨c, hc, rfl⟩ := List.mem_map.mp hx
  rw [txs_eq_cores]
  exact List.mem_map.mpr ⟨c, (foldRm_shrinks ids _).2 c hc, rfl⟩

theorem finalOf_txs (s3 : Pool) (t : Tx) (e : Entry) (st : Status) : txs (finalOf s3 t e st) = txs s3 := by
  have := (recordDescendants_txs s3 e).1
  simp only [txs] at this ⊢
  simp only [finalOf, track_entries]
  exact this

theorem pushEntry_txs (s2 : Pool) (t : Tx) (e : Entry) : txs (pushEntry s2 t e) = txs s2 ++ [e.tx] := by
  simp [txs, pushEntry, recordEdges]

/-- after `add_entry` every pooled transaction is an old one or the new one -/
theorem addEntry_txs_sub (s : Pool) (t : Tx) (st : Status) (ts : Nat) :
    ∀ x ∈ txs (addEntry s t st ts).1, x ∈ txs s ∨ x = t := by
  intro x hx
  have hg := checkAnc_edge s (Entry.fresh t st ts)
  rcases addEntry_cases s t st ts with h | ⟨s', h1 | h1, h2⟩ | ⟨s2, e, ev, _, h1, h2⟩
  · rw [h] at hx; exact Or.inl hx
  · rw [h1] at hg; rw [h2] at hx
    obtain ⟨ids, hids⟩ := hg
    exact Or.inl (txs_sub_of_foldRm hids x hx)
  · rw [h1] at hg; rw [h2] at hx
    obtain ⟨ids, hids⟩ := hg
    exact Or.inl (txs_sub_of_foldRm hids x hx)
  · rw [h1] at hg; rw [h2, finalOf_txs, pushEntry_txs] at hx
    obtain ⟨⟨ids, hids⟩, hcore⟩ := hg
    rcases List.mem_append.mp hx with a | a
    · exact Or.inl (txs_sub_of_foldRm hids x a)
    · right
      have : e.tx = t := congrArg Prod.fst hcore
      rw [← this]; simpa using a

/-- `add_entry` within the ancestor limit (the eviction path of `check_and_record_ancestors` is not
    entered): the pooled transactions are the old ones followed by the new one -/
theorem addEntry_ok_within_limit (s : Pool) (t : Tx) (st : Status) (ts : Nat) (s2 : Pool) (ev : List Nat)
    (hadd : addEntry s t st ts = (s2, .ok ev))
    (hlim : (txAncestors s t).1.length + 1 ≤ s.cfg.maxAnc) : txs s2 = txs s ++ [t] ∧ ev = [] := by
  have h1 : (addEntry s t st ts).1 = s2 := by rw [hadd]
  have h2 : (addEntry s t st ts).2 = .ok ev := by rw [hadd]
  unfold addEntry at h1 h2
  split at h2
  · cases h2
  · split at h2
    · cases h2
    · rename_i hdup hconf
      simp only [hdup, hconf] at h1
      have hchk : ∀ r, checkAndRecordAncestors s (Entry.fresh t st ts) = r →
          (∃ s' e', r = .ok s' e' [] ∧ txs s' = txs s ∧ e'.tx = t) ∨ r = .panic s := by
        intro r hr
        unfold checkAndRecordAncestors at hr
        simp only at hr
        have hlim' : (txAncestors s (Entry.fresh t st ts).tx).1.length + 1 ≤ s.cfg.maxAnc := hlim
        rw [if_pos hlim'] at hr
        cases hra : recordAncestors s (Entry.fresh t st ts) (txAncestors s (Entry.fresh t st ts).tx).1
            (txAncestors s (Entry.fresh t st ts).tx).2.1 with
        | none => rw [hra] at hr; exact Or.inr hr.symm
        | some p =>
          obtain ⟨s', e'⟩ := p
          rw [hra] at hr
          obtain ⟨a, _, c⟩ := recordAncestors_txs hra
          exact Or.inl ⟨s', e', hr.symm, a, c⟩
      rcases hchk _ rfl with ⟨s', e', hr, htx, hetx⟩ | hr
      · rw [hr] at h1 h2
        simp only at h1 h2
        injection h2 with h2
        refine ⟨?_, h2.symm⟩
        rw [← h1]
        have := finalOf_txs (pushEntry s' t e') t e' st
        rw [pushEntry_txs, htx, hetx] at this
        exact this
      · rw [hr] at h2; cases h2

/-! ## the ghost flag -/

/-- consistent links and a given value of the ghost flag -/
def GP (g : Bool) (x : Pool) : Prop := LinksOK x ∧ x.ghostBad = g

theorem gp_rmd (g : Bool) (s : Pool) (id : Nat) (h : GP g s) : GP g (removeWithDesc s id).1 :=
  ⟨linksOK_rmd s id h.1, (removeWithDesc_ghostBad h.1 id).trans h.2⟩

theorem gp_foldRmd (g : Bool) (ids : List Nat) (s : Pool) (acc : List Nat) (h : GP g s) :
    GP g (ids.foldl (fun (acc : Pool × List Nat) id =>
      let r := removeWithDesc acc.1 id
      (r.1, acc.2 ++ idsOf r.2)) (s, acc)).1 :=
  foldRmd_of (P := GP g) (gp_rmd g) ids s acc h

theorem gp_limitLoop (g : Bool) (f : Nat) (s : Pool) (ev : List Nat) (h : GP g s) : GP g (limitLoop f s ev).1 := by
  induction f generalizing s ev with
  | zero => exact h
  | succ n ih =>
    unfold limitLoop
    split
    · split
      · exact ih _ _ (gp_rmd g _ _ h)
      · exact h
    · exact h

theorem gp_removeExpired (g : Bool) (order : List Nat) (s : Pool) (h : GP g s) : GP g (removeExpired s order) := by
  unfold removeExpired
  induction order generalizing s with
  | nil => exact h
  | cons a l ih => simp only [List.foldl_cons]; exact ih _ (gp_rmd g _ _ h)

theorem gp_resolveConflict (g : Bool) (t : Tx) (s : Pool) (hs : GP g s) : GP g (resolveConflict s t).1 := by
  unfold Pool.resolveConflict
  suffices ∀ (l : List OutPt) (s0 : Pool) (acc0 : List Nat), GP g s0 →
      GP g (l.foldl (fun (acc : Pool × List Nat) i =>
        let s := acc.1
        let acc := match inputUser s i with
          | some id =>
            let r := removeWithDesc { s with inputs := s.inputs.filter (·.1 ≠ i) } id
            (r.1, acc.2 ++ idsOf r.2)
          | none => acc
        let users := depUsers acc.1 i
        let s := { acc.1 with deps := acc.1.deps.filter (·.1 ≠ i) }
        users.foldl (fun (acc : Pool × List Nat) id =>
          let r := removeWithDesc acc.1 id
          (r.1, acc.2 ++ idsOf r.2)) (s, acc.2)) (s0, acc0)).1 from this _ s [] hs
  intro l
  induction l with
  | nil => exact fun _ _ h0 => h0
  | cons i l ih =>
    intro s0 acc0 h0
    simp only [List.foldl_cons]
    have step1 : ∃ s1 a1, (match inputUser s0 i with
          | some id =>
            let r := removeWithDesc { s0 with inputs := s0.inputs.filter (·.1 ≠ i) } id
            (r.1, acc0 ++ idsOf r.2)
          | none => (s0, acc0)) = (s1, a1) ∧ GP g s1 := by
      cases hu : inputUser s0 i with
      | none => exact ⟨s0, acc0, rfl, h0⟩
      | some id => exact ⟨_, _, rfl, gp_rmd g _ id ⟨linksOK_stripIn s0 i h0.1, h0.2⟩⟩
    obtain ⟨s1, a1, heq, h1⟩ := step1
    simp only at heq ⊢
    rw [heq]
    exact ih _ _ (gp_foldRmd g (depUsers s1 i) { s1 with deps := s1.deps.filter (·.1 ≠ i) } a1
      ⟨linksOK_stripDep s1 i h1.1, h1.2⟩)

theorem setEntry_ghostBad (s : Pool) (id : Nat) (st : Status) : (setEntry s id st).ghostBad = s.ghostBad := by
  unfold setEntry
  cases getEntry s id with
  | none => rfl
  | some e => simp only [track_ghostBad]

/-- `remove_entry` sets the flag iff the entry is pooled and lies between pooled ancestors and descendants -/
theorem removeEntry_ghostBad_iff (s : Pool) (id : Nat) :
    (removeEntry s id).1.ghostBad = (s.ghostBad || ((getEntry s id).isSome && isBetween s.links id)) := by
  cases hg : getEntry s id with
  | none => rw [removeEntry_none s id hg]; simp
  | some e => rw [removeEntry_ghostBad s id e hg]; simp

/-- `remove_committed_tx`: only its `remove_entry` can set the flag -/
theorem commitTx_ghostBad {s : Pool} (hL : LinksOK s) (t : Tx) :
    (commitTx s t).1.ghostBad = (s.ghostBad || ((getEntry s t.id).isSome && isBetween s.links t.id)) := by
  unfold commitTx
  rw [← removeEntry_ghostBad_iff]
  exact (gp_resolveConflict _ t _ ⟨linksRel_rm hL t.id, rfl⟩).2

/-- what `check_and_record_ancestors` does to the flag: nothing -/
def AncGoodG (s : Pool) : AncRes → Prop
  | .ok s' _ _ => s'.ghostBad = s.ghostBad
  | .panic s' => s'.ghostBad = s.ghostBad
  | .rejAfter s' => s'.ghostBad = s.ghostBad
  | .rej => True

theorem recordAncestors_goodG {s s0 : Pool} (hs : s.ghostBad = s0.ghostBad) (e : Entry) (a p ev : List Nat) :
    AncGoodG s0 (match recordAncestors s e a p with
      | some (s', e') => AncRes.ok s' e' ev
      | none => AncRes.panic s) := by
  cases hr : recordAncestors s e a p with
  | none => exact hs
  | some r =>
    obtain ⟨s', e'⟩ := r
    unfold recordAncestors at hr
    split at hr
    · simp only [Option.some.injEq, Prod.mk.injEq] at hr
      show s'.ghostBad = s0.ghostBad
      rw [← hr.1]; exact hs
    · cases hr

theorem checkAnc_ghost {s : Pool} (h : LinksOK s) (e : Entry) : AncGoodG s (checkAndRecordAncestors s e) := by
  unfold checkAndRecordAncestors
  simp only
  split
  · exact recordAncestors_goodG rfl e _ _ _
  · split
    · have hl := (evictLoop_of (P := GP s.ghostBad) (gp_rmd s.ghostBad)
        (((byEvictKey s.entries).filter (·.tx.id ∈ (txAncestors s e.tx).2.2)).map (·.tx.id)) s
        ((txAncestors s e.tx).1.length + 1) (txAncestors s e.tx).2.1 [] ⟨h, rfl⟩).2
      split
      · exact hl
      · split
        · exact recordAncestors_goodG hl e _ _ _
        · exact hl
    · trivial

theorem recordDescendants_ghostBad_nil (s : Pool) (e : Entry) (h : findChildren s e.tx = []) :
    (recordDescendants s e).ghostBad = s.ghostBad := by
  unfold recordDescendants
  simp only [h, List.isEmpty_nil, if_true]

/-- `add_entry` of a transaction none of whose outputs is referenced from the pool (and which does not
    reference itself) does not set the flag: `record_entry_descendants` finds no children, and the evictions
    inside `check_and_record_ancestors` are `remove_entry_and_descendants` -/
theorem addEntry_ghostBad_of_no_children {s : Pool} (hL : LinksOK s) (t : Tx) (st : Status) (ts : Nat)
    (hno : ∀ x ∈ txs s, ∀ o ∈ x.inputs ++ x.deps, o ∉ outputs t)
    (hself : ∀ o ∈ t.inputs ++ t.deps, o ∉ outputs t) :
    (addEntry s t st ts).1.ghostBad = s.ghostBad := by
  have hg := checkAnc_ghost hL (Entry.fresh t st ts)
  have hk := checkAnc_links hL (Entry.fresh t st ts)
  rcases addEntry_cases s t st ts with h | ⟨s', h1 | h1, h2⟩ | ⟨s2, e, ev, _, h1, h2⟩
  · rw [h]
  · rw [h1] at hg; rw [h2]; exact hg
  · rw [h1] at hg; rw [h2]; exact hg
  · rw [h1] at hg hk
    rw [h2]
    obtain ⟨s1, P, hL1, hsh, hs2, hetx, _, _⟩ := hk
    have hetx : e.tx = t := hetx
    have hnil : findChildren (pushEntry s2 t e) e.tx = [] := by
      apply List.eq_nil_iff_forall_not_mem.mpr
      intro c hc
      obtain ⟨o, ho, hu⟩ := (mem_findChildren_iff _ _ _).mp hc
      rw [hetx] at ho
      have hotx : o ∈ outputs t := ho
      subst hs2
      rcases hu with hu | hu
      · rw [depUsers_eq] at hu
        rcases foldInsert_rel t.deps t.id s1.deps hL1.depKeys o c hu with a | ⟨a, _⟩
        · obtain ⟨t', ht', _, hod⟩ := hL1.depOwn o c a
          exact hno t' (hsh.2 t' ht') o (List.mem_append.mpr (Or.inr hod)) hotx
        · exact hself o (List.mem_append.mpr (Or.inr a)) hotx
      · have hm := inputUser_mem' hu
        rcases List.mem_append.mp hm with a | a
        · obtain ⟨t', ht', _, hoi⟩ := hL1.inOwn (o, c) a
          exact hno t' (hsh.2 t' ht') o (List.mem_append.mpr (Or.inl hoi)) hotx
        · obtain ⟨o', ho', heq⟩ := List.mem_map.mp a
          have : o' = o := congrArg Prod.fst heq
          rw [this] at ho'
          exact hself o (List.mem_append.mpr (Or.inl ho')) hotx
    show (finalOf (pushEntry s2 t e) t e st).ghostBad = s.ghostBad
    simp only [finalOf, track_ghostBad]
    rw [recordDescendants_ghostBad_nil _ _ hnil]
    exact hg

/-- `check_rbf` answers with the conflict set or not at all -/
theorem checkRbf_ok_eq {s : Pool} {t : Tx} {c : List Nat} (h : checkRbf s t = .ok c) : c = conflictIds s t := by
  unfold checkRbf at h
  simp only at h
  split at h
  · rename_i he
    injection h with h
    rw [← h]; exact (List.isEmpty_iff.mp he).symm
  · split at h <;> try (cases h; done)
    split at h <;> try (cases h; done)
    split at h <;> try (cases h; done)
    split at h <;> try (cases h; done)
    split at h <;> try (cases h; done)
    split at h <;> try (cases h; done)
    injection h with h; exact h.symm

/-- the part of `submit` after the admission test -/
def submitTail (s : Pool) (conflicts : List Nat) (t : Tx) (st : Status) (ts : Nat) : Pool × SubmitRes :=
  match addEntry (processRbf s conflicts).1 t st ts with
  | (s2, .ok ev) =>
    if t.id ∈ (limitSize s2).2 then ((limitSize s2).1, .full (processRbf s conflicts).2 ev (limitSize s2).2)
    else ((limitSize s2).1, .ok (processRbf s conflicts).2 ev (limitSize s2).2)
  | (s2, r) => (s2, .add r)

/-- the shape of `submit`: refused by the admission test (state unchanged), or `process_rbf` of the
    conflict set followed by `add_entry` and `limit_size` -/
theorem submit_eq (s : Pool) (t : Tx) (st : Status) (ts : Nat) :
    submit s t st ts = (s, .dead) ∨ (∃ r, submit s t st ts = (s, .rbf r)) ∨
    submit s t st ts = submitTail s (conflictIds s t) t st ts := by
  have main : ∀ c, (match processRbf s c with
      | (s1, replaced) =>
        match addEntry s1 t st ts with
        | (s2, .ok ev) =>
          let (s3, lim) := limitSize s2
          if t.id ∈ lim then (s3, SubmitRes.full replaced ev lim) else (s3, SubmitRes.ok replaced ev lim)
        | (s2, r) => (s2, .add r)) = submitTail s c t st ts := by
    intro c
    unfold submitTail
    rcases processRbf s c with ⟨s1, rp⟩
    simp only
  unfold submit
  simp only
  by_cases hen : enableRbf s.cfg = true
  · simp only [hen, if_true]
    cases hr : checkRbf s t with
    | ok c =>
      have := checkRbf_ok_eq hr
      subst this
      right; right
      exact main _
    | unconfirmed => right; left; exact ⟨_, rfl⟩
    | struct => right; left; exact ⟨_, rfl⟩
    | dep => right; left; exact ⟨_, rfl⟩
    | fee => right; left; exact ⟨_, rfl⟩
  · simp only [hen]
    by_cases hc : (conflictIds s t).isEmpty = true
    · simp only [hc, if_true]
      right; right
      have : conflictIds s t = [] := List.isEmpty_iff.mp hc
      rw [this]
      exact main _
    · simp only [hc]
      left; rfl

theorem submitTail_cases (s : Pool) (c : List Nat) (t : Tx) (st : Status) (ts : Nat) :
    (∃ ev, (addEntry (processRbf s c).1 t st ts).2 = .ok ev ∧
      (submitTail s c t st ts).1 = (limitSize (addEntry (processRbf s c).1 t st ts).1).1 ∧
      ((submitTail s c t st ts).2 = .ok (processRbf s c).2 ev (limitSize (addEntry (processRbf s c).1 t st ts).1).2 ∨
       (submitTail s c t st ts).2 = .full (processRbf s c).2 ev (limitSize (addEntry (processRbf s c).1 t st ts).1).2)) ∨
    ((∀ ev, (addEntry (processRbf s c).1 t st ts).2 ≠ .ok ev) ∧
      submitTail s c t st ts = ((addEntry (processRbf s c).1 t st ts).1, .add (addEntry (processRbf s c).1 t st ts).2)) := by
  unfold submitTail
  rcases addEntry (processRbf s c).1 t st ts with ⟨s2, r⟩
  cases r with
  | ok ev =>
    left
    refine ⟨ev, rfl, ?_⟩
    simp only
    split
    · exact ⟨rfl, Or.inr rfl⟩
    · exact ⟨rfl, Or.inl rfl⟩
  | dup => right; exact ⟨fun _ h => (by cases h), rfl⟩
  | rejAnc => right; exact ⟨fun _ h => (by cases h), rfl⟩
  | rejDbl => right; exact ⟨fun _ h => (by cases h), rfl⟩
  | panic => right; exact ⟨fun _ h => (by cases h), rfl⟩

theorem limitSize_shrinks (s : Pool) : Shrinks (limitSize s).1 s := by
  unfold limitSize
  generalize s.entries.length + 1 = f
  generalize ([] : List Nat) = ev
  induction f generalizing s ev with
  | zero => exact Shrinks.refl s
  | succ n ih =>
    unfold limitLoop
    split
    · split
      · exact (ih _ _).trans (removeWithDesc_shrinks s _)
      · exact Shrinks.refl s
    · exact Shrinks.refl s

/-- `submit` of a transaction none of whose outputs is referenced from the pool does not set the flag -/
theorem submit_ghostBad_of_no_children {s : Pool} (hL : LinksOK s) (t : Tx) (st : Status) (ts : Nat)
    (hno : ∀ x ∈ txs s, ∀ o ∈ x.inputs ++ x.deps, o ∉ outputs t)
    (hself : ∀ o ∈ t.inputs ++ t.deps, o ∉ outputs t) :
    (submit s t st ts).1.ghostBad = s.ghostBad := by
  rcases submit_eq s t st ts with h | ⟨r, h⟩ | h
  · rw [h]
  · rw [h]
  · rw [h]
    have h1 : GP s.ghostBad (processRbf s (conflictIds s t)).1 := gp_foldRmd _ _ s [] ⟨hL, rfl⟩
    have hsub : ∀ x ∈ txs (processRbf s (conflictIds s t)).1, x ∈ txs s := by
      intro x hx
      rw [(processRbf_txs _ s hL).2] at hx
      exact (List.mem_filter.mp hx).1
    have h2 : GP s.ghostBad (addEntry (processRbf s (conflictIds s t)).1 t st ts).1 :=
      ⟨linksOK_add _ t st ts h1.1,
        (addEntry_ghostBad_of_no_children h1.1 t st ts (fun x hx => hno x (hsub x hx)) hself).trans h1.2⟩
    rcases submitTail_cases s (conflictIds s t) t st ts with ⟨ev, _, hs, _⟩ | ⟨_, hs⟩
    · rw [hs]; exact (gp_limitLoop _ _ _ [] h2).2
    · rw [hs]; exact h2.2

/-! ## `add_entry` sets the flag iff the new entry ends up with children -/

def addOk : AddRes → Bool
  | .ok _ => true
  | _ => false

theorem addEntry_cases2 (s : Pool) (t : Tx) (st : Status) (ts : Nat) :
    ((addEntry s t st ts).1 = s ∧ addOk (addEntry s t st ts).2 = false) ∨
    (∃ s', (checkAndRecordAncestors s (Entry.fresh t st ts) = .panic s' ∨
        checkAndRecordAncestors s (Entry.fresh t st ts) = .rejAfter s') ∧ (addEntry s t st ts).1 = s' ∧
        addOk (addEntry s t st ts).2 = false) ∨
    (∃ s2 e ev, getEntry s t.id = none ∧ checkAndRecordAncestors s (Entry.fresh t st ts) = .ok s2 e ev ∧
        addEntry s t st ts = (finalOf (pushEntry s2 t e) t e st, .ok ev)) := by
  unfold addEntry
  split
  · exact Or.inl ⟨rfl, rfl⟩
  · rename_i hdup
    simp only [Bool.not_eq_true, Option.isSome_eq_false_iff, Option.isNone_iff_eq_none] at hdup
    split
    · exact Or.inl ⟨rfl, rfl⟩
    · split
      · exact Or.inl ⟨rfl, rfl⟩
      · rename_i s' heq; exact Or.inr (Or.inl ⟨s', Or.inr heq, rfl, rfl⟩)
      · rename_i s' heq; exact Or.inr (Or.inl ⟨s', Or.inl heq, rfl, rfl⟩)
      · rename_i s2 e ev heq; exact Or.inr (Or.inr ⟨s2, e, ev, hdup, heq, rfl⟩)

theorem recordDescendants_ghostBad_cons (s : Pool) (e : Entry) (h : findChildren s e.tx ≠ []) :
    (recordDescendants s e).ghostBad = true := by
  have hc : (findChildren s e.tx).isEmpty = false := by
    cases hf : findChildren s e.tx with
    | nil => exact absurd hf h
    | cons a l => rfl
  unfold recordDescendants
  simp only [hc]
  split
  · rename_i hf; cases hf
  · split <;> rfl

/-- `add_entry` sets the flag iff it succeeds and the new entry ends up with children in the link map
    (`record_entry_descendants` found pooled users of its outputs) -/
theorem addEntry_ghostBad_iff {s : Pool} (hL : LinksOK s) (t : Tx) (st : Status) (ts : Nat) :
    (addEntry s t st ts).1.ghostBad =
      (s.ghostBad || (addOk (addEntry s t st ts).2 && !(childrenOf (addEntry s t st ts).1.links t.id).isEmpty)) := by
  have hg := checkAnc_ghost hL (Entry.fresh t st ts)
  have hk := checkAnc_links hL (Entry.fresh t st ts)
  rcases addEntry_cases2 s t st ts with ⟨h, h0⟩ | ⟨s', h1 | h1, h2, h0⟩ | ⟨s2, e, ev, _, h1, h2⟩
  · rw [h0, h]; simp
  · rw [h1] at hg; rw [h0, h2]; simp; exact hg
  · rw [h1] at hg; rw [h0, h2]; simp; exact hg
  · rw [h1] at hg hk
    rw [h2]
    obtain ⟨s1, P, hL1, hsh, hs2, hetx, _, _⟩ := hk
    have hetx : e.tx = t := hetx
    have hid : (Entry.fresh t st ts).tx.id = t.id := rfl
    rw [hid] at hs2
    have hgs : s2.ghostBad = s.ghostBad := hg
    simp only [addOk, Bool.true_and]
    show (finalOf (pushEntry s2 t e) t e st).ghostBad =
      (s.ghostBad || !(childrenOf (finalOf (pushEntry s2 t e) t e st).links t.id).isEmpty)
    simp only [finalOf, track_ghostBad, track_links]
    rw [recordDescendants_links]
    have hl3 : (pushEntry s2 t e).links = addNodeLinks s1.links t.id P := by rw [hs2]; rfl
    by_cases hnil : findChildren (pushEntry s2 t e) e.tx = []
    · rw [recordDescendants_ghostBad_nil _ _ hnil, hnil]
      simp only [List.isEmpty_nil, if_true]
      rw [hl3, childrenOf_addNodeLinks]
      simp only [if_true, List.isEmpty_nil, Bool.not_true, Bool.or_false]
      exact hgs
    · rw [recordDescendants_ghostBad_cons _ _ hnil]
      have hc : (findChildren (pushEntry s2 t e) e.tx).isEmpty = false := by
        cases hf : findChildren (pushEntry s2 t e) e.tx with
        | nil => exact absurd hf hnil
        | cons a l => rfl
      rw [hc, hetx]
      simp only [Bool.false_eq_true, if_false]
      rw [childrenOf_linkChildren, hl3, linkOf_addNodeLinks]
      simp only [if_true, Option.elim]
      obtain ⟨a, ha⟩ := List.exists_mem_of_ne_nil _ hnil
      rw [hetx] at ha
      have hm : a ∈ (findChildren (pushEntry s2 t e) t).foldl insertNew [] :=
        (mem_foldl_insertNew _ _ a).mpr (Or.inr ha)
      cases hf : (findChildren (pushEntry s2 t e) t).foldl insertNew [] with
      | nil => rw [hf] at hm; cases hm
      | cons b l => simp

/-! ## acyclicity of the link graph on clean histories -/

/-- no transaction is its own ancestor -/
def Acyclic (L : LinkMap) : Prop := ∀ y, ¬ Anc L y y

/-- consistent links, and the link graph is acyclic as long as the ghost flag is not set -/
def AcycInv (s : Pool) : Prop := LinksOK s ∧ (s.ghostBad = false → Acyclic s.links)

theorem rt_mono {g g' : Nat → List Nat} (hsub : ∀ z w, w ∈ g' z → w ∈ g z) {x y : Nat} (h : RT g' x y) : RT g x y := by
  induction h with
  | refl => exact .refl _
  | step hy _ ih => exact .step (hsub _ _ hy) ih

theorem acyclic_mono {L L' : LinkMap} (hsub : ∀ z w, w ∈ parentsOf L' z → w ∈ parentsOf L z) (h : Acyclic L) :
    Acyclic L' := by
  rintro y ⟨p, hp, hr⟩
  exact h y ⟨p, hsub _ _ hp, rt_mono hsub hr⟩

theorem acycInv_rm (s : Pool) (id : Nat) (h : AcycInv s) : AcycInv (removeEntry s id).1 := by
  refine ⟨linksRel_rm h.1 id, ?_⟩
  cases hg : getEntry s id with
  | none => rw [removeEntry_none s id hg]; exact h.2
  | some e =>
    intro hgb
    rw [removeEntry_ghostBad s id e hg] at hgb
    simp only [Bool.or_eq_false_iff] at hgb
    rw [removeEntry_links s id e hg]
    refine acyclic_mono (fun z w hw => ?_) (h.2 hgb.1)
    rw [parentsOf_removeEntryLinks h.1.struct] at hw
    split at hw
    · cases hw
    · exact (List.mem_filter.mp hw).1

theorem acycInv_rmd (s : Pool) (id : Nat) (h : AcycInv s) : AcycInv (removeWithDesc s id).1 := by
  refine ⟨linksOK_rmd s id h.1, ?_⟩
  intro hgb
  rw [removeWithDesc_ghostBad h.1] at hgb
  rw [(removeWithDesc_final h.1 id).1]
  exact acyclic_mono (fun z w hw => ((mem_parentsOf_foldrm _ h.1.struct z w).mp hw).2.1) (h.2 hgb)

/-- `check_and_record_ancestors` for a predicate that implies consistent links and survives
    `remove_entry_and_descendants`: the result is such a pool `s1` (no more transactions than before) whose
    link map got the new node below parents `P` -/
def AncGoodQ (Q : Pool → Prop) (s : Pool) (e : Entry) : AncRes → Prop
  | .ok s' e' _ => ∃ s1 P, Q s1 ∧ Shrinks s1 s ∧ s' = { s1 with links := addNodeLinks s1.links e.tx.id P } ∧
      e'.tx = e.tx ∧ P.Nodup ∧ ∀ p ∈ P, p ∈ keys s1.links
  | .panic s' => Q s'
  | .rejAfter s' => Q s'
  | .rej => True

theorem recordAncestors_goodQ {Q : Pool → Prop} (hQL : ∀ x, Q x → LinksOK x) {s s0 : Pool} (h : Q s) (hs : Shrinks s s0)
    (e : Entry) (P ev : List Nat) (hn : P.Nodup) :
    AncGoodQ Q s0 e (match recordAncestors s e (calcRelation (parentsOf s.links) (keys s.links) P) P with
      | some (s', e') => AncRes.ok s' e' ev
      | none => AncRes.panic s) := by
  have hk := recordAncestors_goodK (hQL s h) hs e P ev hn
  cases hr : recordAncestors s e (calcRelation (parentsOf s.links) (keys s.links) P) P with
  | none => exact h
  | some r =>
    obtain ⟨s', e'⟩ := r
    rw [hr] at hk
    obtain ⟨s1, P1, _, _, _, hetx, _, _⟩ := hk
    unfold recordAncestors at hr
    split at hr
    · rename_i hall
      simp only [Option.some.injEq, Prod.mk.injEq] at hr
      obtain ⟨hs', _⟩ := hr
      refine ⟨s, P, h, hs, ?_, hetx, hn, ?_⟩
      · rw [← hs']; rfl
      · intro p hp
        have hp' := stage_sub_calcRelation (parentsOf s.links) (keys s.links) P p hp
        have := List.all_eq_true.mp hall p hp'
        cases hg : getEntry s p with
        | none => rw [hg] at this; simp at this
        | some x =>
          obtain ⟨hx, hid⟩ := getEntry_some hg
          exact ((hQL s h).keysEq p).mpr ⟨⟨x.tx, List.mem_map.mpr ⟨x, hx, rfl⟩, hid⟩, by simp⟩
    · cases hr

theorem checkAnc_gen {Q : Pool → Prop} (hQL : ∀ x, Q x → LinksOK x) (hrmd : ∀ x id, Q x → Q (removeWithDesc x id).1)
    {s : Pool} (h : Q s) (e : Entry) : AncGoodQ Q s e (checkAndRecordAncestors s e) := by
  unfold checkAndRecordAncestors
  simp only
  split
  · exact recordAncestors_goodQ hQL h (Shrinks.refl s) e _ _ (nodup_dedup _)
  · split
    · have hl := evictLoop_of (P := Q) hrmd
        (((byEvictKey s.entries).filter (·.tx.id ∈ (txAncestors s e.tx).2.2)).map (·.tx.id)) s
        ((txAncestors s e.tx).1.length + 1) (txAncestors s e.tx).2.1 [] h
      have hsh := evictLoop_shrinks
        (((byEvictKey s.entries).filter (·.tx.id ∈ (txAncestors s e.tx).2.2)).map (·.tx.id)) s
        ((txAncestors s e.tx).1.length + 1) (txAncestors s e.tx).2.1 []
      have hpn := evictLoop_parents
        (((byEvictKey s.entries).filter (·.tx.id ∈ (txAncestors s e.tx).2.2)).map (·.tx.id)) s
        ((txAncestors s e.tx).1.length + 1) (txAncestors s e.tx).2.1 [] (nodup_dedup _)
      split
      · exact hl
      · split
        · exact recordAncestors_goodQ hQL hl hsh e _ _ hpn
        · exact hl
    · trivial

theorem acyclic_addNode {L : LinkMap} (h : LinkStruct L) {E : Nat} {P : List Nat} (hE : E ∉ keys L)
    (hP : ∀ p ∈ P, p ∈ keys L) (ha : Acyclic L) : Acyclic (addNodeLinks L E P) := by
  intro y hy
  by_cases e : y = E
  · subst e
    obtain ⟨p, hp, hr⟩ := (anc_add_new h hE hP y).mp hy
    exact new_not_reached h hE hP hp hr rfl
  · exact ha y ((anc_add_old h hE hP e).mp hy)

theorem acycInv_add (s : Pool) (t : Tx) (st : Status) (ts : Nat) (h : AcycInv s) : AcycInv (addEntry s t st ts).1 := by
  refine ⟨linksOK_add s t st ts h.1, ?_⟩
  have hg := checkAnc_gen (Q := AcycInv) (fun _ hx => hx.1) acycInv_rmd h (Entry.fresh t st ts)
  rcases addEntry_cases s t st ts with h0 | ⟨s', h1 | h1, h2⟩ | ⟨s2, e, ev, hdup, h1, h2⟩
  · rw [h0]; exact h.2
  · rw [h1] at hg; rw [h2]; exact hg.2
  · rw [h1] at hg; rw [h2]; exact hg.2
  · rw [h1] at hg
    rw [h2]
    obtain ⟨s1, P, hA1, hsh, hs2, _, _, hPk⟩ := hg
    have hid : (Entry.fresh t st ts).tx.id = t.id := rfl
    rw [hid] at hs2
    intro hgb
    simp only [finalOf, track_ghostBad, track_links] at hgb ⊢
    obtain ⟨hgb3, hl3, _⟩ := recordDescendants_clean _ e hgb
    rw [hl3]
    have hEk : t.id ∉ keys s1.links := by
      intro hk
      obtain ⟨⟨x, hx, hxid⟩, _⟩ := (hA1.1.keysEq t.id).mp hk
      exact getEntry_none hdup x (hsh.2 x hx) hxid
    have hl : (pushEntry s2 t e).links = addNodeLinks s1.links t.id P := by rw [hs2]; rfl
    have hg1 : s1.ghostBad = false := by
      have : (pushEntry s2 t e).ghostBad = s1.ghostBad := by rw [hs2]; rfl
      rw [← this]; exact hgb3
    rw [hl]
    exact acyclic_addNode hA1.1.struct hEk hPk (hA1.2 hg1)

theorem acycInv_set (s : Pool) (id : Nat) (st : Status) (h : AcycInv s) : AcycInv (setEntry s id st) := by
  refine ⟨linksOK_set s id st h.1, ?_⟩
  rw [setEntry_ghostBad]
  have : (setEntry s id st).links = s.links := by
    unfold setEntry
    cases getEntry s id with
    | none => rfl
    | some e => simp only [track_links]
  rw [this]; exact h.2

theorem acycInv_closed : CoreClosed AcycInv where
  rm := acycInv_rm
  rmd := acycInv_rmd
  add := acycInv_add
  set := acycInv_set
  stripIn := fun s i id h _ => acycInv_rmd _ id ⟨linksOK_stripIn s i h.1, h.2⟩
  stripDep := fun s i acc h =>
    foldRmd_of (P := AcycInv) acycInv_rmd (depUsers s i) { s with deps := s.deps.filter (·.1 ≠ i) } acc
      ⟨linksOK_stripDep s i h.1, h.2⟩

/-! ## `ancestors_count` orders parents before children (exact aggregates, acyclic links) -/

theorem anc_key {L : LinkMap} (h : LinkStruct L) {x y : Nat} (ha : Anc L x y) : y ∈ keys L := by
  obtain ⟨p, hp, hr⟩ := ha
  rcases rt_succ_or_eq hr with e | ⟨a, ha⟩
  · rw [e]; exact (h.parent_key hp).1
  · exact (h.parent_key ha).1

theorem sumW_count (s : Pool) (l : List Nat) (hl : ∀ id ∈ l, (getEntry s id).isSome) : (sumW s l).count = l.length := by
  induction l with
  | nil => rfl
  | cons a l ih =>
    rw [sumW_cons]
    have h1 := ih (fun id hid => hl id (List.mem_cons_of_mem _ hid))
    have h2 : (wOf s a).count = 1 := by
      unfold wOf
      cases hg : getEntry s a with
      | none => have := hl a List.mem_cons_self; rw [hg] at this; cases this
      | some e => rfl
    simp only [W.add, List.length_cons, h1, h2]; omega

theorem pooled_of_key {s : Pool} (hL : LinksOK s) {x : Nat} (hk : x ∈ keys s.links) : (getEntry s x).isSome := by
  obtain ⟨t, ht, hid⟩ := ((hL.keysEq x).mp hk).1
  cases hg : getEntry s x with
  | some e => rfl
  | none => exact absurd hid (getEntry_none hg t ht)

theorem anc_count_eq {s : Pool} (hL : LinksOK s) (hA : AggOK s) (e : Entry) (he : e ∈ s.entries) :
    e.anc.count = 1 + (ancL s.links e.tx.id).length := by
  rw [(hA e he).1]
  have := sumW_count s (ancL s.links e.tx.id)
    (fun id hid => pooled_of_key hL (anc_key hL.struct ((mem_ancL hL.struct _ _).mp hid).1))
  simp only [W.add, Tx.w, this]

/-- with exact aggregates and an acyclic link graph a parent has a strictly smaller `ancestors_count` -/
theorem anc_count_lt_of_parent {s : Pool} (hL : LinksOK s) (hA : AggOK s) (hac : Acyclic s.links)
    (ex ey : Entry) (hx : ex ∈ s.entries) (hy : ey ∈ s.entries) (hp : ex.tx.id ∈ parentsOf s.links ey.tx.id) :
    ex.anc.count < ey.anc.count := by
  rw [anc_count_eq hL hA ex hx, anc_count_eq hL hA ey hy]
  have hst := hL.struct
  have hnd : (ex.tx.id :: ancL s.links ex.tx.id).Nodup := by
    refine List.nodup_cons.mpr ⟨fun hm => ((mem_ancL hst _ _).mp hm).2 rfl, nodup_ancL _ _⟩
  have hsub : ∀ z ∈ ex.tx.id :: ancL s.links ex.tx.id, z ∈ ancL s.links ey.tx.id := by
    intro z hz
    rw [mem_ancL hst]
    rcases List.mem_cons.mp hz with e | hz
    · rw [e]
      exact ⟨⟨ex.tx.id, hp, .refl _⟩, fun e' => hac ey.tx.id ⟨ex.tx.id, hp, by rw [e']; exact .refl _⟩⟩
    · obtain ⟨⟨q, hq, hr⟩, _⟩ := (mem_ancL hst _ _).mp hz
      refine ⟨⟨ex.tx.id, hp, .step hq hr⟩, fun e' => ?_⟩
      -- z = ey: ey is an ancestor of ex and ex a parent of ey
      rw [e'] at hr
      exact hac ey.tx.id ⟨ex.tx.id, hp, .step hq hr⟩
  have := List.Nodup.length_le_of_subset hnd hsub
  simp only [List.length_cons] at this
  omega

/-! ## what `remove_entry_and_descendants` returns -/

theorem removeEntry_snd (s : Pool) (id : Nat) : (removeEntry s id).2 = getEntry s id := by
  unfold removeEntry
  cases getEntry s id <;> rfl

theorem foldRemove_isolated_removed (D : List Nat) (c : Pool) (acc : List Entry) (hk : ∀ rid ∈ D, rid ∉ keys c.links) :
    ∀ e ∈ (D.foldl (fun (acc : Pool × List Entry) rid =>
      match removeEntry acc.1 rid with
      | (s', some e) => (s', acc.2 ++ [e])
      | (s', none) => (s', acc.2)) (c, acc)).2, e ∈ acc ∨ (e ∈ c.entries ∧ e.tx.id ∈ D) := by
  induction D generalizing c acc with
  | nil => exact fun e he => Or.inl he
  | cons a l ih =>
    simp only [List.foldl_cons]
    have h1 : (removeEntry c a).1.entries = c.entries.filter (·.tx.id ∉ [a]) ∧ (removeEntry c a).1.links = c.links := by
      have := foldRemove_isolated [a] c [] (by
        intro rid hr
        rw [List.mem_singleton.mp hr]; exact hk a List.mem_cons_self)
      simp only [List.foldl_cons, List.foldl_nil] at this
      rcases hre : removeEntry c a with ⟨s', oe⟩
      rw [hre] at this
      cases oe <;> exact ⟨this.1, this.2.1⟩
    obtain ⟨e1, e2⟩ := h1
    have hsnd := removeEntry_snd c a
    rcases hre : removeEntry c a with ⟨s', oe⟩
    rw [hre] at e1 e2 hsnd
    simp only at e1 e2 hsnd
    have hk' : ∀ rid ∈ l, rid ∉ keys s'.links := by
      intro rid hr; rw [e2]; exact hk rid (List.mem_cons_of_mem _ hr)
    have hsub : ∀ e ∈ s'.entries, e ∈ c.entries := by
      intro e he; rw [e1] at he; exact (List.mem_filter.mp he).1
    cases oe with
    | none =>
      intro e he
      rcases ih s' acc hk' e he with h | ⟨h, h'⟩
      · exact Or.inl h
      · exact Or.inr ⟨hsub e h, List.mem_cons_of_mem _ h'⟩
    | some x =>
      intro e he
      obtain ⟨hxm, hxid⟩ := getEntry_some hsnd.symm
      rcases ih s' (acc ++ [x]) hk' e he with h | ⟨h, h'⟩
      · rcases List.mem_append.mp h with h | h
        · exact Or.inl h
        · right
          rw [List.mem_singleton.mp h]
          exact ⟨hxm, by rw [hxid]; exact List.mem_cons_self⟩
      · exact Or.inr ⟨hsub e h, List.mem_cons_of_mem _ h'⟩

theorem preSub_entries (s : Pool) (ids : List Nat) :
    ∀ x ∈ (preSubDescendants s ids).entries, ∃ e0 ∈ s.entries, e0.tx = x.tx ∧ e0.anc = x.anc := by
  unfold preSubDescendants
  induction ids generalizing s with
  | nil => exact fun x hx => ⟨x, hx, rfl, rfl⟩
  | cons a l ih =>
    simp only [List.foldl_cons]
    cases hg : getEntry s a with
    | none => exact ih s
    | some e =>
      intro x hx
      obtain ⟨e1, he1, h1, h2⟩ := ih { s with entries := modEntries (calcAnc s.links a) (subDesc e.tx.w) s.entries } x hx
      obtain ⟨e0, he0, heq⟩ := mem_modEntries_iff.mp he1
      refine ⟨e0, he0, ?_, ?_⟩
      · rw [← h1, heq]; split <;> rfl
      · rw [← h2, heq]; split <;> rfl

/-- the entries `remove_entry_and_descendants` returns are entries of the removal set with the transaction
    and the ancestors aggregate they had in the pool -/
theorem removeWithDesc_removed {s : Pool} (hL : LinksOK s) (id : Nat) :
    ∀ x ∈ (removeWithDesc s id).2, x.tx.id ∈ rmdIds s id ∧ ∃ e0 ∈ s.entries, e0.tx = x.tx ∧ e0.anc = x.anc := by
  unfold removeWithDesc rmdIds
  simp only
  generalize (id :: (calcDesc s.links id).filter (· ≠ id)) = D
  have h0 : (∀ x ∈ (if s.cfg.fixF2 then preSubDescendants s D else s).entries,
        ∃ e0 ∈ s.entries, e0.tx = x.tx ∧ e0.anc = x.anc) ∧
      (if s.cfg.fixF2 then preSubDescendants s D else s).links = s.links := by
    split
    · exact ⟨preSub_entries s D, (preSub_links s D).1⟩
    · exact ⟨fun x hx => ⟨x, hx, rfl, rfl⟩, rfl⟩
  generalize (if s.cfg.fixF2 then preSubDescendants s D else s) = s0 at h0
  obtain ⟨hent, hl⟩ := h0
  intro x hx
  have := foldRemove_isolated_removed D { s0 with links := D.foldl removeEntryLinks s0.links } []
    (by
      intro rid hr
      show rid ∉ keys (D.foldl removeEntryLinks s0.links)
      rw [hl, (foldUnlink D s.links hL.struct).2]
      intro hm
      have := (List.mem_filter.mp hm).2
      simp only [decide_eq_true_eq] at this
      exact this hr) x hx
  rcases this with h | ⟨h1, h2⟩
  · cases h
  · exact ⟨h2, hent x h1⟩

/-! ## the order of `remove_by_detached_proposal`'s re-insertions -/

theorem mem_insertByAncCount (e : Entry) (l : List Entry) (y : Entry) :
    y ∈ insertByAncCount e l ↔ y = e ∨ y ∈ l := by
  induction l with
  | nil => simp [insertByAncCount]
  | cons x l ih =>
    unfold insertByAncCount
    split
    · simp
    · simp only [List.mem_cons, ih]
      constructor
      · rintro (h | h | h)
        · exact Or.inr (Or.inl h)
        · exact Or.inl h
        · exact Or.inr (Or.inr h)
      · rintro (h | h | h)
        · exact Or.inr (Or.inl h)
        · exact Or.inl h
        · exact Or.inr (Or.inr h)

theorem pairwise_insertByAncCount (e : Entry) (l : List Entry)
    (h : l.Pairwise fun a b => a.anc.count ≤ b.anc.count) :
    (insertByAncCount e l).Pairwise fun a b => a.anc.count ≤ b.anc.count := by
  induction l with
  | nil => simp [insertByAncCount]
  | cons x l ih =>
    unfold insertByAncCount
    obtain ⟨h1, h2⟩ := List.pairwise_cons.mp h
    split
    · rename_i hlt
      refine List.pairwise_cons.mpr ⟨fun b hb => ?_, h⟩
      rcases List.mem_cons.mp hb with e' | hb
      · rw [e']; omega
      · have := h1 b hb; omega
    · rename_i hge
      refine List.pairwise_cons.mpr ⟨fun b hb => ?_, ih h2⟩
      rcases (mem_insertByAncCount e l b).mp hb with e' | hb
      · rw [e']; omega
      · exact h1 b hb

theorem sortByAnc_spec (l : List Entry) (acc : List Entry) (h : acc.Pairwise fun a b => a.anc.count ≤ b.anc.count) :
    ((l.foldl (fun acc x => insertByAncCount x acc) acc).Pairwise fun a b => a.anc.count ≤ b.anc.count) ∧
    ∀ y, y ∈ l.foldl (fun acc x => insertByAncCount x acc) acc ↔ y ∈ acc ∨ y ∈ l := by
  induction l generalizing acc with
  | nil => exact ⟨h, fun y => by simp⟩
  | cons x l ih =>
    simp only [List.foldl_cons]
    obtain ⟨h1, h2⟩ := ih (insertByAncCount x acc) (pairwise_insertByAncCount x acc h)
    refine ⟨h1, fun y => ?_⟩
    rw [h2, mem_insertByAncCount, List.mem_cons]
    constructor
    · rintro ((h | h) | h)
      · exact Or.inr (Or.inl h)
      · exact Or.inl h
      · exact Or.inr (Or.inr h)
    · rintro (h | h | h)
      · exact Or.inl (Or.inr h)
      · exact Or.inl (Or.inl h)
      · exact Or.inr h

/-- a sequence of `add_entry` in which no transaction references an output of a later one or of itself,
    into a pool that references none of their outputs, does not set the flag -/
theorem foldAdd_ghost (g : Bool) (l : List Entry) (s : Pool) (h : GP g s)
    (hpool : ∀ x ∈ l, ∀ y ∈ txs s, ∀ o ∈ y.inputs ++ y.deps, o ∉ outputs x.tx)
    (hord : l.Pairwise fun a b => ∀ o ∈ a.tx.inputs ++ a.tx.deps, o ∉ outputs b.tx)
    (hself : ∀ x ∈ l, ∀ o ∈ x.tx.inputs ++ x.tx.deps, o ∉ outputs x.tx) :
    GP g (l.foldl (fun s x => (addEntry s x.tx .pending x.ts).1) s) := by
  induction l generalizing s with
  | nil => exact h
  | cons x l ih =>
    simp only [List.foldl_cons]
    obtain ⟨ho1, ho2⟩ := List.pairwise_cons.mp hord
    apply ih
    · exact ⟨linksOK_add s x.tx .pending x.ts h.1,
        (addEntry_ghostBad_of_no_children h.1 x.tx .pending x.ts (hpool x List.mem_cons_self)
          (hself x List.mem_cons_self)).trans h.2⟩
    · intro z hz y hy
      rcases addEntry_txs_sub s x.tx .pending x.ts y hy with a | a
      · exact hpool z (List.mem_cons_of_mem _ hz) y a
      · rw [a]; exact ho1 z hz
    · exact ho2
    · exact fun z hz => hself z (List.mem_cons_of_mem _ hz)

/-! ## `remove_by_detached_proposal` does not set the flag on a clean pool -/

theorem CoreClosed.and {P Q : Pool → Prop} (hp : CoreClosed P) (hq : CoreClosed Q) : CoreClosed (fun s => P s ∧ Q s) where
  rm := fun s id h => ⟨hp.rm s id h.1, hq.rm s id h.2⟩
  rmd := fun s id h => ⟨hp.rmd s id h.1, hq.rmd s id h.2⟩
  add := fun s t st ts h => ⟨hp.add s t st ts h.1, hq.add s t st ts h.2⟩
  set := fun s id st h => ⟨hp.set s id st h.1, hq.set s id st h.2⟩
  stripIn := fun s i id h hu => ⟨hp.stripIn s i id h.1 hu, hq.stripIn s i id h.2 hu⟩
  stripDep := fun s i acc h => ⟨hp.stripDep s i acc h.1, hq.stripDep s i acc h.2⟩

/-- what the detach argument needs of a state: edges, links, derived links, aggregates (when clean),
    acyclic links (when clean), and the repaired `remove_entry_and_descendants` -/
def DetInv (s : Pool) : Prop := (P4 s ∧ AggInv s) ∧ (AcycInv s ∧ s.cfg.fixF2 = true)

theorem detInv_closed : CoreClosed DetInv := by
  have hc : CoreClosed (fun s => AcycInv s ∧ s.cfg.fixF2 = true) := by
    refine ⟨fun s id h => ⟨acycInv_closed.rm s id h.1, ?_⟩, fun s id h => ⟨acycInv_closed.rmd s id h.1, ?_⟩,
      fun s t st ts h => ⟨acycInv_closed.add s t st ts h.1, ?_⟩, fun s id st h => ⟨acycInv_closed.set s id st h.1, ?_⟩,
      fun s i id h hu => ⟨acycInv_closed.stripIn s i id h.1 hu, ?_⟩,
      fun s i acc h => ⟨acycInv_closed.stripDep s i acc h.1, ?_⟩⟩
    · rw [(cfg_closed s.cfg).rm s id rfl]; exact h.2
    · rw [(cfg_closed s.cfg).rmd s id rfl]; exact h.2
    · rw [(cfg_closed s.cfg).add s t st ts rfl]; exact h.2
    · rw [(cfg_closed s.cfg).set s id st rfl]; exact h.2
    · rw [(cfg_closed s.cfg).stripIn s i id rfl hu]; exact h.2
    · rw [(cfg_closed s.cfg).stripDep s i acc rfl]; exact h.2
  exact (p4_closed.and aggInv_closed).and hc

/-- one round of `remove_by_detached_proposal` on a clean pool: the removed entries are re-inserted in the
    order of their (exact) `ancestors_count`, i.e. parents before children, so that no re-insertion finds
    pooled children -/
theorem detach_one_ghost {s : Pool} (h : DetInv s) (hg : s.ghostBad = false) (id : Nat) :
    GP false (((removeWithDesc s id).2.foldl (fun acc x => insertByAncCount x acc) []).foldl
      (fun s x => (addEntry s x.tx .pending x.ts).1) (removeWithDesc s id).1) := by
  have hL : LinksOK s := h.1.2.1
  have hA : AggOK s := h.1.2.2 h.2.2 hg
  have hac : Acyclic s.links := h.2.1.2 hg
  have hD : DerivedOK s := h.1.1.2.2
  obtain ⟨hpw, hmem⟩ := sortByAnc_spec (removeWithDesc s id).2 [] List.Pairwise.nil
  have hrem : ∀ x ∈ (removeWithDesc s id).2.foldl (fun acc x => insertByAncCount x acc) [],
      x.tx.id ∈ rmdIds s id ∧ ∃ e0 ∈ s.entries, e0.tx = x.tx ∧ e0.anc = x.anc := by
    intro x hx
    rcases (hmem x).mp hx with a | a
    · cases a
    · exact removeWithDesc_removed hL id x a
  have hspend : ∀ (a b : Entry), a ∈ s.entries → b ∈ s.entries → ∀ o ∈ a.tx.inputs ++ a.tx.deps, o ∈ outputs b.tx →
      b.tx.id ∈ parentsOf s.links a.tx.id := by
    intro a b ha hb o ho hm
    have := (mem_outputs b.tx o).mp hm
    exact hD.complete b.tx (List.mem_map.mpr ⟨b, hb, rfl⟩) a.tx (List.mem_map.mpr ⟨a, ha, rfl⟩) ⟨o, ho, this.1, this.2⟩
  refine foldAdd_ghost false _ _ ⟨linksOK_rmd s id hL, (removeWithDesc_ghostBad hL id).trans hg⟩ ?_ ?_ ?_
  · intro x hx y hy o ho hm
    obtain ⟨hxD, e0, he0, htx, _⟩ := hrem x hx
    obtain ⟨hys, hyD⟩ := (removeWithDesc_final hL id).2 y hy
    obtain ⟨ey, hey, rfl⟩ := List.mem_map.mp hys
    rw [← htx] at hm hxD
    have hp := hspend ey e0 hey he0 o ho hm
    exact hyD (downClosed_rmdIds hL.struct id _ hxD _ ((hL.struct.sym _ _).mp hp))
  · refine List.Pairwise.imp_of_mem ?_ hpw
    intro a b ha hb hle o ho hm
    obtain ⟨_, ea, hea, hatx, haanc⟩ := hrem a ha
    obtain ⟨_, eb, heb, hbtx, hbanc⟩ := hrem b hb
    rw [← hatx] at ho
    rw [← hbtx] at hm
    have hp := hspend ea eb hea heb o ho hm
    have := anc_count_lt_of_parent hL hA hac eb ea heb hea hp
    rw [hbanc, haanc] at this
    omega
  · intro x hx o ho hm
    obtain ⟨_, e0, he0, htx, _⟩ := hrem x hx
    rw [← htx] at ho hm
    have hp := hspend e0 e0 he0 he0 o ho hm
    exact hac e0.tx.id ⟨e0.tx.id, hp, .refl _⟩

/-- `remove_by_detached_proposal` keeps a clean pool clean -/
theorem detach_ghost (ids : List Nat) (s : Pool) (h : DetInv s) (hg : s.ghostBad = false) :
    (detachProposals s ids).ghostBad = false := by
  unfold detachProposals
  induction ids generalizing s with
  | nil => exact hg
  | cons a l ih =>
    simp only [List.foldl_cons]
    cases hge : getEntry s a with
    | none => exact ih s h hg
    | some e =>
      simp only
      split
      · exact ih s h hg
      · exact ih _ (detInv_closed.foldAdd _ _ (detInv_closed.rmd s a h)) (detach_one_ghost h hg a).2

end CkbVerif.Pool
