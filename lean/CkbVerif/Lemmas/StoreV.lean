/-
Lemmas about `Model/StoreV.lean` (the chain-service step with failing blocks).
-/
import CkbVerif.Model.StoreV
import CkbVerif.Lemmas.StoreInv
import CkbVerif.Lemmas.Reconcile
namespace CkbVerif.Store

/-! ### `resolveInputs` / `resolveTxs` -/

/-- an input that resolves is live in the transaction's cell column or is an existing output of an
earlier transaction of the block; the `seen` set grows by exactly the inputs, none of which was in
it, and they are pairwise distinct -/
theorem resolveInputs_spec (m : Main) (earlier later : List Tx) :
    ∀ (os seen seen' : List OutPoint), resolveInputs m earlier later seen os = some seen' →
      (∀ o ∈ os, m.cells o ≠ none ∨ ∃ t ∈ earlier, o.tx = t.id ∧ o.idx < t.outputs.length) ∧
      seen' = os.reverse ++ seen ∧ os.Nodup ∧ (∀ o ∈ os, o ∉ seen) ∧
      (∀ o ∈ os, (∀ t ∈ earlier, t.id ≠ o.tx) → ∀ t ∈ later, t.id ≠ o.tx) := by
  intro os
  induction os with
  | nil =>
    intro seen seen' h
    simp only [resolveInputs, Option.some.injEq] at h
    subst h
    simp
  | cons o os ih =>
    intro seen seen' h
    unfold resolveInputs at h
    by_cases hs : o ∈ seen
    · simp [hs] at h
    · simp only [hs, if_false] at h
      cases hf : earlier.find? (fun t => t.id == o.tx) with
      | some t =>
        rw [hf] at h
        simp only at h
        have hid : t.id = o.tx := by
          have := List.find?_some hf
          simpa using this
        have hmem : t ∈ earlier := List.mem_of_find?_eq_some hf
        by_cases hl : o.idx < t.outputs.length
        · simp only [hl, if_true] at h
          obtain ⟨h1, h2, h3, h4, h5⟩ := ih (o :: seen) seen' h
          refine ⟨?_, ?_, ?_, ?_, ?_⟩
          · intro x hx
            rcases List.mem_cons.mp hx with rfl | hx
            · exact Or.inr ⟨t, hmem, hid.symm, hl⟩
            · exact h1 x hx
          · rw [h2]; simp
          · refine List.nodup_cons.mpr ⟨?_, h3⟩
            intro ho
            exact h4 o ho (by simp)
          · intro x hx
            rcases List.mem_cons.mp hx with rfl | hx
            · exact hs
            · intro hxs; exact h4 x hx (List.mem_cons_of_mem _ hxs)
          · intro x hx hne
            rcases List.mem_cons.mp hx with rfl | hx
            · exact absurd hid (hne t hmem)
            · exact h5 x hx hne
        · simp [hl] at h
      | none =>
        rw [hf] at h
        simp only at h
        by_cases ha : (later.any (fun t => t.id == o.tx)) = true
        · simp [ha] at h
        · simp only [ha] at h
          cases hc : m.cells o with
          | none => rw [hc] at h; simp at h
          | some row =>
            rw [hc] at h
            simp only at h
            obtain ⟨h1, h2, h3, h4, h5⟩ := ih (o :: seen) seen' h
            refine ⟨?_, ?_, ?_, ?_, ?_⟩
            · intro x hx
              rcases List.mem_cons.mp hx with rfl | hx
              · left; rw [hc]; simp
              · exact h1 x hx
            · rw [h2]; simp
            · refine List.nodup_cons.mpr ⟨?_, h3⟩
              intro ho
              exact h4 o ho (by simp)
            · intro x hx
              rcases List.mem_cons.mp hx with rfl | hx
              · exact hs
              · intro hxs; exact h4 x hx (List.mem_cons_of_mem _ hxs)
            · intro x hx hne
              rcases List.mem_cons.mp hx with rfl | hx
              · intro t ht hid
                apply ha
                simp only [List.any_eq_true]
                exact ⟨t, ht, by simpa using hid⟩
              · exact h5 x hx hne

theorem resolveTxs_spec (m : Main) :
    ∀ (rest earlier : List Tx) (seen : List OutPoint), resolveTxs m earlier rest seen = true →
      (∀ t ∈ rest, ∀ o ∈ t.inputs,
        m.cells o ≠ none ∨ ∃ t' ∈ earlier ++ rest, o.tx = t'.id ∧ o.idx < t'.outputs.length) ∧
      (rest.flatMap (·.inputs)).Nodup ∧ (∀ o ∈ rest.flatMap (·.inputs), o ∉ seen) := by
  intro rest
  induction rest with
  | nil => intro earlier seen _; simp
  | cons t rest ih =>
    intro earlier seen h
    unfold resolveTxs at h
    cases hr : resolveInputs m earlier (t :: rest) seen t.inputs with
    | none => rw [hr] at h; simp at h
    | some seen' =>
      rw [hr] at h
      simp only at h
      obtain ⟨h1, h2, h3, h4, -⟩ := resolveInputs_spec m earlier (t :: rest) t.inputs seen seen' hr
      obtain ⟨g1, g2, g3⟩ := ih (earlier ++ [t]) seen' h
      refine ⟨?_, ?_, ?_⟩
      · intro t' ht' o ho
        rcases List.mem_cons.mp ht' with rfl | ht'
        · rcases h1 o ho with h | ⟨t2, ht2, e1, e2⟩
          · exact Or.inl h
          · exact Or.inr ⟨t2, List.mem_append_left _ ht2, e1, e2⟩
        · rcases g1 t' ht' o ho with h | ⟨t2, ht2, e1, e2⟩
          · exact Or.inl h
          · refine Or.inr ⟨t2, ?_, e1, e2⟩
            simpa [List.append_assoc] using ht2
      · simp only [List.flatMap_cons]
        refine List.nodup_append.mpr ⟨h3, g2, ?_⟩
        intro a ha b hb hab
        subst hab
        exact g3 a hb (by rw [h2]; simp [ha])
      · intro o ho
        simp only [List.flatMap_cons, List.mem_append] at ho
        rcases ho with ho | ho
        · exact h4 o ho
        · intro hs
          exact g3 o ho (by rw [h2]; simp [hs])

/-- **What the model's `resolve_block_transactions` decides.**  If it succeeds on the cell column
`m`, then every spent out-point is live in `m` or is an existing output of the block itself — the
`inputs` clause of `Valid`, the well-formedness the undo theorem needs — and no out-point is spent
twice in the block. -/
theorem resolveOk_spec (m : Main) (b : Block) (h : resolveOk m b = true) :
    (∀ o ∈ deadInputs b, m.cells o ≠ none ∨ o ∈ blockOutPoints b) ∧ (deadInputs b).Nodup := by
  unfold resolveOk at h
  cases hb : b.txs with
  | nil => simp [deadInputs, hb]
  | cons cb rest =>
    rw [hb] at h
    simp only at h
    obtain ⟨g1, g2, -⟩ := resolveTxs_spec m rest [cb] [] h
    have hd : deadInputs b = rest.flatMap (·.inputs) := by simp [deadInputs, hb]
    rw [hd]
    refine ⟨?_, g2⟩
    intro o ho
    obtain ⟨t, ht, hot⟩ := List.mem_flatMap.mp ho
    rcases g1 t ht o hot with h | ⟨t', ht', e1, e2⟩
    · exact Or.inl h
    · right
      rw [mem_blockOutPoints]
      exact ⟨t', by rw [hb]; simpa using ht', e1, e2⟩

/-! ### `reconcileV` -/

theorem reconcileV_cons (bad : Nat → Bool) (v : View) (b : Block) (bs : List Block) :
    reconcileV bad v (b :: bs) = if failsOn bad v b then none else reconcileV bad (reconcileOne v b) bs := rfl

theorem reconcileV_some (bad : Nat → Bool) : ∀ (bs : List Block) (v v' : View),
    reconcileV bad v bs = some v' → v' = reconcile v bs := by
  intro bs
  induction bs with
  | nil => intro v v' h; simp [reconcileV] at h; subst h; rfl
  | cons b bs ih =>
    intro v v' h
    unfold reconcileV at h
    split at h
    · cases h
    · exact ih _ _ h

/-- no failing block: `reconcileV` is `reconcile` -/
theorem reconcileV_ok (bad : Nat → Bool) : ∀ (bs : List Block) (v : View),
    (∀ as a rest, bs = as ++ a :: rest → failsOn bad (reconcile v as) a = false) →
    reconcileV bad v bs = some (reconcile v bs) := by
  intro bs
  induction bs with
  | nil => intro v _; rfl
  | cons b bs ih =>
    intro v h
    have hb : failsOn bad v b = false := h [] b bs rfl
    unfold reconcileV
    simp only [hb]
    rw [ih (reconcileOne v b)]
    · rfl
    · intro as a rest e
      have := h (b :: as) a rest (by rw [e]; rfl)
      simpa [reconcile] using this

/-- **Exactly when `reconcile_main_chain` fails**: there is a FIRST attached block that fails on the
view built by attaching the blocks before it; the blocks after it play no role. -/
theorem reconcileV_none_iff (bad : Nat → Bool) : ∀ (bs : List Block) (v : View),
    reconcileV bad v bs = none ↔
      ∃ as a rest, bs = as ++ a :: rest ∧ reconcileV bad v as = some (reconcile v as) ∧
        failsOn bad (reconcile v as) a = true := by
  intro bs
  induction bs with
  | nil =>
    intro v
    simp [reconcileV]
  | cons b bs ih =>
    intro v
    rw [reconcileV_cons]
    by_cases hb : failsOn bad v b = true
    · simp only [hb, if_true, true_iff]
      exact ⟨[], b, bs, rfl, rfl, hb⟩
    · have hb' : failsOn bad v b = false := by simpa using hb
      simp only [hb', Bool.false_eq_true, if_false]
      rw [ih (reconcileOne v b)]
      constructor
      · rintro ⟨as, a, rest, e, h1, h2⟩
        refine ⟨b :: as, a, rest, by rw [e]; rfl, ?_, ?_⟩
        · rw [reconcileV_cons]
          simp only [hb', Bool.false_eq_true, if_false]
          exact h1
        · exact h2
      · rintro ⟨as, a, rest, e, h1, h2⟩
        cases as with
        | nil =>
          simp only [List.nil_append, List.cons.injEq] at e
          obtain ⟨rfl, rfl⟩ := e
          exact absurd h2 hb
        | cons x as =>
          simp only [List.cons_append, List.cons.injEq] at e
          obtain ⟨rfl, rfl⟩ := e
          refine ⟨as, a, rest, rfl, ?_, h2⟩
          rw [reconcileV_cons] at h1
          simp only [hb', Bool.false_eq_true, if_false] at h1
          exact h1

theorem commitBestV_some (bad : Nat → Bool) (v : View) (b : Block) (det att : List Block) (v' : View)
    (h : commitBestV bad v b det att = some v') : v' = commitBest v b det att := by
  unfold commitBestV at h
  cases hr : reconcileV bad (rollback v det.reverse) att with
  | none => rw [hr] at h; cases h
  | some v2 =>
    rw [hr] at h
    have := reconcileV_some bad att _ _ hr
    subst this
    simp only [Option.some.injEq] at h
    rw [← h]
    rfl

end CkbVerif.Store
