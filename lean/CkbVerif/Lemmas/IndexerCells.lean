import CkbVerif.Lemmas.IndexerRbTip

/-! `get_cells` (exact mode, all cell filters, before order/limit/cursor) over a chain store (C18). -/
namespace CkbVerif.Indexer
open CkbVerif.Gen.Indexer

/-- the answer `get_cells` builds from one scanned row -/
def cellAnsOf (s : Store) (pre : List Nat) (exact : Bool) (f : Filter) (lockSearch lenIncl : Bool)
    (e : Key × Val) : Option CellAns :=
  if exact && e.1.bytes.length ≠ pre.length + 16 then none else
  match get s (.outPoint ⟨valTx e.2, e.1.io⟩) with
  | some (.cell c) => if cellPasses f lockSearch lenIncl c then some ⟨⟨valTx e.2, e.1.io⟩, c, e.1.bytes⟩ else none
  | _ => none

/-- when every scanned row that passes the exact-length test has its OutPoint row, `cellRows` does not
hit `expect("stored OutPoint")` and returns exactly the filtered answers, in scan order -/
theorem cellRows_eq_filterMap (s : Store) (lockSearch : Bool) (q : Script) (exact : Bool) (f : Filter)
    (lenIncl : Bool) (rows : List (Key × Val))
    (H : ∀ e ∈ rows, ¬ (exact && e.1.bytes.length ≠ (cellPrefix lockSearch q).length + 16) = true →
      ∃ c, get s (.outPoint ⟨valTx e.2, e.1.io⟩) = some (.cell c)) :
    cellRows s lockSearch q exact f lenIncl rows =
      some (rows.filterMap (cellAnsOf s (cellPrefix lockSearch q) exact f lockSearch lenIncl)) := by
  induction rows with
  | nil => rfl
  | cons e r ih =>
    have ihr := ih (fun e' he' => H e' (by simp [he']))
    unfold cellRows at ihr ⊢
    simp only [List.foldr_cons]
    have hpre : ((if lockSearch = true then KP_CELL_LOCK_SCRIPT else KP_CELL_TYPE_SCRIPT) :: scriptRaw q) =
        cellPrefix lockSearch q := rfl
    simp only [hpre] at ihr ⊢
    rw [ihr]
    simp only [List.filterMap_cons, cellAnsOf]
    have hiff : ((exact && decide (e.1.bytes.length ≠ (cellPrefix lockSearch q).length + 16)) = true) ↔
        (exact = true ∧ ¬ e.1.bytes.length = (cellPrefix lockSearch q).length + 16) := by simp
    by_cases hex : exact = true ∧ ¬ e.1.bytes.length = (cellPrefix lockSearch q).length + 16
    · simp [hex]
    · obtain ⟨c, hc⟩ := H e (by simp) (by rw [hiff]; exact hex)
      by_cases hp : cellPasses f lockSearch lenIncl c = true
      · simp [hex, hc, hp]
      · simp [hex, hc, hp]

/-- a key whose bytes start with the CellLockScript prefix byte is a CellLockScript key -/
theorem cellPrefix_true (q : Script) : cellPrefix true q = KP_CELL_LOCK_SCRIPT :: scriptRaw q := by
  simp [cellPrefix]

theorem key_of_lock_prefix (k : Key) (rest : List Nat)
    (h : isPrefix (KP_CELL_LOCK_SCRIPT :: rest) k.bytes = true) :
    ∃ sc bn tx io, k = .cellLock sc bn tx io := by
  cases k <;> simp [Key.bytes, isPrefix, KP_CELL_LOCK_SCRIPT, KP_OUT_POINT, KP_CONSUMED_OUT_POINT,
    KP_CELL_TYPE_SCRIPT, KP_TX_LOCK_SCRIPT, KP_TX_TYPE_SCRIPT, KP_TX_HASH, KP_HEADER] at h
  exact ⟨_, _, _, _, rfl⟩

/-- CellLockScript rows carry transaction ids -/
def LockTyped (s : Store) : Prop :=
  ∀ e ∈ s, ∀ (sc : Script) (bn txi io : Nat), e.1 = .cellLock sc bn txi io → ∃ t, e.2 = .tx t

def lockValOk : BOp → Bool
  | .put (.cellLock ..) (.tx _) => true
  | .put (.cellLock ..) _ => false
  | _ => true

theorem consumeOps_lv (n txi ii id : Nat) (op : OutPoint) (c : Cell) :
    (consumeOps n txi ii id op c).all lockValOk = true := by
  unfold consumeOps
  cases c.out.type <;> simp [lockValOk]

theorem createOps_lv (n txi id oi : Nat) (o : Output) : (createOps n txi id oi o).all lockValOk = true := by
  unfold createOps
  cases o.type <;> simp [lockValOk]

theorem txOps_lv (s : Store) (b : Block) (i : Nat) (tx : Tx) : (txOps s b i tx).all lockValOk = true := by
  unfold txOps inputsOps outputsOps
  simp only [List.all_append, Bool.and_eq_true]
  refine ⟨⟨?_, ?_⟩, ?_⟩
  · split
    · rfl
    · rw [List.all_flatMap, List.all_eq_true]
      intro p _
      split
      · exact consumeOps_lv ..
      · rfl
  · rw [List.all_flatMap, List.all_eq_true]
    intro p _
    exact createOps_lv ..
  · split <;> simp [lockValOk]

theorem lockTyped_commit (ops : List BOp) (s : Store) (h : LockTyped s)
    (hops : ∀ o ∈ ops, lockValOk o = true) : LockTyped (commit s ops) := by
  intro e he sc bn txi io hk
  rcases mem_commit ops s e he with h1 | h1
  · exact h e h1 sc bn txi io hk
  · have := hops _ h1
    rw [hk] at this
    cases hv : e.2 with
    | tx t => exact ⟨t, rfl⟩
    | cell _ => rw [hv] at this; simp [lockValOk] at this
    | inputs _ => rw [hv] at this; simp [lockValOk] at this
    | txs _ => rw [hv] at this; simp [lockValOk] at this

theorem lockTyped_append (keep interval : Nat) (s : Store) (b : Block) (h : LockTyped s) :
    LockTyped (append keep interval s b) := by
  have hcore : LockTyped (appendCore s b) := by
    apply lockTyped_commit _ _ h
    intro o ho
    unfold appendOps at ho
    rw [List.mem_append] at ho
    rcases ho with ho | ho
    · rw [List.mem_flatMap] at ho
      obtain ⟨p, _, hp⟩ := ho
      exact (List.all_eq_true.mp (txOps_lv s b p.2 p.1)) o hp
    · simp only [List.mem_singleton] at ho
      obtain ⟨f, l, hh⟩ := headerOp_eq s b
      rw [ho, hh]
      rfl
  unfold append
  dsimp only
  split
  · apply lockTyped_commit _ _ hcore
    intro o ho
    obtain ⟨k, hk, _⟩ := pruneOps_dels _ keep o ho
    rw [hk]
    rfl
  · exact hcore

theorem lockTyped_chain (keep interval : Nat) (blocks : List Block) (s : Store) (h : LockTyped s) :
    LockTyped (blocks.foldl (append keep interval) s) := by
  induction blocks generalizing s with
  | nil => exact h
  | cons b r ih => exact ih _ (lockTyped_append keep interval s b h)

/-- **`get_cells` by lock script, exact mode, ANY cell filter, before order / limit / cursor**: on the
store reached by any well-formed chain the iteration never hits `expect("stored OutPoint")`, and its
answers are exactly the cells of the REPLAYED live set whose lock script is `q` and that pass the
filter (script / script_len_range / output_data / data length / capacity / block range), each with
its out-point, creation block number, tx index and key (= cursor). -/
theorem getCells_exact_eq_replay (keep interval : Nat) (blocks : List Block)
    (ok : ChainOK2 keep interval [] blocks) (q : Script) (f : Filter) :
    ∃ l, cellRows (blocks.foldl (append keep interval) []) true q true f false
        (scan (blocks.foldl (append keep interval) []) (cellPrefix true q)) = some l ∧
      ∀ a : CellAns, a ∈ l ↔
        ∃ c : Cell, replayLive blocks a.op = some c ∧ c.out.lock = q ∧ cellPasses f true false c = true ∧
          a.cell = c ∧ a.key = (Key.cellLock q c.bn c.txIdx a.op.idx).bytes := by
  have hnd := nodup_chain keep interval blocks [] trivial
  have hinv := lockInv_chain2 keep interval blocks [] lockInv_empty ok
  have hty := lockTyped_chain keep interval blocks [] (by intro e he; cases he)
  have hrep := outPoint_eq_replay keep interval blocks ok
  generalize hS : blocks.foldl (append keep interval) [] = S at *
  -- every scanned row is a CellLockScript row of a live cell
  have hrow : ∀ e ∈ scan S (cellPrefix true q), ∃ sc bn txi io t c, e = (Key.cellLock sc bn txi io, Val.tx t) ∧
      get S (.outPoint ⟨t, io⟩) = some (.cell c) ∧ c.out.lock = sc ∧ c.bn = bn ∧ c.txIdx = txi := by
    intro e he
    rw [mem_scan] at he
    obtain ⟨hes, hp⟩ := he
    obtain ⟨sc, bn, txi, io, hk⟩ := key_of_lock_prefix e.1 _ (by simpa [cellPrefix] using hp)
    obtain ⟨t, ht⟩ := hty e hes sc bn txi io hk
    have he' : e = (Key.cellLock sc bn txi io, Val.tx t) := by cases e; simp_all
    subst he'
    have hg := (mem_iff_get S hnd _ _).mp hes
    obtain ⟨c, hc, h1, h2, h3⟩ := (hinv sc bn txi io t).mp hg
    exact ⟨sc, bn, txi, io, t, c, rfl, hc, h1, h2, h3⟩
  refine ⟨_, cellRows_eq_filterMap S true q true f false _ ?_, ?_⟩
  · intro e he _
    obtain ⟨sc, bn, txi, io, t, c, rfl, hc, _⟩ := hrow e he
    exact ⟨c, hc⟩
  · intro a
    rw [List.mem_filterMap]
    constructor
    · rintro ⟨e, he, ha⟩
      obtain ⟨sc, bn, txi, io, t, c, rfl, hc, h1, h2, h3⟩ := hrow e he
      unfold cellAnsOf at ha
      simp only [valTx, Key.io, hc] at ha
      split at ha
      · cases ha
      · rename_i hex
        split at ha
        · rename_i hp
          cases ha
          have hlen : (Key.cellLock sc bn txi io).bytes.length = (cellPrefix true q).length + 16 := by
            simpa using hex
          have hsc : sc = q := by
            have hp' := ((mem_scan S _ _).mp he).2
            rw [cellPrefix_true] at hp' hlen
            exact (exact_cellLock q sc bn txi io).mp ⟨hp', hlen⟩
          subst hsc
          have hr := hrep ⟨t, io⟩
          rw [hc] at hr
          refine ⟨c, ?_, h1, hp, rfl, ?_⟩
          · cases h : replayLive blocks ⟨t, io⟩ with
            | none => simp [h] at hr
            | some c' => simp [h] at hr; rw [hr]
          · simp only
            rw [h2, h3]
        · cases ha
    · rintro ⟨c, hc, hl, hp, hcell, hkey⟩
      have hg : get S (.outPoint a.op) = some (.cell c) := by rw [hrep, hc]; rfl
      have hrowS : (Key.cellLock q c.bn c.txIdx a.op.idx, Val.tx a.op.tx) ∈ S := by
        rw [mem_iff_get S hnd]
        exact (hinv q c.bn c.txIdx a.op.idx a.op.tx).mpr ⟨c, by cases a; cases ‹OutPoint›; exact hg, hl, rfl, rfl⟩
      have hex := (exact_cellLock q q c.bn c.txIdx a.op.idx).mpr rfl
      rw [← cellPrefix_true] at hex
      have hsc : (Key.cellLock q c.bn c.txIdx a.op.idx, Val.tx a.op.tx) ∈ scan S (cellPrefix true q) ∧
          (Key.cellLock q c.bn c.txIdx a.op.idx).bytes.length = (cellPrefix true q).length + 16 :=
        ⟨(mem_scan S _ _).mpr ⟨hrowS, hex.1⟩, hex.2⟩
      refine ⟨_, hsc.1, ?_⟩
      unfold cellAnsOf
      have hg' : get S (.outPoint ⟨a.op.tx, a.op.idx⟩) = some (.cell c) := by
        cases a; cases ‹OutPoint›; exact hg
      simp only [valTx, Key.io, hg', hp, if_true]
      have hlen := hsc.2
      simp only [hlen, ne_eq, not_true_eq_false, decide_false, Bool.and_false, Bool.false_eq_true, if_false]
      cases a
      cases ‹OutPoint›
      simp_all

end CkbVerif.Indexer
