/-
The COLUMN_CHAIN_ROOT_MMR column under reorganisations and truncations: below
`leaf_index_to_mmr_size(tip)` it is a function of the main chain's leaf list alone.

`ColOk merge st L`: the column `st` holds, below `leaf_index_to_mmr_size(|L| - 1)`, every node
(inner nodes included — `Inv2`, `Lemmas/MMRStoreTrees.lean`) of the MMR of the leaf list `L`.
Nothing is said about positions at or above that size (stale nodes of abandoned branches).
-/
import CkbVerif.Lemmas.MMRCompleteMain
namespace CkbVerif.MMR

variable {α : Type}

/-- the mountains of a leaf list, as trees -/
def treesOf (L : List α) : List (Nat × Expr α) :=
  L.foldl (fun acc x => pushD Expr.node acc (Expr.atom x)) []

def ColOk (merge : α → α → α) (st : Store α) (L : List α) : Prop :=
  Inv2 merge ⟨leafIndexToMmrSize (L.length - 1), st⟩ (treesOf L)

theorem treesOf_append (a b : List α) :
    b.foldl (fun acc x => pushD Expr.node acc (Expr.atom x)) (treesOf a) = treesOf (a ++ b) := by
  simp [treesOf, List.foldl_append]

section
variable (merge : α → α → α)

/-- two stores laying out the same tree at the same offset agree on every position of the tree -/
theorem Lay_unique {st st' : Store α} : ∀ (t : Expr α) (H off : Nat),
    Lay merge st off H t → Lay merge st' off H t → ∀ q, off ≤ q → q ≤ rp off H → st q = st' q := by
  intro t
  induction t with
  | atom v =>
    intro H off h1 h2 q hq1 hq2
    cases H with
    | zero =>
      simp only [Lay] at h1 h2
      have : q = off := by simp only [rp] at hq2; omega
      subst this
      rw [h1, h2]
    | succ H => simp [Lay] at h1
  | node l r ihl ihr =>
    intro H off h1 h2 q hq1 hq2
    cases H with
    | zero => simp [Lay] at h1
    | succ H =>
      have p0 := Nat.two_pow_pos H
      have p1 := two_pow_succ H
      have p2 := two_pow_succ (H + 1)
      simp only [rp] at hq2
      by_cases hl : q ≤ rp off H
      · exact ihl H off h1.1 h2.1 q hq1 hl
      · simp only [rp] at hl
        by_cases hr : q ≤ rp (off + (2 ^ (H + 1) - 1)) H
        · exact ihr H _ h1.2.1 h2.2.1 q (by omega) hr
        · simp only [rp] at hr
          have : q = off + 2 ^ (H + 1 + 1) - 2 := by omega
          subst this
          rw [h1.2.2, h2.2.2]

theorem Trees_unique {st st' : Store α} : ∀ (mts : List (Nat × Expr α)) (off : Nat),
    Trees merge st off mts → Trees merge st' off mts →
      ∀ q, off ≤ q → q < off + szH (heights mts) → st q = st' q := by
  intro mts
  induction mts with
  | nil =>
    intro off _ _ q h1 h2
    simp [heights, szH] at h2
    omega
  | cons m r ih =>
    obtain ⟨h, t⟩ := m
    intro off h1 h2 q hq1 hq2
    have p0 := Nat.two_pow_pos h
    have p1 := two_pow_succ h
    have e : szH (heights ((h, t) :: r)) = 2 ^ (h + 1) - 1 + szH (heights r) := rfl
    rw [e] at hq2
    by_cases hl : q ≤ rp off h
    · exact Lay_unique merge t h off h1.1 h2.1 q hq1 hl
    · simp only [rp] at hl
      exact ih _ h1.2 h2.2 q (by omega) (by omega)

theorem Inv2_size {m : MMR α} {mts : List (Nat × Expr α)} (h : Inv2 merge m mts) :
    m.size = szH (heights mts) := by
  have := h.inv.size
  rw [heights_map_gm] at this
  exact this

theorem Inv2_congr {n : Nat} {s s' : Store α} {mts : List (Nat × Expr α)} (h : Inv2 merge ⟨n, s⟩ mts)
    (hagree : ∀ q, q < n → s' q = s q) : Inv2 merge ⟨n, s'⟩ mts := by
  have hsz : n = szH (heights mts) := Inv2_size merge h
  refine ⟨Inv_congr h.inv hagree, ?_⟩
  exact Trees_congr merge mts 0 (fun q hq => hagree q (by omega)) h.trees

/-- the number of stored nodes of the MMR of a non-empty leaf list is the crate's
`leaf_index_to_mmr_size(|L| - 1)` -/
theorem size_treesOf (L : List α) (hne : L ≠ []) :
    szH (heights (treesOf L)) = leafIndexToMmrSize (L.length - 1) := by
  let merge : α → α → α := fun a _ => a
  have hh : heights (treesOf L) = heights (specD merge L) := by
    rw [← heights_map_gm merge (treesOf L)]
    have := foldl_atoms_hom merge L []
    simp only [List.map_nil] at this
    unfold treesOf
    rw [this]
    rfl
  obtain ⟨⟨b, hd⟩, hlc⟩ := leafCount_specD merge L
  have hnes : heights (specD merge L) ≠ [] := by
    have := specD_ne_nil merge L hne
    intro h; apply this; simpa [heights] using h
  have := leafIndexToMmrSize_spec hd hnes
  rw [hlc] at this
  rw [hh, this]

/-- **Uniqueness**: two columns that both hold the MMR of the leaf list `L` agree on every position
below `leaf_index_to_mmr_size(|L| - 1)`. -/
theorem ColOk_unique {st st' : Store α} {L : List α} (hne : L ≠ [])
    (h : ColOk merge st L) (h' : ColOk merge st' L) :
    ∀ q, q < leafIndexToMmrSize (L.length - 1) → st q = st' q := by
  intro q hq
  refine Trees_unique merge (treesOf L) 0 h.trees h'.trees q (Nat.zero_le _) ?_
  rw [size_treesOf L hne]
  omega

/-- **Replay from nothing**: pushing `L` onto an empty MMR over ANY initial column content gives a
column that holds the MMR of `L`, of size `leaf_index_to_mmr_size(|L| - 1)`. -/
theorem ColOk_fresh (s0 : Store α) (L : List α) (hne : L ≠ []) :
    ∃ m, pushAll merge ⟨0, s0⟩ L = some m ∧ ColOk merge m.store L ∧
      m.size = leafIndexToMmrSize (L.length - 1) := by
  obtain ⟨m, hm, hi, -, -⟩ := pushAll_inv2 merge _ _ L (Inv2_empty merge s0)
  have hsz : m.size = leafIndexToMmrSize (L.length - 1) := by
    rw [Inv2_size merge hi]
    exact size_treesOf L hne
  refine ⟨m, hm, ?_, hsz⟩
  unfold ColOk
  rw [← hsz]
  exact hi

/-- **Truncation**: nothing is written; the column still holds the MMR of every non-empty prefix
of the chain (below that prefix's size). -/
theorem ColOk_prefix {st : Store α} (pre det : List α) (hne : pre ≠ [])
    (h : ColOk merge st (pre ++ det)) : ColOk merge st pre := by
  -- a fresh replay of `pre`, continued by `det`
  obtain ⟨mp, hmp, hip, hszp⟩ := ColOk_fresh merge st pre hne
  have hip2 : Inv2 merge mp (treesOf pre) := by
    unfold ColOk at hip
    rw [← hszp] at hip
    exact hip
  obtain ⟨mf, -, hif, hstf, hle⟩ := pushAll_inv2 merge mp _ det hip2
  rw [treesOf_append] at hif
  have hnef : pre ++ det ≠ [] := by simp [hne]
  have hszf : mf.size = leafIndexToMmrSize ((pre ++ det).length - 1) := by
    rw [Inv2_size merge hif]
    exact size_treesOf _ hnef
  have hcf : ColOk merge mf.store (pre ++ det) := by
    unfold ColOk
    rw [← hszf]
    exact hif
  have hu := ColOk_unique merge hnef h hcf
  unfold ColOk
  rw [← hszp]
  refine Inv2_congr merge hip2 ?_
  intro q hq
  rw [hu q (by rw [← hszf]; omega), hstf q hq]

/-- **Reorganisation**: the column holds the old main chain `pre ++ det`; `reconcile_main_chain`
creates the MMR object at `leaf_index_to_mmr_size(|pre| - 1)` over the same, uncleaned column and
pushes the attached leaves: every push succeeds (no `InconsistentStore`), the resulting column
holds the MMR of the NEW main chain `pre ++ att`, its size is `leaf_index_to_mmr_size(|pre ++ att| - 1)`,
and nothing below the fork point's size was written. -/
theorem ColOk_reorg {st : Store α} (pre det att : List α) (hne : pre ≠ [])
    (h : ColOk merge st (pre ++ det)) :
    ∃ m', pushAll merge ⟨leafIndexToMmrSize (pre.length - 1), st⟩ att = some m' ∧
      ColOk merge m'.store (pre ++ att) ∧
      m'.size = leafIndexToMmrSize ((pre ++ att).length - 1) ∧
      (∀ q, q < leafIndexToMmrSize (pre.length - 1) → m'.store q = st q) := by
  have hp : Inv2 merge ⟨leafIndexToMmrSize (pre.length - 1), st⟩ (treesOf pre) :=
    ColOk_prefix merge pre det hne h
  obtain ⟨m', hm', hi', hst', -⟩ := pushAll_inv2 merge _ _ att hp
  rw [treesOf_append] at hi'
  have hne' : pre ++ att ≠ [] := by simp [hne]
  have hsz : m'.size = leafIndexToMmrSize ((pre ++ att).length - 1) := by
    rw [Inv2_size merge hi']
    exact size_treesOf _ hne'
  refine ⟨m', hm', ?_, hsz, hst'⟩
  unfold ColOk
  rw [← hsz]
  exact hi'

end

end CkbVerif.MMR
