import CkbVerif.Lemmas.Rules

/-! Multi-step invariant of the `submit` pipeline (C03): every verified block — in particular every
main-chain block — passed all three stages in the context of its own ancestor chain.

Scope: histories in which a hash is never delivered with two different bodies (`OneBody`); then the
model's "the first stored body stays" and the code's `insert_block` overwrite coincide. -/
namespace CkbVerif.Rules

/-- a history: `(now, block)` submissions -/
def run (cfg : Cfg) : St → List (Nat × Blk) → St
  | s, [] => s
  | s, (now, b) :: ops => run cfg (submit cfg s now b).1 ops

/-- no identifier names two different blocks -/
def OneBody (bs : List Blk) : Prop := ∀ b ∈ bs, ∀ b' ∈ bs, b.id = b'.id → b = b'

theorem findBlk_some {st : List Blk} {id : Nat} {x : Blk} (h : findBlk st id = some x) : x ∈ st ∧ x.id = id := by
  unfold findBlk at h
  exact ⟨List.mem_of_find?_eq_some h, by simpa using List.find?_some h⟩

theorem findBlk_append (st : List Blk) (b : Blk) (id : Nat) :
    findBlk (st ++ [b]) id = match findBlk st id with
      | some x => some x
      | none => if b.id == id then some b else none := by
  unfold findBlk
  rw [List.find?_append]
  cases st.find? (fun b => b.id == id) with
  | some x => simp
  | none => cases h : (b.id == id) <;> simp [h]

theorem verifyAll_none_iff (cfg : Cfg) (st : List Blk) (l : List Blk) :
    verifyAll cfg st l = none ↔
      ∀ y ∈ l, ∃ q, findBlk st y.parent = some q ∧ contextualCheck cfg (cxOf st q) y = none := by
  induction l with
  | nil => simp [verifyAll]
  | cons y ys ih =>
    simp only [verifyAll, List.mem_cons, forall_eq_or_imp]
    cases hq : findBlk st y.parent with
    | none => simp
    | some q =>
      cases hc : contextualCheck cfg (cxOf st q) y with
      | some e => simp [hc]
      | none => simp [hc, ih]

/-- parent links of stored blocks resolve inside the store, with consistent numbers -/
def Closed (st : List Blk) : Prop :=
  ∀ x ∈ st, x.number ≠ 0 → ∃ p, findBlk st x.parent = some p ∧ x.number = p.number + 1

theorem ancestors_append {st : List Blk} (hc : Closed st) (b : Blk) :
    ∀ (f id : Nat) (x : Blk), findBlk st id = some x → ancestors (st ++ [b]) f id = ancestors st f id := by
  intro f
  induction f with
  | zero => intro id x _; rfl
  | succ f ih =>
    intro id x hx
    simp only [ancestors, findBlk_append, hx]
    by_cases h0 : x.number = 0
    · simp [h0]
    · obtain ⟨p, hp, _⟩ := hc x (findBlk_some hx).1 h0
      simp [h0, ih x.parent p hp]

theorem ancestors_mem {st : List Blk} : ∀ (f id : Nat) (y : Blk), y ∈ ancestors st f id → y ∈ st := by
  intro f
  induction f with
  | zero => intro id y h; simp [ancestors] at h
  | succ f ih =>
    intro id y h
    simp only [ancestors] at h
    cases hx : findBlk st id with
    | none => simp [hx] at h
    | some x =>
      simp only [hx, List.mem_cons] at h
      rcases h with h | h
      · exact h ▸ (findBlk_some hx).1
      · split at h
        · simp at h
        · exact ih _ _ h

/-- with fuel above the block's number the walk is complete: the parent of every walked
non-genesis block is walked too -/
theorem ancestors_parent_mem {st : List Blk} (hc : Closed st) :
    ∀ (f id : Nat) (x : Blk), findBlk st id = some x → x.number < f →
      ∀ y ∈ ancestors st f id, y.number ≠ 0 →
        ∃ q, findBlk st y.parent = some q ∧ q ∈ ancestors st f id := by
  intro f
  induction f with
  | zero => intro id x _ h; omega
  | succ f ih =>
    intro id x hx hlt y hy hy0
    simp only [ancestors, hx, List.mem_cons] at hy ⊢
    by_cases h0 : x.number = 0
    · simp [h0] at hy
      subst hy; exact absurd h0 hy0
    · obtain ⟨p, hp, hnum⟩ := hc x (findBlk_some hx).1 h0
      have hpf : p.number < f := by omega
      have hphead : p ∈ ancestors st f x.parent := by
        cases f with
        | zero => omega
        | succ f' => simp [ancestors, hp]
      simp only [beq_iff_eq, h0, if_false] at hy ⊢
      rcases hy with hy | hy
      · subst hy
        exact ⟨p, hp, Or.inr hphead⟩
      · obtain ⟨q, hq, hqm⟩ := ih x.parent p hp hpf y hy hy0
        exact ⟨q, hq, Or.inr hqm⟩

theorem ancestors_head {st : List Blk} {f id : Nat} {x : Blk} (hx : findBlk st id = some x) :
    x ∈ ancestors st (f + 1) id := by
  simp [ancestors, hx]

theorem cxOf_append {st : List Blk} (hc : Closed st) (b p : Blk) (hp : findBlk st p.id = some p) :
    cxOf (st ++ [b]) p = cxOf st p := by
  unfold cxOf
  rw [ancestors_append hc b _ _ _ hp]

theorem headerCxOf_append {st : List Blk} (hc : Closed st) (cfg : Cfg) (b x p : Blk) (now : Nat)
    (hp : findBlk st x.parent = some p) :
    headerCxOf cfg (st ++ [b]) now x = headerCxOf cfg st now x := by
  unfold headerCxOf
  have hpid : findBlk st p.id = some p := by rw [(findBlk_some hp).2]; exact hp
  simp only [findBlk_append, hp]
  rw [ancestors_append hc b _ _ _ hpid]

/-- the invariant of the pipeline -/
structure Inv (cfg : Cfg) (g : Blk) (bs : List Blk) (s : St) : Prop where
  sub : ∀ x ∈ s.stored, x ∈ bs
  gen : findBlk s.stored g.id = some g
  uniq : ∀ x ∈ s.stored, findBlk s.stored x.id = some x
  closed : Closed s.stored
  verStored : ∀ id ∈ s.verified, ∃ x, findBlk s.stored id = some x
  tipVer : s.tip ∈ s.verified
  early : ∀ x ∈ s.stored, x.number ≠ 0 →
    (∃ now, headerCheck cfg (headerCxOf cfg s.stored now x) x = none) ∧ nonContextualCheck cfg x = none
  good : ∀ x ∈ s.stored, x.id ∈ s.verified → x.number ≠ 0 →
    ∃ p, findBlk s.stored x.parent = some p ∧ p.id ∈ s.verified ∧ contextualCheck cfg (cxOf s.stored p) x = none

theorem header_ok_parent {cfg : Cfg} {st : List Blk} {now : Nat} {b : Blk}
    (h : headerCheck cfg (headerCxOf cfg st now b) b = none) :
    ∃ p, findBlk st b.parent = some p ∧ b.number = p.number + 1 := by
  unfold headerCxOf at h
  cases hp : findBlk st b.parent with
  | none => simp [hp, headerCheck] at h; grind
  | some p =>
    refine ⟨p, rfl, ?_⟩
    simp only [hp] at h
    unfold headerCheck at h
    grind

/-- appending a block with a fresh id whose header stage and non-contextual stage passed keeps the
store part of the invariant, and every context of an already stored block -/
theorem inv_store_append {cfg : Cfg} {g : Blk} {bs : List Blk} {s : St} (hi : Inv cfg g bs s)
    {b : Blk} {now : Nat} (hb : b ∈ bs) (hfresh : findBlk s.stored b.id = none)
    (hH : headerCheck cfg (headerCxOf cfg s.stored now b) b = none) (hN : nonContextualCheck cfg b = none) :
    (∀ x ∈ s.stored ++ [b], x ∈ bs) ∧ findBlk (s.stored ++ [b]) g.id = some g ∧
    (∀ x ∈ s.stored ++ [b], findBlk (s.stored ++ [b]) x.id = some x) ∧ Closed (s.stored ++ [b]) ∧
    (∀ x ∈ s.stored ++ [b], x.number ≠ 0 →
      (∃ now, headerCheck cfg (headerCxOf cfg (s.stored ++ [b]) now x) x = none) ∧ nonContextualCheck cfg x = none) := by
  obtain ⟨p, hp, hnum⟩ := header_ok_parent hH
  refine ⟨?_, ?_, ?_, ?_, ?_⟩
  · intro x hx
    rcases List.mem_append.mp hx with hx | hx
    · exact hi.sub x hx
    · simp at hx; exact hx ▸ hb
  · simp [findBlk_append, hi.gen]
  · intro x hx
    rcases List.mem_append.mp hx with hx | hx
    · simp [findBlk_append, hi.uniq x hx]
    · simp at hx; subst hx; simp [findBlk_append, hfresh]
  · intro x hx h0
    rcases List.mem_append.mp hx with hx | hx
    · obtain ⟨q, hq, hn⟩ := hi.closed x hx h0
      exact ⟨q, by simp [findBlk_append, hq], hn⟩
    · simp at hx; subst hx
      exact ⟨p, by simp [findBlk_append, hp], hnum⟩
  · intro x hx h0
    rcases List.mem_append.mp hx with hx | hx
    · obtain ⟨⟨nw, hh⟩, hn⟩ := hi.early x hx h0
      obtain ⟨q, hq, _⟩ := hi.closed x hx h0
      exact ⟨⟨nw, by rw [headerCxOf_append hi.closed cfg b x q nw hq]; exact hh⟩, hn⟩
    · simp at hx; subst hx
      exact ⟨⟨now, by rw [headerCxOf_append hi.closed cfg x x p now hp]; exact hH⟩, hN⟩

theorem good_append {cfg : Cfg} {g : Blk} {bs : List Blk} {s : St} (hi : Inv cfg g bs s) (b : Blk)
    {x : Blk} (hx : x ∈ s.stored) (hv : x.id ∈ s.verified) (h0 : x.number ≠ 0) :
    ∃ p, findBlk (s.stored ++ [b]) x.parent = some p ∧ p.id ∈ s.verified ∧
      contextualCheck cfg (cxOf (s.stored ++ [b]) p) x = none := by
  obtain ⟨p, hp, hpv, hc⟩ := hi.good x hx hv h0
  have hpid : findBlk s.stored p.id = some p := by rw [(findBlk_some hp).2]; exact hp
  exact ⟨p, by simp [findBlk_append, hp], hpv, by rw [cxOf_append hi.closed b p hpid]; exact hc⟩

/-- one submission preserves the invariant -/
theorem inv_submit {cfg : Cfg} {g : Blk} {bs : List Blk} {s : St} (hi : Inv cfg g bs s)
    (hob : OneBody bs) (now : Nat) {b : Blk} (hb : b ∈ bs) : Inv cfg g bs (submit cfg s now b).1 := by
  unfold submit
  cases hH : headerCheck cfg (headerCxOf cfg s.stored now b) b with
  | some e => exact hi
  | none =>
  simp only []
  split
  · exact hi
  cases hN : nonContextualCheck cfg b with
  | some e => exact ⟨hi.sub, hi.gen, hi.uniq, hi.closed, hi.verStored, hi.tipVer, hi.early, hi.good⟩
  | none =>
  simp only []
  split
  · exact ⟨hi.sub, hi.gen, hi.uniq, hi.closed, hi.verStored, hi.tipVer, hi.early, hi.good⟩
  split
  · exact hi
  rename_i hnotver
  cases hp : findBlk s.stored b.parent with
  | none => simp only []; exact hi
  | some p =>
  cases ht : findBlk s.stored s.tip with
  | none => simp only []; exact hi
  | some t =>
  simp only []
  have hbnum : b.number ≠ 0 := by
    obtain ⟨_, _, h⟩ := header_ok_parent hH; omega
  -- the store after the call, and the store part of the invariant for it
  have hstore : ∀ st', st' = (if (findBlk s.stored b.id).isSome then s.stored else s.stored ++ [b]) →
      (∀ x ∈ st', x ∈ bs) ∧ findBlk st' g.id = some g ∧ (∀ x ∈ st', findBlk st' x.id = some x) ∧ Closed st' ∧
      (∀ x ∈ st', x.number ≠ 0 →
        (∃ now, headerCheck cfg (headerCxOf cfg st' now x) x = none) ∧ nonContextualCheck cfg x = none) ∧
      (∀ id x, findBlk s.stored id = some x → findBlk st' id = some x) ∧
      (∀ x ∈ s.stored, x.id ∈ s.verified → x.number ≠ 0 →
        ∃ q, findBlk st' x.parent = some q ∧ q.id ∈ s.verified ∧ contextualCheck cfg (cxOf st' q) x = none) ∧
      findBlk st' b.id = some b ∧ findBlk st' b.parent = some p ∧
      (∀ f id x, findBlk s.stored id = some x → ancestors st' f id = ancestors s.stored f id) := by
    intro st' hst
    cases hf : findBlk s.stored b.id with
    | some x =>
      have hxb : x = b := hob x (hi.sub x (findBlk_some hf).1) b hb (findBlk_some hf).2
      subst hxb
      simp only [hf, Option.isSome_some, if_true] at hst
      subst hst
      exact ⟨hi.sub, hi.gen, hi.uniq, hi.closed, hi.early, fun _ _ h => h, hi.good, hf, hp, fun _ _ _ _ => rfl⟩
    | none =>
      simp only [hf, Option.isSome_none, Bool.false_eq_true, if_false] at hst
      subst hst
      obtain ⟨h1, h2, h3, h4, h5⟩ := inv_store_append hi hb hf hH hN
      refine ⟨h1, h2, h3, h4, h5, ?_, ?_, by simp [findBlk_append, hf], by simp [findBlk_append, hp], ?_⟩
      · intro id x hx; simp [findBlk_append, hx]
      · intro x hx hv h0; exact good_append hi b hx hv h0
      · intro f id x hx; exact ancestors_append hi.closed b f id x hx
  obtain ⟨s1, s2, s3, s4, s5, s6, s7, s8, s9, s10⟩ := hstore _ rfl
  split
  · -- heavier than the tip: the attempt
    cases hv : verifyAll cfg (if (findBlk s.stored b.id).isSome then s.stored else s.stored ++ [b])
        (dirtyBranch s p ++ [b]) with
    | some e => exact ⟨hi.sub, hi.gen, hi.uniq, hi.closed, hi.verStored, hi.tipVer, hi.early, hi.good⟩
    | none =>
      simp only []
      have hall := (verifyAll_none_iff cfg _ _).mp hv
      have hpid : findBlk s.stored p.id = some p := by rw [(findBlk_some hp).2]; exact hp
      -- members of the dirty branch are stored, unverified ancestors of p
      have hdirty : ∀ y ∈ dirtyBranch s p, y ∈ ancestors s.stored (p.number + 1) p.id ∧ y.id ∉ s.verified := by
        intro y hy
        unfold dirtyBranch at hy
        simp only [List.mem_reverse, List.mem_filter] at hy
        exact ⟨hy.1, by simpa using hy.2⟩
      have hnewver : ∀ q, q ∈ ancestors s.stored (p.number + 1) p.id →
          q.id ∈ s.verified ++ List.map (fun x => x.id) (dirtyBranch s p) ++ [b.id] := by
        intro q hq
        by_cases hqv : q.id ∈ s.verified
        · simp [hqv]
        · have : q ∈ dirtyBranch s p := by
            unfold dirtyBranch
            simp only [List.mem_reverse, List.mem_filter]
            exact ⟨hq, by simpa using hqv⟩
          simp only [List.mem_append, List.mem_map, List.mem_singleton]
          exact Or.inl (Or.inr ⟨q, this, rfl⟩)
      have hold : ∀ x ∈ (if (findBlk s.stored b.id).isSome then s.stored else s.stored ++ [b]),
          x.id ∈ s.verified → x ∈ s.stored := by
        intro x hx hxv
        obtain ⟨z, hz⟩ := hi.verStored x.id hxv
        have h1 := s6 x.id z hz
        rw [s3 x hx] at h1
        exact (Option.some.inj h1) ▸ (findBlk_some hz).1
      refine ⟨s1, s2, s3, s4, ?_, ?_, s5, ?_⟩
      · intro id hid
        simp only [List.mem_append, List.mem_map, List.mem_singleton] at hid
        rcases hid with (hid | ⟨y, hy, rfl⟩) | hid
        · obtain ⟨z, hz⟩ := hi.verStored id hid
          exact ⟨z, s6 id z hz⟩
        · have hys := ancestors_mem _ _ _ (hdirty y hy).1
          exact ⟨y, s6 y.id y (hi.uniq y hys)⟩
        · exact ⟨b, hid ▸ s8⟩
      · simp
      · intro x hx hxv h0
        simp only [List.mem_append, List.mem_map, List.mem_singleton] at hxv
        have hcase : x.id ∈ s.verified ∧ x ∈ s.stored ∨ x ∈ dirtyBranch s p ∨ x = b := by
          rcases hxv with (hxv | ⟨y, hy, hyx⟩) | hxv
          · exact Or.inl ⟨hxv, hold x hx hxv⟩
          · have hys := ancestors_mem _ _ _ (hdirty y hy).1
            have h1 := s6 y.id y (hi.uniq y hys)
            have h2 := s3 x hx
            rw [← hyx, h1] at h2
            exact Or.inr (Or.inl ((Option.some.inj h2) ▸ hy))
          · have h2 := s3 x hx
            rw [hxv, s8] at h2
            exact Or.inr (Or.inr (Option.some.inj h2).symm)
        rcases hcase with ⟨hxv', hxs⟩ | hxd | hxb
        · obtain ⟨q, hq, hqv, hc⟩ := s7 x hxs hxv' h0
          exact ⟨q, hq, by simp [hqv], hc⟩
        · obtain ⟨q, hq, hc⟩ := hall x (by simp [hxd])
          refine ⟨q, hq, ?_, hc⟩
          have hxa := (hdirty x hxd).1
          obtain ⟨q', hq', hqm⟩ := ancestors_parent_mem hi.closed (p.number + 1) p.id p hpid (by omega) x hxa h0
          rw [s6 x.parent q' hq'] at hq
          exact (Option.some.inj hq) ▸ hnewver q' hqm
        · subst hxb
          obtain ⟨q, hq, hc⟩ := hall x (by simp)
          refine ⟨q, hq, ?_, hc⟩
          rw [s9] at hq
          exact (Option.some.inj hq) ▸ hnewver p (ancestors_head hpid)
  · -- not heavier: stored on a side branch
    refine ⟨s1, s2, s3, s4, ?_, hi.tipVer, s5, ?_⟩
    · intro id hid
      obtain ⟨z, hz⟩ := hi.verStored id hid
      exact ⟨z, s6 id z hz⟩
    · intro x hx hxv h0
      have hxs : x ∈ s.stored := by
        obtain ⟨z, hz⟩ := hi.verStored x.id hxv
        have h1 := s6 x.id z hz
        rw [s3 x hx] at h1
        exact (Option.some.inj h1) ▸ (findBlk_some hz).1
      exact s7 x hxs hxv h0

theorem inv_init (cfg : Cfg) (g : Blk) (bs : List Blk) (hg : g ∈ bs) (h0 : g.number = 0) :
    Inv cfg g bs (St.init g) := by
  refine ⟨?_, ?_, ?_, ?_, ?_, ?_, ?_, ?_⟩ <;> simp [St.init, findBlk, Closed, hg, h0]

theorem inv_run {cfg : Cfg} {g : Blk} {bs : List Blk} (hob : OneBody bs) :
    ∀ (ops : List (Nat × Blk)) (s : St), Inv cfg g bs s → (∀ o ∈ ops, o.2 ∈ bs) → Inv cfg g bs (run cfg s ops) := by
  intro ops
  induction ops with
  | nil => intro s hi _; exact hi
  | cons o ops ih =>
    intro s hi hb
    obtain ⟨now, b⟩ := o
    simp only [run]
    exact ih _ (inv_submit hi hob now (hb (now, b) (by simp))) (fun o ho => hb o (by simp [ho]))

/-- every block walked from a verified block is verified -/
theorem ancestors_verified {cfg : Cfg} {g : Blk} {bs : List Blk} {s : St} (hi : Inv cfg g bs s) :
    ∀ (f id : Nat), id ∈ s.verified → ∀ y ∈ ancestors s.stored f id, y.id ∈ s.verified := by
  intro f
  induction f with
  | zero => intro id _ y hy; simp [ancestors] at hy
  | succ f ih =>
    intro id hid y hy
    simp only [ancestors] at hy
    cases hx : findBlk s.stored id with
    | none => simp [hx] at hy
    | some x =>
      simp only [hx, List.mem_cons] at hy
      have hxid := (findBlk_some hx).2
      rcases hy with hy | hy
      · subst hy; rw [hxid]; exact hid
      · by_cases h0 : x.number = 0
        · simp [h0] at hy
        · simp only [beq_iff_eq, h0, if_false] at hy
          obtain ⟨p, hp, hpv, _⟩ := hi.good x (findBlk_some hx).1 (hxid ▸ hid) h0
          exact ih x.parent ((findBlk_some hp).2 ▸ hpv) y hy

end CkbVerif.Rules
