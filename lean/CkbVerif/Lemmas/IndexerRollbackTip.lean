import CkbVerif.Lemmas.IndexerRollback3

/-! The tip only depends on the set of Header rows; `rollback ∘ append` restores it (C18). -/
namespace CkbVerif.Indexer


def fl (r : HRow) : Nat := if r.2.2.1 then 1 else 0

theorem hdrLt_iff (a b : HRow) : hdrLt a b = true ↔
    (a.1 < b.1 ∨ (a.1 = b.1 ∧ (a.2.1 < b.2.1 ∨ (a.2.1 = b.2.1 ∧ fl a < fl b)))) := by
  obtain ⟨a1, a2, a3, a4⟩ := a
  obtain ⟨b1, b2, b3, b4⟩ := b
  cases a3 <;> cases b3 <;> simp [hdrLt, fl]

theorem hdrLt_false_iff (a b : HRow) : hdrLt a b = false ↔
    ¬ (a.1 < b.1 ∨ (a.1 = b.1 ∧ (a.2.1 < b.2.1 ∨ (a.2.1 = b.2.1 ∧ fl a < fl b)))) := by
  rw [← hdrLt_iff]
  simp

theorem hdrLt_trans' (a x r : HRow) (h1 : hdrLt a x = true) (h2 : hdrLt r x = false) :
    hdrLt r a = false := by
  rw [hdrLt_iff] at h1
  rw [hdrLt_false_iff] at h2 ⊢
  omega

theorem hdrLt_asymm (a x : HRow) (h1 : hdrLt a x = true) : hdrLt x a = false := by
  rw [hdrLt_iff] at h1
  rw [hdrLt_false_iff]
  omega

theorem hdrLt_total' (a x r : HRow) (h1 : hdrLt a x = false) (h2 : hdrLt r a = false) :
    hdrLt r x = false := by
  rw [hdrLt_false_iff] at h1 h2 ⊢
  omega

theorem hdrLt_irrefl (a : HRow) : hdrLt a a = false := by
  rw [hdrLt_false_iff]
  omega

theorem fold_tipStep_spec (rows : List HRow) (acc : Option HRow) :
    (∀ r, rows.foldl tipStep acc = some r →
      (r ∈ rows ∨ acc = some r) ∧ (∀ r' ∈ rows, hdrLt r r' = false) ∧
        (∀ a, acc = some a → hdrLt r a = false ∨ r = a)) ∧
    (rows.foldl tipStep acc = none → rows = [] ∧ acc = none) := by
  induction rows generalizing acc with
  | nil =>
    refine ⟨?_, ?_⟩
    · intro r h
      simp only [List.foldl_nil] at h
      exact ⟨Or.inr h, by simp, fun a ha => by rw [h] at ha; cases ha; exact Or.inr rfl⟩
    · intro h; exact ⟨rfl, h⟩
  | cons x t ih =>
    simp only [List.foldl_cons]
    obtain ⟨ih1, ih2⟩ := ih (tipStep acc x)
    refine ⟨?_, ?_⟩
    · intro r h
      obtain ⟨hmem, hmax, hacc⟩ := ih1 r h
      cases hacc' : acc with
      | none =>
        simp only [hacc', tipStep] at hmem hacc
        refine ⟨?_, ?_, by simp⟩
        · rcases hmem with hm | hm
          · exact Or.inl (List.mem_cons_of_mem _ hm)
          · cases hm; exact Or.inl List.mem_cons_self
        · intro r' hr'
          rcases List.mem_cons.mp hr' with rfl | hr'
          · rcases hacc r' rfl with h1 | h1
            · exact h1
            · subst h1; exact hdrLt_irrefl _
          · exact hmax r' hr'
      | some a =>
        simp only [hacc', tipStep] at hmem hacc
        by_cases hlt : hdrLt a x = true
        · simp only [hlt, if_true] at hmem hacc
          refine ⟨?_, ?_, ?_⟩
          · rcases hmem with hm | hm
            · exact Or.inl (List.mem_cons_of_mem _ hm)
            · cases hm; exact Or.inl List.mem_cons_self
          · intro r' hr'
            rcases List.mem_cons.mp hr' with rfl | hr'
            · rcases hacc r' rfl with h1 | h1
              · exact h1
              · subst h1; exact hdrLt_irrefl _
            · exact hmax r' hr'
          · intro a' ha'
            cases ha'
            rcases hacc x rfl with h1 | h1
            · left
              exact hdrLt_trans' _ _ _ hlt h1
            · subst h1
              left
              exact hdrLt_asymm _ _ hlt
        · simp only [hlt, Bool.false_eq_true, if_false] at hmem hacc
          have hlt' : hdrLt a x = false := by simpa using hlt
          refine ⟨?_, ?_, ?_⟩
          · rcases hmem with hm | hm
            · exact Or.inl (List.mem_cons_of_mem _ hm)
            · exact Or.inr hm
          · intro r' hr'
            rcases List.mem_cons.mp hr' with rfl | hr'
            · rcases hacc a rfl with h1 | h1
              · exact hdrLt_total' _ _ _ hlt' h1
              · subst h1; exact hlt'
            · exact hmax r' hr'
          · intro a' ha'
            cases ha'
            exact hacc a rfl
    · intro h
      obtain ⟨_, h2⟩ := ih2 h
      cases acc <;> simp [tipStep] at h2
      split at h2 <;> cases h2

end CkbVerif.Indexer

namespace CkbVerif.Indexer

theorem mem_headerRows_iff (s : Store) (r : HRow) :
    r ∈ headerRows s ↔ (Key.header r.1 r.2.1 r.2.2.1, Val.txs r.2.2.2) ∈ s := by
  constructor
  · exact mem_headerRows s r
  · intro h
    unfold headerRows
    rw [List.mem_filterMap]
    exact ⟨_, h, rfl⟩

/-- the tip only depends on the SET of Header rows -/
theorem tip_congr (X Y : Store) (h : ∀ r, r ∈ headerRows X ↔ r ∈ headerRows Y) : tip X = tip Y := by
  unfold tip
  rw [tipRow_eq, tipRow_eq]
  obtain ⟨x1, x2⟩ := fold_tipStep_spec (headerRows X) none
  obtain ⟨y1, y2⟩ := fold_tipStep_spec (headerRows Y) none
  cases hX : (headerRows X).foldl tipStep none with
  | none =>
    cases hY : (headerRows Y).foldl tipStep none with
    | none => rfl
    | some r2 =>
      obtain ⟨hm, _, _⟩ := y1 r2 hY
      rcases hm with hm | hm
      · have := (h r2).mpr hm
        rw [(x2 hX).1] at this
        cases this
      · cases hm
  | some r1 =>
    obtain ⟨hm1, hmax1, _⟩ := x1 r1 hX
    have hm1' : r1 ∈ headerRows X := by
      rcases hm1 with hm | hm
      · exact hm
      · cases hm
    cases hY : (headerRows Y).foldl tipStep none with
    | none =>
      have := (h r1).mp hm1'
      rw [(y2 hY).1] at this
      cases this
    | some r2 =>
      obtain ⟨hm2, hmax2, _⟩ := y1 r2 hY
      have hm2' : r2 ∈ headerRows Y := by
        rcases hm2 with hm | hm
        · exact hm
        · cases hm
      have h12 := hmax1 r2 ((h r2).mpr hm2')
      have h21 := hmax2 r1 ((h r1).mp hm1')
      rw [hdrLt_false_iff] at h12 h21
      simp only [Option.map_some, Option.some.injEq, Prod.mk.injEq]
      omega

/-- **rollback ∘ append restores the tip** -/
theorem rollback_append_tip {s : Store} {b : Block} (wf : WFRollbackT s b) (hnd : NodupKeys s) :
    tip (rollback (appendCore s b)) = tip s := by
  apply tip_congr
  intro r
  have hndF : NodupKeys (rollback (appendCore s b)) := nodup_commit _ _ (nodup_commit _ _ hnd)
  rw [mem_headerRows_iff, mem_headerRows_iff, mem_iff_get _ hndF, mem_iff_get _ hnd,
    rollback_append_get wf _ (by intro _ _ h; cases h)]

end CkbVerif.Indexer
