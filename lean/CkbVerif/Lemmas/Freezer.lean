import CkbVerif.Model.Freezer

/-! Helper lemmas for C09 (freezer files).  The disk invariant is stated on the *reversed* entry
list (last entry first), which is the direction both the repair loop and `append` work in. -/
namespace CkbVerif.Freezer

/-! ### byte ranges -/

theorem readRange_some_iff {b : Bytes} {s e : Nat} {x : Bytes} :
    readRange b s e = some x ↔ s ≤ e ∧ e ≤ b.length ∧ x = (b.drop s).take (e - s) := by
  unfold readRange
  split <;> rename_i h
  · constructor
    · intro hx; simp at hx; exact ⟨h.1, h.2, hx.symm⟩
    · intro hx; simp [hx.2.2]
  · constructor
    · intro hx; simp at hx
    · intro hx; exact absurd ⟨hx.1, hx.2.1⟩ h

/-- a range read from a file is unchanged when bytes are appended to the file -/
theorem readRange_append {b g : Bytes} {s e : Nat} {x : Bytes}
    (h : readRange b s e = some x) : readRange (b ++ g) s e = some x := by
  rw [readRange_some_iff] at h ⊢
  obtain ⟨h1, h2, h3⟩ := h
  refine ⟨h1, by simp; omega, ?_⟩
  rw [h3, List.drop_append_of_le_length (by omega), List.take_append_of_le_length (by simp; omega)]

/-- … and when the file is cut at or after the end of the range -/
theorem readRange_take {b : Bytes} {s e n : Nat} {x : Bytes}
    (h : readRange b s e = some x) (hn : e ≤ n) : readRange (b.take n) s e = some x := by
  rw [readRange_some_iff] at h ⊢
  obtain ⟨h1, h2, h3⟩ := h
  refine ⟨h1, by simp; omega, ?_⟩
  rw [h3, List.drop_take, List.take_take]
  congr 1
  omega

theorem readRange_length {b : Bytes} {s e : Nat} {x : Bytes}
    (h : readRange b s e = some x) : x.length = e - s := by
  rw [readRange_some_iff] at h
  obtain ⟨h1, h2, h3⟩ := h
  simp [h3]; omega

theorem readRange_whole_suffix (b x : Bytes) :
    readRange (b ++ x) b.length (b.length + x.length) = some x := by
  rw [readRange_some_iff]
  refine ⟨by omega, by simp, ?_⟩
  simp

theorem setLen_of_le {b : Bytes} {n : Nat} (h : n ≤ b.length) : setLen b n = b.take n := by
  unfold setLen
  have : n - b.length = 0 := by omega
  simp [this]

/-! ### the chain invariant -/

/-- entry `e` stores item `it` right after entry `p`: in the same file, or at the start of the next -/
def Step (files : Nat → Bytes) (p e : Entry) (it : Bytes) : Prop :=
  (e.fid = p.fid ∧ e.off = p.off + it.length ∧ readRange (files p.fid) p.off e.off = some it) ∨
  (e.fid = p.fid + 1 ∧ e.off = it.length ∧ readRange (files e.fid) 0 e.off = some it)

/-- `RChain files rev its`: `rev` is the index (last entry first, ending in the default entry (0,0))
    and `its` the items (last first); every item's bytes are where its entry says. -/
def RChain (files : Nat → Bytes) : List Entry → List Bytes → Prop
  | [e0], [] => e0 = ⟨0, 0⟩
  | e :: p :: rest, it :: its => Step files p e it ∧ RChain files (p :: rest) its
  | _, _ => False

theorem RChain.length_eq {files} : ∀ {rev : List Entry} {its : List Bytes},
    RChain files rev its → rev.length = its.length + 1
  | [], _, h => by cases ‹List Bytes› <;> simp [RChain] at h
  | [_], [], _ => rfl
  | [_], _ :: _, h => by simp [RChain] at h
  | _ :: _ :: _, [], h => by simp [RChain] at h
  | _ :: p :: rest, _ :: its, h => by
    have := RChain.length_eq (rev := p :: rest) (its := its) h.2
    simp at this ⊢; omega

/-- file ids never exceed the head's -/
theorem RChain.fid_le {files} : ∀ {rev : List Entry} {its : List Bytes} {e : Entry} {rest : List Entry},
    rev = e :: rest → RChain files rev its → ∀ q ∈ rest, q.fid ≤ e.fid
  | _, [], e, rest, hr, h => by
    subst hr
    cases rest with
    | nil => intro q hq; cases hq
    | cons p r => simp [RChain] at h
  | _, it :: its, e, rest, hr, h => by
    subst hr
    cases rest with
    | nil => simp [RChain] at h
    | cons p r =>
      intro q hq
      have hs : p.fid ≤ e.fid := by
        rcases h.1 with h1 | h1 <;> omega
      rcases List.mem_cons.mp hq with rfl | hq
      · exact hs
      · exact Nat.le_trans (RChain.fid_le rfl h.2 q hq) hs

/-- the invariant only looks at files up to the head's id -/
theorem RChain.congr {files files' : Nat → Bytes} : ∀ {rev : List Entry} {its : List Bytes} {e : Entry} {rest},
    rev = e :: rest → (∀ k, k ≤ e.fid → files' k = files k) → RChain files rev its → RChain files' rev its
  | _, [], e, rest, hr, _, h => by
    subst hr
    cases rest with
    | nil => exact h
    | cons p r => simp [RChain] at h
  | _, it :: its, e, rest, hr, hk, h => by
    subst hr
    cases rest with
    | nil => simp [RChain] at h
    | cons p r =>
      have hs : p.fid ≤ e.fid := by
        rcases h.1 with h1 | h1 <;> omega
      refine ⟨?_, RChain.congr rfl (fun k hk' => hk k (by omega)) h.2⟩
      rcases h.1 with h1 | h1
      · left; rw [hk p.fid hs]; exact h1
      · right; rw [hk e.fid (Nat.le_refl _)]; exact h1

/-- `g` keeps every byte range of `b` that ends at or before `n` -/
def Pres (n : Nat) (b g : Bytes) : Prop :=
  ∀ s t x, t ≤ n → readRange b s t = some x → readRange g s t = some x

theorem Pres.take (b : Bytes) {n m : Nat} (h : n ≤ m) : Pres n b (b.take m) :=
  fun _ _ _ ht hr => readRange_take hr (Nat.le_trans ht h)

theorem Pres.append (n : Nat) (b g : Bytes) : Pres n b (b ++ g) :=
  fun _ _ _ _ hr => readRange_append hr

/-- replacing the head file by one that keeps all ranges up to the head entry's offset keeps the
    invariant (instances: cutting the head at/after that offset, appending to the head) -/
theorem RChain.modify_head {files : Nat → Bytes} : ∀ {rev : List Entry} {its : List Bytes} {e : Entry} {rest}
    (n : Nat) (g : Bytes),
    rev = e :: rest → e.off ≤ n → Pres n (files e.fid) g → RChain files rev its →
    RChain (setFile files e.fid g) rev its
  | _, [], e, rest, n, g, hr, _, _, h => by
    subst hr
    cases rest with
    | nil => exact h
    | cons p r => simp [RChain] at h
  | _, it :: its, e, rest, n, g, hr, hn, hp, h => by
    subst hr
    cases rest with
    | nil => simp [RChain] at h
    | cons p r =>
      rcases h.1 with h1 | h1
      · -- same file: recurse with the same bound
        have hpn : p.off ≤ n := by omega
        have hp' : Pres n (files p.fid) g := by rw [← h1.1]; exact hp
        have ih := RChain.modify_head (files := files) n g rfl hpn hp' h.2
        rw [h1.1]
        refine ⟨?_, ih⟩
        left
        refine ⟨h1.1, h1.2.1, ?_⟩
        simp only [setFile_same]
        exact hp' _ _ _ hn h1.2.2
      · -- rolled over: the earlier entries never look at this file
        refine ⟨?_, RChain.congr rfl (fun k hk => by rw [setFile_other]; omega) h.2⟩
        right
        refine ⟨h1.1, h1.2.1, ?_⟩
        simp only [setFile_same]
        exact hp _ _ _ hn h1.2.2

/-- dropping the newest `j` entries and items keeps the invariant -/
theorem RChain.drop {files : Nat → Bytes} : ∀ (j : Nat) {rev : List Entry} {its : List Bytes},
    j ≤ its.length → RChain files rev its → RChain files (rev.drop j) (its.drop j)
  | 0, _, _, _, h => by simpa using h
  | j + 1, rev, its, hj, h => by
    match rev, its, h with
    | [e0], [], _ => simp at hj
    | e :: p :: rest, it :: its', h =>
      simp only [List.drop_succ_cons]
      exact RChain.drop j (by simpa using hj) h.2

/-- the step relation between consecutive entries, addressed from the oldest end -/
theorem RChain.step_at {files : Nat → Bytes} : ∀ {rev : List Entry} {its : List Bytes},
    RChain files rev its → ∀ (i : Nat) (p e : Entry) (it : Bytes),
    rev.reverse[i]? = some p → rev.reverse[i + 1]? = some e → its.reverse[i]? = some it →
    Step files p e it
  | [e0], [], _, i, p, e, it, _, _, hit => by simp at hit
  | enew :: pnew :: rest, itnew :: its', h, i, p, e, it, hp, he, hit => by
    have hlen := RChain.length_eq h.2
    have hL : its'.length = rest.length := by simp at hlen; omega
    have hA : (rest.reverse ++ [pnew]).length = rest.length + 1 := by simp
    have hI : its'.reverse.length = rest.length := by simp [hL]
    simp only [List.reverse_cons] at hp he hit
    by_cases hi : i < rest.length
    · -- inside the older part
      rw [List.getElem?_append_left (by omega)] at hp
      rw [List.getElem?_append_left (by omega)] at he
      rw [List.getElem?_append_left (by omega)] at hit
      exact RChain.step_at h.2 i p e it (by simpa using hp) (by simpa using he) hit
    · -- the newest step
      have hi2 : i = rest.length := by
        rcases Nat.lt_or_ge (i + 1) ((rest.reverse ++ [pnew]) ++ [enew]).length with h' | h'
        · simp at h'; omega
        · rw [List.getElem?_eq_none h'] at he; cases he
      subst hi2
      rw [List.getElem?_append_right (by omega)] at he
      rw [List.getElem?_append_left (by omega), List.getElem?_append_right (by simp)] at hp
      rw [List.getElem?_append_right (by omega)] at hit
      simp [hA] at he
      simp at hp
      simp [hI] at hit
      subst he hp hit
      exact h.1

/-! ### the disk invariant -/

/-- the disk holds exactly `items` (oldest first): clean index, every item where its entry says,
    and the head file ends at the last entry's offset -/
structure Good (d : Disk) (items : List Bytes) : Prop where
  tail0 : d.tail = 0
  chain : RChain d.files d.idx.reverse items.reverse
  headLen : ∀ e rest, d.idx.reverse = e :: rest → (d.files e.fid).length = e.off

/-- the in-memory handle agrees with the disk -/
def HandleOk (h : Handle) (d : Disk) : Prop :=
  h.number = d.idx.length ∧ ∀ e rest, d.idx.reverse = e :: rest → h.headId = e.fid ∧ h.headBytes = e.off

theorem Good.rev_ne_nil {d items} (g : Good d items) : ∃ e rest, d.idx.reverse = e :: rest := by
  have := RChain.length_eq g.chain
  match h : d.idx.reverse with
  | [] => simp [h] at this
  | e :: rest => exact ⟨e, rest, rfl⟩

theorem Good.idx_length {d items} (g : Good d items) : d.idx.length = items.length + 1 := by
  have := RChain.length_eq g.chain
  simpa using this

/-! ### operations preserve the invariant -/

theorem repair_clean {fixed : Bool} {files : Nat → Bytes} {e : Entry} {rest : List Entry}
    (h : (files e.fid).length = e.off) :
    repair fixed (e :: rest) files e.fid (files e.fid).length = some (e :: rest, files, e.fid, e.off) := by
  simp [repair, h]

theorem open_good_aux {fixed : Bool} {d : Disk} {items : List Bytes} (g : Good d items) :
    ∃ h, openWith fixed d = some (h, { d with tail := 0 }) ∧ HandleOk h { d with tail := 0 } := by
  obtain ⟨e, rest, hr⟩ := g.rev_ne_nil
  have hne : d.idx.isEmpty = false := by
    cases hd : d.idx with
    | nil => simp [hd] at hr
    | cons a l => rfl
  have hlen := g.headLen e rest hr
  unfold openWith openIndex
  simp only [hne, Bool.false_eq_true, if_false, hr]
  rw [repair_clean hlen]
  simp only
  have hrr : (e :: rest).reverse = d.idx := by rw [← hr]; simp
  rw [hrr]
  refine ⟨_, rfl, ?_, ?_⟩
  · show (e :: rest).length = d.idx.length
    rw [← hrr]; simp
  · intro e' rest' hr'
    simp only at hr'
    rw [hr] at hr'
    cases hr'
    exact ⟨rfl, rfl⟩

theorem Good.set_tail {d : Disk} {items} (g : Good d items) : Good { d with tail := 0 } items :=
  ⟨rfl, g.chain, g.headLen⟩

theorem append_good_aux {max : Nat} {h : Handle} {d : Disk} {items : List Bytes} (x : Bytes)
    (g : Good d items) (hk : HandleOk h d) :
    Good (append max h d x).2 (items ++ [x]) ∧ HandleOk (append max h d x).1 (append max h d x).2 := by
  obtain ⟨e, rest, hr⟩ := g.rev_ne_nil
  obtain ⟨hid, hb⟩ := hk.2 e rest hr
  have hlen := g.headLen e rest hr
  have hchain := g.chain
  rw [hr] at hchain
  unfold append
  by_cases hroll : h.headBytes + x.length > max
  · -- rollover into a fresh file
    simp only [hroll, if_true]
    refine ⟨⟨g.tail0, ?_, ?_⟩, ?_, ?_⟩
    · simp only [List.reverse_append, List.reverse_cons, List.reverse_nil, List.nil_append,
        List.singleton_append, hr]
      refine ⟨Or.inr ⟨by simp [hid], by simp, ?_⟩, ?_⟩
      · simp only [setFile_same, Nat.zero_add]
        have := readRange_whole_suffix [] x
        simpa using this
      · exact RChain.congr rfl (fun k hk' => by rw [setFile_other]; omega) hchain
    · intro e' rest' hr'
      simp only [List.reverse_append, List.reverse_cons, List.reverse_nil, List.nil_append,
        List.singleton_append] at hr'
      cases hr'
      simp
    · simp [hk.1]
    · intro e' rest' hr'
      simp only [List.reverse_append, List.reverse_cons, List.reverse_nil, List.nil_append,
        List.singleton_append] at hr'
      cases hr'
      exact ⟨rfl, rfl⟩
  · -- same head file
    simp only [hroll, if_false]
    refine ⟨⟨g.tail0, ?_, ?_⟩, ?_, ?_⟩
    · simp only [List.reverse_append, List.reverse_cons, List.reverse_nil, List.nil_append,
        List.singleton_append, hr]
      refine ⟨Or.inl ⟨hid, by simp [hb], ?_⟩, ?_⟩
      · rw [← hid]
        simp only [setFile_same]
        have := readRange_whole_suffix (d.files h.headId) x
        rw [hid, hlen] at this
        rw [hid, hb]; exact this
      · rw [hid]
        exact RChain.modify_head e.off _ rfl (Nat.le_refl _) (Pres.append _ _ _) hchain
    · intro e' rest' hr'
      simp only [List.reverse_append, List.reverse_cons, List.reverse_nil, List.nil_append,
        List.singleton_append] at hr'
      cases hr'
      simp [hid, hlen, hb]
    · simp [hk.1]
    · intro e' rest' hr'
      simp only [List.reverse_append, List.reverse_cons, List.reverse_nil, List.nil_append,
        List.singleton_append] at hr'
      cases hr'
      exact ⟨rfl, rfl⟩

theorem RChain.first {files : Nat → Bytes} : ∀ {rev : List Entry} {its : List Bytes},
    RChain files rev its → rev.reverse[0]? = some ⟨0, 0⟩
  | [e0], [], h => by simp [RChain] at h; simp [h]
  | e :: p :: rest, it :: its', h => by
    have ih := RChain.first h.2
    simp only [List.reverse_cons] at ih ⊢
    rw [List.getElem?_append_left (by simp)]
    exact ih

theorem retrieve_good_aux {h : Handle} {d : Disk} {items : List Bytes}
    (g : Good d items) (hk : HandleOk h d) (i : Nat) (it : Bytes) (hi1 : 1 ≤ i)
    (hit : items[i - 1]? = some it) : retrieve h d i = .some it := by
  have hlen := g.idx_length
  have hi2 : i - 1 < items.length := by
    rcases Nat.lt_or_ge (i - 1) items.length with h' | h'
    · exact h'
    · rw [List.getElem?_eq_none h'] at hit; cases hit
  obtain ⟨e, he⟩ : ∃ e, d.idx[i]? = some e := ⟨d.idx[i]'(by omega), List.getElem?_eq_getElem _⟩
  obtain ⟨p, hp⟩ : ∃ p, d.idx[i - 1]? = some p := ⟨d.idx[i - 1]'(by omega), List.getElem?_eq_getElem _⟩
  have hstep : Step d.files p e it :=
    RChain.step_at g.chain (i - 1) p e it (by simpa using hp)
      (by rw [show i - 1 + 1 = i by omega]; simpa using he) (by simpa using hit)
  have hnum : ¬ h.number ≤ i := by rw [hk.1]; omega
  have hlt : ¬ i < 1 := by omega
  unfold retrieve getBounds
  simp only [hlt, hnum, if_false, he]
  by_cases h1 : i = 1
  · subst h1
    have h0 := RChain.first g.chain
    simp only [List.reverse_reverse] at h0
    simp only [Nat.sub_self] at hp
    rw [h0] at hp
    cases hp
    simp only [if_true]
    rcases hstep with hs | hs
    · have : e.fid = 0 := hs.1
      rw [this]; simp only [] at hs
      rw [hs.2.2]
    · rw [hs.2.2]
  · simp only [h1, if_false, hp]
    rcases hstep with hs | hs
    · have hne : ¬ (p.fid ≠ e.fid) := by rw [hs.1]; simp
      simp only [hne, if_false]
      rw [hs.1, hs.2.2]
    · have hne : p.fid ≠ e.fid := by rw [hs.1]; omega
      simp only [hne, if_true, ne_eq, not_false_eq_true]
      rw [hs.2.2]

theorem retrieve_none_aux {h : Handle} {d : Disk} {items : List Bytes}
    (g : Good d items) (hk : HandleOk h d) (i : Nat) (hi : i = 0 ∨ items.length < i) :
    retrieve h d i = .none := by
  have hlen := g.idx_length
  unfold retrieve
  rcases hi with hi | hi
  · simp [hi]
  · have : h.number ≤ i := by rw [hk.1]; omega
    by_cases h1 : i < 1
    · simp [h1]
    · simp [h1, this]

theorem Step.off_le {files : Nat → Bytes} {p e : Entry} {it : Bytes} (h : Step files p e it) :
    e.off ≤ (files e.fid).length := by
  rcases h with hs | hs
  · have := (readRange_some_iff.mp hs.2.2).2.1
    rw [hs.1]; exact this
  · exact (readRange_some_iff.mp hs.2.2).2.1

theorem truncate_good_aux {h : Handle} {d : Disk} {items : List Bytes}
    (g : Good d items) (hk : HandleOk h d) (k : Nat) (hk1 : 1 ≤ k) (hk2 : k < items.length) :
    Good (truncate h d k).2 (items.take k) ∧ HandleOk (truncate h d k).1 (truncate h d k).2 := by
  have hlen := g.idx_length
  have hcond : ¬ (k < 1 ∨ k + 1 ≥ h.number) := by rw [hk.1]; omega
  obtain ⟨e, he⟩ : ∃ e, d.idx[k]? = some e := ⟨d.idx[k]'(by omega), List.getElem?_eq_getElem _⟩
  obtain ⟨p, hp⟩ : ∃ p, d.idx[k - 1]? = some p := ⟨d.idx[k - 1]'(by omega), List.getElem?_eq_getElem _⟩
  obtain ⟨it, hit⟩ : ∃ it, items[k - 1]? = some it := ⟨items[k - 1]'(by omega), List.getElem?_eq_getElem _⟩
  have hstep : Step d.files p e it :=
    RChain.step_at g.chain (k - 1) p e it (by simpa using hp)
      (by rw [show k - 1 + 1 = k by omega]; simpa using he) (by simpa using hit)
  have hoff := hstep.off_le
  have htake : (d.idx.take (k + 1))[k]? = some e := by
    rw [List.getElem?_take]; simp [he]
  -- the kept index, reversed, starts with `e`
  have hrev : (d.idx.take (k + 1)).reverse = e :: (d.idx.take k).reverse := by
    have hk' : k < d.idx.length := by omega
    rw [← List.take_append_getElem hk']
    have : d.idx[k] = e := by
      have := List.getElem?_eq_getElem hk'
      rw [he] at this; exact (Option.some.inj this).symm
    simp [this]
  have hchain0 : RChain d.files (d.idx.take (k + 1)).reverse (items.take k).reverse := by
    rw [List.reverse_take, List.reverse_take]
    have : d.idx.length - (k + 1) = items.length - k := by omega
    rw [this]
    have hl : items.length = items.reverse.length := by simp
    exact RChain.drop (items.length - k) (by simp) g.chain
  unfold truncate
  simp only [hcond, if_false, htake]
  let files1 : Nat → Bytes :=
    if e.fid ≠ h.headId then fun i => if i > e.fid ∧ i ∈ h.cache then [] else d.files i else d.files
  have hfiles1 : ∀ k', k' ≤ e.fid → files1 k' = d.files k' := by
    intro k' hk'
    show (if e.fid ≠ h.headId then fun i => if i > e.fid ∧ i ∈ h.cache then [] else d.files i
      else d.files) k' = d.files k'
    split
    · have : ¬ (k' > e.fid ∧ k' ∈ h.cache) := by omega
      simp [this]
    · rfl
  have hchain1 : RChain files1 (d.idx.take (k + 1)).reverse (items.take k).reverse := by
    rw [hrev] at hchain0 ⊢
    exact RChain.congr rfl hfiles1 hchain0
  have hoff1 : e.off ≤ (files1 e.fid).length := by rw [hfiles1 _ (Nat.le_refl _)]; exact hoff
  refine ⟨⟨g.tail0, ?_, ?_⟩, ?_, ?_⟩
  · show RChain (setFile files1 e.fid (setLen (files1 e.fid) e.off)) _ _
    rw [setLen_of_le hoff1]
    rw [hrev] at hchain1 ⊢
    exact RChain.modify_head e.off _ rfl (Nat.le_refl _) (Pres.take _ (Nat.le_refl _)) hchain1
  · intro e' rest' hr'
    show (setFile files1 e.fid (setLen (files1 e.fid) e.off) e'.fid).length = e'.off
    simp only at hr'
    rw [hrev] at hr'
    cases hr'
    rw [setFile_same, setLen_of_le hoff1]
    simp; omega
  · show k + 1 = (d.idx.take (k + 1)).length
    simp; omega
  · intro e' rest' hr'
    simp only at hr'
    rw [hrev] at hr'
    cases hr'
    exact ⟨rfl, rfl⟩

theorem truncate_noop_aux {h : Handle} {d : Disk} (k : Nat) (hk : k < 1 ∨ k + 1 ≥ h.number) :
    truncate h d k = (h, d) := by
  unfold truncate; rw [if_pos hk]

/-! ### re-opening a disk whose head file carries junk after the last good entry -/

/-- the repaired loop on a good chain whose head file may be too long: it cuts the head back -/
theorem repair_junk_head {files : Nat → Bytes} {e : Entry} {rest : List Entry} {its : List Bytes}
    (hc : RChain files (e :: rest) its) (hle : e.off ≤ (files e.fid).length) :
    ∃ files', repair true (e :: rest) files e.fid (files e.fid).length = some (e :: rest, files', e.fid, e.off) ∧
      RChain files' (e :: rest) its ∧ (files' e.fid).length = e.off := by
  by_cases heq : e.off = (files e.fid).length
  · exact ⟨files, by simp [repair, heq], hc, heq.symm⟩
  · have hlt : e.off < (files e.fid).length := by omega
    refine ⟨setFile files e.fid (setLen (files e.fid) e.off), by simp [repair, heq, hlt], ?_, ?_⟩
    · rw [setLen_of_le hle]
      exact RChain.modify_head e.off _ rfl (Nat.le_refl _) (Pres.take _ (Nat.le_refl _)) hc
    · rw [setFile_same, setLen_of_le hle]; simp; omega

/-- … and when the index additionally ends with one entry whose data is not (all) there -/
theorem repair_junk_entry {files : Nat → Bytes} {enew e : Entry} {rest : List Entry} {its : List Bytes}
    (hc : RChain files (e :: rest) its) (hle : e.off ≤ (files e.fid).length)
    (hshort : (files enew.fid).length < enew.off) :
    ∃ files', repair true (enew :: e :: rest) files enew.fid (files enew.fid).length =
        some (e :: rest, files', e.fid, e.off) ∧
      RChain files' (e :: rest) its ∧ (files' e.fid).length = e.off := by
  obtain ⟨files', h1, h2, h3⟩ := repair_junk_head hc hle
  refine ⟨files', ?_, h2, h3⟩
  have hne : ¬ enew.off = (files enew.fid).length := by omega
  have hnl : ¬ enew.off < (files enew.fid).length := by omega
  rw [repair]
  simp only [hne, hnl, if_false]
  by_cases hf : e.fid = enew.fid
  · simp only [hf, ne_eq, not_true_eq_false, if_false]
    rw [← hf]; exact h1
  · simp only [ne_eq, hf, not_false_eq_true, if_true]
    exact h1

/-- unfolding `openWith` once the repair loop's result is known -/
theorem openWith_of_repair {d : Disk} {last : Entry} {r : List Entry} {hd : Entry} {r' : List Entry}
    {files' : Nat → Bytes} {hf hs : Nat}
    (hne : d.idx.reverse = last :: r)
    (hrep : repair true (last :: r) d.files last.fid (d.files last.fid).length = some (hd :: r', files', hf, hs)) :
    ∃ h2, openWith true d = some (h2, { idx := (hd :: r').reverse, tail := 0, files := files' }) ∧
      h2.number = (hd :: r').length ∧ h2.headId = hd.fid ∧ h2.headBytes = hs := by
  have hemp : d.idx.isEmpty = false := by
    cases hd' : d.idx with
    | nil => simp [hd'] at hne
    | cons a l => rfl
  unfold openWith openIndex
  simp only [hemp, Bool.false_eq_true, if_false, hne, hrep]
  exact ⟨_, rfl, rfl, rfl, rfl⟩

/-- a disk whose index (reversed) is a good chain for `items`, with the head file possibly too
    long, re-opens to a good state for the same items -/
theorem open_junk_head {d : Disk} {e : Entry} {rest : List Entry} {items : List Bytes}
    (hne : d.idx.reverse = e :: rest)
    (hc : RChain d.files (e :: rest) items.reverse) (hle : e.off ≤ (d.files e.fid).length) :
    ∃ h2 d2, openWith true d = some (h2, d2) ∧ Good d2 items ∧ HandleOk h2 d2 := by
  obtain ⟨files', h1, h2, h3⟩ := repair_junk_head hc hle
  obtain ⟨hh, ho, hn, hi, hb⟩ := openWith_of_repair hne h1
  refine ⟨hh, _, ho, ⟨rfl, by simpa using h2, ?_⟩, ?_, ?_⟩
  · intro e' rest' hr'; simp at hr'; obtain ⟨rfl, _⟩ := hr'; exact h3
  · rw [hn]; simp
  · intro e' rest' hr'; simp at hr'; obtain ⟨rfl, _⟩ := hr'; exact ⟨hi, hb⟩

theorem open_junk_entry {d : Disk} {enew e : Entry} {rest : List Entry} {items : List Bytes}
    (hne : d.idx.reverse = enew :: e :: rest)
    (hc : RChain d.files (e :: rest) items.reverse) (hle : e.off ≤ (d.files e.fid).length)
    (hshort : (d.files enew.fid).length < enew.off) :
    ∃ h2 d2, openWith true d = some (h2, d2) ∧ Good d2 items ∧ HandleOk h2 d2 := by
  obtain ⟨files', h1, h2, h3⟩ := repair_junk_entry (enew := enew) hc hle hshort
  obtain ⟨hh, ho, hn, hi, hb⟩ := openWith_of_repair hne h1
  refine ⟨hh, _, ho, ⟨rfl, by simpa using h2, ?_⟩, ?_, ?_⟩
  · intro e' rest' hr'; simp at hr'; obtain ⟨rfl, _⟩ := hr'; exact h3
  · rw [hn]; simp
  · intro e' rest' hr'; simp at hr'; obtain ⟨rfl, _⟩ := hr'; exact ⟨hi, hb⟩

/-! ### crash cuts of an append -/

def cutOf (fl : Option Nat) (b : Bytes) : Bytes :=
  match fl with
  | none => []
  | some n => b.take n

theorem applyCut_files (d : Disk) (il fid : Nat) (fl : Option Nat) :
    (applyCut d il fid fl).files = setFile d.files fid (cutOf fl (d.files fid)) := by
  unfold applyCut Disk.cutIdx Disk.cutFile cutOf
  cases fl <;> (simp only []; split <;> rfl)

theorem applyCut_idx_full (d : Disk) (il fid : Nat) (fl : Option Nat) (h : il ≥ d.idxSize) :
    (applyCut d il fid fl).idx = d.idx := by
  unfold applyCut Disk.cutIdx Disk.cutFile
  cases fl <;> simp [h]

theorem setFile_setFile (f : Nat → Bytes) (id : Nat) (a b : Bytes) :
    setFile (setFile f id a) id b = setFile f id b := by
  funext k; unfold setFile; split <;> rfl

theorem cutOf_eq_of_length {fl : Option Nat} {b : Bytes} (h : b.length ≤ (cutOf fl b).length) :
    cutOf fl b = b := by
  cases fl with
  | none => simp [cutOf] at h ⊢; exact h
  | some n => simp only [cutOf, List.length_take] at h ⊢; exact List.take_of_length_le (by omega)

theorem entry_size_pos : 0 < INDEX_ENTRY_SIZE := by decide

theorem applyCut_idx_partial (d : Disk) (L il fid : Nat) (fl : Option Nat) (ht : d.tail = 0)
    (hL : d.idx.length = L + 1) (h1 : INDEX_ENTRY_SIZE * L ≤ il) (h2 : il < INDEX_ENTRY_SIZE * (L + 1)) :
    (applyCut d il fid fl).idx = d.idx.take L := by
  have hsz : ¬ il ≥ d.idxSize := by unfold Disk.idxSize; rw [ht, hL]; omega
  have hdiv : il / INDEX_ENTRY_SIZE = L := by
    apply Nat.div_eq_of_lt_le
    · rw [Nat.mul_comm]; exact h1
    · rw [Nat.mul_comm]; exact h2
  unfold applyCut Disk.cutIdx Disk.cutFile
  cases fl <;> simp [hsz, hdiv]

/-- **Crash during an append.**  `d` holds `items`; `append x` is cut short: the index is left at
    any byte length `il` from its pre-append size upwards, the data file being written at any
    length (`fl`; `none` = a freshly created head file is missing), except that in the same-file
    case the bytes of earlier items are durable.  Re-opening succeeds and yields `items` or
    `items ++ [x]` — the latter whenever the index entry and the data are fully there. -/
theorem crash_cut_open_aux {max : Nat} {h : Handle} {d : Disk} {items : List Bytes} (x : Bytes)
    (g : Good d items) (hk : HandleOk h d) (il : Nat) (fl : Option Nat)
    (hil : d.idxSize ≤ il)
    (hfl : ∀ m, fl = some m → ¬ (h.headBytes + x.length > max) → h.headBytes ≤ m)
    (hfl' : fl = none → h.headBytes + x.length > max) :
    ∃ h2 d2, openWith true (applyCut (append max h d x).2 il (append max h d x).1.headId fl) = some (h2, d2) ∧
      HandleOk h2 d2 ∧ (Good d2 items ∨ Good d2 (items ++ [x])) ∧
      ((append max h d x).2.idxSize ≤ il → (∃ m, fl = some m ∧ (append max h d x).1.headBytes ≤ m) →
        Good d2 (items ++ [x])) := by
  obtain ⟨g', hk'⟩ := append_good_aux (max := max) x g hk
  obtain ⟨e, rest, hr⟩ := g.rev_ne_nil
  obtain ⟨hid, hb⟩ := hk.2 e rest hr
  have hlen := g.headLen e rest hr
  have hchain := g.chain
  rw [hr] at hchain
  have hL := g.idx_length
  -- shape of the appended disk
  generalize ha : append max h d x = a at g' hk' ⊢
  obtain ⟨h', d'⟩ := a
  simp only at g' hk' ⊢
  have hidx' : d'.idx = d.idx ++ [⟨h'.headId, h'.headBytes⟩] ∧ d'.tail = 0 ∧
      (h'.headId = (if h.headBytes + x.length > max then h.headId + 1 else h.headId)) ∧
      h'.headBytes = (if h.headBytes + x.length > max then 0 else h.headBytes) + x.length ∧
      d'.files = setFile d.files h'.headId ((if h.headBytes + x.length > max then [] else d.files h.headId) ++ x) := by
    unfold append at ha
    cases ha
    exact ⟨rfl, g.tail0, rfl, rfl, rfl⟩
  obtain ⟨hi1, hi2, hi3, hi4, hi5⟩ := hidx'
  have hrev' : d'.idx.reverse = ⟨h'.headId, h'.headBytes⟩ :: e :: rest := by
    rw [hi1]; simp [hr]
  -- the cut files: what the old chain needs is still there
  let F := (applyCut d' il h'.headId fl).files
  have hF : F = setFile d'.files h'.headId (cutOf fl (d'.files h'.headId)) := applyCut_files _ _ _ _
  have hold : RChain F (e :: rest) items.reverse ∧ e.off ≤ (F e.fid).length := by
    rw [hF]
    by_cases hroll : h.headBytes + x.length > max
    · have hne : e.fid ≠ h'.headId := by rw [hi3, if_pos hroll]; omega
      constructor
      · apply RChain.congr rfl _ hchain
        intro k hk2
        rw [setFile_other _ _ _ _ (by rw [hi3, if_pos hroll]; omega), hi5,
          setFile_other _ _ _ _ (by rw [hi3, if_pos hroll]; omega)]
      · rw [setFile_other _ _ _ _ hne, hi5, setFile_other _ _ _ _ hne, hlen]; exact Nat.le_refl _
    · have heq : h'.headId = e.fid := by rw [hi3, if_neg hroll]; exact hid
      have hfile : d'.files h'.headId = d.files e.fid ++ x := by
        rw [hi5, setFile_same, if_neg hroll, hid]
      cases hfl0 : fl with
      | none => exact absurd (hfl' hfl0) hroll
      | some m =>
        have hm := hfl m hfl0 hroll
        rw [heq] at hfile ⊢
        simp only [cutOf, hfile]
        have hfiles_eq : setFile d'.files e.fid ((d.files e.fid ++ x).take m) =
            setFile d.files e.fid ((d.files e.fid ++ x).take m) := by
          rw [hi5, heq, setFile_setFile]
        rw [hfiles_eq]
        constructor
        · apply RChain.modify_head e.off _ rfl (Nat.le_refl _) _ hchain
          intro s t y ht hrd
          exact readRange_take (readRange_append hrd) (by omega)
        · rw [setFile_same]; simp; omega
  by_cases hfull : d'.idxSize ≤ il
  · -- the index entry of `x` is on disk
    have hidxc : (applyCut d' il h'.headId fl).idx = d'.idx := applyCut_idx_full _ _ _ _ hfull
    have hrevc : (applyCut d' il h'.headId fl).idx.reverse = ⟨h'.headId, h'.headBytes⟩ :: e :: rest := by
      rw [hidxc, hrev']
    have hlen' := g'.headLen _ _ hrev'
    simp only at hlen'
    by_cases hdata : h'.headBytes ≤ (F h'.headId).length
    · -- and so is its data: the cut removed nothing
      have hsame : F = d'.files := by
        rw [hF]
        have : cutOf fl (d'.files h'.headId) = d'.files h'.headId := by
          apply cutOf_eq_of_length
          rw [hF, setFile_same] at hdata
          rw [hlen']; exact hdata
        rw [this]
        funext k
        unfold setFile; split
        · rename_i hk2; rw [hk2]
        · rfl
      have hc2 : RChain F (⟨h'.headId, h'.headBytes⟩ :: e :: rest) (items ++ [x]).reverse := by
        rw [hsame, ← hrev']; exact g'.chain
      obtain ⟨h2, d2, ho, hg, hh⟩ := open_junk_head (items := items ++ [x]) hrevc hc2 hdata
      exact ⟨h2, d2, ho, hh, Or.inr hg, fun _ _ => hg⟩
    · -- but (part of) its data is not
      have hshort : (F h'.headId).length < h'.headBytes := by omega
      obtain ⟨h2, d2, ho, hg, hh⟩ := open_junk_entry (items := items) hrevc hold.1 hold.2 hshort
      refine ⟨h2, d2, ho, hh, Or.inl hg, fun _ hd => ?_⟩
      exfalso
      obtain ⟨m, hm1, hm2⟩ := hd
      apply hdata
      rw [hF, setFile_same, hm1]
      simp only [cutOf, List.length_take, hlen']
      omega
  · -- the index entry of `x` is not (fully) on disk
    have hsz : d'.idxSize = INDEX_ENTRY_SIZE * (items.length + 1 + 1) := by
      unfold Disk.idxSize; rw [hi2, hi1]; simp [hL]
    have hsz0 : d.idxSize = INDEX_ENTRY_SIZE * (items.length + 1) := by
      unfold Disk.idxSize; rw [g.tail0, hL]; simp
    have hidxc : (applyCut d' il h'.headId fl).idx = d.idx := by
      rw [applyCut_idx_partial d' (items.length + 1) il _ fl hi2 (by rw [hi1]; simp [hL])
        (by rw [← hsz0]; exact hil) (by rw [← hsz]; omega)]
      rw [hi1, ← hL]; simp
    have hrevc : (applyCut d' il h'.headId fl).idx.reverse = e :: rest := by rw [hidxc, hr]
    obtain ⟨h2, d2, ho, hg, hh⟩ := open_junk_head (items := items) hrevc hold.1 hold.2
    exact ⟨h2, d2, ho, hh, Or.inl hg, fun hd _ => absurd hd hfull⟩

/-! ### arbitrary cuts: index at any entry count, head data file at any length -/

/-- The repair loop on a disk whose head data file `H` was cut to `m` bytes (all older files
    intact): it drops exactly the maximal run of newest entries whose data is (partly) missing —
    those in file `H` ending beyond `m` — and leaves a consistent disk for the rest. -/
theorem repair_cut {files : Nat → Bytes} {H m : Nat} :
    ∀ (rev : List Entry) (its : List Bytes), RChain files rev its → (∀ q ∈ rev, q.fid ≤ H) →
    ∀ (e : Entry) (rest : List Entry), rev = e :: rest →
    ∃ (j : Nat) (files' : Nat → Bytes) (e' : Entry) (rest' : List Entry),
      j ≤ its.length ∧ (∀ q ∈ rev.take j, q.fid = H ∧ m < q.off) ∧ rev.drop j = e' :: rest' ∧
      repair true rev (setFile files H ((files H).take m)) e.fid
        ((setFile files H ((files H).take m)) e.fid).length = some (e' :: rest', files', e'.fid, e'.off) ∧
      RChain files' (e' :: rest') (its.drop j) ∧ (files' e'.fid).length = e'.off ∧
      (e'.fid < H ∨ e'.off ≤ m)
  | [e0], [], hc, _, e, rest, hr => by
    cases hr
    simp only [RChain] at hc
    subst hc
    refine ⟨0, setFile (setFile files H ((files H).take m)) 0 [], ⟨0, 0⟩, [], Nat.le_refl _, ?_, rfl, ?_, ?_, ?_, ?_⟩
    · intro q hq; simp at hq
    · by_cases h0 : ((setFile files H ((files H).take m)) 0).length = 0
      · -- already empty: the loop returns the files unchanged; they agree with the emptied ones
        have hz : (setFile files H ((files H).take m)) 0 = [] := List.eq_nil_of_length_eq_zero h0
        have : setFile (setFile files H ((files H).take m)) 0 [] = setFile files H ((files H).take m) := by
          funext k; unfold setFile; split
          · rename_i hk; subst hk; exact hz.symm
          · rfl
        rw [this]
        simp [repair, h0]
      · have hpos : 0 < ((setFile files H ((files H).take m)) 0).length := Nat.pos_of_ne_zero h0
        have h0' : ¬ 0 = ((setFile files H ((files H).take m)) 0).length := fun h => h0 h.symm
        simp [repair, h0', hpos, setLen]
    · simp [RChain]
    · simp
    · exact Or.inr (Nat.zero_le _)
  | e :: p :: rest0, it :: its', hc, hH, e1, rest1, hr => by
    cases hr
    have hle := hc.1.off_le
    have hfe : e.fid ≤ H := hH e (by simp)
    -- is the newest entry's data complete?
    by_cases hdrop : e.fid = H ∧ m < e.off
    · -- no: drop it and continue with the previous entry
      have hsize : ((setFile files H ((files H).take m)) e.fid).length < e.off := by
        rw [hdrop.1, setFile_same, List.length_take]; omega
      have ih := repair_cut (files := files) (H := H) (m := m) (p :: rest0) its' hc.2
        (fun q hq => hH q (List.mem_cons_of_mem _ hq)) p rest0 rfl
      obtain ⟨j, files', e', rest', hj, hdropped, hdrop', hrep, hch, hlen, hkept⟩ := ih
      refine ⟨j + 1, files', e', rest', by simp; omega, ?_, by simpa using hdrop', ?_, by simpa using hch, hlen, hkept⟩
      · intro q hq
        simp only [List.take_succ_cons, List.mem_cons] at hq
        rcases hq with rfl | hq
        · exact hdrop
        · exact hdropped q hq
      · have hne : ¬ e.off = ((setFile files H ((files H).take m)) e.fid).length := by omega
        have hnl : ¬ e.off < ((setFile files H ((files H).take m)) e.fid).length := by omega
        rw [repair]
        simp only [hne, hnl, if_false]
        by_cases hf : p.fid = e.fid
        · simp only [hf, ne_eq, not_true_eq_false, if_false]
          rw [← hf]; exact hrep
        · simp only [ne_eq, hf, not_false_eq_true, if_true]
          exact hrep
    · -- yes: the loop stops here (cutting the head back to this entry's offset if it is longer)
      have hcomplete : e.fid < H ∨ e.off ≤ m := by
        rcases Nat.lt_or_ge e.fid H with h1 | h1
        · exact Or.inl h1
        · right
          have : e.fid = H := Nat.le_antisymm hfe h1
          rcases Nat.lt_or_ge m e.off with h2 | h2
          · exact absurd ⟨this, h2⟩ hdrop
          · exact h2
      -- the cut files still carry the whole chain
      have hchainF : RChain (setFile files H ((files H).take m)) (e :: p :: rest0) (it :: its') := by
        rcases hcomplete with h1 | h1
        · exact RChain.congr rfl (fun k hk => by rw [setFile_other]; omega) hc
        · by_cases hfe' : e.fid = H
          · rw [← hfe']
            exact RChain.modify_head e.off _ rfl (Nat.le_refl _) (Pres.take _ h1) hc
          · exact RChain.congr rfl (fun k hk => by rw [setFile_other]; omega) hc
      have hleF : e.off ≤ ((setFile files H ((files H).take m)) e.fid).length := by
        rcases hcomplete with h1 | h1
        · rw [setFile_other _ _ _ _ (by omega)]; exact hle
        · by_cases hfe' : e.fid = H
          · rw [hfe', setFile_same, List.length_take]; rw [hfe'] at hle; omega
          · rw [setFile_other _ _ _ _ hfe']; exact hle
      obtain ⟨files', h1, h2, h3⟩ := repair_junk_head hchainF hleF
      exact ⟨0, files', e, p :: rest0, Nat.zero_le _, by simp, rfl, h1, by simpa using h2, h3, hcomplete⟩

def cutLen (fl : Option Nat) : Nat :=
  match fl with
  | none => 0
  | some n => n

theorem cutOf_eq_take (fl : Option Nat) (b : Bytes) : cutOf fl b = b.take (cutLen fl) := by
  cases fl <;> simp [cutOf, cutLen]

theorem applyCut_idx_take (d : Disk) (il fid : Nat) (fl : Option Nat) (ht : d.tail = 0) :
    (applyCut d il fid fl).idx = d.idx.take (il / INDEX_ENTRY_SIZE) := by
  by_cases h : il ≥ d.idxSize
  · rw [applyCut_idx_full _ _ _ _ h]
    symm
    apply List.take_of_length_le
    unfold Disk.idxSize at h
    rw [ht] at h
    have hp := entry_size_pos
    rw [Nat.le_div_iff_mul_le hp, Nat.mul_comm]
    omega
  · unfold applyCut Disk.cutIdx Disk.cutFile
    cases fl <;> simp [h]

/-- **Any crash cut.**  `d` holds `items`.  The index file is cut to `il` bytes (at least the
    default entry survives) and the head data file to `cutLen fl` bytes, older data files being
    intact.  Re-opening succeeds and yields a prefix `items.take n`; every item whose index entry
    and data both survived the cut is in that prefix. -/
theorem crash_any_cut_aux {h : Handle} {d : Disk} {items : List Bytes}
    (g : Good d items) (hk : HandleOk h d) (il : Nat) (fl : Option Nat)
    (hil : INDEX_ENTRY_SIZE ≤ il) :
    ∃ h2 d2 n, openWith true (applyCut d il h.headId fl) = some (h2, d2) ∧ HandleOk h2 d2 ∧
      n ≤ items.length ∧ Good d2 (items.take n) ∧
      (∀ i e, i < items.length → d.idx[i + 1]? = some e → INDEX_ENTRY_SIZE * (i + 2) ≤ il →
        (e.fid < h.headId ∨ e.off ≤ cutLen fl) → i < n) := by
  obtain ⟨e0, rest0, hr⟩ := g.rev_ne_nil
  obtain ⟨hid, _⟩ := hk.2 e0 rest0 hr
  have hL := g.idx_length
  have hp := entry_size_pos
  -- how many index entries survive
  let K := min (il / INDEX_ENTRY_SIZE) d.idx.length
  have hK1 : 1 ≤ K := by
    have : 1 ≤ il / INDEX_ENTRY_SIZE := by rw [Nat.le_div_iff_mul_le hp]; omega
    show 1 ≤ min _ _; omega
  have hK2 : K ≤ d.idx.length := Nat.min_le_right _ _
  have hidx : (applyCut d il h.headId fl).idx = d.idx.take K := by
    rw [applyCut_idx_take _ _ _ _ g.tail0]
    show _ = d.idx.take (min _ _)
    rw [List.take_eq_take_min]
  have hfiles : (applyCut d il h.headId fl).files =
      setFile d.files h.headId ((d.files h.headId).take (cutLen fl)) := by
    rw [applyCut_files, cutOf_eq_take]
  -- the surviving chain
  let c := d.idx.length - K
  have hc : c ≤ items.length := by show d.idx.length - K ≤ _; omega
  have hrevK : (d.idx.take K).reverse = d.idx.reverse.drop c := by
    rw [List.reverse_take]
  have hchainK : RChain d.files (d.idx.reverse.drop c) (items.reverse.drop c) :=
    RChain.drop c (by simpa using hc) g.chain
  have hfids : ∀ q ∈ d.idx.reverse.drop c, q.fid ≤ h.headId := by
    intro q hq
    have hq' : q ∈ d.idx.reverse := List.mem_of_mem_drop hq
    rw [hr] at hq'
    have hchain := g.chain
    rw [hr] at hchain
    rcases List.mem_cons.mp hq' with rfl | hq''
    · omega
    · have := RChain.fid_le rfl hchain q hq''; omega
  obtain ⟨e, rest, hne⟩ : ∃ e rest, d.idx.reverse.drop c = e :: rest := by
    have hlen : (d.idx.reverse.drop c).length = K := by simp; show d.idx.length - (d.idx.length - K) = K; omega
    match hm : d.idx.reverse.drop c with
    | [] => rw [hm] at hlen; simp at hlen; omega
    | e :: rest => exact ⟨e, rest, rfl⟩
  obtain ⟨j, files', e', rest', hj, hdropped, hdrop, hrep, hch, hlen', hkept⟩ :=
    repair_cut (H := h.headId) (m := cutLen fl) _ _ hchainK hfids e rest hne
  have hrevc : (applyCut d il h.headId fl).idx.reverse = e :: rest := by
    rw [hidx, hrevK, hne]
  rw [hne] at hrep
  rw [← hfiles] at hrep
  obtain ⟨hh, ho, hn, hi, hb⟩ := openWith_of_repair hrevc hrep
  -- the surviving items
  have hitems : (items.reverse.drop c).drop j = (items.take (items.length - (c + j))).reverse := by
    rw [List.drop_drop, List.drop_reverse]
  have hjle : j ≤ items.length - c := by simpa using hj
  refine ⟨hh, _, items.length - (c + j), ho, ?_, by omega, ⟨rfl, ?_, ?_⟩, ?_⟩
  · refine ⟨by rw [hn]; simp, ?_⟩
    intro e'' rest'' hr''; simp at hr''; obtain ⟨rfl, _⟩ := hr''; exact ⟨hi, hb⟩
  · show RChain files' ((e' :: rest').reverse).reverse _
    rw [List.reverse_reverse, ← hitems]; exact hch
  · intro e'' rest'' hr''; simp at hr''; obtain ⟨rfl, _⟩ := hr''; exact hlen'
  · -- every fully surviving item is kept
    intro i ei hi1 hei hil' hcomplete
    rcases Nat.lt_or_ge i (items.length - (c + j)) with hlt | hge
    · exact hlt
    · exfalso
      -- entry i+1 is inside the kept index …
      have hiK : i + 2 ≤ K := by
        have : i + 2 ≤ il / INDEX_ENTRY_SIZE := by
          rw [Nat.le_div_iff_mul_le hp, Nat.mul_comm]; exact hil'
        show i + 2 ≤ min _ _; omega
      -- … and among the `j` dropped entries, which are all incomplete
      have hmem : ei ∈ (d.idx.reverse.drop c).take j := by
        rw [List.mem_iff_getElem?]
        refine ⟨d.idx.length - c - 1 - (i + 1), ?_⟩
        have hlt2 : d.idx.length - c - 1 - (i + 1) < j := by
          show d.idx.length - (d.idx.length - K) - 1 - (i + 1) < j
          have : c = d.idx.length - K := rfl
          omega
        rw [List.getElem?_take]
        simp only [hlt2, if_true]
        rw [List.getElem?_drop, List.getElem?_reverse (by
          show (d.idx.length - K) + _ < _; omega)]
        have : d.idx.length - 1 - (c + (d.idx.length - c - 1 - (i + 1))) = i + 1 := by
          show d.idx.length - 1 - ((d.idx.length - K) + (d.idx.length - (d.idx.length - K) - 1 - (i + 1))) = i + 1
          omega
        rw [this]; exact hei
      have := hdropped ei hmem
      rcases hcomplete with h1 | h1 <;> omega

end CkbVerif.Freezer
