/-
C11 helper lemmas, part 9: the eviction order of `limit_size` (`EvictKey`), exact fee accounting of
`add_entry` with evictions (RBF), and the ancestor-limit decision of `check_and_record_ancestors`.
-/
import CkbVerif.Lemmas.PoolRbf
namespace CkbVerif.Pool
open CkbVerif.C11

/-! ## `EvictKey::cmp`: a strict weak order on (fee_rate, descendants_count, timestamp) -/

theorem keyLt_iff (a b : Nat × Nat × Nat) :
    keyLt a b = true ↔ a.1 < b.1 ∨ (a.1 = b.1 ∧ (a.2.1 < b.2.1 ∨ (a.2.1 = b.2.1 ∧ a.2.2 < b.2.2))) := by
  simp [keyLt]

theorem keyLt_irrefl (a : Nat × Nat × Nat) : keyLt a a = false := by
  rw [← Bool.not_eq_true, keyLt_iff]; omega

theorem keyLt_trans {a b c : Nat × Nat × Nat} (h1 : keyLt a b = true) (h2 : keyLt b c = true) : keyLt a c = true := by
  rw [keyLt_iff] at *; omega

theorem keyLt_asymm {a b : Nat × Nat × Nat} (h1 : keyLt a b = true) : keyLt b a = false := by
  rw [← Bool.not_eq_true]; rw [keyLt_iff] at *; omega

/-- negative transitivity: "not below" is transitive (the order is a strict weak order) -/
theorem keyLt_neg_trans {a b c : Nat × Nat × Nat} (h1 : keyLt a b = false) (h2 : keyLt b c = false) :
    keyLt a c = false := by
  rw [← Bool.not_eq_true] at *; rw [keyLt_iff] at *; omega

/-- the order is total on keys: two keys neither of which is below the other are equal -/
theorem keyLt_total {a b : Nat × Nat × Nat} (h1 : keyLt a b = false) (h2 : keyLt b a = false) : a = b := by
  rw [← Bool.not_eq_true] at *; rw [keyLt_iff] at *
  obtain ⟨a1, a2, a3⟩ := a
  obtain ⟨b1, b2, b3⟩ := b
  simp only [Prod.mk.injEq] at *
  omega

/-- ascending by evict key (ties allowed) -/
def EvSorted (l : List Entry) : Prop := l.Pairwise fun a b => keyLt (evictKey b) (evictKey a) = false

theorem insertSorted_perm (e : Entry) (l : List Entry) : (insertSorted e l).Perm (e :: l) := by
  induction l with
  | nil => exact List.Perm.refl _
  | cons x l ih =>
    unfold insertSorted
    split
    · exact List.Perm.refl _
    · exact (List.Perm.cons x ih).trans (List.Perm.swap e x l)

theorem insertSorted_sorted (e : Entry) (l : List Entry) (h : EvSorted l) : EvSorted (insertSorted e l) := by
  induction l with
  | nil => exact List.pairwise_singleton _ _
  | cons x l ih =>
    have hx := List.pairwise_cons.mp h
    unfold insertSorted
    split
    · rename_i hlt
      refine List.pairwise_cons.mpr ⟨?_, h⟩
      intro y hy
      rcases List.mem_cons.mp hy with rfl | hy
      · exact keyLt_asymm hlt
      · have := hx.1 y hy
        cases hye : keyLt (evictKey y) (evictKey e) with
        | false => rfl
        | true => rw [keyLt_trans hye hlt] at this; cases this
    · rename_i hlt
      refine List.pairwise_cons.mpr ⟨?_, ih hx.2⟩
      intro y hy
      rcases List.mem_cons.mp ((insertSorted_perm e l).mem_iff.mp hy) with rfl | hy
      · simpa using hlt
      · exact hx.1 y hy

theorem foldInsert_spec (es acc : List Entry) (h : EvSorted acc) :
    (es.foldl (fun acc e => insertSorted e acc) acc).Perm (es ++ acc) ∧
    EvSorted (es.foldl (fun acc e => insertSorted e acc) acc) := by
  induction es generalizing acc with
  | nil => exact ⟨List.Perm.refl _, h⟩
  | cons a l ih =>
    simp only [List.foldl_cons]
    obtain ⟨h1, h2⟩ := ih (insertSorted a acc) (insertSorted_sorted a acc h)
    refine ⟨h1.trans ?_, h2⟩
    refine ((List.Perm.append_left l (insertSorted_perm a acc)).trans ?_)
    simp only [List.cons_append]
    exact List.perm_middle

/-- (1a) `iter_by_evict_key()`: the iteration order is a permutation of the entries, ascending by
    `EvictKey` — no later element has a key strictly below an earlier one. -/
theorem byEvictKey_sorted (es : List Entry) :
    (byEvictKey es).Perm es ∧
    (byEvictKey es).Pairwise fun a b => keyLt (evictKey b) (evictKey a) = false := by
  obtain ⟨h1, h2⟩ := foldInsert_spec es [] List.Pairwise.nil
  exact ⟨by unfold byEvictKey; simpa using h1, h2⟩

theorem mem_byEvictKey (es : List Entry) (x : Entry) : x ∈ byEvictKey es ↔ x ∈ es :=
  (byEvictKey_sorted es).1.mem_iff

/-- (1b) `next_evict_entry(status)` returns a pooled entry of that status whose `EvictKey` is minimal
    among the entries of that status. -/
theorem nextEvict_min (s : Pool) (st : Status) (id : Nat) (h : nextEvict s st = some id) :
    ∃ e ∈ s.entries, e.tx.id = id ∧ e.status = st ∧
      ∀ x ∈ s.entries, x.status = st → keyLt (evictKey x) (evictKey e) = false := by
  unfold nextEvict at h
  obtain ⟨e, hf, rfl⟩ := Option.map_eq_some_iff.mp h
  obtain ⟨hp, as, bs, hl, has⟩ := List.find?_eq_some_iff_append.mp hf
  have hmem : e ∈ s.entries := (mem_byEvictKey _ _).mp (by rw [hl]; simp)
  refine ⟨e, hmem, rfl, by simpa using hp, ?_⟩
  intro x hx hxs
  have hx' := (mem_byEvictKey _ _).mpr hx
  have hsorted := (byEvictKey_sorted s.entries).2
  rw [hl] at hx' hsorted
  rcases List.mem_append.mp hx' with hx' | hx'
  · have := has x hx'; simp [hxs] at this
  · rcases List.mem_cons.mp hx' with rfl | hx'
    · exact keyLt_irrefl _
    · exact (List.pairwise_cons.mp (List.pairwise_append.mp hsorted).2.1).1 x hx'

/-- (1b) `next_evict_entry(status)` is `None` exactly when no entry has that status. -/
theorem nextEvict_none_iff (s : Pool) (st : Status) :
    nextEvict s st = none ↔ ∀ x ∈ s.entries, x.status ≠ st := by
  unfold nextEvict
  rw [Option.map_eq_none_iff, List.find?_eq_none]
  constructor
  · intro h x hx; simpa using h x ((mem_byEvictKey _ _).mpr hx)
  · intro h x hx; simpa using h x ((mem_byEvictKey _ _).mp hx)

theorem nextEvict_some_pooled {s : Pool} {st : Status} {id : Nat} (h : nextEvict s st = some id) :
    (getEntry s id).isSome := by
  obtain ⟨e, he, hid, _⟩ := nextEvict_min s st id h
  unfold getEntry
  rw [List.find?_isSome]
  exact ⟨e, he, by simpa using hid⟩

/-! ## `limit_size` -/

/-- the victim `limit_size` picks: the cheapest pending entry, else the cheapest gap entry, else the
    cheapest proposed entry -/
def limitVictim (s : Pool) : Option Nat :=
  (nextEvict s .pending).orElse fun _ => (nextEvict s .gap).orElse fun _ => nextEvict s .proposed

/-- the victim order: pending before gap before proposed -/
theorem limitVictim_spec (s : Pool) (id : Nat) :
    limitVictim s = some id ↔
      nextEvict s .pending = some id ∨
      (nextEvict s .pending = none ∧ nextEvict s .gap = some id) ∨
      (nextEvict s .pending = none ∧ nextEvict s .gap = none ∧ nextEvict s .proposed = some id) := by
  unfold limitVictim
  cases nextEvict s .pending <;> cases nextEvict s .gap <;> cases nextEvict s .proposed <;> simp

/-- no victim ⇔ the pool is empty -/
theorem limitVictim_none_iff (s : Pool) : limitVictim s = none ↔ s.entries = [] := by
  have hp := nextEvict_none_iff s .pending
  have hg := nextEvict_none_iff s .gap
  have hr := nextEvict_none_iff s .proposed
  unfold limitVictim
  constructor
  · intro h
    have h3 : nextEvict s .pending = none ∧ nextEvict s .gap = none ∧ nextEvict s .proposed = none := by
      revert h
      cases nextEvict s .pending <;> cases nextEvict s .gap <;> cases nextEvict s .proposed <;> simp
    cases hes : s.entries with
    | nil => rfl
    | cons x l =>
      have hx : x ∈ s.entries := by rw [hes]; exact List.mem_cons_self
      cases hxs : x.status
      · exact absurd hxs (hp.mp h3.1 x hx)
      · exact absurd hxs (hg.mp h3.2.1 x hx)
      · exact absurd hxs (hr.mp h3.2.2 x hx)
  · intro h
    rw [h] at hp hg hr
    rw [hp.mpr (by simp), hg.mpr (by simp), hr.mpr (by simp)]
    rfl

theorem limitVictim_pooled {s : Pool} {id : Nat} (h : limitVictim s = some id) : (getEntry s id).isSome := by
  rcases (limitVictim_spec s id).mp h with h | ⟨_, h⟩ | ⟨_, _, h⟩ <;> exact nextEvict_some_pooled h

/-- (1c) `limit_size` does nothing to a pool within its size limit. -/
theorem limitSize_noop (s : Pool) (h : s.totalSize ≤ s.cfg.maxSize) : limitSize s = (s, []) := by
  unfold limitSize limitLoop
  rw [if_neg (by omega)]

/-- (1c) one round of `limit_size`: while the pool is over its size limit the victim (`limitVictim`:
    cheapest pending, else cheapest gap, else cheapest proposed — `limitVictim_spec`, `nextEvict_min`) leaves
    with its descendants and the loop goes on from the resulting state; the loop stops when the pool fits or
    no victim is left. -/
theorem limitSize_victim_order (f : Nat) (s : Pool) (ev : List Nat) :
    limitLoop (f + 1) s ev =
      if s.totalSize > s.cfg.maxSize then
        match limitVictim s with
        | some id => limitLoop f (removeWithDesc s id).1 (ev ++ idsOf (removeWithDesc s id).2)
        | none => (s, ev)
      else (s, ev) := rfl

theorem entries_length_edge (s : Pool) : s.entries.length = (edge s).cores.length := by
  simp [edge]

theorem mem_rmdIds_self (s : Pool) (id : Nat) : id ∈ rmdIds s id := List.mem_cons_self

/-- `remove_entry_and_descendants` of a pooled id strictly shrinks the pool -/
theorem removeWithDesc_length_lt (s : Pool) (id : Nat) (h : (getEntry s id).isSome) :
    (removeWithDesc s id).1.entries.length < s.entries.length := by
  rw [entries_length_edge, entries_length_edge, edge_removeWithDesc, foldRm_cores]
  apply List.length_filter_lt_length_iff_exists.mpr
  obtain ⟨e, he⟩ := Option.isSome_iff_exists.mp h
  obtain ⟨hm, hid⟩ := getEntry_some he
  refine ⟨e.core, List.mem_map.mpr ⟨e, hm, rfl⟩, ?_⟩
  have : e.core.1.id = id := hid
  simp [this, mem_rmdIds_self]

theorem edgeOK_rmd {s : Pool} (h : EdgeOK (edge s)) (id : Nat) : EdgeOK (edge (removeWithDesc s id).1) := by
  rw [edge_removeWithDesc]; exact h.reach (EReach.foldRm _ _)

theorem limitLoop_fits (f : Nat) (s : Pool) (ev : List Nat) (hf : s.entries.length < f) :
    (limitLoop f s ev).1.totalSize ≤ (limitLoop f s ev).1.cfg.maxSize ∨ (limitLoop f s ev).1.entries = [] := by
  induction f generalizing s ev with
  | zero => omega
  | succ f ih =>
    rw [limitSize_victim_order]
    split
    · cases hv : limitVictim s with
      | none => exact Or.inr ((limitVictim_none_iff s).mp hv)
      | some id =>
        have := removeWithDesc_length_lt s id (limitVictim_pooled hv)
        exact ih _ _ (by omega)
    · left; show s.totalSize ≤ s.cfg.maxSize; omega

/-- (1c) the fuel of `limit_size` is always enough: the result fits the size limit, or the pool is empty
    (then `total_tx_size` is 0 under `EdgeOK`: see `limitSize_fits`). -/
theorem limitSize_fits' (s : Pool) :
    (limitSize s).1.totalSize ≤ (limitSize s).1.cfg.maxSize ∨ (limitSize s).1.entries = [] :=
  limitLoop_fits _ s [] (Nat.lt_succ_self _)

theorem limitLoop_edgeOK (f : Nat) (s : Pool) (ev : List Nat) (h : EdgeOK (edge s)) :
    EdgeOK (edge (limitLoop f s ev).1) := h.reach (edge_limitLoop f s ev)

theorem limitLoop_cfg (f : Nat) (s : Pool) (ev : List Nat) : (limitLoop f s ev).1.cfg = s.cfg := by
  induction f generalizing s ev with
  | zero => rfl
  | succ f ih =>
    rw [limitSize_victim_order]
    split
    · split
      · rw [ih, removeWithDesc_cfg]
      · rfl
    · rfl

/-- (1c) under the edge invariant the pool always fits after `limit_size` (an empty pool has size 0). -/
theorem limitSize_fits (s : Pool) (h : EdgeOK (edge s)) : (limitSize s).1.totalSize ≤ s.cfg.maxSize := by
  have hc : (limitSize s).1.cfg = s.cfg := limitLoop_cfg _ _ _
  rcases limitSize_fits' s with h1 | h1
  · rw [hc] at h1; exact h1
  · have := (limitLoop_edgeOK (s.entries.length + 1) s [] h).size
    have h0 : (limitSize s).1.totalSize = 0 := by
      unfold limitSize at h1 ⊢
      simp only [edge, h1] at this
      simpa using this
    omega

/-! ## exact accounting of `add_entry` with evictions -/

/-- the total fee of the pool -/
def poolFee' (s : Pool) : Nat := (s.entries.map (·.tx.fee)).sum

theorem idsOf_eq_cores (s : Pool) : idsOf s.entries = (edge s).cores.map (·.1.id) := by
  simp only [idsOf, edge, List.map_map]; rfl

theorem idsOf_eq_txs (s : Pool) : idsOf s.entries = (txs s).map (·.id) := by
  simp only [idsOf, txs, List.map_map]; rfl

theorem mem_idsOf_iff (s : Pool) (y : Nat) : y ∈ idsOf s.entries ↔ (getEntry s y).isSome := by
  unfold getEntry idsOf
  rw [List.find?_isSome, List.mem_map]
  constructor
  · rintro ⟨e, he, rfl⟩; exact ⟨e, he, by simp⟩
  · rintro ⟨e, he, h⟩; exact ⟨e, he, by simpa using h⟩

theorem idsOf_removeEntry (s : Pool) (a : Nat) :
    idsOf (removeEntry s a).1.entries = (idsOf s.entries).filter (· ≠ a) := by
  rw [idsOf_eq_cores, edge_removeEntry, rmV_cores, idsOf_eq_cores, List.filter_map]
  rfl

/-- the removal fold of `remove_entry_and_descendants` -/
def rmFold (D : List Nat) (s : Pool) (acc : List Entry) : Pool × List Entry :=
  D.foldl (fun (acc : Pool × List Entry) rid =>
    match removeEntry acc.1 rid with
    | (s', some e) => (s', acc.2 ++ [e])
    | (s', none) => (s', acc.2)) (s, acc)

theorem rmFold_cons (a : Nat) (D : List Nat) (s : Pool) (acc : List Entry) :
    rmFold (a :: D) s acc = rmFold D (removeEntry s a).1
      (match (removeEntry s a).2 with | some e => acc ++ [e] | none => acc) := by
  unfold rmFold
  simp only [List.foldl_cons]
  rcases removeEntry s a with ⟨s', oe⟩
  cases oe <;> rfl

/-- the entries the removal fold returns: every listed id that is pooled, once -/
theorem rmFold_ids (D : List Nat) (s : Pool) (acc : List Entry)
    (hnd : (idsOf acc).Nodup) (hdis : ∀ y ∈ idsOf acc, y ∉ idsOf s.entries) :
    (idsOf (rmFold D s acc).2).Nodup ∧
    ∀ y, y ∈ idsOf (rmFold D s acc).2 ↔ y ∈ idsOf acc ∨ (y ∈ D ∧ y ∈ idsOf s.entries) := by
  induction D generalizing s acc with
  | nil => exact ⟨hnd, fun y => by simp [rmFold]⟩
  | cons a l ih =>
    rw [rmFold_cons, removeEntry_snd]
    have hids := idsOf_removeEntry s a
    cases hg : getEntry s a with
    | none =>
      simp only
      have hna : a ∉ idsOf s.entries := by rw [mem_idsOf_iff, hg]; simp
      rw [removeEntry_none s a hg]
      obtain ⟨h1, h2⟩ := ih s acc hnd hdis
      refine ⟨h1, fun y => ?_⟩
      rw [h2 y, List.mem_cons]
      constructor
      · rintro (h | ⟨h, h'⟩)
        · exact Or.inl h
        · exact Or.inr ⟨Or.inr h, h'⟩
      · rintro (h | ⟨h | h, h'⟩)
        · exact Or.inl h
        · subst h; exact absurd h' hna
        · exact Or.inr ⟨h, h'⟩
    | some e =>
      simp only
      have hea : e.tx.id = a := (getEntry_some hg).2
      have ha : a ∈ idsOf s.entries := by rw [mem_idsOf_iff, hg]; rfl
      have hacc : idsOf (acc ++ [e]) = idsOf acc ++ [a] := by simp [idsOf, hea]
      have hnd' : (idsOf (acc ++ [e])).Nodup := by
        rw [hacc]
        refine List.nodup_append.mpr ⟨hnd, (by simp), ?_⟩
        intro x hx y hy
        rw [List.mem_singleton.mp hy]
        rintro rfl
        exact hdis x hx ha
      have hdis' : ∀ y ∈ idsOf (acc ++ [e]), y ∉ idsOf (removeEntry s a).1.entries := by
        intro y hy
        rw [hids, List.mem_filter]
        rw [hacc] at hy
        rcases List.mem_append.mp hy with hy | hy
        · exact fun h => hdis y hy h.1
        · rw [List.mem_singleton.mp hy]; simp
      obtain ⟨h1, h2⟩ := ih (removeEntry s a).1 (acc ++ [e]) hnd' hdis'
      refine ⟨h1, fun y => ?_⟩
      rw [h2 y, hacc, hids, List.mem_filter, List.mem_append, List.mem_singleton, List.mem_cons]
      simp only [ne_eq, decide_not, Bool.not_eq_eq_eq_not, Bool.not_true, decide_eq_false_iff_not]
      constructor
      · rintro ((h | h) | ⟨h, h', _⟩)
        · exact Or.inl h
        · exact Or.inr ⟨Or.inl h, h ▸ ha⟩
        · exact Or.inr ⟨Or.inr h, h'⟩
      · rintro (h | ⟨h | h, h'⟩)
        · exact Or.inl (Or.inl h)
        · exact Or.inl (Or.inr h)
        · by_cases hya : y = a
          · exact Or.inl (Or.inr hya)
          · exact Or.inr ⟨h, h', hya⟩

/-- the entries `remove_entry_and_descendants` returns: every id of the removal set that is pooled, once -/
theorem removeWithDesc_ids (s : Pool) (id : Nat) :
    (idsOf (removeWithDesc s id).2).Nodup ∧
    ∀ y, y ∈ idsOf (removeWithDesc s id).2 ↔ y ∈ rmdIds s id ∧ y ∈ idsOf s.entries := by
  have hE : ∀ s0 : Pool, edge s0 = edge s → idsOf s0.entries = idsOf s.entries := by
    intro s0 h; rw [idsOf_eq_cores, h, ← idsOf_eq_cores]
  have key : ∀ s0 : Pool, edge s0 = edge s → ∀ L,
      (idsOf (rmFold (rmdIds s id) { s0 with links := L } []).2).Nodup ∧
      ∀ y, y ∈ idsOf (rmFold (rmdIds s id) { s0 with links := L } []).2 ↔ y ∈ rmdIds s id ∧ y ∈ idsOf s.entries := by
    intro s0 h0 L
    obtain ⟨h1, h2⟩ := rmFold_ids (rmdIds s id) { s0 with links := L } [] List.nodup_nil (by simp [idsOf])
    refine ⟨h1, fun y => ?_⟩
    rw [h2 y, hE { s0 with links := L } ((edge_links s0 L).trans h0)]
    simp [idsOf]
  unfold removeWithDesc
  simp only
  split
  · exact key _ (edge_preSub s _) _
  · exact key s rfl _

/-- the transactions `remove_entry_and_descendants` leaves, in terms of the entries it returns -/
theorem removeWithDesc_txs' (s : Pool) (id : Nat) :
    txs (removeWithDesc s id).1 = (txs s).filter (·.id ∉ idsOf (removeWithDesc s id).2) := by
  rw [removeWithDesc_txs]
  apply List.filter_congr
  intro x hx
  have hp : x.id ∈ idsOf s.entries := by rw [idsOf_eq_txs]; exact List.mem_map.mpr ⟨x, hx, rfl⟩
  have := (removeWithDesc_ids s id).2 x.id
  by_cases h : x.id ∈ rmdIds s id
  · have h' := this.mpr ⟨h, hp⟩; simp [h, h']
  · have h' : x.id ∉ idsOf (removeWithDesc s id).2 := fun hh => h (this.mp hh).1
    simp [h, h']

theorem filter_notMem_append (l : List Tx) (a b : List Nat) :
    (l.filter (·.id ∉ a)).filter (·.id ∉ b) = l.filter (·.id ∉ a ++ b) := by
  rw [List.filter_filter]
  apply List.filter_congr
  intro x _
  by_cases h1 : x.id ∈ a <;> by_cases h2 : x.id ∈ b <;> simp [h1, h2]

/-- the eviction loop of `check_and_record_ancestors`: the reported list is duplicate-free, consists of
    pooled ids, and the surviving transactions are exactly the old ones outside it -/
theorem evictLoop_txs (cands : List Nat) (s0 s : Pool) (cnt : Nat) (parents ev : List Nat)
    (htx : txs s = (txs s0).filter (·.id ∉ ev)) (hnd : ev.Nodup) (hin : ∀ y ∈ ev, y ∈ idsOf s0.entries) :
    txs (evictLoop cands s cnt parents ev).1 = (txs s0).filter (·.id ∉ (evictLoop cands s cnt parents ev).2.2.2) ∧
    (evictLoop cands s cnt parents ev).2.2.2.Nodup ∧
    ∀ y ∈ (evictLoop cands s cnt parents ev).2.2.2, y ∈ idsOf s0.entries := by
  induction cands generalizing s cnt parents ev with
  | nil => exact ⟨htx, hnd, hin⟩
  | cons c l ih =>
    unfold evictLoop
    split
    · obtain ⟨hE1, hE2⟩ := removeWithDesc_ids s c
      have hsub : ∀ y ∈ idsOf (removeWithDesc s c).2, ∃ x ∈ txs s, x.id = y := by
        intro y hy
        have := ((hE2 y).mp hy).2
        rw [idsOf_eq_txs] at this
        exact List.mem_map.mp this
      apply ih
      · rw [removeWithDesc_txs', htx, filter_notMem_append]
      · refine List.nodup_append.mpr ⟨hnd, hE1, ?_⟩
        intro a ha b hb
        obtain ⟨x, hx, rfl⟩ := hsub b hb
        rw [htx] at hx
        rintro rfl
        simpa [ha] using (List.mem_filter.mp hx).2
      · intro y hy
        rcases List.mem_append.mp hy with hy | hy
        · exact hin y hy
        · obtain ⟨x, hx, rfl⟩ := hsub y hy
          rw [htx] at hx
          rw [idsOf_eq_txs]
          exact List.mem_map.mpr ⟨x, (List.mem_filter.mp hx).1, rfl⟩
    · exact ⟨htx, hnd, hin⟩

/-- what `check_and_record_ancestors` guarantees for the accounting -/
def AncGoodT (s : Pool) (e : Entry) : AncRes → Prop
  | .ok s' e' ev => ev.Nodup ∧ (∀ y ∈ ev, y ∈ idsOf s.entries) ∧ txs s' = (txs s).filter (·.id ∉ ev) ∧ e'.tx = e.tx
  | _ => True

theorem recordAncestors_goodT {s s0 : Pool} (e : Entry) (a p ev : List Nat)
    (hs : ev.Nodup ∧ (∀ y ∈ ev, y ∈ idsOf s0.entries) ∧ txs s = (txs s0).filter (·.id ∉ ev)) :
    AncGoodT s0 e (match recordAncestors s e a p with
      | some (s', e') => AncRes.ok s' e' ev
      | none => AncRes.panic s) := by
  cases hr : recordAncestors s e a p with
  | none => trivial
  | some r =>
    obtain ⟨s', e'⟩ := r
    obtain ⟨x, _, z⟩ := recordAncestors_txs hr
    exact ⟨hs.1, hs.2.1, by rw [x]; exact hs.2.2, z⟩

theorem checkAnc_txs (s : Pool) (e : Entry) : AncGoodT s e (checkAndRecordAncestors s e) := by
  have h0 : txs s = (txs s).filter (·.id ∉ ([] : List Nat)) := (List.filter_eq_self.mpr (by simp)).symm
  unfold checkAndRecordAncestors
  simp only
  split
  · exact recordAncestors_goodT e _ _ _ ⟨List.nodup_nil, by simp, h0⟩
  · split
    · have hl := evictLoop_txs
        (((byEvictKey s.entries).filter (·.tx.id ∈ (txAncestors s e.tx).2.2)).map (·.tx.id)) s s
        ((txAncestors s e.tx).1.length + 1) (txAncestors s e.tx).2.1 [] h0 List.nodup_nil (by simp)
      split
      · trivial
      · split
        · exact recordAncestors_goodT e _ _ _ ⟨hl.2.1, hl.2.2, hl.1⟩
        · trivial
    · trivial

/-- (2) `add_entry` with evictions, exactly: the evicted list is duplicate-free, consists of pooled ids, and
    the pool afterwards holds the old transactions outside the evicted list followed by the new one. -/
theorem addEntry_txs_exact (s1 : Pool) (t : Tx) (st : Status) (ts : Nat) (s2 : Pool) (ev : List Nat)
    (hadd : addEntry s1 t st ts = (s2, .ok ev)) :
    ev.Nodup ∧ (∀ y ∈ ev, (getEntry s1 y).isSome) ∧ txs s2 = (txs s1).filter (·.id ∉ ev) ++ [t] := by
  have h1 : (addEntry s1 t st ts).1 = s2 := by rw [hadd]
  have h2 : (addEntry s1 t st ts).2 = .ok ev := by rw [hadd]
  have hg := checkAnc_txs s1 (Entry.fresh t st ts)
  unfold addEntry at h1 h2
  split at h2
  · cases h2
  · split at h2
    · cases h2
    · rename_i hdup hconf
      simp only [hdup, hconf] at h1
      split at h2
      · cases h2
      · cases h2
      · cases h2
      · rename_i s' e' ev' heq
        rw [heq] at hg h1
        simp only at h1
        injection h2 with h2
        subst h2
        obtain ⟨a, b, c, d⟩ := hg
        refine ⟨a, fun y hy => (mem_idsOf_iff s1 y).mp (b y hy), ?_⟩
        rw [← h1]
        have := finalOf_txs (pushEntry s' t e') t e' st
        rw [pushEntry_txs, c, d] at this
        exact this

theorem poolFee'_txs (s : Pool) : poolFee' s = ((txs s).map (·.fee)).sum := by
  simp only [poolFee', txs, List.map_map]; rfl

theorem edgeOK_ids {s : Pool} (h : EdgeOK (edge s)) : (s.entries.map (·.tx.id)).Nodup := by
  have := h.ids
  rw [← idsOf_eq_cores] at this
  exact this

/-- (2) exact fee accounting of `add_entry`: total after + fees of the evicted (each once) = total before +
    the new fee.  No hypothesis on the ancestor limit. -/
theorem addEntry_fee_split (s1 : Pool) (hE : EdgeOK (edge s1)) (t : Tx) (st : Status) (ts : Nat) (s2 : Pool)
    (ev : List Nat) (hadd : addEntry s1 t st ts = (s2, .ok ev)) :
    ev.Nodup ∧ (∀ y ∈ ev, (getEntry s1 y).isSome) ∧ txs s2 = (txs s1).filter (·.id ∉ ev) ++ [t] ∧
    poolFee' s2 + ((ev.filterMap (getEntry s1)).map (·.tx.fee)).sum = poolFee' s1 + t.fee := by
  obtain ⟨h1, h2, h3⟩ := addEntry_txs_exact s1 t st ts s2 ev hadd
  refine ⟨h1, h2, h3, ?_⟩
  have := sum_split (·.tx.fee) s1.entries (edgeOK_ids hE) ev h1
  rw [← filterMap_getEntry_eq] at this
  rw [poolFee'_txs, h3, poolFee', ← this]
  have hf : ((txs s1).filter (·.id ∉ ev)).map (·.fee) = (s1.entries.filter (·.tx.id ∉ ev)).map (·.tx.fee) := by
    simp only [txs, List.filter_map, List.map_map]; rfl
  rw [List.map_append, List.sum_append, hf]
  simp only [List.map_cons, List.map_nil, List.sum_cons, List.sum_nil]
  omega

/-- (2) the pool's total fee drops across `add_entry` exactly when the new fee is below the evicted fees -/
theorem addEntry_fee_drops_iff (s1 : Pool) (hE : EdgeOK (edge s1)) (t : Tx) (st : Status) (ts : Nat) (s2 : Pool)
    (ev : List Nat) (hadd : addEntry s1 t st ts = (s2, .ok ev)) :
    poolFee' s2 < poolFee' s1 ↔ t.fee < ((ev.filterMap (getEntry s1)).map (·.tx.fee)).sum := by
  have := (addEntry_fee_split s1 hE t st ts s2 ev hadd).2.2.2
  omega

/-! ## RBF with evictions -/

/-- the ids `process_rbf` removes, each once: the conflicts and their descendants, taken in the state
    before the replacement -/
def rbfRemoved (s : Pool) (c : List Nat) : List Nat := dedup (c.flatMap (rmdIds s))

theorem processRbf_edgeOK {s : Pool} (h : EdgeOK (edge s)) (c : List Nat) : EdgeOK (edge (processRbf s c).1) :=
  h.reach (EReach.foldRmd c s [])

/-- `process_rbf` takes exactly the fees of the removed transactions (each once) out of the pool -/
theorem processRbf_fee_split' (s : Pool) (hE : EdgeOK (edge s)) (hL : LinksOK s) (c : List Nat) :
    poolFee' (processRbf s c).1 + (((rbfRemoved s c).filterMap (getEntry s)).map (·.tx.fee)).sum = poolFee' s := by
  have := sum_split (·.tx.fee) s.entries (edgeOK_ids hE) (rbfRemoved s c) (nodup_dedup _)
  rw [← filterMap_getEntry_eq] at this
  rw [poolFee'_txs, (processRbf_txs c s hL).2, poolFee', ← this]
  congr 2
  simp only [txs, List.filter_map, List.map_map]
  congr 1
  apply List.filter_congr
  intro x _
  simp only [Function.comp, rbfRemoved, mem_dedup]

/-- (2) exact accounting of a replacement, evictions inside `add_entry` included: total after + replaced
    fees + evicted fees = total before + the new fee.  (`c` is the conflict list `check_rbf` answered;
    the evicted entries are looked up in the state after `process_rbf`, where they are still pooled.) -/
theorem rbf_fee_exact (s : Pool) (hE : EdgeOK (edge s)) (hL : LinksOK s) (t : Tx) (st : Status) (ts : Nat)
    (c : List Nat) (s2 : Pool) (ev : List Nat) (hadd : addEntry (processRbf s c).1 t st ts = (s2, .ok ev)) :
    poolFee' s2 + (((rbfRemoved s c).filterMap (getEntry s)).map (·.tx.fee)).sum
        + ((ev.filterMap (getEntry (processRbf s c).1)).map (·.tx.fee)).sum
      = poolFee' s + t.fee := by
  have h1 := processRbf_fee_split' s hE hL c
  have h2 := (addEntry_fee_split _ (processRbf_edgeOK hE c) t st ts s2 ev hadd).2.2.2
  omega

/-- a transaction pooled in a sub-pool is the transaction the original pool holds under that id -/
theorem getEntry_tx_of_sub {s s' : Pool} (hE : EdgeOK (edge s)) (hsub : ∀ x ∈ txs s', x ∈ txs s) (y : Nat)
    (hy : (getEntry s' y).isSome) : (getEntry s' y).map (·.tx) = (getEntry s y).map (·.tx) := by
  obtain ⟨e', he'⟩ := Option.isSome_iff_exists.mp hy
  obtain ⟨hm', hid'⟩ := getEntry_some he'
  have hin : e'.tx ∈ txs s := hsub _ (List.mem_map.mpr ⟨e', hm', rfl⟩)
  obtain ⟨e, hm, htx⟩ := List.mem_map.mp hin
  have htx : e.tx = e'.tx := htx
  have hsome : (getEntry s y).isSome := (mem_idsOf_iff s y).mp (List.mem_map.mpr ⟨e, hm, by rw [htx, hid']⟩)
  obtain ⟨e0, he0⟩ := Option.isSome_iff_exists.mp hsome
  obtain ⟨hm0, hid0⟩ := getEntry_some he0
  have := core_ids_unique (edge s).cores hE.ids (a := e.core) (b := e0.core)
    (List.mem_map.mpr ⟨e, hm, rfl⟩) (List.mem_map.mpr ⟨e0, hm0, rfl⟩)
    (by show e.tx.id = e0.tx.id; rw [htx, hid', hid0])
  have h0 : e.tx = e0.tx := congrArg Prod.fst this
  rw [he', he0]
  simp only [Option.map_some]
  rw [← h0, htx]

theorem sum_fee_congr (s s' : Pool) (ev : List Nat)
    (h : ∀ y ∈ ev, (getEntry s' y).map (·.tx) = (getEntry s y).map (·.tx)) :
    ((ev.filterMap (getEntry s')).map (·.tx.fee)).sum = ((ev.filterMap (getEntry s)).map (·.tx.fee)).sum := by
  induction ev with
  | nil => rfl
  | cons a l ih =>
    have ha := h a List.mem_cons_self
    have ih := ih fun y hy => h y (List.mem_cons_of_mem _ hy)
    simp only [List.filterMap_cons]
    cases h1 : getEntry s' a <;> cases h2 : getEntry s a <;> rw [h1, h2] at ha <;>
      simp only [Option.map_some, Option.map_none, Option.some.injEq, reduceCtorEq] at ha
    · exact ih
    · simp only [List.map_cons, List.sum_cons, ih, ha]

/-- (2) exact accounting of a replacement, every fee looked up in the state BEFORE the submission:
    total after + replaced fees + evicted fees = total before + the new fee. -/
theorem rbf_fee_exact' (s : Pool) (hE : EdgeOK (edge s)) (hL : LinksOK s) (t : Tx) (st : Status) (ts : Nat)
    (c : List Nat) (s2 : Pool) (ev : List Nat) (hadd : addEntry (processRbf s c).1 t st ts = (s2, .ok ev)) :
    poolFee' s2 + (((rbfRemoved s c).filterMap (getEntry s)).map (·.tx.fee)).sum
        + ((ev.filterMap (getEntry s)).map (·.tx.fee)).sum
      = poolFee' s + t.fee := by
  have h1 := rbf_fee_exact s hE hL t st ts c s2 ev hadd
  have hp := (addEntry_txs_exact _ t st ts s2 ev hadd).2.1
  have hsub : ∀ x ∈ txs (processRbf s c).1, x ∈ txs s := by
    intro x hx; rw [(processRbf_txs c s hL).2] at hx; exact (List.mem_filter.mp hx).1
  rw [sum_fee_congr s (processRbf s c).1 ev fun y hy => getEntry_tx_of_sub hE hsub y (hp y hy)] at h1
  exact h1

/-- (2) the evicted transactions are disjoint from the replaced ones (they were still pooled after
    `process_rbf`) -/
theorem rbf_evicted_not_replaced (s : Pool) (hL : LinksOK s) (t : Tx) (st : Status) (ts : Nat)
    (c : List Nat) (s2 : Pool) (ev : List Nat) (hadd : addEntry (processRbf s c).1 t st ts = (s2, .ok ev)) :
    ∀ y ∈ ev, (getEntry s y).isSome ∧ y ∉ rbfRemoved s c := by
  intro y hy
  have hp := (addEntry_txs_exact _ t st ts s2 ev hadd).2.1 y hy
  rw [← mem_idsOf_iff, idsOf_eq_txs, (processRbf_txs c s hL).2] at hp
  obtain ⟨x, hx, rfl⟩ := List.mem_map.mp hp
  obtain ⟨hx1, hx2⟩ := List.mem_filter.mp hx
  refine ⟨?_, ?_⟩
  · rw [← mem_idsOf_iff, idsOf_eq_txs]; exact List.mem_map.mpr ⟨x, hx1, rfl⟩
  · rw [rbfRemoved, mem_dedup]; simpa using hx2

/-- (2) a replacement lowers the pool's total fee exactly when its fee is below replaced + evicted fees -/
theorem rbf_fee_drops_iff (s : Pool) (hE : EdgeOK (edge s)) (hL : LinksOK s) (t : Tx) (st : Status) (ts : Nat)
    (c : List Nat) (s2 : Pool) (ev : List Nat) (hadd : addEntry (processRbf s c).1 t st ts = (s2, .ok ev)) :
    poolFee' s2 < poolFee' s ↔
      t.fee < (((rbfRemoved s c).filterMap (getEntry s)).map (·.tx.fee)).sum
        + ((ev.filterMap (getEntry s)).map (·.tx.fee)).sum := by
  have := rbf_fee_exact' s hE hL t st ts c s2 ev hadd
  omega

/-! ## `check_and_record_ancestors`: the limits -/

theorem evictLoop_cfg (cands : List Nat) (s : Pool) (cnt : Nat) (parents ev : List Nat) :
    (evictLoop cands s cnt parents ev).1.cfg = s.cfg :=
  evictLoop_of (P := fun x => x.cfg = s.cfg) (fun x id hx => (removeWithDesc_cfg x id).trans hx) cands s cnt parents ev rfl

/-- (3) the eviction loop stops as soon as the count is within the limit or the candidates are used up:
    it performs exactly `min cands.length (cnt - max_ancestors_count)` removals. -/
theorem evictLoop_stops (cands : List Nat) (s : Pool) (cnt : Nat) (parents ev : List Nat) :
    (evictLoop cands s cnt parents ev).2.1 = cnt - min cands.length (cnt - s.cfg.maxAnc) := by
  induction cands generalizing s cnt parents ev with
  | nil => simp [evictLoop]
  | cons c l ih =>
    unfold evictLoop
    split
    · rw [ih, removeWithDesc_cfg]; simp only [List.length_cons]; omega
    · simp only [List.length_cons]; omega

/-- (3) the candidates the loop removes are the first `min cands.length (cnt - max_ancestors_count)` of
    the list (cheapest first: the list is in `EvictKey` order), and exactly those leave `parents` -/
theorem evictLoop_parents_take (cands : List Nat) (s : Pool) (cnt : Nat) (parents ev : List Nat) :
    (evictLoop cands s cnt parents ev).2.2.1 =
      parents.filter (· ∉ cands.take (min cands.length (cnt - s.cfg.maxAnc))) := by
  induction cands generalizing s cnt parents ev with
  | nil => simp only [evictLoop, List.take_nil, List.not_mem_nil, not_false_eq_true, decide_true]; exact (List.filter_eq_self.mpr (by simp)).symm
  | cons c l ih =>
    unfold evictLoop
    split
    · rename_i hgt
      have hk : min (c :: l).length (cnt - s.cfg.maxAnc) = min l.length (cnt - 1 - s.cfg.maxAnc) + 1 := by
        simp only [List.length_cons]; omega
      rw [ih, removeWithDesc_cfg, hk, List.take_succ_cons, List.filter_filter]
      apply List.filter_congr
      intro x _
      by_cases h1 : x = c <;> by_cases h2 : x ∈ l.take (min l.length (cnt - 1 - s.cfg.maxAnc)) <;> simp [h1, h2]
    · rename_i hle
      have hk : min (c :: l).length (cnt - s.cfg.maxAnc) = 0 := by omega
      rw [hk]; simp only [List.take_zero, List.not_mem_nil, not_false_eq_true, decide_true]; exact (List.filter_eq_self.mpr (by simp)).symm

/-- the two rejecting answers of `check_and_record_ancestors` -/
def AncRes.isRej : AncRes → Bool
  | .rej => true
  | .rejAfter _ => true
  | _ => false

theorem isRej_recordAncestors (s : Pool) (e : Entry) (a p ev : List Nat) :
    AncRes.isRej (match recordAncestors s e a p with
      | some (s', e') => AncRes.ok s' e' ev
      | none => AncRes.panic s) = false := by
  cases recordAncestors s e a p with
  | none => rfl
  | some r => obtain ⟨_, _⟩ := r; rfl

/-- code as written (`fixPanic = false`): `check_and_record_ancestors` rejects exactly when the ancestor
    count exceeds the limit even after discounting every cell-ref parent -/
theorem checkAnc_isRej (s : Pool) (e : Entry) (hfp : s.cfg.fixPanic = false) :
    (checkAndRecordAncestors s e).isRej = true ↔
      s.cfg.maxAnc < (txAncestors s e.tx).1.length + 1 - (txAncestors s e.tx).2.2.length := by
  unfold checkAndRecordAncestors
  simp only
  generalize txAncestors s e.tx = A
  obtain ⟨a, p, c⟩ := A
  simp only
  have hno : ∀ r : AncRes, r.isRej = false → ¬ (s.cfg.maxAnc < a.length + 1 - c.length) →
      (r.isRej = true ↔ s.cfg.maxAnc < a.length + 1 - c.length) := by
    intro r hr hn; rw [hr]
    exact ⟨fun h => (by cases h), fun h => absurd h hn⟩
  split
  · exact hno _ (isRej_recordAncestors _ _ _ _ _) (by omega)
  · split
    · simp only [evictLoop_cfg, hfp, Bool.false_and, Bool.false_eq_true, if_false]
      split
      · exact hno _ (isRej_recordAncestors _ _ _ _ _) (by omega)
      · exact hno _ rfl (by omega)
    · exact ⟨fun _ => by omega, fun _ => rfl⟩

theorem addEntry_rejAnc_iff_isRej (s : Pool) (t : Tx) (st : Status) (ts : Nat) :
    (addEntry s t st ts).2 = .rejAnc ↔
      (getEntry s t.id).isNone ∧ conflictIds s t = [] ∧ t.inputs.Nodup ∧
      (checkAndRecordAncestors s (Entry.fresh t st ts)).isRej = true := by
  unfold addEntry
  split
  · rename_i h
    constructor
    · intro h'; cases h'
    · intro h'; rw [Option.isNone_iff_eq_none.mp h'.1] at h; cases h
  · rename_i hdup
    split
    · rename_i hconf
      constructor
      · intro h'; cases h'
      · rintro ⟨_, h1, h2, _⟩
        simp [h1, h2] at hconf
    · rename_i hconf
      have hpre : (getEntry s t.id).isNone ∧ conflictIds s t = [] ∧ t.inputs.Nodup := by
        simp only [Bool.or_eq_true, Bool.not_eq_eq_eq_not, Bool.not_true, List.isEmpty_eq_false_iff, ne_eq,
          decide_eq_false_iff_not, not_or, Decidable.not_not] at hconf
        refine ⟨?_, hconf.1, hconf.2⟩
        cases hg : getEntry s t.id with
        | none => rfl
        | some x => rw [hg] at hdup; simp at hdup
      split
      · rename_i heq; rw [heq]; exact ⟨fun _ => ⟨hpre.1, hpre.2.1, hpre.2.2, rfl⟩, fun _ => rfl⟩
      · rename_i heq; rw [heq]; exact ⟨fun _ => ⟨hpre.1, hpre.2.1, hpre.2.2, rfl⟩, fun _ => rfl⟩
      · rename_i heq; rw [heq]
        exact ⟨fun h => (by cases h), fun h => (by have := h.2.2.2; simp [AncRes.isRej] at this)⟩
      · rename_i heq; rw [heq]
        exact ⟨fun h => (by cases h), fun h => (by have := h.2.2.2; simp [AncRes.isRej] at this)⟩

/-- (3) `add_entry` answers `ExceededMaximumAncestorsCount` — code as written, `fixPanic = false` — exactly
    for a new, conflict-free transaction whose ancestor count (itself included) exceeds the limit even
    after discounting every cell-ref parent. -/
theorem addEntry_rejAnc_iff (s : Pool) (hfp : s.cfg.fixPanic = false) (t : Tx) (st : Status) (ts : Nat) :
    (addEntry s t st ts).2 = .rejAnc ↔
      (getEntry s t.id).isNone ∧ conflictIds s t = [] ∧ t.inputs.Nodup ∧
      s.cfg.maxAnc < (txAncestors s t).1.length + 1 - (txAncestors s t).2.2.length := by
  rw [addEntry_rejAnc_iff_isRej, checkAnc_isRej s _ hfp]
  rfl

/-- (3) within the ancestor limit `add_entry` evicts nothing (restatement of `addEntry_ok_within_limit`) -/
theorem addEntry_no_evict_within_limit (s : Pool) (t : Tx) (st : Status) (ts : Nat) (s2 : Pool) (ev : List Nat)
    (hadd : addEntry s t st ts = (s2, .ok ev))
    (hlim : (txAncestors s t).1.length + 1 ≤ s.cfg.maxAnc) : ev = [] :=
  (addEntry_ok_within_limit s t st ts s2 ev hadd hlim).2

/-- the candidates of the eviction loop: the cell-ref parents, in `EvictKey` order -/
def evictCands (s : Pool) (t : Tx) : List Nat :=
  ((byEvictKey s.entries).filter (·.tx.id ∈ (txAncestors s t).2.2)).map (·.tx.id)

/-- the eviction loop as `check_and_record_ancestors` runs it: (state, count, parents, evicted) -/
def evictRun (s : Pool) (t : Tx) : Pool × Nat × List Nat × List Nat :=
  evictLoop (evictCands s t) s ((txAncestors s t).1.length + 1) (txAncestors s t).2.1 []

/-- every configuration (the repaired `check_and_record_ancestors` of /repo is `fixPanic = true`): the
    rejecting answers are the limit test, and — repaired code only — a parent that the eviction took away -/
theorem checkAnc_isRej_gen (s : Pool) (e : Entry) :
    (checkAndRecordAncestors s e).isRej = true ↔
      s.cfg.maxAnc < (txAncestors s e.tx).1.length + 1 - (txAncestors s e.tx).2.2.length ∨
      (s.cfg.maxAnc < (txAncestors s e.tx).1.length + 1 ∧ s.cfg.fixPanic = true ∧
        ((evictRun s e.tx).2.2.1.any fun p => (getEntry (evictRun s e.tx).1 p).isNone) = true) := by
  unfold checkAndRecordAncestors evictRun evictCands
  simp only
  generalize txAncestors s e.tx = A
  obtain ⟨a, p, c⟩ := A
  simp only
  split
  · refine iff_of_false (Bool.eq_false_iff.mp (isRej_recordAncestors _ _ _ _ _)) ?_
    rintro (h | ⟨h, _⟩) <;> omega
  · split
    · simp only [evictLoop_cfg]
      split
      · rename_i hc
        have hc' := (Bool.and_eq_true _ _).mp hc
        exact iff_of_true rfl (Or.inr ⟨by omega, hc'.1, hc'.2⟩)
      · rename_i hc
        have hn : ¬ (s.cfg.maxAnc < a.length + 1 - c.length ∨
            (s.cfg.maxAnc < a.length + 1 ∧ s.cfg.fixPanic = true ∧
              ((evictLoop (((byEvictKey s.entries).filter (·.tx.id ∈ c)).map (·.tx.id)) s (a.length + 1) p []).2.2.1.any
                fun q => (getEntry (evictLoop (((byEvictKey s.entries).filter (·.tx.id ∈ c)).map (·.tx.id)) s (a.length + 1) p []).1 q).isNone) = true)) := by
          rintro (h | ⟨_, h, h'⟩)
          · omega
          · exact hc ((Bool.and_eq_true _ _).mpr ⟨h, h'⟩)
        split
        · exact iff_of_false (Bool.eq_false_iff.mp (isRej_recordAncestors _ _ _ _ _)) hn
        · exact iff_of_false (by simp [AncRes.isRej]) hn
    · exact iff_of_true rfl (Or.inl (by omega))

/-- (3) `add_entry` answers `ExceededMaximumAncestorsCount`, every configuration: the limit test, or —
    repaired code (`fixPanic = true`, the code of /repo) — the cell-ref eviction was entered and took
    another parent of the new entry with it. -/
theorem addEntry_rejAnc_iff_gen (s : Pool) (t : Tx) (st : Status) (ts : Nat) :
    (addEntry s t st ts).2 = .rejAnc ↔
      (getEntry s t.id).isNone ∧ conflictIds s t = [] ∧ t.inputs.Nodup ∧
      (s.cfg.maxAnc < (txAncestors s t).1.length + 1 - (txAncestors s t).2.2.length ∨
        (s.cfg.maxAnc < (txAncestors s t).1.length + 1 ∧ s.cfg.fixPanic = true ∧
          ((evictRun s t).2.2.1.any fun p => (getEntry (evictRun s t).1 p).isNone) = true)) := by
  rw [addEntry_rejAnc_iff_isRej, checkAnc_isRej_gen]
  rfl

/-! ## concrete states: non-vacuity, and the fee-drop witness -/

theorem evLinksOK_empty (c : Cfg) (chain : List Nat) : LinksOK (empty c chain) :=
  ⟨List.nodup_nil, List.nodup_nil, fun _ _ h => (by cases h), fun _ h => (by cases h),
    ⟨List.nodup_nil, fun _ _ => ⟨fun h => (by cases h), fun h => (by cases h)⟩, fun _ => List.nodup_nil, fun _ => List.nodup_nil⟩,
    fun _ => ⟨fun h => (by cases h), fun ⟨⟨_, h, _⟩, _⟩ => (by cases h)⟩⟩

theorem evLinksOK_run (c : Cfg) (chain : List Nat) (ops : List Op) : LinksOK (run (empty c chain) ops) :=
  linksOK_closed.run _ ops (evLinksOK_empty c chain)

theorem evEdgeOK_run (c : Cfg) (chain : List Nat) (ops : List Op) : EdgeOK (edge (run (empty c chain) ops)) := by
  suffices ∀ s, EdgeOK (edge s) → EdgeOK (edge (run s ops)) from this _ (edgeOK_empty c chain)
  induction ops with
  | nil => exact fun _ h => h
  | cons op l ih => exact fun s h => ih _ (edgeOK_step s op h)

def evCfg : Cfg := { maxAnc := 2, maxSize := 1000000, minFeeRate := 1000, minRbfRate := 1500, expiry := 3600000 }
/-- cheap, spends the chain cell (0,0) -/
def evA : Tx := { id := 10, inputs := [⟨0, 0⟩], deps := [], hdeps := [], nout := 1, size := 100, cycles := 0, fee := 100 }
def evQ : Tx := { id := 19, inputs := [⟨0, 1⟩], deps := [], hdeps := [], nout := 1, size := 100, cycles := 0, fee := 200 }
/-- expensive, child of `evQ`, references the chain cell (0,2) as a cell dep only -/
def evP : Tx := { id := 20, inputs := [⟨19, 0⟩], deps := [⟨0, 2⟩], hdeps := [], nout := 1, size := 100, cycles := 0, fee := 100000 }
/-- the replacement: conflicts with `evA` on (0,0) and consumes the cell (0,2) that `evP` references -/
def evT : Tx := { id := 30, inputs := [⟨0, 0⟩, ⟨0, 2⟩], deps := [], hdeps := [], nout := 1, size := 100, cycles := 0, fee := 300 }
/-- a grandchild of `evQ`: over the ancestor limit 2 -/
def evB : Tx := { id := 40, inputs := [⟨20, 0⟩], deps := [], hdeps := [], nout := 1, size := 100, cycles := 0, fee := 300 }
/-- pool: 19 ← 20, and 10 (inserted last) -/
def evS : Pool := run (empty evCfg [0]) [.add evQ .pending 1, .add evP .pending 2, .add evA .pending 3]
/-- the same pool with a size limit of 250 / 150 bytes (it holds 300) -/
def evS250 : Pool := { evS with cfg := { evCfg with maxSize := 250 } }
def evS150 : Pool := { evS with cfg := { evCfg with maxSize := 150 } }

def submitOk : SubmitRes → Option (List Nat × List Nat × List Nat)
  | .ok r e l => some (r, e, l)
  | _ => none

/-- non-vacuity of `byEvictKey_sorted`: insertion order 19, 20, 10; eviction order 10 (rate 1000),
    19 (package rate 501000), 20 (rate 1000000) -/
example : idsOf evS.entries = [19, 20, 10] ∧ idsOf (byEvictKey evS.entries) = [10, 19, 20] ∧
    (byEvictKey evS.entries).map evictKey = [(1000, 1, 3), (501000, 2, 1), (1000000, 1, 2)] := by decide +kernel

/-- non-vacuity of `nextEvict_min` / `nextEvict_none_iff` / `limitVictim_spec` -/
example : nextEvict evS .pending = some 10 ∧ nextEvict evS .gap = none ∧ limitVictim evS = some 10 := by
  decide +kernel

/-- non-vacuity of `limitSize_noop`, `limitSize_victim_order`, `limitSize_fits`: nothing to do at the
    default limit; at 250 bytes the cheapest entry (10) leaves and 200 bytes stay; at 150 bytes the next
    victim 19 takes its descendant 20 with it and the pool is empty -/
example : EdgeOK (edge evS250) ∧ EdgeOK (edge evS150) ∧
    evS.totalSize = 300 ∧ (limitSize evS).2 = [] ∧
    (limitSize evS250).2 = [10] ∧ (limitSize evS250).1.totalSize = 200 ∧
    (limitSize evS150).2 = [10, 19, 20] ∧ (limitSize evS150).1.totalSize = 0 ∧ idsOf (limitSize evS150).1.entries = [] :=
  ⟨evEdgeOK_run _ _ _, evEdgeOK_run _ _ _, by decide +kernel⟩

/-- non-vacuity of `addEntry_rejAnc_iff` (both directions) and of `evictLoop_stops` -/
example : evS.cfg.fixPanic = false ∧ (addEntry evS evB .pending 4).2 = .rejAnc ∧
    (txAncestors evS evB).1.length = 2 ∧ (txAncestors evS evB).2.2 = [] ∧
    (addEntry evS evA .pending 4).2 = .dup ∧
    (evictLoop [20] (processRbf evS [10]).1 3 [20] []).2 = (2, [], [20]) := by decide +kernel

/-- (2) WITNESS: an ACCEPTED replacement that LOWERS the pool's total fee.  `max_ancestors_count = 2`, RBF on
    (min_rbf_rate 1500 > min_fee_rate 1000).  Pool: 19 (fee 200) ← 20 (fee 100000, cell dep on the chain
    cell (0,2)), and 10 (fee 100, spends the chain cell (0,0)); total fee 100300.  The replacement 30 (fee 300)
    spends (0,0) — conflict with 10, `check_rbf` charges fee(10) + increment = 100 + 150 ≤ 300 and accepts — and
    also consumes (0,2): `get_tx_ancenstors` makes 20 a cell-ref parent, ancestors {20, 19}, count 3 > 2,
    3 - 1 ≤ 2: `check_and_record_ancestors` evicts 20 through the cell-ref path.  `submit` answers
    ok(replaced = [10], evicted = [20], limited = []); the pool holds 19 and 30, total fee 500: the fee of
    the evicted transaction (100000) is charged by nobody. -/
theorem rbf_fee_drop_witness :
    EdgeOK (edge evS) ∧ LinksOK evS ∧
    (enableRbf evS.cfg = true ∧ evS.cfg.maxAnc = 2 ∧ evS.ghostBad = false ∧
     idsOf evS.entries = [19, 20, 10] ∧ poolFee' evS = 100300 ∧
     checkRbf evS evT = .ok [10] ∧ conflictIds evS evT = [10] ∧
     txAncestors (processRbf evS [10]).1 evT = ([20, 19], [20], [20]) ∧
     (addEntry (processRbf evS [10]).1 evT .pending 4).2 = .ok [20] ∧
     submitOk (submit evS evT .pending 4).2 = some ([10], [20], []) ∧
     idsOf (submit evS evT .pending 4).1.entries = [19, 30] ∧
     poolFee' (submit evS evT .pending 4).1 = 500 ∧
     (submit evS evT .pending 4).1.ghostBad = false) :=
  ⟨evEdgeOK_run _ _ _, evLinksOK_run _ _ _, by decide +kernel⟩

/-- non-vacuity of `addEntry_fee_split` / `rbf_fee_exact` on the witness: 500 + 100 + 100000 = 100300 + 300 -/
example : poolFee' (addEntry (processRbf evS [10]).1 evT .pending 4).1 = 500 ∧
    (((rbfRemoved evS [10]).filterMap (getEntry evS)).map (·.tx.fee)).sum = 100 ∧
    (([20].filterMap (getEntry (processRbf evS [10]).1)).map (·.tx.fee)).sum = 100000 ∧
    poolFee' evS + evT.fee = 100600 := by decide +kernel

end CkbVerif.Pool
