import CkbVerif.Lemmas.IndexerRollbackTip

/-! The live-cell invariant for the type-script index along appends (C18). -/
namespace CkbVerif.Indexer

variable {s : Store} {b : Block}

theorem cellType_created (wf : WFAppend s b) (i : Nat) (tx : Tx) (oi : Nat)
    (out : Output) (t : Script) (htx : b.txs[i]? = some tx) (hout : tx.outputs[oi]? = some out)
    (ht : out.type = some t) :
    get (appendCore s b) (.cellType t b.number i oi) = some (.tx tx.id) := by
  rw [get_appendCore_nonheader s b _ (by intro _ _ _ h; cases h)]
  apply get_commit_all_put
  · intro o ho hk
    rcases txsOps_shape s b wf o ho with ⟨i', tx', ii', op', c', htx', hi', hop', hc', ho'⟩ |
      ⟨i', tx', out', oi', htx', hout', ho'⟩ | ⟨i', tx', htx', rfl⟩
    · rw [mem_consumeOps] at ho'
      rcases ho' with rfl | rfl | ⟨t', _, rfl | rfl⟩ | rfl | rfl <;> simp [BOp.key] at hk
      exact absurd hk.2.1 (wf.oldBn op' c' hc')
    · rw [mem_createOps] at ho'
      rcases ho' with rfl | rfl | ⟨t', _, rfl | rfl⟩ | rfl <;> simp [BOp.key] at hk
      obtain ⟨hl, hi, hoi⟩ := hk
      subst hi; subst hoi
      rw [htx] at htx'
      cases htx'
      rw [hl]
    · simp [BOp.key] at hk
  · refine ⟨.put (.cellType t b.number i oi) (.tx tx.id), ?_, rfl⟩
    apply create_mem_txsOps s b i tx out oi htx hout
    rw [mem_createOps]
    right; right; left
    exact ⟨t, ht, Or.inl rfl⟩

theorem cellType_spent (wf : WFAppend s b) (op : OutPoint) (c : Cell) (t : Script)
    (hs : SpentIn s b op c) (ht : c.out.type = some t) :
    get (appendCore s b) (.cellType t c.bn c.txIdx op.idx) = none := by
  rw [get_appendCore_nonheader s b _ (by intro _ _ _ h; cases h)]
  obtain ⟨i, tx, ii, htx, hi, hop, hc⟩ := hs
  apply get_commit_all_del
  · intro o ho hk
    rcases txsOps_shape s b wf o ho with ⟨i', tx', ii', op', c', htx', hi', hop', hc', ho'⟩ |
      ⟨i', tx', out', oi', htx', hout', ho'⟩ | ⟨i', tx', htx', rfl⟩
    · rw [mem_consumeOps] at ho'
      rcases ho' with rfl | rfl | ⟨t', _, rfl | rfl⟩ | rfl | rfl <;> simp [BOp.key] at hk
      simp [hk]
    · rw [mem_createOps] at ho'
      rcases ho' with rfl | rfl | ⟨t', _, rfl | rfl⟩ | rfl <;> simp [BOp.key] at hk
      exact absurd hk.2.1.symm (wf.oldBn op c hc)
    · simp [BOp.key] at hk
  · refine ⟨.del (.cellType t c.bn c.txIdx op.idx), ?_, rfl⟩
    apply consume_mem_txsOps s b wf i tx ii op c htx hi hop hc
    rw [mem_consumeOps]
    right; right; left
    exact ⟨t, ht, Or.inl rfl⟩

/-- **the type-script live-cell index stays exact under `append`** (no same-block spends) -/
theorem typeInv_append (wf : WFAppend s b) (inv : TypeInv s) : TypeInv (appendCore s b) := by
  intro sc bn txi io t
  constructor
  · intro h
    by_cases hA : ∃ (tx : Tx) (out : Output), b.txs[txi]? = some tx ∧ tx.outputs[io]? = some out ∧
        out.type = some sc ∧ bn = b.number
    · obtain ⟨tx, out, htx, hout, hl, hb⟩ := hA
      subst hb
      rw [cellType_created wf txi tx io out sc htx hout hl] at h
      have ht : tx.id = t := by simpa using h
      refine ⟨⟨b.number, txi, out⟩, ?_, hl, rfl, rfl⟩
      apply outPoint_created s b wf
      exact ⟨txi, tx, out, htx, ht, hout, rfl⟩
    · by_cases hB : ∃ (op : OutPoint) (c : Cell), SpentIn s b op c ∧ c.out.type = some sc ∧ c.bn = bn ∧
          c.txIdx = txi ∧ op.idx = io
      · obtain ⟨op, c, hs, hl, hb, hti, hio⟩ := hB
        subst hb; subst hti; subst hio
        rw [cellType_spent wf op c sc hs hl] at h
        cases h
      · rw [cellType_other wf sc bn txi io hA hB] at h
        obtain ⟨c, hc, hl, hb, hti⟩ := (inv sc bn txi io t).mp h
        refine ⟨c, ?_, hl, hb, hti⟩
        rw [outPoint_other s b wf ⟨t, io⟩]
        · exact hc
        · intro c0 hc0
          rw [created_fresh s b wf _ c0 hc0] at hc
          cases hc
        · intro c0 hs0
          have : c0 = c := by
            obtain ⟨_, _, _, _, _, _, hg⟩ := hs0
            rw [hc] at hg
            cases hg; rfl
          subst this
          exact hB ⟨⟨t, io⟩, c0, hs0, hl, hb, hti, rfl⟩
  · rintro ⟨c, hc, hl, hb, hti⟩
    by_cases hC : ∃ c0, Created b ⟨t, io⟩ c0
    · obtain ⟨c0, hc0⟩ := hC
      rw [outPoint_created s b wf _ c0 hc0] at hc
      have : c0 = c := by cases hc; rfl
      subst this
      obtain ⟨i, tx, out, htx, hid, hout, rfl⟩ := hc0
      simp only at hl hb hti hid hout
      subst hb; subst hti
      rw [cellType_created wf i tx io out sc htx hout hl, hid]
    · by_cases hS : ∃ c0, SpentIn s b ⟨t, io⟩ c0
      · obtain ⟨c0, hs0⟩ := hS
        rw [outPoint_spent s b wf _ c0 hs0] at hc
        cases hc
      · rw [outPoint_other s b wf ⟨t, io⟩ (fun c0 h => hC ⟨c0, h⟩) (fun c0 h => hS ⟨c0, h⟩)] at hc
        have hrow := (inv sc bn txi io t).mpr ⟨c, hc, hl, hb, hti⟩
        rw [cellType_other wf sc bn txi io]
        · exact hrow
        · rintro ⟨tx, out, htx, hout, hl', hb'⟩
          exact wf.oldBn _ c hc (by rw [hb, hb'])
        · rintro ⟨op', c', hs', hl', hb', hti', hio'⟩
          have hg' : get s (.outPoint op') = some (.cell c') := by
            obtain ⟨_, _, _, _, _, _, hg⟩ := hs'; exact hg
          have hrow' := (inv sc c'.bn c'.txIdx op'.idx op'.tx).mpr ⟨c', by cases op'; exact hg', hl', rfl, rfl⟩
          rw [hb', hti', hio', hrow] at hrow'
          have ht : t = op'.tx := by simpa using hrow'
          apply hS
          refine ⟨c', ?_⟩
          have : (⟨t, io⟩ : OutPoint) = op' := by cases op'; simp_all
          rw [this]
          exact hs'

theorem typeInv_empty : TypeInv [] := by
  intro sc bn txi io t
  simp [get]

/-- both live-cell indexes along a chain of well-formed appends (automatic prune included) -/
theorem typeInv_chain (keep interval : Nat) (blocks : List Block) (s : Store) (inv : TypeInv s)
    (ok : ChainOK keep interval s blocks) : TypeInv (blocks.foldl (append keep interval) s) := by
  induction blocks generalizing s with
  | nil => exact inv
  | cons b r ih =>
    obtain ⟨wf, ok'⟩ := ok
    apply ih _ _ ok'
    have hcore := typeInv_append wf inv
    unfold append
    dsimp only
    split
    · intro sc bn txi io t
      rw [lockInv_append_prune.prune_answers rfl, lockInv_append_prune.prune_answers rfl]
      exact hcore sc bn txi io t
    · exact hcore

end CkbVerif.Indexer

namespace CkbVerif.Indexer
open CkbVerif.Gen.Indexer

/-- exact mode on a CellTypeScript row: prefix match plus the key-length test ⇔ same script -/
theorem exact_cellType (q sc : Script) (bn tx io : Nat) :
    (isPrefix (KP_CELL_TYPE_SCRIPT :: scriptRaw q) (Key.cellType sc bn tx io).bytes = true ∧
      (Key.cellType sc bn tx io).bytes.length = (KP_CELL_TYPE_SCRIPT :: scriptRaw q).length + 16) ↔ sc = q := by
  constructor
  · rintro ⟨hp, hl⟩
    simp only [Key.bytes, scriptRaw, List.cons_append, List.nil_append, isPrefix, Bool.and_eq_true,
      decide_eq_true_eq, true_and] at hp
    simp only [Key.bytes, scriptRaw, List.cons_append, List.nil_append, List.length_cons,
      List.length_append, be_length] at hl
    have hargs : q.args = sc.args := by
      apply isPrefix_append_eq q.args sc.args _ _ (by omega)
      · exact be bn 8 ++ be tx 4 ++ be io 4
      · simpa [List.append_assoc] using hp.2
    cases q; cases sc
    simp_all
  · rintro rfl
    refine ⟨?_, ?_⟩
    · simp only [Key.bytes, scriptRaw, List.cons_append, List.nil_append, isPrefix, decide_true,
        Bool.true_and]
      rw [List.append_assoc, List.append_assoc]
      exact isPrefix_self_append _ _
    · simp [Key.bytes, scriptRaw, be_length]

/-- a decidable sufficient condition for the freshness fields of `WFRollbackT` (for the examples) -/
def freshB (s : Store) (b : Block) : Bool :=
  s.all fun e => match e.1 with
    | .cellLock _ bn _ _ | .cellType _ bn _ _ | .txLock _ bn _ _ _ | .txType _ bn _ _ _
    | .consumed bn _ => bn ≠ b.number
    | .header bn _ _ => bn < b.number
    | .txHash id => b.txs.all fun tx => tx.id ≠ id
    | .outPoint _ => true

theorem wfRollbackT_of (s : Store) (b : Block) (h1 : wfAppendB s b = true) (h2 : freshB s b = true)
    (li : LockInv s) (ti : TypeInv s) : WFRollbackT s b := by
  have hall := List.all_eq_true.mp h2
  have wfa := wfAppend_of_B s b h1
  have fresh : ∀ k : Key, (match k with
      | .cellLock _ bn _ _ | .cellType _ bn _ _ | .txLock _ bn _ _ _ | .txType _ bn _ _ _
      | .consumed bn _ => bn = b.number
      | _ => False) → get s k = none := by
    intro k hk
    apply get_none_of
    intro e he heq
    have := hall e he
    rw [heq] at this
    cases k <;> simp_all
  have hTx : ∀ tx ∈ b.txs, get s (.txHash tx.id) = none := by
    intro tx htx
    apply get_none_of
    intro e he heq
    have := hall e he
    rw [heq] at this
    simp only [List.all_eq_true, decide_eq_true_eq, ne_eq] at this
    exact this tx htx rfl
  have hHdr : HdrBelow s b.number := by
    intro e he bn h f hk
    have := hall e he
    rw [hk] at this
    simpa using this
  have wfr : WFRollback s b :=
    { toWFAppend := wfa
      freshLock := fun sc txi io => fresh (.cellLock sc b.number txi io) rfl
      freshTxLock := fun sc txi io t => fresh (.txLock sc b.number txi io t) rfl
      freshConsumed := fun op => fresh (.consumed b.number op) rfl
      freshTx := hTx
      hdrBelow := hHdr
      lockInv := li }
  exact
    { toWFRollback := wfr
      freshType := fun sc txi io => fresh (.cellType sc b.number txi io) rfl
      freshTxType := fun sc txi io t => fresh (.txType sc b.number txi io t) rfl
      typeInv := ti }

end CkbVerif.Indexer
