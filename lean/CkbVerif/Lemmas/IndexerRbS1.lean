import CkbVerif.Lemmas.IndexerStep5

/-! `rollback ∘ append` WITH same-block spends: the appended store and the rollback batch (C18). -/
namespace CkbVerif.Indexer

structure WFRollback2 (s : Store) (b : Block) : Prop extends WFAppend2 s b where
  freshLock : ∀ (sc : Script) (txi io : Nat), get s (.cellLock sc b.number txi io) = none
  freshTxLock : ∀ (sc : Script) (txi io : Nat) (t : IoType), get s (.txLock sc b.number txi io t) = none
  /-- only for inputs of the block that do NOT resolve: ConsumedOutPoint residue of a previously
  rolled-back block of the same number (which `rollback` never deletes) is allowed -/
  freshConsumed : ∀ (i : Nat) (tx : Tx) (op : OutPoint), b.txs[i]? = some tx → i ≠ 0 → op ∈ tx.inputs →
    (∀ c, ¬ Res s b op c) → get s (.consumed b.number op) = none
  freshTx : ∀ tx ∈ b.txs, get s (.txHash tx.id) = none
  hdrBelow : HdrBelow s b.number
  lockInv : LockInv s
  freshType : ∀ (sc : Script) (txi io : Nat), get s (.cellType sc b.number txi io) = none
  freshTxType : ∀ (sc : Script) (txi io : Nat) (t : IoType), get s (.txType sc b.number txi io t) = none
  typeInv : TypeInv s

variable {s : Store} {b : Block}

theorem consumed_spent2 (wf : WFRollback2 s b) (op : OutPoint) (c : Cell) (hs : Spent2 s b op c) :
    get (appendCore s b) (.consumed b.number op) = some (.cell c) := by
  rw [get_appendCore_from0 _ (by intro _ _ _ h; cases h)]
  obtain ⟨i, tx, ii, htx, hi, hop, hc⟩ := hs
  apply get_commit_all_put
  · intro o ho hk
    rcases txsOpsFrom_shape wf.toWFAppend2 0 o ho with ⟨i', tx', ii', op', c', _, htx', hi', hop', hc', ho'⟩ |
      ⟨i', tx', out', oi', _, htx', hout', ho'⟩ | ⟨i', tx', _, htx', rfl⟩
    · rw [mem_consumeOps] at ho'
      rcases ho' with rfl | rfl | ⟨t, _, rfl | rfl⟩ | rfl | rfl <;> simp [BOp.key] at hk
      subst hk
      rw [res_unique wf.toWFAppend2 _ _ _ hc' hc]
    · rw [mem_createOps] at ho'
      rcases ho' with rfl | rfl | ⟨t, _, rfl | rfl⟩ | rfl <;> simp [BOp.key] at hk
    · simp [BOp.key] at hk
  · refine ⟨.put (.consumed b.number op) (.cell c), ?_, rfl⟩
    apply consume_mem_from wf.toWFAppend2 0 i tx ii op c (Nat.zero_le _) htx hi hop hc
    rw [mem_consumeOps]
    right; right; right; right; rfl

theorem consumed_not_spent2 (wf : WFRollback2 s b) (i : Nat) (tx : Tx) (op : OutPoint)
    (htx : b.txs[i]? = some tx) (hi : i ≠ 0) (hop : op ∈ tx.inputs) (hnr : ∀ c, ¬ Res s b op c) :
    get (appendCore s b) (.consumed b.number op) = none := by
  have hns : ∀ c, ¬ Spent2 s b op c := by
    rintro c ⟨_, _, _, _, _, _, hc⟩; exact hnr c hc
  rw [get_appendCore_from0 _ (by intro _ _ _ h; cases h), ← wf.freshConsumed i tx op htx hi hop hnr]
  apply get_commit_untouched
  intro o ho hk
  rcases txsOpsFrom_shape wf.toWFAppend2 0 o ho with ⟨i', tx', ii', op', c', _, htx', hi', hop', hc', ho'⟩ |
    ⟨i', tx', out', oi', _, htx', hout', ho'⟩ | ⟨i', tx', _, htx', rfl⟩
  · rw [mem_consumeOps] at ho'
    rcases ho' with rfl | rfl | ⟨t, _, rfl | rfl⟩ | rfl | rfl <;> simp [BOp.key] at hk
    subst hk
    exact hns c' ⟨i', tx', ii', htx', hi', hop', hc'⟩
  · rw [mem_createOps] at ho'
    rcases ho' with rfl | rfl | ⟨t, _, rfl | rfl⟩ | rfl <;> simp [BOp.key] at hk
  · simp [BOp.key] at hk

theorem txHash_matched2 (wf : WFRollback2 s b) (i : Nat) (tx : Tx) (htx : b.txs[i]? = some tx)
    (hm : txMatched s b i tx = true) :
    get (appendCore s b) (.txHash tx.id) = some (.inputs tx.inputs) := by
  rw [get_appendCore_from0 _ (by intro _ _ _ h; cases h)]
  apply get_commit_all_put
  · intro o ho hk
    rcases txsOpsFrom_shape wf.toWFAppend2 0 o ho with ⟨i', tx', ii', op', c', _, htx', hi', hop', hc', ho'⟩ |
      ⟨i', tx', out', oi', _, htx', hout', ho'⟩ | ⟨i', tx', _, htx', rfl⟩
    · rw [mem_consumeOps] at ho'
      rcases ho' with rfl | rfl | ⟨t, _, rfl | rfl⟩ | rfl | rfl <;> simp [BOp.key] at hk
    · rw [mem_createOps] at ho'
      rcases ho' with rfl | rfl | ⟨t, _, rfl | rfl⟩ | rfl <;> simp [BOp.key] at hk
    · simp only [BOp.key, Key.txHash.injEq] at hk
      have := wf.idInj i' i tx' tx htx' htx hk
      subst this
      rw [htx] at htx'
      cases htx'
      rfl
  · refine ⟨.put (.txHash tx.id) (.inputs tx.inputs), ?_, rfl⟩
    rw [txsOpsFrom_zero, mem_txsOps]
    exact ⟨tx, i, htx, Or.inr (Or.inr ⟨hm, rfl⟩)⟩

theorem matched_of_spent2 (wf : WFAppend2 s b) (i : Nat) (tx : Tx) (hi : i ≠ 0)
    (ii : Nat) (op : OutPoint) (c : Cell) (hop : tx.inputs[ii]? = some op)
    (hc : Res s b op c) : txMatched s b i tx = true := by
  unfold txMatched inputsMatched
  have hmem : op ∈ tx.inputs := List.mem_of_getElem? hop
  have hl : lookupInput s b op = some c := (lookupInput_iff wf op c).mpr hc
  simp only [Bool.or_eq_true, Bool.and_eq_true, ne_eq, decide_eq_true_eq, List.any_eq_true]
  left
  exact ⟨by simpa using hi, op, hmem, by simp [hl]⟩

theorem hdrBelow_rest2 (wf : WFRollback2 s b) (k : Key) :
    HdrBelow (del (commit s (txsOps s b)) k) b.number := by
  intro e he bn h f hk
  have he1 := (List.mem_filter.mp he).1
  rcases mem_commit _ _ _ he1 with h1 | h1
  · exact wf.hdrBelow e h1 bn h f hk
  · have := txsOps_ok s b _ h1
    simp [BOp.key, hk, appendKeyOk] at this

theorem rollbackOps_append2 (wf : WFRollback2 s b) :
    rollbackOps (appendCore s b) = Rtx s b ++ [.del (.header b.number b.hash (hdrFlag s b))] := by
  unfold rollbackOps
  have : tipRow (appendCore s b) = some (b.number, b.hash, hdrFlag s b, hdrList s b) := by
    rw [appendCore_eq']
    exact tipRow_cons_header _ _ _ _ _ (hdrBelow_rest2 wf _)
  rw [this]
  rfl

/-- the output side of the rollback of one transaction: live output, or the ConsumedOutPoint
fallback for an output spent in the same block — the same deletions either way -/
theorem rbOutputOps_created2 (wf : WFRollback2 s b) (i : Nat) (tx : Tx) (oi : Nat) (out : Output)
    (htx : b.txs[i]? = some tx) (hout : tx.outputs[oi]? = some out) :
    rbOutputOps (appendCore s b) b.number i tx.id oi = uncreateOps b.number i tx.id oi out := by
  have hcr : Created b ⟨tx.id, oi⟩ ⟨b.number, i, out⟩ := ⟨i, tx, out, htx, rfl, hout, rfl⟩
  by_cases hS : ∃ c, Spent2 s b ⟨tx.id, oi⟩ c
  · obtain ⟨c, hs⟩ := hS
    have hs' := hs
    obtain ⟨_, _, _, _, _, _, hres⟩ := hs
    have hc : c = ⟨b.number, i, out⟩ := res_unique wf.toWFAppend2 _ _ _ hres (Or.inr hcr)
    subst hc
    unfold rbOutputOps uncreateOps
    simp only [outPoint_spent2 wf.toWFAppend2 _ _ hs', consumed_spent2 wf _ _ hs']
    rfl
  · exact rbOutputOps_live _ _ _ _ _ ⟨b.number, i, out⟩
      (outPoint_created2 wf.toWFAppend2 _ _ hcr (fun c h => hS ⟨c, h⟩))

theorem mem_rbTxOpsCore2 (wf : WFRollback2 s b) (i : Nat) (tx : Tx) (htx : b.txs[i]? = some tx)
    (hm : txMatched s b i tx = true) (o : BOp) :
    o ∈ rbTxOpsCore (appendCore s b) b.number tx.id i tx.outputs.length ↔
      ((∃ (oi : Nat) (out : Output), tx.outputs[oi]? = some out ∧ o ∈ uncreateOps b.number i tx.id oi out) ∨
       (i ≠ 0 ∧ ∃ (ii : Nat) (op : OutPoint) (c : Cell), tx.inputs[ii]? = some op ∧
          Res s b op c ∧ o ∈ unconsumeOps b.number i ii op c) ∨
       o = .del (.txHash tx.id)) := by
  unfold rbTxOpsCore
  rw [txHash_matched2 wf i tx htx hm]
  simp only [List.mem_append, List.mem_flatMap, List.mem_range, List.mem_singleton]
  have hout : ∀ oi, (∃ out, tx.outputs[oi]? = some out) ↔ oi < tx.outputs.length := by
    intro oi
    constructor
    · rintro ⟨out, h⟩; exact (List.getElem?_eq_some_iff.mp h).1
    · intro h; exact ⟨tx.outputs[oi], List.getElem?_eq_some_iff.mpr ⟨h, rfl⟩⟩
  have hin : ∀ ii op, tx.inputs[ii]? = some op → i ≠ 0 → ∀ o,
      (o ∈ rbInputOps (appendCore s b) b.number i ii op ↔
        ∃ c, Res s b op c ∧ o ∈ unconsumeOps b.number i ii op c) := by
    intro ii op hop hi o
    by_cases hsp : ∃ c, Res s b op c
    · obtain ⟨c, hc⟩ := hsp
      rw [rbInputOps_consumed _ _ _ _ _ c (consumed_spent2 wf op c ⟨i, tx, ii, htx, hi, hop, hc⟩)]
      constructor
      · intro h; exact ⟨c, hc, h⟩
      · rintro ⟨c', hc', h⟩
        rw [res_unique wf.toWFAppend2 _ _ _ hc hc']; exact h
    · rw [rbInputOps_none _ _ _ _ _ (consumed_not_spent2 wf i tx op htx hi (List.mem_of_getElem? hop)
        (fun c hc => hsp ⟨c, hc⟩))]
      constructor
      · intro h; cases h
      · rintro ⟨c, hc, _⟩; exact absurd ⟨c, hc⟩ hsp
  constructor
  · rintro ((⟨oi, hlt, ho⟩ | ho) | ho)
    · obtain ⟨out, hout'⟩ := (hout oi).mpr hlt
      rw [rbOutputOps_created2 wf i tx oi out htx hout'] at ho
      exact Or.inl ⟨oi, out, hout', ho⟩
    · by_cases hi : i = 0
      · simp [hi] at ho
      · simp only [hi, if_false, List.mem_flatMap] at ho
        obtain ⟨⟨op, ii⟩, hmem, ho⟩ := ho
        rw [List.mem_zipIdx_iff_getElem?] at hmem
        obtain ⟨c, hc, ho⟩ := (hin ii op hmem hi o).mp ho
        exact Or.inr (Or.inl ⟨hi, ii, op, c, hmem, hc, ho⟩)
    · exact Or.inr (Or.inr ho)
  · rintro (⟨oi, out, hout', ho⟩ | ⟨hi, ii, op, c, hop, hc, ho⟩ | ho)
    · left; left
      refine ⟨oi, (hout oi).mp ⟨out, hout'⟩, ?_⟩
      rw [rbOutputOps_created2 wf i tx oi out htx hout']
      exact ho
    · left; right
      simp only [hi, if_false, List.mem_flatMap]
      refine ⟨(op, ii), by rw [List.mem_zipIdx_iff_getElem?]; exact hop, ?_⟩
      exact (hin ii op hop hi o).mpr ⟨c, hc, ho⟩
    · right; exact ho

end CkbVerif.Indexer
