import CkbVerif.Model.Epoch

/-! Helper lemmas for C07 (core Lean only). -/
namespace CkbVerif.Epoch
open CkbVerif.Arith CkbVerif.Gen.Epoch

theorem sum_indicator (base rem : Nat) : ∀ k, ((List.range k).map (fun i => base + if i < rem then 1 else 0)).sum = base * k + min k rem := by
  intro k
  induction k with
  | zero => simp
  | succ k ih =>
    rw [List.range_succ, List.map_append, List.sum_append, ih]
    simp only [List.map_cons, List.map_nil, List.sum_cons, List.sum_nil]
    split <;> simp [Nat.mul_succ] <;> omega

theorem blockReward_eq (e : EpochExt) (i : Nat) (h2 : e.start + e.rem < U64) (h3 : e.base + 1 < U64) :
    blockReward e (e.start + i) = some (e.base + if i < e.rem then 1 else 0) := by
  unfold blockReward safeAdd chk64 chk
  simp [h2, h3]
  split <;> simp_all <;> omega

theorem boundingEpochLength_bounds {len L L' : Nat} {b : Bool}
    (h : boundingEpochLength len L = some (L', b))
    (hlo : MIN_EPOCH_LENGTH ≤ L * TAU) (hhi : L / TAU ≤ MAX_EPOCH_LENGTH) :
    MIN_EPOCH_LENGTH ≤ L' ∧ L' ≤ MAX_EPOCH_LENGTH ∧ L / TAU ≤ L' ∧ L' ≤ L * TAU := by
  unfold boundingEpochLength chk64 chk at h
  simp only [Option.bind_eq_bind] at h
  split at h
  · simp only [Option.bind_some] at h
    have hmm : MIN_EPOCH_LENGTH ≤ MAX_EPOCH_LENGTH := by decide
    have hL : L / TAU ≤ L * TAU := by
      simp only [TAU]; omega
    split at h
    · injection h with h; injection h with h1 h2; subst h1; omega
    · split at h
      · injection h with h; injection h with h1 h2; subst h1; omega
      · injection h with h; injection h with h1 h2; subst h1; omega
  · simp at h

theorem boundingHashRate_clamped {hr prev r : Nat} (h : boundingHashRate hr prev = some r) (hp : prev ≠ 0) :
    prev / TAU ≤ r ∧ r ≤ prev * TAU := by
  unfold boundingHashRate chk256 chk at h
  simp only [hp, if_false] at h
  have : prev / TAU ≤ prev * TAU := by simp only [TAU]; omega
  split at h
  · injection h with h; subst h; omega
  · simp only [Option.bind_eq_bind] at h
    split at h
    · simp only [Option.bind_some] at h
      split at h <;> (injection h with h; subst h; omega)
    · simp at h

/-- spec of the dampening filter -/
def clampSpec (hr prev : Nat) : Nat :=
  if prev = 0 then hr else max (prev / TAU) (min hr (prev * TAU))

theorem boundingHashRate_eq {hr prev r : Nat} (h : boundingHashRate hr prev = some r) :
    r = clampSpec hr prev := by
  unfold boundingHashRate chk256 chk at h
  unfold clampSpec
  by_cases hp : prev = 0
  · simp [hp] at h ⊢; omega
  · simp only [hp, if_false] at h ⊢
    have : prev / TAU ≤ prev * TAU := by simp only [TAU]; omega
    split at h
    · injection h with h; subst h; omega
    · simp only [Option.bind_eq_bind] at h
      split at h
      · simp only [Option.bind_some] at h
        split at h <;> (injection h with h; subst h; omega)
      · simp at h

theorem adjustedHashRate_some {diff L u dur prev adj : Nat} (h : adjustedHashRate diff L u dur prev = some adj) :
    dur ≠ 0 ∧ adj = max (clampSpec (diff * (L + u) / dur) prev) 1 := by
  unfold adjustedHashRate rawHashRate at h
  simp only [Option.bind_eq_bind, Option.bind_eq_some_iff, chk64, chk256, chk_eq_some, divChk_eq_some] at h
  obtain ⟨hr, ⟨blocks, ⟨_, hb⟩, prod, ⟨_, hp⟩, hd, hhr⟩, b, hb2, hadj⟩ := h
  subst hb hp hhr
  have := boundingHashRate_eq hb2
  injection hadj with hadj
  subst this
  exact ⟨hd, hadj.symm⟩


theorem nextLength_bounds {ort : URat} {T L u dur L' : Nat} {lor : URat} {b : Bool}
    (h : nextLength ort T L u dur lor = some (L', b))
    (hlo : MIN_EPOCH_LENGTH ≤ L * TAU) (hhi : L / TAU ≤ MAX_EPOCH_LENGTH) :
    MIN_EPOCH_LENGTH ≤ L' ∧ L' ≤ MAX_EPOCH_LENGTH ∧ L / TAU ≤ L' ∧ L' ≤ L * TAU := by
  unfold nextLength at h
  split at h
  · simp only [Option.bind_eq_bind, Option.bind_eq_some_iff, chk64, chk_eq_some] at h
    obtain ⟨l2, ⟨_, hl2⟩, h⟩ := h
    injection h with h; injection h with h1 h2
    subst hl2 h1
    have : L / TAU ≤ L * TAU := by simp only [TAU]; omega
    have hmm : MIN_EPOCH_LENGTH ≤ MAX_EPOCH_LENGTH := by decide
    omega
  · simp only [Option.bind_eq_bind, Option.bind_eq_some_iff] at h
    obtain ⟨q, _, raw, _, h⟩ := h
    exact boundingEpochLength_bounds h hlo hhi

theorem nextEpochExt_some {P : Params} {e o : EpochExt} {hn hc u ms : Nat}
    (h : nextEpochExt P e hn hc u ms = some o) :
    ∃ adj lor L' bound den nd R,
      adjustedHashRate (compactToDifficulty hc) e.length u (durationSecs ms) e.prevHR = some adj ∧
      URat.new u e.length = some lor ∧
      nextLength P.ort P.T e.length u (durationSecs ms) lor = some (L', bound) ∧
      diffDenominator P.ort P.T e.length (durationSecs ms) L' bound lor = some den ∧
      nextDiff adj P.T den = some nd ∧
      primaryRewardOfNext P e = some R ∧
      L' ≠ 0 ∧ e.number + 1 < U64 ∧ hn + 1 < U64 ∧
      difficultyToCompact nd = some o.compact ∧
      o = { number := e.number + 1, base := R / L', rem := R % L', prevHR := adj, start := hn + 1,
            length := L', compact := o.compact } := by
  unfold nextEpochExt at h
  simp only [Option.bind_eq_bind, Option.bind_eq_some_iff] at h
  obtain ⟨adj, h1, lor, h2, ⟨L', bound⟩, h3, den, h4, nd, h5, R, h6, base, h7, rem, h8, number, h9, start, h10, compact, h11, h12⟩ := h
  rw [divChk_eq_some] at h7
  rw [modChk_eq_some] at h8
  simp only [chk64, chk_eq_some] at h9 h10
  injection h12 with h12
  subst h12
  refine ⟨adj, lor, L', bound, den, nd, R, h1, h2, h3, h4, h5, h6, h7.1, h9.1, h10.1, h11, ?_⟩
  simp [h7.2, h8.2, h9.2, h10.2]

theorem pow_accept_iff (compact hash : Nat) :
    powVerify compact hash = true ↔
      (compactToTarget compact).1 ≠ 0 ∧ (compactToTarget compact).2 = false ∧ hash ≤ (compactToTarget compact).1 := by
  unfold powVerify
  cases h : compactToTarget compact with
  | mk t ovf =>
    simp only
    cases ovf <;> by_cases ht : t = 0 <;> simp [ht] <;> omega

theorem lor_eq_add {a b k : Nat} (hb : b < 2 ^ k) : (a * 2 ^ k) ||| b = a * 2 ^ k + b := by
  rw [← Nat.shiftLeft_eq, Nat.shiftLeft_add_eq_or_of_lt hb]

theorem enfPack_eq {n i l : Nat} (hn : n < 2 ^ EPOCH_NUMBER_BITS) (hi : i < 2 ^ EPOCH_INDEX_BITS) (hl : l < 2 ^ EPOCH_LENGTH_BITS) :
    enfPack n i l = l * 2 ^ 40 + i * 2 ^ 24 + n := by
  unfold enfPack LENGTH_OFFSET INDEX_OFFSET NUMBER_OFFSET U64
  simp only [EPOCH_NUMBER_BITS, EPOCH_INDEX_BITS, EPOCH_LENGTH_BITS, Nat.pow_zero, Nat.mul_one, Nat.reduceAdd] at *
  have h1 : l * 2 ^ 40 % 2 ^ 64 = l * 2 ^ 40 := Nat.mod_eq_of_lt (by omega)
  have h2 : i * 2 ^ 24 % 2 ^ 64 = i * 2 ^ 24 := Nat.mod_eq_of_lt (by omega)
  have h3 : n % 2 ^ 64 = n := Nat.mod_eq_of_lt (by omega)
  have h4 : i * 2 ^ 24 < 2 ^ 40 := by omega
  rw [h1, h2, h3, lor_eq_add h4]
  have h5 : l * 2 ^ 40 + i * 2 ^ 24 = (l * 2 ^ 16 + i) * 2 ^ 24 := by omega
  rw [h5, lor_eq_add hn]

theorem enf_fields (v : Nat) :
    enfNumber v = v % 2 ^ 24 ∧ enfIndex v = v / 2 ^ 24 % 2 ^ 16 ∧ enfLength v = v / 2 ^ 40 % 2 ^ 16 := by
  unfold enfNumber enfIndex enfLength NUMBER_MASK INDEX_MASK LENGTH_MASK NUMBER_OFFSET INDEX_OFFSET LENGTH_OFFSET
  simp only [EPOCH_NUMBER_BITS, EPOCH_INDEX_BITS, EPOCH_LENGTH_BITS, Nat.and_two_pow_sub_one_eq_mod]
  simp

theorem enf_roundtrip {n i l : Nat} (hn : n < 2 ^ EPOCH_NUMBER_BITS) (hi : i < 2 ^ EPOCH_INDEX_BITS) (hl : l < 2 ^ EPOCH_LENGTH_BITS) :
    enfNumber (enfPack n i l) = n ∧ enfIndex (enfPack n i l) = i ∧ enfLength (enfPack n i l) = l := by
  obtain ⟨h1, h2, h3⟩ := enf_fields (enfPack n i l)
  rw [h1, h2, h3, enfPack_eq hn hi hl]
  simp only [EPOCH_NUMBER_BITS, EPOCH_INDEX_BITS, EPOCH_LENGTH_BITS] at *
  omega

theorem enf_pack_unpack {v : Nat} (hv : v < 2 ^ (EPOCH_NUMBER_BITS + EPOCH_INDEX_BITS + EPOCH_LENGTH_BITS)) :
    enfPack (enfNumber v) (enfIndex v) (enfLength v) = v := by
  obtain ⟨h1, h2, h3⟩ := enf_fields v
  rw [h1, h2, h3, enfPack_eq] <;> simp only [EPOCH_NUMBER_BITS, EPOCH_INDEX_BITS, EPOCH_LENGTH_BITS] at * <;> omega

theorem primaryReward_some {e : EpochExt} {R : Nat} (h : primaryReward e = some R) :
    R < U64 ∧ R = e.base * e.length + e.rem := by
  unfold primaryReward at h
  simp only [Option.bind_eq_bind, Option.bind_eq_some_iff, chk64, chk_eq_some] at h
  obtain ⟨p, ⟨_, hp⟩, hlt, hR⟩ := h
  subst hp; exact ⟨by omega, hR⟩

theorem primaryEpochReward_some {P : Params} {n R : Nat} (h : primaryEpochReward P n = some R) :
    P.halving ≠ 0 ∧ n / P.halving < 64 ∧ R = P.initial / 2 ^ (n / P.halving) := by
  unfold primaryEpochReward at h
  simp only [Option.bind_eq_bind, Option.bind_eq_some_iff, divChk_eq_some] at h
  obtain ⟨hh, ⟨h0, hh2⟩, h⟩ := h
  subst hh2
  split at h
  · injection h with h; exact ⟨h0, by assumption, h.symm⟩
  · simp at h

theorem primaryRewardOfNext_some {P : Params} {e : EpochExt} {R : Nat} (h : primaryRewardOfNext P e = some R) :
    e.number + 1 < U64 ∧
    ((isMultipleOf (e.number + 1) P.halving = false ∧ primaryReward e = some R) ∨
     (isMultipleOf (e.number + 1) P.halving = true ∧ primaryEpochReward P (e.number + 1) = some R)) := by
  unfold primaryRewardOfNext at h
  simp only [Option.bind_eq_bind, Option.bind_eq_some_iff, chk64, chk_eq_some] at h
  obtain ⟨n1, ⟨hlt, hn1⟩, h⟩ := h
  subst hn1
  refine ⟨hlt, ?_⟩
  cases hm : isMultipleOf (e.number + 1) P.halving <;> simp [hm] at h ⊢ <;> exact h

theorem primaryEpochReward_eq {P : Params} (n : Nat) (hh : P.halving ≠ 0) (hlt : n / P.halving < 64) :
    primaryEpochReward P n = some (P.initial / 2 ^ (n / P.halving)) := by
  unfold primaryEpochReward divChk
  simp [hh, hlt]

theorem succ_div_of_not_dvd {n h : Nat} (hh : h ≠ 0) (hm : (n + 1) % h ≠ 0) : (n + 1) / h = n / h := by
  have h1 := Nat.div_add_mod (n + 1) h
  have h2 := Nat.mod_lt (n + 1) (Nat.pos_of_ne_zero hh)
  symm
  apply Nat.div_eq_of_lt_le
  · rw [Nat.mul_comm]; omega
  · rw [Nat.add_mul, Nat.one_mul, Nat.mul_comm]; omega

/-- number/index/length of a well-formed successor are the next position -/
theorem enfIsSuccessorOf_iff (self pred : Nat) :
    enfIsSuccessorOf self pred = true ↔
      (if enfIndex pred + 1 = enfLength pred
        then enfNumber self = enfNumber pred + 1 ∧ enfIndex self = 0
        else enfNumber self = enfNumber pred ∧ enfIndex self = enfIndex pred + 1 ∧ enfLength self = enfLength pred) := by
  unfold enfIsSuccessorOf
  split <;> simp [and_assoc]

theorem epochVerify_ok_iff (parent header : Nat) :
    epochVerify parent header = .ok ↔
      enfIsWellFormed header = true ∧ (enfIsGenesis parent = true ∨ enfIsSuccessorOf header parent = true) := by
  unfold epochVerify
  cases enfIsWellFormed header <;> cases enfIsGenesis parent <;> cases enfIsSuccessorOf header parent <;> simp


end CkbVerif.Epoch
