import CkbVerif.Model.RulesIndex
import CkbVerif.Lemmas.RulesChain

/-! Lemmas about the attach/detach-maintained store indexes (C03): `detach ∘ attach = id` on fresh
keys, hence after any history of reorgs the index is the index of the main chain alone. -/
namespace CkbVerif.Rules

namespace KV
variable {α : Type}

theorem putAll_apply_of_not_mem (rows : List (Nat × α)) (m : KV α) (x : Nat) (h : ∀ r ∈ rows, r.1 ≠ x) :
    (m.putAll rows) x = m x := by
  induction rows generalizing m with
  | nil => rfl
  | cons r rs ih =>
    simp only [putAll]
    rw [ih _ (fun r' hr' => h r' (List.mem_cons_of_mem _ hr'))]
    have : r.1 ≠ x := h r (List.mem_cons_self ..)
    simp [put, Ne.symm this]

theorem delAll_apply (ks : List Nat) (m : KV α) (x : Nat) :
    (m.delAll ks) x = if x ∈ ks then none else m x := by
  induction ks generalizing m with
  | nil => simp [delAll]
  | cons k ks ih =>
    simp only [delAll, ih, del, List.mem_cons]
    by_cases h1 : x ∈ ks <;> by_cases h2 : x = k <;> simp [h1, h2]

/-- deleting the keys of the rows just written restores a column in which those keys were absent -/
theorem delAll_putAll (rows : List (Nat × α)) (m : KV α) (hf : ∀ r ∈ rows, m r.1 = none) :
    (m.putAll rows).delAll (rows.map (·.1)) = m := by
  funext x
  rw [delAll_apply]
  by_cases hx : x ∈ rows.map (·.1)
  · simp only [hx, if_true]
    obtain ⟨r, hr, hrx⟩ := List.mem_map.mp hx
    rw [← hrx]; exact (hf r hr).symm
  · simp only [hx, if_false]
    exact putAll_apply_of_not_mem rows m x (fun r hr hrx => hx (List.mem_map.mpr ⟨r, hr, hrx⟩))

/-- the last row written under a key wins -/
theorem putAll_append (r1 r2 : List (Nat × α)) (m : KV α) : m.putAll (r1 ++ r2) = (m.putAll r1).putAll r2 := by
  induction r1 generalizing m with
  | nil => rfl
  | cons r rs ih => simp [putAll, ih]

end KV

/-- `detach_block` undoes `attach_block` when the block's keys were fresh -/
theorem detach_attach (b : Blk) (x : Idx) (h : FreshIn b x) : detachIdx b (attachIdx b x) = x := by
  obtain ⟨h1, h2, h3, h4, h5⟩ := h
  cases x
  simp only [detachIdx, attachIdx, Idx.mk.injEq]
  exact ⟨KV.delAll_putAll _ _ h2, KV.delAll_putAll _ _ h4, KV.delAll_putAll _ _ h3,
    KV.delAll_putAll _ _ h1, KV.delAll_putAll _ _ h5⟩

theorem attachChain_append (l1 l2 : List Blk) (x : Idx) :
    attachChain (l1 ++ l2) x = attachChain l2 (attachChain l1 x) := by
  induction l1 generalizing x with
  | nil => rfl
  | cons b bs ih => simp [attachChain, ih]

theorem freshChain_append (l1 l2 : List Blk) (x : Idx) :
    FreshChain (l1 ++ l2) x ↔ FreshChain l1 x ∧ FreshChain l2 (attachChain l1 x) := by
  induction l1 generalizing x with
  | nil => simp [FreshChain, attachChain]
  | cons b bs ih => simp [FreshChain, attachChain, ih, and_assoc]

/-- `rollback` undoes `reconcile_main_chain`'s attaches -/
theorem detachChain_attachChain (bs : List Blk) (x : Idx) (h : FreshChain bs x) :
    detachChain detachIdx bs (attachChain bs x) = x := by
  induction bs generalizing x with
  | nil => rfl
  | cons b bs ih =>
    obtain ⟨hb, hbs⟩ := h
    simp only [attachChain, detachChain]
    rw [ih _ hbs, detach_attach b x hb]

/-- one new-best-block event keeps "the index is the index of the main chain alone" -/
theorem reorg_idx (g : Blk) (s : IdxSt) (keep : Nat) (branch : List Blk)
    (hidx : s.idx = idxOfChain g s.chain) (hfresh : FreshChain s.chain (idxInit g)) :
    (reorg s keep branch).idx = idxOfChain g (reorg s keep branch).chain := by
  have hsplit : s.chain = s.chain.take keep ++ s.chain.drop keep := (List.take_append_drop keep s.chain).symm
  have hf := hfresh
  rw [hsplit, freshChain_append] at hf
  simp only [reorg, reorgWith, idxOfChain, attachChain_append]
  congr 1
  rw [hidx]
  show detachChain detachIdx (List.drop keep s.chain) (idxOfChain g s.chain) = _
  unfold idxOfChain
  conv => lhs; rw [hsplit, attachChain_append]
  simp only [List.take_append_drop]
  exact detachChain_attachChain _ _ hf.2

theorem runReorgs_inv (g : Blk) : ∀ (steps : List (Nat × List Blk)) (s : IdxSt),
    s.idx = idxOfChain g s.chain → FreshChain s.chain (idxInit g) → StepsOk g s steps →
    (runReorgsWith detachIdx s steps).idx = idxOfChain g (runReorgsWith detachIdx s steps).chain ∧
    FreshChain (runReorgsWith detachIdx s steps).chain (idxInit g) := by
  intro steps
  induction steps with
  | nil => intro s h1 h2 _; exact ⟨h1, h2⟩
  | cons st rest ih =>
    intro s h1 h2 hok
    obtain ⟨keep, branch⟩ := st
    simp only [runReorgsWith]
    obtain ⟨hfr, hrest⟩ := hok
    exact ih (reorg s keep branch) (reorg_idx g s keep branch h1 h2) hfr hrest

/-! decidability of the freshness predicates (for the concrete witnesses) -/

instance decFreshIn (b : Blk) (x : Idx) : Decidable (FreshIn b x) := by
  unfold FreshIn; infer_instance

instance decFreshChain : (bs : List Blk) → (x : Idx) → Decidable (FreshChain bs x)
  | [], _ => isTrue trivial
  | b :: bs, x =>
    match decFreshIn b x, decFreshChain bs (attachIdx b x) with
    | isTrue h1, isTrue h2 => isTrue ⟨h1, h2⟩
    | isFalse h1, _ => isFalse (fun h => h1 h.1)
    | _, isFalse h2 => isFalse (fun h => h2 h.2)

instance decStepsOk (g : Blk) : (s : IdxSt) → (steps : List (Nat × List Blk)) → Decidable (StepsOk g s steps)
  | _, [] => isTrue trivial
  | s, (keep, branch) :: rest =>
    match decFreshChain (s.chain.take keep ++ branch) (idxInit g), decStepsOk g (reorg s keep branch) rest with
    | isTrue h1, isTrue h2 => isTrue ⟨h1, h2⟩
    | isFalse h1, _ => isFalse (fun h => h1 h.1)
    | _, isFalse h2 => isFalse (fun h => h2 h.2)

/-! ## the index of a chain, read newest first -/

/-- `anc` newest first, the genesis block last -/
def idxOfAnc : List Blk → Idx
  | [] => Idx.empty
  | b :: rest => attachIdx b (idxOfAnc rest)

theorem attachChain_eq_idxOfAnc (chain rest : List Blk) :
    attachChain chain (idxOfAnc rest) = idxOfAnc (chain.reverse ++ rest) := by
  induction chain generalizing rest with
  | nil => rfl
  | cons b bs ih =>
    simp only [attachChain, List.reverse_cons, List.append_assoc, List.singleton_append]
    exact ih (b :: rest)

theorem idxOfChain_eq_idxOfAnc (g : Blk) (chain : List Blk) : idxOfChain g chain = idxOfAnc (chain.reverse ++ [g]) := by
  unfold idxOfChain idxInit
  exact attachChain_eq_idxOfAnc chain [g]

/-- `get_block_number` on the index of a chain = the number of the newest block of the chain with
that hash (what `cxOf` computes from the ancestors) -/
theorem idxOfAnc_numOf (anc : List Blk) (h : Nat) :
    (idxOfAnc anc).numOf h = (anc.find? (fun a => a.id == h)).map (·.number) := by
  induction anc with
  | nil => rfl
  | cons b rest ih =>
    simp only [idxOfAnc, attachIdx, Blk.rowsNumOf, KV.putAll, KV.put, List.find?_cons]
    by_cases hb : h = b.id
    · subst hb; simp
    · have : (b.id == h) = false := by simpa using (Ne.symm hb)
      simp [hb, this, ih]

/-- equal uncle hashes are equal headers (collision-free hashing) -/
def UncleIdsFunctional (us : List Uncle) : Prop := ∀ u ∈ us, ∀ v ∈ us, u.id = v.id → u.number = v.number

theorem putAll_uncles (us : List Uncle) (m : KV Nat) (h : Nat) (hf : UncleIdsFunctional us) :
    (m.putAll (us.map fun u => (u.id, u.number))) h =
      match us.find? (fun u => u.id == h) with
      | some u => some u.number
      | none => m h := by
  induction us generalizing m with
  | nil => rfl
  | cons u us ih =>
    have hf' : UncleIdsFunctional us := fun a ha b hb => hf a (List.mem_cons_of_mem _ ha) b (List.mem_cons_of_mem _ hb)
    simp only [List.map_cons, KV.putAll, List.find?_cons]
    rw [ih _ hf']
    by_cases hu : u.id = h
    · have hb : (u.id == h) = true := by simpa using hu
      simp only [hb]
      cases hfind : us.find? (fun u => u.id == h) with
      | none => simp [KV.put, hu]
      | some v =>
        have hv := List.mem_of_find?_eq_some hfind
        have hvid : v.id = h := by simpa using List.find?_some hfind
        have := hf u (List.mem_cons_self ..) v (List.mem_cons_of_mem _ hv) (hu.trans hvid.symm)
        simp [this]
    · have hb : (u.id == h) = false := by simpa using hu
      simp only [hb]
      cases hfind : us.find? (fun u => u.id == h) with
      | none => simp [KV.put, Ne.symm hu]
      | some v => rfl

/-- `get_uncle_header` on the index of a chain = the newest embedded uncle with that hash -/
theorem idxOfAnc_uncle (anc : List Blk) (h : Nat) (hf : UncleIdsFunctional (anc.flatMap (·.uncles))) :
    (idxOfAnc anc).uncle h = ((anc.flatMap (·.uncles)).find? (fun u => u.id == h)).map (·.number) := by
  induction anc with
  | nil => rfl
  | cons b rest ih =>
    have hf1 : UncleIdsFunctional b.uncles := fun a ha c hc =>
      hf a (by simp [ha]) c (by simp [hc])
    have hf2 : UncleIdsFunctional (rest.flatMap (·.uncles)) := fun a ha c hc =>
      hf a (by simp only [List.flatMap_cons, List.mem_append]; exact Or.inr ha)
        c (by simp only [List.flatMap_cons, List.mem_append]; exact Or.inr hc)
    simp only [idxOfAnc, attachIdx, Blk.rowsUncle, List.flatMap_cons, List.find?_append]
    rw [putAll_uncles _ _ _ hf1, ih hf2]
    cases b.uncles.find? (fun u => u.id == h) <;> simp

/-! ## the uncle rules read the context only through `get_block_number` and `get_uncle_header` -/

theorem uncleCheck_congr (cfg : Cfg) (cx1 cx2 : Cx) (b : Blk) (inc : List (Nat × Nat)) (u : Uncle)
    (h1 : cx1.mainNum = cx2.mainNum) (h2 : cx1.uncleNum = cx2.uncleNum) :
    uncleCheck cfg cx1 b inc u = uncleCheck cfg cx2 b inc u := by
  have hd : cx1.descendant u = cx2.descendant u := by simp [Cx.descendant, h1, h2]
  have hi : cx1.doubleInclusion u.id = cx2.doubleInclusion u.id := by simp [Cx.doubleInclusion, h1, h2]
  simp only [uncleCheck, hd, hi]

theorem unclesLoop_congr (cfg : Cfg) (cx1 cx2 : Cx) (b : Blk) (h1 : cx1.mainNum = cx2.mainNum)
    (h2 : cx1.uncleNum = cx2.uncleNum) : ∀ (us : List Uncle) (inc : List (Nat × Nat)),
    unclesLoop cfg cx1 b inc us = unclesLoop cfg cx2 b inc us := by
  intro us
  induction us with
  | nil => intro inc; rfl
  | cons u us ih =>
    intro inc
    simp only [unclesLoop, uncleCheck_congr cfg cx1 cx2 b inc u h1 h2, ih]

theorem unclesCheck_congr (cfg : Cfg) (cx1 cx2 : Cx) (b : Blk) (h1 : cx1.mainNum = cx2.mainNum)
    (h2 : cx1.uncleNum = cx2.uncleNum) : unclesCheck cfg cx1 b = unclesCheck cfg cx2 b := by
  simp only [unclesCheck, unclesLoop_congr cfg cx1 cx2 b h1 h2]

end CkbVerif.Rules
