import CkbVerif.Lemmas.IndexerMem

/-! What one `append` does to the OutPoint and CellLockScript rows, for blocks whose inputs are all
resolved in the store (no same-block spends) (C18). -/
namespace CkbVerif.Indexer

/-- no input refers to a transaction of the same block -/
def NoSame (b : Block) : Prop :=
  ∀ (i : Nat) (tx : Tx), b.txs[i]? = some tx → ∀ op ∈ tx.inputs, ∀ tx' ∈ b.txs, tx'.id ≠ op.tx

/-- well-formedness of a block for a store (as far as OutPoint / CellLockScript rows are concerned) -/
structure WFAppend (s : Store) (b : Block) : Prop where
  idInj : ∀ (i i' : Nat) (tx tx' : Tx), b.txs[i]? = some tx → b.txs[i']? = some tx' → tx.id = tx'.id → i = i'
  freshOut : ∀ tx ∈ b.txs, ∀ oi, get s (.outPoint ⟨tx.id, oi⟩) = none
  cellVal : ∀ (op : OutPoint) (v : Val), get s (.outPoint op) = some v → ∃ c, v = .cell c
  oldBn : ∀ (op : OutPoint) (c : Cell), get s (.outPoint op) = some (.cell c) → c.bn ≠ b.number
  noSame : NoSame b

/-- `op` is created by the block as cell `c` -/
def Created (b : Block) (op : OutPoint) (c : Cell) : Prop :=
  ∃ (i : Nat) (tx : Tx) (out : Output), b.txs[i]? = some tx ∧ tx.id = op.tx ∧ tx.outputs[op.idx]? = some out ∧ c = ⟨b.number, i, out⟩

/-- `op` (live in `s` as `c`) is an input of a non-cellbase transaction of the block -/
def SpentIn (s : Store) (b : Block) (op : OutPoint) (c : Cell) : Prop :=
  ∃ (i : Nat) (tx : Tx) (ii : Nat), b.txs[i]? = some tx ∧ i ≠ 0 ∧ tx.inputs[ii]? = some op ∧ get s (.outPoint op) = some (.cell c)

theorem lookupInput_noSame (s : Store) (b : Block) (op : OutPoint)
    (hop : ∀ tx' ∈ b.txs, tx'.id ≠ op.tx)
    (hcell : ∀ v, get s (.outPoint op) = some v → ∃ c, v = .cell c) (c : Cell) :
    lookupInput s b op = some c ↔ get s (.outPoint op) = some (.cell c) := by
  unfold lookupInput
  have hfind : b.txs.zipIdx.find? (fun p => p.1.id = op.tx) = none := by
    rw [List.find?_eq_none]
    intro p hp
    rw [List.mem_zipIdx_iff_getElem?] at hp
    have : p.1 ∈ b.txs := List.mem_of_getElem? hp
    simpa using hop p.1 this
  cases hg : get s (.outPoint op) with
  | none => simp [hfind]
  | some v =>
    obtain ⟨c', rfl⟩ := hcell v hg
    simp

/-- the shapes of the entries of the transaction part of the batch, for a well-formed block -/
theorem txsOps_shape (s : Store) (b : Block) (wf : WFAppend s b) (o : BOp) (ho : o ∈ txsOps s b) :
    (∃ (i : Nat) (tx : Tx) (ii : Nat) (op : OutPoint) (c : Cell), b.txs[i]? = some tx ∧ i ≠ 0 ∧ tx.inputs[ii]? = some op ∧
        get s (.outPoint op) = some (.cell c) ∧ o ∈ consumeOps b.number i ii tx.id op c) ∨
    (∃ (i : Nat) (tx : Tx) (out : Output) (oi : Nat), b.txs[i]? = some tx ∧ tx.outputs[oi]? = some out ∧
        o ∈ createOps b.number i tx.id oi out) ∨
    (∃ (i : Nat) (tx : Tx), b.txs[i]? = some tx ∧ o = .put (.txHash tx.id) (.inputs tx.inputs)) := by
  rw [mem_txsOps] at ho
  obtain ⟨tx, i, htx, ho⟩ := ho
  rcases ho with ho | ho | ⟨_, ho⟩
  · rw [mem_inputsOps] at ho
    obtain ⟨hi, op, ii, c, hop, hl, ho⟩ := ho
    have hmem : op ∈ tx.inputs := List.mem_of_getElem? hop
    rw [lookupInput_noSame s b op (wf.noSame i tx htx op hmem) (wf.cellVal op)] at hl
    exact Or.inl ⟨i, tx, ii, op, c, htx, hi, hop, hl, ho⟩
  · rw [mem_outputsOps] at ho
    obtain ⟨out, oi, hout, ho⟩ := ho
    exact Or.inr (Or.inl ⟨i, tx, out, oi, htx, hout, ho⟩)
  · exact Or.inr (Or.inr ⟨i, tx, htx, ho⟩)

theorem consume_mem_txsOps (s : Store) (b : Block) (wf : WFAppend s b) (i : Nat) (tx : Tx) (ii : Nat)
    (op : OutPoint) (c : Cell) (htx : b.txs[i]? = some tx) (hi : i ≠ 0) (hop : tx.inputs[ii]? = some op)
    (hc : get s (.outPoint op) = some (.cell c)) (o : BOp) (ho : o ∈ consumeOps b.number i ii tx.id op c) :
    o ∈ txsOps s b := by
  rw [mem_txsOps]
  refine ⟨tx, i, htx, Or.inl ?_⟩
  rw [mem_inputsOps]
  refine ⟨hi, op, ii, c, hop, ?_, ho⟩
  rw [lookupInput_noSame s b op (wf.noSame i tx htx op (List.mem_of_getElem? hop)) (wf.cellVal op)]
  exact hc

theorem create_mem_txsOps (s : Store) (b : Block) (i : Nat) (tx : Tx) (out : Output) (oi : Nat)
    (htx : b.txs[i]? = some tx) (hout : tx.outputs[oi]? = some out) (o : BOp)
    (ho : o ∈ createOps b.number i tx.id oi out) : o ∈ txsOps s b := by
  rw [mem_txsOps]
  refine ⟨tx, i, htx, Or.inr (Or.inl ?_)⟩
  rw [mem_outputsOps]
  exact ⟨out, oi, hout, ho⟩

/-- a key other than a Header key is decided by the transaction part of the batch -/
theorem get_appendCore_nonheader (s : Store) (b : Block) (k : Key)
    (hk : ∀ bn h f, k ≠ .header bn h f) : get (appendCore s b) k = get (commit s (txsOps s b)) k := by
  unfold appendCore
  rw [appendOps_eq, commit_append]
  obtain ⟨f, l, h⟩ := headerOp_eq s b
  rw [h]
  show get (applyOp (commit s (txsOps s b)) (.put (.header b.number b.hash f) (.txs l))) k = _
  apply get_applyOp_other
  simp only [BOp.key]
  exact fun heq => hk _ _ _ heq.symm

end CkbVerif.Indexer

namespace CkbVerif.Indexer

theorem created_fresh (s : Store) (b : Block) (wf : WFAppend s b) (op : OutPoint) (c : Cell)
    (hc : Created b op c) : get s (.outPoint op) = none := by
  obtain ⟨i, tx, out, htx, hid, _, _⟩ := hc
  have := wf.freshOut tx (List.mem_of_getElem? htx) op.idx
  rw [hid] at this
  exact this

/-- **created cells are live**: an output of the block is an OutPoint row after `append` -/
theorem outPoint_created (s : Store) (b : Block) (wf : WFAppend s b) (op : OutPoint) (c : Cell)
    (hc : Created b op c) : get (appendCore s b) (.outPoint op) = some (.cell c) := by
  rw [get_appendCore_nonheader s b _ (by intro _ _ _ h; cases h)]
  have hfresh := created_fresh s b wf op c hc
  obtain ⟨i, tx, out, htx, hid, hout, rfl⟩ := hc
  apply get_commit_all_put
  · intro o ho hk
    rcases txsOps_shape s b wf o ho with ⟨i', tx', ii, op', c', htx', hi', hop', hc', ho'⟩ |
      ⟨i', tx', out', oi', htx', hout', ho'⟩ | ⟨i', tx', htx', rfl⟩
    · rw [mem_consumeOps] at ho'
      rcases ho' with rfl | rfl | ⟨t, _, rfl | rfl⟩ | rfl | rfl <;> simp [BOp.key] at hk
      subst hk
      rw [hfresh] at hc'
      cases hc'
    · rw [mem_createOps] at ho'
      rcases ho' with rfl | rfl | ⟨t, _, rfl | rfl⟩ | rfl <;> simp [BOp.key] at hk
      have hid' : tx'.id = tx.id := by rw [hid, ← hk]
      have hi : i' = i := wf.idInj i' i tx' tx htx' htx hid'
      subst hi
      rw [htx] at htx'
      cases htx'
      have hoi : oi' = op.idx := by rw [← hk]
      subst hoi
      rw [hout] at hout'
      cases hout'
      cases op
      simp_all
    · simp [BOp.key] at hk
  · refine ⟨.put (.outPoint op) (.cell ⟨b.number, i, out⟩), ?_, rfl⟩
    apply create_mem_txsOps s b i tx out op.idx htx hout
    rw [mem_createOps]
    right; right; right
    cases op
    simp_all

/-- **spent cells are dead**: a live cell spent by the block is no OutPoint row after `append` -/
theorem outPoint_spent (s : Store) (b : Block) (wf : WFAppend s b) (op : OutPoint) (c : Cell)
    (hs : SpentIn s b op c) : get (appendCore s b) (.outPoint op) = none := by
  rw [get_appendCore_nonheader s b _ (by intro _ _ _ h; cases h)]
  obtain ⟨i, tx, ii, htx, hi, hop, hc⟩ := hs
  apply get_commit_all_del
  · intro o ho hk
    rcases txsOps_shape s b wf o ho with ⟨i', tx', ii', op', c', htx', hi', hop', hc', ho'⟩ |
      ⟨i', tx', out', oi', htx', hout', ho'⟩ | ⟨i', tx', htx', rfl⟩
    · rw [mem_consumeOps] at ho'
      rcases ho' with rfl | rfl | ⟨t, _, rfl | rfl⟩ | rfl | rfl <;> simp [BOp.key] at hk
      subst hk
      rfl
    · rw [mem_createOps] at ho'
      rcases ho' with rfl | rfl | ⟨t, _, rfl | rfl⟩ | rfl <;> simp [BOp.key] at hk
      have := wf.freshOut tx' (List.mem_of_getElem? htx') oi'
      rw [hk, hc] at this
      cases this
    · simp [BOp.key] at hk
  · refine ⟨.del (.outPoint op), ?_, rfl⟩
    apply consume_mem_txsOps s b wf i tx ii op c htx hi hop hc
    rw [mem_consumeOps]
    right; right; right; left; rfl

/-- **everything else is untouched** -/
theorem outPoint_other (s : Store) (b : Block) (wf : WFAppend s b) (op : OutPoint)
    (hnc : ∀ c, ¬ Created b op c) (hns : ∀ c, ¬ SpentIn s b op c) :
    get (appendCore s b) (.outPoint op) = get s (.outPoint op) := by
  rw [get_appendCore_nonheader s b _ (by intro _ _ _ h; cases h)]
  apply get_commit_untouched
  intro o ho hk
  rcases txsOps_shape s b wf o ho with ⟨i', tx', ii', op', c', htx', hi', hop', hc', ho'⟩ |
    ⟨i', tx', out', oi', htx', hout', ho'⟩ | ⟨i', tx', htx', rfl⟩
  · rw [mem_consumeOps] at ho'
    rcases ho' with rfl | rfl | ⟨t, _, rfl | rfl⟩ | rfl | rfl <;> simp [BOp.key] at hk
    subst hk
    exact hns c' ⟨i', tx', ii', htx', hi', hop', hc'⟩
  · rw [mem_createOps] at ho'
    rcases ho' with rfl | rfl | ⟨t, _, rfl | rfl⟩ | rfl <;> simp [BOp.key] at hk
    apply hnc ⟨b.number, i', out'⟩
    refine ⟨i', tx', out', htx', ?_, ?_, rfl⟩
    · rw [← hk]
    · rw [← hk]; exact hout'
  · simp [BOp.key] at hk

end CkbVerif.Indexer

namespace CkbVerif.Indexer

/-- a created cell gets its CellLockScript row -/
theorem cellLock_created (s : Store) (b : Block) (wf : WFAppend s b) (i : Nat) (tx : Tx) (oi : Nat)
    (out : Output) (htx : b.txs[i]? = some tx) (hout : tx.outputs[oi]? = some out) :
    get (appendCore s b) (.cellLock out.lock b.number i oi) = some (.tx tx.id) := by
  rw [get_appendCore_nonheader s b _ (by intro _ _ _ h; cases h)]
  apply get_commit_all_put
  · intro o ho hk
    rcases txsOps_shape s b wf o ho with ⟨i', tx', ii', op', c', htx', hi', hop', hc', ho'⟩ |
      ⟨i', tx', out', oi', htx', hout', ho'⟩ | ⟨i', tx', htx', rfl⟩
    · rw [mem_consumeOps] at ho'
      rcases ho' with rfl | rfl | ⟨t, _, rfl | rfl⟩ | rfl | rfl <;> simp [BOp.key] at hk
      exact absurd hk.2.1 (wf.oldBn op' c' hc')
    · rw [mem_createOps] at ho'
      rcases ho' with rfl | rfl | ⟨t, _, rfl | rfl⟩ | rfl <;> simp [BOp.key] at hk
      obtain ⟨hl, hi, hoi⟩ := hk
      subst hi; subst hoi
      rw [htx] at htx'
      cases htx'
      rw [hl]
    · simp [BOp.key] at hk
  · refine ⟨.put (.cellLock out.lock b.number i oi) (.tx tx.id), ?_, rfl⟩
    apply create_mem_txsOps s b i tx out oi htx hout
    rw [mem_createOps]
    left; rfl

/-- a spent cell loses its CellLockScript row -/
theorem cellLock_spent (s : Store) (b : Block) (wf : WFAppend s b) (op : OutPoint) (c : Cell)
    (hs : SpentIn s b op c) :
    get (appendCore s b) (.cellLock c.out.lock c.bn c.txIdx op.idx) = none := by
  rw [get_appendCore_nonheader s b _ (by intro _ _ _ h; cases h)]
  obtain ⟨i, tx, ii, htx, hi, hop, hc⟩ := hs
  apply get_commit_all_del
  · intro o ho hk
    rcases txsOps_shape s b wf o ho with ⟨i', tx', ii', op', c', htx', hi', hop', hc', ho'⟩ |
      ⟨i', tx', out', oi', htx', hout', ho'⟩ | ⟨i', tx', htx', rfl⟩
    · rw [mem_consumeOps] at ho'
      rcases ho' with rfl | rfl | ⟨t, _, rfl | rfl⟩ | rfl | rfl <;> simp [BOp.key] at hk
      simp [hk]
    · rw [mem_createOps] at ho'
      rcases ho' with rfl | rfl | ⟨t, _, rfl | rfl⟩ | rfl <;> simp [BOp.key] at hk
      exact absurd hk.2.1.symm (wf.oldBn op c hc)
    · simp [BOp.key] at hk
  · refine ⟨.del (.cellLock c.out.lock c.bn c.txIdx op.idx), ?_, rfl⟩
    apply consume_mem_txsOps s b wf i tx ii op c htx hi hop hc
    rw [mem_consumeOps]
    left; rfl

/-- every other CellLockScript row is untouched -/
theorem cellLock_other (s : Store) (b : Block) (wf : WFAppend s b) (sc : Script) (bn txi io : Nat)
    (hnc : ¬ ∃ (tx : Tx) (out : Output), b.txs[txi]? = some tx ∧ tx.outputs[io]? = some out ∧
      out.lock = sc ∧ bn = b.number)
    (hns : ¬ ∃ (op : OutPoint) (c : Cell), SpentIn s b op c ∧ c.out.lock = sc ∧ c.bn = bn ∧
      c.txIdx = txi ∧ op.idx = io) :
    get (appendCore s b) (.cellLock sc bn txi io) = get s (.cellLock sc bn txi io) := by
  rw [get_appendCore_nonheader s b _ (by intro _ _ _ h; cases h)]
  apply get_commit_untouched
  intro o ho hk
  rcases txsOps_shape s b wf o ho with ⟨i', tx', ii', op', c', htx', hi', hop', hc', ho'⟩ |
    ⟨i', tx', out', oi', htx', hout', ho'⟩ | ⟨i', tx', htx', rfl⟩
  · rw [mem_consumeOps] at ho'
    rcases ho' with rfl | rfl | ⟨t, _, rfl | rfl⟩ | rfl | rfl <;> simp [BOp.key] at hk
    exact hns ⟨op', c', ⟨i', tx', ii', htx', hi', hop', hc'⟩, hk.1, hk.2.1, hk.2.2.1, hk.2.2.2⟩
  · rw [mem_createOps] at ho'
    rcases ho' with rfl | rfl | ⟨t, _, rfl | rfl⟩ | rfl <;> simp [BOp.key] at hk
    obtain ⟨hl, hb, hi, hoi⟩ := hk
    subst hi; subst hoi
    exact hnc ⟨tx', out', htx', hout', hl, hb.symm⟩
  · simp [BOp.key] at hk

/-- the CellLockScript index describes exactly the OutPoint rows (the live cells) -/
def LockInv (s : Store) : Prop :=
  ∀ (sc : Script) (bn txi io t : Nat),
    get s (.cellLock sc bn txi io) = some (.tx t) ↔
      ∃ c : Cell, get s (.outPoint ⟨t, io⟩) = some (.cell c) ∧ c.out.lock = sc ∧ c.bn = bn ∧ c.txIdx = txi

/-- **the invariant is preserved by `append`** (blocks without same-block spends) -/
theorem lockInv_append (s : Store) (b : Block) (wf : WFAppend s b) (inv : LockInv s) :
    LockInv (appendCore s b) := by
  intro sc bn txi io t
  constructor
  · intro h
    by_cases hA : ∃ (tx : Tx) (out : Output), b.txs[txi]? = some tx ∧ tx.outputs[io]? = some out ∧
        out.lock = sc ∧ bn = b.number
    · obtain ⟨tx, out, htx, hout, hl, hb⟩ := hA
      subst hl; subst hb
      rw [cellLock_created s b wf txi tx io out htx hout] at h
      have ht : tx.id = t := by simpa using h
      refine ⟨⟨b.number, txi, out⟩, ?_, rfl, rfl, rfl⟩
      apply outPoint_created s b wf
      exact ⟨txi, tx, out, htx, ht, hout, rfl⟩
    · by_cases hB : ∃ (op : OutPoint) (c : Cell), SpentIn s b op c ∧ c.out.lock = sc ∧ c.bn = bn ∧
          c.txIdx = txi ∧ op.idx = io
      · obtain ⟨op, c, hs, hl, hb, hti, hio⟩ := hB
        subst hl; subst hb; subst hti; subst hio
        rw [cellLock_spent s b wf op c hs] at h
        cases h
      · rw [cellLock_other s b wf sc bn txi io hA hB] at h
        obtain ⟨c, hc, hl, hb, hti⟩ := (inv sc bn txi io t).mp h
        refine ⟨c, ?_, hl, hb, hti⟩
        rw [outPoint_other s b wf ⟨t, io⟩]
        · exact hc
        · intro c0 hc0
          rw [created_fresh s b wf _ c0 hc0] at hc
          cases hc
        · intro c0 hs0
          have : c0 = c := by
            obtain ⟨_, _, _, _, _, _, hg⟩ := hs0
            rw [hc] at hg
            cases hg; rfl
          subst this
          exact hB ⟨⟨t, io⟩, c0, hs0, hl, hb, hti, rfl⟩
  · rintro ⟨c, hc, hl, hb, hti⟩
    by_cases hC : ∃ c0, Created b ⟨t, io⟩ c0
    · obtain ⟨c0, hc0⟩ := hC
      rw [outPoint_created s b wf _ c0 hc0] at hc
      have : c0 = c := by cases hc; rfl
      subst this
      obtain ⟨i, tx, out, htx, hid, hout, rfl⟩ := hc0
      simp only at hl hb hti hid hout
      subst hl; subst hb; subst hti
      rw [cellLock_created s b wf i tx io out htx hout, hid]
    · by_cases hS : ∃ c0, SpentIn s b ⟨t, io⟩ c0
      · obtain ⟨c0, hs0⟩ := hS
        rw [outPoint_spent s b wf _ c0 hs0] at hc
        cases hc
      · rw [outPoint_other s b wf ⟨t, io⟩ (fun c0 h => hC ⟨c0, h⟩) (fun c0 h => hS ⟨c0, h⟩)] at hc
        have hrow := (inv sc bn txi io t).mpr ⟨c, hc, hl, hb, hti⟩
        rw [cellLock_other s b wf sc bn txi io]
        · exact hrow
        · rintro ⟨tx, out, htx, hout, hl', hb'⟩
          exact wf.oldBn _ c hc (by rw [hb, hb'])
        · rintro ⟨op', c', hs', hl', hb', hti', hio'⟩
          have hg' : get s (.outPoint op') = some (.cell c') := by
            obtain ⟨_, _, _, _, _, _, hg⟩ := hs'; exact hg
          have hrow' := (inv c'.out.lock c'.bn c'.txIdx op'.idx op'.tx).mpr ⟨c', by cases op'; exact hg', rfl, rfl, rfl⟩
          rw [hl', hb', hti', hio', hrow] at hrow'
          have ht : t = op'.tx := by simpa using hrow'
          apply hS
          refine ⟨c', ?_⟩
          have : (⟨t, io⟩ : OutPoint) = op' := by cases op'; simp_all
          rw [this]
          exact hs'

end CkbVerif.Indexer
