/-
Glue between `Model/Fork.lean` (`find_fork` over block ids) and `Model/Store.lean` (blocks with
contents): the `find_fork` store read off a tree of `Store.Block`s, and its well-formedness.
Used by `Props/C02.lean` (`reorg_via_find_fork_eq_replay`).
-/
import CkbVerif.Lemmas.StoreInv
import CkbVerif.Lemmas.Fork
namespace CkbVerif.C02
open CkbVerif.Store

/-- the store `find_fork` sees, read off a block tree `body` (every stored block by id; side
branches included) and the main chain `chain` (genesis first) -/
def forkStore (body : Nat → Block) (chain : List Block) (ver : Nat → Bool) : Fork.Store where
  parent := fun x => (body x).parent
  number := fun x => (body x).number
  mainAt := fun n => (chain.getD n default).id
  verNone := ver

/-- the parent path from genesis to `x` in the tree, as blocks (oldest first) -/
def pathTo (s : Fork.Store) (body : Nat → Block) (x : Nat) : List Block :=
  (List.range' 0 (s.number x + 1)).map (fun h => body (Fork.ancAt s x h))

/-- what must hold of the tree for `find_fork` to be called (`Fork.WF`, read off the blocks):
the main chain's blocks are stored under their ids, numbered from 0 and parent-linked; the new tip
is stored, is not genesis, and its parent path leads, with numbers decreasing by one, to the
genesis block. -/
structure TreeWF (body : Nat → Block) (g : Block) (rest : List Block) (b : Block) : Prop where
  stored : ∀ blk ∈ g :: rest, body blk.id = blk
  tip_stored : body b.id = b
  chain_num : ∀ n (h : n < (g :: rest).length), ((g :: rest)[n]).number = n
  chain_link : ∀ n (h : n + 1 < (g :: rest).length), ((g :: rest)[n + 1]).parent = ((g :: rest)[n]).id
  tip_pos : 0 < b.number
  branch_num : ∀ k, k ≤ b.number →
    (body (Fork.anc (forkStore body (g :: rest) (fun _ => false)) b.id k)).number = b.number - k
  root : Fork.anc (forkStore body (g :: rest) (fun _ => false)) b.id b.number = g.id

theorem anc_forkStore (body : Nat → Block) (chain : List Block) (ver ver' : Nat → Bool) (x k : Nat) :
    Fork.anc (forkStore body chain ver) x k = Fork.anc (forkStore body chain ver') x k := by
  induction k with
  | zero => rfl
  | succ k ih => simp only [Fork.anc, forkStore] at ih ⊢; rw [ih]

theorem treeWF_wf {body : Nat → Block} {g : Block} {rest : List Block} {b : Block}
    (h : TreeWF body g rest b) (ver : Nat → Bool) :
    Fork.WF (forkStore body (g :: rest) ver) rest.length b.id := by
  have hget : ∀ n (hn : n < (g :: rest).length), (g :: rest).getD n default = (g :: rest)[n] := by
    intro n hn
    simp [List.getD, List.getElem?_eq_getElem hn]
  refine ⟨?_, ?_, ?_, ?_, ?_⟩
  · show 0 < (body b.id).number
    rw [h.tip_stored]; exact h.tip_pos
  · intro k hk
    show (body (Fork.anc (forkStore body (g :: rest) ver) b.id k)).number = (body b.id).number - k
    rw [anc_forkStore body (g :: rest) ver (fun _ => false)]
    have hk' : k ≤ b.number := by simpa [forkStore, h.tip_stored] using hk
    rw [h.tip_stored]
    exact h.branch_num k hk'
  · intro n hn
    show (body ((g :: rest).getD (n + 1) default).id).parent = ((g :: rest).getD n default).id
    have h1 : n + 1 < (g :: rest).length := by simp; omega
    rw [hget (n + 1) h1, hget n (by omega), h.stored _ (List.getElem_mem h1)]
    exact h.chain_link n h1
  · intro n hn
    show (body ((g :: rest).getD n default).id).number = n
    have h1 : n < (g :: rest).length := by simp; omega
    rw [hget n h1, h.stored _ (List.getElem_mem h1)]
    exact h.chain_num n h1
  · show Fork.anc (forkStore body (g :: rest) ver) b.id (body b.id).number = ((g :: rest).getD 0 default).id
    rw [anc_forkStore body (g :: rest) ver (fun _ => false), h.tip_stored]
    exact h.root

/-- mapping the main chain's ids back through `body` gives the chain -/
theorem map_body_main {body : Nat → Block} {chain : List Block} (ver : Nat → Bool)
    (hst : ∀ blk ∈ chain, body blk.id = blk) :
    ((List.range' 0 chain.length).map (forkStore body chain ver).mainAt).map body = chain := by
  apply List.ext_getElem
  · simp
  · intro i h1 h2
    simp only [List.getElem_map, List.getElem_range', forkStore]
    have : chain.getD (0 + 1 * i) default = chain[i] := by
      have e : 0 + 1 * i = i := by omega
      rw [e]
      simp [List.getD, List.getElem?_eq_getElem h2]
    rw [this]
    exact hst _ (List.getElem_mem h2)

end CkbVerif.C02
