/-
Invariant and micro-step lemmas for `Model/Freeze.lean`.
-/
import CkbVerif.Model.Freeze
namespace CkbVerif.Freeze
open CkbVerif.Store

/-- block `id` (with body `blk`) is on the main chain -/
def OnMain (s : FS) (id : Nat) (blk : Block) : Prop :=
  s.v.r.bodies id = some blk ∧ s.v.m.index blk.number = some id

structure Inv (s : FS) : Prop where
  /-- freezer item `k` is the main-chain block of height `k+1`, still known by its hash -/
  frozenOk : ∀ k fb, s.frozen[k]? = some fb →
    fb.number = k + 1 ∧ s.v.r.bodies fb.id = some fb ∧ s.v.m.index (k + 1) = some fb.id
  /-- main-chain blocks that are not frozen have their body rows -/
  bodyOk : ∀ id blk, OnMain s id blk → (blk.number = 0 ∨ frozenNumber s ≤ blk.number) → s.body id = true
  /-- main-chain blocks keep their header row -/
  hdrOk : ∀ id blk, OnMain s id blk → s.hdr id = true
  idOk : ∀ id blk, s.v.r.bodies id = some blk → blk.id = id
  numOk : ∀ n id blk, s.v.m.index n = some id → s.v.r.bodies id = some blk → blk.number = n

/-- under the invariant `get_block(hash)` of a main-chain block is that block, wherever it lives -/
theorem getBlock_main (s : FS) (h : Inv s) (id : Nat) (blk : Block) (hm : OnMain s id blk) :
    getBlock s id = .some blk := by
  unfold getBlock
  rw [h.hdrOk id blk hm]
  simp only [Bool.not_true, Bool.false_eq_true, if_false, hm.1]
  by_cases hc : (decide (0 < blk.number) && decide (blk.number < frozenNumber s)) = true
  · simp only [hc, if_true]
    simp only [Bool.and_eq_true, decide_eq_true_eq] at hc
    have hlt : blk.number - 1 < s.frozen.length := by unfold frozenNumber at hc; omega
    obtain ⟨fb, hfb⟩ : ∃ fb, s.frozen[blk.number - 1]? = some fb :=
      ⟨s.frozen[blk.number - 1], List.getElem?_eq_getElem hlt⟩
    rw [hfb]
    obtain ⟨h1, h2, h3⟩ := h.frozenOk _ _ hfb
    have hk : blk.number - 1 + 1 = blk.number := by omega
    rw [hk] at h3
    have : fb.id = id := by
      have := hm.2; rw [h3] at this; exact Option.some.inj this
    rw [this, hm.1] at h2
    cases h2; rfl
  · simp only [hc]
    have hb : s.body id = true := by
      apply h.bodyOk id blk hm
      simp only [Bool.and_eq_true, decide_eq_true_eq] at hc
      omega
    simp [hb]

/-- `get_transaction_with_info` of a transaction committed in a main-chain block -/
theorem getTx_main (s : FS) (h : Inv s) (t : Nat) (info : TxInfo) (blk : Block) (tx : Tx)
    (hi : s.v.m.txInfo t = some info) (hm : OnMain s info.blockId blk) (hn : info.number = blk.number)
    (ht : blk.txs[info.index]? = some tx) :
    getTx s t = some (tx, info) := by
  unfold getTx
  rw [hi]
  simp only
  by_cases hc : (decide (0 < info.number) && decide (info.number < frozenNumber s)) = true
  · simp only [hc, if_true]
    simp only [Bool.and_eq_true, decide_eq_true_eq] at hc
    have hlt : info.number - 1 < s.frozen.length := by unfold frozenNumber at hc; omega
    obtain ⟨fb, hfb⟩ : ∃ fb, s.frozen[info.number - 1]? = some fb :=
      ⟨s.frozen[info.number - 1], List.getElem?_eq_getElem hlt⟩
    rw [hfb]
    obtain ⟨h1, h2, h3⟩ := h.frozenOk _ _ hfb
    have hk : info.number - 1 + 1 = blk.number := by omega
    rw [hk] at h3
    have : fb.id = info.blockId := by
      have := hm.2; rw [h3] at this; exact Option.some.inj this
    rw [this, hm.1] at h2
    cases h2
    simp [ht]
  · simp only [hc]
    have hb : s.body info.blockId = true := by
      apply h.bodyOk _ blk hm
      simp only [Bool.and_eq_true, decide_eq_true_eq] at hc
      omega
    simp [hb, hm.1, ht]

/-! ### micro-steps -/

def appendOne (s : FS) (b : Block) : FS := { s with frozen := s.frozen ++ [b] }

theorem onMain_appendOne {s : FS} {b : Block} {id : Nat} {blk : Block} :
    OnMain (appendOne s b) id blk ↔ OnMain s id blk := Iff.rfl
theorem onMain_wipeBody {s : FS} {x id : Nat} {blk : Block} :
    OnMain (wipeBody s x) id blk ↔ OnMain s id blk := Iff.rfl
theorem onMain_wipeSide {s : FS} {x id : Nat} {blk : Block} :
    OnMain (wipeSide s x) id blk ↔ OnMain s id blk := Iff.rfl

theorem inv_appendOne (s : FS) (h : Inv s) (b : Block) (hg : getUnfrozen s (frozenNumber s) = some b) :
    Inv (appendOne s b) := by
  -- what `get_unfrozen_block` returned is the main-chain block of that height
  have hb : ∃ id, s.v.m.index (frozenNumber s) = some id ∧ s.v.r.bodies id = some b := by
    unfold getUnfrozen at hg
    cases hi : s.v.m.index (frozenNumber s) with
    | none => rw [hi] at hg; cases hg
    | some id =>
      rw [hi] at hg
      simp only at hg
      split at hg
      · exact ⟨id, rfl, hg⟩
      · cases hg
  obtain ⟨id, hidx, hbody⟩ := hb
  have hbid : b.id = id := h.idOk id b hbody
  have hnum : b.number = frozenNumber s := h.numOk _ _ _ hidx hbody
  constructor
  · intro k fb hk
    show fb.number = k + 1 ∧ s.v.r.bodies fb.id = some fb ∧ s.v.m.index (k + 1) = some fb.id
    have hk' : (s.frozen ++ [b])[k]? = some fb := hk
    by_cases hlt : k < s.frozen.length
    · rw [List.getElem?_append_left hlt] at hk'
      exact h.frozenOk k fb hk'
    · have hge : s.frozen.length ≤ k := Nat.le_of_not_lt hlt
      rw [List.getElem?_append_right hge] at hk'
      have hk0 : k - s.frozen.length = 0 := by
        cases hd : k - s.frozen.length with
        | zero => rfl
        | succ d => rw [hd] at hk'; simp at hk'
      rw [hk0] at hk'
      simp at hk'
      subst hk'
      have hke : k = s.frozen.length := by omega
      subst hke
      unfold frozenNumber at hnum hidx
      exact ⟨hnum, by rw [hbid]; exact hbody, by rw [hbid]; exact hidx⟩
  · intro id' blk hm hcond
    apply h.bodyOk id' blk hm
    rcases hcond with hc | hc
    · exact Or.inl hc
    · right
      have : frozenNumber (appendOne s b) = frozenNumber s + 1 := by
        simp [frozenNumber, appendOne]
      omega
  · exact h.hdrOk
  · exact h.idOk
  · exact h.numOk

/-- deleting the body rows of a block that is in the freezer keeps the invariant -/
theorem inv_wipeBody (s : FS) (h : Inv s) (x : Nat) (hfro : ∃ (k : Nat) (fb : Block), s.frozen[k]? = some fb ∧ fb.id = x) :
    Inv (wipeBody s x) := by
  obtain ⟨k, fb, hk, hx⟩ := hfro
  obtain ⟨h1, h2, h3⟩ := h.frozenOk k fb hk
  have hklt : k < s.frozen.length := by
    have := (List.getElem?_eq_some_iff.mp hk).1; exact this
  constructor
  · exact h.frozenOk
  · intro id blk hm hcond
    show (if id = x then false else s.body id) = true
    by_cases hid : id = x
    · exfalso
      subst hid
      have hm' : OnMain s id blk := hm
      rw [← hx] at hm'
      have hb1 : s.v.r.bodies fb.id = some blk := hm'.1
      rw [h2] at hb1
      have : fb = blk := Option.some.inj hb1
      subst this
      have hfn : frozenNumber (wipeBody s id) = s.frozen.length + 1 := rfl
      rcases hcond with hc | hc <;> omega
    · simp only [hid, if_false]
      exact h.bodyOk id blk hm hcond
  · exact h.hdrOk
  · exact h.idOk
  · exact h.numOk

/-- deleting a block that is not on the main chain keeps the invariant -/
theorem inv_wipeSide (s : FS) (h : Inv s) (x : Nat) (hside : ∀ blk, ¬ OnMain s x blk) :
    Inv (wipeSide s x) := by
  constructor
  · exact h.frozenOk
  · intro id blk hm hcond
    show (if id = x then false else s.body id) = true
    by_cases hid : id = x
    · subst hid; exact absurd hm (hside blk)
    · simp only [hid, if_false]; exact h.bodyOk id blk hm hcond
  · intro id blk hm
    show (if id = x then false else s.hdr id) = true
    by_cases hid : id = x
    · subst hid; exact absurd hm (hside blk)
    · simp only [hid, if_false]; exact h.hdrOk id blk hm
  · exact h.idOk
  · exact h.numOk

/-- the steps a freezer pass is made of; a crash leaves the state after some prefix of them -/
inductive Step : FS → FS → Prop
  | append (s : FS) (b : Block) : getUnfrozen s (frozenNumber s) = some b → Step s (appendOne s b)
  | wipeBody (s : FS) (x : Nat) : (∃ (k : Nat) (fb : Block), s.frozen[k]? = some fb ∧ fb.id = x) → Step s (wipeBody s x)
  | wipeSide (s : FS) (x : Nat) : (∀ blk, ¬ OnMain s x blk) → Step s (wipeSide s x)

inductive Steps : FS → FS → Prop
  | refl (s : FS) : Steps s s
  | tail {s t u : FS} : Steps s t → Step t u → Steps s u

theorem inv_step {s t : FS} (h : Inv s) (st : Step s t) : Inv t := by
  cases st with
  | append b hg => exact inv_appendOne s h b hg
  | wipeBody x hx => exact inv_wipeBody s h x hx
  | wipeSide x hx => exact inv_wipeSide s h x hx

theorem onMain_step {s t : FS} (st : Step s t) (id : Nat) (blk : Block) : OnMain t id blk ↔ OnMain s id blk := by
  cases st <;> exact Iff.rfl

theorem inv_steps {s t : FS} (h : Inv s) (st : Steps s t) : Inv t := by
  induction st with
  | refl => exact h
  | tail _ st ih => exact inv_step ih st

theorem onMain_steps {s t : FS} (st : Steps s t) (id : Nat) (blk : Block) : OnMain t id blk ↔ OnMain s id blk := by
  induction st with
  | refl => exact Iff.rfl
  | tail _ st ih => exact (onMain_step st id blk).trans ih

/-! ### the append loop -/

theorem freezeLoop_spec (get : Nat → Option Block) (thr : Nat) (fuel n : Nat) (frozen : List Block) :
    ∃ new, (freezeLoop get thr fuel n frozen).1 = frozen ++ new ∧ n + new.length ≤ max n thr ∧
      ∀ k b, new[k]? = some b → get (n + k) = some b := by
  induction fuel generalizing n frozen with
  | zero => exact ⟨[], by simp [freezeLoop], by simp; omega, by simp⟩
  | succ fuel ih =>
    unfold freezeLoop
    by_cases hge : n ≥ thr
    · simp only [hge, if_true]
      exact ⟨[], by simp, by simp; omega, by simp⟩
    · simp only [hge, if_false]
      cases hg : get n with
      | none => exact ⟨[], by simp, by simp; omega, by simp⟩
      | some b =>
        simp only
        have hrec : ∃ new, (freezeLoop get thr fuel (n + 1) (frozen ++ [b])).1 = frozen ++ new ∧
            n + new.length ≤ max n thr ∧ ∀ k b', new[k]? = some b' → get (n + k) = some b' := by
          obtain ⟨new, h1, h2, h3⟩ := ih (n + 1) (frozen ++ [b])
          refine ⟨b :: new, by rw [h1]; simp, by simp; omega, ?_⟩
          intro k b' hk
          cases k with
          | zero => simp at hk; subst hk; simpa using hg
          | succ k =>
            have := h3 k b' (by simpa using hk)
            rw [← this]; congr 1; omega
        cases hl : frozen.getLast? with
        | none => simpa using hrec
        | some t =>
          by_cases hp : t.id ≠ b.parent
          · simp only [hp, if_true]
            exact ⟨[], by simp, by simp; omega, by simp⟩
          · simp only [hp, if_false]
            exact hrec

end CkbVerif.Freeze
