/-
Invariant and micro-step lemmas for `Model/Freeze.lean`.
-/
import CkbVerif.Model.Freeze
namespace CkbVerif.Freeze
open CkbVerif.Store

/-- block `id` (with body `blk`) is on the main chain -/
def OnMain (s : FS) (id : Nat) (blk : Block) : Prop :=
  s.v.r.bodies id = some blk ∧ s.v.m.index blk.number = some id

structure Inv (s : FS) : Prop where
  /-- freezer item `k` is the main-chain block of height `k+1`, still known by its hash -/
  frozenOk : ∀ k fb, s.frozen[k]? = some fb →
    fb.number = k + 1 ∧ s.v.r.bodies fb.id = some fb ∧ s.v.m.index (k + 1) = some fb.id
  /-- main-chain blocks that are not frozen have their body rows -/
  bodyOk : ∀ id blk, OnMain s id blk → (blk.number = 0 ∨ frozenNumber s ≤ blk.number) → s.body id = true
  /-- main-chain blocks keep their header row -/
  hdrOk : ∀ id blk, OnMain s id blk → s.hdr id = true
  idOk : ∀ id blk, s.v.r.bodies id = some blk → blk.id = id
  numOk : ∀ n id blk, s.v.m.index n = some id → s.v.r.bodies id = some blk → blk.number = n

/-- under the invariant the freezer item at the height of a frozen main-chain block is that block -/
theorem frozen_at_main (s : FS) (h : Inv s) (id : Nat) (blk : Block) (hm : OnMain s id blk)
    (h0 : 0 < blk.number) (hlt : blk.number < frozenNumber s) :
    s.frozen[blk.number - 1]? = some blk := by
  have hlt' : blk.number - 1 < s.frozen.length := by unfold frozenNumber at hlt; omega
  obtain ⟨fb, hfb⟩ : ∃ fb, s.frozen[blk.number - 1]? = some fb :=
    ⟨s.frozen[blk.number - 1], List.getElem?_eq_getElem hlt'⟩
  rw [hfb]
  obtain ⟨_, h2, h3⟩ := h.frozenOk _ _ hfb
  have hk : blk.number - 1 + 1 = blk.number := by omega
  rw [hk] at h3
  have : fb.id = id := by
    have := hm.2; rw [h3] at this; exact Option.some.inj this
  rw [this, hm.1] at h2
  cases h2; rfl

/-- `get_frozen_block` of a main-chain block: the block iff its height is frozen -/
theorem getFrozen_main (s : FS) (h : Inv s) (id : Nat) (blk : Block) (hm : OnMain s id blk) :
    getFrozen s id = if 0 < blk.number ∧ blk.number < frozenNumber s then some blk else none := by
  unfold getFrozen
  rw [h.hdrOk id blk hm]
  simp only [Bool.not_true, Bool.false_eq_true, if_false, hm.1]
  by_cases hc : 0 < blk.number ∧ blk.number < frozenNumber s
  · simp only [if_true, hc, and_self]
    rw [frozen_at_main s h id blk hm hc.1 hc.2]
    simp [h.idOk id blk hm.1]
  · have hc' : ¬ (decide (0 < blk.number) && decide (blk.number < frozenNumber s)) = true := by
      simpa using hc
    simp only [hc', hc, if_false]
    rfl

/-- under the invariant `get_block(hash)` of a main-chain block is that block, wherever it lives -/
theorem getBlock_main (s : FS) (h : Inv s) (id : Nat) (blk : Block) (hm : OnMain s id blk) :
    getBlock s id = .some blk := by
  unfold getBlock
  rw [h.hdrOk id blk hm, getFrozen_main s h id blk hm]
  simp only [Bool.not_true, Bool.false_eq_true, if_false, hm.1]
  by_cases hc : 0 < blk.number ∧ blk.number < frozenNumber s
  · simp [hc]
  · simp only [hc, if_false]
    have hb : s.body id = true := h.bodyOk id blk hm (by omega)
    simp [hb]

/-- the same for the code before the repair of F17 (on main-chain blocks the two agree) -/
theorem getBlockPreF17_main (s : FS) (h : Inv s) (id : Nat) (blk : Block) (hm : OnMain s id blk) :
    getBlockPreF17 s id = .some blk := by
  unfold getBlockPreF17
  rw [h.hdrOk id blk hm]
  simp only [Bool.not_true, Bool.false_eq_true, if_false, hm.1]
  by_cases hc : 0 < blk.number ∧ blk.number < frozenNumber s
  · have hc' : (decide (0 < blk.number) && decide (blk.number < frozenNumber s)) = true := by simp [hc]
    simp only [hc', if_true]
    rw [frozen_at_main s h id blk hm hc.1 hc.2]
  · have hc' : ¬ (decide (0 < blk.number) && decide (blk.number < frozenNumber s)) = true := by
      simpa using hc
    simp only [hc']
    have hb : s.body id = true := h.bodyOk id blk hm (by omega)
    simp [hb]

/-- every part accessor of a main-chain block answers from the kv rows or, once they are wiped,
from the freezer: the block either way (the repair of F18) -/
theorem getPart_main (s : FS) (h : Inv s) (id : Nat) (blk : Block) (hm : OnMain s id blk) :
    getPart s id = some blk := by
  unfold getPart
  cases hb : s.body id with
  | true => simp [hm.1]
  | false =>
    simp only [Bool.false_eq_true, if_false]
    rw [getFrozen_main s h id blk hm]
    have hc : 0 < blk.number ∧ blk.number < frozenNumber s := by
      refine Decidable.byContradiction fun hn => ?_
      have := h.bodyOk id blk hm (by omega)
      rw [hb] at this; cases this
    simp [hc]

theorem getPacked_main (s : FS) (h : Inv s) (id : Nat) (blk : Block) (hm : OnMain s id blk) :
    getPacked s id = some blk := by
  unfold getPacked
  rw [getFrozen_main s h id blk hm]
  by_cases hc : 0 < blk.number ∧ blk.number < frozenNumber s
  · simp [hc]
  · simp only [hc, if_false]
    have hb : s.body id = true := h.bodyOk id blk hm (by omega)
    simp [hb, h.hdrOk id blk hm, hm.1]

theorem getHeader_main (s : FS) (h : Inv s) (id : Nat) (blk : Block) (hm : OnMain s id blk) :
    getHeader s id = some blk := by
  simp [getHeader, h.hdrOk id blk hm, hm.1]

/-- `get_transaction_with_info` of a transaction committed in a main-chain block -/
theorem getTx_main (s : FS) (h : Inv s) (t : Nat) (info : TxInfo) (blk : Block) (tx : Tx)
    (hi : s.v.m.txInfo t = some info) (hm : OnMain s info.blockId blk) (hn : info.number = blk.number)
    (ht : blk.txs[info.index]? = some tx) :
    getTx s t = some (tx, info) := by
  unfold getTx
  rw [hi]
  simp only
  by_cases hc : (decide (0 < info.number) && decide (info.number < frozenNumber s)) = true
  · simp only [hc, if_true]
    simp only [Bool.and_eq_true, decide_eq_true_eq] at hc
    have hlt : info.number - 1 < s.frozen.length := by unfold frozenNumber at hc; omega
    obtain ⟨fb, hfb⟩ : ∃ fb, s.frozen[info.number - 1]? = some fb :=
      ⟨s.frozen[info.number - 1], List.getElem?_eq_getElem hlt⟩
    rw [hfb]
    obtain ⟨h1, h2, h3⟩ := h.frozenOk _ _ hfb
    have hk : info.number - 1 + 1 = blk.number := by omega
    rw [hk] at h3
    have : fb.id = info.blockId := by
      have := hm.2; rw [h3] at this; exact Option.some.inj this
    rw [this, hm.1] at h2
    cases h2
    simp [ht]
  · simp only [hc]
    have hb : s.body info.blockId = true := by
      apply h.bodyOk _ blk hm
      simp only [Bool.and_eq_true, decide_eq_true_eq] at hc
      omega
    simp [hb, hm.1, ht]

/-! ### micro-steps -/

def appendOne (s : FS) (b : Block) : FS := { s with frozen := s.frozen ++ [b] }

theorem onMain_appendOne {s : FS} {b : Block} {id : Nat} {blk : Block} :
    OnMain (appendOne s b) id blk ↔ OnMain s id blk := Iff.rfl
theorem onMain_wipeBody {s : FS} {x id : Nat} {blk : Block} :
    OnMain (wipeBody s x) id blk ↔ OnMain s id blk := Iff.rfl
theorem onMain_wipeSide {s : FS} {x id : Nat} {blk : Block} :
    OnMain (wipeSide s x) id blk ↔ OnMain s id blk := Iff.rfl

theorem inv_appendOne (s : FS) (h : Inv s) (b : Block) (hg : getUnfrozen s (frozenNumber s) = some b) :
    Inv (appendOne s b) := by
  -- what `get_unfrozen_block` returned is the main-chain block of that height
  have hb : ∃ id, s.v.m.index (frozenNumber s) = some id ∧ s.v.r.bodies id = some b := by
    unfold getUnfrozen at hg
    cases hi : s.v.m.index (frozenNumber s) with
    | none => rw [hi] at hg; cases hg
    | some id =>
      rw [hi] at hg
      simp only at hg
      split at hg
      · exact ⟨id, rfl, hg⟩
      · cases hg
  obtain ⟨id, hidx, hbody⟩ := hb
  have hbid : b.id = id := h.idOk id b hbody
  have hnum : b.number = frozenNumber s := h.numOk _ _ _ hidx hbody
  constructor
  · intro k fb hk
    show fb.number = k + 1 ∧ s.v.r.bodies fb.id = some fb ∧ s.v.m.index (k + 1) = some fb.id
    have hk' : (s.frozen ++ [b])[k]? = some fb := hk
    by_cases hlt : k < s.frozen.length
    · rw [List.getElem?_append_left hlt] at hk'
      exact h.frozenOk k fb hk'
    · have hge : s.frozen.length ≤ k := Nat.le_of_not_lt hlt
      rw [List.getElem?_append_right hge] at hk'
      have hk0 : k - s.frozen.length = 0 := by
        cases hd : k - s.frozen.length with
        | zero => rfl
        | succ d => rw [hd] at hk'; simp at hk'
      rw [hk0] at hk'
      simp at hk'
      subst hk'
      have hke : k = s.frozen.length := by omega
      subst hke
      unfold frozenNumber at hnum hidx
      exact ⟨hnum, by rw [hbid]; exact hbody, by rw [hbid]; exact hidx⟩
  · intro id' blk hm hcond
    apply h.bodyOk id' blk hm
    rcases hcond with hc | hc
    · exact Or.inl hc
    · right
      have : frozenNumber (appendOne s b) = frozenNumber s + 1 := by
        simp [frozenNumber, appendOne]
      omega
  · exact h.hdrOk
  · exact h.idOk
  · exact h.numOk

/-- deleting the body rows of a block that is in the freezer keeps the invariant -/
theorem inv_wipeBody (s : FS) (h : Inv s) (x : Nat) (hfro : ∃ (k : Nat) (fb : Block), s.frozen[k]? = some fb ∧ fb.id = x) :
    Inv (wipeBody s x) := by
  obtain ⟨k, fb, hk, hx⟩ := hfro
  obtain ⟨h1, h2, h3⟩ := h.frozenOk k fb hk
  have hklt : k < s.frozen.length := by
    have := (List.getElem?_eq_some_iff.mp hk).1; exact this
  constructor
  · exact h.frozenOk
  · intro id blk hm hcond
    show (if id = x then false else s.body id) = true
    by_cases hid : id = x
    · exfalso
      subst hid
      have hm' : OnMain s id blk := hm
      rw [← hx] at hm'
      have hb1 : s.v.r.bodies fb.id = some blk := hm'.1
      rw [h2] at hb1
      have : fb = blk := Option.some.inj hb1
      subst this
      have hfn : frozenNumber (wipeBody s id) = s.frozen.length + 1 := rfl
      rcases hcond with hc | hc <;> omega
    · simp only [hid, if_false]
      exact h.bodyOk id blk hm hcond
  · exact h.hdrOk
  · exact h.idOk
  · exact h.numOk

/-- deleting a block that is not on the main chain keeps the invariant -/
theorem inv_wipeSide (s : FS) (h : Inv s) (x : Nat) (hside : ∀ blk, ¬ OnMain s x blk) :
    Inv (wipeSide s x) := by
  constructor
  · exact h.frozenOk
  · intro id blk hm hcond
    show (if id = x then false else s.body id) = true
    by_cases hid : id = x
    · subst hid; exact absurd hm (hside blk)
    · simp only [hid, if_false]; exact h.bodyOk id blk hm hcond
  · intro id blk hm
    show (if id = x then false else s.hdr id) = true
    by_cases hid : id = x
    · subst hid; exact absurd hm (hside blk)
    · simp only [hid, if_false]; exact h.hdrOk id blk hm
  · exact h.idOk
  · exact h.numOk

/-- the steps a freezer pass is made of; a crash leaves the state after some prefix of them -/
inductive Step : FS → FS → Prop
  | append (s : FS) (b : Block) : getUnfrozen s (frozenNumber s) = some b → Step s (appendOne s b)
  | wipeBody (s : FS) (x : Nat) : (∃ (k : Nat) (fb : Block), s.frozen[k]? = some fb ∧ fb.id = x) → Step s (wipeBody s x)
  | wipeSide (s : FS) (x : Nat) : (∀ blk, ¬ OnMain s x blk) → Step s (wipeSide s x)

inductive Steps : FS → FS → Prop
  | refl (s : FS) : Steps s s
  | tail {s t u : FS} : Steps s t → Step t u → Steps s u

theorem inv_step {s t : FS} (h : Inv s) (st : Step s t) : Inv t := by
  cases st with
  | append b hg => exact inv_appendOne s h b hg
  | wipeBody x hx => exact inv_wipeBody s h x hx
  | wipeSide x hx => exact inv_wipeSide s h x hx

theorem onMain_step {s t : FS} (st : Step s t) (id : Nat) (blk : Block) : OnMain t id blk ↔ OnMain s id blk := by
  cases st <;> exact Iff.rfl

theorem inv_steps {s t : FS} (h : Inv s) (st : Steps s t) : Inv t := by
  induction st with
  | refl => exact h
  | tail _ st ih => exact inv_step ih st

theorem onMain_steps {s t : FS} (st : Steps s t) (id : Nat) (blk : Block) : OnMain t id blk ↔ OnMain s id blk := by
  induction st with
  | refl => exact Iff.rfl
  | tail _ st ih => exact (onMain_step st id blk).trans ih

/-! ### the append loop -/

theorem freezeLoop_spec (get : Nat → Option Block) (thr : Nat) (fuel n : Nat) (frozen : List Block) :
    ∃ new, (freezeLoop get thr fuel n frozen).1 = frozen ++ new ∧ n + new.length ≤ max n thr ∧
      ∀ k b, new[k]? = some b → get (n + k) = some b := by
  induction fuel generalizing n frozen with
  | zero => exact ⟨[], by simp [freezeLoop], by simp; omega, by simp⟩
  | succ fuel ih =>
    unfold freezeLoop
    by_cases hge : n ≥ thr
    · simp only [hge, if_true]
      exact ⟨[], by simp, by simp; omega, by simp⟩
    · simp only [hge, if_false]
      cases hg : get n with
      | none => exact ⟨[], by simp, by simp; omega, by simp⟩
      | some b =>
        simp only
        have hrec : ∃ new, (freezeLoop get thr fuel (n + 1) (frozen ++ [b])).1 = frozen ++ new ∧
            n + new.length ≤ max n thr ∧ ∀ k b', new[k]? = some b' → get (n + k) = some b' := by
          obtain ⟨new, h1, h2, h3⟩ := ih (n + 1) (frozen ++ [b])
          refine ⟨b :: new, by rw [h1]; simp, by simp; omega, ?_⟩
          intro k b' hk
          cases k with
          | zero => simp at hk; subst hk; simpa using hg
          | succ k =>
            have := h3 k b' (by simpa using hk)
            rw [← this]; congr 1; omega
        cases hl : frozen.getLast? with
        | none => simpa using hrec
        | some t =>
          by_cases hp : t.id = b.parent
          · simpa [hp] using hrec
          · exact ⟨[], by simp [hp], by simp; omega, by simp⟩

end CkbVerif.Freeze

namespace CkbVerif.Freeze
open CkbVerif.Store

/-! ### the model's `freeze` function is a run of micro-steps -/

theorem Steps.head {s t u : FS} (st : Step s t) (rest : Steps t u) : Steps s u := by
  induction rest with
  | refl => exact Steps.tail (Steps.refl s) st
  | tail _ st' ih => exact Steps.tail ih st'

theorem Steps.trans {s t u : FS} (a : Steps s t) (b : Steps t u) : Steps s u := by
  induction b with
  | refl => exact a
  | tail _ st ih => exact Steps.tail ih st

theorem getUnfrozen_of_main (s : FS) (h : Inv s) (n : Nat) (b : Block) (hg : getUnfrozen s n = some b) :
    s.v.m.index b.number = some b.id ∧ s.v.r.bodies b.id = some b ∧ b.number = n := by
  unfold getUnfrozen at hg
  cases hi : s.v.m.index n with
  | none => rw [hi] at hg; cases hg
  | some id =>
    rw [hi] at hg
    simp only at hg
    split at hg
    · have hid := h.idOk id b hg
      have hn := h.numOk n id b hi hg
      rw [hid, hn]; exact ⟨hi, hid ▸ hg, rfl⟩
    · cases hg

theorem steps_appends (s : FS) (new : List Block)
    (hget : ∀ k b, new[k]? = some b → getUnfrozen s (frozenNumber s + k) = some b) :
    Steps s { s with frozen := s.frozen ++ new } := by
  induction new generalizing s with
  | nil => simpa using Steps.refl s
  | cons b rest ih =>
    have h0 : getUnfrozen s (frozenNumber s) = some b := by simpa using hget 0 b (by simp)
    have hstep : Step s (appendOne s b) := Step.append s b h0
    have hrest := ih (appendOne s b) (by
      intro k b' hk
      have := hget (k + 1) b' (by simpa using hk)
      have hf : frozenNumber (appendOne s b) + k = frozenNumber s + (k + 1) := by
        simp [frozenNumber, appendOne]; omega
      rw [hf]
      exact this)
    have heq : ({ appendOne s b with frozen := (appendOne s b).frozen ++ rest } : FS)
        = { s with frozen := s.frozen ++ b :: rest } := by
      simp [appendOne]
    rw [heq] at hrest
    exact Steps.head hstep hrest

theorem steps_wipeBodies (s : FS) (l : List Block)
    (hfro : ∀ b ∈ l, ∃ (k : Nat) (fb : Block), s.frozen[k]? = some fb ∧ fb.id = b.id) :
    Steps s (l.foldl (fun s b => wipeBody s b.id) s) := by
  induction l generalizing s with
  | nil => exact Steps.refl s
  | cons b rest ih =>
    simp only [List.foldl_cons]
    have hstep : Step s (wipeBody s b.id) := Step.wipeBody s b.id (hfro b (by simp))
    exact Steps.head hstep (ih (wipeBody s b.id) (fun b' hb' => hfro b' (List.mem_cons_of_mem _ hb')))

theorem steps_wipeSides (s : FS) (ids : List Nat) (hs : ∀ x ∈ ids, ∀ blk, ¬ OnMain s x blk) :
    Steps s (ids.foldl wipeSide s) := by
  induction ids generalizing s with
  | nil => exact Steps.refl s
  | cons x rest ih =>
    simp only [List.foldl_cons]
    have hstep : Step s (wipeSide s x) := Step.wipeSide s x (hs x (by simp))
    exact Steps.head hstep (ih (wipeSide s x) (fun y hy blk => hs y (List.mem_cons_of_mem _ hy) blk))

theorem onMain_foldl_wipeBody (s : FS) (l : List Block) (id : Nat) (blk : Block) :
    OnMain (l.foldl (fun s b => wipeBody s b.id) s) id blk ↔ OnMain s id blk := by
  induction l generalizing s with
  | nil => exact Iff.rfl
  | cons b rest ih => simp only [List.foldl_cons]; exact (ih (wipeBody s b.id)).trans Iff.rfl

/-- every pass of the model's `freeze` is a sequence of the micro-steps, so everything proved for
`Steps` (and for every prefix = crash point) holds for it -/
theorem freeze_is_steps (s : FS) (h : Inv s) : Steps s (freeze s).1 := by
  unfold freeze
  cases hthr : threshold s with
  | idle => exact Steps.refl s
  | panic => exact Steps.refl s
  | «at» thr =>
    simp only
    obtain ⟨new, h1, _, h3⟩ := freezeLoop_spec (getUnfrozen s) thr (thr + 1) (frozenNumber s) s.frozen
    cases hloop : freezeLoop (getUnfrozen s) thr (thr + 1) (frozenNumber s) s.frozen with
    | mk frozen' err =>
      rw [hloop] at h1
      simp only at h1
      subst h1
      have happ := steps_appends s new h3
      cases err with
      | true => simpa using happ
      | false =>
        simp only [Bool.false_eq_true, if_false]
        have hdrop : (s.frozen ++ new).drop s.frozen.length = new := by simp
        rw [hdrop]
        let s1 : FS := { s with frozen := s.frozen ++ new }
        have hinv1 : Inv s1 := inv_steps h happ
        -- the newly frozen blocks are frozen in s1
        have hfro : ∀ b ∈ new, ∃ (k : Nat) (fb : Block), s1.frozen[k]? = some fb ∧ fb.id = b.id := by
          intro b hb
          obtain ⟨k, hk⟩ := List.getElem?_of_mem hb
          refine ⟨s.frozen.length + k, b, ?_, rfl⟩
          show (s.frozen ++ new)[s.frozen.length + k]? = some b
          rw [List.getElem?_append_right (by omega)]
          simpa using hk
        have hbodies := steps_wipeBodies s1 new hfro
        have hside : ∀ x ∈ sideOf s1 new, ∀ blk,
            ¬ OnMain (new.foldl (fun s b => wipeBody s b.id) s1) x blk := by
          intro x hx blk hm
          rw [onMain_foldl_wipeBody] at hm
          simp only [sideOf, List.mem_filter, List.any_eq_true, Bool.and_eq_true, beq_iff_eq, bne_iff_ne] at hx
          obtain ⟨_, b, hb, hnum, hne⟩ := hx
          obtain ⟨k, hk⟩ := List.getElem?_of_mem hb
          obtain ⟨hi, _, _⟩ := getUnfrozen_of_main s h _ b (h3 k b hk)
          have hm' : OnMain s x blk := hm
          have hxnum : numberOfId s1 x = blk.number := by
            simp [numberOfId, numberOf, s1, hm'.1]
          rw [hxnum] at hnum
          have := hm'.2
          rw [hnum, hi] at this
          exact hne (Option.some.inj this).symm
        exact Steps.trans happ (Steps.trans hbodies (steps_wipeSides _ _ hside))

end CkbVerif.Freeze
