import CkbVerif.Lemmas.IndexerHistReplayT

/-! Decidable forms of the well-formedness HYPOTHESES of the C18 theorems, evaluated by the driver on
every block of every chain the harness generates (synthetic and real-node) — the `wf` op.
Core Lean only (the driver imports this file). -/
namespace CkbVerif.Indexer

/-- `op` is an input of a non-cellbase transaction of `b` that `append` cannot resolve -/
def unresolvedInputB (s : Store) (b : Block) (op : OutPoint) : Bool :=
  (b.txs.zipIdx.any fun p => p.2 ≠ 0 && p.1.inputs.contains op) && (lookupInput s b op).isNone

/-- the freshness fields of `WFRollback2`, with ConsumedOutPoint RESIDUE of a rolled-back block of the
same number allowed (only a residue row of an unresolvable input of `b` would be harmful) -/
def freshB2 (s : Store) (b : Block) : Bool :=
  s.all fun e => match e.1 with
    | .cellLock _ bn _ _ | .cellType _ bn _ _ | .txLock _ bn _ _ _ | .txType _ bn _ _ _ => bn ≠ b.number
    | .consumed bn op => bn ≠ b.number || !unresolvedInputB s b op
    | .header bn _ _ => bn < b.number
    | .txHash id => b.txs.all fun tx => tx.id ≠ id
    | .outPoint _ => true

def hdrDisjointB (s : Store) (b : Block) : Bool :=
  (headerRows s).all fun r => b.txs.all fun tx => !(r.2.2.2.map (·.1)).contains tx.id

/-- the retention hypothesis of `rollback_append_tip` -/
def retentionB (s : Store) (b : Block) (keep : Nat) : Bool :=
  match tip s with
  | some (tn, _) => b.number ≤ tn + keep
  | none => true

theorem hdrDisjoint_of_B (s : Store) (b : Block) (h : hdrDisjointB s b = true) : HdrDisjoint s b := by
  intro r hr tx htx hmem
  have h1 := List.all_eq_true.mp h r hr
  have h2 := List.all_eq_true.mp h1 tx htx
  simp only [Bool.not_eq_true', List.contains_eq_mem, decide_eq_false_iff_not] at h2
  exact h2 hmem

theorem retention_of_B (s : Store) (b : Block) (keep : Nat) (h : retentionB s b keep = true) :
    ∀ tn th, tip s = some (tn, th) → b.number ≤ tn + keep := by
  intro tn th ht
  unfold retentionB at h
  rw [ht] at h
  simpa using h

/-- `WFRollback2` from the decidable checks (residue allowed) and the two index invariants -/
theorem wfRollback2_of_B2 (s : Store) (b : Block) (h1 : wfAppend2B s b = true) (h2 : freshB2 s b = true)
    (li : LockInv s) (ti : TypeInv s) : WFRollback2 s b := by
  have hall := List.all_eq_true.mp h2
  have wfa := wfAppend2_of_B s b h1
  have fresh : ∀ k : Key, (match k with
      | .cellLock _ bn _ _ | .cellType _ bn _ _ | .txLock _ bn _ _ _ | .txType _ bn _ _ _ => bn = b.number
      | _ => False) → get s k = none := by
    intro k hk
    apply get_none_of
    intro e he heq
    have := hall e he
    rw [heq] at this
    cases k <;> simp_all
  have hTx : ∀ tx ∈ b.txs, get s (.txHash tx.id) = none := by
    intro tx htx
    apply get_none_of
    intro e he heq
    have := hall e he
    rw [heq] at this
    simp only [List.all_eq_true, decide_eq_true_eq, ne_eq] at this
    exact this tx htx rfl
  have hHdr : HdrBelow s b.number := by
    intro e he bn h f hk
    have := hall e he
    rw [hk] at this
    simpa using this
  have hCons : ∀ (i : Nat) (tx : Tx) (op : OutPoint), b.txs[i]? = some tx → i ≠ 0 → op ∈ tx.inputs →
      (∀ c, ¬ Res s b op c) → get s (.consumed b.number op) = none := by
    intro i tx op htx hi hop hnr
    apply get_none_of
    intro e he heq
    have := hall e he
    rw [heq] at this
    simp only [ne_eq, not_true_eq_false, decide_false, Bool.false_or, Bool.not_eq_true'] at this
    unfold unresolvedInputB at this
    have hnone : lookupInput s b op = none := by
      cases hl : lookupInput s b op with
      | none => rfl
      | some c => exact absurd ((lookupInput_iff wfa op c).mp hl) (hnr c)
    have hany : (b.txs.zipIdx.any fun p => p.2 ≠ 0 && p.1.inputs.contains op) = true := by
      rw [List.any_eq_true]
      refine ⟨(tx, i), by rw [List.mem_zipIdx_iff_getElem?]; exact htx, ?_⟩
      simp [hi, hop]
    rw [hany, hnone] at this
    simp at this
  exact
    { toWFAppend2 := wfa
      freshLock := fun sc txi io => fresh (.cellLock sc b.number txi io) rfl
      freshTxLock := fun sc txi io t => fresh (.txLock sc b.number txi io t) rfl
      freshConsumed := hCons
      freshTx := hTx
      hdrBelow := hHdr
      lockInv := li
      freshType := fun sc txi io => fresh (.cellType sc b.number txi io) rfl
      freshTxType := fun sc txi io t => fresh (.txType sc b.number txi io t) rfl
      typeInv := ti }

/-- the freshness hypotheses of `ChainOK3` / `ChainOK3T` from `freshB2` -/
theorem freshTx_of_B2 (s : Store) (b : Block) (h : freshB2 s b = true) :
    (∀ (sc : Script) (txi io : Nat) (t : IoType), get s (.txLock sc b.number txi io t) = none) ∧
    (∀ (sc : Script) (txi io : Nat) (t : IoType), get s (.txType sc b.number txi io t) = none) := by
  have hall := List.all_eq_true.mp h
  constructor <;>
  · intro sc txi io t
    apply get_none_of
    intro e he heq
    have := hall e he
    rw [heq] at this
    simp at this

/-- the per-append checks of the driver's `wf` op (bits `a` and `k`), accumulated along a chain -/
def chainCheckedB (keep interval : Nat) : Store → List Block → Bool
  | _, [] => true
  | s, b :: r => wfAppend2B s b && freshB2 s b && chainCheckedB keep interval (append keep interval s b) r

/-- a chain on which every per-append check succeeded satisfies the chain hypotheses of ALL the
answer theorems (`ChainOK2`, `ChainOK3`, `ChainOK3T`) -/
theorem chainOK_of_checked (keep interval : Nat) (blocks : List Block) (s : Store)
    (h : chainCheckedB keep interval s blocks = true) :
    ChainOK2 keep interval s blocks ∧ ChainOK3 keep interval s blocks ∧ ChainOK3T keep interval s blocks := by
  induction blocks generalizing s with
  | nil => exact ⟨trivial, trivial, trivial⟩
  | cons b r ih =>
    simp only [chainCheckedB, Bool.and_eq_true] at h
    obtain ⟨⟨ha, hk⟩, hr⟩ := h
    obtain ⟨i2, i3, i3t⟩ := ih _ hr
    have wf := wfAppend2_of_B s b ha
    obtain ⟨f1, f2⟩ := freshTx_of_B2 s b hk
    exact ⟨⟨wf, i2⟩, ⟨wf, f1, i3⟩, ⟨wf, f2, i3t⟩⟩

end CkbVerif.Indexer
