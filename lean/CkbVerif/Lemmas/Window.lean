import CkbVerif.Model.Window

/-! Helper lemmas for C20 (`Props/C20.lean`): membership characterisations of the table
operations, the table invariant and its preservation. -/
namespace CkbVerif.Window

/-! ## table operations -/

theorem Table.mem_insert {t : Table} {n : Nat} {ids : Ids} {e : Nat × Ids} :
    e ∈ t.insert n ids ↔ e = (n, ids) ∨ (e ∈ t ∧ e.1 ≠ n) := by
  simp [Table.insert, List.mem_filter]

theorem Table.mem_remove {t : Table} {n : Nat} {e : Nat × Ids} :
    e ∈ t.remove n ↔ e ∈ t ∧ e.1 ≠ n := by
  simp [Table.remove, List.mem_filter]

theorem Table.mem_splitOff {t : Table} {k : Nat} {e : Nat × Ids} :
    e ∈ t.splitOff k ↔ e ∈ t ∧ k ≤ e.1 := by
  simp [Table.splitOff, List.mem_filter]

theorem Table.mem_rangeIds {t : Table} {p : Nat → Bool} {x : Nat} :
    x ∈ t.rangeIds p ↔ ∃ n ids, (n, ids) ∈ t ∧ p n = true ∧ x ∈ ids := by
  simp only [Table.rangeIds, List.mem_flatMap, List.mem_filter]
  constructor
  · rintro ⟨⟨n, ids⟩, ⟨hm, hp⟩, hx⟩
    exact ⟨n, ids, hm, hp, hx⟩
  · rintro ⟨n, ids, hm, hp, hx⟩
    exact ⟨(n, ids), ⟨hm, hp⟩, hx⟩

theorem Table.mem_removeAll {ns : List Nat} {t : Table} {e : Nat × Ids} :
    e ∈ t.removeAll ns ↔ e ∈ t ∧ e.1 ∉ ns := by
  induction ns generalizing t with
  | nil => simp [Table.removeAll]
  | cons n ns ih =>
    simp only [Table.removeAll, ih, Table.mem_remove, List.mem_cons, not_or]
    constructor
    · rintro ⟨⟨a, b⟩, c⟩; exact ⟨a, b, c⟩
    · rintro ⟨a, b, c⟩; exact ⟨⟨a, b⟩, c⟩

theorem Table.mem_insertAll {es : List (Nat × Ids)} {t : Table} {e : Nat × Ids}
    (h : e ∈ t.insertAll es) : e ∈ es ∨ e ∈ t := by
  induction es generalizing t with
  | nil => exact Or.inr h
  | cons a es ih =>
    rcases ih h with h1 | h1
    · exact Or.inl (List.mem_cons_of_mem _ h1)
    · rcases Table.mem_insert.mp h1 with h2 | h2
      · left; rw [h2]; exact List.mem_cons_self
      · exact Or.inr h2.1

/-- the table has an entry for block number `n` -/
def HasKey (t : Table) (n : Nat) : Prop := ∃ ids, (n, ids) ∈ t

theorem HasKey.insert {t : Table} {n m : Nat} {ids : Ids} :
    HasKey (t.insert m ids) n ↔ n = m ∨ HasKey t n := by
  constructor
  · rintro ⟨i, h⟩
    rcases Table.mem_insert.mp h with h | h
    · left; exact (Prod.mk.inj h).1
    · right; exact ⟨i, h.1⟩
  · rintro (h | ⟨i, h⟩)
    · subst h; exact ⟨ids, Table.mem_insert.mpr (Or.inl rfl)⟩
    · by_cases hn : n = m
      · subst hn; exact ⟨ids, Table.mem_insert.mpr (Or.inl rfl)⟩
      · exact ⟨i, Table.mem_insert.mpr (Or.inr ⟨h, hn⟩)⟩

theorem HasKey.insertAll_of_old {es : List (Nat × Ids)} {t : Table} {n : Nat}
    (h : HasKey t n) : HasKey (t.insertAll es) n := by
  induction es generalizing t with
  | nil => exact h
  | cons a es ih => exact ih (HasKey.insert.mpr (Or.inr h))

theorem HasKey.insertAll_of_new {es : List (Nat × Ids)} {t : Table} {n : Nat} {ids : Ids}
    (h : (n, ids) ∈ es) : HasKey (t.insertAll es) n := by
  induction es generalizing t with
  | nil => cases h
  | cons a es ih =>
    rcases List.mem_cons.mp h with h | h
    · subst h
      show HasKey ((t.insert n ids).insertAll es) n
      exact HasKey.insertAll_of_old (HasKey.insert.mpr (Or.inl rfl))
    · exact ih h

/-! ## numbered / chainEntries -/

theorem mem_numbered {bs : List Ids} {start n : Nat} {ids : Ids} :
    (n, ids) ∈ numbered start bs ↔ start ≤ n ∧ bs[n - start]? = some ids := by
  induction bs generalizing start with
  | nil => simp [numbered]
  | cons b bs ih =>
    simp only [numbered, List.mem_cons, Prod.mk.injEq, ih]
    constructor
    · rintro (⟨h1, h2⟩ | ⟨h1, h2⟩)
      · subst h1; subst h2; simp
      · refine ⟨by omega, ?_⟩
        have : n - start = (n - (start + 1)) + 1 := by omega
        rw [this]; simpa using h2
    · rintro ⟨h1, h2⟩
      by_cases hn : n = start
      · subst hn; left; simpa using h2.symm
      · right
        refine ⟨by omega, ?_⟩
        have : n - start = (n - (start + 1)) + 1 := by omega
        rw [this] at h2; simpa using h2

theorem mem_chainEntries {chain : List Ids} {lo hi n : Nat} {ids : Ids} :
    (n, ids) ∈ chainEntries chain lo hi ↔ lo ≤ n ∧ n ≤ hi ∧ ids = idsAt chain n := by
  simp only [chainEntries, List.mem_map, List.mem_range'_1, Prod.mk.injEq]
  constructor
  · rintro ⟨a, ⟨h1, h2⟩, h3, h4⟩
    subst h3
    exact ⟨h1, by omega, h4.symm⟩
  · rintro ⟨h1, h2, h3⟩
    exact ⟨n, ⟨h1, by omega⟩, rfl, h3.symm⟩

theorem idsAt_of_getElem? {chain : List Ids} {n : Nat} {ids : Ids} (h : chain[n]? = some ids) :
    idsAt chain n = ids := by
  simp [idsAt, List.getD_eq_getElem?_getD, h]

theorem getElem?_idsAt {chain : List Ids} {n : Nat} (h : n < chain.length) :
    chain[n]? = some (idsAt chain n) := by
  simp [idsAt, List.getD_eq_getElem?_getD, List.getElem?_eq_getElem h]

/-! ## the invariant -/

/-- every table entry is the main-chain block of that number -/
def Acc (chain : List Ids) (t : Table) : Prop :=
  ∀ n ids, (n, ids) ∈ t → chain[n]? = some ids

/-- every non-genesis main-chain block within `w.far` of the next block has an entry -/
def Cov (w : Win) (chain : List Ids) (t : Table) : Prop :=
  ∀ n, 1 ≤ n → n < chain.length → chain.length ≤ n + w.far → HasKey t n

/-- `x` is proposed in a main-chain block at distance `w.close ..= w.far` from the next block
(number `chain.length`): committable in the next block. -/
def InSet (w : Win) (chain : List Ids) (x : Nat) : Prop :=
  ∃ n, 1 ≤ n ∧ n < chain.length ∧ n + w.close ≤ chain.length ∧ chain.length ≤ n + w.far ∧
    x ∈ idsAt chain n

/-- `x` is proposed in a main-chain block closer than `w.close` to the next block. -/
def InGap (w : Win) (chain : List Ids) (x : Nat) : Prop :=
  ∃ n, 1 ≤ n ∧ n < chain.length ∧ chain.length < n + w.close ∧ x ∈ idsAt chain n

def ViewOk (w : Win) (chain : List Ids) (v : View) : Prop :=
  (∀ x, x ∈ v.set ↔ InSet w chain x) ∧ (∀ x, x ∈ v.gap ↔ InGap w chain x)

/-- admissible windows: `1 ≤ w_close ≤ w_far` -/
structure WinOk (w : Win) : Prop where
  close_pos : 1 ≤ w.close
  le : w.close ≤ w.far

/-- a main chain: non-empty, genesis carries no proposal ids -/
structure ChainOk (chain : List Ids) : Prop where
  pos : 0 < chain.length
  genesis : idsAt chain 0 = []

structure Inv (w : Win) (s : Node) : Prop where
  chain : ChainOk s.chain
  acc : Acc s.chain s.table
  cov : Cov w s.chain s.table
  view : ViewOk w s.chain s.view

/-- membership in the table `finalize` keeps -/
theorem mem_finalize_table {w : Win} {t : Table} {o : View} {number : Nat} {e : Nat × Ids} :
    e ∈ (finalize w t o number).1 ↔ e ∈ t ∧ (number + 1 - w.far > 1 → number + 1 - w.far ≤ e.1) := by
  simp only [finalize]
  split
  · rename_i h
    simp [Table.mem_splitOff, h]
  · rename_i h
    simp [h]

theorem finalize_removed {w : Win} {t : Table} {o : View} {number : Nat} {x : Nat} :
    x ∈ (finalize w t o number).2.1 ↔ x ∈ o.set ∧ x ∉ (finalize w t o number).2.2.set := by
  simp only [finalize, List.mem_filter, Bool.not_eq_true', List.contains_eq_mem,
    decide_eq_false_iff_not]

/-- `finalize` at the tip of `chain`, on a table that is accurate and covers the window. -/
theorem finalize_spec {w : Win} (hw : WinOk w) {chain : List Ids} (hc : ChainOk chain)
    {t : Table} (hacc : Acc chain t) (hcov : Cov w chain t) (o : View) :
    Acc chain (finalize w t o (chain.length - 1)).1 ∧
    Cov w chain (finalize w t o (chain.length - 1)).1 ∧
    ViewOk w chain (finalize w t o (chain.length - 1)).2.2 := by
  have hpos := hc.pos
  have hcl := hw.close_pos
  have hle := hw.le
  have hL : chain.length - 1 + 1 = chain.length := by omega
  -- the kept table
  have hacc' : Acc chain (finalize w t o (chain.length - 1)).1 := by
    intro n ids h
    exact hacc n ids (mem_finalize_table.mp h).1
  have hcov' : Cov w chain (finalize w t o (chain.length - 1)).1 := by
    intro n h1 h2 h3
    obtain ⟨ids, h⟩ := hcov n h1 h2 h3
    refine ⟨ids, mem_finalize_table.mpr ⟨h, ?_⟩⟩
    intro _
    show chain.length - 1 + 1 - w.far ≤ n
    omega
  refine ⟨hacc', hcov', ?_⟩
  -- facts about entries of the kept table
  have entry : ∀ n ids x, (n, ids) ∈ (finalize w t o (chain.length - 1)).1 → x ∈ ids →
      1 ≤ n ∧ n < chain.length ∧ idsAt chain n = ids := by
    intro n ids x h hx
    have h1 := hacc' n ids h
    have h2 : n < chain.length := by
      rcases Nat.lt_or_ge n chain.length with h | h
      · exact h
      · rw [List.getElem?_eq_none h] at h1; cases h1
    have h3 := idsAt_of_getElem? h1
    refine ⟨?_, h2, h3⟩
    rcases Nat.eq_zero_or_pos n with h0 | h0
    · subst h0; rw [hc.genesis] at h3; subst h3; cases hx
    · exact h0
  have found : ∀ n, 1 ≤ n → n < chain.length → chain.length ≤ n + w.far →
      (n, idsAt chain n) ∈ (finalize w t o (chain.length - 1)).1 := by
    intro n h1 h2 h3
    obtain ⟨ids, h⟩ := hcov' n h1 h2 h3
    have := idsAt_of_getElem? (hacc' n ids h)
    rw [this]; exact h
  -- unfold the two ranges, keeping the table opaque
  generalize hT : (finalize w t o (chain.length - 1)).1 = T at entry found
  have hset : (finalize w t o (chain.length - 1)).2.2.set =
      if chain.length ≤ w.close then []
      else T.rangeIds (fun n => decide (chain.length - w.far ≤ n) && decide (n ≤ chain.length - w.close)) := by
    rw [← hT]; simp only [finalize, hL]
  have hgap : (finalize w t o (chain.length - 1)).2.2.gap =
      if chain.length ≤ w.close then T.rangeIds (fun n => decide (n ≤ chain.length - 1))
      else T.rangeIds (fun n => decide (chain.length - w.close < n) && decide (n ≤ chain.length - 1)) := by
    rw [← hT]; simp only [finalize, hL]
  constructor
  · intro x
    rw [hset]
    split
    · rename_i hs
      constructor
      · intro h; cases h
      · rintro ⟨n, h1, h2, h3, _⟩; omega
    · rename_i hs
      rw [Table.mem_rangeIds]
      constructor
      · rintro ⟨n, ids, hm, hp, hx⟩
        obtain ⟨e1, e2, e3⟩ := entry n ids x hm hx
        simp only [Bool.and_eq_true, decide_eq_true_eq] at hp
        exact ⟨n, e1, e2, by omega, by omega, by rw [e3]; exact hx⟩
      · rintro ⟨n, h1, h2, h3, h4, hx⟩
        refine ⟨n, idsAt chain n, found n h1 h2 h4, ?_, hx⟩
        simp only [Bool.and_eq_true, decide_eq_true_eq]
        omega
  · intro x
    rw [hgap]
    split
    · rename_i hs
      rw [Table.mem_rangeIds]
      constructor
      · rintro ⟨n, ids, hm, hp, hx⟩
        obtain ⟨e1, e2, e3⟩ := entry n ids x hm hx
        exact ⟨n, e1, e2, by omega, by rw [e3]; exact hx⟩
      · rintro ⟨n, h1, h2, h3, hx⟩
        refine ⟨n, idsAt chain n, found n h1 h2 (by omega), ?_, hx⟩
        simp only [decide_eq_true_eq]
        omega
    · rename_i hs
      rw [Table.mem_rangeIds]
      constructor
      · rintro ⟨n, ids, hm, hp, hx⟩
        obtain ⟨e1, e2, e3⟩ := entry n ids x hm hx
        simp only [Bool.and_eq_true, decide_eq_true_eq] at hp
        exact ⟨n, e1, e2, by omega, by rw [e3]; exact hx⟩
      · rintro ⟨n, h1, h2, h3, hx⟩
        refine ⟨n, idsAt chain n, found n h1 h2 (by omega), ?_, hx⟩
        simp only [Bool.and_eq_true, decide_eq_true_eq]
        omega

/-! ## `update_proposal_table` + `reload_proposal_table` -/

theorem Acc.insertAll {chain : List Ids} {t : Table} {es : List (Nat × Ids)} (h : Acc chain t)
    (hes : ∀ n ids, (n, ids) ∈ es → chain[n]? = some ids) : Acc chain (t.insertAll es) := by
  intro n ids hm
  rcases Table.mem_insertAll hm with h1 | h1
  · exact hes n ids h1
  · exact h n ids h1

theorem HasKey.removeAll {t : Table} {ns : List Nat} {n : Nat} (h : HasKey t n) (hn : n ∉ ns) :
    HasKey (t.removeAll ns) n := by
  obtain ⟨ids, h⟩ := h
  exact ⟨ids, Table.mem_removeAll.mpr ⟨h, hn⟩⟩

theorem newChain_length {chain : List Ids} {common : Nat} (hcommon : common < chain.length)
    (branch : List Ids) : (chain.take (common + 1) ++ branch).length = common + 1 + branch.length := by
  simp [List.length_take]; omega

theorem newChain_low {chain : List Ids} {common n : Nat} (hcommon : common < chain.length)
    (branch : List Ids) (hn : n ≤ common) :
    (chain.take (common + 1) ++ branch)[n]? = chain[n]? := by
  rw [List.getElem?_append_left (by simp [List.length_take]; omega)]
  rw [List.getElem?_take]
  simp; omega

theorem newChain_high {chain : List Ids} {common n : Nat} (hcommon : common < chain.length)
    (branch : List Ids) (hn : common + 1 ≤ n) :
    (chain.take (common + 1) ++ branch)[n]? = branch[n - (common + 1)]? := by
  rw [List.getElem?_append_right (by simp [List.length_take]; omega)]
  simp [List.length_take]
  congr 1; omega

theorem chainOk_newChain {chain : List Ids} (hc : ChainOk chain) {common : Nat}
    (hcommon : common < chain.length) (branch : List Ids) :
    ChainOk (chain.take (common + 1) ++ branch) := by
  constructor
  · rw [newChain_length hcommon]; omega
  · have h0 : (chain.take (common + 1) ++ branch)[0]? = chain[0]? := newChain_low hcommon branch (by omega)
    have := hc.genesis
    simp only [idsAt, List.getD_eq_getElem?_getD] at this ⊢
    rw [h0]; exact this

theorem updateTable_spec {w : Win} {chain : List Ids} {t : Table}
    (hacc : Acc chain t) (hcov : Cov w chain t) {common : Nat} (hcommon : common < chain.length)
    (branch : List Ids) :
    Acc (chain.take (common + 1) ++ branch)
      (updateTable w t (chain.length - 1) common branch (chain.take (common + 1) ++ branch)) ∧
    Cov w (chain.take (common + 1) ++ branch)
      (updateTable w t (chain.length - 1) common branch (chain.take (common + 1) ++ branch)) := by
  have hlen := newChain_length hcommon branch
  generalize hN : chain.take (common + 1) ++ branch = newChain at *
  -- t1 : detached numbers removed
  have acc1 : Acc newChain (t.removeAll (List.range' (common + 1) (chain.length - 1 - common))) := by
    intro n ids hm
    obtain ⟨h1, h2⟩ := Table.mem_removeAll.mp hm
    have h3 := hacc n ids h1
    have h4 : n < chain.length := by
      rcases Nat.lt_or_ge n chain.length with h | h
      · exact h
      · rw [List.getElem?_eq_none h] at h3; cases h3
    simp only [List.mem_range'_1, not_and, Nat.not_lt] at h2
    have h5 : n ≤ common := by
      rcases Nat.lt_or_ge common n with h | h
      · have := h2 (by omega); omega
      · exact h
    rw [← hN, newChain_low hcommon branch h5]; exact h3
  -- t2 : attached blocks inserted
  have acc2 : Acc newChain ((t.removeAll (List.range' (common + 1) (chain.length - 1 - common))).insertAll
      (numbered (common + 1) branch)) := by
    apply acc1.insertAll
    intro n ids hm
    obtain ⟨h1, h2⟩ := mem_numbered.mp hm
    rw [← hN, newChain_high hcommon branch h1]; exact h2
  have key2 : ∀ n, common + 1 ≤ n → n < newChain.length →
      HasKey ((t.removeAll (List.range' (common + 1) (chain.length - 1 - common))).insertAll
        (numbered (common + 1) branch)) n := by
    intro n h1 h2
    have : (n - (common + 1)) < branch.length := by omega
    exact HasKey.insertAll_of_new (ids := branch[n - (common + 1)])
      (mem_numbered.mpr ⟨h1, List.getElem?_eq_getElem this⟩)
  unfold updateTable
  simp only []
  split
  · rename_i hdet
    split
    · -- detached_front < 2, i.e. common = 0
      rename_i hfront
      refine ⟨acc2, ?_⟩
      intro n h1 h2 _
      exact key2 n (by omega) h2
    · rename_i hfront
      constructor
      · apply acc2.insertAll
        intro n ids hm
        obtain ⟨_, h2, h3⟩ := mem_chainEntries.mp hm
        rw [h3]; exact getElem?_idsAt (by omega)
      · intro n h1 h2 h3
        rcases Nat.lt_or_ge common n with h | h
        · exact HasKey.insertAll_of_old (key2 n (by omega) h2)
        · apply HasKey.insertAll_of_new (ids := idsAt newChain n)
          refine mem_chainEntries.mpr ⟨?_, h, rfl⟩
          rw [Nat.max_le]; omega
  · rename_i hdet
    refine ⟨acc2, ?_⟩
    intro n h1 h2 h3
    rcases Nat.lt_or_ge common n with h | h
    · exact key2 n (by omega) h2
    · have hk : HasKey t n := hcov n h1 (by omega) (by omega)
      apply HasKey.insertAll_of_old
      apply hk.removeAll
      have : chain.length - 1 - common = 0 := by omega
      simp [this]

/-- one main-chain change preserves the invariant -/
theorem Inv.switch {w : Win} (hw : WinOk w) {s : Node} (h : Inv w s) {common : Nat}
    (hcommon : common < s.chain.length) (branch : List Ids) : Inv w (switch w s common branch).1 := by
  have hc' := chainOk_newChain h.chain hcommon branch
  obtain ⟨a, c⟩ := updateTable_spec (w := w) h.acc h.cov hcommon branch
  have hlen := newChain_length hcommon branch
  have htip : common + branch.length = (s.chain.take (common + 1) ++ branch).length - 1 := by omega
  have := finalize_spec hw hc' a c s.view
  simp only [CkbVerif.Window.switch, htip]
  exact ⟨hc', this.1, this.2.1, this.2.2⟩

theorem Acc.nil (chain : List Ids) : Acc chain [] := by
  intro n ids h; cases h

/-- the start-up reconstruction establishes the invariant -/
theorem Inv.init {w : Win} (hw : WinOk w) {chain : List Ids} (hc : ChainOk chain) : Inv w (init w chain) := by
  have a : Acc chain (Table.insertAll [] (chainEntries chain (chain.length - 1 - w.far) (chain.length - 1))) := by
    apply (Acc.nil chain).insertAll
    intro n ids hm
    obtain ⟨_, h2, h3⟩ := mem_chainEntries.mp hm
    have := hc.pos
    rw [h3]; exact getElem?_idsAt (by omega)
  have c : Cov w chain (Table.insertAll [] (chainEntries chain (chain.length - 1 - w.far) (chain.length - 1))) := by
    intro n h1 h2 h3
    apply HasKey.insertAll_of_new (ids := idsAt chain n)
    exact mem_chainEntries.mpr ⟨by omega, by omega, rfl⟩
  have := finalize_spec hw hc a c {}
  simp only [CkbVerif.Window.init]
  exact ⟨hc, this.1, this.2.1, this.2.2⟩

/-! ## the verifier's walk -/

theorem mem_verifierWalk {chain : List Ids} {ps pe x : Nat} :
    x ∈ verifierWalk chain ps pe ↔ ∃ n, 1 ≤ n ∧ ps ≤ n ∧ n ≤ pe ∧ x ∈ idsAt chain n := by
  induction pe with
  | zero =>
    simp only [verifierWalk]
    constructor
    · intro h; cases h
    · rintro ⟨n, h1, _, h3, _⟩; omega
  | succ pe ih =>
    simp only [verifierWalk]
    split
    · rename_i hp
      rw [List.mem_append, ih]
      constructor
      · rintro (h | ⟨n, h1, h2, h3, h4⟩)
        · exact ⟨pe + 1, by omega, hp, by omega, h⟩
        · exact ⟨n, h1, h2, by omega, h4⟩
      · rintro ⟨n, h1, h2, h3, h4⟩
        rcases Nat.lt_or_ge pe n with h | h
        · have : n = pe + 1 := by omega
          subst this; exact Or.inl h4
        · exact Or.inr ⟨n, h1, h2, h, h4⟩
    · rename_i hp
      constructor
      · intro h; cases h
      · rintro ⟨n, h1, h2, h3, _⟩; omega

theorem mem_verifierIds {w : Win} (hw : WinOk w) {chain : List Ids} {x : Nat} :
    x ∈ verifierIds w chain chain.length ↔ InSet w chain x := by
  have := hw.close_pos
  simp only [verifierIds, mem_verifierWalk, InSet]
  constructor
  · rintro ⟨n, h1, h2, h3, h4⟩
    exact ⟨n, h1, by omega, by omega, by omega, h4⟩
  · rintro ⟨n, h1, h2, h3, h4, h5⟩
    exact ⟨n, h1, by omega, by omega, h5⟩

end CkbVerif.Window
