import CkbVerif.Model.Orphan3
import CkbVerif.Lemmas.Orphan
import CkbVerif.Lemmas.OrphanExpire

/-! The three-map orphan pool (`Model/Orphan3.lean`) keeps its maps in step and answers like the
one-relation model (`Model/Orphan.lean`): simulation `Sim`, preserved by every operation. -/
namespace CkbVerif.Orphan

/-- the `parents` entry of a pooled block -/
def entry (b : Blk) : Nat × Nat := (b.id, b.parent)

/-! ## `group` = look-up in the association list `blocks` -/

theorem group_nil (q : Nat) : group [] q = none := rfl

theorem group_cons (e : Nat × List Blk) (bl : List (Nat × List Blk)) (q : Nat) :
    group (e :: bl) q = if e.1 = q then some e.2 else group bl q := by
  unfold group
  by_cases h : e.1 = q
  · simp [List.find?_cons, h]
  · have : (e.1 == q) = false := by simpa using h
    simp [List.find?_cons, this, h]

theorem group_none_iff {bl : List (Nat × List Blk)} {q : Nat} :
    group bl q = none ↔ q ∉ bl.map (·.1) := by
  induction bl with
  | nil => simp [group_nil]
  | cons e bl ih =>
    rw [group_cons]
    by_cases h : e.1 = q
    · simp [h]
    · simp only [h, if_false, ih, List.map_cons, List.mem_cons, not_or]
      constructor
      · intro a; exact ⟨fun x => h x.symm, a⟩
      · intro a; exact a.2

theorem group_some_mem {bl : List (Nat × List Blk)} {q : Nat} {g : List Blk}
    (h : group bl q = some g) : (q, g) ∈ bl := by
  induction bl with
  | nil => simp [group_nil] at h
  | cons e bl ih =>
    rw [group_cons] at h
    by_cases hq : e.1 = q
    · rw [if_pos hq] at h
      have : e.2 = g := by simpa using h
      rw [← this, ← hq]
      exact List.mem_cons_self
    · rw [if_neg hq] at h
      exact List.mem_cons_of_mem _ (ih h)

theorem group_of_mem {bl : List (Nat × List Blk)} (hn : (bl.map (·.1)).Nodup) {q : Nat}
    {g : List Blk} (h : (q, g) ∈ bl) : group bl q = some g := by
  induction bl with
  | nil => cases h
  | cons e bl ih =>
    rw [group_cons]
    simp only [List.map_cons, List.nodup_cons] at hn
    rcases List.mem_cons.mp h with a | a
    · rw [← a]; simp
    · have : e.1 ≠ q := by
        intro he
        exact hn.1 (List.mem_map.mpr ⟨(q, g), a, he.symm⟩)
      rw [if_neg this]
      exact ih hn.2 a

theorem group_filter (bl : List (Nat × List Blk)) (q q' : Nat) :
    group (bl.filter (fun e => e.1 != q)) q' = if q' = q then none else group bl q' := by
  induction bl with
  | nil => simp [group_nil]
  | cons e bl ih =>
    by_cases he : e.1 = q
    · have hf : (e :: bl).filter (fun e => e.1 != q) = bl.filter (fun e => e.1 != q) := by
        simp [List.filter_cons, he]
      rw [hf, ih, group_cons]
      by_cases hq : q' = q
      · simp [hq]
      · have : e.1 ≠ q' := by rw [he]; exact fun x => hq x.symm
        simp [hq, this]
    · have hf : (e :: bl).filter (fun e => e.1 != q) = e :: bl.filter (fun e => e.1 != q) := by
        simp [List.filter_cons, he]
      rw [hf, group_cons, ih, group_cons]
      by_cases hq : q' = q
      · have : e.1 ≠ q' := by rw [hq]; exact he
        simp [hq, he]
      · simp [hq]

/-- update of the group at key `p` -/
def updGroup (bl : List (Nat × List Blk)) (p : Nat) (f : List Blk → List Blk) : List (Nat × List Blk) :=
  bl.map (fun e => if e.1 == p then (e.1, f e.2) else e)

theorem keys_updGroup (bl : List (Nat × List Blk)) (p : Nat) (f : List Blk → List Blk) :
    (updGroup bl p f).map (·.1) = bl.map (·.1) := by
  simp only [updGroup, List.map_map]
  apply List.map_congr_left
  intro e _
  simp only [Function.comp]
  split <;> rfl

theorem group_updGroup (bl : List (Nat × List Blk)) (p : Nat) (f : List Blk → List Blk) (q : Nat) :
    group (updGroup bl p f) q = if q = p then (group bl q).map f else group bl q := by
  induction bl with
  | nil => simp [updGroup, group_nil]
  | cons e bl ih =>
    have hcons : updGroup (e :: bl) p f = (if e.1 == p then (e.1, f e.2) else e) :: updGroup bl p f := by
      simp [updGroup]
    rw [hcons, group_cons, ih, group_cons]
    by_cases hep : e.1 = p
    · have h1 : (e.1 == p) = true := by simp [hep]
      simp only [h1, if_true]
      by_cases hq : q = p
      · have : e.1 = q := by rw [hep, hq]
        simp [hq, hep]
      · have hpq : ¬ p = q := fun x => hq x.symm
        simp [hq, hep, hpq]
    · have h1 : (e.1 == p) = false := by simpa using hep
      simp only [h1, Bool.false_eq_true, if_false]
      by_cases heq : e.1 = q
      · have : q ≠ p := by rw [← heq]; exact hep
        simp [heq, this]
      · simp [heq]

theorem putBlock_eq (bl : List (Nat × List Blk)) (b : Blk) :
    putBlock bl b =
      match group bl b.parent with
      | some _ => updGroup bl b.parent (fun g => b :: g.filter (fun c => c.id != b.id))
      | none => (b.parent, [b]) :: bl := rfl

/-! ## the simulation -/

structure Sim (s3 : Pool3) (s : Pool) : Prop where
  parents : s3.parents = s.pool.map entry
  leaders : s3.leaders = s.leaders
  groups : ∀ q, (group s3.blocks q).getD [] = children s.pool q
  nonempty : ∀ q g, group s3.blocks q = some g → g ≠ []
  keys : (s3.blocks.map (·.1)).Nodup

theorem Sim.empty : Sim {} {} :=
  ⟨rfl, rfl, fun _ => rfl, fun q g h => by simp [group_nil] at h, List.nodup_nil⟩

theorem hasParent_entry (pool : List Blk) (h : Nat) :
    hasParent (pool.map entry) h = pooled pool h := by
  simp [hasParent, pooled, List.any_map, entry, Function.comp_def]

theorem children_cons (b : Blk) (pool : List Blk) (q : Nat) :
    children (b :: pool) q = if b.parent = q then b :: children pool q else children pool q := by
  unfold children
  by_cases h : b.parent = q
  · simp [List.filter_cons, h]
  · simp [List.filter_cons, h]

theorem children_filter_id (pool : List Blk) (q i : Nat) :
    children (pool.filter (fun c => c.id != i)) q = (children pool q).filter (fun c => c.id != i) := by
  unfold children
  rw [List.filter_filter, List.filter_filter]
  apply List.filter_congr
  intro c _
  exact Bool.and_comm _ _

theorem Sim.insert {par : Nat → Nat} {s3 : Pool3} {s : Pool} (h : Sim s3 s) (inv : Inv par s)
    {b : Blk} (hb : b.parent = par b.id) : Sim (insert3 s3 b) (CkbVerif.Orphan.insert s b) := by
  -- other groups do not hold a block with the id of `b`
  have hother : ∀ q, q ≠ b.parent →
      (children s.pool q).filter (fun c => c.id != b.id) = children s.pool q := by
    intro q hq
    apply List.filter_eq_self.mpr
    intro c hc
    have hc' := mem_children.mp hc
    have : c.id ≠ b.id := by
      intro hid
      have := inv.wf c hc'.1
      rw [hid, ← hb, hc'.2] at this
      exact hq this
    simpa using this
  refine ⟨?_, ?_, ?_, ?_, ?_⟩
  · simp only [insert3, CkbVerif.Orphan.insert, h.parents, List.map_cons, List.filter_map]
    rfl
  · simp only [insert3, CkbVerif.Orphan.insert, h.parents, h.leaders, hasParent_entry]
  · intro q
    simp only [insert3, CkbVerif.Orphan.insert]
    rw [children_cons, children_filter_id, putBlock_eq]
    have hg := h.groups b.parent
    cases hgp : group s3.blocks b.parent with
    | none =>
      rw [hgp] at hg
      simp only [Option.getD_none] at hg
      simp only []
      rw [group_cons]
      by_cases hq : b.parent = q
      · subst hq
        simp [← hg]
      · simp only [hq, if_false]
        rw [h.groups q, hother q (fun x => hq x.symm)]
    | some g =>
      rw [hgp] at hg
      simp only [Option.getD_some] at hg
      simp only []
      rw [group_updGroup]
      by_cases hq : b.parent = q
      · subst hq
        simp [hgp, hg]
      · have : q ≠ b.parent := fun x => hq x.symm
        simp only [this, hq, if_false]
        rw [h.groups q, hother q this]
  · intro q g hg
    simp only [insert3] at hg
    rw [putBlock_eq] at hg
    cases hgp : group s3.blocks b.parent with
    | none =>
      rw [hgp] at hg
      simp only [] at hg
      rw [group_cons] at hg
      by_cases hq : b.parent = q
      · simp only [hq, if_true] at hg
        have : [b] = g := by simpa using hg
        rw [← this]; simp
      · simp only [hq, if_false] at hg
        exact h.nonempty q g hg
    | some g0 =>
      rw [hgp] at hg
      simp only [] at hg
      rw [group_updGroup] at hg
      by_cases hq : q = b.parent
      · rw [if_pos hq, hq, hgp] at hg
        have : b :: g0.filter (fun c => c.id != b.id) = g := by simpa using hg
        rw [← this]; simp
      · rw [if_neg hq] at hg
        exact h.nonempty q g hg
  · simp only [insert3]
    rw [putBlock_eq]
    cases hgp : group s3.blocks b.parent with
    | none =>
      simp only [List.map_cons, List.nodup_cons]
      exact ⟨group_none_iff.mp hgp, h.keys⟩
    | some g0 =>
      simp only []
      rw [keys_updGroup]; exact h.keys

/-- which `parents` entries the loop deletes when it removes the children of `q` -/
theorem any_children_id {pool : List Blk} (hn : (pool.map (·.id)).Nodup) {b : Blk} (hb : b ∈ pool)
    (q : Nat) : ((children pool q).any (fun c => c.id == b.id)) = (b.parent == q) := by
  by_cases hq : b.parent = q
  · have : b ∈ children pool q := mem_children.mpr ⟨hb, hq⟩
    have h1 : ((children pool q).any (fun c => c.id == b.id)) = true :=
      List.any_eq_true.mpr ⟨b, this, by simp⟩
    rw [h1]; simp [hq]
  · have h2 : (b.parent == q) = false := by simpa using hq
    rw [h2]
    apply Bool.eq_false_iff.mpr
    intro hany
    obtain ⟨c, hc, hid⟩ := List.any_eq_true.mp hany
    have hc' := mem_children.mp hc
    have : c = b := eq_of_id hn hc'.1 hb (by simpa using hid)
    rw [this] at hc'
    exact hq hc'.2

theorem children_rest (pool : List Blk) (q q' : Nat) :
    children (pool.filter (fun b => !(b.parent == q))) q' =
      if q' = q then [] else children pool q' := by
  unfold children
  rw [List.filter_filter]
  by_cases h : q' = q
  · rw [if_pos h, h]
    apply List.filter_eq_nil_iff.mpr
    intro c _
    cases hc : (c.parent == q) <;> simp
  · rw [if_neg h]
    apply List.filter_congr
    intro c _
    by_cases hc : c.parent = q'
    · have : (c.parent == q) = false := by rw [hc]; simpa using h
      simp [hc, h]
    · have : (c.parent == q') = false := by simpa using hc
      simp [this]

theorem bfs3_sim (fuel : Nat) : ∀ (bl : List (Nat × List Blk)) (pool : List Blk)
    (queue : List Nat) (removed : List Blk),
    (pool.map (·.id)).Nodup →
    (∀ q, (group bl q).getD [] = children pool q) →
    (∀ q g, group bl q = some g → g ≠ []) →
    (bl.map (·.1)).Nodup →
    (bfs3 fuel bl (pool.map entry) queue removed).2 = (bfs fuel pool queue removed).2 ∧
    (bfs3 fuel bl (pool.map entry) queue removed).1.2 = (bfs fuel pool queue removed).1.map entry ∧
    (∀ q, (group (bfs3 fuel bl (pool.map entry) queue removed).1.1 q).getD [] =
      children (bfs fuel pool queue removed).1 q) ∧
    (∀ q g, group (bfs3 fuel bl (pool.map entry) queue removed).1.1 q = some g → g ≠ []) ∧
    ((bfs3 fuel bl (pool.map entry) queue removed).1.1.map (·.1)).Nodup := by
  induction fuel with
  | zero => intro bl pool queue removed _ hg hne hk; exact ⟨rfl, rfl, hg, hne, hk⟩
  | succ fuel ih =>
    intro bl pool queue removed hn hg hne hk
    cases queue with
    | nil => exact ⟨rfl, rfl, hg, hne, hk⟩
    | cons q rest =>
      have hgq := hg q
      cases hgp : group bl q with
      | none =>
        rw [hgp] at hgq
        simp only [Option.getD_none] at hgq
        have hpool : pool.filter (fun b => !(b.parent == q)) = pool := by
          apply List.filter_eq_self.mpr
          intro c hc
          cases hcq : (c.parent == q) with
          | false => rfl
          | true =>
            have : c ∈ children pool q := mem_children.mpr ⟨hc, by simpa using hcq⟩
            rw [← hgq] at this; cases this
        simp only [bfs3, bfs, hgp, ← hgq, hpool, List.map_nil, List.append_nil]
        exact ih bl pool rest removed hn hg hne hk
      | some g =>
        rw [hgp] at hgq
        simp only [Option.getD_some] at hgq
        have hpa : (pool.map entry).filter (fun e => !(g.any (fun c => c.id == e.1))) =
            (pool.filter (fun b => !(b.parent == q))).map entry := by
          rw [List.filter_map]
          congr 1
          apply List.filter_congr
          intro b hb
          simp only [Function.comp, entry]
          rw [hgq, any_children_id hn hb q]
        simp only [bfs3, bfs, hgp, hpa, ← hgq]
        apply ih
        · exact List.Nodup.sublist (List.Sublist.map _ List.filter_sublist) hn
        · intro q'
          rw [group_filter, children_rest]
          by_cases hq' : q' = q
          · simp [hq']
          · simp only [hq', if_false]; exact hg q'
        · intro q' g' hg'
          rw [group_filter] at hg'
          by_cases hq' : q' = q
          · simp [hq'] at hg'
          · simp only [hq', if_false] at hg'; exact hne q' g' hg'
        · exact List.Nodup.sublist (List.Sublist.map _ List.filter_sublist) hk

theorem Sim.removeByParent {par : Nat → Nat} {s3 : Pool3} {s : Pool} (h : Sim s3 s) (inv : Inv par s)
    (p : Nat) :
    (removeByParent3 s3 p).2 = (CkbVerif.Orphan.removeByParent s p).2 ∧
    Sim (removeByParent3 s3 p).1 (CkbVerif.Orphan.removeByParent s p).1 := by
  unfold removeByParent3 CkbVerif.Orphan.removeByParent
  rw [h.leaders]
  by_cases hp : s.leaders.contains p = true
  · simp only [hp, if_true]
    have hlen : s3.parents.length = s.pool.length := by rw [h.parents]; simp
    rw [hlen, h.parents]
    obtain ⟨a1, a2, a3, a4, a5⟩ :=
      bfs3_sim (2 * s.pool.length + 2) s3.blocks s.pool [p] [] inv.nodup h.groups h.nonempty h.keys
    exact ⟨a1, ⟨a2, by first | rfl | trivial, a3, a4, a5⟩⟩
  · simp only [hp, Bool.false_eq_true, if_false]
    exact ⟨by first | rfl | trivial, h⟩

theorem needClean3_eq {s3 : Pool3} {s : Pool} (h : Sim s3 s) (l e : Nat) :
    needClean3 s3.blocks l e = needClean s.pool l e := by
  unfold needClean3 needClean
  have hg := h.groups l
  cases hgp : group s3.blocks l with
  | none =>
    rw [hgp] at hg
    simp only [Option.getD_none] at hg
    rw [← hg]
  | some g =>
    rw [hgp] at hg
    simp only [Option.getD_some] at hg
    rw [← hg]
    cases g with
    | nil => rfl
    | cons b _ => rfl

theorem Sim.cleanExpired {par : Nat → Nat} {s3 : Pool3} {s : Pool} (h : Sim s3 s) (inv : Inv par s)
    (e : Nat) :
    (cleanExpired3 s3 e).2 = (CkbVerif.Orphan.cleanExpired s e).2 ∧
    Sim (cleanExpired3 s3 e).1 (CkbVerif.Orphan.cleanExpired s e).1 := by
  unfold cleanExpired3 CkbVerif.Orphan.cleanExpired
  rw [h.leaders]
  generalize s.leaders = ls
  have key : ∀ (acc3 : Pool3 × List Blk) (acc : Pool × List Blk),
      Sim acc3.1 acc.1 → Inv par acc.1 → acc3.2 = acc.2 →
      (ls.foldl (fun (acc : Pool3 × List Blk) h =>
          if needClean3 acc.1.blocks h e then
            ((removeByParent3 acc.1 h).1, acc.2 ++ (removeByParent3 acc.1 h).2)
          else acc) acc3).2 =
      (ls.foldl (fun (acc : Pool × List Blk) h =>
          if needClean acc.1.pool h e then
            ((CkbVerif.Orphan.removeByParent acc.1 h).1, acc.2 ++ (CkbVerif.Orphan.removeByParent acc.1 h).2)
          else acc) acc).2 ∧
      Sim (ls.foldl (fun (acc : Pool3 × List Blk) h =>
          if needClean3 acc.1.blocks h e then
            ((removeByParent3 acc.1 h).1, acc.2 ++ (removeByParent3 acc.1 h).2)
          else acc) acc3).1
        (ls.foldl (fun (acc : Pool × List Blk) h =>
          if needClean acc.1.pool h e then
            ((CkbVerif.Orphan.removeByParent acc.1 h).1, acc.2 ++ (CkbVerif.Orphan.removeByParent acc.1 h).2)
          else acc) acc).1 := by
    induction ls with
    | nil => intro acc3 acc hs _ he; exact ⟨he, hs⟩
    | cons l ls ih =>
      intro acc3 acc hs hi he
      simp only [List.foldl_cons]
      rw [needClean3_eq hs]
      by_cases hc : needClean acc.1.pool l e = true
      · simp only [hc, if_true]
        obtain ⟨r1, r2⟩ := hs.removeByParent hi l
        exact ih _ _ r2 (hi.removeByParent l) (by simp only [he, r1])
      · simp only [hc, Bool.false_eq_true, if_false]
        exact ih _ _ hs hi he
  exact key (s3, []) (s, []) h inv rfl

/-! ## what the simulation says about the three maps themselves -/

theorem Sim.mem_blocks_iff {s3 : Pool3} {s : Pool} (h : Sim s3 s) {b : Blk} :
    b ∈ s.pool ↔ ∃ g, (b.parent, g) ∈ s3.blocks ∧ b ∈ g := by
  constructor
  · intro hb
    have hc : b ∈ children s.pool b.parent := mem_children.mpr ⟨hb, rfl⟩
    rw [← h.groups] at hc
    cases hg : group s3.blocks b.parent with
    | none => rw [hg] at hc; cases hc
    | some g =>
      rw [hg] at hc
      exact ⟨g, group_some_mem hg, hc⟩
  · rintro ⟨g, hm, hb⟩
    have hg := group_of_mem h.keys hm
    have := h.groups b.parent
    rw [hg] at this
    simp only [Option.getD_some] at this
    rw [this] at hb
    exact (mem_children.mp hb).1

theorem Sim.group_members {s3 : Pool3} {s : Pool} (h : Sim s3 s) {p : Nat} {g : List Blk}
    (hm : (p, g) ∈ s3.blocks) : g = children s.pool p := by
  have hg := group_of_mem h.keys hm
  have := h.groups p
  rw [hg] at this
  simpa using this

end CkbVerif.Orphan
