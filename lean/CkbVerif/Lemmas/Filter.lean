import CkbVerif.Model.Filter
/-! Helper lemmas for the block-filter part of C19. -/
namespace CkbVerif.Filter

theorem mem_insertUniq (x y : Nat) (l : List Nat) : y ∈ insertUniq x l ↔ y = x ∨ y ∈ l := by
  induction l with
  | nil => simp [insertUniq]
  | cons z zs ih =>
    unfold insertUniq
    split
    · simp
    · split
      · subst_vars; simp
      · simp [ih]; constructor
        · rintro (h | h | h) <;> simp [h]
        · rintro (h | h | h) <;> simp [h]

theorem mem_elemSet (y : Nat) (l : List Nat) : y ∈ elemSet l ↔ y ∈ l := by
  induction l with
  | nil => simp [elemSet]
  | cons x xs ih =>
    have : elemSet (x :: xs) = insertUniq x (elemSet xs) := rfl
    rw [this, mem_insertUniq, ih]; simp

/-- strictly increasing -/
def StrictSorted : List Nat → Prop
  | [] => True
  | [_] => True
  | x :: y :: rest => x < y ∧ StrictSorted (y :: rest)

theorem strictSorted_insertUniq (x : Nat) (l : List Nat) (h : StrictSorted l) :
    StrictSorted (insertUniq x l) := by
  induction l with
  | nil => simp [insertUniq, StrictSorted]
  | cons z zs ih =>
    unfold insertUniq
    split
    · exact ⟨by assumption, h⟩
    · split
      · exact h
      · cases zs with
        | nil => simp [insertUniq, StrictSorted]; omega
        | cons w ws =>
          have hz : z < w := h.1
          have ih' := ih h.2
          unfold insertUniq at ih' ⊢
          split
          · exact ⟨by omega, by assumption, h.2⟩
          · split
            · exact h
            · rename_i h1 h2
              simp only [h1, h2, if_false] at ih'
              exact ⟨hz, ih'⟩

theorem strictSorted_elemSet (l : List Nat) : StrictSorted (elemSet l) := by
  induction l with
  | nil => simp [elemSet, StrictSorted]
  | cons x xs ih => exact strictSorted_insertUniq x _ ih

theorem lookupHash_cons {ρ : Type} (k : Nat) (v : ρ) (built : List (Nat × ρ)) (id : Nat) :
    lookupHash ((k, v) :: built) id = if k = id then some v else lookupHash built id := by
  unfold lookupHash
  by_cases h : k = id <;> simp [List.find?, h]

end CkbVerif.Filter
