import CkbVerif.Model.JsonMap
/-!
# JSON ↔ packed field maps (C15): a map with the discipline `mapOk` round-trips every packed field
-/
namespace CkbVerif.JsonMap
open CkbVerif.Gen.JsonMap

theorem unique_of_count_one {α : Type} (key : α → String) : ∀ (l : List α) (a b : α), a ∈ l → b ∈ l → key a = key b →
    (l.map key).count (key a) = 1 → a = b
  | [], a, _, ha, _, _, _ => by cases ha
  | x :: xs, a, b, ha, hb, hk, hc => by
    simp only [List.map_cons, List.count_cons] at hc
    have pos : ∀ c, c ∈ xs → key c = key a → 0 < (xs.map key).count (key a) := by
      intro c hc' hkc
      rw [List.count_pos_iff]
      exact List.mem_map.mpr ⟨c, hc', hkc⟩
    rcases List.mem_cons.mp ha with rfl | ha' <;> rcases List.mem_cons.mp hb with rfl | hb'
    · rfl
    · have := pos b hb' hk.symm
      have hx : (key a == key a) = true := by simp
      simp only [hx, if_true] at hc
      omega
    · have := pos a ha' rfl
      have hx : (key b == key a) = true := by simp [hk]
      simp only [hx, if_true] at hc
      omega
    · by_cases hx : key x = key a
      · have := pos a ha' rfl
        have hx' : (key x == key a) = true := by simp [hx]
        simp only [hx', if_true] at hc
        omega
      · have hx' : (key x == key a) = false := by simpa using hx
        simp only [hx', Bool.false_eq_true, if_false, Nat.add_zero] at hc
        exact unique_of_count_one key xs a b ha' hb' hk hc

theorem exactlyOnce_count {want got : List String} (h : exactlyOnce want got = true) :
    (∀ w ∈ want, got.count w = 1) ∧ (∀ g ∈ got, g ∈ want) := by
  unfold exactlyOnce at h
  simp only [Bool.and_eq_true, List.all_eq_true, beq_iff_eq, List.contains_eq_mem, decide_eq_true_eq] at h
  exact h

/-- **field-level round trip**: for a type whose maps satisfy `mapOk`, every backward branch applied after the forward
map returns, at every packed field the branch must write, the value the packed record had there — for every record. -/
theorem back_after_fwd {V : Type} (dflt : V) (t : TypeMap) (hok : mapOk t = true) (b : String × List Entry) (hb : b ∈ t.back)
    (rec : String → V) (p : String) (hp : p ∈ branchTargets t b.2) :
    applyBack dflt b.2 (applyFwd dflt t.fwd rec) p = rec p := by
  unfold mapOk at hok
  simp only [Bool.and_eq_true] at hok
  obtain ⟨⟨⟨⟨_, hjson⟩, _⟩, hback⟩, _⟩ := hok
  have hbr := (List.all_eq_true.mp hback) b hb
  simp only [Bool.and_eq_true] at hbr
  obtain ⟨⟨htargets, hin⟩, _⟩ := hbr
  have hcount := (exactlyOnce_count htargets).1 p hp
  have hmem : p ∈ b.2.map (·.packed) := by
    rw [← List.count_pos_iff]; omega
  -- the entry the branch finds
  have hfind : ∃ e, b.2.find? (fun e => e.packed == p) = some e := by
    obtain ⟨e, he, hpe⟩ := List.mem_map.mp hmem
    cases hf : b.2.find? (fun e => e.packed == p) with
    | some e' => exact ⟨e', rfl⟩
    | none =>
      have := List.find?_eq_none.mp hf e he
      simp [hpe] at this
  obtain ⟨e, hfe⟩ := hfind
  have hep : e.packed = p := by simpa using List.find?_some hfe
  have heb : e ∈ b.2 := List.mem_of_find?_eq_some hfe
  have hefwd : e ∈ t.fwd := by
    have := (List.all_eq_true.mp hin) e heb
    simpa using this
  -- the entry the forward map finds for e.json is e itself
  have hjcount : (t.fwd.map (·.json)).count e.json = 1 := by
    have h2 := exactlyOnce_count hjson
    exact h2.1 _ (h2.2 _ (List.mem_map.mpr ⟨e, hefwd, rfl⟩))
  have hffind : ∃ f, t.fwd.find? (fun f => f.json == e.json) = some f := by
    cases hf : t.fwd.find? (fun f => f.json == e.json) with
    | some f => exact ⟨f, rfl⟩
    | none =>
      have := List.find?_eq_none.mp hf e hefwd
      simp at this
  obtain ⟨f, hff⟩ := hffind
  have hfj : f.json = e.json := by simpa using List.find?_some hff
  have hfmem : f ∈ t.fwd := List.mem_of_find?_eq_some hff
  have hfe' : e = f := unique_of_count_one (·.json) t.fwd e f hefwd hfmem hfj.symm hjcount
  unfold applyBack
  rw [hfe]
  simp only []
  unfold applyFwd
  rw [hff]
  simp only []
  rw [← hfe', hep]

end CkbVerif.JsonMap
