import CkbVerif.Model.RestartView
import CkbVerif.Lemmas.Window

/-!
Helper lemmas for the proposal-table-across-restart theorems of C08 (`Props/C08.lean`):
paths start at genesis, the common prefix of two paths is a prefix of both, a `Window.switch` at the fork
point of two paths turns the `chainIds` of the old tip into those of the new tip, and the invariant
`XInv` (the running node's table is `Window.Inv` for the main chain of the pipeline's tip) is preserved by
every pipeline operation and established by a crash.
-/
namespace CkbVerif.RestartView
open CkbVerif.Chain CkbVerif.Window

/-! ## paths -/

theorem pathRev_ends (T : Tree) : ∀ (fuel b : Nat), ∃ l, pathRev T fuel b = l ++ [0] := by
  intro fuel
  induction fuel with
  | zero => intro b; exact ⟨[], rfl⟩
  | succ f ih =>
    intro b
    by_cases hb : b = 0
    · exact ⟨[], by simp [pathRev, hb]⟩
    · obtain ⟨l, hl⟩ := ih (T.par b)
      exact ⟨b :: l, by simp [pathRev, hb, hl]⟩

/-- every main chain starts with the genesis block -/
theorem path_cons (T : Tree) (b : Nat) : ∃ l, path T b = 0 :: l := by
  obtain ⟨l, hl⟩ := pathRev_ends T b b
  exact ⟨l.reverse, by simp [path, hl]⟩

theorem path_zero (T : Tree) : path T 0 = [0] := rfl

theorem unionIds_zero (P : Props) : unionIds P 0 = [] := by simp [unionIds]

theorem chainIds_cons (P : Props) (T : Tree) (b : Nat) : ∃ l, chainIds P T b = [] :: l := by
  obtain ⟨l, hl⟩ := path_cons T b
  exact ⟨l.map (unionIds P), by simp [chainIds, hl, unionIds_zero]⟩

/-- the `List Ids` of a main chain is admissible for `Model/Window`: non-empty, genesis without ids -/
theorem chainOk_chainIds (P : Props) (T : Tree) (b : Nat) : ChainOk (chainIds P T b) := by
  obtain ⟨l, hl⟩ := chainIds_cons P T b
  exact ⟨by rw [hl]; simp, by rw [hl]; rfl⟩

/-! ## common prefix -/

theorem commonPrefix_prefix_left : ∀ (a b : List Nat), commonPrefix a b <+: a := by
  intro a
  induction a with
  | nil => intro b; simp [commonPrefix]
  | cons x xs ih =>
    intro b
    cases b with
    | nil => simp [commonPrefix]
    | cons y ys =>
      by_cases h : x = y
      · simp only [commonPrefix, h, if_true]
        exact (List.cons_prefix_cons).mpr ⟨rfl, ih ys⟩
      · simp [commonPrefix, h]

theorem commonPrefix_prefix_right : ∀ (a b : List Nat), commonPrefix a b <+: b := by
  intro a
  induction a with
  | nil => intro b; simp [commonPrefix]
  | cons x xs ih =>
    intro b
    cases b with
    | nil => simp [commonPrefix]
    | cons y ys =>
      by_cases h : x = y
      · simp only [commonPrefix, h, if_true]
        exact (List.cons_prefix_cons).mpr ⟨rfl, ih ys⟩
      · simp [commonPrefix, h]

theorem commonPrefix_cons_pos (x : Nat) (a b : List Nat) : 1 ≤ (commonPrefix (x :: a) (x :: b)).length := by
  simp [commonPrefix]

/-- a switch at the fork point of two chains that both start with the same block: the retained prefix of
the old chain followed by the new branch is the new chain (under any per-block function `f`) -/
theorem take_common_append {α : Type} (f : Nat → α) (x : Nat) (a b : List Nat) :
    ((x :: a).map f).take ((commonPrefix (x :: a) (x :: b)).length - 1 + 1) ++
      (((x :: b).drop (commonPrefix (x :: a) (x :: b)).length).map f) = (x :: b).map f ∧
    (commonPrefix (x :: a) (x :: b)).length - 1 < ((x :: a).map f).length := by
  have hpos := commonPrefix_cons_pos x a b
  have hl := commonPrefix_prefix_left (x :: a) (x :: b)
  have hr := commonPrefix_prefix_right (x :: a) (x :: b)
  generalize commonPrefix (x :: a) (x :: b) = cp at hpos hl hr
  have h1 : cp.length - 1 + 1 = cp.length := by omega
  have hla : (x :: a).take cp.length = cp := (List.prefix_iff_eq_take.mp hl).symm
  have hrb : (x :: b).take cp.length = cp := (List.prefix_iff_eq_take.mp hr).symm
  refine ⟨?_, ?_⟩
  · rw [h1, ← List.map_take, hla, ← List.map_append]
    congr 1
    conv => rhs; rw [← List.take_append_drop cp.length (x :: b), hrb]
  · have := hl.length_le
    simp only [List.length_map]
    omega

/-! ## the invariant -/

/-- the running process's table is the `Window` invariant for the main chain of the pipeline's tip -/
structure XInv (w : Win) (P : Props) (T : Tree) (x : XState) : Prop where
  chain : x.pv.chain = chainIds P T x.st.tip
  inv : Inv w x.pv

theorem initAt_chain (w : Win) (P : Props) (T : Tree) (tip : Nat) :
    (initAt w P T tip).chain = chainIds P T tip := rfl

theorem xinv_initAt {w : Win} (hw : WinOk w) (P : Props) (T : Tree) (s : State) :
    XInv w P T { st := s, pv := initAt w P T s.tip } :=
  ⟨rfl, Inv.init hw (chainOk_chainIds P T s.tip)⟩

/-- the tip moves from `o` to `n`: `switchTo` re-targets the table -/
theorem xinv_switchTo {w : Win} (hw : WinOk w) (P : Props) (T : Tree) {pv : Node} {o : Nat}
    (hc : pv.chain = chainIds P T o) (hi : Inv w pv) (n : Nat) :
    (switchTo w P T pv o n).chain = chainIds P T n ∧ Inv w (switchTo w P T pv o n) := by
  obtain ⟨a, ha⟩ := path_cons T o
  obtain ⟨b, hb⟩ := path_cons T n
  obtain ⟨h1, h2⟩ := take_common_append (unionIds P) 0 a b
  have hcommon : (commonPrefix (path T o) (path T n)).length - 1 < pv.chain.length := by
    rw [hc, chainIds, ha, hb]; exact h2
  refine ⟨?_, Inv.switch hw hi hcommon _⟩
  show pv.chain.take ((commonPrefix (path T o) (path T n)).length - 1 + 1) ++
      ((path T n).drop (commonPrefix (path T o) (path T n)).length).map (unionIds P) = chainIds P T n
  rw [hc, chainIds, chainIds, ha, hb]
  exact h1

theorem xinv_step {w : Win} (hw : WinOk w) (P : Props) (T : Tree) {x : XState} (h : XInv w P T x)
    (op : Op) : XInv w P T (xstep w P T x op) := by
  have keep : ∀ s' : State,
      XInv w P T { st := s', pv := if s'.tip = x.st.tip then x.pv else switchTo w P T x.pv x.st.tip s'.tip } := by
    intro s'
    by_cases ht : s'.tip = x.st.tip
    · simp only [ht, if_true]
      exact ⟨by rw [h.chain, ht], h.inv⟩
    · simp only [ht, if_false]
      obtain ⟨a, b⟩ := xinv_switchTo hw P T h.chain h.inv s'.tip
      exact ⟨a, b⟩
  cases op with
  | crash => exact xinv_initAt hw P T _
  | deliver b hint => exact keep _
  | verify => exact keep _
  | expire => exact keep _

theorem xinv_run {w : Win} (hw : WinOk w) (P : Props) (T : Tree) : ∀ (ops : List Op) (x : XState),
    XInv w P T x → XInv w P T (xrun w P T x ops) := by
  intro ops
  induction ops with
  | nil => intro x h; exact h
  | cons op ops ih => intro x h; exact ih _ (xinv_step hw P T h op)

theorem xinv_xinit {w : Win} (hw : WinOk w) (P : Props) (T : Tree) : XInv w P T (xinit w P T) :=
  xinv_initAt hw P T (Chain.init T)

/-- the pipeline component of the extended run is the plain pipeline run -/
theorem xrun_st (w : Win) (P : Props) (T : Tree) : ∀ (ops : List Op) (x : XState),
    (xrun w P T x ops).st = run T x.st ops := by
  intro ops
  induction ops with
  | nil => intro x; rfl
  | cons op ops ih =>
    intro x
    have : (xstep w P T x op).st = (step T x.st op).1 := by cases op <;> rfl
    simp only [xrun, run, ih, this]

end CkbVerif.RestartView
