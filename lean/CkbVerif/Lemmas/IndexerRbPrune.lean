import CkbVerif.Lemmas.IndexerRbS5

/-! `rollback` after `append` INCLUDING the automatic prune: the answers are still restored (C18). -/
namespace CkbVerif.Indexer

/-- what a key maps to after a batch only depends on what it mapped to before -/
theorem get_commit_congr (ops : List BOp) (X Y : Store) (k : Key) (h : get X k = get Y k) :
    get (commit X ops) k = get (commit Y ops) k := by
  induction ops generalizing X Y with
  | nil => exact h
  | cons o r ih =>
    apply ih
    cases o with
    | put k' v =>
      by_cases hk : k' = k
      · subst hk; simp [applyOp, get_put_same]
      · simp [applyOp, get_put_other _ _ _ _ hk, h]
    | del k' =>
      by_cases hk : k' = k
      · subst hk; simp [applyOp, get_del_same]
      · simp [applyOp, get_del_other _ _ _ hk, h]

/-- the rollback entries of one transaction only read OutPoint rows, this block's ConsumedOutPoint
rows and the transaction's TxHash row -/
theorem rbTxOpsCore_congr (X Y : Store) (bn id i n : Nat)
    (h1 : ∀ op, get X (.outPoint op) = get Y (.outPoint op))
    (h2 : ∀ op, get X (.consumed bn op) = get Y (.consumed bn op))
    (h3 : get X (.txHash id) = get Y (.txHash id)) :
    rbTxOpsCore X bn id i n = rbTxOpsCore Y bn id i n := by
  unfold rbTxOpsCore rbOutputOps rbInputOps
  simp only [h1, h2, h3]

/-- the keys `prune` deletes, precisely -/
theorem pruneOps_keys (s : Store) (keep : Nat) (o : BOp) (ho : o ∈ pruneOps s keep) :
    ∃ k n hh, o = .del k ∧ tip s = some (n, hh) ∧ keep + 1 < n ∧
      ((∃ bn op, k = .consumed bn op ∧ bn < n - (keep + 1)) ∨
       (∃ t r, k = .txHash t ∧ r ∈ headerRows s ∧ r.1 ≤ n - (keep + 1) ∧ t ∈ r.2.2.2.map (·.1)) ∨
       (∃ bn h f, k = .header bn h f ∧ bn ≤ n - (keep + 1))) := by
  unfold pruneOps at ho
  split at ho
  · simp at ho
  · rename_i tipNumber th htip
    dsimp only at ho
    split at ho
    · rename_i hgt
      have hcons : ∀ o ∈ (s.filterMap fun e =>
          match e.1 with
          | .consumed bn op => if bn < tipNumber - (keep + 1) then some (BOp.del (.consumed bn op)) else none
          | _ => none), ∃ bn op, o = .del (.consumed bn op) ∧ bn < tipNumber - (keep + 1) := by
        intro o ho
        rw [List.mem_filterMap] at ho
        obtain ⟨e, _, he⟩ := ho
        split at he
        · split at he
          · rename_i hlt
            simp at he; subst he
            exact ⟨_, _, rfl, hlt⟩
          · cases he
        · cases he
      have fromCons : ∀ o, (∃ bn op, o = BOp.del (.consumed bn op) ∧ bn < tipNumber - (keep + 1)) →
          ∃ k n hh, o = .del k ∧ tip s = some (n, hh) ∧ keep + 1 < n ∧
            ((∃ bn op, k = .consumed bn op ∧ bn < n - (keep + 1)) ∨
             (∃ t r, k = .txHash t ∧ r ∈ headerRows s ∧ r.1 ≤ n - (keep + 1) ∧ t ∈ r.2.2.2.map (·.1)) ∨
             (∃ bn h f, k = .header bn h f ∧ bn ≤ n - (keep + 1))) := by
        rintro o ⟨bn, op, rfl, hlt⟩
        exact ⟨_, tipNumber, th, rfl, htip, hgt, Or.inl ⟨bn, op, rfl, hlt⟩⟩
      split at ho
      · exact fromCons o (hcons o ho)
      · rename_i minBn _
        rw [List.mem_append] at ho
        rcases ho with ho | ho
        · exact fromCons o (hcons o ho)
        · rw [List.mem_flatMap] at ho
          obtain ⟨r, hr, hro⟩ := ho
          obtain ⟨bn, h, f, l⟩ := r
          simp only at hro
          split at hro
          · rename_i hrange
            rw [List.mem_append] at hro
            rcases hro with hro | hro
            · rw [List.mem_map] at hro
              obtain ⟨t, ht, hto⟩ := hro
              subst hto
              refine ⟨_, tipNumber, th, rfl, htip, hgt, Or.inr (Or.inl ⟨t.1, (bn, h, f, l), rfl, hr, hrange.2, ?_⟩)⟩
              exact List.mem_map.mpr ⟨t, ht, rfl⟩
            · simp at hro; subst hro
              exact ⟨_, tipNumber, th, rfl, htip, hgt, Or.inr (Or.inr ⟨bn, h, f, rfl, hrange.2⟩)⟩
          · simp at hro
    · simp at ho

end CkbVerif.Indexer

namespace CkbVerif.Indexer

variable {s : Store} {b : Block}

theorem flatMap_congr' {α β : Type} (l : List α) (f g : α → List β) (h : ∀ a ∈ l, f a = g a) :
    l.flatMap f = l.flatMap g := by
  induction l with
  | nil => rfl
  | cons a r ih =>
    simp only [List.flatMap_cons]
    rw [h a (by simp), ih (fun x hx => h x (by simp [hx]))]

/-- no Header row of `s` lists a transaction id of `b` (transaction ids are unique along the chain) -/
def HdrDisjoint (s : Store) (b : Block) : Prop :=
  ∀ r ∈ headerRows s, ∀ tx ∈ b.txs, tx.id ∉ r.2.2.2.map (·.1)

theorem tip_appendCore2 (wf : WFRollback2 s b) : tip (appendCore s b) = some (b.number, b.hash) := by
  rw [appendCore_eq']
  exact tip_cons_header _ _ _ _ _ (hdrBelow_rest2 wf _)

theorem headerRows_appendCore (wf : WFRollback2 s b) (r : HRow) (hr : r ∈ headerRows (appendCore s b)) :
    r.1 = b.number ∨ r ∈ headerRows s := by
  rw [appendCore_eq', headerRows_cons_header, List.mem_cons] at hr
  rcases hr with rfl | hr
  · exact Or.inl rfl
  · right
    rw [mem_headerRows_iff] at hr ⊢
    have he1 := (List.mem_filter.mp hr).1
    rcases mem_commit _ _ _ he1 with h1 | h1
    · exact h1
    · have := txsOps_ok s b _ h1
      simp [BOp.key, appendKeyOk] at this

/-- the rows `rollback` reads survive the automatic prune -/
theorem get_prune_appendCore (wf : WFRollback2 s b) (hd : HdrDisjoint s b) (keep : Nat) (k : Key)
    (hk : k.isAnswer = true ∨ (∃ op, k = .consumed b.number op) ∨ (∃ tx ∈ b.txs, k = .txHash tx.id)) :
    get (prune (appendCore s b) keep) k = get (appendCore s b) k := by
  unfold prune
  apply get_commit_untouched
  intro o ho heq
  obtain ⟨k', n, hh, rfl, htip, hgt, hcase⟩ := pruneOps_keys _ keep o ho
  rw [tip_appendCore2 wf] at htip
  cases htip
  simp only [BOp.key] at heq
  subst heq
  rcases hcase with ⟨bn, op, rfl, hlt⟩ | ⟨t, r, rfl, hr, hle, ht⟩ | ⟨bn, h, f, rfl, hle⟩
  · rcases hk with hk | ⟨op', hk⟩ | ⟨tx, _, hk⟩
    · cases hk
    · cases hk; omega
    · cases hk
  · rcases hk with hk | ⟨op', hk⟩ | ⟨tx, htx, hk⟩
    · cases hk
    · cases hk
    · cases hk
      rcases headerRows_appendCore wf r hr with h1 | h1
      · omega
      · exact hd r h1 tx htx ht
  · rcases hk with hk | ⟨op', hk⟩ | ⟨tx, _, hk⟩
    · cases hk
    · cases hk
    · cases hk

theorem tipRow_prune_appendCore (wf : WFRollback2 s b) (keep : Nat) :
    tipRow (prune (appendCore s b) keep) = some (b.number, b.hash, hdrFlag s b, hdrList s b) := by
  have htip := tip_appendCore2 wf
  have hd := pruneOps_dels (appendCore s b) keep
  unfold prune
  rw [appendCore_eq'] at hd htip ⊢
  rw [commit_dels_cons]
  · apply tipRow_cons_header
    intro e he bn' h' f' hk
    have : e ∈ del (commit s (txsOps s b)) (Key.header b.number b.hash (hdrFlag s b)) :=
      mem_commit_dels _ _ _ (fun o ho => by obtain ⟨k, hk, _⟩ := hd o ho; exact ⟨k, hk⟩) he
    exact hdrBelow_rest2 wf _ e this bn' h' f' hk
  · intro o ho
    obtain ⟨k, hk, _, hh⟩ := hd o ho
    refine ⟨k, hk, ?_⟩
    intro heq
    obtain ⟨n, hh', ht, hle, _⟩ := hh b.number b.hash (hdrFlag s b) heq
    rw [htip] at ht
    cases ht
    omega

/-- the rollback batch is the same with or without the intervening prune -/
theorem rollbackOps_prune (wf : WFRollback2 s b) (hd : HdrDisjoint s b) (keep : Nat) :
    rollbackOps (prune (appendCore s b) keep) = rollbackOps (appendCore s b) := by
  rw [rollbackOps_append2 wf]
  unfold rollbackOps
  rw [tipRow_prune_appendCore wf keep]
  dsimp only
  unfold Rtx
  congr 1
  apply flatMap_congr'
  rintro ⟨e, pos⟩ hmem
  rw [List.mem_reverse, List.mem_zipIdx_iff_getElem?] at hmem
  obtain ⟨i, tx, htx, hm, h1, h2, h3⟩ := hdrList_sound s b pos e hmem
  simp only
  rw [rbTxOps_eq, rbTxOps_eq]
  apply rbTxOpsCore_congr
  · intro op; exact get_prune_appendCore wf hd keep _ (Or.inl rfl)
  · intro op; exact get_prune_appendCore wf hd keep _ (Or.inr (Or.inl ⟨op, rfl⟩))
  · rw [h1]
    exact get_prune_appendCore wf hd keep _ (Or.inr (Or.inr ⟨tx, List.mem_of_getElem? htx, rfl⟩))

/-- **rollback after the full `append` (automatic prune included) restores every answer row** -/
theorem rollback_append_full_answers (wf : WFRollback2 s b) (hd : HdrDisjoint s b) (keep interval : Nat)
    (k : Key) (hk : k.isAnswer = true) :
    get (rollback (append keep interval s b)) k = get s k := by
  have hbase : get (rollback (appendCore s b)) k = get s k :=
    rollback_append_get2 wf k (by intro bn op h; rw [h] at hk; cases hk)
  unfold append
  dsimp only
  split
  · rw [← hbase]
    unfold rollback
    rw [rollbackOps_prune wf hd keep]
    apply get_commit_congr
    exact get_prune_appendCore wf hd keep k (Or.inl hk)
  · exact hbase

end CkbVerif.Indexer
