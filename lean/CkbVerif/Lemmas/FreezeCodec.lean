/-
The concrete codec of `Model/FreezeCodec.lean` satisfies `Codec.Ok` (non-vacuity of the hypotheses of
every theorem of `Props/C10Files.lean`).
-/
import CkbVerif.Model.FreezeCodec
namespace CkbVerif.FreezeSys.Demo
open CkbVerif.Store CkbVerif.Freezer

theorem decLL_encLL : ∀ (ll : List (List Nat)) (fuel : Nat), (encLL ll).length ≤ fuel →
    decLL fuel (encLL ll) = ll
  | [], fuel, _ => by cases fuel <;> rfl
  | l :: r, fuel, h => by
    simp only [encLL, List.length_cons, List.length_append] at h
    obtain ⟨f, rfl⟩ : ∃ f, fuel = f + 1 := ⟨fuel - 1, by omega⟩
    simp only [encLL, decLL, List.take_left', List.drop_left']
    rw [decLL_encLL r f (by omega)]

theorem unpairsOP_pairsOP (l : List OutPoint) : unpairsOP (pairsOP l) = l := by
  induction l with
  | nil => rfl
  | cons o r ih => simp [pairsOP, unpairsOP] at ih ⊢; exact ih

theorem unpairsOut_pairsOut (l : List Output) : unpairsOut (pairsOut l) = l := by
  induction l with
  | nil => rfl
  | cons o r ih => simp [pairsOut, unpairsOut] at ih ⊢; exact ih

theorem txsOfLL_flat (txs : List Tx) : txsOfLL (txs.flatMap txLL) = txs := by
  induction txs with
  | nil => rfl
  | cons t r ih =>
    simp only [List.flatMap_cons, txLL, List.cons_append, List.nil_append, txsOfLL,
      unpairsOP_pairsOP, unpairsOut_pairsOut]
    rw [ih]

theorem deser_ser (b : Block) : deser (ser b) = some b := by
  unfold deser ser
  rw [decLL_encLL _ _ (Nat.le_refl _)]
  cases b with
  | mk id parent number epoch txs uncles isHead epochRec =>
    cases epoch; cases epochRec
    simp only [blockLL, blockOfLL, txsOfLL_flat]
    cases isHead <;> rfl

/-- the hypotheses `Codec.Ok` are satisfiable -/
theorem demoCodec_ok : demoCodec.Ok := ⟨⟨fun _ => rfl, fun _ => rfl⟩, deser_ser⟩

end CkbVerif.FreezeSys.Demo
